import SphericalVerif.Model.Modes
import SphericalVerif.Lemmas.Modes
import SphericalVerif.Props.C11
/-! C20 — Modes objects store exactly the weights they were given, at the documented index.

    Property theorems only (helpers in `Lemmas/Modes.lean`).  They are about the executable model
    `Model.Modes` of the constructor / `index` / `truncate_ell` / views (validated against the real class by
    `vlib/glue_modes.py`), whose positions and sizes are the *generated* `Gen.Yindex` / `Gen.Ysize` and whose
    `index` guards are the generated `Gen.index_ok`.  Every statement is for all spin weights and all sizes. -/
namespace C20
open Gen Spec Model.Modes

/-! ### the constructor -/

/-- For `0 ≤ ell_min ≤ ell_max`, every spelling of a well-sized construction (keywords; three positionals; spin
    positional + keywords; `ell_max` deduced from the length; the same data as real pairs) returns a Modes with
    that spin weight and `ell_max`, the given leading shape and a last axis of `Ysize 0 ell_max` entries. -/
theorem ctor_accepts (s ell_min ell_max : Int) (t : Option Trunc) (lead : List Nat) (size : Nat)
    (h0 : 0 ≤ ell_min) (h1 : ell_min ≤ ell_max) (hsz : (size : Int) = Ysize ell_min ell_max) :
    let good : Outcome := .modes ⟨⟨s, ell_max, t⟩, lead, (Ysize 0 ell_max).toNat⟩ none
    ctor { pos := [], kwSpin := some s, kwEllMin := some ell_min, kwEllMax := some ell_max, kwTrunc := t,
           input := ⟨none, lead ++ [size], false⟩ } = good
    ∧ ctor { pos := [s, ell_min, ell_max], kwTrunc := t, input := ⟨none, lead ++ [size], false⟩ } = good
    ∧ ctor { pos := [s], kwEllMin := some ell_min, kwEllMax := some ell_max, kwTrunc := t,
             input := ⟨none, lead ++ [size], false⟩ } = good
    ∧ ctor { pos := [], kwSpin := some s, kwEllMin := some ell_min, kwEllMax := none, kwTrunc := t,
             input := ⟨none, lead ++ [size], false⟩ } = good
    ∧ ctor { pos := [], kwSpin := some s, kwEllMin := some ell_min, kwEllMax := some ell_max, kwTrunc := t,
             input := ⟨none, lead ++ [2 * size], true⟩ } = good := by
  have hn := Lemmas.Modes.stored_n ell_min ell_max size h0 hsz
  intro good
  refine ⟨?_, ?_, ?_, ?_, ?_⟩
  · rw [Lemmas.Modes.ctor_keyword s ell_min ell_max t lead size hsz, hn]
  · rw [Lemmas.Modes.ctor_pos3 s ell_min ell_max t lead size hsz, hn]
  · rw [Lemmas.Modes.ctor_pos1 s ell_min ell_max t lead size hsz, hn]
  · rw [Lemmas.Modes.ctor_deduced s ell_min ell_max t lead size h0 (by omega) hsz, hn]
  · rw [Lemmas.Modes.ctor_real_pairs _ lead size none rfl,
      Lemmas.Modes.ctor_keyword s ell_min ell_max t lead size hsz, hn]

example : ∃ (ell_min ell_max : Int) (size : Nat), 0 ≤ ell_min ∧ ell_min ≤ ell_max ∧ (size : Int) = Ysize ell_min ell_max :=
  ⟨2, 3, 12, by decide⟩

/-- The stored row has `Ysize 0 ell_max` entries (also for the empty input range `ell_max = ell_min - 1`). -/
theorem ctor_stored_length (ell_min ell_max : Int) (h0 : 0 ≤ ell_min) :
    storedLen ell_min ell_max = Ysize 0 ell_max := Lemmas.Modes.storedLen_eq ell_min ell_max h0

example : ∃ ell_min : Int, 0 ≤ ell_min := ⟨3, by decide⟩

/-- The entry at `index(ell, m)` is the input weight of `(ell, m)` for every `ell ≥ max(|s|, ell_min)`, and zero
    for every smaller `ell`. -/
theorem ctor_stores {α : Type} (s ell_min ell_max ell m : Int) (input : Nat → α) (zero : α)
    (h0 : 0 ≤ ell_min) (_h1 : ell_min ≤ ell_max) (hell : 0 ≤ ell) (_hmax : ell ≤ ell_max)
    (hm1 : -ell ≤ m) (hm2 : m ≤ ell) :
    (max (s.natAbs : Int) ell_min ≤ ell →
      stored s ell_min ell_max input zero (Yindex ell m 0).toNat = input (Yindex ell m ell_min).toNat)
    ∧ (ell < max (s.natAbs : Int) ell_min →
      stored s ell_min ell_max input zero (Yindex ell m 0).toNat = zero) := by
  constructor
  · intro h
    exact Lemmas.Modes.stored_high s ell_min ell_max ell m input zero h0 (by omega) (by omega) hm1 hm2
  · intro h
    exact Lemmas.Modes.stored_low s ell_min ell_max ell m input zero h0 hell (by omega) hm1 hm2

example : ∃ s ell_min ell_max ell m : Int, 0 ≤ ell_min ∧ ell_min ≤ ell_max ∧ 0 ≤ ell ∧ ell ≤ ell_max ∧ -ell ≤ m
    ∧ m ≤ ell ∧ max (s.natAbs : Int) ell_min ≤ ell := ⟨-2, 1, 5, 3, -3, by decide⟩
example : ∃ s ell_min ell_max ell m : Int, 0 ≤ ell_min ∧ ell_min ≤ ell_max ∧ 0 ≤ ell ∧ ell ≤ ell_max ∧ -ell ≤ m
    ∧ m ≤ ell ∧ ell < max (s.natAbs : Int) ell_min := ⟨-2, 1, 5, 1, 1, by decide⟩

/-- The position read from the input is inside the input, and is the position of `(ell, m)` in the documented
    ordering of the input range `ell_min..ell_max` (C11). -/
theorem ctor_reads_documented_position (ell_min ell_max ell m : Int) (h0 : 0 ≤ ell_min) (h1 : ell_min ≤ ell)
    (h2 : ell ≤ ell_max) (hm1 : -ell ≤ m) (hm2 : m ≤ ell) :
    0 ≤ Yindex ell m ell_min ∧ Yindex ell m ell_min < Ysize ell_min ell_max
      ∧ (yRange ell_min ell_max)[(Yindex ell m ell_min).toNat]? = some (ell, m) :=
  C11.yindex_get ell_min ell_max ell m h0 h1 h2 hm1 hm2

example : ∃ ell_min ell_max ell m : Int, 0 ≤ ell_min ∧ ell_min ≤ ell ∧ ell ≤ ell_max ∧ -ell ≤ m ∧ m ≤ ell :=
  ⟨2, 5, 3, -3, by decide⟩

/-- Deducing `ell_max` from a last axis of `n` entries succeeds exactly for the sizes `Ysize ell_min L` of the
    ranges `ell_min..L`, `L ≥ ell_min - 1` (the empty range included: `n = 0` is accepted and gives
    `ell_max = ell_min - 1`), and returns that `L`. -/
theorem ctor_accepts_exactly_perfect_sizes (n : Nat) (ell_min L : Int) (h : 0 ≤ ell_min) :
    deduceEllMax n ell_min = some L ↔ (ell_min - 1 ≤ L ∧ (n : Int) = Ysize ell_min L) :=
  Lemmas.Modes.deduce_iff n ell_min L h

example : deduceEllMax 0 0 = some (-1) ∧ deduceEllMax 0 3 = some 2 ∧ deduceEllMax 7 0 = none
    ∧ deduceEllMax 12 2 = some 3 :=
  ⟨(ctor_accepts_exactly_perfect_sizes 0 0 (-1) (by decide)).2 (by decide),
   (ctor_accepts_exactly_perfect_sizes 0 3 2 (by decide)).2 (by decide),
   Lemmas.Modes.deduce_none 7 0 2 (by decide) (by decide) (by decide),
   (ctor_accepts_exactly_perfect_sizes 12 2 3 (by decide)).2 (by decide)⟩

/-- Rejections: a missing spin weight; two or more than three extra positional arguments; a last axis whose
    length differs from `Ysize ell_min ell_max` (keyword / one-positional and three-positional spellings); a length
    that fits no range when `ell_max` is to be deduced. -/
theorem ctor_rejects (c : CtorCall) :
    (c.pos = [] → c.kwSpin = none → c.input.md = none → ctor c = .err .valueError)
    ∧ (c.pos.length = 2 ∨ 4 ≤ c.pos.length → ctor c = .err .valueError)
    ∧ (∀ (ell_min L : Int) (lead : List Nat) (size : Nat) (m : Option Meta),
        (c.pos = [] ∨ ∃ s, c.pos = [s]) → c.kwEllMin = some ell_min → c.kwEllMax = some L →
        c.input = ⟨m, lead ++ [size], false⟩ → (size : Int) ≠ Ysize ell_min L → ctor c = .err .valueError)
    ∧ (∀ (s ell_min L : Int) (lead : List Nat) (size : Nat) (m : Option Meta),
        c.pos = [s, ell_min, L] → c.input = ⟨m, lead ++ [size], false⟩ → (size : Int) ≠ Ysize ell_min L →
        ctor c = .err .valueError)
    ∧ (∀ (ell_min : Int) (lead : List Nat) (size : Nat),
        (c.pos = [] ∨ ∃ s, c.pos = [s]) → c.kwEllMin = some ell_min → c.kwEllMax = none →
        c.input = ⟨none, lead ++ [size], false⟩ → deduceEllMax size ell_min = none → ctor c = .err .valueError) :=
  ⟨Lemmas.Modes.ctor_nospin c, Lemmas.Modes.ctor_badpos c,
   fun ell_min L lead size m => Lemmas.Modes.ctor_size_mismatch c ell_min L lead size m,
   fun s ell_min L lead size m => Lemmas.Modes.ctor_size_mismatch_pos3 c s ell_min L lead size m,
   fun ell_min lead size => Lemmas.Modes.ctor_undeducible c ell_min lead size⟩

example : ∃ c : CtorCall, c.pos = [] ∧ c.kwSpin = none ∧ c.input.md = none :=
  ⟨{ pos := [], input := ⟨none, [4], false⟩ }, rfl, rfl, rfl⟩
example : ∃ c : CtorCall, c.pos.length = 2 ∨ 4 ≤ c.pos.length := ⟨{ pos := [0, 0], input := ⟨none, [4], false⟩ }, by decide⟩
example : ∃ (c : CtorCall) (ell_min L : Int) (lead : List Nat) (size : Nat) (m : Option Meta),
    (c.pos = [] ∨ ∃ s, c.pos = [s]) ∧ c.kwEllMin = some ell_min ∧ c.kwEllMax = some L ∧
    c.input = ⟨m, lead ++ [size], false⟩ ∧ (size : Int) ≠ Ysize ell_min L :=
  ⟨{ pos := [], kwSpin := some 0, kwEllMin := some 1, kwEllMax := some 3, input := ⟨none, [8], false⟩ }, 1, 3, [], 8,
    none, Or.inl rfl, rfl, rfl, rfl, by decide⟩
example : ∃ (c : CtorCall) (s ell_min L : Int) (lead : List Nat) (size : Nat) (m : Option Meta),
    c.pos = [s, ell_min, L] ∧ c.input = ⟨m, lead ++ [size], false⟩ ∧ (size : Int) ≠ Ysize ell_min L :=
  ⟨{ pos := [0, 1, 3], input := ⟨none, [8], false⟩ }, 0, 1, 3, [], 8, none, rfl, rfl, by decide⟩
example : ∃ (c : CtorCall) (ell_min : Int) (lead : List Nat) (size : Nat),
    (c.pos = [] ∨ ∃ s, c.pos = [s]) ∧ c.kwEllMin = some ell_min ∧ c.kwEllMax = none ∧
    c.input = ⟨none, lead ++ [size], false⟩ ∧ deduceEllMax size ell_min = none :=
  ⟨{ pos := [], kwSpin := some 0, kwEllMin := some 0, input := ⟨none, [7], false⟩ }, 0, [], 7, Or.inl rfl, rfl, rfl,
    rfl, Lemmas.Modes.deduce_none 7 0 2 (by decide) (by decide) (by decide)⟩

/-! ### index -/

/-- The generated guards of `Modes.index` accept exactly `|s| ≤ ell`, `|m| ≤ ell`, `0 ≤ ell ≤ ell_max`. -/
theorem index_guards (ell m s ell_max : Int) :
    index_ok ell m s 0 ell_max = true ↔
      ((s.natAbs : Int) ≤ ell ∧ (m.natAbs : Int) ≤ ell ∧ 0 ≤ ell ∧ ell ≤ ell_max) :=
  Lemmas.Modes.index_ok_iff ell m s ell_max

/-- `Modes.index` returns `Yindex ell m 0` when the guards pass and raises ValueError otherwise. -/
theorem index_outcome (o : Obj) (ell m : Int) :
    index o ell m = if index_ok ell m o.md.spin 0 o.md.ellMax then .ok (Yindex ell m 0) else .error .valueError := rfl

/-- When the guards pass the returned index is inside the row and is the position of `(ell, m)` in the
    documented ordering (C11). -/
theorem index_value_in_range (ell m s ell_max : Int) (h : index_ok ell m s 0 ell_max = true) :
    0 ≤ Yindex ell m 0 ∧ Yindex ell m 0 < Ysize 0 ell_max
      ∧ (yRange 0 ell_max)[(Yindex ell m 0).toNat]? = some (ell, m) := by
  obtain ⟨_, hm, h0, h1⟩ := (index_guards ell m s ell_max).1 h
  exact C11.yindex_get 0 ell_max ell m (le_refl 0) h0 h1 (by omega) (by omega)

example : index_ok 3 (-2) (-2) 0 5 = true := by decide

/-! ### truncate_ell -/

/-- `truncate_ell(L)` of an object whose last axis has the `Ysize 0 ell_max` entries its metadata says:
    for `0 ≤ L < ell_max` (whether or not `L < |s|`) a view of the first `Ysize 0 L` entries, unchanged, with
    `ell_max = L`, the same spin weight, truncator and leading shape, the receiver keeping its own metadata and
    length; for `L ≥ ell_max` the receiver itself. -/
theorem truncate_ell_spec {α : Type} (o : Obj) (L : Int) (row : Nat → α)
    (hn : o.n = (Ysize 0 o.md.ellMax).toNat) :
    (0 ≤ L → L < o.md.ellMax →
      (truncateEll o L).result = ⟨{ o.md with ellMax := L }, o.lead, (Ysize 0 L).toNat⟩
      ∧ (truncateEll o L).same = false
      ∧ (truncateEll o L).original = o
      ∧ ∀ p, p < (Ysize 0 L).toNat → truncateRow row p = row p)
    ∧ (o.md.ellMax ≤ L → (truncateEll o L).result = o ∧ (truncateEll o L).same = true
      ∧ (truncateEll o L).original = o) := by
  constructor
  · intro h0 h1
    have hlen := Lemmas.Modes.truncate_len o.n L o.md.ellMax h0 h1 hn
    unfold truncateEll
    rw [if_neg (by omega)]
    simp only [hlen]
    exact ⟨trivial, trivial, trivial, fun _ _ => rfl⟩
  · intro h
    unfold truncateEll
    rw [if_pos (by omega)]
    exact ⟨rfl, rfl, rfl⟩

example : ∃ (o : Obj) (L : Int), o.n = (Ysize 0 o.md.ellMax).toNat ∧ 0 ≤ L ∧ L < o.md.ellMax ∧ L < o.md.spin.natAbs :=
  ⟨⟨⟨-3, 5, none⟩, [2], 36⟩, 1, by decide⟩
example : ∃ (o : Obj) (L : Int), o.n = (Ysize 0 o.md.ellMax).toNat ∧ o.md.ellMax ≤ L := ⟨⟨⟨1, 2, none⟩, [], 9⟩, 4, by decide⟩

/-- On the heap: `truncate_ell` makes a view (same data buffer) with a *new* metadata dict in which `ell_max = L`
    and every other key present in the receiver's dict is kept; the receiver's dict is not altered. -/
theorem truncate_ell_original_untouched (h : Heap) (obj : PyObj) (L : Int) (k : String)
    (hw : obj.dict < h.nextDict) :
    let r := truncateObj h obj L
    r.2.buf = obj.buf ∧ r.2.dict ≠ obj.dict ∧ r.2.cls = .modes
    ∧ r.1.lookup r.2.dict "ell_max" = some (.int L)
    ∧ (k ≠ "ell_max" → (h.lookup obj.dict k).isSome → r.1.lookup r.2.dict k = h.lookup obj.dict k)
    ∧ r.1.lookup obj.dict k = h.lookup obj.dict k
    ∧ r.1.bufs = h.bufs := by
  intro r
  have hd : r.2.dict = h.nextDict := rfl
  have hne : obj.dict ≠ h.nextDict := by omega
  refine ⟨rfl, by rw [hd]; omega, rfl, ?_, ?_, ?_, rfl⟩
  · exact Lemmas.Modes.setKey_lookup_same _ _ _ _
  · intro hk hs
    show ((viewObj h obj).1.setKey (viewObj h obj).2.dict "ell_max" (.int L)).lookup (viewObj h obj).2.dict k = _
    rw [Lemmas.Modes.setKey_lookup_other_key _ _ _ _ _ hk]
    unfold Heap.lookup viewObj
    rw [Lemmas.Modes.finalize_dicts, Lemmas.Modes.finalize_obj, if_pos rfl]
    exact Lemmas.Modes.lookup_ensureKeys _ _ hs
  · show ((viewObj h obj).1.setKey (viewObj h obj).2.dict "ell_max" (.int L)).lookup obj.dict k = _
    rw [Lemmas.Modes.setKey_lookup_other_dict _ _ _ _ _ _ (by show obj.dict ≠ h.nextDict; exact hne)]
    unfold Heap.lookup viewObj
    rw [Lemmas.Modes.finalize_dicts, if_neg hne]

example : ∃ (h : Heap) (obj : PyObj), obj.dict < h.nextDict :=
  ⟨⟨fun _ => [], fun _ => [], fun _ _ => 0, 1, 0, 1⟩, ⟨.modes, 0, 0⟩, by decide⟩

/-! ### views -/

/-- A view along a leading axis keeps spin weight, `ell_max`, truncator and the length of the mode axis. -/
theorem views_keep_metadata (o v : Obj) (h : viewLead o = some v) :
    v.md = o.md ∧ v.n = o.n ∧ ∃ d, o.lead = d :: v.lead := by
  unfold viewLead at h
  split at h
  · simp at h
  · next d rest hl =>
    have : v = { o with lead := rest } := by simpa using h.symm
    subst this
    exact ⟨rfl, rfl, d, hl⟩

example : ∃ o v : Obj, viewLead o = some v := ⟨⟨⟨1, 2, none⟩, [3], 9⟩, _, rfl⟩

/-- On the heap (`__array_finalize__`): a view is a Modes on the same buffer with its own, new metadata dict
    holding every key of the parent's dict with the same value; the parent's dict is not altered. -/
theorem views_keep_metadata_heap (h : Heap) (obj : PyObj) (k : String) (hw : obj.dict < h.nextDict) :
    let r := viewObj h obj
    r.2.cls = .modes ∧ r.2.buf = obj.buf ∧ r.2.dict ≠ obj.dict
    ∧ ((h.lookup obj.dict k).isSome → r.1.lookup r.2.dict k = h.lookup obj.dict k)
    ∧ r.1.lookup obj.dict k = h.lookup obj.dict k := by
  intro r
  have hne : obj.dict ≠ h.nextDict := by omega
  refine ⟨rfl, rfl, by show h.nextDict ≠ obj.dict; omega, ?_, ?_⟩
  · intro hs
    show List.lookup k ((finalize h obj.buf obj).1.dicts (finalize h obj.buf obj).2.dict) = _
    rw [Lemmas.Modes.finalize_dicts, Lemmas.Modes.finalize_obj, if_pos rfl]
    exact Lemmas.Modes.lookup_ensureKeys _ _ hs
  · show List.lookup k ((finalize h obj.buf obj).1.dicts obj.dict) = _
    rw [Lemmas.Modes.finalize_dicts, if_neg hne]
    rfl

end C20
