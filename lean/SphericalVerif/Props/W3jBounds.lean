import SphericalVerif.Lemmas.W3jBounds
/-! Memory safety of `Wigner3jCalculator.calculate` (spherical/recursions/wigner3j.py).

    The kernel is jitted WITHOUT bounds checks and indexes four scratch vectors `f`, `sf = rf`,
    `F_minus`, `F_plus` of length `size = j2_max + j3_max + 1`.  The validated model
    `Model.W3j.calculate` has total accessors, so safety is stated on its instrumented twin
    `Model.W3j.calculateChk : Chk (Out α) = Out α × Bool` (`Model/W3jChecked.lean`): same text, every
    index `i` handed to an accessor is tested for `i < 0 ∨ size ≤ i` BEFORE `Int.toNat`, and the
    disjunction of all tests is the second component.

    All theorems hold for EVERY `Scalar α` — no law of the arithmetic is assumed, i.e. for arbitrary
    outcomes of the floating-point comparisons `lt / le / beq` that steer the control flow.

    Finding (`zeroCase_needed`): for `j_min = max |j2-j3| |m2+m3| = 0` the statement is FALSE for
    arbitrary comparison outcomes — `F_minus[j_mid - 1]` is read with `j_mid = 0`.  The path needs
    `Yf_j_min == 0.0` or `Xf_j_min == 0.0` to answer `False` although both values are zero, so IEEE
    doubles never take it; it is excluded by the hypothesis `ZeroCase`, which is void when `j_min > 0`
    and follows from two laws of zero (`zeroCase_of_laws`). -/
namespace W3jBounds
open Model.W3j Scalar
open Lemmas.W3jBounds (ZeroCase jminOf)
open Lemmas.W3j (Perm perm)
variable {α : Type} [Scalar α]

/-! ### 1. the twin is the same program -/

/-- The instrumented twin returns exactly the output of the model, for every arithmetic. -/
theorem calculateChk_agrees (size : Nat) (ws : Array α) (j2 j3 m2 m3 : Int) :
    (calculateChk size ws j2 j3 m2 m3).1 = calculate size ws j2 j3 m2 m3 :=
  Lemmas.W3jBounds.calculateChk_agrees size ws j2 j3 m2 m3

/-! ### 2. every access is in range -/

/-- Main statement.  `0 ≤ j2`, `0 ≤ j3`, capacity at least the request, workspace of `4*size` cells:
    no index is out of range — and the four views have exactly `size` cells, so "in range" means
    "inside the view".  `ZeroCase` only speaks when `j_min = 0`. -/
theorem calculate_in_bounds (size : Nat) (ws : Array α) (j2 j3 m2 m3 : Int)
    (h2 : 0 ≤ j2) (h3 : 0 ≤ j3) (hs : j2 + j3 + 1 ≤ size) (hws : ws.size = 4 * size)
    (hz : ZeroCase α j2 j3 m2 m3) :
    (calculateChk size ws j2 j3 m2 m3).2 = false ∧
    (let w0 : Array α := ws.map (fun _ => zero)
     (w0.extract 0 size).size = size ∧ (w0.extract size (2*size)).size = size ∧
     (w0.extract (2*size) (3*size)).size = size ∧ (w0.extract (3*size) (4*size)).size = size) :=
  ⟨Lemmas.W3jBounds.calculateChk_safe size ws j2 j3 m2 m3 h2 h3 hs hz,
   Lemmas.W3jBounds.views_size size ws hws⟩

/-- `j_min > 0` (`j2 ≠ j3` or `m2 + m3 ≠ 0`): unconditional, arbitrary comparison outcomes. -/
theorem calculate_in_bounds_pos (size : Nat) (ws : Array α) (j2 j3 m2 m3 : Int)
    (h2 : 0 ≤ j2) (h3 : 0 ≤ j3) (hs : j2 + j3 + 1 ≤ size) (hpos : j2 ≠ j3 ∨ m2 + m3 ≠ 0) :
    (calculateChk size ws j2 j3 m2 m3).2 = false :=
  Lemmas.W3jBounds.calculateChk_safe size ws j2 j3 m2 m3 h2 h3 hs
    (Lemmas.W3jBounds.zeroCase_of_pos j2 j3 m2 m3 hpos)

/-- `m2 = m3 = 0`: unconditional as well. -/
theorem calculate_in_bounds_m_zero (size : Nat) (ws : Array α) (j2 j3 : Int)
    (h2 : 0 ≤ j2) (h3 : 0 ≤ j3) (hs : j2 + j3 + 1 ≤ size) :
    (calculateChk size ws j2 j3 0 0).2 = false :=
  Lemmas.W3jBounds.calculateChk_safe size ws j2 j3 0 0 h2 h3 hs (fun _ => Or.inl ⟨rfl, rfl⟩)

/-- Every admissible call, for any arithmetic in which `0.0 == 0.0` and `0.0 * x == 0.0` hold for the
    values met (`x = A(1, j2, j3, 0)`, a finite number). -/
theorem calculate_in_bounds_of_zero_laws (size : Nat) (ws : Array α) (j2 j3 m2 m3 : Int)
    (h2 : 0 ≤ j2) (h3 : 0 ≤ j3) (hs : j2 + j3 + 1 ≤ size)
    (hb : beq (zero : α) zero = true) (hm : ∀ x : α, beq (zero *. x) zero = true) :
    (calculateChk size ws j2 j3 m2 m3).2 = false :=
  Lemmas.W3jBounds.calculateChk_safe size ws j2 j3 m2 m3 h2 h3 hs
    (Lemmas.W3jBounds.zeroCase_of_laws j2 j3 m2 m3 hb hm)

/-! ### 3. the hypothesis `ZeroCase` cannot be dropped -/

/-- exact integer operations, comparisons chosen by an adversary: `x == y` and `x < y` always answer
    `False`, `x ≤ y` answers `True` only for `0 ≤ 0` -/
@[reducible] def advScalar : Scalar Int where
  add := (· + ·)
  sub := (· - ·)
  mul := (· * ·)
  div a _ := a
  neg := (- ·)
  sqrt := id
  abs x := (x.natAbs : Int)
  ofInt := id
  half := 0
  inv4pi := 0
  lt _ _ := false
  le a b := decide (a = 0 ∧ b = 0)
  beq _ _ := false

/-- `calculate(1, 1, 1, -1)` on a calculator of capacity `(1, 1)`: `j_min = 0`, `j_max = 2`.
    `Yf_j_min == 0.0` answers `False` (although `Yf_j_min = 0`), `Xf_j_min * Yf_j_min >= 0.0` answers
    `True`: `F_minus[0] = 1`, `F_minus[1] = -Yf/Xf`, `j_minus = 1`.  In the reverse phase the
    recurrence loop `for j in range(j_max-1, j_minus-1, -1)` never breaks, leaving `j_plus = j_min = 0`.
    Then `j_mid = (1 + 0) // 2 = 0` and `F_minus[j_mid - 1] = F_minus[-1]` is read (checked by the
    kernel on the twin). -/
theorem zeroCase_needed :
    (@calculateChk Int advScalar 3 (Array.replicate 12 0) 1 1 1 (-1)).2 = true := by
  decide +kernel

/-! ### 4. the front ends -/

/-- `Wigner3j` (hence `clebsch_gordan`), past its selection rules, returns entry `a1` of a call
    `calculate size ws a2 a3 b2 b3` with `size = a2 + a3 + 1`, `ws` of `4*size` cells; that call is
    admissible (so all its accesses are in range), and `a1` is inside the returned view. -/
theorem wigner3j_in_bounds (j1 j2 j3 m1 m2 m3 : Int) (hs : m1 + m2 + m3 = 0)
    (h1 : (m1.natAbs : Int) ≤ j1) (h2 : (m2.natAbs : Int) ≤ j2) (h3 : (m3.natAbs : Int) ≤ j3)
    (ht : 2 * max (max j1 j2) j3 ≤ j1 + j2 + j3) :
    let p := perm j1 j2 j3 m1 m2 m3
    let size := (p.a2 + p.a3 + 1).toNat
    let ws : Array α := Array.replicate (4*size) zero
    (wigner3j (α := α) j1 j2 j3 m1 m2 m3 =
      let r := calculate size ws p.a2 p.a3 p.b2 p.b3
      if r.raised then none else some (geti r.f p.a1)) ∧
    ws.size = 4 * size ∧
    (ZeroCase α p.a2 p.a3 p.b2 p.b3 → (calculateChk size ws p.a2 p.a3 p.b2 p.b3).2 = false) ∧
    oobIdx size p.a1 = false := by
  intro p size ws
  have hc := Lemmas.W3jBounds.wigner3j_call_safe (α := α) j1 j2 j3 m1 m2 m3 hs h1 h2 h3 ht
  exact ⟨Lemmas.W3j.wigner3j_perm j1 j2 j3 m1 m2 m3 hs h1 h2 h3 ht, Array.size_replicate, hc.1, hc.2⟩

/-! ### 5. tests at `Float` (evaluated, not proved: `Float` is opaque to the kernel)
    * the flag stays down on every call with `j2, j3 ≤ 8`, all `m2, m3` including `|m| = j + 1`, with
      exact capacity and with 3 spare cells;
    * the two tests of `ZeroCase` answer `True` at `Float` for `j2 = j3 ≤ 300`, `m2 = -m3`. -/

def floatFlags (J extra : Nat) : Nat × Nat := Id.run do
  let mut bad := 0
  let mut tot := 0
  for j2 in [0:J+1] do
    for j3 in [0:J+1] do
      for m2' in [0:2*j2+3] do
        for m3' in [0:2*j3+3] do
          let m2 : Int := (m2' : Int) - j2 - 1
          let m3 : Int := (m3' : Int) - j3 - 1
          let size := j2 + j3 + 1 + extra
          let r := calculateChk (α := Float) size (Array.replicate (4*size) 0.0) j2 j3 m2 m3
          tot := tot + 1
          if r.2 then bad := bad + 1
  return (bad, tot)

def floatZeroCase (J : Nat) : Nat × Nat := Id.run do
  let mut bad := 0
  let mut tot := 0
  for j in [0:J+1] do
    for m' in [0:2*j+1] do
      let m : Int := (m' : Int) - j
      tot := tot + 1
      if !(isZero (Yf 0 j j m (-m) : Float) && isZero (Xf 0 j j 0 : Float)) then bad := bad + 1
  return (bad, tot)

#guard floatFlags 8 0 == (0, 9801)
#guard floatFlags 6 3 == (0, 3969)
#guard floatZeroCase 300 == (0, 90601)

end W3jBounds
