import SphericalVerif.Model.Grid
/-! Line-protocol operations for the Grid glue model (`none` = unknown / unparsable op).

    Tokens (after the leading `grid`):
      `ufunc <name> <call|at|other> kw=<0|1> out=<none|OUT> [form=…] ARG…`
      `method <name> ARG [ARG]`              name ∈ conjugate conjugate_inplace bar real imag absolute add subtract multiply divide
      `new shape=<SH> in=<none|SPIN;EXTRA> pos=<-|v,v,…> kwspin=<absent|none|int> kwextra=<EXTRA>`
      `copy <objCopy|copyCopy|copyDeepcopy|npArraySubok|pickle:P> <spin|none> <EXTRA> [lead=…]`
    ARG   = `g:<spin>:<nt>:<np>:<SH lead>:<metaId>:<EXTRA>` | `s:<nz|z>:<SH>:<int|none>`
    OUT   = `g:…` as above | `p:<SH>`
    SH    = `-` (empty) | `2x3x…`;  EXTRA = `-` | `key,key,…`;  `form=…` tokens are ignored. -/
namespace GridOps
open Model.Grid

def parseList (s : String) (sep : Char) : List String :=
  if s == "-" || s == "" then [] else s.splitOn (String.singleton sep)

def parseShape (s : String) : Option (List Nat) := (parseList s 'x').mapM String.toNat?
def parseExtra (s : String) : List String := parseList s ','
def parseOptInt (s : String) : Option (Option Int) :=
  if s == "none" then some none else s.toInt?.map some

def parseArg (s : String) : Option Arg :=
  match s.splitOn ":" with
  | ["g", sp, nt, np, lead, mid, ex] => do
    let sp ← sp.toInt?; let nt ← nt.toNat?; let np ← np.toNat?; let lead ← parseShape lead; let mid ← mid.toNat?
    pure (.grid { spin := sp, nTheta := nt, nPhi := np, lead := lead, metaId := mid, extra := parseExtra ex })
  | ["s", nz, sh, iv] => do
    let sh ← parseShape sh
    let iv ← parseOptInt iv
    pure (.scalar (nz == "nz") sh iv)
  | _ => none

def parseOut (s : String) : Option (Option OutArg) :=
  if s == "none" then some none else
  match s.splitOn ":" with
  | ["p", sh] => (parseShape sh).map (fun sh => some (.plain sh))
  | _ => match parseArg s with
    | some (.grid g) => some (some (.grid g))
    | _ => none

def parseUF : String → UF
  | "greater" => .greater | "greater_equal" => .greater_equal | "less" => .less | "less_equal" => .less_equal
  | "not_equal" => .not_equal | "equal" => .equal | "logical_and" => .logical_and | "logical_or" => .logical_or
  | "isfinite" => .isfinite | "isinf" => .isinf | "isnan" => .isnan
  | "positive" => .positive | "negative" => .negative | "add" => .add | "subtract" => .subtract
  | "multiply" => .multiply | "divide" => .divide | "true_divide" => .true_divide
  | "conj" => .conj | "conjugate" => .conjugate | "absolute" => .absolute | "power" => .power
  | "sqrt" => .sqrt | "square" => .square | "reciprocal" => .reciprocal
  | _ => .other

def parseMeth : String → Option Meth
  | "call" => some .call | "at" => some .at | "other" => some .otherMeth | _ => none

def parseMethod : String → Option Method
  | "conjugate" => some (.conjugate false) | "conjugate_inplace" => some (.conjugate true)
  | "bar" => some .bar | "real" => some .real | "imag" => some .imag | "absolute" => some .absolute
  | "add" => some .add | "subtract" => some .subtract | "multiply" => some .multiply | "divide" => some .divide
  | _ => none

def showList (xs : List String) (sep : String) : String := if xs.isEmpty then "-" else sep.intercalate xs
def showShape (sh : List Nat) : String := showList (sh.map toString) "x"
def showMId : MId → String
  | .fresh _ => "fresh"
  | .pre i => s!"pre:{i}"

def showErr : Err → String
  | .tooManyPositional => "toomanypos" | .ndimLt2 => "ndim" | .noSpin => "nospin" | .tooSmall => "toosmall"
  | .kwargs => "kwargs" | .spinMismatch => "spin" | .spinMismatchSubtract => "spin-subtract"
  | .shapeMismatch => "shape" | .scalarDims => "scalardims" | .numpyBroadcast => "npbroadcast"
  | .indexError => "index" | .realImagSpin => "realimag" | .scalarNonzero => "scalarnonzero"
  | .cannotBroadcast => "cannotbroadcast"

def showExc : PyExc → String
  | .ValueError => "ValueError" | .NameError => "NameError"
  | .NotImplementedError => "NotImplementedError" | .IndexError => "IndexError"

def showRes : Res → String
  | .grid r => s!"grid spin={r.spin} nt={r.nTheta} np={r.nPhi} lead={showShape r.lead} extra={showList r.extra ","} meta={showMId r.metaId} obj={if r.obj == .new then "new" else "self"}"
  | .plain => "plain"
  | .none => "none"
  | .notImplemented => "notimpl"
  | .raises e => s!"raise {showErr e} {showExc e.pyClass}"

def showOutEff (c : Call) (r : Res × Option Meta) : String :=
  match c.out with
  | some (.grid _) =>
    match r.2 with
    | none => "out0 unchanged"
    | some m =>
      let same := match r.1 with | .grid g => g.metaId == m.id | _ => false
      s!"out0 spin={match m.spin with | some s => toString s | none => "none"} extra={showList m.extra ","} meta={showMId m.id} sameasresult={if same then 1 else 0}"
  | _ => "out0 na"

def kv (pfx tok : String) : Option String :=
  if tok.startsWith pfx then some (tok.drop pfx.length).toString else none

def stepUfunc (toks : List String) : Option String :=
  match toks with
  | name :: meth :: kw :: out :: rest => do
    let meth ← parseMeth meth
    let kw ← kv "kw=" kw
    let out ← (kv "out=" out).bind parseOut
    let args ← (rest.filter (fun t => !t.startsWith "form=")).mapM parseArg
    let c : Call := { uf := parseUF name, meth := meth, args := args, out := out, kwargs := kw == "1" }
    match dispatch c with
    | none => pure "nogrid"
    | some r => pure (showRes r.1 ++ " | " ++ showOutEff c r)
  | _ => none

def stepMethod (toks : List String) : Option String :=
  match toks with
  | [name, a] => do
    let m ← parseMethod name
    match ← parseArg a with
    | .grid g => pure (showRes (method m g none))
    | _ => none
  | [name, a, b] => do
    let m ← parseMethod name
    let b ← parseArg b
    match ← parseArg a with
    | .grid g => pure (showRes (method m g (some b)))
    | _ => none
  | _ => none

def stepNew (toks : List String) : Option String :=
  match toks with
  | [sh, inm, pos, kwspin, kwextra] => do
    let sh ← (kv "shape=" sh).bind parseShape
    let inm ← kv "in=" inm
    let inMeta : Option Meta ←
      if inm == "none" then pure none else
        match inm.splitOn ";" with
        | [sp, ex] => do let sp ← parseOptInt sp; pure (some ⟨.pre 0, sp, parseExtra ex⟩)
        | _ => none
    let pos ← ((kv "pos=" pos).map (parseList · ',')).bind (·.mapM parseOptInt)
    let kwspin ← kv "kwspin=" kwspin
    let kwSpin : Option (Option Int) ← if kwspin == "absent" then pure none else (parseOptInt kwspin).map some
    let kwextra ← kv "kwextra=" kwextra
    pure (showRes (resOfExcept (new (.fresh 0) inMeta sh pos kwSpin (parseExtra kwextra))))
  | _ => none

def parseRoute (s : String) : Option Route :=
  match s.splitOn ":" with
  | ["objCopy"] => some .objCopy | ["copyCopy"] => some .copyCopy | ["copyDeepcopy"] => some .copyDeepcopy
  | ["npArraySubok"] => some .npArraySubok
  | ["pickle", p] => p.toNat?.map .pickle
  | _ => none

def showHook : Hook → String
  | .finalizeFrom => "finalize" | .finalizeNone => "finalize-none" | .reduce => "reduce" | .setstate => "setstate"
  | .deepcopy => "deepcopy"

def b01 (b : Bool) : String := if b then "1" else "0"

/-- build a heap holding one Grid (dict 0; value objects 1..n; buffer n+1), copy it by `route`, report
    what is preserved, what is shared, and whether mutations on one side are visible on the other -/
def stepCopy (toks : List String) : Option String :=
  match toks with
  | [route, spin, extra] => do
    let route ← parseRoute route
    let spin ← parseOptInt spin
    let keys := parseExtra extra
    let n := keys.length
    let entries := (List.range n).zip keys |>.map (fun (i, k) => (k, i + 1))
    let h0 : Heap := { dict := fun i => if i = 0 then some ⟨spin, entries⟩ else none,
                       val := fun i => if 1 ≤ i ∧ i ≤ n then some s!"v{i}" else none,
                       buf := fun i => if i = n + 1 then some 42 else none,
                       next := n + 2 }
    let o : AObj := { cls := .Grid, buf := n + 1, md := some 0 }
    let (c, h1) := copyVia route h0 o
    let cmd := c.md.getD 0
    let cd : DictC := (h1.dict cmd).getD ⟨none, []⟩
    let valsShared := cd.extra.map (·.2) == entries.map (·.2)
    let valsEqual := cd.extra.map (fun e => (e.1, h1.val e.2)) == entries.map (fun e => (e.1, h0.val e.2))
    -- mutate the copy's dict, its first value object, its buffer: look at the original
    let h2 := ((h1.setDict cmd ⟨some 77, ("new_key", 0) :: cd.extra⟩).setBuf c.buf 99)
    let h2 := match cd.extra with | e :: _ => h2.setVal e.2 "mutated" | [] => h2
    let origDictSame := h2.dict 0 == h0.dict 0
    let origBufSame := h2.buf o.buf == h0.buf o.buf
    let origValSame := match entries with | e :: _ => h2.val e.2 == h0.val e.2 | [] => true
    -- mutate the original's dict / first value / buffer: look at the copy
    let h3 := ((h1.setDict 0 ⟨some 55, [("other_key", 0)]⟩).setBuf o.buf 7)
    let h3 := match entries with | e :: _ => h3.setVal e.2 "mutated" | [] => h3
    let copyDictSame := h3.dict cmd == h1.dict cmd
    let copyBufSame := h3.buf c.buf == h1.buf c.buf
    let copyValSame := match cd.extra with | e :: _ => h3.val e.2 == h1.val e.2 | [] => true
    pure (s!"hooks={showList (route.hooks.map showHook) ","} cls={if c.cls == .Grid then "Grid" else "ndarray"} " ++
      s!"hasmd={b01 c.md.isSome} spin={match cd.spin with | some s => toString s | none => "none"} extra={showList (cd.extra.map (·.1)) ","} " ++
      s!"valsequal={b01 valsEqual} mdsame={b01 (c.md == o.md)} valsshared={b01 (valsShared && n > 0)} bufsame={b01 (c.buf == o.buf)} databytes={b01 (h1.buf c.buf == h0.buf o.buf)} " ++
      s!"orig_dict_unaffected={b01 origDictSame} orig_buf_unaffected={b01 origBufSame} orig_val_unaffected={b01 origValSame} " ++
      s!"copy_dict_unaffected={b01 copyDictSame} copy_buf_unaffected={b01 copyBufSame} copy_val_unaffected={b01 copyValSame}")
  | _ => none

def step (toks : List String) : Option String :=
  match toks with
  | "ufunc" :: rest => stepUfunc rest
  | "method" :: rest => stepMethod rest
  | "new" :: rest => stepNew rest
  | "copy" :: rest => stepCopy (rest.filter (fun t => !t.startsWith "lead="))
  | _ => none
end GridOps
