import SphericalVerif.Props.HomAll
import SphericalVerif.Props.C12
import Mathlib.Analysis.SpecialFunctions.Trigonometric.Deriv
import Mathlib.Analysis.Calculus.Deriv.Mul
import Mathlib.Analysis.Calculus.Deriv.Add
import Mathlib.Analysis.Calculus.Deriv.Pow
import Mathlib.Analysis.Calculus.Deriv.Star
import Mathlib.Analysis.Calculus.Deriv.Shift
import Mathlib.Analysis.Complex.RealDeriv
/-! Helper lemmas for `Props/Generators.lean`, part 1: the derivative at the identity of the DOCUMENTED Wigner matrix
    `DDef.docD` along a curve of rotors, and the ℂ-valued versions of the model's `Lz`, `Lplus`, `Lminus`.

    Method.  `DocHom.docD_eq_coeff`: D^ℓ(A, B)_{n,m} = N_{n,m} · [X^{ℓ−m}] (A − conj(B) X)^{ℓ+n} (B + conj(A) X)^{ℓ−n}.
    A family of polynomials t ↦ P(t) is differentiated COEFFICIENT BY COEFFICIENT (`PD`), with the product and power
    rules; at A = 1, B = 0 the two linear factors are 1 and X, so that the derivative of the generating polynomial is
    [(ℓ+n) a + (ℓ−n) conj a] X^{ℓ−n} − (ℓ+n) conj(b) X^{ℓ−n+1} + (ℓ−n) b X^{ℓ−n−1}  (a = A'(0), b = B'(0)) — only the
    terms of total B-degree ≤ 1 survive.  With the normalisation N this is the tridiagonal matrix `dGen`. -/
noncomputable section
namespace Generators
open Polynomial Model DDef DHom HomAll DocHom
open scoped ComplexConjugate Nat

/-! ### coefficientwise differentiation of a family of polynomials -/

/-- every coefficient of `P t` is differentiable at `t0`, the derivatives being the coefficients of `P'` -/
def PD (P : ℝ → ℂ[X]) (P' : ℂ[X]) (t0 : ℝ) : Prop :=
  ∀ k : ℕ, HasDerivAt (fun t => (P t).coeff k) (P'.coeff k) t0

theorem PD_const (P : ℂ[X]) (t0 : ℝ) : PD (fun _ => P) 0 t0 := by
  intro k
  simpa using hasDerivAt_const t0 (P.coeff k)

theorem PD_lin (α β : ℝ → ℂ) (a b : ℂ) (t0 : ℝ) (hα : HasDerivAt α a t0) (hβ : HasDerivAt β b t0) :
    PD (fun t => C (α t) + C (β t) * X) (C a + C b * X) t0 := by
  intro k
  rcases k with _ | _ | k
  · simpa using hα
  · simpa using hβ
  · simpa [coeff_X, coeff_C] using hasDerivAt_const t0 (0 : ℂ)

theorem PD_mul (P Q : ℝ → ℂ[X]) (P' Q' : ℂ[X]) (t0 : ℝ) (hP : PD P P' t0) (hQ : PD Q Q' t0) :
    PD (fun t => P t * Q t) (P' * Q t0 + P t0 * Q') t0 := by
  intro k
  simp only [coeff_mul, coeff_add]
  rw [← Finset.sum_add_distrib]
  exact HasDerivAt.fun_sum (fun x _ => (hP x.1).mul (hQ x.2))

theorem PD_pow (P : ℝ → ℂ[X]) (P' : ℂ[X]) (t0 : ℝ) (hP : PD P P' t0) :
    ∀ n : ℕ, PD (fun t => P t ^ n) (C (n : ℂ) * P t0 ^ (n - 1) * P') t0
  | 0 => by simpa using PD_const 1 t0
  | n + 1 => by
    have h := PD_mul _ _ _ _ t0 (PD_pow P P' t0 hP n) hP
    have e : C (n : ℂ) * P t0 ^ (n - 1) * P' * P t0 + P t0 ^ n * P' = C ((n + 1 : ℕ) : ℂ) * P t0 ^ (n + 1 - 1) * P' := by
      rcases n with _ | n
      · simp
      · simp only [Nat.add_sub_cancel, Nat.cast_add, Nat.cast_one, C_add, C_1, pow_succ]
        ring
    rw [e] at h
    simpa only [pow_succ] using h

/-- the derivative at a point where the first linear factor is 1 and the second is X -/
theorem PD_gen (α β γ δ : ℝ → ℂ) (a b c d : ℂ) (hα0 : α 0 = 1) (hβ0 : β 0 = 0) (hγ0 : γ 0 = 0) (hδ0 : δ 0 = 1)
    (hα : HasDerivAt α a 0) (hβ : HasDerivAt β b 0) (hγ : HasDerivAt γ c 0) (hδ : HasDerivAt δ d 0) (p q : ℕ) :
    PD (fun t => gen (α t) (β t) (γ t) (δ t) p q)
      (C ((p : ℂ) * a + (q : ℂ) * d) * X ^ q + C ((p : ℂ) * b) * X ^ (q + 1) + C ((q : ℂ) * c) * X ^ (q - 1)) 0 := by
  have h := PD_mul _ _ _ _ 0 (PD_pow _ _ 0 (PD_lin α β a b 0 hα hβ) p) (PD_pow _ _ 0 (PD_lin γ δ c d 0 hγ hδ) q)
  have e : C ((p : ℂ)) * (C (α 0) + C (β 0) * X) ^ (p - 1) * (C a + C b * X) * (C (γ 0) + C (δ 0) * X) ^ q
        + (C (α 0) + C (β 0) * X) ^ p * (C ((q : ℂ)) * (C (γ 0) + C (δ 0) * X) ^ (q - 1) * (C c + C d * X))
      = C ((p : ℂ) * a + (q : ℂ) * d) * X ^ q + C ((p : ℂ) * b) * X ^ (q + 1) + C ((q : ℂ) * c) * X ^ (q - 1) := by
    rw [hα0, hβ0, hγ0, hδ0]
    simp only [C_0, C_1, zero_mul, add_zero, zero_add, one_pow, one_mul, mul_one, C_add, C_mul]
    rcases q with _ | q
    · simp only [Nat.cast_zero, C_0, zero_mul, add_zero, pow_zero, mul_one, zero_add, pow_one]
      ring
    · simp only [Nat.add_sub_cancel, pow_succ]
      ring
  rw [e] at h
  exact h

/-! ### the tridiagonal matrix of first derivatives -/

/-- the coefficient of X^k in the derivative polynomial of `PD_gen` -/
theorem coeff_dpoly (u v c : ℂ) (q k : ℕ) :
    (C u * X ^ q + C v * X ^ (q + 1) + C ((q : ℂ) * c) * X ^ (q - 1)).coeff k
      = (if k = q then u else 0) + (if k = q + 1 then v else 0) + (if k + 1 = q then (q : ℂ) * c else 0) := by
  rw [coeff_add, coeff_add, coeff_C_mul_X_pow, coeff_C_mul_X_pow, coeff_C_mul_X_pow]
  congr 1
  rcases q with _ | q
  · simp
  · simp

theorem sqrt_div_mul {x y : ℝ} (hx : 0 < x) (_hy : 0 ≤ y) : Real.sqrt (y / x) * x = Real.sqrt (x * y) := by
  have e : x * y = x ^ 2 * (y / x) := by field_simp
  rw [e, Real.sqrt_mul (sq_nonneg x), Real.sqrt_sq hx.le, mul_comm]

/-- N_{n,n−1} (ℓ+n) = √((ℓ+n)(ℓ−n+1)) -/
theorem nrm_down (ℓ : ℕ) (n : ℤ) (h1 : -(ℓ : ℤ) < n) (h2 : n ≤ ℓ) :
    nrm ℓ n (n - 1) * ((((ℓ : ℤ) + n).toNat : ℕ) : ℂ)
      = ((Real.sqrt (((ℓ : ℝ) + n) * (ℓ - n + 1)) : ℝ) : ℂ) := by
  obtain ⟨p, hp⟩ : ∃ p : ℕ, ((ℓ : ℤ) + n).toNat = p + 1 := ⟨((ℓ : ℤ) + n).toNat - 1, by omega⟩
  obtain ⟨q, hq⟩ : ∃ q : ℕ, ((ℓ : ℤ) - n).toNat = q := ⟨_, rfl⟩
  have e1 : ((ℓ : ℤ) + (n - 1)).toNat = p := by omega
  have e2 : ((ℓ : ℤ) - (n - 1)).toNat = q + 1 := by omega
  have c1 : (ℓ : ℝ) + n = (p : ℝ) + 1 := by
    have : (ℓ : ℤ) + n = (p : ℤ) + 1 := by omega
    exact_mod_cast this
  have c2 : (ℓ : ℝ) - n + 1 = (q : ℝ) + 1 := by
    have : (ℓ : ℤ) - n + 1 = (q : ℤ) + 1 := by omega
    exact_mod_cast this
  unfold nrm fac
  rw [e1, e2, hp, hq, c1, c2, ← Complex.ofReal_natCast, ← Complex.ofReal_mul]
  congr 1
  have hpq : (((p ! * (q + 1)! : ℕ) : ℝ)) / (((p + 1)! * q ! : ℕ) : ℝ) = ((q : ℝ) + 1) / ((p : ℝ) + 1) := by
    have f1 : ((p ! : ℕ) : ℝ) ≠ 0 := by exact_mod_cast (Nat.factorial_pos p).ne'
    have f2 : ((q ! : ℕ) : ℝ) ≠ 0 := by exact_mod_cast (Nat.factorial_pos q).ne'
    have f3 : ((p : ℝ) + 1) ≠ 0 := by positivity
    rw [Nat.factorial_succ, Nat.factorial_succ]
    push_cast
    field_simp
  rw [hpq]
  push_cast
  exact sqrt_div_mul (by positivity) (by positivity)

/-- N_{n,n+1} (ℓ−n) = √((ℓ−n)(ℓ+n+1)) -/
theorem nrm_up (ℓ : ℕ) (n : ℤ) (h1 : -(ℓ : ℤ) ≤ n) (h2 : n < ℓ) :
    nrm ℓ n (n + 1) * ((((ℓ : ℤ) - n).toNat : ℕ) : ℂ)
      = ((Real.sqrt (((ℓ : ℝ) - n) * (ℓ + n + 1)) : ℝ) : ℂ) := by
  obtain ⟨q, hq⟩ : ∃ q : ℕ, ((ℓ : ℤ) - n).toNat = q + 1 := ⟨((ℓ : ℤ) - n).toNat - 1, by omega⟩
  obtain ⟨p, hp⟩ : ∃ p : ℕ, ((ℓ : ℤ) + n).toNat = p := ⟨_, rfl⟩
  have e1 : ((ℓ : ℤ) + (n + 1)).toNat = p + 1 := by omega
  have e2 : ((ℓ : ℤ) - (n + 1)).toNat = q := by omega
  have c1 : (ℓ : ℝ) - n = (q : ℝ) + 1 := by
    have : (ℓ : ℤ) - n = (q : ℤ) + 1 := by omega
    exact_mod_cast this
  have c2 : (ℓ : ℝ) + n + 1 = (p : ℝ) + 1 := by
    have : (ℓ : ℤ) + n + 1 = (p : ℤ) + 1 := by omega
    exact_mod_cast this
  unfold nrm fac
  rw [e1, e2, hp, hq, c1, c2, ← Complex.ofReal_natCast, ← Complex.ofReal_mul]
  congr 1
  have hpq : ((((p + 1)! * q ! : ℕ) : ℝ)) / ((p ! * (q + 1)! : ℕ) : ℝ) = ((p : ℝ) + 1) / ((q : ℝ) + 1) := by
    have f1 : ((p ! : ℕ) : ℝ) ≠ 0 := by exact_mod_cast (Nat.factorial_pos p).ne'
    have f2 : ((q ! : ℕ) : ℝ) ≠ 0 := by exact_mod_cast (Nat.factorial_pos q).ne'
    have f3 : ((q : ℝ) + 1) ≠ 0 := by positivity
    rw [Nat.factorial_succ, Nat.factorial_succ]
    push_cast
    field_simp
  rw [hpq]
  push_cast
  exact sqrt_div_mul (by positivity) (by positivity)

/-- the real number √x as a complex number -/
def sqrtC (x : ℝ) : ℂ := ((Real.sqrt x : ℝ) : ℂ)

/-- the matrix of first derivatives at the identity of D^ℓ along a curve with A(0) = 1, B(0) = 0, A'(0) = a,
    B'(0) = b: rows n, columns m; diagonal (ℓ+n) a + (ℓ−n) conj a, subdiagonal m = n−1: −conj(b) √((ℓ+n)(ℓ−n+1)),
    superdiagonal m = n+1: b √((ℓ−n)(ℓ+n+1)) -/
def dGen (ℓ : ℕ) (a b : ℂ) (n m : ℤ) : ℂ :=
  (if n = m then ((ℓ : ℂ) + n) * a + ((ℓ : ℂ) - n) * conj a else 0)
  + (if n = m + 1 then -conj b * sqrtC (((ℓ : ℝ) + n) * (ℓ - n + 1)) else 0)
  + (if n = m - 1 then b * sqrtC (((ℓ : ℝ) - n) * (ℓ + n + 1)) else 0)

theorem toNat_cast_add (ℓ : ℕ) (n : ℤ) (hn : n.natAbs ≤ ℓ) : ((((ℓ : ℤ) + n).toNat : ℕ) : ℂ) = (ℓ : ℂ) + n := by
  have : ((((ℓ : ℤ) + n).toNat : ℕ) : ℤ) = (ℓ : ℤ) + n := by omega
  exact_mod_cast congrArg (fun z : ℤ => (z : ℂ)) this

theorem toNat_cast_sub (ℓ : ℕ) (n : ℤ) (hn : n.natAbs ≤ ℓ) : ((((ℓ : ℤ) - n).toNat : ℕ) : ℂ) = (ℓ : ℂ) - n := by
  have : ((((ℓ : ℤ) - n).toNat : ℕ) : ℤ) = (ℓ : ℤ) - n := by omega
  exact_mod_cast congrArg (fun z : ℤ => (z : ℂ)) this

/-- **the derivative at the identity of the documented D along a curve of (A, B)** -/
theorem docD_hasDerivAt_zero (ℓ : ℕ) (A B : ℝ → ℂ) (a b : ℂ) (hA0 : A 0 = 1) (hB0 : B 0 = 0)
    (hA : HasDerivAt A a 0) (hB : HasDerivAt B b 0) (n m : ℤ) (hn : n.natAbs ≤ ℓ) (hm : m.natAbs ≤ ℓ) :
    HasDerivAt (fun t => docD ℓ (A t) (B t) n m) (dGen ℓ a b n m) 0 := by
  have e : (fun t => docD ℓ (A t) (B t) n m) = fun t => nrm ℓ n m *
      (gen (A t) (-conj (B t)) (B t) (conj (A t)) ((ℓ : ℤ) + n).toNat ((ℓ : ℤ) - n).toNat).coeff ((ℓ : ℤ) - m).toNat :=
    funext fun t => docD_eq_coeff ℓ (A t) (B t) n m hn hm
  rw [e]
  have h := PD_gen A (fun t => -conj (B t)) B (fun t => conj (A t)) a (-conj b) b (conj a) hA0 (by simp [hB0]) hB0
    (by simp [hA0]) hA hB.star.neg hB hA.star ((ℓ : ℤ) + n).toNat ((ℓ : ℤ) - n).toNat ((ℓ : ℤ) - m).toNat
  refine (h.const_mul (nrm ℓ n m)).congr_deriv ?_
  rw [coeff_dpoly]
  unfold dGen
  by_cases c0 : n = m
  · subst c0
    rw [if_pos rfl, if_neg (by omega), if_neg (by omega), if_pos rfl, if_neg (by omega), if_neg (by omega), nrm_self,
      toNat_cast_add ℓ n hn, toNat_cast_sub ℓ n hn]
    ring
  · by_cases c1 : n = m + 1
    · subst c1
      have hm' : m = m + 1 - 1 := by ring
      rw [if_neg (by omega), if_pos (by omega), if_neg (by omega), if_neg c0, if_pos rfl, if_neg (by omega)]
      have k := nrm_down ℓ (m + 1) (by omega) (by omega)
      rw [← hm'] at k
      unfold sqrtC
      linear_combination (-(conj b)) * k
    · by_cases c2 : n = m - 1
      · subst c2
        have hm' : m = m - 1 + 1 := by ring
        rw [if_neg (by omega), if_neg (by omega), if_pos (by omega), if_neg c0, if_neg c1, if_pos rfl]
        have k := nrm_up ℓ (m - 1) (by omega) (by omega)
        rw [← hm'] at k
        unfold sqrtC
        linear_combination b * k
      · rw [if_neg (by omega), if_neg (by omega), if_neg (by omega), if_neg c0, if_neg c1, if_neg c2]
        ring

/-! ### the model's L operators on ℂ-valued weights, and the one-parameter subgroups -/

/-- `Lz` on ℂ-valued weights (cell formula `C12.Lz_cell`) -/
def LzC (f : ℕ → ℤ → ℂ) (ℓ : ℕ) (m : ℤ) : ℂ := (m : ℂ) * f ℓ m

/-- `Lplus` on ℂ-valued weights (cell formula `C12.Lplus_cell`; zero outside −ℓ < m ≤ ℓ as in the model) -/
def LpC (f : ℕ → ℤ → ℂ) (ℓ : ℕ) (m : ℤ) : ℂ :=
  if -(ℓ : ℤ) < m ∧ m ≤ ℓ then sqrtC (((ℓ : ℝ) + m) * (ℓ - m + 1)) * f ℓ (m - 1) else 0

/-- `Lminus` on ℂ-valued weights (cell formula `C12.Lminus_cell`; zero outside −ℓ ≤ m < ℓ as in the model) -/
def LmC (f : ℕ → ℤ → ℂ) (ℓ : ℕ) (m : ℤ) : ℂ :=
  if -(ℓ : ℤ) ≤ m ∧ m < ℓ then sqrtC (((ℓ : ℝ) - m) * (ℓ + m + 1)) * f ℓ (m + 1) else 0

/-- L_x = (L₊ + L₋)/2 -/
def LxC (f : ℕ → ℤ → ℂ) (ℓ : ℕ) (m : ℤ) : ℂ := (LpC f ℓ m + LmC f ℓ m) / 2

/-- L_y = (L₊ − L₋)/(2i) -/
def LyC (f : ℕ → ℤ → ℂ) (ℓ : ℕ) (m : ℤ) : ℂ := (LpC f ℓ m - LmC f ℓ m) / (2 * Complex.I)

/-- L_g = g_x L_x + g_y L_y + g_z L_z for a vector g = (·, g_x, g_y, g_z) -/
def LgC (g : Quat ℝ) (f : ℕ → ℤ → ℂ) (ℓ : ℕ) (m : ℤ) : ℂ :=
  (g.x : ℂ) * LxC f ℓ m + (g.y : ℂ) * LyC f ℓ m + (g.z : ℂ) * LzC f ℓ m

/-- the unit vectors -/
def qx : Quat ℝ := ⟨0, 1, 0, 0⟩
def qy : Quat ℝ := ⟨0, 0, 1, 0⟩
def qz : Quat ℝ := ⟨0, 0, 0, 1⟩

theorem LgC_qx (f : ℕ → ℤ → ℂ) (ℓ : ℕ) (m : ℤ) : LgC qx f ℓ m = LxC f ℓ m := by simp [LgC, qx]
theorem LgC_qy (f : ℕ → ℤ → ℂ) (ℓ : ℕ) (m : ℤ) : LgC qy f ℓ m = LyC f ℓ m := by simp [LgC, qy]
theorem LgC_qz (f : ℕ → ℤ → ℂ) (ℓ : ℕ) (m : ℤ) : LgC qz f ℓ m = LzC f ℓ m := by simp [LgC, qz]

/-- exp(t g) = cos t + g sin t for the vector g = (·, g_x, g_y, g_z) (a unit quaternion when |g| = 1) -/
def qexp (g : Quat ℝ) (t : ℝ) : Quat ℝ := ⟨Real.cos t, g.x * Real.sin t, g.y * Real.sin t, g.z * Real.sin t⟩

theorem qexp_zero (g : Quat ℝ) : qexp g 0 = qone := by simp [qexp, qone]

/-- the one-parameter subgroup law, |g| = 1 -/
theorem qexp_add (g : Quat ℝ) (hg : g.x ^ 2 + g.y ^ 2 + g.z ^ 2 = 1) (t u : ℝ) :
    qexp g (t + u) = qmul (qexp g t) (qexp g u) := by
  simp only [qexp, qmul, Quat.mk.injEq, Real.cos_add, Real.sin_add]
  refine ⟨?_, ?_, ?_, ?_⟩
  · linear_combination (Real.sin t * Real.sin u) * hg
  · ring
  · ring
  · ring

theorem qexp_unit (g : Quat ℝ) (hg : g.x ^ 2 + g.y ^ 2 + g.z ^ 2 = 1) (t : ℝ) :
    (qexp g t).w ^ 2 + (qexp g t).x ^ 2 + (qexp g t).y ^ 2 + (qexp g t).z ^ 2 = 1 := by
  simp only [qexp]
  linear_combination (Real.sin t ^ 2) * hg + Real.sin_sq_add_cos_sq t

theorem QA_qexp (g : Quat ℝ) (t : ℝ) :
    QA (qexp g t) = (Real.cos t : ℂ) + (g.z : ℂ) * (Real.sin t : ℂ) * Complex.I := by
  rw [QA_eq]; simp [qexp]

theorem QB_qexp (g : Quat ℝ) (t : ℝ) :
    QB (qexp g t) = (g.y : ℂ) * (Real.sin t : ℂ) + (g.x : ℂ) * (Real.sin t : ℂ) * Complex.I := by
  rw [QB_eq]; simp [qexp]

theorem hasDerivAt_cosC (t : ℝ) : HasDerivAt (fun t : ℝ => ((Real.cos t : ℝ) : ℂ)) (-(Real.sin t : ℂ)) t := by
  simpa using (Real.hasDerivAt_cos t).ofReal_comp

theorem hasDerivAt_sinC (t : ℝ) : HasDerivAt (fun t : ℝ => ((Real.sin t : ℝ) : ℂ)) (Real.cos t : ℂ) t :=
  (Real.hasDerivAt_sin t).ofReal_comp

theorem QA_qexp_hasDerivAt (g : Quat ℝ) :
    HasDerivAt (fun t => QA (qexp g t)) ((g.z : ℂ) * Complex.I) 0 := by
  have h := (hasDerivAt_cosC 0).add (((hasDerivAt_sinC 0).const_mul (g.z : ℂ)).mul_const Complex.I)
  simp only [Real.sin_zero, Real.cos_zero, Complex.ofReal_zero, Complex.ofReal_one, neg_zero, zero_add, mul_one] at h
  exact (funext (QA_qexp g)) ▸ h

theorem QB_qexp_hasDerivAt (g : Quat ℝ) :
    HasDerivAt (fun t => QB (qexp g t)) ((g.y : ℂ) + (g.x : ℂ) * Complex.I) 0 := by
  have h := ((hasDerivAt_sinC 0).const_mul (g.y : ℂ)).add (((hasDerivAt_sinC 0).const_mul (g.x : ℂ)).mul_const Complex.I)
  simp only [Real.cos_zero, Complex.ofReal_one, mul_one] at h
  exact (funext (QB_qexp g)) ▸ h

/-! ### the derivative at the identity of the rotated weights -/

/-- Σ_n f_n · (d/dt D_{n,m}) in terms of the ladder operators -/
theorem sum_mul_dGen (ℓ : ℕ) (a b : ℂ) (f : ℕ → ℤ → ℂ) (m : ℤ) (hm : m.natAbs ≤ ℓ) :
    ∑ n ∈ Finset.Icc (-(ℓ : ℤ)) ℓ, f ℓ n * dGen ℓ a b n m
      = (((ℓ : ℂ) + m) * a + ((ℓ : ℂ) - m) * conj a) * f ℓ m + b * LpC f ℓ m - conj b * LmC f ℓ m := by
  have key : ∀ n : ℤ, f ℓ n * dGen ℓ a b n m
      = (if n = m then f ℓ n * (((ℓ : ℂ) + n) * a + ((ℓ : ℂ) - n) * conj a) else 0)
        + (if n = m + 1 then f ℓ n * (-conj b * sqrtC (((ℓ : ℝ) + n) * (ℓ - n + 1))) else 0)
        + (if n = m - 1 then f ℓ n * (b * sqrtC (((ℓ : ℝ) - n) * (ℓ + n + 1))) else 0) := by
    intro n
    unfold dGen
    split_ifs <;> ring
  rw [Finset.sum_congr rfl (fun n _ => key n), Finset.sum_add_distrib, Finset.sum_add_distrib,
    Finset.sum_ite_eq', Finset.sum_ite_eq', Finset.sum_ite_eq', if_pos (blk_mem hm)]
  unfold LpC LmC
  have e1 : (m + 1 ∈ Finset.Icc (-(ℓ : ℤ)) ℓ) ↔ (-(ℓ : ℤ) ≤ m ∧ m < ℓ) := by rw [Finset.mem_Icc]; omega
  have e2 : (m - 1 ∈ Finset.Icc (-(ℓ : ℤ)) ℓ) ↔ (-(ℓ : ℤ) < m ∧ m ≤ ℓ) := by rw [Finset.mem_Icc]; omega
  simp only [e1, e2]
  have r1 : ((ℓ : ℝ) + ((m + 1 : ℤ) : ℝ)) * ((ℓ : ℝ) - ((m + 1 : ℤ) : ℝ) + 1) = ((ℓ : ℝ) - m) * (ℓ + m + 1) := by
    push_cast; ring
  have r2 : ((ℓ : ℝ) - ((m - 1 : ℤ) : ℝ)) * ((ℓ : ℝ) + ((m - 1 : ℤ) : ℝ) + 1) = ((ℓ : ℝ) + m) * (ℓ - m + 1) := by
    push_cast; ring
  rw [r1, r2]
  split_ifs <;> ring

/-- the derivative at t = 0 of the weights rotated along a curve of rotors through the identity -/
theorem rot_curve_hasDerivAt_zero (R : ℝ → Quat ℝ) (a b : ℂ) (hA0 : QA (R 0) = 1) (hB0 : QB (R 0) = 0)
    (hA : HasDerivAt (fun t => QA (R t)) a 0) (hB : HasDerivAt (fun t => QB (R t)) b 0)
    (f : ℕ → ℤ → ℂ) (ℓ : ℕ) (m : ℤ) (hm : m.natAbs ≤ ℓ) :
    HasDerivAt (fun t => rot (R t) f ℓ m)
      ((((ℓ : ℂ) + m) * a + ((ℓ : ℂ) - m) * conj a) * f ℓ m + b * LpC f ℓ m - conj b * LmC f ℓ m) 0 := by
  unfold rot
  rw [← sum_mul_dGen ℓ a b f m hm]
  exact HasDerivAt.fun_sum (fun n hn =>
    (docD_hasDerivAt_zero ℓ (fun t => QA (R t)) (fun t => QB (R t)) a b hA0 hB0 hA hB n m (mem_blk hn) hm).const_mul
      (f ℓ n))

/-- the derivative at t = 0 of the weights rotated by exp(t g): 2i L_g f -/
theorem rot_qexp_hasDerivAt_zero (g : Quat ℝ) (f : ℕ → ℤ → ℂ) (ℓ : ℕ) (m : ℤ) (hm : m.natAbs ≤ ℓ) :
    HasDerivAt (fun t => rot (qexp g t) f ℓ m) (2 * Complex.I * LgC g f ℓ m) 0 := by
  have h := rot_curve_hasDerivAt_zero (qexp g) _ _ (by rw [qexp_zero, QA_one]) (by rw [qexp_zero, QB_one])
    (QA_qexp_hasDerivAt g) (QB_qexp_hasDerivAt g) f ℓ m hm
  refine h.congr_deriv ?_
  unfold LgC LxC LyC LzC
  simp only [map_mul, map_add, Complex.conj_ofReal, Complex.conj_I]
  have hI : Complex.I ≠ 0 := Complex.I_ne_zero
  field_simp
  ring

/-! ### the derivative at every t (one-parameter group ⇒ ODE) -/

/-- shifting: if u ↦ F(t + u) has derivative D at 0 then F has derivative D at t -/
theorem hasDerivAt_of_shift {F : ℝ → ℂ} {D : ℂ} {t : ℝ} (h : HasDerivAt (fun u => F (t + u)) D 0) :
    HasDerivAt F D t := by
  have h' : HasDerivAt (fun u => F (t + u)) D (-t + t) := by rw [neg_add_cancel]; exact h
  have h2 := HasDerivAt.comp_const_add (-t) t h'
  simpa using h2

/-- d/dt rot(exp(t g)) f = 2i L_g (rot(exp(t g)) f), every t, |g| = 1 -/
theorem rot_qexp_hasDerivAt (g : Quat ℝ) (hg : g.x ^ 2 + g.y ^ 2 + g.z ^ 2 = 1) (f : ℕ → ℤ → ℂ) (ℓ : ℕ) (m : ℤ)
    (hm : m.natAbs ≤ ℓ) (t : ℝ) :
    HasDerivAt (fun t => rot (qexp g t) f ℓ m) (2 * Complex.I * LgC g (rot (qexp g t) f) ℓ m) t := by
  apply hasDerivAt_of_shift
  have h := rot_qexp_hasDerivAt_zero g (rot (qexp g t) f) ℓ m hm
  have e : (fun u => rot (qexp g u) (rot (qexp g t) f) ℓ m) = fun u => rot (qexp g (t + u)) f ℓ m := by
    funext u
    rw [compose_rot _ _ f ℓ m hm, qexp_add g hg]
  rw [e] at h
  exact h

/-- d/dt rot(exp(t g)) f = rot(exp(t g)) (2i L_g f), every t, |g| = 1 (the generator commutes with its group) -/
theorem rot_qexp_hasDerivAt' (g : Quat ℝ) (hg : g.x ^ 2 + g.y ^ 2 + g.z ^ 2 = 1) (f : ℕ → ℤ → ℂ) (ℓ : ℕ) (m : ℤ)
    (hm : m.natAbs ≤ ℓ) (t : ℝ) :
    HasDerivAt (fun t => rot (qexp g t) f ℓ m) (rot (qexp g t) (fun ℓ n => 2 * Complex.I * LgC g f ℓ n) ℓ m) t := by
  apply hasDerivAt_of_shift
  have e : (fun u => rot (qexp g (t + u)) f ℓ m)
      = fun u => ∑ n ∈ Finset.Icc (-(ℓ : ℤ)) ℓ, rot (qexp g u) f ℓ n * docD ℓ (QA (qexp g t)) (QB (qexp g t)) n m := by
    funext u
    rw [add_comm t u, qexp_add g hg, ← compose_rot _ _ f ℓ m hm]
    rfl
  rw [e]
  unfold rot
  exact HasDerivAt.fun_sum (fun n hn => (rot_qexp_hasDerivAt_zero g f ℓ n (mem_blk hn)).mul_const _)

/-- consequently L_g commutes with the rotations of its own one-parameter group -/
theorem LgC_rot_comm (g : Quat ℝ) (hg : g.x ^ 2 + g.y ^ 2 + g.z ^ 2 = 1) (f : ℕ → ℤ → ℂ) (ℓ : ℕ) (m : ℤ)
    (hm : m.natAbs ≤ ℓ) (t : ℝ) :
    LgC g (rot (qexp g t) f) ℓ m = rot (qexp g t) (LgC g f) ℓ m := by
  have h := (rot_qexp_hasDerivAt g hg f ℓ m hm t).unique (rot_qexp_hasDerivAt' g hg f ℓ m hm t)
  have e : rot (qexp g t) (fun ℓ n => 2 * Complex.I * LgC g f ℓ n) ℓ m = 2 * Complex.I * rot (qexp g t) (LgC g f) ℓ m := by
    unfold rot
    rw [Finset.mul_sum]
    apply Finset.sum_congr rfl
    intro n _
    ring
  rw [e] at h
  have hI : (2 : ℂ) * Complex.I ≠ 0 := mul_ne_zero two_ne_zero Complex.I_ne_zero
  exact mul_left_cancel₀ hI h

end Generators
end
