import SphericalVerif.Model.Assemble
import Mathlib.Algebra.Polynomial.Coeff
import Mathlib.Algebra.Polynomial.Basic
import Mathlib.Algebra.BigOperators.NatAntidiagonal
import Mathlib.Analysis.SpecialFunctions.Pow.Real
import Mathlib.Analysis.SpecialFunctions.Sqrt
import Mathlib.Data.Nat.Choose.Basic
import Mathlib.Data.Nat.Factorial.Basic
import Mathlib.Tactic.Ring
import Mathlib.Tactic.Linarith
import Mathlib.Tactic.NormNum
/-! The DOCUMENTED Wigner d matrix of the library: docs/WignerDMatrices.md, Eq. "DAnalytically", specialised to a
    rotation by β about the y axis, R_a = cos(β/2) =: `ch`, R_b = sin(β/2) =: `sh` (both real, so the conjugations of the
    documented formula disappear):

      d^ℓ_{m',m}(β) = √[ (ℓ+m)! (ℓ−m)! / ((ℓ+m')! (ℓ−m')!) ]
                        · Σ_ρ C(ℓ+m', ρ) C(ℓ−m', ℓ−ρ−m) (−1)^ρ R_a^{ℓ+m'−ρ} R̄_a^{ℓ−ρ−m} R_b^{ρ−m'+m} R̄_b^ρ.

    `docd` is this formula verbatim.  The sum runs over 0 ≤ ρ ≤ ℓ−m; outside max(0, m'−m) ≤ ρ ≤ min(ℓ+m', ℓ−m) one of the
    two binomial coefficients is zero.  Integer expressions that are natural numbers on the domain |m'|, |m| ≤ ℓ are
    read through `Int.toNat`; off the domain the value is harmless junk (no theorem speaks about it).

    The generating-polynomial form (`docd_eq_coeff`): the ρ-sum is the coefficient of t^{ℓ−m} of
    (R_a − R_b t)^{ℓ+m'} (R_b + R_a t)^{ℓ−m'}. -/
noncomputable section
namespace DocD
open Polynomial Nat

/-- the documented d^ℓ_{m',m} at R_a = `ch`, R_b = `sh` -/
def docd (ch sh : ℝ) (n : ℕ) (mp m : ℤ) : ℝ :=
  Real.sqrt (((((n : ℤ) + m).toNat ! * ((n : ℤ) - m).toNat ! : ℕ) : ℝ)
      / (((((n : ℤ) + mp).toNat ! * ((n : ℤ) - mp).toNat ! : ℕ) : ℝ))) *
    ∑ ρ ∈ Finset.range (((n : ℤ) - m).toNat + 1),
      ((((n : ℤ) + mp).toNat.choose ρ : ℕ) : ℝ) * ((((n : ℤ) - mp).toNat.choose ((n : ℤ) - ρ - m).toNat : ℕ) : ℝ)
        * (-1) ^ ρ
        * ch ^ ((n : ℤ) + mp - ρ).toNat * ch ^ ((n : ℤ) - ρ - m).toNat
        * sh ^ ((ρ : ℤ) - mp + m).toNat * sh ^ ρ

/-- the family handed to `GDFamily.IsGDFamily`: H^{m',m}_n = ε(m') ε(−m) d^n_{m',m} -/
def Hdoc (ch sh : ℝ) (n : ℕ) (mp m : ℤ) : ℝ := ((Model.eps mp * Model.eps (-m) : ℤ) : ℝ) * docd ch sh n mp m

/-- (R_a − R_b t)^a (R_b + R_a t)^b -/
def genPoly (ch sh : ℝ) (a b : ℕ) : ℝ[X] := (C ch - C sh * X) ^ a * (C sh + C ch * X) ^ b

/-- binomial theorem for a linear polynomial, coefficientwise -/
theorem coeff_lin_pow (α β : ℝ) : ∀ n k : ℕ, ((C α + C β * X) ^ n).coeff k = (n.choose k : ℝ) * α ^ (n - k) * β ^ k
  | 0, 0 => by simp
  | 0, k + 1 => by simp [coeff_one]
  | n + 1, 0 => by
    rw [pow_succ, mul_add, coeff_add, ← mul_assoc, coeff_mul_X_zero, add_zero, coeff_mul_C, coeff_lin_pow α β n 0]
    simp; ring
  | n + 1, k + 1 => by
    rw [pow_succ, mul_add, coeff_add, ← mul_assoc, coeff_mul_X, coeff_mul_C, coeff_mul_C,
      coeff_lin_pow α β n (k + 1), coeff_lin_pow α β n k, Nat.choose_succ_succ, Nat.succ_sub_succ]
    push_cast
    by_cases h : k + 1 ≤ n
    · have e : n - k = (n - (k + 1)) + 1 := by omega
      rw [e]; ring
    · have : n.choose (k + 1) = 0 := Nat.choose_eq_zero_of_lt (by omega)
      rw [this]; push_cast; ring

/-- the ρ-sum of the documented formula, with natural-number indices a = ℓ+m', b = ℓ−m', j = ℓ−m, is a coefficient of
    the generating polynomial -/
theorem coeff_genPoly (ch sh : ℝ) (a b j : ℕ) :
    (genPoly ch sh a b).coeff j =
      ∑ ρ ∈ Finset.range (j + 1), (a.choose ρ : ℝ) * (b.choose (j - ρ) : ℝ) * (-1) ^ ρ
        * ch ^ (a - ρ) * ch ^ (j - ρ) * sh ^ (b - (j - ρ)) * sh ^ ρ := by
  unfold genPoly
  rw [coeff_mul, Finset.Nat.sum_antidiagonal_eq_sum_range_succ_mk]
  apply Finset.sum_congr rfl
  intro ρ _
  have e : (C ch - C sh * X : ℝ[X]) = C ch + C (-sh) * X := by rw [C_neg]; ring
  rw [e, coeff_lin_pow, coeff_lin_pow, neg_pow sh]
  ring

/-- the generating-polynomial characterisation of the documented d -/
theorem docd_eq_coeff (ch sh : ℝ) (n : ℕ) (mp m : ℤ) (hm : m.natAbs ≤ n) :
    docd ch sh n mp m =
      Real.sqrt (((((n : ℤ) + m).toNat ! * ((n : ℤ) - m).toNat ! : ℕ) : ℝ)
          / (((((n : ℤ) + mp).toNat ! * ((n : ℤ) - mp).toNat ! : ℕ) : ℝ))) *
        (genPoly ch sh ((n : ℤ) + mp).toNat ((n : ℤ) - mp).toNat).coeff ((n : ℤ) - m).toNat := by
  unfold docd
  rw [coeff_genPoly]
  congr 1
  apply Finset.sum_congr rfl
  intro ρ hρ
  rw [Finset.mem_range] at hρ
  have e1 : ((n : ℤ) - ρ - m).toNat = ((n : ℤ) - m).toNat - ρ := by omega
  have e2 : ((n : ℤ) + mp - ρ).toNat = ((n : ℤ) + mp).toNat - ρ := by omega
  have e3 : ((ρ : ℤ) - mp + m).toNat = ((n : ℤ) - mp).toNat - (((n : ℤ) - m).toNat - ρ) := by omega
  rw [e1, e2, e3]

end DocD
end
