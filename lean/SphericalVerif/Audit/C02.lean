import SphericalVerif.Props.C02
import SphericalVerif.Props.HKernel
import SphericalVerif.Props.Routes
import SphericalVerif.Props.Finite
import SphericalVerif.Props.GDFamily
import SphericalVerif.Props.DocD
#print axioms C02.sYlm_low_exact_zero
#print axioms C02.sYlm_reads_in_narrow_wedge
#print axioms HKernel.runH_pure
#print axioms HKernel.runH_size_indep
#print axioms Routes.eps_eq_ite
#print axioms Routes.evaluateHorner_eq_sum
#print axioms Routes.evaluate_eq_sum_sYlm_init
#print axioms Routes.evaluate_eq_sum_sYlm
#print axioms Routes.rotateHorner_eq_sum
#print axioms Routes.rotateHorner_eq_matrix
#print axioms Routes.sYlm_eq_D_column'
#print axioms Routes.sYlm_eq_D_column
#print axioms Routes.sYlm_low_exact_zero
#print axioms Routes.wedgeRep_neg_neg
#print axioms Routes.eps_mul_eps_neg
#print axioms Routes.D_conj_symm'
#print axioms Routes.D_conj_symm
#print axioms Finite.valW_checked_eq_real
#print axioms Finite.valW_defined
#print axioms Finite.valW_col0_defined
#print axioms Finite.valV_checked_eq_real
#print axioms Finite.valV_defined
#print axioms Finite.runH_checked_eq_real
#print axioms Finite.runH_defined
#print axioms Finite.runH_ne_none
#print axioms Finite.runH_checked_eq_runH_real
#print axioms Finite.tables_read_defined
#print axioms Finite.eq_none_of
#print axioms Finite.tables_faulty_entries
#print axioms Finite.valW_fault_outside_wedge
#print axioms GDFamily.valW_eq_of_IsGDFamily
#print axioms GDFamily.valV_eq_of_IsGDFamily
#print axioms GDFamily.model_eq_of_IsGDFamily
#print axioms GDFamily.objd_eq_of_IsGDFamily
#print axioms GDFamily.objd_eq_doc_of_IsGDFamily
#print axioms GDFamily.isGDFamily_valExt'
#print axioms GDFamily.IsGDFamily.eq_valExt
#print axioms GDFamily.IsGDFamily.unique
#print axioms GDFamily.IsGDFamily.rel50_full
#print axioms GDFamily.rel50_diag_of_symm
#print axioms GDFamily.rel50_border_coeff
#print axioms GDFamily.coefficients
#print axioms GDFamily.values_ell_le_one
#print axioms GDFamily.eq_doc_ell1
#print axioms GDFamily.eq_doc_ell2
#print axioms GDFamily.eq_pole_zero
#print axioms GDFamily.eq_pole_pi
#print axioms DocD.docd_generating
#print axioms DocD.docd_ell0
#print axioms DocD.docd_ell1
#print axioms DocD.symm_swap_doc
#print axioms DocD.symm_neg_doc
#print axioms DocD.rel50_doc
#print axioms DocD.rel41_doc
#print axioms DocD.col0_doc
#print axioms DocD.isGDFamily_doc
#print axioms DocD.objd_eq_docd
#print axioms DocD.model_eq_Hdoc
#print axioms DocD.docd_ell2
#print axioms DocD.valExt_eq_Hdoc
#print axioms DocD.rel50_doc_full
#print axioms DocD.objd_eq_docd_angle
