import SphericalVerif.Model.W3jChecked
import SphericalVerif.Lemmas.W3j
import Std.Tactic.Do
/-! Memory safety of `Wigner3jCalculator.calculate` (spherical/recursions/wigner3j.py), proved on the
    instrumented twin `Model.W3j.calculateChk` of the validated model `Model.W3j.calculate`.

    1. `calculateChk_agrees`: the first component of the twin IS `calculate` (every `Scalar α`).
       Route: both `do` blocks are cut at their join points into phase functions (`finishC`, `meetC`,
       `threeTermC`, `afterFwdC`, `calculateChkP` in the writer monad `Chk`; `finish`, `meet`,
       `threeTerm`, `afterFwd`, `calculateP` in `Id`).  Monolith = phases holds by `rfl` on both sides
       (`calculateChk_phased`, `calculate_phased`), and phase by phase the projection `Prod.fst` is
       pushed through `bind`/`ite`/`forIn` (`fst_*`).
    2. `calculateChk_safe`: the flag is `false` on every admissible call.  `Chk` gets a weakest
       precondition semantics (`wp x Q = (x.2 = false ∧ Q x.1)`: "no index was out of range and the
       value satisfies Q"), the checked accessors get Hoare triples whose precondition is the range
       condition, and `mvcgen` generates the index obligations of every phase, all closed by `omega`.
       No law of the arithmetic is used: the comparisons `lt/le/beq` may answer anything.
    The one exception found: when `j_min = 0` an adversarial `beq` can send the run through
    `F_minus[j_mid - 1]` with `j_mid = 0`; see `Props/W3jBounds.lean`. -/
namespace Lemmas.W3jBounds
open Model.W3j Scalar Std.Do
variable {α : Type} [Scalar α]

theorem Chk.ext {β} {x y : Chk β} (h1 : x.1 = y.1) (h2 : x.2 = y.2) : x = y := Prod.ext h1 h2

instance : LawfulMonad Chk := LawfulMonad.mk'
  (id_map := by intro α x; rfl)
  (pure_bind := by intro α β a f; apply Chk.ext <;> simp [bind, pure])
  (bind_assoc := by intro α β γ x f g; apply Chk.ext <;> simp [bind, Bool.or_assoc])
  (bind_pure_comp := by intro α β f x; apply Chk.ext <;> simp [bind, pure, Functor.map])

/-! ### erasure: `Prod.fst` is a monad morphism `Chk → Id` -/
theorem fst_bind {β γ} (x : Chk β) (f : β → Chk γ) : (x >>= f).1 = (f x.1).1 := rfl
theorem fst_pure {β} (a : β) : (pure a : Chk β).1 = a := rfl
theorem fst_ite {β} (c : Prop) {inst : Decidable c} (x y : Chk β) :
    (@ite _ c inst x y).1 = @ite _ c inst x.1 y.1 := by
  split <;> rfl

theorem fst_forIn_list {σ} (l : List Nat) (init : σ) (f : Nat → σ → Chk (ForInStep σ)) :
    (forIn l init f).1 = (forIn (m := Id) l init (fun k s => (f k s).1) : σ) := by
  induction l generalizing init with
  | nil => rfl
  | cons k l ih =>
    simp only [List.forIn_cons]
    show (match (f k init).1 with | .done b => _ | .yield b => _ : Chk σ).1 = _
    cases h : (f k init).1 with
    | done b => simp [bind]; rfl
    | yield b => simp [bind]; exact ih b

theorem fst_forIn {σ} (r : Std.Legacy.Range) (init : σ) (f : Nat → σ → Chk (ForInStep σ)) :
    (forIn r init f).1 = (forIn (m := Id) r init (fun k s => (f k s).1) : σ) := by
  rw [Std.Legacy.Range.forIn_eq_forIn_range', Std.Legacy.Range.forIn_eq_forIn_range', fst_forIn_list]

theorem fst_loopN {β} (n : Nat) (g : Nat → Chk β → Chk β) (g' : Nat → β → β) (s : Chk β)
    (h : ∀ k s, (g k s).1 = g' k s.1) : (loopN n g s).1 = loopN n g' s.1 := by
  induction n with
  | zero => rfl
  | succ n ih => simp only [loopN]; rw [h, ih]

theorem fst_divRangeC (size : Nat) (a : Array α) (lo hi : Int) (x : α) :
    (divRangeC size a lo hi x).1 = divRange a lo hi x := by
  unfold divRangeC divRange
  rw [fst_loopN _ _ (fun k a => seti a (lo + k) (geti a (lo + k) /. x))]
  · rfl
  · intro k s; rfl
theorem fst_mulRangeC (size : Nat) (a : Array α) (lo hi : Int) (x : α) :
    (mulRangeC size a lo hi x).1 = mulRange a lo hi x := by
  unfold mulRangeC mulRange
  rw [fst_loopN _ _ (fun k a => seti a (lo + k) (geti a (lo + k) *. x))]
  · rfl
  · intro k s; rfl
theorem fst_copyRangeC (size : Nat) (d s : Array α) (lo hi : Int) :
    (copyRangeC size d s lo hi).1 = copyRange d s lo hi := by
  unfold copyRangeC copyRange
  rw [fst_loopN _ _ (fun k d => seti d (lo + k) (geti s (lo + k)))]
  · rfl
  · intro k s; rfl
theorem fst_normalizeC (size : Nat) (f : Array α) (jmin jmax : Int) :
    (normalizeC size f jmin jmax).1 = normalize f jmin jmax := by
  unfold normalizeC normalize
  rw [fst_bind, fst_divRangeC, fst_loopN _ _ (fun k (n : α) =>
    let j := jmin + k
    n +. ((ofInt (2*j+1) : α) *. (geti f j *. geti f j)))]
  · rfl
  · intro k s; rfl
theorem fst_determineSignsC (size : Nat) (f : Array α) (jmin jmax j2 j3 m2 m3 : Int) :
    (determineSignsC size f jmin jmax j2 j3 m2 m3).1 = determineSigns f jmin jmax j2 j3 m2 m3 := by
  unfold determineSignsC determineSigns
  simp only [fst_bind, fst_ite, fst_mulRangeC, fst_pure]
  rfl


/-! ### the program in phases (one function per join point of the `do` block) -/
/-- phase 4: `normalize`, `determine_signs`, `return f` -/
def finishC (size : Nat) (j2 j3 m2 m3 jmin jmax : Int) (f : Array α) : Chk (Out α) := do
  let mut f := f
  f ← normalizeC size f jmin jmax
  f ← determineSignsC size f jmin jmax j2 j3 m2 m3
  return ⟨f, false⟩

/-- phase 3b: downward three-term recurrence from `jplus` to `jmid`, then the matching of the two
    partial solutions -/
def meetC (size : Nat) (j2 j3 m1 m2 m3 jmin jmax : Int) (scale : α) (f Fm Fp : Array α)
    (jplus jmid : Int) (FmMid : α) : Chk (Out α) := do
  let mut f := f
  let mut Fp := Fp
  for k in [0:(jplus - jmid).toNat] do
    let j : Int := jplus - k
    Fp ← setC size Fp (j-1) ((neg ((Xf j j2 j3 m1 *. (← getC size Fp (j+1))) +. (Yf j j2 j3 m2 m3 *. (← getC size Fp j)))) /. Zf j j2 j3 m1)
    if lt one (abs (← getC size Fp (j-1))) then
      Fp ← divRangeC size Fp (j-1) jmax scale
  let FpMid : α ← getC size Fp jmid
  if jmid = jmax then
    f ← copyRangeC size f Fm jmin jmax
  else if jmid = jmin then
    f ← copyRangeC size f Fp jmin jmax
  else
    for k in [0:(jmid + 1 - jmin).toNat] do
      let j : Int := jmin + k
      f ← setC size f j (((← getC size Fm j) *. FpMid) /. FmMid)
    f ← copyRangeC size f Fp (jmid+1) jmax
  finishC size j2 j3 m2 m3 jmin jmax f

/-- phase 3: the classical region -/
def threeTermC (size : Nat) (j2 j3 m1 m2 m3 jmin jmax : Int) (scale : α) (f Fm Fp : Array α)
    (undefMin undefMax : Bool) (jminus jplus : Int) : Chk (Out α) := do
  let mut f := f
  let mut Fm := Fm
  let mut Fp := Fp
  if undefMin && undefMax then return ⟨f, true⟩
  if !undefMin && !undefMax then
    let mut jmid : Int := (jminus + jplus) / 2
    for k in [0:(jmid - jminus).toNat] do
      let j : Int := jminus + k
      Fm ← setC size Fm (j+1) ((neg ((Yf j j2 j3 m2 m3 *. (← getC size Fm j)) +. (Zf j j2 j3 m1 *. (← getC size Fm (j-1))))) /. Xf j j2 j3 m1)
      if lt one (abs (← getC size Fm (j+1))) then
        Fm ← divRangeC size Fm jmin (j+1) scale
      if lt (abs ((← getC size Fm (j+1)) /. (← getC size Fm (j-1)))) one && !(isZero (← getC size Fm (j+1))) then
        jmid := j + 1
        break
    let mut FmMid : α ← getC size Fm jmid
    if !(isZero (← getC size Fm (jmid-1))) && lt (abs (FmMid /. (← getC size Fm (jmid-1)))) ((ofInt 1 : α) /. ofInt 1000000) then
      jmid := jmid - 1
      FmMid ← getC size Fm jmid
    meetC size j2 j3 m1 m2 m3 jmin jmax scale f Fm Fp jplus jmid FmMid
  else if !undefMin && undefMax then
    for k in [0:(jplus - jminus).toNat] do
      let j : Int := jminus + k
      Fm ← setC size Fm (j+1) ((neg ((Zf j j2 j3 m1 *. (← getC size Fm (j-1))) +. (Yf j j2 j3 m2 m3 *. (← getC size Fm j)))) /. Xf j j2 j3 m1)
      if lt one (abs (← getC size Fm (j+1))) then
        Fm ← divRangeC size Fm jmin (j+1) scale
    f ← copyRangeC size f Fm jmin jmax
    finishC size j2 j3 m2 m3 jmin jmax f
  else
    for k in [0:(jplus - jmin).toNat] do
      let j : Int := jplus - k
      Fp ← setC size Fp (j-1) ((neg ((Xf j j2 j3 m1 *. (← getC size Fp (j+1))) +. (Yf j j2 j3 m2 m3 *. (← getC size Fp j)))) /. Zf j j2 j3 m1)
      if lt one (abs (← getC size Fp (j-1))) then
        Fp ← divRangeC size Fp (j-1) jmax scale
    f ← copyRangeC size f Fp jmin jmax
    finishC size j2 j3 m2 m3 jmin jmax f

/-- phase 2: early exit if the forward iteration covered everything, else the reverse iteration over
    the second non-classical region -/
def afterFwdC (size : Nat) (j2 j3 m1 m2 m3 jmin jmax : Int) (scale : α) (f sf Fm Fp : Array α)
    (undefMin : Bool) (jminus : Int) : Chk (Out α) := do
  let mut f := f
  let mut sf := sf
  let mut Fp := Fp
  let mut undefMax := false
  if jminus = jmax then
    f ← copyRangeC size f Fm jmin jmax
    f ← normalizeC size f jmin jmax
    f ← determineSignsC size f jmin jmax j2 j3 m2 m3
    return ⟨f, false⟩
  let mut jplus : Int := jmax
  let YfMax : α := Yf jmax j2 j3 m2 m3
  let ZfMax : α := Zf jmax j2 j3 m1
  if m1 = 0 && m2 = 0 && m3 = 0 then
    Fp ← setC size Fp jmax one
    Fp ← setC size Fp (jmax-1) zero
    jplus := jmax - 1
  else if isZero YfMax then
    if isZero ZfMax then
      undefMax := true
      jplus := jmax
    else
      Fp ← setC size Fp jmax one
      Fp ← setC size Fp (jmax-1) ((negYf jmax j2 j3 m2 m3 : α) /. ZfMax)
      jplus := jmax - 1
  else if ge0 (YfMax *. ZfMax) then
    Fp ← setC size Fp jmax one
    Fp ← setC size Fp (jmax-1) ((negYf jmax j2 j3 m2 m3 : α) /. ZfMax)
    jplus := jmax - 1
  else
    sf ← setC size sf jmax ((neg ZfMax) /. YfMax)
    jplus := jmin
    for k in [0:(jmax - 1 - (jminus - 1)).toNat] do
      let j : Int := jmax - 1 - k
      let denominator : α := Yf j j2 j3 m2 m3 +. (Xf j j2 j3 m1 *. (← getC size sf (j+1)))
      let Zfj : α := Zf j j2 j3 m1
      if isZero denominator || lt (abs denominator) (abs Zfj) || ge0 (Zfj *. denominator) then
        jplus := j + 1
        break
      else
        sf ← setC size sf j ((neg Zfj) /. denominator)
    Fp ← setC size Fp jplus one
    for k in [1:(jmax - jplus + 1).toNat] do
      Fp ← setC size Fp (jplus + k) ((← getC size Fp (jplus + k - 1)) *. (← getC size sf (jplus + k)))
    if jplus = jmax then
      Fp ← setC size Fp (jmax-1) ((negYf jmax j2 j3 m2 m3 : α) /. ZfMax)
      jplus := jmax - 1
  threeTermC size j2 j3 m1 m2 m3 jmin jmax scale f Fm Fp undefMin undefMax jminus jplus

/-- phase 1: set-up, selection rules, single-term case, forward iteration over the first
    non-classical region -/
def calculateChkP (size : Nat) (ws : Array α) (j2 j3 m2 m3 : Int) : Chk (Out α) := do
  let m1 : Int := -(m2 + m3)
  let scale : α := ofInt 1000
  let w0 : Array α := ws.map (fun _ => zero)
  let mut f : Array α := w0.extract 0 size
  let mut sf : Array α := w0.extract size (2*size)
  let mut Fm : Array α := w0.extract (2*size) (3*size)
  let mut Fp : Array α := w0.extract (3*size) (4*size)
  let jmin : Int := max ((j2 - j3).natAbs : Int) ((m2 + m3).natAbs : Int)
  let jmax : Int := j2 + j3
  if (m2.natAbs : Int) > j2 || (m3.natAbs : Int) > j3 then return ⟨f, false⟩
  if jmax < jmin then return ⟨f, false⟩
  if jmax = jmin then
    let v : α := one /. sqrt (((ofInt 2 : α) *. ofInt jmin) +. one)
    let p := parity (j2 - j3 + m2 + m3)
    let v := if (lt0 v && decide (p > 0)) || (gt0 v && decide (p < 0)) then v *. ofInt (-1) else v
    return ⟨← setC size f jmin v, false⟩
  let mut undefMin := false
  let mut jminus : Int := jmin
  let XfMin : α := Xf jmin j2 j3 m1
  let YfMin : α := Yf jmin j2 j3 m2 m3
  if m1 = 0 && m2 = 0 && m3 = 0 then
    Fm ← setC size Fm jmin one
    Fm ← setC size Fm (jmin+1) zero
    jminus := jmin + 1
  else if isZero YfMin then
    if isZero XfMin then
      undefMin := true
      jminus := jmin
    else
      Fm ← setC size Fm jmin one
      Fm ← setC size Fm (jmin+1) zero
      jminus := jmin + 1
  else if ge0 (XfMin *. YfMin) then
    Fm ← setC size Fm jmin one
    Fm ← setC size Fm (jmin+1) ((negYf jmin j2 j3 m2 m3 : α) /. XfMin)
    jminus := jmin + 1
  else
    sf ← setC size sf jmin ((neg XfMin) /. YfMin)
    jminus := jmax
    for k in [0:(jmax - (jmin+1)).toNat] do
      let j : Int := jmin + 1 + k
      let denominator : α := Yf j j2 j3 m2 m3 +. (Zf j j2 j3 m1 *. (← getC size sf (j-1)))
      let Xfj : α := Xf j j2 j3 m1
      if lt (abs denominator) (abs Xfj) || ge0 (Xfj *. denominator) || isZero denominator then
        jminus := j - 1
        break
      else
        sf ← setC size sf j ((neg Xfj) /. denominator)
    Fm ← setC size Fm jminus one
    for k in [1:(jminus - jmin + 1).toNat] do
      Fm ← setC size Fm (jminus - k) ((← getC size Fm (jminus - k + 1)) *. (← getC size sf (jminus - k)))
    if jminus = jmin then
      Fm ← setC size Fm (jmin+1) ((negYf jmin j2 j3 m2 m3 : α) /. XfMin)
      jminus := jmin + 1
  afterFwdC size j2 j3 m1 m2 m3 jmin jmax scale f sf Fm Fp undefMin jminus


theorem calculateChk_phased (size : Nat) (ws : Array α) (j2 j3 m2 m3 : Int) :
    calculateChk size ws j2 j3 m2 m3 = calculateChkP size ws j2 j3 m2 m3 := rfl

/-- (unchecked) phase 4: `normalize`, `determine_signs`, `return f` -/
def finish (j2 j3 m2 m3 jmin jmax : Int) (f : Array α) : Id (Out α) := do
  let mut f := f
  f := normalize f jmin jmax
  f := determineSigns f jmin jmax j2 j3 m2 m3
  return ⟨f, false⟩

/-- (unchecked) phase 3b: downward three-term recurrence from `jplus` to `jmid`, then the matching of the two
    partial solutions -/
def meet (j2 j3 m1 m2 m3 jmin jmax : Int) (scale : α) (f Fm Fp : Array α)
    (jplus jmid : Int) (FmMid : α) : Id (Out α) := do
  let mut f := f
  let mut Fp := Fp
  for k in [0:(jplus - jmid).toNat] do
    let j : Int := jplus - k
    Fp := seti Fp (j-1) ((neg ((Xf j j2 j3 m1 *. (geti Fp (j+1))) +. (Yf j j2 j3 m2 m3 *. (geti Fp j)))) /. Zf j j2 j3 m1)
    if lt one (abs (geti Fp (j-1))) then
      Fp := divRange Fp (j-1) jmax scale
  let FpMid : α := geti Fp jmid
  if jmid = jmax then
    f := copyRange f Fm jmin jmax
  else if jmid = jmin then
    f := copyRange f Fp jmin jmax
  else
    for k in [0:(jmid + 1 - jmin).toNat] do
      let j : Int := jmin + k
      f := seti f j (((geti Fm j) *. FpMid) /. FmMid)
    f := copyRange f Fp (jmid+1) jmax
  finish j2 j3 m2 m3 jmin jmax f

/-- (unchecked) phase 3: the classical region -/
def threeTerm (j2 j3 m1 m2 m3 jmin jmax : Int) (scale : α) (f Fm Fp : Array α)
    (undefMin undefMax : Bool) (jminus jplus : Int) : Id (Out α) := do
  let mut f := f
  let mut Fm := Fm
  let mut Fp := Fp
  if undefMin && undefMax then return ⟨f, true⟩
  if !undefMin && !undefMax then
    let mut jmid : Int := (jminus + jplus) / 2
    for k in [0:(jmid - jminus).toNat] do
      let j : Int := jminus + k
      Fm := seti Fm (j+1) ((neg ((Yf j j2 j3 m2 m3 *. (geti Fm j)) +. (Zf j j2 j3 m1 *. (geti Fm (j-1))))) /. Xf j j2 j3 m1)
      if lt one (abs (geti Fm (j+1))) then
        Fm := divRange Fm jmin (j+1) scale
      if lt (abs ((geti Fm (j+1)) /. (geti Fm (j-1)))) one && !(isZero (geti Fm (j+1))) then
        jmid := j + 1
        break
    let mut FmMid : α := geti Fm jmid
    if !(isZero (geti Fm (jmid-1))) && lt (abs (FmMid /. (geti Fm (jmid-1)))) ((ofInt 1 : α) /. ofInt 1000000) then
      jmid := jmid - 1
      FmMid := geti Fm jmid
    meet j2 j3 m1 m2 m3 jmin jmax scale f Fm Fp jplus jmid FmMid
  else if !undefMin && undefMax then
    for k in [0:(jplus - jminus).toNat] do
      let j : Int := jminus + k
      Fm := seti Fm (j+1) ((neg ((Zf j j2 j3 m1 *. (geti Fm (j-1))) +. (Yf j j2 j3 m2 m3 *. (geti Fm j)))) /. Xf j j2 j3 m1)
      if lt one (abs (geti Fm (j+1))) then
        Fm := divRange Fm jmin (j+1) scale
    f := copyRange f Fm jmin jmax
    finish j2 j3 m2 m3 jmin jmax f
  else
    for k in [0:(jplus - jmin).toNat] do
      let j : Int := jplus - k
      Fp := seti Fp (j-1) ((neg ((Xf j j2 j3 m1 *. (geti Fp (j+1))) +. (Yf j j2 j3 m2 m3 *. (geti Fp j)))) /. Zf j j2 j3 m1)
      if lt one (abs (geti Fp (j-1))) then
        Fp := divRange Fp (j-1) jmax scale
    f := copyRange f Fp jmin jmax
    finish j2 j3 m2 m3 jmin jmax f

/-- (unchecked) phase 2: early exit if the forward iteration covered everything, else the reverse iteration over
    the second non-classical region -/
def afterFwd (j2 j3 m1 m2 m3 jmin jmax : Int) (scale : α) (f sf Fm Fp : Array α)
    (undefMin : Bool) (jminus : Int) : Id (Out α) := do
  let mut f := f
  let mut sf := sf
  let mut Fp := Fp
  let mut undefMax := false
  if jminus = jmax then
    f := copyRange f Fm jmin jmax
    f := normalize f jmin jmax
    f := determineSigns f jmin jmax j2 j3 m2 m3
    return ⟨f, false⟩
  let mut jplus : Int := jmax
  let YfMax : α := Yf jmax j2 j3 m2 m3
  let ZfMax : α := Zf jmax j2 j3 m1
  if m1 = 0 && m2 = 0 && m3 = 0 then
    Fp := seti Fp jmax one
    Fp := seti Fp (jmax-1) zero
    jplus := jmax - 1
  else if isZero YfMax then
    if isZero ZfMax then
      undefMax := true
      jplus := jmax
    else
      Fp := seti Fp jmax one
      Fp := seti Fp (jmax-1) ((negYf jmax j2 j3 m2 m3 : α) /. ZfMax)
      jplus := jmax - 1
  else if ge0 (YfMax *. ZfMax) then
    Fp := seti Fp jmax one
    Fp := seti Fp (jmax-1) ((negYf jmax j2 j3 m2 m3 : α) /. ZfMax)
    jplus := jmax - 1
  else
    sf := seti sf jmax ((neg ZfMax) /. YfMax)
    jplus := jmin
    for k in [0:(jmax - 1 - (jminus - 1)).toNat] do
      let j : Int := jmax - 1 - k
      let denominator : α := Yf j j2 j3 m2 m3 +. (Xf j j2 j3 m1 *. (geti sf (j+1)))
      let Zfj : α := Zf j j2 j3 m1
      if isZero denominator || lt (abs denominator) (abs Zfj) || ge0 (Zfj *. denominator) then
        jplus := j + 1
        break
      else
        sf := seti sf j ((neg Zfj) /. denominator)
    Fp := seti Fp jplus one
    for k in [1:(jmax - jplus + 1).toNat] do
      Fp := seti Fp (jplus + k) ((geti Fp (jplus + k - 1)) *. (geti sf (jplus + k)))
    if jplus = jmax then
      Fp := seti Fp (jmax-1) ((negYf jmax j2 j3 m2 m3 : α) /. ZfMax)
      jplus := jmax - 1
  threeTerm j2 j3 m1 m2 m3 jmin jmax scale f Fm Fp undefMin undefMax jminus jplus

/-- (unchecked) phase 1: set-up, selection rules, single-term case, forward iteration over the first
    non-classical region -/
def calculateP (size : Nat) (ws : Array α) (j2 j3 m2 m3 : Int) : Out α := Id.run do
  let m1 : Int := -(m2 + m3)
  let scale : α := ofInt 1000
  let w0 : Array α := ws.map (fun _ => zero)
  let mut f : Array α := w0.extract 0 size
  let mut sf : Array α := w0.extract size (2*size)
  let mut Fm : Array α := w0.extract (2*size) (3*size)
  let mut Fp : Array α := w0.extract (3*size) (4*size)
  let jmin : Int := max ((j2 - j3).natAbs : Int) ((m2 + m3).natAbs : Int)
  let jmax : Int := j2 + j3
  if (m2.natAbs : Int) > j2 || (m3.natAbs : Int) > j3 then return ⟨f, false⟩
  if jmax < jmin then return ⟨f, false⟩
  if jmax = jmin then
    let v : α := one /. sqrt (((ofInt 2 : α) *. ofInt jmin) +. one)
    let p := parity (j2 - j3 + m2 + m3)
    let v := if (lt0 v && decide (p > 0)) || (gt0 v && decide (p < 0)) then v *. ofInt (-1) else v
    return ⟨seti f jmin v, false⟩
  let mut undefMin := false
  let mut jminus : Int := jmin
  let XfMin : α := Xf jmin j2 j3 m1
  let YfMin : α := Yf jmin j2 j3 m2 m3
  if m1 = 0 && m2 = 0 && m3 = 0 then
    Fm := seti Fm jmin one
    Fm := seti Fm (jmin+1) zero
    jminus := jmin + 1
  else if isZero YfMin then
    if isZero XfMin then
      undefMin := true
      jminus := jmin
    else
      Fm := seti Fm jmin one
      Fm := seti Fm (jmin+1) zero
      jminus := jmin + 1
  else if ge0 (XfMin *. YfMin) then
    Fm := seti Fm jmin one
    Fm := seti Fm (jmin+1) ((negYf jmin j2 j3 m2 m3 : α) /. XfMin)
    jminus := jmin + 1
  else
    sf := seti sf jmin ((neg XfMin) /. YfMin)
    jminus := jmax
    for k in [0:(jmax - (jmin+1)).toNat] do
      let j : Int := jmin + 1 + k
      let denominator : α := Yf j j2 j3 m2 m3 +. (Zf j j2 j3 m1 *. (geti sf (j-1)))
      let Xfj : α := Xf j j2 j3 m1
      if lt (abs denominator) (abs Xfj) || ge0 (Xfj *. denominator) || isZero denominator then
        jminus := j - 1
        break
      else
        sf := seti sf j ((neg Xfj) /. denominator)
    Fm := seti Fm jminus one
    for k in [1:(jminus - jmin + 1).toNat] do
      Fm := seti Fm (jminus - k) ((geti Fm (jminus - k + 1)) *. (geti sf (jminus - k)))
    if jminus = jmin then
      Fm := seti Fm (jmin+1) ((negYf jmin j2 j3 m2 m3 : α) /. XfMin)
      jminus := jmin + 1
  afterFwd j2 j3 m1 m2 m3 jmin jmax scale f sf Fm Fp undefMin jminus


theorem calculate_phased (size : Nat) (ws : Array α) (j2 j3 m2 m3 : Int) :
    calculate size ws j2 j3 m2 m3 = calculateP size ws j2 j3 m2 m3 := rfl

theorem fst_getC (size : Nat) (a : Array α) (i : Int) : (getC size a i).1 = geti a i := rfl
omit [Scalar α] in
theorem fst_setC (size : Nat) (a : Array α) (i : Int) (v : α) : (setC size a i v).1 = seti a i v := rfl

theorem fst_finishC (size : Nat) (j2 j3 m2 m3 jmin jmax : Int) (f : Array α) :
    (finishC size j2 j3 m2 m3 jmin jmax f).1 = finish j2 j3 m2 m3 jmin jmax f := by
  unfold finishC finish
  simp only [fst_bind, fst_pure, fst_normalizeC, fst_determineSignsC]
  rfl

theorem fst_meetC (size : Nat) (j2 j3 m1 m2 m3 jmin jmax : Int) (scale : α) (f Fm Fp : Array α)
    (jplus jmid : Int) (FmMid : α) :
    (meetC size j2 j3 m1 m2 m3 jmin jmax scale f Fm Fp jplus jmid FmMid).1
      = meet j2 j3 m1 m2 m3 jmin jmax scale f Fm Fp jplus jmid FmMid := by
  unfold meetC meet
  simp only [fst_bind, fst_pure, fst_ite, fst_forIn, fst_divRangeC, fst_copyRangeC, fst_finishC]
  rfl

theorem fst_threeTermC (size : Nat) (j2 j3 m1 m2 m3 jmin jmax : Int) (scale : α) (f Fm Fp : Array α)
    (undefMin undefMax : Bool) (jminus jplus : Int) :
    (threeTermC size j2 j3 m1 m2 m3 jmin jmax scale f Fm Fp undefMin undefMax jminus jplus).1
      = threeTerm j2 j3 m1 m2 m3 jmin jmax scale f Fm Fp undefMin undefMax jminus jplus := by
  unfold threeTermC threeTerm
  simp only [fst_bind, fst_pure, fst_ite, fst_forIn, fst_divRangeC, fst_copyRangeC, fst_finishC,
    fst_meetC]
  rfl

theorem fst_afterFwdC (size : Nat) (j2 j3 m1 m2 m3 jmin jmax : Int) (scale : α) (f sf Fm Fp : Array α)
    (undefMin : Bool) (jminus : Int) :
    (afterFwdC size j2 j3 m1 m2 m3 jmin jmax scale f sf Fm Fp undefMin jminus).1
      = afterFwd j2 j3 m1 m2 m3 jmin jmax scale f sf Fm Fp undefMin jminus := by
  unfold afterFwdC afterFwd
  simp only [fst_bind, fst_pure, fst_ite, fst_forIn, fst_copyRangeC, fst_normalizeC,
    fst_determineSignsC, fst_threeTermC]
  rfl

theorem fst_calculateChkP (size : Nat) (ws : Array α) (j2 j3 m2 m3 : Int) :
    (calculateChkP size ws j2 j3 m2 m3).1 = calculateP size ws j2 j3 m2 m3 := by
  unfold calculateChkP calculateP
  simp only [fst_bind, fst_pure, fst_ite, fst_forIn, fst_afterFwdC]
  rfl

theorem calculateChk_agrees (size : Nat) (ws : Array α) (j2 j3 m2 m3 : Int) :
    (calculateChk size ws j2 j3 m2 m3).1 = calculate size ws j2 j3 m2 m3 := by
  rw [calculateChk_phased, calculate_phased, fst_calculateChkP]

/-! ### weakest preconditions: "the run is safe and its value satisfies Q" -/

instance : WP Chk .pure where
  wp x := { trans := fun Q => spred(⌜x.2 = false⌝ ∧ Q.1 x.1),
            conjunctiveRaw := by
              intro Q1 Q2
              apply SPred.bientails.of_eq
              simp
              constructor
              · rintro ⟨h, h1, h2⟩; exact ⟨⟨h, h1⟩, h, h2⟩
              · rintro ⟨⟨h, h1⟩, _, h2⟩; exact ⟨h, h1, h2⟩ }

instance : WPMonad Chk .pure where
  wp_pure a := by
    ext Q
    simp [wp, pure, PredTrans.apply, PredTrans.pure]
  wp_bind x f := by
    ext Q
    simp [wp, bind, PredTrans.apply]
    constructor
    · rintro ⟨⟨h, h1⟩, h2⟩; exact ⟨h, h1, h2⟩
    · rintro ⟨h, h1, h2⟩; exact ⟨⟨h, h1⟩, h2⟩

/-- a triple with trivial postcondition says exactly: under `P` the flag stays down -/
theorem safe_iff {β} (x : Chk β) (P : Prop) :
    (⦃⌜P⌝⦄ x ⦃⇓ _ => ⌜True⌝⦄) ↔ (P → x.2 = false) := by
  simp [Triple, wp, PredTrans.apply]

theorem snd_bind {β γ} (x : Chk β) (f : β → Chk γ) : (x >>= f).2 = (x.2 || (f x.1).2) := rfl
theorem snd_pure {β} (a : β) : (pure a : Chk β).2 = false := rfl

theorem oobIdx_false (size : Nat) (i : Int) (h0 : 0 ≤ i) (h1 : i < size) : oobIdx size i = false := by
  unfold oobIdx; simp; omega

theorem snd_getC (size : Nat) (a : Array α) (i : Int) : (getC size a i).2 = oobIdx size i := rfl
omit [Scalar α] in
theorem snd_setC (size : Nat) (a : Array α) (i : Int) (v : α) : (setC size a i v).2 = oobIdx size i := rfl

theorem snd_loopN {β} (n : Nat) (g : Nat → Chk β → Chk β) (s : Chk β) (h0 : s.2 = false)
    (hstep : ∀ k s, k < n → s.2 = false → (g k s).2 = false) : (loopN n g s).2 = false :=
  loopN_inv (fun _ s => s.2 = false) n g s h0 hstep

theorem snd_divRangeC (size : Nat) (a : Array α) (lo hi : Int) (x : α)
    (h : lo ≤ hi → 0 ≤ lo ∧ hi < size) : (divRangeC size a lo hi x).2 = false := by
  unfold divRangeC
  apply snd_loopN _ _ _ rfl
  intro k s hk hs
  have : oobIdx size (lo + k) = false := oobIdx_false _ _ (by omega) (by omega)
  simp only [snd_bind, snd_getC, snd_setC, hs, this, Bool.or_self]
theorem snd_mulRangeC (size : Nat) (a : Array α) (lo hi : Int) (x : α)
    (h : lo ≤ hi → 0 ≤ lo ∧ hi < size) : (mulRangeC size a lo hi x).2 = false := by
  unfold mulRangeC
  apply snd_loopN _ _ _ rfl
  intro k s hk hs
  have : oobIdx size (lo + k) = false := oobIdx_false _ _ (by omega) (by omega)
  simp only [snd_bind, snd_getC, snd_setC, hs, this, Bool.or_self]
theorem snd_copyRangeC (size : Nat) (d a : Array α) (lo hi : Int)
    (h : lo ≤ hi → 0 ≤ lo ∧ hi < size) : (copyRangeC size d a lo hi).2 = false := by
  unfold copyRangeC
  apply snd_loopN _ _ _ rfl
  intro k s hk hs
  have : oobIdx size (lo + k) = false := oobIdx_false _ _ (by omega) (by omega)
  simp only [snd_bind, snd_getC, snd_setC, hs, this, Bool.or_self]
theorem snd_normalizeC (size : Nat) (f : Array α) (lo hi : Int)
    (h : lo ≤ hi → 0 ≤ lo ∧ hi < size) : (normalizeC size f lo hi).2 = false := by
  unfold normalizeC
  rw [snd_bind, snd_divRangeC _ _ _ _ _ h, Bool.or_false]
  apply snd_loopN _ _ _ rfl
  intro k s hk hs
  have : oobIdx size (lo + k) = false := oobIdx_false _ _ (by omega) (by omega)
  simp only [snd_bind, snd_getC, snd_pure, hs, this, Bool.or_self]
theorem snd_determineSignsC (size : Nat) (f : Array α) (lo hi j2 j3 m2 m3 : Int)
    (h : 0 ≤ lo ∧ lo ≤ hi ∧ hi < size) : (determineSignsC size f lo hi j2 j3 m2 m3).2 = false := by
  unfold determineSignsC
  have : oobIdx size hi = false := oobIdx_false _ _ (by omega) (by omega)
  simp only [snd_bind, snd_getC, this, Bool.false_or]
  split
  · exact snd_mulRangeC _ _ _ _ _ (by omega)
  · rfl

/-! ### Hoare triples of the checked accessors: the precondition is the range condition -/

@[spec] theorem getC_spec (size : Nat) (a : Array α) (i : Int) :
    ⦃⌜0 ≤ i ∧ i < size⌝⦄ getC size a i ⦃⇓ _ => ⌜True⌝⦄ :=
  (safe_iff _ _).2 fun h => oobIdx_false _ _ h.1 h.2
omit [Scalar α] in
@[spec] theorem setC_spec (size : Nat) (a : Array α) (i : Int) (v : α) :
    ⦃⌜0 ≤ i ∧ i < size⌝⦄ setC size a i v ⦃⇓ _ => ⌜True⌝⦄ :=
  (safe_iff _ _).2 fun h => oobIdx_false _ _ h.1 h.2
@[spec] theorem divRangeC_spec (size : Nat) (a : Array α) (lo hi : Int) (x : α) :
    ⦃⌜lo ≤ hi → 0 ≤ lo ∧ hi < size⌝⦄ divRangeC size a lo hi x ⦃⇓ _ => ⌜True⌝⦄ :=
  (safe_iff _ _).2 (snd_divRangeC _ _ _ _ _)
@[spec] theorem copyRangeC_spec (size : Nat) (d a : Array α) (lo hi : Int) :
    ⦃⌜lo ≤ hi → 0 ≤ lo ∧ hi < size⌝⦄ copyRangeC size d a lo hi ⦃⇓ _ => ⌜True⌝⦄ :=
  (safe_iff _ _).2 (snd_copyRangeC _ _ _ _ _)
@[spec] theorem normalizeC_spec (size : Nat) (a : Array α) (lo hi : Int) :
    ⦃⌜lo ≤ hi → 0 ≤ lo ∧ hi < size⌝⦄ normalizeC size a lo hi ⦃⇓ _ => ⌜True⌝⦄ :=
  (safe_iff _ _).2 (snd_normalizeC _ _ _ _)
@[spec] theorem determineSignsC_spec (size : Nat) (a : Array α) (lo hi j2 j3 m2 m3 : Int) :
    ⦃⌜0 ≤ lo ∧ lo ≤ hi ∧ hi < size⌝⦄ determineSignsC size a lo hi j2 j3 m2 m3 ⦃⇓ _ => ⌜True⌝⦄ :=
  (safe_iff _ _).2 (snd_determineSignsC _ _ _ _ _ _ _ _)

/-- the loop variable of `for k in [a:b]` -/
theorem range_mem {a b : Nat} {pref suff : List Nat} {cur : Nat}
    (h : ([a:b] : Std.Legacy.Range).toList = pref ++ cur :: suff) : a ≤ cur ∧ cur < b := by
  have hm : cur ∈ ([a:b] : Std.Legacy.Range).toList := by rw [h]; simp
  simp [Std.Legacy.Range.toList, List.mem_range'_1] at hm
  omega

/-! ### the phases, innermost first.  Each precondition is a statement about integers only; the loop
    invariants mention only the integer loop-carried variables (`jmid`, `jplus`, `jminus`). -/

@[spec] theorem finishC_spec (size : Nat) (j2 j3 m2 m3 jmin jmax : Int) (f : Array α) :
    ⦃⌜0 ≤ jmin ∧ jmin ≤ jmax ∧ jmax < size⌝⦄ finishC size j2 j3 m2 m3 jmin jmax f ⦃⇓ _ => ⌜True⌝⦄ := by
  mvcgen [finishC]
  all_goals omega

/-- `F_plus[j-1]`, `F_plus[j+1]` for `j_mid < j ≤ j_plus`, `F_plus[j_mid]`, the three copies.
    Note `0 ≤ jmid` (not `jmin ≤ jmid`): after `j_mid -= 1` the value `j_min - 1` is possible. -/
@[spec] theorem meetC_spec (size : Nat) (j2 j3 m1 m2 m3 jmin jmax : Int) (scale : α) (f Fm Fp : Array α)
    (jplus jmid : Int) (FmMid : α) :
    ⦃⌜0 ≤ jmin ∧ jmin < jmax ∧ jmax < size ∧ 0 ≤ jmid ∧ jmid ≤ jmax ∧ jplus ≤ jmax - 1⌝⦄
      meetC size j2 j3 m1 m2 m3 jmin jmax scale f Fm Fp jplus jmid FmMid ⦃⇓ _ => ⌜True⌝⦄ := by
  mvcgen [meetC] invariants
    · ⇓⟨xs, s⟩ => ⌜True⌝
    · ⇓⟨xs, s⟩ => ⌜True⌝
  all_goals first
    | omega
    | (have := range_mem ‹_ = _ ++ _ :: _›; omega)

/-- The classical region.  The last conjunct is what keeps `F_minus[j_mid - 1]` inside the buffer:
    `j_mid = (j_minus + j_plus) // 2 ≥ 1`. -/
@[spec] theorem threeTermC_spec (size : Nat) (j2 j3 m1 m2 m3 jmin jmax : Int) (scale : α)
    (f Fm Fp : Array α) (undefMin undefMax : Bool) (jminus jplus : Int) :
    ⦃⌜(0 ≤ jmin ∧ jmin < jmax ∧ jmax < size) ∧
       (jmin ≤ jminus ∧ jminus ≤ jmax - 1 ∧ (undefMin = false → jmin + 1 ≤ jminus)) ∧
       (jmin ≤ jplus ∧ jplus ≤ jmax ∧ (undefMax = false → jplus ≤ jmax - 1)) ∧
       (undefMin = false → undefMax = false → 2 ≤ jminus + jplus)⌝⦄
      threeTermC size j2 j3 m1 m2 m3 jmin jmax scale f Fm Fp undefMin undefMax jminus jplus
    ⦃⇓ _ => ⌜True⌝⦄ := by
  mvcgen [threeTermC] invariants
    · ⇓⟨xs, Fm, jmid⟩ => ⌜jmid ≤ (jminus + jplus) / 2 ∧ (jmid = (jminus + jplus) / 2 ∨ jminus + 1 ≤ jmid)⌝
    · ⇓⟨xs, s⟩ => ⌜True⌝
    · ⇓⟨xs, s⟩ => ⌜True⌝
  all_goals first
    | omega
    | (have := range_mem ‹_ = _ ++ _ :: _›; omega)
    | (cases undefMin <;> cases undefMax <;> simp_all; omega)
    | (have := range_mem ‹_ = _ ++ _ :: _›; cases undefMin <;> cases undefMax <;> simp_all; omega)

/-- Early exit or reverse iteration.  The last conjunct excludes the one bad path: with `j_min = 0`
    the forward phase must have ended "undefined" (or all `m` are zero, which selects the first branch
    of the reverse phase too). -/
@[spec] theorem afterFwdC_spec (size : Nat) (j2 j3 m1 m2 m3 jmin jmax : Int) (scale : α)
    (f sf Fm Fp : Array α) (undefMin : Bool) (jminus : Int) :
    ⦃⌜(0 ≤ jmin ∧ jmin < jmax ∧ jmax < size) ∧
       (jmin ≤ jminus ∧ jminus ≤ jmax ∧ (undefMin = false → jmin + 1 ≤ jminus)) ∧
       (jmin = 0 → undefMin = true ∨ (m1 = 0 ∧ m2 = 0 ∧ m3 = 0))⌝⦄
      afterFwdC size j2 j3 m1 m2 m3 jmin jmax scale f sf Fm Fp undefMin jminus
    ⦃⇓ _ => ⌜True⌝⦄ := by
  mvcgen [afterFwdC] invariants
    · ⇓⟨xs, sf, jplus⟩ => ⌜jplus = jmin ∨ (jminus + 1 ≤ jplus ∧ jplus ≤ jmax)⌝
    · ⇓⟨xs, s⟩ => ⌜True⌝
  all_goals first
    | omega
    | (have := range_mem ‹_ = _ ++ _ :: _›; omega)
    | (cases undefMin <;> simp_all <;> omega)

/-- `j_min` of a call -/
def jminOf (j2 j3 m2 m3 : Int) : Int := max ((j2 - j3).natAbs : Int) ((m2 + m3).natAbs : Int)

/-- What is needed when `j_min = 0` (i.e. `j2 = j3`, `m2 = -m3`, hence `m1 = 0`): all `m` vanish, or
    the two tests `Yf_j_min == 0.0` and `Xf_j_min == 0.0` both answer `True` (as they do in IEEE
    arithmetic, where `Yf_j_min = float(0)` and `Xf_j_min = 0 * A(1, ...)`). -/
def ZeroCase (α : Type) [Scalar α] (j2 j3 m2 m3 : Int) : Prop :=
  jminOf j2 j3 m2 m3 = 0 → (m2 = 0 ∧ m3 = 0) ∨
    (isZero (Yf (jminOf j2 j3 m2 m3) j2 j3 m2 m3 : α) = true ∧
     isZero (Xf (jminOf j2 j3 m2 m3) j2 j3 (-(m2 + m3)) : α) = true)

theorem calculateChkP_spec (size : Nat) (ws : Array α) (j2 j3 m2 m3 : Int)
    (h2 : 0 ≤ j2) (h3 : 0 ≤ j3) (hs : j2 + j3 + 1 ≤ size) (hz : ZeroCase α j2 j3 m2 m3) :
    ⦃⌜True⌝⦄ calculateChkP size ws j2 j3 m2 m3 ⦃⇓ _ => ⌜True⌝⦄ := by
  unfold ZeroCase jminOf at hz
  mvcgen [calculateChkP] invariants
    · ⇓⟨xs, sf, jminus⟩ => ⌜jminus = j2 + j3 ∨
        (max ((j2 - j3).natAbs : Int) ((m2 + m3).natAbs : Int) ≤ jminus ∧ jminus ≤ j2 + j3 - 2)⌝
    · ⇓⟨xs, s⟩ => ⌜True⌝
  all_goals first
    | omega
    | (have := range_mem ‹_ = _ ++ _ :: _›; omega)
    | (simp_all; omega)
    | (refine ⟨by omega, by omega, fun h0 => ?_⟩
       rcases hz h0 with ⟨a, b⟩ | ⟨a, b⟩
       · exact Or.inr ⟨by omega, a, b⟩
       · first | exact absurd a ‹¬ isZero _ = true› | exact absurd b ‹¬ isZero _ = true›)

/-! ### the results -/

/-- No index handed to an accessor is out of range, whatever the comparisons answer (only
    `ZeroCase`, which is void unless `j_min = 0`, constrains them). -/
theorem calculateChk_safe (size : Nat) (ws : Array α) (j2 j3 m2 m3 : Int)
    (h2 : 0 ≤ j2) (h3 : 0 ≤ j3) (hs : j2 + j3 + 1 ≤ size) (hz : ZeroCase α j2 j3 m2 m3) :
    (calculateChk size ws j2 j3 m2 m3).2 = false := by
  rw [calculateChk_phased]
  exact (safe_iff _ _).1 (calculateChkP_spec size ws j2 j3 m2 m3 h2 h3 hs hz) trivial

theorem zeroCase_of_pos (j2 j3 m2 m3 : Int) (h : j2 ≠ j3 ∨ m2 + m3 ≠ 0) : ZeroCase α j2 j3 m2 m3 := by
  intro h0; unfold jminOf at h0; omega

theorem YfI_zero (j2 j3 m2 m3 : Int) (h : m2 + m3 = 0) : YfI 0 j2 j3 m2 m3 = 0 := by
  have w0 : Gen.wrap64 0 = 0 := by decide
  have w1 : Gen.wrap64 1 = 1 := by decide
  simp [YfI, Gen.B_ret, Gen.B_w, h, w0, w1]

/-- two laws of the zero of the arithmetic suffice: `0.0 == 0.0` and `0 * x == 0.0` -/
theorem zeroCase_of_laws (j2 j3 m2 m3 : Int) (hb : beq (zero : α) zero = true)
    (hm : ∀ x : α, beq (zero *. x) zero = true) : ZeroCase α j2 j3 m2 m3 := by
  intro h0
  have hs : m2 + m3 = 0 := by unfold jminOf at h0; omega
  refine Or.inr ⟨?_, ?_⟩
  · rw [h0]; unfold isZero Yf; rw [YfI_zero j2 j3 m2 m3 hs]; exact hb
  · rw [h0]; unfold isZero Xf; exact hm _

/-- with a workspace of `4 * size` cells the four views have exactly `size` cells, so "`0 ≤ i < size`"
    is "inside the view" -/
theorem views_size (size : Nat) (ws : Array α) (hws : ws.size = 4 * size) :
    let w0 : Array α := ws.map (fun _ => zero)
    (w0.extract 0 size).size = size ∧ (w0.extract size (2*size)).size = size ∧
    (w0.extract (2*size) (3*size)).size = size ∧ (w0.extract (3*size) (4*size)).size = size := by
  simp only [Array.size_extract, Array.size_map, hws]
  omega

/-- front end: the call made by `wigner3j` is admissible for `calculateChk_safe`, and the entry read
    afterwards lies in the returned view -/
theorem wigner3j_call_safe (j1 j2 j3 m1 m2 m3 : Int) (hs : m1 + m2 + m3 = 0)
    (h1 : (m1.natAbs : Int) ≤ j1) (h2 : (m2.natAbs : Int) ≤ j2) (h3 : (m3.natAbs : Int) ≤ j3)
    (ht : 2 * max (max j1 j2) j3 ≤ j1 + j2 + j3) :
    let p := Lemmas.W3j.perm j1 j2 j3 m1 m2 m3
    let size := (p.a2 + p.a3 + 1).toNat
    (ZeroCase α p.a2 p.a3 p.b2 p.b3 →
      (calculateChk (α := α) size (Array.replicate (4*size) zero) p.a2 p.a3 p.b2 p.b3).2 = false) ∧
    oobIdx size p.a1 = false := by
  intro p size
  have hd : ((p.b2.natAbs : Int) ≤ p.a2 ∧ (p.b3.natAbs : Int) ≤ p.a3 ∧ p.b1 + p.b2 + p.b3 = 0) ∧
      max ((p.a2 - p.a3).natAbs : Int) ((p.b2 + p.b3).natAbs : Int) ≤ p.a1 ∧ p.a1 ≤ p.a2 + p.a3 ∧
      p.a1.toNat < (p.a2 + p.a3 + 1).toNat :=
    Lemmas.W3j.perm_call_in_domain j1 j2 j3 m1 m2 m3 hs h1 h2 h3 ht
  obtain ⟨⟨d1, d2, _⟩, d3, d4, _⟩ := hd
  have hsz : (size : Int) = p.a2 + p.a3 + 1 := by
    show (((p.a2 + p.a3 + 1).toNat : Nat) : Int) = _
    omega
  refine ⟨fun hz => calculateChk_safe size _ p.a2 p.a3 p.b2 p.b3 (by omega) (by omega) (by omega) hz,
    oobIdx_false _ _ (by omega) (by omega)⟩

end Lemmas.W3jBounds
