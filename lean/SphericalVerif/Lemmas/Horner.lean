import SphericalVerif.Model.Assemble
import SphericalVerif.Lemmas.RealScalar
import Mathlib.Data.Complex.Basic
import Mathlib.Data.Complex.BigOperators
import Mathlib.Algebra.BigOperators.Intervals
import Mathlib.Algebra.Order.Interval.Finset.SuccPred
import Mathlib.Order.Interval.Finset.Nat
import Mathlib.Data.Int.Interval
import Mathlib.Tactic.Ring
import Mathlib.Tactic.Linarith
import Mathlib.Tactic.NormNum
/-! Helper lemmas for the route identities C02/C03/C04/C07/C13 (exact-arithmetic part): at `α := ℝ`
    the Horner kernels `_evaluate_Horner`, `_rotate_Horner` of spherical/wigner.py compute closed-form
    double sums; `_fill_sYlm`, `_fill_wigner_D` entries have closed product forms.  No assumption is
    made on the H values the memory holds. -/
noncomputable section
namespace Horner
open Model
open scoped ComplexConjugate

/-- a model complex number as a Mathlib complex number -/
def toC (w : Cx ℝ) : ℂ := ⟨w.re, w.im⟩

@[simp] theorem toC_re (w : Cx ℝ) : (toC w).re = w.re := rfl
@[simp] theorem toC_im (w : Cx ℝ) : (toC w).im = w.im := rfl

theorem toC_mk (x y : ℝ) : toC ⟨x, y⟩ = ⟨x, y⟩ := rfl

theorem toC_zero : toC (⟨zero, zero⟩ : Cx ℝ) = 0 := by
  apply Complex.ext <;> simp [toC]

theorem toC_mul (a b : Cx ℝ) : toC (Cx.mul a b) = toC a * toC b := by
  apply Complex.ext <;> simp [toC, Cx.mul]

theorem toC_add (a b : Cx ℝ) : toC (Cx.add a b) = toC a + toC b := by
  apply Complex.ext <;> simp [toC, Cx.add]

theorem toC_ofRe (x : ℝ) : toC (Cx.ofRe x) = (x : ℂ) := by
  apply Complex.ext <;> simp [toC, Cx.ofRe]

theorem toC_conj (a : Cx ℝ) : toC (Cx.conj a) = conj (toC a) := by
  apply Complex.ext <;> simp [toC, Cx.conj]

theorem toC_rmul (x : ℝ) (b : Cx ℝ) : toC (Cx.rmul x b) = (x : ℂ) * toC b := by
  rw [Cx.rmul, toC_mul, toC_ofRe]

theorem toC_mulr (a : Cx ℝ) (x : ℝ) : toC (Cx.mulr a x) = toC a * (x : ℂ) := by
  rw [Cx.mulr, toC_mul, toC_ofRe]

/-- inverse of `toC` (used only to build witnesses) -/
def ofC (z : ℂ) : Cx ℝ := ⟨z.re, z.im⟩

@[simp] theorem toC_ofC (z : ℂ) : toC (ofC z) = z := rfl

/-! ### ε signs -/

theorem eps_natCast (j : ℕ) : eps (j : ℤ) = (-1) ^ j := by
  rcases Nat.even_or_odd j with h | h
  · rw [h.neg_one_pow]
    unfold eps
    have : ((j : ℤ)) % 2 = 0 := by obtain ⟨t, rfl⟩ := h; omega
    simp [this]
  · rw [h.neg_one_pow]
    unfold eps
    have h1 : ((j : ℤ)) % 2 = 1 := by obtain ⟨t, rfl⟩ := h; omega
    have h2 : ¬ (j = 0) := by obtain ⟨t, rfl⟩ := h; omega
    simp [h1, h2]

theorem eps_of_nonpos {m : ℤ} (h : m ≤ 0) : eps m = 1 := by
  unfold eps; simp [h]

theorem eps_of_nonneg {m : ℤ} (h : 0 ≤ m) : eps m = (-1) ^ m.natAbs := by
  obtain ⟨n, rfl⟩ := Int.eq_ofNat_of_zero_le h
  simpa using eps_natCast n

theorem eps_sq (m : ℤ) : eps m * eps m = 1 := by
  rcases le_total m 0 with h | h
  · rw [eps_of_nonpos h]; rfl
  · rw [eps_of_nonneg h, ← mul_pow]; simp

/-- `ε_k ε_{-k} = (-1)^|k|` -/
theorem eps_mul_eps_neg (k : ℤ) : eps k * eps (-k) = (-1) ^ k.natAbs := by
  rcases le_total k 0 with h | h
  · rw [eps_of_nonpos h, eps_of_nonneg (by omega : 0 ≤ -k), Int.natAbs_neg, one_mul]
  · rw [eps_of_nonpos (by omega : -k ≤ 0), eps_of_nonneg h, mul_one]

theorem eps_neg (k : ℤ) : eps (-k) = (-1) ^ k.natAbs * eps k := by
  have h := eps_mul_eps_neg k
  calc eps (-k) = (eps k * eps k) * eps (-k) := by rw [eps_sq, one_mul]
    _ = eps k * (eps k * eps (-k)) := by ring
    _ = (-1) ^ k.natAbs * eps k := by rw [h]; ring

/-- `(-1)^|s| ε_s` is 1 for `s ≥ 0` and `(-1)^|s|` for `s < 0` -/
theorem sign_eps_of_nonneg {s : ℤ} (h : 0 ≤ s) : (-1 : ℤ) ^ s.natAbs * eps s = 1 := by
  rw [eps_of_nonneg h, ← mul_pow]; simp

/-! ### the stored-wedge representative is invariant under (m', m) ↦ (-m', -m) -/

theorem wedgeRep_neg_neg (mp m : ℤ) : Spec.wedgeRep (-mp) (-m) = Spec.wedgeRep mp m := by
  unfold Spec.wedgeRep
  by_cases h1 : m < -mp <;> by_cases h2 : m < mp <;> by_cases h3 : -m < mp <;>
    by_cases h4 : -m < -mp <;>
    simp only [h1, h2, h3, h4, neg_neg, if_true, if_false, Prod.mk.injEq] <;> omega

theorem Hat_neg_neg {α : Type} [Scalar α] {μ : Type} [Mem μ α] (st : μ) (ell : ℕ) (mp m : ℤ) :
    Hat (α := α) st ell (-mp) (-m) = Hat (α := α) st ell mp m := by
  unfold Hat; rw [wedgeRep_neg_neg]

/-! ### signed powers -/

/-- `z^m` for `m ≥ 0`, `conj(z)^|m|` for `m < 0` (what the kernels use for "z^m"; equal to the integer
    power `z^m` when `|z| = 1`, see `pw_eq_zpow`) -/
def pw (z : ℂ) (m : ℤ) : ℂ := if m < 0 then (conj z) ^ (-m).toNat else z ^ m.toNat

/-- the same read from an array of powers, exactly as `_fill_wigner_D` / `_fill_sYlm` do it -/
def apw (arr : Array (Cx ℝ)) (m : ℤ) : ℂ :=
  if m < 0 then conj (toC (cget arr (-m).toNat)) else toC (cget arr m.toNat)

theorem apw_eq_pw {arr : Array (Cx ℝ)} {z : ℂ} {L : ℕ} (h : ∀ k ≤ L, toC (cget arr k) = z ^ k)
    {m : ℤ} (hm : m.natAbs ≤ L) : apw arr m = pw z m := by
  unfold apw pw
  split
  · rw [h _ (by omega), map_pow]
  · rw [h _ (by omega)]

theorem pw_natCast (z : ℂ) (j : ℕ) : pw z (j : ℤ) = z ^ j := by
  unfold pw; simp

theorem pw_neg_natCast_succ (z : ℂ) (j : ℕ) : pw z (-((j : ℤ) + 1)) = (conj z) ^ (j + 1) := by
  unfold pw
  have h : -((j : ℤ) + 1) < 0 := by omega
  have h2 : (-(-((j : ℤ) + 1))).toNat = j + 1 := by omega
  rw [if_pos h, h2]

theorem pw_zero (z : ℂ) : pw z 0 = 1 := by
  unfold pw; simp

/-- on the unit circle the signed power is the integer power -/
theorem pw_eq_zpow {z : ℂ} (hz : Complex.normSq z = 1) (m : ℤ) : pw z m = z ^ m := by
  have hne : z ≠ 0 := by
    intro h0; rw [h0] at hz; simp at hz
  have hc : conj z = z⁻¹ := by
    rw [Complex.inv_def, hz]; simp
  unfold pw
  split
  · rename_i h
    rw [hc, inv_pow, ← zpow_natCast, ← zpow_neg]
    congr 1; omega
  · rename_i h
    rw [← zpow_natCast]; congr 1; omega

/-- `conj (z^m) = z^(-m)` in signed powers (no unit-modulus assumption) -/
theorem conj_pw (z : ℂ) (m : ℤ) : conj (pw z m) = pw z (-m) := by
  unfold pw
  rcases lt_trichotomy m 0 with h | h | h
  · have h2 : ¬ (-m < 0) := by omega
    rw [if_pos h, if_neg h2, map_pow, Complex.conj_conj]
  · subst h; simp
  · have h1 : ¬ (m < 0) := by omega
    have h2 : -m < 0 := by omega
    rw [if_neg h1, if_pos h2, map_pow, neg_neg]

/-- `(-1)^|k|` as an integer power -/
theorem neg_one_pow_natAbs (k : ℤ) : ((-1 : ℂ)) ^ k.natAbs = (-1 : ℂ) ^ k := by
  rcases Int.natAbs_eq k with h | h
  · conv_rhs => rw [h]
    rw [zpow_natCast]
  · conv_rhs => rw [h]
    rw [zpow_neg, zpow_natCast, ← inv_pow]; norm_num

/-! ### the normalisation √((2ℓ+1)/4π) -/

def nrm (ell : ℕ) : ℝ := Real.sqrt ((2 * (ell : ℝ) + 1) / (4 * Real.pi))

theorem sqrt_model (ell : ℕ) :
    Scalar.sqrt (Scalar.ofInt (2 * (ell : Int) + 1) *. (Scalar.inv4pi : ℝ)) = nrm ell := by
  simp only [RealScalar.sqrt_def, RealScalar.mul_def, RealScalar.ofInt_def, RealScalar.inv4pi_def, nrm]
  congr 1; push_cast; ring

/-! ### closed product forms of the entry models -/

section entries
variable {μ : Type} [Mem μ ℝ] (st : μ)

/-- `D^ℓ_{m',m} = ε_{m'} ε_{-m} H^ℓ(m',m) · zᵧ^m · zₐ^{m'}` (powers read from the arrays) -/
theorem toC_DEntry (za zg : Array (Cx ℝ)) (ell : ℕ) (mp m : ℤ) :
    toC (DEntry st za zg ell mp m) =
      ((eps mp * eps (-m) : ℤ) : ℂ) * ((Hat (α := ℝ) st ell mp m : ℝ) : ℂ) * apw zg m * apw za mp := by
  unfold DEntry apw
  simp only [toC_mul, toC_rmul, RealScalar.mul_def, RealScalar.ofInt_def, apply_ite toC, toC_conj]
  push_cast
  ring

/-- the γ-coefficient of `_fill_sYlm` -/
def c1 (s : ℤ) (w : ℂ) : ℂ := if 0 ≤ s then conj w else (((-1) ^ s.natAbs : ℤ) : ℂ) * w

theorem toC_sYlmEntry (za : Array (Cx ℝ)) (zgpow : Cx ℝ) (s : ℤ) (ell : ℕ) (m : ℤ)
    (h : s.natAbs ≤ ell) :
    toC (sYlmEntry st za zgpow s ell m) =
      c1 s (toC zgpow) * (nrm ell : ℂ) * ((eps m : ℤ) : ℂ) * ((Hat (α := ℝ) st ell m (-s) : ℝ) : ℂ)
        * apw za m := by
  have h' : ¬ ((ell : ℤ) < (s.natAbs : ℤ)) := by omega
  unfold sYlmEntry
  rw [if_neg h']
  simp only [sqrt_model]
  unfold apw c1
  by_cases hm : m < 0
  · rw [if_pos hm, if_pos hm, eps_of_nonpos (by omega)]
    simp only [toC_mul, toC_mulr, toC_ofRe, RealScalar.ofInt_def, apply_ite toC, toC_conj]
    push_cast
    ring
  · rw [if_neg hm, if_neg hm]
    simp only [toC_mul, toC_mulr, toC_ofRe, RealScalar.ofInt_def, apply_ite toC, toC_conj]
    push_cast
    ring

end entries

/-- below `|s|` the sYlm entry is the literal zero, at every scalar type -/
theorem sYlmEntry_low {α : Type} [Scalar α] {μ : Type} [Mem μ α] (st : μ) (za : Array (Cx α))
    (zgpow : Cx α) (s : ℤ) (ell : ℕ) (m : ℤ) (h : ell < s.natAbs) :
    sYlmEntry st za zgpow s ell m = ⟨zero, zero⟩ := by
  unfold sYlmEntry
  rw [if_pos (by omega)]

/-! ### pure sum lemmas -/

theorem sum_Icc_symm_split (g : ℤ → ℂ) (ell : ℕ) :
    ∑ m ∈ Finset.Icc (-(ell : ℤ)) ell, g m =
      g 0 + ∑ j ∈ Finset.range ell, g (-((j : ℤ) + 1)) + ∑ j ∈ Finset.range ell, g ((j : ℤ) + 1) := by
  induction ell with
  | zero => simp
  | succ n ih =>
    have e1 : Finset.Icc (-((n + 1 : ℕ) : ℤ)) ((n + 1 : ℕ) : ℤ) =
        insert ((n : ℤ) + 1) (insert (-((n : ℤ) + 1)) (Finset.Icc (-(n : ℤ)) n)) := by
      ext x; simp only [Finset.mem_Icc, Finset.mem_insert]; push_cast; omega
    rw [e1, Finset.sum_insert, Finset.sum_insert, ih, Finset.sum_range_succ, Finset.sum_range_succ]
    · ring
    · simp only [Finset.mem_Icc]; omega
    · simp only [Finset.mem_Icc, Finset.mem_insert]; omega

theorem horner_final (A : ℕ → ℂ) (z : ℂ) (ell : ℕ) :
    (∑ i ∈ Finset.range ell, A (ell - i) * z ^ (ell - 1 - i)) * z =
      ∑ j ∈ Finset.range ell, A (j + 1) * z ^ (j + 1) := by
  rw [← Finset.sum_range_reflect (fun j => A (j + 1) * z ^ (j + 1)) ell, Finset.sum_mul]
  apply Finset.sum_congr rfl
  intro i hi
  have hi' : i < ell := Finset.mem_range.mp hi
  have e : ell - 1 - i + 1 = ell - i := by omega
  simp only [e]
  rw [mul_assoc, ← pow_succ, e]

theorem horner_step (A : ℕ → ℂ) (z : ℂ) (ell k : ℕ) :
    (∑ i ∈ Finset.range (k + 1), A (ell - i) * z ^ (k - i)) * z + A (ell - (k + 1)) =
      ∑ i ∈ Finset.range (k + 1 + 1), A (ell - i) * z ^ (k + 1 - i) := by
  rw [Finset.sum_range_succ _ (k + 1), Finset.sum_mul]
  simp only [Nat.sub_self, pow_zero, mul_one]
  congr 1
  apply Finset.sum_congr rfl
  intro i hi
  have hi' : i < k + 1 := Finset.mem_range.mp hi
  have e : k + 1 - i = k - i + 1 := by omega
  rw [e, pow_succ, mul_assoc]


/-! ### the Horner accumulation shared by `_evaluate_Horner` and `_rotate_Horner` -/

/-- the per-ℓ Horner accumulation with abstract weights `F` and H-values `H`
    (`Model.evalEll` and the body of `Model.rotateHornerEntry` are instances, by `rfl`) -/
def hornerBody (F : ℤ → Cx ℝ) (H : ℤ → ℝ) (za : Cx ℝ) (ell : ℕ) : Cx ℝ :=
  let zab := Cx.conj za
  let f0 : Cx ℝ := Cx.mulr (F 0) (H 0)
  if ell = 0 then f0 else
  let e0 : Int := (-1) ^ ell
  let neg0 : Cx ℝ := Cx.mulr (F (-(ell : Int))) (H (-(ell : Int)))
  let pos0 : Cx ℝ := Cx.mulr (Cx.mul (Cx.ofRe (Scalar.ofInt e0)) (F ell)) (H ell)
  let (neg, pos, _) := loopN (ell - 1) (fun k (p : Cx ℝ × Cx ℝ × Int) =>
    let m : Int := (ell : Int) - 1 - k
    let (neg, pos, e) := p
    let e := e * (-1)
    let neg := Cx.add (Cx.mul neg zab) (Cx.mulr (F (-m)) (H (-m)))
    let pos := Cx.add (Cx.mul pos za) (Cx.mulr (Cx.mul (Cx.ofRe (Scalar.ofInt e)) (F m)) (H m))
    (neg, pos, e)) (neg0, pos0, e0)
  Cx.add (Cx.add f0 (Cx.mul neg zab)) (Cx.mul pos za)

theorem evalEll_eq_body {μ : Type} [Mem μ ℝ] (st : μ) (f : Array (Cx ℝ)) (za : Cx ℝ) (s : ℤ)
    (ell : ℕ) :
    evalEll st f za s ell = hornerBody (fAt f ell) (fun n => Hat (α := ℝ) st ell n (-s)) za ell := rfl

theorem rotateHornerEntry_eq_body {μ : Type} [Mem μ ℝ] (st : μ) (f : Array (Cx ℝ)) (za : Cx ℝ)
    (zgpow : ℤ → Cx ℝ) (ell : ℕ) (m : ℤ) :
    rotateHornerEntry st f za zgpow ell m =
      Cx.mul (hornerBody (fAt f ell) (fun n => Hat (α := ℝ) st ell n m) za ell)
        (Cx.mul (Cx.ofRe (Scalar.ofInt (eps (-m)))) (zgpow m)) := rfl

/-- coefficient of the negative-index Horner polynomial -/
def An (F : ℤ → Cx ℝ) (H : ℤ → ℝ) (j : ℕ) : ℂ := toC (F (-(j : ℤ))) * ((H (-(j : ℤ)) : ℝ) : ℂ)
/-- coefficient of the positive-index Horner polynomial (carries the running sign `e = (-1)^j`) -/
def Bp (F : ℤ → Cx ℝ) (H : ℤ → ℝ) (j : ℕ) : ℂ := (-1) ^ j * toC (F (j : ℤ)) * ((H (j : ℤ) : ℝ) : ℂ)

/-- loop invariant: after `k` turns the two accumulators are the Horner partial sums -/
def HInv (F : ℤ → Cx ℝ) (H : ℤ → ℝ) (za : Cx ℝ) (ell : ℕ) (k : ℕ) (p : Cx ℝ × Cx ℝ × Int) : Prop :=
  toC p.1 = ∑ i ∈ Finset.range (k + 1), An F H (ell - i) * (conj (toC za)) ^ (k - i) ∧
  toC p.2.1 = ∑ i ∈ Finset.range (k + 1), Bp F H (ell - i) * (toC za) ^ (k - i) ∧
  p.2.2 = (-1) ^ ell * (-1) ^ k

theorem horner_loop (F : ℤ → Cx ℝ) (H : ℤ → ℝ) (za : Cx ℝ) (ell : ℕ) :
    HInv F H za ell (ell - 1) (loopN (ell - 1) (fun k (p : Cx ℝ × Cx ℝ × Int) =>
      let m : Int := (ell : Int) - 1 - k
      let (neg, pos, e) := p
      let e := e * (-1)
      let neg := Cx.add (Cx.mul neg (Cx.conj za)) (Cx.mulr (F (-m)) (H (-m)))
      let pos := Cx.add (Cx.mul pos za) (Cx.mulr (Cx.mul (Cx.ofRe (Scalar.ofInt e)) (F m)) (H m))
      (neg, pos, e))
      (Cx.mulr (F (-(ell : Int))) (H (-(ell : Int))),
       Cx.mulr (Cx.mul (Cx.ofRe (Scalar.ofInt ((-1) ^ ell))) (F ell)) (H ell), (-1) ^ ell)) := by
  apply loopN_inv (HInv F H za ell)
  · refine ⟨?_, ?_, ?_⟩
    · simp [An, toC_mulr]
    · simp [Bp, toC_mulr, toC_mul, toC_ofRe]
    · simp
  · rintro k ⟨neg, pos, e⟩ hk ⟨h1, h2, h3⟩
    simp only at h1 h2 h3
    obtain ⟨j, rfl⟩ : ∃ j, ell = j + (k + 1) := ⟨ell - (k + 1), by omega⟩
    have hm : ((j + (k + 1) : ℕ) : ℤ) - 1 - (k : ℤ) = (j : ℤ) := by push_cast; ring
    have hj : j + (k + 1) - (k + 1) = j := by omega
    have he : e * (-1) = (-1) ^ j := by
      rw [h3, pow_add, pow_succ]
      have : ((-1 : ℤ) ^ k) * ((-1 : ℤ) ^ k) = 1 := by rw [← mul_pow]; simp
      calc (-1 : ℤ) ^ j * ((-1) ^ k * -1) * (-1) ^ k * -1
          = (-1) ^ j * (((-1 : ℤ) ^ k) * ((-1 : ℤ) ^ k)) := by ring
        _ = (-1) ^ j := by rw [this, mul_one]
    refine ⟨?_, ?_, ?_⟩
    · simp only [hm, toC_add, toC_mul, toC_mulr, toC_conj, h1]
      rw [← horner_step, hj]; rfl
    · simp only [hm, toC_add, toC_mul, toC_mulr, toC_ofRe, h2, he, RealScalar.ofInt_def]
      rw [← horner_step, hj]
      simp only [Bp]; push_cast; ring
    · simp only [h3]; ring


/-- one term of the closed-form inner sum -/
def hterm (F : ℤ → Cx ℝ) (H : ℤ → ℝ) (z : ℂ) (m : ℤ) : ℂ :=
  toC (F m) * ((eps m : ℤ) : ℂ) * ((H m : ℝ) : ℂ) * pw z m

theorem toC_hornerBody (F : ℤ → Cx ℝ) (H : ℤ → ℝ) (za : Cx ℝ) (ell : ℕ) :
    toC (hornerBody F H za ell) = ∑ m ∈ Finset.Icc (-(ell : ℤ)) ell, hterm F H (toC za) m := by
  rw [sum_Icc_symm_split]
  unfold hornerBody
  by_cases h0 : ell = 0
  · subst h0
    simp [hterm, toC_mulr, pw_zero, eps]
  · simp only [if_neg h0]
    have hl := horner_loop F H za ell
    generalize loopN (ell - 1) _ _ = r at hl ⊢
    obtain ⟨neg, pos, e⟩ := r
    obtain ⟨h1, h2, -⟩ := hl
    simp only at h1 h2 ⊢
    have e1 : ell - 1 + 1 = ell := by omega
    rw [e1] at h1 h2
    simp only [toC_add, toC_mul, toC_mulr, toC_conj, h1, h2, horner_final]
    have hn : ∀ j : ℕ, An F H (j + 1) * (conj (toC za)) ^ (j + 1) = hterm F H (toC za) (-((j : ℤ) + 1)) := by
      intro j
      have : eps (-((j : ℤ) + 1)) = 1 := eps_of_nonpos (by omega)
      simp only [hterm, An, pw_neg_natCast_succ, this]
      push_cast; ring
    have hp : ∀ j : ℕ, Bp F H (j + 1) * (toC za) ^ (j + 1) = hterm F H (toC za) ((j : ℤ) + 1) := by
      intro j
      have h := eps_natCast (j + 1)
      have h' := pw_natCast (toC za) (j + 1)
      push_cast at h h'
      simp only [hterm, Bp, h, h']
      push_cast; ring
    simp only [hn, hp]
    simp [hterm, pw_zero, eps]


/-! ### `_evaluate_Horner` and `_rotate_Horner` as closed-form sums -/

section kernels
variable {μ : Type} [Mem μ ℝ] (st : μ)

/-- the inner sum over m at fixed ℓ of the evaluation kernel -/
def evalInner (f : Array (Cx ℝ)) (z : ℂ) (s : ℤ) (ell : ℕ) : ℂ :=
  ∑ m ∈ Finset.Icc (-(ell : ℤ)) ell, hterm (fAt f ell) (fun n => Hat (α := ℝ) st ell n (-s)) z m

theorem toC_evalEll (f : Array (Cx ℝ)) (za : Cx ℝ) (s : ℤ) (ell : ℕ) :
    toC (evalEll st f za s ell) = evalInner st f (toC za) s ell := by
  rw [evalEll_eq_body, toC_hornerBody]; rfl

theorem toC_accLoop (G : ℕ → Cx ℝ) (c : ℕ → ℝ) (lo cnt : ℕ) (init : Cx ℝ) :
    toC (loopN cnt (fun k (acc : Cx ℝ) => Cx.add acc (Cx.mulr (G (lo + k)) (c (lo + k)))) init) =
      toC init + ∑ k ∈ Finset.range cnt, toC (G (lo + k)) * ((c (lo + k) : ℝ) : ℂ) := by
  induction cnt with
  | zero => simp [loopN]
  | succ n ih =>
    simp only [loopN, toC_add, toC_mulr, ih, Finset.sum_range_succ]
    ring

theorem toC_evaluateHorner (f : Array (Cx ℝ)) (za zgpow : Cx ℝ) (s : ℤ) (ellMax : ℕ) (init : Cx ℝ) :
    toC (evaluateHorner st f za zgpow s ellMax init) =
      (toC init + ∑ ell ∈ Finset.Icc s.natAbs ellMax, evalInner st f (toC za) s ell * (nrm ell : ℂ))
        * ((((-1) ^ s.natAbs * eps s : ℤ) : ℂ) * toC zgpow) := by
  unfold evaluateHorner
  simp only [sqrt_model]
  simp only [toC_mul, toC_ofRe, RealScalar.ofInt_def]
  rw [toC_accLoop (fun ell => evalEll st f za s ell) nrm]
  simp only [toC_evalEll]
  rw [← Finset.Ico_add_one_right_eq_Icc, Finset.sum_Ico_eq_sum_range]
  push_cast
  rfl

theorem toC_rotateHornerEntry (f : Array (Cx ℝ)) (za : Cx ℝ) (zgpow : ℤ → Cx ℝ) (ell : ℕ) (m : ℤ) :
    toC (rotateHornerEntry st f za zgpow ell m) =
      (∑ n ∈ Finset.Icc (-(ell : ℤ)) ell,
          hterm (fAt f ell) (fun n => Hat (α := ℝ) st ell n m) (toC za) n)
        * (((eps (-m) : ℤ) : ℂ) * toC (zgpow m)) := by
  rw [rotateHornerEntry_eq_body, toC_mul, toC_hornerBody, toC_mul, toC_ofRe]
  simp only [RealScalar.ofInt_def]
  push_cast
  rfl

end kernels


/-! ### bridges between the routes -/

/-- the overall coefficient of `_evaluate_Horner`, `(-1)^|s| ε_s · conj(zᵧ)^s`, is the γ-coefficient of
    `_fill_sYlm` when `|zᵧ| = 1` -/
theorem coeff_eq_c1 {zg : ℂ} (hn : Complex.normSq zg = 1) (s : ℤ) {wE wY : ℂ}
    (hE : wE = (conj zg) ^ s) (hY : wY = zg ^ s.natAbs) :
    (((-1) ^ s.natAbs * eps s : ℤ) : ℂ) * wE = c1 s wY := by
  have hne : zg ≠ 0 := by
    intro h0; rw [h0] at hn; simp at hn
  have hc : conj zg = zg⁻¹ := by
    rw [Complex.inv_def, hn]; simp
  unfold c1
  by_cases hs : 0 ≤ s
  · rw [if_pos hs, sign_eps_of_nonneg hs, hE, hY, map_pow]
    obtain ⟨n, rfl⟩ := Int.eq_ofNat_of_zero_le hs
    simp
  · rw [if_neg hs, eps_of_nonpos (by omega), hE, hY, hc, inv_zpow', ← zpow_natCast]
    have : -s = (s.natAbs : ℤ) := by omega
    rw [this]; push_cast; ring

/-- γ-coefficient of `_fill_sYlm` against the γ-factor of column `-s` of `_fill_wigner_D` -/
theorem c1_eq_apw (zg : Array (Cx ℝ)) (s : ℤ) (w : ℂ) (hY : toC (cget zg s.natAbs) = w)
    (h0 : s = 0 → conj w = w) :
    c1 s w = (((-1) ^ s.natAbs * eps s : ℤ) : ℂ) * apw zg (-s) := by
  unfold c1 apw
  rcases lt_trichotomy s 0 with h | h | h
  · have e : (-s).toNat = s.natAbs := by omega
    rw [if_neg (by omega), if_neg (by omega), e, hY, eps_of_nonpos (by omega)]
    push_cast; ring
  · subst h
    have := h0 rfl
    simp only [Int.natAbs_zero] at hY
    simp [eps, hY, this]
  · have e : (-(-s)).toNat = s.natAbs := by omega
    rw [if_pos (by omega), if_pos (by omega), e, hY, sign_eps_of_nonneg (by omega)]
    simp

/-- reading the power array at `-m` conjugates the read at `m` (entry 0 must be real) -/
theorem apw_neg (arr : Array (Cx ℝ)) (h0 : conj (toC (cget arr 0)) = toC (cget arr 0)) (m : ℤ) :
    apw arr (-m) = conj (apw arr m) := by
  unfold apw
  rcases lt_trichotomy m 0 with h | h | h
  · rw [if_neg (by omega), if_pos h, Complex.conj_conj]
  · subst h; simp [h0]
  · rw [if_pos (by omega), if_neg (by omega), neg_neg]

theorem conj_intCast (n : ℤ) : conj (n : ℂ) = n := map_intCast _ _

/-- `ε_{-m'} ε_{m} = (-1)^{m'+m} ε_{m'} ε_{-m}` -/
theorem eps_pair_neg (mp m : ℤ) :
    ((eps (-mp) * eps (-(-m)) : ℤ) : ℂ) = (-1 : ℂ) ^ (mp + m) * ((eps mp * eps (-m) : ℤ) : ℂ) := by
  have hne : (-1 : ℂ) ≠ 0 := by norm_num
  rw [eps_neg mp, eps_neg (-m), zpow_add₀ hne, ← neg_one_pow_natAbs, ← neg_one_pow_natAbs,
    Int.natAbs_neg]
  push_cast; ring


/-! ### witnesses: arrays of exact powers exist (used only in satisfiability examples) -/

def powArr (z : ℂ) (L : ℕ) : Array (Cx ℝ) := Array.ofFn (n := L + 1) fun k => ofC (z ^ (k : ℕ))

theorem powArr_spec (z : ℂ) (L : ℕ) : ∀ k ≤ L, toC (cget (powArr z L) k) = z ^ k := by
  intro k hk
  have hk' : k < L + 1 := by omega
  simp [cget, powArr, Array.getD, hk']


end Horner
end
