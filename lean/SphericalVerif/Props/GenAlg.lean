import SphericalVerif.Lemmas.GenAlg
/-! GenAlg — **`Modes.conjugate` as the Python text states it** realises the documented rule
    `conjugate(f){s, l, m} = (-1)**(s+m) * conjugate(f{-s, l, -m})`.

    `Gen/AlgKern.lean` is regenerated on every run from the loop of `conjugate` in spherical/modes/algebra.py, in the two forms
    the method's `c = s if inplace else np.zeros_like(s)` selects.  For every spin weight, `ell_max`, arithmetic and array content,
    after the generated loop the cell `(ell, m)` of the result (`|s| ≤ ell ≤ ell_max`, `|m| ≤ ell`) holds
    `sgnC (s+m) (conj (input(ell, -m)))` — the input being the read-only array for the fresh-output form, and the content the SAME array
    had before the call for the in-place form: the tuple assignment reads both members of a pair before writing either, and no block
    reads a cell another block writes (`gen_conjugate`, `gen_conjugate_inplace`; hence `gen_conjugate_inplace_eq`: in place and fresh
    agree).  This is the conclusion of `C13.conj_pairing` / `conj_inplace_eq` (proved there for the hand-written symbolic model) for the code
    as written now.  `_real_func` and `_imag_func` are generated and compared bit for bit as well, without a theorem. -/
namespace GenAlg
open Gen GenDiff

section
variable {α : Type} [Scalar α] {φ : Type} [FMem φ α] [LawfulFMem φ α]

/-- the generated fresh-output loop is the block loop over the constant reader -/
theorem conj_canon (sin : Int → Cx α) (C : Nat) (sw : Int) (L : Int) (st : φ) :
    Gen.Modes_conjugate_loop (α := α) sin C L 0 sw st
      = loopN ((L + 1) - ((sw.natAbs : Nat) : Int)).toNat (fun k s => conjBlock C (fun _ i => sin i) sw (((sw.natAbs : Nat) : Int) + (k : Int)) s) st := by
  unfold Gen.Modes_conjugate_loop
  simp only []
  refine Lemmas.Object.loopN_congr _ _ _ st (fun k1 hk1 s => ?_)
  unfold conjBlock
  rw [yidx0 _ _ (by omega)]
  have ec : (((((sw.natAbs : Nat) : Int) + (k1 : Int)) + 1) - 1).toNat = (((sw.natAbs : Nat) : Int) + (k1 : Int)).toNat := by omega
  rw [ec]
  have e0 : (((sw.natAbs : Nat) : Int) + (k1 : Int)) * ((((sw.natAbs : Nat) : Int) + (k1 : Int)) + 1) + 0
      = (((sw.natAbs : Nat) : Int) + (k1 : Int)) * ((((sw.natAbs : Nat) : Int) + (k1 : Int)) + 1) := Int.add_zero _
  rw [e0]
  have hc : (if sw % 2 = 0 then fwrC (α := α) s C ((((sw.natAbs : Nat) : Int) + (k1 : Int)) * ((((sw.natAbs : Nat) : Int) + (k1 : Int)) + 1))
        (Cx.conj (sin ((((sw.natAbs : Nat) : Int) + (k1 : Int)) * ((((sw.natAbs : Nat) : Int) + (k1 : Int)) + 1))))
      else fwrC (α := α) s C ((((sw.natAbs : Nat) : Int) + (k1 : Int)) * ((((sw.natAbs : Nat) : Int) + (k1 : Int)) + 1))
        (Cx.neg (Cx.conj (sin ((((sw.natAbs : Nat) : Int) + (k1 : Int)) * ((((sw.natAbs : Nat) : Int) + (k1 : Int)) + 1))))))
      = fwrC (α := α) s C ((((sw.natAbs : Nat) : Int) + (k1 : Int)) * ((((sw.natAbs : Nat) : Int) + (k1 : Int)) + 1))
        (sgnC sw (Cx.conj (sin ((((sw.natAbs : Nat) : Int) + (k1 : Int)) * ((((sw.natAbs : Nat) : Int) + (k1 : Int)) + 1))))) := by
    unfold sgnC; split <;> rfl
  rw [hc]
  refine Lemmas.Object.loopN_congr _ _ _ _ (fun k3 hk3 s3 => ?_)
  rw [yidx0 _ _ (by omega), yidx0 _ _ (by omega)]
  rfl

/-- the generated in-place loop is the block loop over the array itself -/
theorem conj_inplace_canon (A : Nat) (sw : Int) (L : Int) (st : φ) :
    Gen.Modes_conjugate_inplace_loop (α := α) A L 0 sw st
      = loopN ((L + 1) - ((sw.natAbs : Nat) : Int)).toNat (fun k s => conjBlock A (fun st i => frdC (α := α) st A i) sw (((sw.natAbs : Nat) : Int) + (k : Int)) s) st := by
  unfold Gen.Modes_conjugate_inplace_loop
  simp only []
  refine Lemmas.Object.loopN_congr _ _ _ st (fun k1 hk1 s => ?_)
  unfold conjBlock
  rw [yidx0 _ _ (by omega)]
  have ec : (((((sw.natAbs : Nat) : Int) + (k1 : Int)) + 1) - 1).toNat = (((sw.natAbs : Nat) : Int) + (k1 : Int)).toNat := by omega
  rw [ec]
  have e0 : (((sw.natAbs : Nat) : Int) + (k1 : Int)) * ((((sw.natAbs : Nat) : Int) + (k1 : Int)) + 1) + 0
      = (((sw.natAbs : Nat) : Int) + (k1 : Int)) * ((((sw.natAbs : Nat) : Int) + (k1 : Int)) + 1) := Int.add_zero _
  rw [e0]
  have hc : (if sw % 2 = 0 then fwrC (α := α) s A ((((sw.natAbs : Nat) : Int) + (k1 : Int)) * ((((sw.natAbs : Nat) : Int) + (k1 : Int)) + 1))
        (Cx.conj (frdC (α := α) s A ((((sw.natAbs : Nat) : Int) + (k1 : Int)) * ((((sw.natAbs : Nat) : Int) + (k1 : Int)) + 1))))
      else fwrC (α := α) s A ((((sw.natAbs : Nat) : Int) + (k1 : Int)) * ((((sw.natAbs : Nat) : Int) + (k1 : Int)) + 1))
        (Cx.neg (Cx.conj (frdC (α := α) s A ((((sw.natAbs : Nat) : Int) + (k1 : Int)) * ((((sw.natAbs : Nat) : Int) + (k1 : Int)) + 1))))))
      = fwrC (α := α) s A ((((sw.natAbs : Nat) : Int) + (k1 : Int)) * ((((sw.natAbs : Nat) : Int) + (k1 : Int)) + 1))
        (sgnC sw (Cx.conj (frdC (α := α) s A ((((sw.natAbs : Nat) : Int) + (k1 : Int)) * ((((sw.natAbs : Nat) : Int) + (k1 : Int)) + 1))))) := by
    unfold sgnC; split <;> rfl
  rw [hc]
  refine Lemmas.Object.loopN_congr _ _ _ _ (fun k3 hk3 s3 => ?_)
  rw [yidx0 _ _ (by omega), yidx0 _ _ (by omega)]
  rfl

/-- **`Modes.conjugate()`** from the source (fresh output): the documented pairing, cells below `|s|` untouched (zero from `zeros_like`) -/
theorem gen_conjugate (sin : Int → Cx α) (C : Nat) (sw : Int) (L : Nat) (st : φ) (ell : Nat) (m : Int) (hm : m.natAbs ≤ ell) (hl : ell ≤ L) :
    frdC (α := α) (Gen.Modes_conjugate_loop (α := α) sin C (L : Int) 0 sw st) C ((ell : Int) * ((ell : Int) + 1) + m)
      = if sw.natAbs ≤ ell then sgnC (sw + m) (Cx.conj (sin ((ell : Int) * ((ell : Int) + 1) + -m)))
        else frdC (α := α) st C ((ell : Int) * ((ell : Int) + 1) + m) := by
  rw [conj_canon]
  exact set_blocks_cell C sw.natAbs L (conjBlock C (fun _ i => sin i) sw) (fun e k => sgnC (sw + k) (Cx.conj (sin (e * (e + 1) + -k)))) st
    (fun e s i he hni => conjBlock_out C _ sw e he s i hni)
    (fun e s k h1 h2 h3 h4 => conjBlock_cell C _ (stable_const C sin) sw e (by omega) s k h3 h4) ell m hm hl

/-- **`Modes.conjugate(inplace=True)`** from the source: the same pairing, of what the array held before the call -/
theorem gen_conjugate_inplace (A : Nat) (sw : Int) (L : Nat) (st : φ) (ell : Nat) (m : Int) (hm : m.natAbs ≤ ell) (hl : ell ≤ L) :
    frdC (α := α) (Gen.Modes_conjugate_inplace_loop (α := α) A (L : Int) 0 sw st) A ((ell : Int) * ((ell : Int) + 1) + m)
      = if sw.natAbs ≤ ell then sgnC (sw + m) (Cx.conj (frdC (α := α) st A ((ell : Int) * ((ell : Int) + 1) + -m)))
        else frdC (α := α) st A ((ell : Int) * ((ell : Int) + 1) + m) := by
  rw [conj_inplace_canon]
  have hout : ∀ (e : Int) (s : φ) (i : Int), 0 ≤ e → ¬ (e * (e + 1) - e ≤ i ∧ i ≤ e * (e + 1) + e) →
      frdC (α := α) (conjBlock A (fun st i => frdC (α := α) st A i) sw e s) A i = frdC (α := α) s A i :=
    fun e s i he hni => conjBlock_out A _ sw e he s i hni
  by_cases h : sw.natAbs ≤ ell
  · rw [if_pos h]
    obtain ⟨s', a1, a2⟩ := blocks A sw.natAbs (L : Int) (conjBlock A (fun st i => frdC (α := α) st A i) sw) st hout (ell : Int) (by omega) (by omega)
      ((ell : Int) * ((ell : Int) + 1) + m) (by omega) (by omega)
    rw [a1, conjBlock_cell A _ (stable_self A) sw (ell : Int) (by omega) s' m (by omega) (by omega)]
    try dsimp only
    rw [a2 _ (by omega)]
  · rw [if_neg h]
    exact blocks_below A sw.natAbs (L : Int) _ st hout (ell : Int) (by omega) (by omega) _ (by omega) (by omega)

/-- conjugating in place and conjugating into a fresh array write the same weights -/
theorem gen_conjugate_inplace_eq (A C : Nat) (sw : Int) (L : Nat) (st st' : φ) (ell : Nat) (m : Int) (hm : m.natAbs ≤ ell) (hl : ell ≤ L)
    (hs : sw.natAbs ≤ ell) :
    frdC (α := α) (Gen.Modes_conjugate_inplace_loop (α := α) A (L : Int) 0 sw st) A ((ell : Int) * ((ell : Int) + 1) + m)
      = frdC (α := α) (Gen.Modes_conjugate_loop (α := α) (fun i => frdC (α := α) st A i) C (L : Int) 0 sw st') C ((ell : Int) * ((ell : Int) + 1) + m) := by
  rw [gen_conjugate_inplace A sw L st ell m hm hl, gen_conjugate _ C sw L st' ell m hm hl, if_pos hs, if_pos hs]

/-- conjugating twice (spin `s`, then the result's spin `-s`) restores every weight with `ell ≥ |s|`, whenever negation and conjugation are
    involutions and commute for the arithmetic (true for IEEE doubles and for exact reals) -/
theorem gen_conjugate_involution (hnn : ∀ z : Cx α, Cx.neg (Cx.neg z) = z) (hcc : ∀ z : Cx α, Cx.conj (Cx.conj z) = z)
    (hnc : ∀ z : Cx α, Cx.conj (Cx.neg z) = Cx.neg (Cx.conj z))
    (sin : Int → Cx α) (C D : Nat) (sw : Int) (L : Nat) (st st' : φ) (ell : Nat) (m : Int) (hm : m.natAbs ≤ ell) (hl : ell ≤ L) (hs : sw.natAbs ≤ ell) :
    frdC (α := α) (Gen.Modes_conjugate_loop (α := α)
        (fun i => frdC (α := α) (Gen.Modes_conjugate_loop (α := α) sin C (L : Int) 0 sw st) C i) D (L : Int) 0 (-sw) st') D ((ell : Int) * ((ell : Int) + 1) + m)
      = sin ((ell : Int) * ((ell : Int) + 1) + m) := by
  rw [gen_conjugate _ D (-sw) L st' ell m hm hl, if_pos (by omega)]
  try dsimp only
  rw [gen_conjugate sin C sw L st ell (-m) (by omega) hl, if_pos hs, Int.neg_neg]
  unfold sgnC
  have e1 : (-sw + m) % 2 = (sw + -m) % 2 := by omega
  rw [e1]
  split
  · exact hcc _
  · rw [hnc, hcc, hnn]

/-- the `np.conjugate` / `np.conj` branch of `Modes.__array_ufunc__` runs the very loop of the method (definitionally the same generated term):
    with a fresh output or another array as `out[0]` … -/
theorem ufunc_loop_eq (sin : Int → Cx α) (C : Nat) (L e s : Int) (st : φ) :
    Gen.Modes_conjugate_ufunc_loop (α := α) sin C L e s st = Gen.Modes_conjugate_loop (α := α) sin C L e s st := rfl

/-- … and with `out[0]` the operand itself (`np.conjugate(f, out=f)`): the in-place loop, which reads each pair before writing it -/
theorem ufunc_out_is_operand_eq (A : Nat) (L e s : Int) (st : φ) :
    Gen.Modes_conjugate_ufunc_out_is_operand_loop (α := α) A L e s st = Gen.Modes_conjugate_inplace_loop (α := α) A L e s st := rfl
end

/-! ### `_real_func` and `_imag_func` (spin weight 0; the methods raise otherwise), from the source -/
section
variable {α : Type} [Scalar α] {φ : Type} [FMem φ α] [LawfulFMem φ α]

/-- the literal `2` that numpy converts to `2+0j` -/
def two : Cx α := Cx.ofRe (Scalar.ofInt (2 : Int) : α)
/-- the literal `-1j`, i.e. `complex(-0.0, -1.0)` -/
def mI : Cx α := Cx.mk (Scalar.neg (Scalar.ofInt (0 : Int) : α)) (Scalar.ofInt (-1 : Int) : α)

/-- `_real_func`: the value stored at `(ell, m)`, `m > 0`, from `x = f(ell, m)`, `y = f(ell, -m)` … -/
def Pr (m : Int) (x y : Cx α) : Cx α := if m % 2 = 0 then Cx.div (Cx.add x (Cx.conj y)) two else Cx.div (Cx.sub x (Cx.conj y)) two
/-- … and at `(ell, -m)`: `±conj` of it -/
def Nr (m : Int) (x y : Cx α) : Cx α :=
  if m % 2 = 0 then Cx.conj (Cx.div (Cx.add x (Cx.conj y)) two) else Cx.neg (Cx.conj (Cx.div (Cx.sub x (Cx.conj y)) two))
def Zr (z : Cx α) : Cx α := Cx.ofRe z.re
def Pi (m : Int) (x y : Cx α) : Cx α :=
  if m % 2 = 0 then Cx.div (Cx.mul mI (Cx.sub x (Cx.conj y))) two else Cx.div (Cx.mul mI (Cx.add x (Cx.conj y))) two
def Ni (m : Int) (x y : Cx α) : Cx α :=
  if m % 2 = 0 then Cx.conj (Cx.div (Cx.mul mI (Cx.sub x (Cx.conj y))) two) else Cx.neg (Cx.conj (Cx.div (Cx.mul mI (Cx.add x (Cx.conj y))) two))
def Zi (z : Cx α) : Cx α := Cx.ofRe z.im

theorem real_canon (sin : Int → Cx α) (C : Nat) (sw : Int) (L : Int) (st : φ) :
    Gen.Modes_real_loop (α := α) sin C L 0 sw st
      = loopN ((L + 1) - ((sw.natAbs : Nat) : Int)).toNat (fun k s => blockG C (fun _ i => sin i) Pr Nr Zr (((sw.natAbs : Nat) : Int) + (k : Int)) s) st := by
  unfold Gen.Modes_real_loop
  simp only []
  refine Lemmas.Object.loopN_congr _ _ _ st (fun k1 hk1 s => ?_)
  unfold blockG
  rw [yidx0 _ _ (by omega)]
  have ec : (((((sw.natAbs : Nat) : Int) + (k1 : Int)) + 1) - 1).toNat = (((sw.natAbs : Nat) : Int) + (k1 : Int)).toNat := by omega
  rw [ec, Int.add_zero]
  refine Lemmas.Object.loopN_congr _ _ _ _ (fun k3 hk3 s3 => ?_)
  rw [yidx0 _ _ (by omega), yidx0 _ _ (by omega)]
  unfold pairStepG Pr Nr two
  split <;> rw [GenFill.frdC_fwrC_same]

theorem real_inplace_canon (A : Nat) (sw : Int) (L : Int) (st : φ) :
    Gen.Modes_real_inplace_loop (α := α) A L 0 sw st
      = loopN ((L + 1) - ((sw.natAbs : Nat) : Int)).toNat (fun k s => blockG A (fun st i => frdC (α := α) st A i) Pr Nr Zr (((sw.natAbs : Nat) : Int) + (k : Int)) s) st := by
  unfold Gen.Modes_real_inplace_loop
  simp only []
  refine Lemmas.Object.loopN_congr _ _ _ st (fun k1 hk1 s => ?_)
  unfold blockG
  rw [yidx0 _ _ (by omega)]
  have ec : (((((sw.natAbs : Nat) : Int) + (k1 : Int)) + 1) - 1).toNat = (((sw.natAbs : Nat) : Int) + (k1 : Int)).toNat := by omega
  rw [ec, Int.add_zero]
  refine Lemmas.Object.loopN_congr _ _ _ _ (fun k3 hk3 s3 => ?_)
  rw [yidx0 _ _ (by omega), yidx0 _ _ (by omega)]
  unfold pairStepG Pr Nr two
  split <;> rw [GenFill.frdC_fwrC_same]

theorem imag_canon (sin : Int → Cx α) (C : Nat) (sw : Int) (L : Int) (st : φ) :
    Gen.Modes_imag_loop (α := α) sin C L 0 sw st
      = loopN ((L + 1) - ((sw.natAbs : Nat) : Int)).toNat (fun k s => blockG C (fun _ i => sin i) Pi Ni Zi (((sw.natAbs : Nat) : Int) + (k : Int)) s) st := by
  unfold Gen.Modes_imag_loop
  simp only []
  refine Lemmas.Object.loopN_congr _ _ _ st (fun k1 hk1 s => ?_)
  unfold blockG
  rw [yidx0 _ _ (by omega)]
  have ec : (((((sw.natAbs : Nat) : Int) + (k1 : Int)) + 1) - 1).toNat = (((sw.natAbs : Nat) : Int) + (k1 : Int)).toNat := by omega
  rw [ec, Int.add_zero]
  refine Lemmas.Object.loopN_congr _ _ _ _ (fun k3 hk3 s3 => ?_)
  rw [yidx0 _ _ (by omega), yidx0 _ _ (by omega)]
  unfold pairStepG Pi Ni two mI
  split <;> rw [GenFill.frdC_fwrC_same]

theorem imag_inplace_canon (A : Nat) (sw : Int) (L : Int) (st : φ) :
    Gen.Modes_imag_inplace_loop (α := α) A L 0 sw st
      = loopN ((L + 1) - ((sw.natAbs : Nat) : Int)).toNat (fun k s => blockG A (fun st i => frdC (α := α) st A i) Pi Ni Zi (((sw.natAbs : Nat) : Int) + (k : Int)) s) st := by
  unfold Gen.Modes_imag_inplace_loop
  simp only []
  refine Lemmas.Object.loopN_congr _ _ _ st (fun k1 hk1 s => ?_)
  unfold blockG
  rw [yidx0 _ _ (by omega)]
  have ec : (((((sw.natAbs : Nat) : Int) + (k1 : Int)) + 1) - 1).toNat = (((sw.natAbs : Nat) : Int) + (k1 : Int)).toNat := by omega
  rw [ec, Int.add_zero]
  refine Lemmas.Object.loopN_congr _ _ _ _ (fun k3 hk3 s3 => ?_)
  rw [yidx0 _ _ (by omega), yidx0 _ _ (by omega)]
  unfold pairStepG Pi Ni two mI
  split <;> rw [GenFill.frdC_fwrC_same]

/-- cells of a block loop over `blockG`, fresh output -/
theorem blockG_loop_fresh (sin : Int → Cx α) (C : Nat) (P N : Int → Cx α → Cx α → Cx α) (Z : Cx α → Cx α) (e0 : Nat) (L : Nat) (st : φ)
    (ell : Nat) (m : Int) (hm : m.natAbs ≤ ell) (hl : ell ≤ L) (h0 : e0 ≤ ell) :
    frdC (α := α) (loopN (((L : Int) + 1) - (e0 : Int)).toNat (fun k s => blockG C (fun _ i => sin i) P N Z ((e0 : Int) + (k : Int)) s) st) C ((ell : Int) * ((ell : Int) + 1) + m)
      = if 0 < m then P m (sin ((ell : Int) * ((ell : Int) + 1) + m)) (sin ((ell : Int) * ((ell : Int) + 1) + -m))
        else if m < 0 then N (-m) (sin ((ell : Int) * ((ell : Int) + 1) + -m)) (sin ((ell : Int) * ((ell : Int) + 1) + m))
        else Z (sin ((ell : Int) * ((ell : Int) + 1))) := by
  rw [set_blocks_cell C e0 L (blockG C (fun _ i => sin i) P N Z)
    (fun e k => if 0 < k then P k (sin (e * (e + 1) + k)) (sin (e * (e + 1) + -k)) else if k < 0 then N (-k) (sin (e * (e + 1) + -k)) (sin (e * (e + 1) + k)) else Z (sin (e * (e + 1)))) st
    (fun e s i he hni => blockG_out C _ P N Z e he s i hni)
    (fun e s k h1 h2 h3 h4 => blockG_cell C _ (stable_const C sin) P N Z e (by omega) s k h3 h4) ell m hm hl, if_pos h0]

/-- cells of a block loop over `blockG`, in place -/
theorem blockG_loop_inplace (A : Nat) (P N : Int → Cx α → Cx α → Cx α) (Z : Cx α → Cx α) (e0 : Nat) (L : Nat) (st : φ)
    (ell : Nat) (m : Int) (hm : m.natAbs ≤ ell) (hl : ell ≤ L) (h0 : e0 ≤ ell) :
    frdC (α := α) (loopN (((L : Int) + 1) - (e0 : Int)).toNat (fun k s => blockG A (fun st i => frdC (α := α) st A i) P N Z ((e0 : Int) + (k : Int)) s) st) A ((ell : Int) * ((ell : Int) + 1) + m)
      = if 0 < m then P m (frdC (α := α) st A ((ell : Int) * ((ell : Int) + 1) + m)) (frdC (α := α) st A ((ell : Int) * ((ell : Int) + 1) + -m))
        else if m < 0 then N (-m) (frdC (α := α) st A ((ell : Int) * ((ell : Int) + 1) + -m)) (frdC (α := α) st A ((ell : Int) * ((ell : Int) + 1) + m))
        else Z (frdC (α := α) st A ((ell : Int) * ((ell : Int) + 1))) := by
  have hout : ∀ (e : Int) (s : φ) (i : Int), 0 ≤ e → ¬ (e * (e + 1) - e ≤ i ∧ i ≤ e * (e + 1) + e) →
      frdC (α := α) (blockG A (fun st i => frdC (α := α) st A i) P N Z e s) A i = frdC (α := α) s A i :=
    fun e s i he hni => blockG_out A _ P N Z e he s i hni
  obtain ⟨s', a1, a2⟩ := blocks A e0 (L : Int) (blockG A (fun st i => frdC (α := α) st A i) P N Z) st hout (ell : Int) (by omega) (by omega)
    ((ell : Int) * ((ell : Int) + 1) + m) (by omega) (by omega)
  rw [a1, blockG_cell A _ (stable_self A) P N Z (ell : Int) (by omega) s' m (by omega) (by omega)]
  try dsimp only
  rw [a2 _ (by omega), a2 _ (by omega), a2 _ (by omega)]

/-- **`Modes.real`** from the source (spin weight 0): `(f(ℓ,m) + (−1)^m conj f(ℓ,−m)) / 2` at `m > 0`, its `±conj` at `−m`, `Re f(ℓ,0)` at 0 -/
theorem gen_real (sin : Int → Cx α) (C : Nat) (L : Nat) (st : φ) (ell : Nat) (m : Int) (hm : m.natAbs ≤ ell) (hl : ell ≤ L) :
    frdC (α := α) (Gen.Modes_real_loop (α := α) sin C (L : Int) 0 0 st) C ((ell : Int) * ((ell : Int) + 1) + m)
      = if 0 < m then Pr m (sin ((ell : Int) * ((ell : Int) + 1) + m)) (sin ((ell : Int) * ((ell : Int) + 1) + -m))
        else if m < 0 then Nr (-m) (sin ((ell : Int) * ((ell : Int) + 1) + -m)) (sin ((ell : Int) * ((ell : Int) + 1) + m))
        else Zr (sin ((ell : Int) * ((ell : Int) + 1))) := by
  rw [real_canon]
  exact blockG_loop_fresh sin C Pr Nr Zr 0 L st ell m hm hl (Nat.zero_le _)

/-- `_real_func(inplace=True)`: the same values, of the array's own previous content -/
theorem gen_real_inplace (A : Nat) (L : Nat) (st : φ) (ell : Nat) (m : Int) (hm : m.natAbs ≤ ell) (hl : ell ≤ L) :
    frdC (α := α) (Gen.Modes_real_inplace_loop (α := α) A (L : Int) 0 0 st) A ((ell : Int) * ((ell : Int) + 1) + m)
      = if 0 < m then Pr m (frdC (α := α) st A ((ell : Int) * ((ell : Int) + 1) + m)) (frdC (α := α) st A ((ell : Int) * ((ell : Int) + 1) + -m))
        else if m < 0 then Nr (-m) (frdC (α := α) st A ((ell : Int) * ((ell : Int) + 1) + -m)) (frdC (α := α) st A ((ell : Int) * ((ell : Int) + 1) + m))
        else Zr (frdC (α := α) st A ((ell : Int) * ((ell : Int) + 1))) := by
  rw [real_inplace_canon]
  exact blockG_loop_inplace A Pr Nr Zr 0 L st ell m hm hl (Nat.zero_le _)

/-- **`Modes.imag`** from the source (spin weight 0): `−i (f(ℓ,m) − (−1)^m conj f(ℓ,−m)) / 2` at `m > 0`, its `±conj` at `−m`, `Im f(ℓ,0)` at 0 -/
theorem gen_imag (sin : Int → Cx α) (C : Nat) (L : Nat) (st : φ) (ell : Nat) (m : Int) (hm : m.natAbs ≤ ell) (hl : ell ≤ L) :
    frdC (α := α) (Gen.Modes_imag_loop (α := α) sin C (L : Int) 0 0 st) C ((ell : Int) * ((ell : Int) + 1) + m)
      = if 0 < m then Pi m (sin ((ell : Int) * ((ell : Int) + 1) + m)) (sin ((ell : Int) * ((ell : Int) + 1) + -m))
        else if m < 0 then Ni (-m) (sin ((ell : Int) * ((ell : Int) + 1) + -m)) (sin ((ell : Int) * ((ell : Int) + 1) + m))
        else Zi (sin ((ell : Int) * ((ell : Int) + 1))) := by
  rw [imag_canon]
  exact blockG_loop_fresh sin C Pi Ni Zi 0 L st ell m hm hl (Nat.zero_le _)

theorem gen_imag_inplace (A : Nat) (L : Nat) (st : φ) (ell : Nat) (m : Int) (hm : m.natAbs ≤ ell) (hl : ell ≤ L) :
    frdC (α := α) (Gen.Modes_imag_inplace_loop (α := α) A (L : Int) 0 0 st) A ((ell : Int) * ((ell : Int) + 1) + m)
      = if 0 < m then Pi m (frdC (α := α) st A ((ell : Int) * ((ell : Int) + 1) + m)) (frdC (α := α) st A ((ell : Int) * ((ell : Int) + 1) + -m))
        else if m < 0 then Ni (-m) (frdC (α := α) st A ((ell : Int) * ((ell : Int) + 1) + -m)) (frdC (α := α) st A ((ell : Int) * ((ell : Int) + 1) + m))
        else Zi (frdC (α := α) st A ((ell : Int) * ((ell : Int) + 1))) := by
  rw [imag_inplace_canon]
  exact blockG_loop_inplace A Pi Ni Zi 0 L st ell m hm hl (Nat.zero_le _)

/-- in place and fresh agree, for `real` and `imag` as for `conjugate` -/
theorem gen_real_inplace_eq (A C : Nat) (L : Nat) (st st' : φ) (ell : Nat) (m : Int) (hm : m.natAbs ≤ ell) (hl : ell ≤ L) :
    frdC (α := α) (Gen.Modes_real_inplace_loop (α := α) A (L : Int) 0 0 st) A ((ell : Int) * ((ell : Int) + 1) + m)
      = frdC (α := α) (Gen.Modes_real_loop (α := α) (fun i => frdC (α := α) st A i) C (L : Int) 0 0 st') C ((ell : Int) * ((ell : Int) + 1) + m) := by
  rw [gen_real_inplace A L st ell m hm hl, gen_real _ C L st' ell m hm hl]
end

/-! ### `Modes + Modes`, `Modes − Modes` (the ufunc branch both operators and methods reach), from the source -/
section
variable {α : Type} [Scalar α] {φ : Type} [FMem φ α] [LawfulFMem φ α]

theorem ysize0 (L : Int) : Ysize 0 L = (L + 1) * (L + 1) := by unfold Ysize; ring
theorem ysize_m1 : Ysize 0 ((0 : Int) - 1) = 0 := by decide

/-- the row a zero-filled (or cleared) result receives: the first operand's row, then the second's added / subtracted on top -/
theorem rows_cell (op : Cx α → Cx α → Cx α) (a1 a2 : Int → Cx α) (R : Nat) (n1 n2 : Nat) (st : φ) (p : Int) :
    frdC (α := α) (loopN n2 (fun k2 s => fwrC (α := α) s R (k2 : Int) (op (frdC (α := α) s R (k2 : Int)) (a2 (k2 : Int))))
      (loopN n1 (fun k1 s => fwrC (α := α) s R (k1 : Int) (a1 (k1 : Int))) st)) R p
      = (if 0 ≤ p ∧ p < n2 then op (if 0 ≤ p ∧ p < n1 then a1 p else frdC (α := α) st R p) (a2 p)
         else if 0 ≤ p ∧ p < n1 then a1 p else frdC (α := α) st R p) := by
  have e1 : (fun (k1 : Nat) (s : φ) => fwrC (α := α) s R (k1 : Int) (a1 (k1 : Int)))
      = (fun (k : Nat) (s : φ) => fwrC (α := α) s R ((0 : Int) + (k : Int)) ((fun (k : Nat) => a1 ((k : Nat) : Int)) k)) := by
    funext k s; simp only [Int.zero_add]
  have e2 : (fun (k2 : Nat) (s : φ) => fwrC (α := α) s R (k2 : Int) (op (frdC (α := α) s R (k2 : Int)) (a2 (k2 : Int))))
      = (fun (k : Nat) (s : φ) => fwrC (α := α) s R ((0 : Int) + (k : Int)) ((fun (k : Nat) z => op z (a2 ((k : Nat) : Int))) k (frdC (α := α) s R ((0 : Int) + (k : Int))))) := by
    funext k s; simp only [Int.zero_add]
  rw [e1, e2, run_update n2 R 0 (fun (k : Nat) z => op z (a2 ((k : Nat) : Int))), run_set n1 R 0 (fun (k : Nat) => a1 ((k : Nat) : Int))]
  simp only [Int.zero_add, Int.sub_zero]
  by_cases h2 : 0 ≤ p ∧ p < n2
  · have : ((p.toNat : Nat) : Int) = p := by omega
    simp only [h2, if_true, this, and_self]
  · by_cases h1 : 0 ≤ p ∧ p < n1
    · have : ((p.toNat : Nat) : Int) = p := by omega
      simp only [h2, h1, if_true, if_false, this, and_self]
    · simp only [h2, h1, if_false]

/-- **`f + g`** from the source (both Modes store from `ell = 0`; `L1`, `L2` their `ell_max`): entry `p` of the result is `f[p] + g[p]` where both
    exist, the one that exists where only one does (on top of what the cleared result held: `0.0`) -/
theorem gen_add_rows (a1 a2 : Int → Cx α) (R : Nat) (L1 L2 : Nat) (st : φ) (p : Int) :
    frdC (α := α) (Gen.Modes_add_rows (α := α) a1 a2 R 0 L1 0 L2 st) R p
      = (if 0 ≤ p ∧ p < ((L2 + 1) * (L2 + 1) : Nat) then Cx.add (if 0 ≤ p ∧ p < ((L1 + 1) * (L1 + 1) : Nat) then a1 p else frdC (α := α) st R p) (a2 p)
         else if 0 ≤ p ∧ p < ((L1 + 1) * (L1 + 1) : Nat) then a1 p else frdC (α := α) st R p) := by
  unfold Gen.Modes_add_rows
  have hc : ((0 : Int) - 1 + 1) * ((0 : Int) - 1 + 1) = 0 := by decide
  have e1 : ((L1 : Int) + 1) * ((L1 : Int) + 1) = (((L1 + 1) * (L1 + 1) : Nat) : Int) := by push_cast; ring
  have e2 : ((L2 : Int) + 1) * ((L2 : Int) + 1) = (((L2 + 1) * (L2 + 1) : Nat) : Int) := by push_cast; ring
  simp only [Int.min_self, ysize0, hc, e1, e2, Int.zero_add, Int.sub_zero, Int.toNat_natCast]
  exact rows_cell Cx.add a1 a2 R _ _ st p

/-- **`f − g`** from the source -/
theorem gen_subtract_rows (a1 a2 : Int → Cx α) (R : Nat) (L1 L2 : Nat) (st : φ) (p : Int) :
    frdC (α := α) (Gen.Modes_subtract_rows (α := α) a1 a2 R 0 L1 0 L2 st) R p
      = (if 0 ≤ p ∧ p < ((L2 + 1) * (L2 + 1) : Nat) then Cx.sub (if 0 ≤ p ∧ p < ((L1 + 1) * (L1 + 1) : Nat) then a1 p else frdC (α := α) st R p) (a2 p)
         else if 0 ≤ p ∧ p < ((L1 + 1) * (L1 + 1) : Nat) then a1 p else frdC (α := α) st R p) := by
  unfold Gen.Modes_subtract_rows
  have hc : ((0 : Int) - 1 + 1) * ((0 : Int) - 1 + 1) = 0 := by decide
  have e1 : ((L1 : Int) + 1) * ((L1 : Int) + 1) = (((L1 + 1) * (L1 + 1) : Nat) : Int) := by push_cast; ring
  have e2 : ((L2 : Int) + 1) * ((L2 : Int) + 1) = (((L2 + 1) * (L2 + 1) : Nat) : Int) := by push_cast; ring
  simp only [Int.min_self, ysize0, hc, e1, e2, Int.zero_add, Int.sub_zero, Int.toNat_natCast]
  exact rows_cell Cx.sub a1 a2 R _ _ st p
end

/-- non-vacuity: IEEE doubles, spin 1, `ell_max = 3`, the cell (2, −1), in place -/
example (st : HFMem Float) :
    frdC (α := Float) (Gen.Modes_conjugate_inplace_loop (α := Float) 7 ((3 : Nat) : Int) 0 1 st) 7 (((2 : Nat) : Int) * (((2 : Nat) : Int) + 1) + (-1))
      = sgnC (1 + -1) (Cx.conj (frdC (α := Float) st 7 (((2 : Nat) : Int) * (((2 : Nat) : Int) + 1) + - -1))) := by
  rw [gen_conjugate_inplace 7 1 3 st 2 (-1) (by decide) (by decide), if_pos (by decide)]
end GenAlg
