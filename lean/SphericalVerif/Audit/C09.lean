import SphericalVerif.Props.C09
import SphericalVerif.Props.HKernel
import SphericalVerif.Props.GenH
import SphericalVerif.Props.GenHorner
#print axioms C09.objd_pure
#print axioms C09.objD_pure
#print axioms C09.objY_pure
#print axioms C09.objEvalH_pure
#print axioms C09.objRotH_pure
#print axioms C09.op_out_pure
#print axioms C09.history_indep
#print axioms C09.history_indep_all
#print axioms HKernel.runH_pure
#print axioms HKernel.runH_size_indep
#print axioms GenH.tables
#print axioms GenH.genH_sim
#print axioms GenH.genH_refines
#print axioms GenH.genH_pure
#print axioms GenH.genH_size_indep
#print axioms GenH.tabOK_ranges
#print axioms GenHorner.gen_evaluate_row
