import SphericalVerif.Spec.W3jFamily
import SphericalVerif.Lemmas.W3jNorm
/-! Helper lemmas for `Props/W3jUniq.lean`: the array returned by `Model.W3j.calculate` at ℝ equals ANY family
    satisfying `W3jUniq.IsW3jFamily` (three-term recurrence at every cell, normalisation, sign).

    (A) the closed-form coefficients `wX wY wZ` are the model's `Xf Yf Zf` at ℝ on the admissible domain;
    (B) where they vanish and where they do not (from the closed forms, no size bound);
    (C) three-term recurrences over `ℤ → ℝ`: a solution is determined by one end value;
    (D) the model, once more through the pipeline of `Lemmas/W3jNorm.lean`, keeping what `Good` forgets: below the
        matching point the output is a multiple of the upward solution `F_minus`, which does not vanish at the
        matching point (the source divides by it);
    (E) the identification. -/
namespace W3jUniq
noncomputable section
open Model.W3j Scalar
open Lemmas.W3jNorm
set_option linter.unusedSimpArgs false
set_option linter.unusedVariables false

/-! ### (A) coefficients -/

theorem jmin_eq (j2 j3 m2 m3 : ℤ) : jmin j2 j3 m2 m3 = jminOf j2 j3 m2 m3 := by
  unfold jmin jminOf Lemmas.W3jBounds.jminOf
  rw [Int.natCast_natAbs, Int.natCast_natAbs]

/-- the radicand of `wA` is the (exact) integer radicand of the source -/
theorem radicand_cast (j2 j3 m2 m3 j : ℤ) :
    (((j : ℝ) ^ 2 - ((j2 : ℝ) - j3) ^ 2) * (((j2 : ℝ) + j3 + 1) ^ 2 - (j : ℝ) ^ 2))
      * ((j : ℝ) ^ 2 - ((m2 : ℝ) + m3) ^ 2) = ((Gen.A_radicand j j2 j3 (-(m2 + m3)) : ℤ) : ℝ) := by
  unfold Gen.A_radicand
  push_cast
  ring

theorem wA_eq_sqrt (j2 j3 m2 m3 j : ℤ) :
    wA j2 j3 m2 m3 j = Real.sqrt ((Gen.A_radicand j j2 j3 (-(m2 + m3)) : ℤ) : ℝ) := by
  unfold wA
  rw [radicand_cast]

/-- `A` of the model (int64 radicand, then `sqrt`) is `wA` on the admissible domain -/
theorem A_eq_wA (j2 j3 m2 m3 j : ℤ) (ha : Adm j2 j3 m2 m3)
    (hlo : jminOf j2 j3 m2 m3 ≤ j) (hhi : j ≤ j2 + j3 + 1) :
    (A j j2 j3 (-(m2 + m3)) : ℝ) = wA j2 j3 m2 m3 j := by
  obtain ⟨h2, h3, hs⟩ := ha
  unfold jminOf Lemmas.W3jBounds.jminOf at hlo
  rw [A_real, Lemmas.W3j.A_radicand_w_adm j j2 j3 _ (by omega) (by omega) hs (by omega) hhi (by omega),
    wA_eq_sqrt]

theorem Xf_eq_wX (j2 j3 m2 m3 j : ℤ) (ha : Adm j2 j3 m2 m3)
    (hlo : jminOf j2 j3 m2 m3 ≤ j + 1) (hhi : j ≤ j2 + j3) :
    (Xf j j2 j3 (-(m2 + m3)) : ℝ) = wX j2 j3 m2 m3 j := by
  rw [Xf_real, A_eq_wA j2 j3 m2 m3 (j + 1) ha hlo (by omega)]
  rfl

theorem Zf_eq_wZ (j2 j3 m2 m3 j : ℤ) (ha : Adm j2 j3 m2 m3)
    (hlo : jminOf j2 j3 m2 m3 ≤ j) (hhi : j ≤ j2 + j3 + 1) :
    (Zf j j2 j3 (-(m2 + m3)) : ℝ) = wZ j2 j3 m2 m3 j := by
  rw [Zf_real, A_eq_wA j2 j3 m2 m3 j ha hlo hhi]
  unfold wZ
  push_cast
  ring

theorem Yf_eq_wY (j2 j3 m2 m3 j : ℤ) (ha : Adm j2 j3 m2 m3) (hlo : 0 ≤ j) (hhi : j ≤ j2 + j3) :
    (Yf j j2 j3 m2 m3 : ℝ) = wY j2 j3 m2 m3 j := by
  rw [Yf_eq_B j j2 j3 m2 m3 ha ⟨hlo, hhi⟩]
  unfold Gen.B wY
  push_cast
  ring

/-! ### (B) zeros of the coefficients, from the closed forms -/

theorem wA_pos (j2 j3 m2 m3 j : ℤ) (hlo : jmin j2 j3 m2 m3 < j) (hhi : j ≤ j2 + j3) :
    0 < wA j2 j3 m2 m3 j := by
  rw [jmin_eq] at hlo
  unfold jminOf Lemmas.W3jBounds.jminOf at hlo
  rw [wA_eq_sqrt]
  apply Real.sqrt_pos.2
  exact_mod_cast A_radicand_pos j j2 j3 _ (by omega) (by omega) (by omega)

theorem wA_jmin (j2 j3 m2 m3 : ℤ) : wA j2 j3 m2 m3 (jmin j2 j3 m2 m3) = 0 := by
  unfold wA jmin
  rcases le_total |j2 - j3| |m2 + m3| with h | h
  · rw [max_eq_right h]
    have : ((|m2 + m3| : ℤ) : ℝ) ^ 2 - ((m2 : ℝ) + m3) ^ 2 = 0 := by
      rw [Int.cast_abs, sq_abs]; push_cast; ring
    rw [this, mul_zero, Real.sqrt_zero]
  · rw [max_eq_left h]
    have : ((|j2 - j3| : ℤ) : ℝ) ^ 2 - ((j2 : ℝ) - j3) ^ 2 = 0 := by
      rw [Int.cast_abs, sq_abs]; push_cast; ring
    rw [this, zero_mul, zero_mul, Real.sqrt_zero]

theorem wA_top (j2 j3 m2 m3 : ℤ) : wA j2 j3 m2 m3 (j2 + j3 + 1) = 0 := by
  unfold wA
  have : ((j2 : ℝ) + j3 + 1) ^ 2 - (((j2 + j3 + 1 : ℤ)) : ℝ) ^ 2 = 0 := by push_cast; ring
  rw [this, mul_zero, zero_mul, Real.sqrt_zero]

/-- `Z(j_min) = 0` -/
theorem wZ_jmin (j2 j3 m2 m3 : ℤ) : wZ j2 j3 m2 m3 (jmin j2 j3 m2 m3) = 0 := by
  unfold wZ; rw [wA_jmin, mul_zero]

/-- `X(j_max) = 0` -/
theorem wX_top (j2 j3 m2 m3 : ℤ) : wX j2 j3 m2 m3 (j2 + j3) = 0 := by
  unfold wX; rw [wA_top, mul_zero]

theorem jmin_nonneg (j2 j3 m2 m3 : ℤ) : 0 ≤ jmin j2 j3 m2 m3 := by
  rw [jmin_eq]; exact jminOf_nonneg _ _ _ _

/-- `Z(j) ≠ 0` for `j_min < j ≤ j_max`: always -/
theorem wZ_ne (j2 j3 m2 m3 j : ℤ) (hlo : jmin j2 j3 m2 m3 < j) (hhi : j ≤ j2 + j3) :
    wZ j2 j3 m2 m3 j ≠ 0 := by
  have h0 := jmin_nonneg j2 j3 m2 m3
  have : (0 : ℝ) < (j : ℝ) + 1 := by exact_mod_cast (by omega : (0 : ℤ) < j + 1)
  exact (mul_pos this (wA_pos j2 j3 m2 m3 j hlo hhi)).ne'

/-- `X(j) ≠ 0` for `j_min ≤ j < j_max`, EXCEPT at `j = 0` (possible only when `j_min = 0`, i.e. `j2 = j3` and
    `m2 + m3 = 0`), where `X(0) = 0 · A(1) = 0` -/
theorem wX_ne (j2 j3 m2 m3 j : ℤ) (hlo : jmin j2 j3 m2 m3 ≤ j) (hhi : j < j2 + j3) (hj : j ≠ 0) :
    wX j2 j3 m2 m3 j ≠ 0 := by
  have h0 := jmin_nonneg j2 j3 m2 m3
  have : (0 : ℝ) < (j : ℝ) := by exact_mod_cast (by omega : (0 : ℤ) < j)
  exact (mul_pos this (wA_pos j2 j3 m2 m3 (j + 1) (by omega) (by omega))).ne'

theorem wX_zero (j2 j3 m2 m3 : ℤ) : wX j2 j3 m2 m3 0 = 0 := by
  unfold wX; simp

/-- `j_min = 0` forces `Y(0) = 0`; together with `X(0) = 0 = Z(0)` the recurrence at `j = 0` is void -/
theorem wY_zero (j2 j3 m2 m3 : ℤ) : wY j2 j3 m2 m3 0 = (m2 + m3 : ℝ) * ((j2 : ℝ) * (j2 + 1) - (j3 : ℝ) * (j3 + 1)) := by
  unfold wY; simp

/-- all `m` zero: `Y ≡ 0` -/
theorem wY_m_zero (j2 j3 j : ℤ) : wY j2 j3 0 0 j = 0 := by
  unfold wY; simp

/-! ### (C) three-term recurrences over `ℤ → ℝ` -/

section abstract
variable (X Y Z : ℤ → ℝ)

/-- `X(j) F(j+1) + Y(j) F(j) + Z(j) F(j−1) = 0` -/
def R3 (F : ℤ → ℝ) (j : ℤ) : Prop := X j * F (j + 1) + Y j * F j + Z j * F (j - 1) = 0

variable {X Y Z}

theorem R3.lin {F G : ℤ → ℝ} {j : ℤ} (a b : ℝ) (hF : R3 X Y Z F j) (hG : R3 X Y Z G j) :
    R3 X Y Z (fun i => a * F i - b * G i) j := by
  unfold R3 at *
  linear_combination a * hF - b * hG

/-- downward: a solution on `(lo, hi]` with `X(hi) H(hi+1) = 0` and `H(hi) = 0` vanishes on `[lo, hi]`,
    provided `Z ≠ 0` on `(lo, hi]` -/
theorem down_zero {H : ℤ → ℝ} {lo hi : ℤ} (hrec : ∀ j, lo < j → j ≤ hi → R3 X Y Z H j)
    (hZ : ∀ j, lo < j → j ≤ hi → Z j ≠ 0) (hX : X hi * H (hi + 1) = 0) (h0 : H hi = 0) :
    ∀ j, lo ≤ j → j ≤ hi → H j = 0 := by
  have key : ∀ k : ℕ, lo ≤ hi - k → H (hi - k) = 0 ∧ X (hi - k) * H (hi - k + 1) = 0 := by
    intro k
    induction k with
    | zero => intro _; simp only [Nat.cast_zero, sub_zero]; exact ⟨h0, hX⟩
    | succ k ih =>
      intro hlo
      push_cast at hlo
      obtain ⟨a1, a2⟩ := ih (by omega)
      have hr := hrec (hi - k) (by omega) (by omega)
      unfold R3 at hr
      have h3 : Z (hi - k) * H (hi - k - 1) = 0 := by linear_combination hr - a2 - Y (hi - k) * a1
      have h4 : H (hi - k - 1) = 0 := by
        rcases mul_eq_zero.1 h3 with h | h
        · exact absurd h (hZ _ (by omega) (by omega))
        · exact h
      have e : hi - ((k + 1 : ℕ) : ℤ) = hi - k - 1 := by push_cast; ring
      rw [e, sub_add_cancel, a1, mul_zero]
      exact ⟨h4, rfl⟩
  intro j h1 h2
  have := (key (hi - j).toNat (by omega)).1
  rwa [show hi - ((hi - j).toNat : ℤ) = j by omega] at this

/-- upward: a solution on `[lo, hi)` with `Z(lo) H(lo−1) = 0` and `H(lo) = 0` vanishes on `[lo, hi]`,
    provided `X ≠ 0` on `[lo, hi)` -/
theorem up_zero {H : ℤ → ℝ} {lo hi : ℤ} (hrec : ∀ j, lo ≤ j → j < hi → R3 X Y Z H j)
    (hXne : ∀ j, lo ≤ j → j < hi → X j ≠ 0) (hZ : Z lo * H (lo - 1) = 0) (h0 : H lo = 0) :
    ∀ j, lo ≤ j → j ≤ hi → H j = 0 := by
  have key : ∀ k : ℕ, lo + k ≤ hi → H (lo + k) = 0 ∧ Z (lo + k) * H (lo + k - 1) = 0 := by
    intro k
    induction k with
    | zero => intro _; simp only [Nat.cast_zero, add_zero]; exact ⟨h0, hZ⟩
    | succ k ih =>
      intro hhi
      push_cast at hhi
      obtain ⟨a1, a2⟩ := ih (by omega)
      have hr := hrec (lo + k) (by omega) (by omega)
      unfold R3 at hr
      have h3 : X (lo + k) * H (lo + k + 1) = 0 := by linear_combination hr - a2 - Y (lo + k) * a1
      have h4 : H (lo + k + 1) = 0 := by
        rcases mul_eq_zero.1 h3 with h | h
        · exact absurd h (hXne _ (by omega) (by omega))
        · exact h
      have e : lo + ((k + 1 : ℕ) : ℤ) = lo + k + 1 := by push_cast; ring
      rw [e, add_sub_cancel_right, a1, mul_zero]
      exact ⟨h4, rfl⟩
  intro j h1 h2
  have := (key (j - lo).toNat (by omega)).1
  rwa [show lo + ((j - lo).toNat : ℤ) = j by omega] at this

end abstract

/-! ### (D) the model: what the pipeline of `Lemmas/W3jNorm.lean` knows about the matching point

    `Good` (there) records that the un-normalised array satisfies the recurrence off one matching point `jm`.  The
    proofs know more, and the identification needs it: below `jm` the array is a multiple of the upward solution
    `F_minus`, and the source divides by `F_minus[jm]`, which therefore is not zero.  `meet_ok2`, `threeTerm_ok2`,
    `afterFwd_ok2` are `meet_ok`, `threeTerm_ok`, `afterFwd_ok` with that conjunct carried along; the loop
    triples are those of `Lemmas/W3jNorm.lean`, plus one frame property (`fwdThreeLoop_frame`). -/

section model
open Std.Do
variable (j2 j3 m1 m2 m3 : Int)

theorem frame_step (F0 : Array ℝ) (n : Nat) (j0 jmin : ℤ) (v scale : ℝ) (h0 : 0 ≤ jmin) (hj : 1 ≤ j0)
    (hn : j0 + 1 < n) (hsz : F0.size = n) (hz : geti F0 1 = 0) :
    ((seti F0 (j0 + 1) v).size = n ∧ geti (seti F0 (j0 + 1) v) 1 = 0) ∧
    ((divRange (seti F0 (j0 + 1) v) jmin (j0 + 1) scale).size = n ∧
      geti (divRange (seti F0 (j0 + 1) v) jmin (j0 + 1) scale) 1 = 0) := by
  have a1 : (seti F0 (j0 + 1) v).size = n := by rw [size_seti, hsz]
  have a2 : geti (seti F0 (j0 + 1) v) 1 = 0 := by rw [geti_seti_ne _ _ _ _ (by omega)]; exact hz
  refine ⟨⟨a1, a2⟩, by rw [size_divRange, a1], ?_⟩
  rw [geti_divRange _ jmin (j0 + 1) scale h0 (by rw [a1]; exact_mod_cast hn) 1 (by norm_num), a2]
  simp

/-- the upward sweep writes cells `≥ j_minus + 1 ≥ 2` and rescales: a zero in cell `1` stays -/
theorem fwdThreeLoop_frame (jmin : Int) (n : Nat) (scale : ℝ) (jminus jmid0 : Int) (Fm : Array ℝ) :
    ⦃⌜0 ≤ jmin ∧ 1 ≤ jminus ∧ jmid0 + 1 < n ∧ Fm.size = n ∧ geti Fm 1 = 0⌝⦄
      fwdThreeLoop j2 j3 m1 m2 m3 jmin scale jminus jmid0 Fm
    ⦃⇓ r => ⌜geti r.1 1 = 0⌝⦄ := by
  mvcgen [fwdThreeLoop] invariants
    · ⇓⟨xs, s⟩ => ⌜s.1.size = n ∧ geti s.1 1 = 0⌝
  case vc1.step.isTrue.isTrue =>
    rename_i hpre pref cur suff hr b F0 jm j0 F1 jp hsc F2 hbrk jm' hinv
    obtain ⟨hcur, hlt, _⟩ := range_cur hr
    obtain ⟨h0, h1, hn, _, _⟩ := hpre
    exact (frame_step F0 n j0 jmin _ scale h0 (by simp only [j0]; omega) (by simp only [j0]; omega)
      hinv.1 hinv.2).2
  case vc2.step.isTrue.isFalse =>
    rename_i hpre pref cur suff hr b F0 jm j0 F1 jp hsc F2 hbrk hinv
    obtain ⟨hcur, hlt, _⟩ := range_cur hr
    obtain ⟨h0, h1, hn, _, _⟩ := hpre
    exact (frame_step F0 n j0 jmin _ scale h0 (by simp only [j0]; omega) (by simp only [j0]; omega)
      hinv.1 hinv.2).2
  case vc3.step.isFalse.isTrue =>
    rename_i hpre pref cur suff hr b F0 jm j0 F1 jp hsc hbrk jm' hinv
    obtain ⟨hcur, hlt, _⟩ := range_cur hr
    obtain ⟨h0, h1, hn, _, _⟩ := hpre
    exact (frame_step F0 n j0 jmin _ scale h0 (by simp only [j0]; omega) (by simp only [j0]; omega)
      hinv.1 hinv.2).1
  case vc4.step.isFalse.isFalse =>
    rename_i hpre pref cur suff hr b F0 jm j0 F1 jp hsc hbrk hinv
    obtain ⟨hcur, hlt, _⟩ := range_cur hr
    obtain ⟨h0, h1, hn, _, _⟩ := hpre
    exact (frame_step F0 n j0 jmin _ scale h0 (by simp only [j0]; omega) (by simp only [j0]; omega)
      hinv.1 hinv.2).1
  case vc5.pre =>
    rename_i hpre
    exact ⟨hpre.2.2.2.1, hpre.2.2.2.2⟩
  case vc6.post.success =>
    rename_i hpre r F' jm hinv
    exact hinv.2

/-- the lower part `[j_min, jm]` of `f` is `c ·` an upward solution `G` of the recurrence that does not vanish
    at `jm` (or `jm = j_max`); when `j_min = 0` (where the recurrence at `j_min` is void) all `m` vanish and
    `G[1] = 0` -/
def Low (jmin jmax jm : Int) (f : Array ℝ) : Prop :=
  ∃ (G : Array ℝ) (c : ℝ), (∀ j, jmin ≤ j → j < jm → Rec j2 j3 m1 m2 m3 G j) ∧
    (jm = jmax ∨ geti G jm ≠ 0) ∧ (jmin = 0 → m2 = 0 ∧ m3 = 0 ∧ geti G 1 = 0) ∧
    ∀ j, jmin ≤ j → j ≤ jm → geti f j = c * geti G j

/-- `Good` of `Lemmas/W3jNorm.lean` plus: the matching point is `j_min` or the lower part is `Low` -/
def Good2 (jmin jmax : Int) (f : Array ℝ) : Prop :=
  ∃ jm, jmin ≤ jm ∧ jm ≤ jmax ∧ (∀ j, jmin ≤ j → j ≤ jmax → j ≠ jm → Rec j2 j3 m1 m2 m3 f j) ∧
    (∃ s, jmin ≤ s ∧ s ≤ jmax ∧ geti f s ≠ 0) ∧
    (jm = jmin ∨ Low j2 j3 m1 m2 m3 jmin jmax jm f)

def GoodOut2 (jmin jmax : Int) (n : Nat) (f0 : Array ℝ) (r : Out ℝ) : Prop :=
  ∃ f : Array ℝ, f.size = n ∧ r = Lemmas.W3jBounds.finish j2 j3 m2 m3 jmin jmax f ∧
    (∀ j, 0 ≤ j → (j < jmin ∨ jmax < j) → geti f j = geti f0 j) ∧
    Good2 j2 j3 m1 m2 m3 jmin jmax f

variable {j2 j3 m1 m2 m3}

theorem meet_ok2 {jmin jmax : Int} (C : Coef j2 j3 m1 m2 m3 jmin jmax) {n : Nat} {scale : ℝ}
    {f Fm Fp : Array ℝ} {jplus jmid s : Int} (hsc : scale ≠ 0) (hf : f.size = n) (hn : jmax < n)
    (hFm : ∀ j, jmin ≤ j → j < jmid → Rec j2 j3 m1 m2 m3 Fm j) (hmid : geti Fm jmid ≠ 0)
    (hG1 : jmin = 0 → m2 = 0 ∧ m3 = 0 ∧ geti Fm 1 = 0)
    (h1 : jmin ≤ jmid) (h2 : jmid ≤ jplus) (h3 : jplus ≤ jmax - 1) (hs : jplus ≤ s) (hs' : s ≤ jmax)
    (hFp : BwdInv j2 j3 m1 m2 m3 jmax n s Fp jplus) :
    GoodOut2 j2 j3 m1 m2 m3 jmin jmax n f
      (Lemmas.W3jBounds.meet j2 j3 m1 m2 m3 jmin jmax scale f Fm Fp jplus jmid (geti Fm jmid)) := by
  have h0 := C.h0
  have hlt := C.hlt
  rw [meet_eq]
  obtain ⟨b1, b2, b3⟩ : BwdInv j2 j3 m1 m2 m3 jmax n s
      (bwdThreeLoop j2 j3 m1 m2 m3 jmax scale jplus jmid Fp).run jmid := by
    have := (id_triple _ _ _).1 (bwdThreeLoop_triple j2 j3 m1 m2 m3 jmax n scale jplus jmid s Fp)
      ⟨by omega, hs, hs', hn, hsc, C.Xtop, fun j hj hj' => C.Zne j (by omega) (by omega), hFp⟩
    exact this.mono (by omega)
  dsimp only
  generalize (bwdThreeLoop j2 j3 m1 m2 m3 jmax scale jplus jmid Fp).run = Fp' at b1 b2 b3 ⊢
  rw [if_neg (by omega)]
  split
  · -- the downward sweep covered everything
    rename_i hjm
    have hg : ∀ j, jmin ≤ j → j ≤ jmax → geti (copyRange f Fp' jmin jmax) j = geti Fp' j := by
      intro j hj hj'
      rw [geti_copyRange f Fp' jmin jmax h0 (by rw [hf]; exact_mod_cast hn) j (by omega),
        if_pos ⟨hj, hj'⟩]
    refine ⟨_, by rw [size_copyRange, hf], rfl, (fun j hj ho => by
      rw [geti_copyRange f _ jmin jmax h0 (by rw [hf]; exact_mod_cast hn) j hj, if_neg (by omega)]),
      jmin, le_refl _, hlt.le, fun j hj hj' hne => ?_,
      ⟨s, by omega, hs', by rw [hg s (by omega) hs']; exact b2⟩, Or.inl rfl⟩
    refine Rec_of_scaled 1 ?_ (by rw [hg j hj hj', one_mul]) (Or.inr ?_) (b3 j (by omega) hj')
    · by_cases hjj : j = jmax
      · left; rw [hjj]; exact C.Xtop
      · right; rw [hg (j + 1) (by omega) (by omega), one_mul]
    · rw [hg (j - 1) (by omega) (by omega), one_mul]
  · rename_i hjm
    obtain ⟨g1, g2, g3⟩ := (id_triple _ _ _).1
      (scaleCopyLoop_triple jmin jmid (geti Fp' jmid) (geti Fm jmid) Fm f)
      ⟨h0, by rw [hf]; omega⟩
    generalize (scaleCopyLoop jmin jmid (geti Fp' jmid) (geti Fm jmid) Fm f).run = g at g1 g2 g3 ⊢
    simp only [RealScalar.mul_def, RealScalar.div_def] at g2
    have hhi : ∀ j, jmid < j → j ≤ jmax → geti (copyRange g Fp' (jmid + 1) jmax) j = geti Fp' j := by
      intro j hj hj'
      rw [geti_copyRange g Fp' (jmid + 1) jmax (by omega) (by rw [g1, hf]; exact_mod_cast hn) j (by omega),
        if_pos ⟨by omega, hj'⟩]
    have hlo : ∀ j, jmin ≤ j → j ≤ jmid → geti (copyRange g Fp' (jmid + 1) jmax) j
        = (geti Fp' jmid / geti Fm jmid) * geti Fm j := by
      intro j hj hj'
      rw [geti_copyRange g Fp' (jmid + 1) jmax (by omega) (by rw [g1, hf]; exact_mod_cast hn) j (by omega),
        if_neg (by omega), g2 j hj hj']
      ring
    have hmidc : geti (copyRange g Fp' (jmid + 1) jmax) jmid = geti Fp' jmid := by
      rw [hlo jmid h1 (le_refl _)]; field_simp
    have hall : ∀ j, jmid ≤ j → j ≤ jmax → geti (copyRange g Fp' (jmid + 1) jmax) j = geti Fp' j := by
      intro j hj hj'
      by_cases hjj : j = jmid
      · rw [hjj]; exact hmidc
      · exact hhi j (by omega) hj'
    refine ⟨_, by rw [size_copyRange, g1, hf], rfl, (fun j hj ho => by
      rw [geti_copyRange g Fp' (jmid + 1) jmax (by omega) (by rw [g1, hf]; exact_mod_cast hn) j hj,
        if_neg (by omega)]
      exact g3 j hj (by omega)),
      jmid, h1, by omega, fun j hj hj' hne => ?_,
      ⟨s, by omega, hs', by rw [hall s (by omega) hs']; exact b2⟩,
      Or.inr ⟨Fm, geti Fp' jmid / geti Fm jmid, hFm, Or.inr hmid, hG1, hlo⟩⟩
    by_cases hlow : j < jmid
    · refine Rec_of_scaled (geti Fp' jmid / geti Fm jmid) (Or.inr (hlo (j + 1) (by omega) (by omega)))
        (hlo j hj (by omega)) ?_ (hFm j hj hlow)
      by_cases hjj : j = jmin
      · left; rw [hjj]; exact C.Z0
      · right; exact hlo (j - 1) (by omega) (by omega)
    · refine Rec_of_scaled 1 ?_ (by rw [hall j (by omega) hj', one_mul]) (Or.inr ?_)
        (b3 j (by omega) hj')
      · by_cases hjj : j = jmax
        · left; rw [hjj]; exact C.Xtop
        · right; rw [hall (j + 1) (by omega) (by omega), one_mul]
      · rw [hall (j - 1) (by omega) (by omega), one_mul]

theorem threeTerm_ok2 {jmin jmax : Int} (C : Coef j2 j3 m1 m2 m3 jmin jmax) {n : Nat} {scale : ℝ}
    {f Fm Fp : Array ℝ} {undefMin : Bool} {jminus jplus s : Int} (hsc : scale ≠ 0) (hf : f.size = n)
    (hn : jmax < n) (H1 : undefMin = true → jminus = jmin)
    (H2 : undefMin = false → jmin + 1 ≤ jminus ∧ jminus ≤ jmax - 1 ∧
      FwdInv j2 j3 m1 m2 m3 jmin n Fm jminus)
    (H3 : jmin = 0 → undefMin = false → m2 = 0 ∧ m3 = 0 ∧ geti Fm 1 = 0)
    (h3 : jmin ≤ jplus) (h3' : jplus ≤ jmax - 1) (hs : jplus ≤ s) (hs' : s ≤ jmax)
    (hFp : BwdInv j2 j3 m1 m2 m3 jmax n s Fp jplus) (hreg : jminus ≤ jplus + 1) :
    GoodOut2 j2 j3 m1 m2 m3 jmin jmax n f
      (Lemmas.W3jBounds.threeTerm j2 j3 m1 m2 m3 jmin jmax scale f Fm Fp undefMin false jminus jplus) := by
  have h0 := C.h0
  have hlt := C.hlt
  rw [threeTerm_eq]
  cases undefMin with
  | true =>
    simp only [Bool.and_false, Bool.false_eq_true, ↓reduceIte, Bool.not_true, Bool.false_and]
    obtain ⟨b1, b2, b3⟩ : BwdInv j2 j3 m1 m2 m3 jmax n s
        (bwdThreeLoop j2 j3 m1 m2 m3 jmax scale jplus jmin Fp).run jmin := by
      have := (id_triple _ _ _).1 (bwdThreeLoop_triple j2 j3 m1 m2 m3 jmax n scale jplus jmin s Fp)
        ⟨h0, hs, hs', hn, hsc, C.Xtop, fun j hj hj' => C.Zne j (by omega) (by omega), hFp⟩
      exact this.mono (by omega)
    generalize (bwdThreeLoop j2 j3 m1 m2 m3 jmax scale jplus jmin Fp).run = Fp' at b1 b2 b3 ⊢
    have hg : ∀ j, jmin ≤ j → j ≤ jmax → geti (copyRange f Fp' jmin jmax) j = geti Fp' j := by
      intro j hj hj'
      rw [geti_copyRange f Fp' jmin jmax h0 (by rw [hf]; exact_mod_cast hn) j (by omega),
        if_pos ⟨hj, hj'⟩]
    refine ⟨_, by rw [size_copyRange, hf], rfl, (fun j hj ho => by
      rw [geti_copyRange f _ jmin jmax h0 (by rw [hf]; exact_mod_cast hn) j hj, if_neg (by omega)]),
      jmin, le_refl _, hlt.le, fun j hj hj' hne => ?_,
      ⟨s, by omega, hs', by rw [hg s (by omega) hs']; exact b2⟩, Or.inl rfl⟩
    refine Rec_of_scaled 1 ?_ (by rw [hg j hj hj', one_mul]) (Or.inr ?_) (b3 j (by omega) hj')
    · by_cases hjj : j = jmax
      · left; rw [hjj]; exact C.Xtop
      · right; rw [hg (j + 1) (by omega) (by omega), one_mul]
    · rw [hg (j - 1) (by omega) (by omega), one_mul]
  | false =>
    obtain ⟨m1', m2', hFm⟩ := H2 rfl
    simp only [Bool.false_eq_true, ↓reduceIte, Bool.not_false, Bool.and_self]
    obtain ⟨t1, t2, t3⟩ := (id_triple _ _ _).1
      (fwdThreeLoop_triple j2 j3 m1 m2 m3 jmin n scale jminus ((jminus + jplus) / 2) Fm)
      ⟨h0, m1', by omega, hsc, C.Z0, fun j hj hj' => C.Xne j (by omega) (by omega) (by omega), hFm⟩
    have tz : jmin = 0 → m2 = 0 ∧ m3 = 0 ∧
        geti (fwdThreeLoop j2 j3 m1 m2 m3 jmin scale jminus ((jminus + jplus) / 2) Fm).run.1 1 = 0 := by
      intro hz
      obtain ⟨z1, z2, z3⟩ := H3 hz rfl
      exact ⟨z1, z2, (id_triple _ _ _).1
        (fwdThreeLoop_frame j2 j3 m1 m2 m3 jmin n scale jminus ((jminus + jplus) / 2) Fm)
        ⟨h0, by omega, by omega, hFm.1, z3⟩⟩
    generalize (fwdThreeLoop j2 j3 m1 m2 m3 jmin scale jminus ((jminus + jplus) / 2) Fm).run = r
      at t1 t2 t3 tz ⊢
    have hr2 : jmin ≤ r.2 := by omega
    -- the matching point and the value there
    have key : ∀ jmid : Int, (jmid = r.2 ∨ jmid = r.2 - 1) → jmin ≤ jmid → geti r.1 jmid ≠ 0 →
        GoodOut2 j2 j3 m1 m2 m3 jmin jmax n f
          (Lemmas.W3jBounds.meet j2 j3 m1 m2 m3 jmin jmax scale f r.1 Fp jplus jmid (geti r.1 jmid)) := by
      intro jmid hj hlo hne
      exact meet_ok2 C hsc hf hn (fun j h1 h2 => t3.2.2.2 j h1 (by omega)) hne tz hlo (by omega) h3' hs hs' hFp
    simp only [isZero, RealScalar.beq_def, RealScalar.zero_def, RealScalar.lt_def, RealScalar.abs_def,
      RealScalar.div_def, RealScalar.ofInt_def, Bool.and_eq_true, Bool.not_eq_true',
      decide_eq_false_iff_not, decide_eq_true_eq]
    split
    · rename_i hdec
      -- `j_mid -= 1`
      refine key (r.2 - 1) (Or.inr rfl) ?_ hdec.1
      by_contra hcon
      have hr : r.2 = jmin := by omega
      rw [hr] at hdec
      by_cases hj0 : jmin = 0
      · rw [hj0, geti_neg _ _ (by omega), div_self (by rw [← hj0]; exact t3.2.1)] at hdec
        norm_num at hdec
      · exact hdec.1 (t3.2.2.1 (jmin - 1) (by omega) (by omega))
    · rename_i hdec
      refine key r.2 (Or.inl rfl) hr2 ?_
      intro hz
      rcases t2 with t2 | t2
      · by_cases hr : r.2 = jmin
        · rw [hr] at hz; exact t3.2.1 hz
        · apply hdec
          have hprev : geti r.1 (r.2 - 1) ≠ 0 := fun hz2 =>
            no_two_zeros C t3 (by omega) (by omega) (by omega) hz hz2
          refine ⟨hprev, ?_⟩
          rw [hz, zero_div, abs_zero]
          norm_num
      · exact t2.2 hz

theorem afterFwd_ok2 {jmin jmax : Int} (C : Coef j2 j3 m1 m2 m3 jmin jmax) {n : Nat} {scale : ℝ}
    {f Fp : Array ℝ} {fw : Fwd ℝ} (hsc : scale ≠ 0) (hf : f.size = n) (hFp : Fp.size = n)
    (hn : jmax < n)
    (hfw : FwdOK (j2 := j2) (j3 := j3) (m1 := m1) (m2 := m2) (m3 := m3) jmin jmax n fw)
    (H3 : jmin = 0 → fw.undefMin = false → m2 = 0 ∧ m3 = 0 ∧ geti fw.Fm 1 = 0)
    (hreg : fw.jminus = jmax ∨
      fw.jminus ≤ (revPhase j2 j3 m1 m2 m3 jmin jmax fw.sf Fp fw.jminus).jplus + 1) :
    GoodOut2 j2 j3 m1 m2 m3 jmin jmax n f
      (Lemmas.W3jBounds.afterFwd j2 j3 m1 m2 m3 jmin jmax scale f fw.sf fw.Fm Fp fw.undefMin fw.jminus) := by
  have h0 := C.h0
  have hlt := C.hlt
  obtain ⟨hsf, H1, H2⟩ := hfw
  rw [afterFwd_eq]
  split
  · rename_i hjm
    have hu : fw.undefMin = false := by
      cases h : fw.undefMin with
      | false => rfl
      | true => have := H1 h; omega
    obtain ⟨_, _, hsz, hne, _, hrec⟩ := H2 hu
    have hg : ∀ j, jmin ≤ j → j ≤ jmax → geti (copyRange f fw.Fm jmin jmax) j = geti fw.Fm j := by
      intro j hj hj'
      rw [geti_copyRange f fw.Fm jmin jmax h0 (by rw [hf]; exact_mod_cast hn) j (by omega),
        if_pos ⟨hj, hj'⟩]
    refine ⟨_, by rw [size_copyRange, hf], rfl, (fun j hj ho => by
      rw [geti_copyRange f _ jmin jmax h0 (by rw [hf]; exact_mod_cast hn) j hj, if_neg (by omega)]),
      jmax, hlt.le, le_refl _, fun j hj hj' hne' => ?_,
      ⟨jmin, le_refl _, hlt.le, by rw [hg jmin (le_refl _) hlt.le]; exact hne⟩,
      Or.inr ⟨fw.Fm, 1, fun j hj hj' => hrec j hj (by omega), Or.inl rfl, fun hz => H3 hz hu,
        fun j hj hj' => by rw [hg j hj hj', one_mul]⟩⟩
    refine Rec_of_scaled 1 (Or.inr ?_) (by rw [hg j hj hj', one_mul]) ?_ (hrec j hj (by omega))
    · rw [hg (j + 1) (by omega) (by omega), one_mul]
    · by_cases hjj : j = jmin
      · left; rw [hjj]; exact C.Z0
      · right; rw [hg (j - 1) (by omega) (by omega), one_mul]
  · rename_i hjm
    have hjm1 : jmin ≤ fw.jminus ∧ fw.jminus ≤ jmax - 1 := by
      cases h : fw.undefMin with
      | false => have := H2 h; omega
      | true => have := H1 h; omega
    obtain ⟨r1, r2, r3, s, r4, r5, r6⟩ := revPhase_ok C hsf hFp hn fw.jminus hjm1.1 hjm1.2
    have hreg' := hreg.resolve_left hjm
    dsimp only
    rw [r1]
    refine threeTerm_ok2 C hsc hf hn H1 (fun h => ?_) H3 r2 r3 r4 r5 (r6.mono (by omega)) hreg'
    have := H2 h
    exact ⟨this.1, by omega, this.2.2⟩

/-- `j_min = 0`: unless `undefined_min`, all `m` vanish and `F_minus[1] = 0` -/
theorem fwdPhase_zero {jmin jmax : Int} (C : Coef j2 j3 m1 m2 m3 jmin jmax) {n : Nat} {sf Fm : Array ℝ}
    (hFm : Fm.size = n) (hn : jmax < n) (hz : jmin = 0)
    (hu : (fwdPhase j2 j3 m1 m2 m3 jmin jmax sf Fm).undefMin = false) :
    m2 = 0 ∧ m3 = 0 ∧ geti (fwdPhase j2 j3 m1 m2 m3 jmin jmax sf Fm).Fm 1 = 0 := by
  have hlt := C.hlt
  have hY : (Yf jmin j2 j3 m2 m3 : ℝ) = 0 := C.Y0 hz
  have hX : (Xf jmin j2 j3 m1 : ℝ) = 0 := by rw [hz, Xf_real]; simp
  unfold fwdPhase at hu ⊢
  simp only [isZero, ge0, RealScalar.beq_def, RealScalar.le_def, RealScalar.zero_def,
    RealScalar.mul_def, RealScalar.div_def, RealScalar.neg_def, decide_eq_true_eq, negYf_real, hY, hX]
    at hu ⊢
  split
  · rename_i hm
    simp only [Bool.and_eq_true, decide_eq_true_eq] at hm
    refine ⟨hm.1.2, hm.2, ?_⟩
    dsimp only
    rw [hz, show (0 : ℤ) + 1 = 1 from rfl]
    exact geti_seti_same _ 1 _ (by rw [size_seti, hFm]; omega)
  · rename_i hm
    simp only [hm, Bool.false_eq_true, ↓reduceIte] at hu
    simp at hu

end model

theorem calculate_good2 (size : Nat) (ws : Array ℝ) (j2 j3 m2 m3 : Int) (ha : Adm j2 j3 m2 m3)
    (hlt : jminOf j2 j3 m2 m3 < j2 + j3) (hs : j2 + j3 + 1 ≤ size) (hws : 4 * size ≤ ws.size)
    (hreg : Regular size ws j2 j3 m2 m3) :
    GoodOut2 j2 j3 (-(m2 + m3)) m2 m3 (jminOf j2 j3 m2 m3)
      (j2 + j3) size ((ws.map (fun _ => (zero : ℝ))).extract 0 size) (calculate size ws j2 j3 m2 m3) := by
  have C := coef_of_adm j2 j3 m2 m3 ha hlt
  rw [Lemmas.W3jBounds.calculate_phased, calculateP_eq size ws j2 j3 m2 m3 ha.hm2 ha.hm3 hlt]
  have e1 := size_zero_view ws size 1 hws (by omega)
  have e2 := size_zero_view ws size 2 hws (by omega)
  have e3 := size_zero_view ws size 3 hws (by omega)
  have e0 := size_zero_view ws size 0 hws (by omega)
  simp only [Nat.zero_mul, Nat.zero_add, Nat.one_mul, Nat.reduceAdd] at e0 e1 e2 e3
  have hfw := fwdPhase_ok C e1 e2 (geti_zero_view ws _ _) (by omega : j2 + j3 < (size : Int))
  exact afterFwd_ok2 C (by simp) e0 e3 (by omega) hfw
    (fun hz hu => fwdPhase_zero C e2 (by omega : j2 + j3 < (size : Int)) hz hu) hreg

/-- on `[j_min, j_max]` the model's recurrence is the recurrence with the closed-form coefficients -/
theorem Rec_iff_R3 (j2 j3 m2 m3 : ℤ) (ha : Adm j2 j3 m2 m3) (f : Array ℝ) (j : ℤ)
    (hlo : jminOf j2 j3 m2 m3 ≤ j) (hhi : j ≤ j2 + j3) :
    Rec j2 j3 (-(m2 + m3)) m2 m3 f j ↔
      R3 (wX j2 j3 m2 m3) (wY j2 j3 m2 m3) (wZ j2 j3 m2 m3) (fun i => geti f i) j := by
  have h0 := jminOf_nonneg j2 j3 m2 m3
  unfold Rec R3
  rw [Xf_eq_wX j2 j3 m2 m3 j ha (by omega) hhi, Yf_eq_wY j2 j3 m2 m3 j ha (by omega) hhi,
    Zf_eq_wZ j2 j3 m2 m3 j ha hlo (by omega)]

/-- what the run is known to return, in the vocabulary of section (C): `F j = out[j]` -/
structure OutStructure (j2 j3 m2 m3 : ℤ) (F : ℤ → ℝ) (jm : ℤ) : Prop where
  lo : jmin j2 j3 m2 m3 ≤ jm
  hi : jm ≤ j2 + j3
  rec3 : ∀ j, jmin j2 j3 m2 m3 ≤ j → j ≤ j2 + j3 → j ≠ jm →
    R3 (wX j2 j3 m2 m3) (wY j2 j3 m2 m3) (wZ j2 j3 m2 m3) F j
  low : jm = jmin j2 j3 m2 m3 ∨ ∃ (G : ℤ → ℝ) (c : ℝ),
    (∀ j, jmin j2 j3 m2 m3 ≤ j → j < jm → R3 (wX j2 j3 m2 m3) (wY j2 j3 m2 m3) (wZ j2 j3 m2 m3) G j) ∧
    (jm = j2 + j3 ∨ G jm ≠ 0) ∧ (jmin j2 j3 m2 m3 = 0 → m2 = 0 ∧ m3 = 0 ∧ G 1 = 0) ∧
    ∀ j, jmin j2 j3 m2 m3 ≤ j → j ≤ jm → F j = c * G j

theorem outStructure_of_regular (size : Nat) (ws : Array ℝ) (j2 j3 m2 m3 : Int) (ha : Adm j2 j3 m2 m3)
    (hlt : jminOf j2 j3 m2 m3 < j2 + j3) (hs : j2 + j3 + 1 ≤ size) (hws : 4 * size ≤ ws.size)
    (hreg : Regular size ws j2 j3 m2 m3) :
    ∃ jm, OutStructure j2 j3 m2 m3 (fun j => geti (calculate size ws j2 j3 m2 m3).f j) jm := by
  have C := coef_of_adm j2 j3 m2 m3 ha hlt
  obtain ⟨f, hsz, hcalc, _, jm, h1, h2, hrec, _, hlow⟩ :=
    calculate_good2 size ws j2 j3 m2 m3 ha hlt hs hws hreg
  obtain ⟨_, _, _, ⟨c, _, hc⟩, _⟩ := finish_spec j2 j3 m2 m3 _ _ f (jminOf_nonneg _ _ _ _) hlt.le
    (by rw [hsz]; omega)
  rw [hcalc]
  refine ⟨jm, by rw [jmin_eq]; exact h1, h2, fun j hj hj' hne' => ?_, ?_⟩
  · rw [jmin_eq] at hj
    rw [← Rec_iff_R3 j2 j3 m2 m3 ha _ j hj hj']
    refine Rec_of_scaled c ?_ (hc j hj hj') ?_ (hrec j hj hj' hne')
    · by_cases hjj : j = j2 + j3
      · left; rw [hjj]; exact C.Xtop
      · right; exact hc (j + 1) (by omega) (by omega)
    · by_cases hjj : j = jminOf j2 j3 m2 m3
      · left; rw [hjj]; exact C.Z0
      · right; exact hc (j - 1) (by omega) (by omega)
  · rw [jmin_eq]
    rcases hlow with hlow | ⟨G, c', g1, g2, g3, g4⟩
    · exact Or.inl hlow
    · refine Or.inr ⟨fun i => geti G i, c * c', fun j hj hj' => ?_, g2, g3, fun j hj hj' => ?_⟩
      · rw [← Rec_iff_R3 j2 j3 m2 m3 ha _ j hj (by omega)]
        exact g1 j hj hj'
      · show geti _ j = c * c' * geti G j
        rw [hc j hj (by omega), g4 j hj hj']
        ring

/-! ### (E) the identification -/

section ident
variable {j2 j3 m2 m3 : ℤ} {W : ℤ → ℝ}

theorem IsW3jFamily.top_ne (hW : IsW3jFamily j2 j3 m2 m3 W) : W (j2 + j3) ≠ 0 := by
  intro h
  have := hW.sign
  rw [h, zero_mul] at this
  exact lt_irrefl _ this

/-- downward from `j_max`: any solution on `(lo, j_max]` is proportional to the family on `[lo, j_max]` -/
theorem IsW3jFamily.down (hW : IsW3jFamily j2 j3 m2 m3 W) {F : ℤ → ℝ} {lo : ℤ}
    (hlo : jmin j2 j3 m2 m3 ≤ lo)
    (hF : ∀ j, lo < j → j ≤ j2 + j3 → R3 (wX j2 j3 m2 m3) (wY j2 j3 m2 m3) (wZ j2 j3 m2 m3) F j) :
    ∀ j, lo ≤ j → j ≤ j2 + j3 → W (j2 + j3) * F j = F (j2 + j3) * W j := by
  intro j h1 h2
  have : W (j2 + j3) * F j - F (j2 + j3) * W j = 0 :=
    down_zero (X := wX j2 j3 m2 m3) (Y := wY j2 j3 m2 m3) (Z := wZ j2 j3 m2 m3)
    (H := fun i => W (j2 + j3) * F i - F (j2 + j3) * W i) (lo := lo) (hi := j2 + j3)
    (fun i hi hi' => R3.lin _ _ (hF i hi hi') (hW.rec3 i (by omega) hi'))
    (fun i hi hi' => wZ_ne j2 j3 m2 m3 i (by omega) hi')
    (by rw [wX_top, zero_mul]) (by ring) j h1 h2
  linarith

/-- all `m` zero and `j_min = 0`: the family vanishes at odd `j`, in particular `W 1 = 0` -/
theorem IsW3jFamily.W1 (hW : IsW3jFamily j2 j3 0 0 W) (hz : jmin j2 j3 0 0 = 0)
    (hlt : jmin j2 j3 0 0 < j2 + j3) : W 1 = 0 := by
  have hj : j2 = j3 := by
    unfold jmin at hz
    have : |j2 - j3| ≤ 0 := by rw [← hz]; exact le_max_left _ _
    have := abs_nonpos_iff.1 this
    omega
  subst hj
  rw [hz] at hlt
  have key : ∀ k : ℕ, 0 ≤ j2 + j2 - 1 - 2 * k → W (j2 + j2 - 1 - 2 * k) = 0 := by
    intro k
    induction k with
    | zero =>
      intro _
      have hr := hW.rec3 (j2 + j2) (by rw [hz]; omega) (le_refl _)
      rw [wX_top, wY_m_zero, zero_mul, zero_mul, zero_add, zero_add] at hr
      rcases mul_eq_zero.1 hr with h | h
      · exact absurd h (wZ_ne j2 j2 0 0 _ (by rw [hz]; omega) (le_refl _))
      · simpa using h
    | succ k ih =>
      intro hlo
      push_cast at hlo
      have a := ih (by omega)
      have hr := hW.rec3 (j2 + j2 - 2 * k - 2) (by rw [hz]; omega) (by omega)
      rw [wY_m_zero, zero_mul, add_zero,
        show j2 + j2 - 2 * (k : ℤ) - 2 + 1 = j2 + j2 - 1 - 2 * k by ring, a, mul_zero, zero_add] at hr
      rcases mul_eq_zero.1 hr with h | h
      · exact absurd h (wZ_ne j2 j2 0 0 _ (by rw [hz]; omega) (by omega))
      · rw [show j2 + j2 - 1 - 2 * (((k + 1 : ℕ)) : ℤ) = j2 + j2 - 2 * k - 2 - 1 by push_cast; ring]
        exact h
  have := key (j2 - 1).toNat (by omega)
  rwa [show j2 + j2 - 1 - 2 * (((j2 - 1).toNat : ℤ)) = 1 by omega] at this

/-- an upward solution `G` on `[j_min, jm)` (with `G 1 = 0` and all `m` zero when `j_min = 0`) is proportional
    to the family on `[j_min, jm]`, and `W(j_min) ≠ 0` -/
theorem IsW3jFamily.up (hW : IsW3jFamily j2 j3 m2 m3 W) (hlt : jmin j2 j3 m2 m3 < j2 + j3)
    {G : ℤ → ℝ} {jm : ℤ} (hjm : jm ≤ j2 + j3)
    (hG : ∀ j, jmin j2 j3 m2 m3 ≤ j → j < jm →
      R3 (wX j2 j3 m2 m3) (wY j2 j3 m2 m3) (wZ j2 j3 m2 m3) G j)
    (hG0 : jmin j2 j3 m2 m3 = 0 → m2 = 0 ∧ m3 = 0 ∧ G 1 = 0) :
    W (jmin j2 j3 m2 m3) ≠ 0 ∧
    ∀ j, jmin j2 j3 m2 m3 ≤ j → j ≤ jm → W (jmin j2 j3 m2 m3) * G j = G (jmin j2 j3 m2 m3) * W j := by
  by_cases hz : jmin j2 j3 m2 m3 = 0
  · obtain ⟨rfl, rfl, hG1⟩ := hG0 hz
    have hW1 := hW.W1 hz hlt
    rw [hz] at hlt hG ⊢
    refine ⟨fun h0 => ?_, fun j h1 h2 => ?_⟩
    · -- two consecutive zeros propagate upward to `j_max`
      have := up_zero (X := wX j2 j3 0 0) (Y := wY j2 j3 0 0) (Z := wZ j2 j3 0 0) (H := W) (lo := 1)
        (hi := j2 + j3) (fun i hi hi' => hW.rec3 i (by rw [hz]; omega) hi'.le)
        (fun i hi hi' => wX_ne j2 j3 0 0 i (by rw [hz]; omega) hi' (by omega))
        (by rw [show (1 : ℤ) - 1 = 0 by norm_num, h0, mul_zero]) hW1 (j2 + j3) (by omega) (le_refl _)
      exact hW.top_ne this
    · by_cases hj0 : j = 0
      · rw [hj0]; ring
      · have : W 0 * G j - G 0 * W j = 0 :=
          up_zero (X := wX j2 j3 0 0) (Y := wY j2 j3 0 0) (Z := wZ j2 j3 0 0)
          (H := fun i => W 0 * G i - G 0 * W i) (lo := 1) (hi := jm)
          (fun i hi hi' => R3.lin _ _ (hG i (by omega) hi') (hW.rec3 i (by rw [hz]; omega) (by omega)))
          (fun i hi hi' => wX_ne j2 j3 0 0 i (by rw [hz]; omega) (by omega) (by omega))
          (by simp only [show (1 : ℤ) - 1 = 0 by norm_num]; ring_nf)
          (by simp only [hG1, hW1]; ring) j (by omega) h2
        linarith
  · have h0 := jmin_nonneg j2 j3 m2 m3
    refine ⟨fun hb => ?_, fun j h1 h2 => ?_⟩
    · have := up_zero (X := wX j2 j3 m2 m3) (Y := wY j2 j3 m2 m3) (Z := wZ j2 j3 m2 m3) (H := W)
        (lo := jmin j2 j3 m2 m3) (hi := j2 + j3) (fun i hi hi' => hW.rec3 i hi hi'.le)
        (fun i hi hi' => wX_ne j2 j3 m2 m3 i hi hi' (by omega))
        (by rw [wZ_jmin, zero_mul]) hb (j2 + j3) hlt.le (le_refl _)
      exact hW.top_ne this
    · have : W (jmin j2 j3 m2 m3) * G j - G (jmin j2 j3 m2 m3) * W j = 0 :=
        up_zero (X := wX j2 j3 m2 m3) (Y := wY j2 j3 m2 m3) (Z := wZ j2 j3 m2 m3)
        (H := fun i => W (jmin j2 j3 m2 m3) * G i - G (jmin j2 j3 m2 m3) * W i)
        (lo := jmin j2 j3 m2 m3) (hi := jm)
        (fun i hi hi' => R3.lin _ _ (hG i hi hi') (hW.rec3 i hi (by omega)))
        (fun i hi hi' => wX_ne j2 j3 m2 m3 i hi (by omega) (by omega))
        (by rw [wZ_jmin, zero_mul]) (by ring) j h1 h2
      linarith

/-- proportional on the whole range + same normalisation + same sign ⟹ equal -/
theorem IsW3jFamily.eq_of_prop (hW : IsW3jFamily j2 j3 m2 m3 W) {F : ℤ → ℝ}
    (hprop : ∀ j, jmin j2 j3 m2 m3 ≤ j → j ≤ j2 + j3 → W (j2 + j3) * F j = F (j2 + j3) * W j)
    (hnorm : ∑ j ∈ Finset.Icc (jmin j2 j3 m2 m3) (j2 + j3), (2 * (j : ℝ) + 1) * F j ^ 2 = 1)
    (hsign : 0 ≤ F (j2 + j3) * (-1 : ℝ) ^ (j2 - j3 + m2 + m3)) :
    ∀ j, jmin j2 j3 m2 m3 ≤ j → j ≤ j2 + j3 → F j = W j := by
  have ht := hW.top_ne
  set β : ℝ := F (j2 + j3) / W (j2 + j3) with hβ
  have hF : ∀ j, jmin j2 j3 m2 m3 ≤ j → j ≤ j2 + j3 → F j = β * W j := by
    intro j h1 h2
    have := hprop j h1 h2
    rw [hβ]; field_simp; linarith
  have hsq : β ^ 2 = 1 := by
    have : ∑ j ∈ Finset.Icc (jmin j2 j3 m2 m3) (j2 + j3), (2 * (j : ℝ) + 1) * F j ^ 2
        = β ^ 2 * ∑ j ∈ Finset.Icc (jmin j2 j3 m2 m3) (j2 + j3), (2 * (j : ℝ) + 1) * W j ^ 2 := by
      rw [Finset.mul_sum]
      refine Finset.sum_congr rfl fun j hj => ?_
      rw [Finset.mem_Icc] at hj
      rw [hF j hj.1 hj.2]; ring
    rw [hnorm, hW.norm, mul_one] at this
    exact this.symm
  have hs0 : ((-1 : ℝ) ^ (j2 - j3 + m2 + m3)) ≠ 0 := zpow_ne_zero _ (by norm_num)
  have hβ0 : 0 ≤ β := by
    have : β = (F (j2 + j3) * (-1 : ℝ) ^ (j2 - j3 + m2 + m3)) / (W (j2 + j3) * (-1 : ℝ) ^ (j2 - j3 + m2 + m3)) := by
      rw [hβ]; field_simp
    rw [this]
    exact div_nonneg hsign hW.sign.le
  have hβ1 : β = 1 := by nlinarith
  intro j h1 h2
  rw [hF j h1 h2, hβ1, one_mul]

/-- the core: an array with the structure `OutStructure`, normalised and with the sign convention, IS the family
    on `[j_min, j_max]` -/
theorem IsW3jFamily.eq_of_structure (hW : IsW3jFamily j2 j3 m2 m3 W) (hlt : jmin j2 j3 m2 m3 < j2 + j3)
    {F : ℤ → ℝ} {jm : ℤ} (hS : OutStructure j2 j3 m2 m3 F jm)
    (hnorm : ∑ j ∈ Finset.Icc (jmin j2 j3 m2 m3) (j2 + j3), (2 * (j : ℝ) + 1) * F j ^ 2 = 1)
    (hsign : 0 ≤ F (j2 + j3) * (-1 : ℝ) ^ (j2 - j3 + m2 + m3)) :
    ∀ j, jmin j2 j3 m2 m3 ≤ j → j ≤ j2 + j3 → F j = W j := by
  refine hW.eq_of_prop ?_ hnorm hsign
  have hdown := hW.down hS.lo (fun j hj hj' => hS.rec3 j (by have := hS.lo; omega) hj' (by omega))
  rcases hS.low with hjm | ⟨G, c, g1, g2, g3, g4⟩
  · intro j h1 h2; exact hdown j (by omega) h2
  · obtain ⟨hb, hup⟩ := hW.up hlt hS.hi g1 g3
    have ht := hW.top_ne
    -- the family does not vanish at the matching point
    have hWjm : W jm ≠ 0 := by
      rcases g2 with g2 | g2
      · rw [g2]; exact ht
      · intro hz
        have := hup jm hS.lo (le_refl _)
        rw [hz, mul_zero] at this
        exact (mul_ne_zero hb g2) this
    intro j h1 h2
    by_cases hj : jm ≤ j
    · exact hdown j hj h2
    · -- below the matching point: `F = c G`, `G ∝ W`; the two factors agree at `jm`
      have e1 := hup j h1 (by omega)
      have e2 := hup jm hS.lo (le_refl _)
      have e3 := hdown jm (le_refl _) hS.hi
      have e4 := g4 j h1 (by omega)
      have e5 := g4 jm hS.lo (le_refl _)
      -- W jmax * F j = F jmax * W j
      have k1 : W (jmin j2 j3 m2 m3) * F j = c * G (jmin j2 j3 m2 m3) * W j := by
        rw [e4]; linear_combination c * e1
      have k2 : W (jmin j2 j3 m2 m3) * F jm = c * G (jmin j2 j3 m2 m3) * W jm := by
        rw [e5]; linear_combination c * e2
      -- from k2 and e3: c G(jmin) W(jmax) = F(jmax) W(jmin)
      have k3 : c * G (jmin j2 j3 m2 m3) * W (j2 + j3) = F (j2 + j3) * W (jmin j2 j3 m2 m3) := by
        have : (c * G (jmin j2 j3 m2 m3) * W (j2 + j3) - F (j2 + j3) * W (jmin j2 j3 m2 m3)) * W jm = 0 := by
          linear_combination W (jmin j2 j3 m2 m3) * e3 - W (j2 + j3) * k2
        rcases mul_eq_zero.1 this with h | h
        · linarith
        · exact absurd h hWjm
      have : W (jmin j2 j3 m2 m3) * (W (j2 + j3) * F j - F (j2 + j3) * W j) = 0 := by
        linear_combination W (j2 + j3) * k1 + W j * k3
      rcases mul_eq_zero.1 this with h | h
      · exact absurd h hb
      · linarith

end ident

/-! ### (F) the model returns the family -/

/-- more than one cell, regular run: every cell of the returned array is the family -/
theorem out_eq_family (size : Nat) (ws : Array ℝ) (j2 j3 m2 m3 : Int) (ha : Adm j2 j3 m2 m3)
    (hlt : jminOf j2 j3 m2 m3 < j2 + j3) (hs : j2 + j3 + 1 ≤ size) (hws : 4 * size ≤ ws.size)
    (hreg : Regular size ws j2 j3 m2 m3) {W : ℤ → ℝ} (hW : IsW3jFamily j2 j3 m2 m3 W) :
    ∀ j : ℤ, 0 ≤ j → geti (calculate size ws j2 j3 m2 m3).f j = W j := by
  intro j hj
  by_cases hin : jminOf j2 j3 m2 m3 ≤ j ∧ j ≤ j2 + j3
  · obtain ⟨jm, hS⟩ := outStructure_of_regular size ws j2 j3 m2 m3 ha hlt hs hws hreg
    have hn := normalized_regular size ws j2 j3 m2 m3 ha hlt hs hws hreg
    have hsg := sign_convention size ws j2 j3 m2 m3 ha hs (by omega)
    rw [← jmin_eq] at hn hlt hin
    exact hW.eq_of_structure hlt hS hn hsg j hin.1 hin.2
  · rw [zero_outside_regular size ws j2 j3 m2 m3 ha hlt hs hws hreg j hj (by omega),
      hW.zero_outside j (by rw [jmin_eq]; omega)]

/-- a single cell -/
theorem out_eq_family_single (size : Nat) (ws : Array ℝ) (j2 j3 m2 m3 : Int) (ha : Adm j2 j3 m2 m3)
    (heq : j2 + j3 = jminOf j2 j3 m2 m3) (hs : j2 + j3 + 1 ≤ size) (hws : size ≤ ws.size)
    {W : ℤ → ℝ} (hW : IsW3jFamily j2 j3 m2 m3 W) :
    ∀ j : ℤ, 0 ≤ j → geti (calculate size ws j2 j3 m2 m3).f j = W j := by
  intro j hj
  by_cases hin : j = j2 + j3
  · have hn := normalized_single size ws j2 j3 m2 m3 ha heq hs hws
    have hsg := sign_convention size ws j2 j3 m2 m3 ha hs hws
    rw [← jmin_eq] at hn heq
    exact hW.eq_of_prop (F := fun j => geti (calculate size ws j2 j3 m2 m3).f j)
      (fun i h1 h2 => by rw [show i = j2 + j3 by omega]; ring) hn hsg j (by omega) (by omega)
  · rw [(single_cell size ws j2 j3 m2 m3 ha heq hs hws).2.2 j hj hin,
      hW.zero_outside j (by rw [jmin_eq]; omega)]

/-! ### (G) uniqueness of the family, independent of the code -/

theorem IsW3jFamily.unique {j2 j3 m2 m3 : ℤ} {W W' : ℤ → ℝ} (hW : IsW3jFamily j2 j3 m2 m3 W)
    (hW' : IsW3jFamily j2 j3 m2 m3 W') : ∀ j, W j = W' j := by
  intro j
  by_cases hin : jmin j2 j3 m2 m3 ≤ j ∧ j ≤ j2 + j3
  · refine hW'.eq_of_prop (F := W) ?_ hW.norm hW.sign.le j hin.1 hin.2
    exact hW'.down (le_refl _) (fun i hi hi' => hW.rec3 i hi.le hi')
  · rw [hW.zero_outside j (by omega), hW'.zero_outside j (by omega)]

/-! ### (H) members -/

/-- the sign `(−1)^(j2−j3+m2+m3)` -/
def sgn (j2 j3 m2 m3 : ℤ) : ℝ := (-1 : ℝ) ^ (j2 - j3 + m2 + m3)

theorem sgn_sq (j2 j3 m2 m3 : ℤ) : sgn j2 j3 m2 m3 * sgn j2 j3 m2 m3 = 1 := by
  unfold sgn
  rw [← zpow_add₀ (by norm_num : (-1 : ℝ) ≠ 0), Even.neg_one_zpow ⟨_, rfl⟩]

/-- the single-cell family: `(−1)^(j2−j3+m2+m3) / √(2 j_max + 1)` at `j_max`, `0` elsewhere -/
def singleW (j2 j3 m2 m3 : ℤ) : ℤ → ℝ := fun j =>
  if j = j2 + j3 then sgn j2 j3 m2 m3 / Real.sqrt (2 * ((j2 + j3 : ℤ) : ℝ) + 1) else 0

/-- `Y(j_max) = 0` when `j_min = j_max` -/
theorem wY_single (j2 j3 m2 m3 : ℤ) (h2 : (m2.natAbs : ℤ) ≤ j2) (h3 : (m3.natAbs : ℤ) ≤ j3)
    (heq : j2 + j3 = jmin j2 j3 m2 m3) : wY j2 j3 m2 m3 (j2 + j3) = 0 := by
  rw [jmin_eq] at heq
  unfold jminOf Lemmas.W3jBounds.jminOf at heq
  have : (j3 = 0 ∧ m3 = 0) ∨ (j2 = 0 ∧ m2 = 0) ∨ (m2 = j2 ∧ m3 = j3) ∨ (m2 = -j2 ∧ m3 = -j3) := by omega
  rcases this with ⟨rfl, rfl⟩ | ⟨rfl, rfl⟩ | ⟨rfl, rfl⟩ | ⟨rfl, rfl⟩ <;> unfold wY <;> push_cast <;> ring

theorem isW3jFamily_single (j2 j3 m2 m3 : ℤ) (h2 : (m2.natAbs : ℤ) ≤ j2) (h3 : (m3.natAbs : ℤ) ≤ j3)
    (heq : j2 + j3 = jmin j2 j3 m2 m3) : IsW3jFamily j2 j3 m2 m3 (singleW j2 j3 m2 m3) := by
  have hpos : (0 : ℝ) < 2 * ((j2 + j3 : ℤ) : ℝ) + 1 := by
    have : (0 : ℝ) ≤ ((j2 + j3 : ℤ) : ℝ) := by exact_mod_cast (by omega : (0 : ℤ) ≤ j2 + j3)
    linarith
  have hr : 0 < Real.sqrt (2 * ((j2 + j3 : ℤ) : ℝ) + 1) := Real.sqrt_pos.2 hpos
  refine ⟨fun j hj => ?_, fun j h1 h2' => ?_, ?_, ?_⟩
  · unfold singleW; rw [if_neg (by omega)]
  · have hj : j = j2 + j3 := by omega
    rw [hj, wX_top, wY_single j2 j3 m2 m3 h2 h3 heq]
    conv_lhs => rw [heq, wZ_jmin]
    ring
  · rw [← heq, Finset.Icc_self, Finset.sum_singleton]
    unfold singleW
    rw [if_pos rfl, div_pow, Real.sq_sqrt hpos.le, pow_two, sgn_sq]
    field_simp
  · unfold singleW
    rw [if_pos rfl, div_mul_eq_mul_div]
    show 0 < sgn j2 j3 m2 m3 * sgn j2 j3 m2 m3 / _
    rw [sgn_sq]
    positivity

/-- `(j2, j3, m2, m3) = (1, 1, 0, 0)`: `(0 1 1; 0 0 0) = −1/√3`, `(1 1 1; 0 0 0) = 0`,
    `(2 1 1; 0 0 0) = √2/(√3 √5) = √(2/15)` -/
def W1100 : ℤ → ℝ := fun j =>
  if j = 0 then -1 / Real.sqrt 3 else if j = 2 then Real.sqrt 2 / (Real.sqrt 3 * Real.sqrt 5) else 0

theorem jmin_1100 : jmin 1 1 0 0 = 0 := by decide

theorem sqrt_sq_mul (a b : ℝ) (ha : 0 ≤ a) : Real.sqrt (a ^ 2 * b) = a * Real.sqrt b := by
  rw [Real.sqrt_mul (sq_nonneg a), Real.sqrt_sq ha]

theorem isW3jFamily_1100 : IsW3jFamily 1 1 0 0 W1100 := by
  have s2 : Real.sqrt 2 * Real.sqrt 2 = 2 := Real.mul_self_sqrt (by norm_num)
  have s3 : Real.sqrt 3 * Real.sqrt 3 = 3 := Real.mul_self_sqrt (by norm_num)
  have s5 : Real.sqrt 5 * Real.sqrt 5 = 5 := Real.mul_self_sqrt (by norm_num)
  have p2 : 0 < Real.sqrt 2 := Real.sqrt_pos.2 (by norm_num)
  have p3 : 0 < Real.sqrt 3 := Real.sqrt_pos.2 (by norm_num)
  have p5 : 0 < Real.sqrt 5 := Real.sqrt_pos.2 (by norm_num)
  have a0 : wA 1 1 0 0 0 = 0 := by have := wA_jmin 1 1 0 0; rwa [jmin_1100] at this
  have a1 : wA 1 1 0 0 1 = 2 * Real.sqrt 2 := by
    unfold wA; rw [← sqrt_sq_mul 2 2 (by norm_num)]; norm_num
  have a2 : wA 1 1 0 0 2 = 4 * Real.sqrt 5 := by
    unfold wA; rw [← sqrt_sq_mul 4 5 (by norm_num)]; norm_num
  have a3 : wA 1 1 0 0 3 = 0 := wA_top 1 1 0 0
  refine ⟨fun j hj => ?_, fun j h1 h2 => ?_, ?_, ?_⟩
  · rw [jmin_1100] at hj
    unfold W1100; rw [if_neg (by omega), if_neg (by omega)]
  · rw [jmin_1100] at h1
    have : j = 0 ∨ j = 1 ∨ j = 2 := by omega
    rcases this with rfl | rfl | rfl
    · unfold wX wY wZ; rw [a0]; simp
    · unfold wX wZ; rw [wY_m_zero]
      simp only [show (1 : ℤ) + 1 = 2 by norm_num, show (1 : ℤ) - 1 = 0 by norm_num, a1, a2]
      unfold W1100
      simp only [if_true, show (2 : ℤ) ≠ 0 by norm_num, if_false]
      field_simp
      nlinarith [s2, s3, s5]
    · unfold wX wZ; rw [wY_m_zero]
      simp only [show (2 : ℤ) + 1 = 3 by norm_num, show (2 : ℤ) - 1 = 1 by norm_num, a3]
      unfold W1100
      simp
  · rw [jmin_1100, show (1 : ℤ) + 1 = 2 by norm_num, show Finset.Icc (0 : ℤ) 2 = {0, 1, 2} by decide]
    rw [Finset.sum_insert (by decide), Finset.sum_insert (by decide), Finset.sum_singleton]
    unfold W1100
    simp only [if_true, show (1 : ℤ) ≠ 0 by norm_num, show (1 : ℤ) ≠ 2 by norm_num,
      show (2 : ℤ) ≠ 0 by norm_num, if_false]
    rw [div_pow, div_pow, mul_pow, Real.sq_sqrt (by norm_num), Real.sq_sqrt (by norm_num),
      Real.sq_sqrt (by norm_num)]
    norm_num
  · show 0 < W1100 2 * _
    unfold W1100
    simp only [show (2 : ℤ) ≠ 0 by norm_num, if_false, if_true]
    norm_num

/-- `(j2, j3, m2, m3) = (1, 1, 1, 0)` (`m1 = −1`, cells `1, 2`): `(1 1 1; −1 1 0) = −1/√6`,
    `(2 1 1; −1 1 0) = −1/√10` — a member with non-zero `m`, `Y ≠ 0` -/
def W1110 : ℤ → ℝ := fun j =>
  if j = 1 then -1 / Real.sqrt 6 else if j = 2 then -1 / Real.sqrt 10 else 0

theorem jmin_1110 : jmin 1 1 1 0 = 1 := by decide

theorem isW3jFamily_1110 : IsW3jFamily 1 1 1 0 W1110 := by
  have s6 : Real.sqrt 6 * Real.sqrt 6 = 6 := Real.mul_self_sqrt (by norm_num)
  have s10 : Real.sqrt 10 * Real.sqrt 10 = 10 := Real.mul_self_sqrt (by norm_num)
  have s15 : Real.sqrt 15 * Real.sqrt 15 = 15 := Real.mul_self_sqrt (by norm_num)
  have p6 : 0 < Real.sqrt 6 := Real.sqrt_pos.2 (by norm_num)
  have p10 : 0 < Real.sqrt 10 := Real.sqrt_pos.2 (by norm_num)
  have p15 : 0 < Real.sqrt 15 := Real.sqrt_pos.2 (by norm_num)
  have a1 : wA 1 1 1 0 1 = 0 := by have := wA_jmin 1 1 1 0; rwa [jmin_1110] at this
  have a2 : wA 1 1 1 0 2 = 2 * Real.sqrt 15 := by
    unfold wA; rw [← sqrt_sq_mul 2 15 (by norm_num)]; norm_num
  have a3 : wA 1 1 1 0 3 = 0 := wA_top 1 1 1 0
  -- √6 √10 = 2 √15
  have hk : Real.sqrt 6 * Real.sqrt 10 = 2 * Real.sqrt 15 := by
    rw [← Real.sqrt_mul (by norm_num), ← sqrt_sq_mul 2 15 (by norm_num)]; norm_num
  refine ⟨fun j hj => ?_, fun j h1 h2 => ?_, ?_, ?_⟩
  · rw [jmin_1110] at hj
    unfold W1110; rw [if_neg (by omega), if_neg (by omega)]
  · rw [jmin_1110] at h1
    have : j = 1 ∨ j = 2 := by omega
    rcases this with rfl | rfl
    · unfold wX wY wZ
      simp only [show (1 : ℤ) + 1 = 2 by norm_num, show (1 : ℤ) - 1 = 0 by norm_num, a1, a2]
      unfold W1110
      simp only [if_true, show (2 : ℤ) ≠ 1 by norm_num, show (0 : ℤ) ≠ 1 by norm_num,
        show (0 : ℤ) ≠ 2 by norm_num, if_false]
      push_cast
      field_simp
      nlinarith [s6, s10, s15, hk]
    · unfold wX wY wZ
      simp only [show (2 : ℤ) + 1 = 3 by norm_num, show (2 : ℤ) - 1 = 1 by norm_num, a2, a3]
      unfold W1110
      simp only [if_true, show (2 : ℤ) ≠ 1 by norm_num, show (3 : ℤ) ≠ 1 by norm_num,
        show (3 : ℤ) ≠ 2 by norm_num, if_false]
      push_cast
      field_simp
      nlinarith [s6, s10, s15, hk]
  · rw [jmin_1110, show (1 : ℤ) + 1 = 2 by norm_num, show Finset.Icc (1 : ℤ) 2 = {1, 2} by decide]
    rw [Finset.sum_insert (by decide), Finset.sum_singleton]
    unfold W1110
    simp only [if_true, show (2 : ℤ) ≠ 1 by norm_num, if_false]
    rw [div_pow, div_pow, Real.sq_sqrt (by norm_num), Real.sq_sqrt (by norm_num)]
    norm_num
  · show 0 < W1110 2 * _
    unfold W1110
    simp only [show (2 : ℤ) ≠ 1 by norm_num, if_false, if_true]
    norm_num
    exact div_neg_of_neg_of_pos (by norm_num) p10

end
end W3jUniq
