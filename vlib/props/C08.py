"""C08 — every value is independent of the calculator's ell_min, ell_max and m'_max.

Obligations: Props/C08.lean + HKernel (runH_size_indep: the H value at a coordinate is a function of the coordinate
and beta only, for every arithmetic, hence bit for bit).  Correspondence: H kernels bitwise for many (L,P).
Gap/search: pairs of differently sized calculators (and wrappers, explicit workspaces, larger 3-j capacity) compared
bit for bit at common (ell, m', m) / (s, ell, m), positions from each object's own index functions."""
import itertools

import numpy as np

from .. import corr, kern, helpers
from . import common


def check(run):
    import spherical
    import quaternionic
    quick = run.tier == "quick"
    run.regenerate()
    run.lean_props(common.modules_for("C08"))
    rng = run.rng
    betas = corr.expibeta_strata(rng, 2)
    run.attempt("corr:corr_H", kern.corr_H, run, [(L, P) for L in range(0, 7 if quick else 12) for P in sorted({0, 1, L // 2, max(L - 1, 0), L}) if P <= L], betas[:6] if quick else betas, [float("nan")])
    rotors = [r for r in corr.rotor_strata(rng, 3 if quick else 10) if "subnormal" not in r[0] and "1e-160" not in r[0]]
    LM = 12 if quick else 24
    cfgs = []
    for _ in range(14 if quick else 60):
        ell_max = rng.randint(0, LM)
        ell_min = rng.randint(0, ell_max)
        mp_max = rng.choice([0, 1, ell_min, min(ell_min + 1, ell_max), max(ell_max - 1, 0), ell_max, None])
        cfgs.append((ell_max, ell_min, mp_max))
    cfgs += [(LM, 0, None), (LM, 0, 2), (3, 3, 3), (5, 2, 3), (1, 1, None), (0, 0, 0)]
    objs = [(c, spherical.Wigner(c[0], c[1]) if c[2] is None else spherical.Wigner(c[0], c[1], c[2])) for c in cfgs]
    ref = spherical.Wigner(LM + 1)
    for lab, R in rotors:
        Rq = quaternionic.array(R)
        Dref = ref.D(Rq).copy()
        z = np.exp(1j * rng.uniform(0, np.pi))
        dref = ref.d(z).copy()
        Yref = {}
        for (c, w) in objs:
            inp = {"cfg": {"ell_max": c[0], "ell_min": c[1], "mp_max": c[2]}, "R": list(R)}
            if w.mp_max >= w.ell_max:
                ws = w.new_workspace() if rng.random() < 0.5 else None
                if ws is not None:
                    ws = np.concatenate([ws, np.full(rng.randint(0, 7), np.nan)])   # larger than required
                    ws[:] = rng.choice([0.0, np.nan, 1e300])
                D = w.D(Rq, workspace=ws)
                d = w.d(z, workspace=ws)
                for ell in range(w.ell_min, w.ell_max + 1):
                    n = (2 * ell + 1) ** 2
                    a, b = D[w.Dindex(ell, -ell, -ell):][:n], Dref[ref.Dindex(ell, -ell, -ell):][:n]
                    run.gap_case("D-d-cross-config", (c, R, ell), lab, {**inp, "ell": ell} if ell == w.ell_min else None)
                    if not helpers.bits_equal(a, b):
                        run.violation("value-depends-on-calculator-size", "Wigner.D", {**inp, "ell": ell, "workspace": ws is not None}, "bit-identical to Wigner(LM+1)", "differs")
                        break
                    a, b = d[w.dindex(ell, -ell, -ell):][:n], dref[ref.dindex(ell, -ell, -ell):][:n]
                    if not helpers.bits_equal(a, b):
                        run.violation("value-depends-on-calculator-size", "Wigner.d", {**inp, "ell": ell, "workspace": ws is not None}, "bit-identical to Wigner(LM+1)", "differs")
                        break
            for s in sorted({0, -1, 2, -w.mp_max, w.mp_max}):
                if abs(s) > w.mp_max:
                    continue
                if s not in Yref:
                    Yref[s] = ref.sYlm(s, Rq).copy()
                Y = w.sYlm(s, Rq)
                a = Y
                b = Yref[s][w.ell_min ** 2:(w.ell_max + 1) ** 2]
                run.gap_case("sYlm-cross-config", (c, R, s), lab)
                if not helpers.bits_equal(a, b):
                    run.violation("value-depends-on-calculator-size", "Wigner.sYlm", {**inp, "s": s}, "bit-identical to Wigner(LM+1)", "differs")
            # evaluate / rotate through differently sized calculators (Horner routes bitwise)
            s = rng.choice([0, -1, 2])
            Lm = rng.randint(abs(s), max(abs(s), min(w.ell_max, 8)))
            if abs(s) <= w.mp_max and Lm <= w.ell_max and w.ell_min <= abs(s):
                modes = helpers.make_modes(rng, s, Lm)
                a = w.evaluate(modes, Rq, horner=True)
                b = spherical.Wigner(Lm, mp_max=abs(s)).evaluate(modes, Rq, horner=True)
                am = np.asarray(w.evaluate(modes, Rq, horner=False))
                if am.shape != np.asarray(b).shape or not np.allclose(am, np.asarray(b), rtol=1e-11, atol=1e-11 * max(float(np.sum(np.abs(modes.ndarray))), 1e-300)):
                    run.violation("value-depends-on-calculator-size", "Wigner.evaluate[horner=False]", {**inp, "s": s, "ell_max_modes": Lm}, "same value (to rounding) as exactly sized calculator", f"{am} vs {np.asarray(b)}")
                run.gap_case("evaluate-cross-config", (c, R, s, Lm), lab)
                if not helpers.bits_equal(np.asarray(a), np.asarray(b)):
                    run.violation("value-depends-on-calculator-size", "Wigner.evaluate[horner=True]", {**inp, "s": s, "ell_max_modes": Lm}, "bit-identical to exactly sized calculator", "differs")
            if w.mp_max >= w.ell_max and Lm <= w.ell_max:
                # rotation is served for every calculator ell_min (below it the Horner route is used)
                modes = helpers.make_modes(rng, s, Lm)
                for horner in (True, False):
                    a = w.rotate(modes, Rq, horner=horner).ndarray
                    b = spherical.Wigner(Lm).rotate(modes, Rq, horner=True).ndarray
                    run.gap_case("rotate-cross-config", (c, R, s, Lm, horner), lab)
                    if not (helpers.bits_equal(a, b) if (horner or w.ell_min > abs(s)) else np.allclose(a, b, rtol=1e-12, atol=1e-12)):
                        run.violation("value-depends-on-calculator-size", f"Wigner.rotate[horner={horner}]", {**inp, "s": s, "ell_max_modes": Lm}, "same as exactly sized calculator", "differs")
            if abs(s) <= w.mp_max and Lm <= w.ell_max and w.ell_min <= abs(s):
                if w.mp_max >= w.ell_max:
                    a = w.rotate(modes, Rq, horner=True).ndarray
                    b = spherical.Wigner(Lm).rotate(modes, Rq, horner=True).ndarray
                    if not helpers.bits_equal(a, b):
                        run.violation("value-depends-on-calculator-size", "Wigner.rotate[horner=True]", {**inp, "s": s, "ell_max_modes": Lm}, "bit-identical to exactly sized calculator", "differs")
        # wrappers
        for (emin, emax) in [(0, 3), (2, 6)]:
            a = spherical.wigner_D(Rq, emin, emax)
            n0 = ref.Dindex(emin, -emin, -emin)
            if not helpers.bits_equal(a, Dref[n0:n0 + a.size]):
                run.violation("value-depends-on-calculator-size", "wigner_D", {"ell_min": emin, "ell_max": emax, "R": list(R)}, "bit-identical", "differs")
    # 3-j capacity
    for _ in range(60 if quick else 400):
        j2, j3 = rng.randint(0, 9), rng.randint(0, 9)
        m2, m3 = rng.randint(-j2, j2), rng.randint(-j3, j3)
        a = spherical.Wigner3jCalculator(j2, j3).calculate(j2, j3, m2, m3).copy()
        b = spherical.Wigner3jCalculator(j2 + rng.randint(0, 5), j3 + rng.randint(0, 5)).calculate(j2, j3, m2, m3).copy()
        run.gap_case("w3j-capacity", (j2, j3, m2, m3), "w3j")
        if not helpers.bits_equal(a, b[:a.size]) or np.any(b[a.size:] != 0):
            run.violation("value-depends-on-calculator-size", "Wigner3jCalculator.calculate", {"j2": j2, "j3": j3, "m2": m2, "m3": m3}, "same values, zeros beyond", "differs")
    run.assumptions += ["matrix (BLAS) routes are compared in C03/C04 to rounding only; here only bitwise-deterministic routes"]


def replay(body):
    print(body["input"], body["expected"], body["got"])
    return 0
