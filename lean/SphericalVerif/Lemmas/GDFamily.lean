import SphericalVerif.Spec.GDFamily
import SphericalVerif.Lemmas.Finite
import SphericalVerif.Model.Assemble
import SphericalVerif.Lemmas.Object
import Mathlib.Tactic.Ring
import Mathlib.Tactic.Linarith
import Mathlib.Tactic.FieldSimp
import Mathlib.Tactic.LinearCombination
/-! Helper lemmas for `Props/GDFamily.lean`: the coordinate recursion `Spec.valW` / `Spec.valV` at ℝ equals ANY
    family satisfying the Gumerov–Duraiswami relations `GDFamily.IsGDFamily`; and the extension `valExt` of `valW`
    by the symmetries is such a family. -/
namespace GDFamily
noncomputable section
open Model Spec
set_option linter.unusedSimpArgs false
set_option linter.unusedVariables false

/-! ### (A) the closed-form coefficients are the model's tables at ℝ -/

theorem aC_eq (n m : ℤ) : (aC n m : ℝ) = gdA n m := rfl

theorem bC_eq (n m : ℤ) : (bC n m : ℝ) = gdB n m := by
  unfold bC gdB sgn
  simp only [RealScalar.mul_def, RealScalar.div_def, RealScalar.sqrt_def, RealScalar.ofInt_def]
  split
  · push_cast; ring
  · ring

theorem dC_eq (n m : ℤ) : (dC n m : ℝ) = gdD n m := by
  unfold dC gdD sgn
  simp only [RealScalar.mul_def, RealScalar.div_def, RealScalar.sqrt_def, RealScalar.ofInt_def, RealScalar.half_def]
  split
  · push_cast; ring
  · ring

/-- the divisors of steps 4 and 5 -/
theorem gdD_ne (n k : ℤ) (h1 : -n ≤ k) (h2 : k < n) : gdD n k ≠ 0 := by
  rw [← dC_eq]; exact Finite.dC_ne n k h1 h2

/-- the divisor of step 3 -/
theorem gdB_ne (n : ℤ) (hn : 1 ≤ n) : gdB (n + 1) 0 ≠ 0 := by
  rw [← bC_eq]; exact Finite.bC_ne n hn

/-- d^n_n = 0: the coefficient of the out-of-domain term of (50) at m = n -/
theorem gdD_top (n : ℤ) : gdD n n = 0 := by
  rw [← dC_eq]; exact Finite.dC_eq_zero n n (by rw [sub_self, zero_mul])

/-- d^{−n−1}_n = 0: the coefficient of the out-of-domain terms of (50) at m' = −n and at m = −n -/
theorem gdD_bot (n : ℤ) : gdD n (-n - 1) = 0 := by
  rw [← dC_eq]; exact Finite.dC_eq_zero n (-n - 1) (by rw [show n + (-n - 1) + 1 = 0 by ring, mul_zero])

/-- d^{−k−1}_n = −d^k_n, every k -/
theorem gdD_neg' (n k : ℤ) : gdD n (-k - 1) = -gdD n k := by
  unfold gdD sgn
  have : (n - (-k - 1)) * (n + (-k - 1) + 1) = (n - k) * (n + k + 1) := by ring
  rw [this]
  by_cases hk : 0 ≤ k
  · rw [if_pos (by omega), if_neg (by omega)]; ring
  · rw [if_neg (by omega), if_pos (by omega)]; ring

/-- d^{−k−1}_n = −d^k_n for k ≥ 0 -/
theorem gdD_neg (n k : ℤ) (hk : 0 ≤ k) : gdD n (-k - 1) = -gdD n k := gdD_neg' n k

theorem H_congr (H : ℕ → ℤ → ℤ → ℝ) (n : ℕ) {a a' b b' : ℤ} (ha : a = a') (hb : b = b') :
    H n a b = H n a' b' := by subst ha hb; rfl

/-! ### (B) the formula functions of steps 3, 4, 5 at ℝ, multiplied through by their divisor

    Index arguments of the coefficients are free integers tied to the natural-number arguments of the formula
    functions by equations, so that callers can supply them in whatever form they have. -/

theorem f3_mul (c s : ℝ) (n i : ℕ) (x2 x0 x1 : ℝ) (N m mm mp : ℤ)
    (hN : N = n) (hm : m = i + 1) (hmm : mm = i) (hmp : mp = -i - 2) (hb : gdB (N + 1) 0 ≠ 0) :
    gdB (N + 1) 0 * f3 c s n i x2 x0 x1 =
      gdB (N + 1) mp * (1 - c) / 2 * x2 - gdB (N + 1) mm * (1 + c) / 2 * x0 - gdA N m * s * x1 := by
  subst hN hm hmm hmp
  unfold f3
  simp only [RealScalar.mul_def, RealScalar.div_def, RealScalar.sub_def, RealScalar.add_def,
    RealScalar.one_def, RealScalar.half_def, bC_eq, aC_eq]
  field_simp

theorem f4mid_mul (n mp i : ℕ) (x y z : ℝ) (N a am bm b : ℤ) (hN : N = n)
    (ha : a = mp) (ham : am = mp - 1) (hbm : bm = mp - 1 + i) (hb : b = mp + i) (hd : gdD N a ≠ 0) :
    gdD N a * f4mid n mp i x y z = gdD N am * x - gdD N bm * y + gdD N b * z := by
  subst hN ha ham hbm hb
  unfold f4mid
  simp only [RealScalar.mul_def, RealScalar.div_def, RealScalar.sub_def, RealScalar.add_def,
    RealScalar.one_def, dC_eq]
  field_simp

theorem f4top_mul (n mp : ℕ) (x y : ℝ) (N a am bm : ℤ) (hN : N = n)
    (ha : a = mp) (ham : am = mp - 1) (hbm : bm = n - 1) (hd : gdD N a ≠ 0) :
    gdD N a * f4top n mp x y = gdD N am * x - gdD N bm * y := by
  subst hN ha ham hbm
  unfold f4top
  simp only [RealScalar.mul_def, RealScalar.div_def, RealScalar.sub_def, RealScalar.add_def,
    RealScalar.one_def, dC_eq]
  field_simp

theorem f4v_mul (n mp : ℕ) (x v z : ℝ) (N a am : ℤ) (hN : N = n)
    (ha : a = mp) (ham : am = mp - 1) (hd : gdD N a ≠ 0) :
    gdD N a * f4v n mp x v z = gdD N am * x - gdD N am * v + gdD N a * z := by
  subst hN ha ham
  unfold f4v
  simp only [RealScalar.mul_def, RealScalar.div_def, RealScalar.sub_def, RealScalar.add_def,
    RealScalar.one_def, dC_eq]
  field_simp

theorem f5mid_mul (n q i : ℕ) (x y z : ℝ) (N a am bm b : ℤ) (hN : N = n)
    (ha : a = -q) (ham : am = -q - 1) (hbm : bm = q - 1 + i) (hb : b = q + i) (hd : gdD N am ≠ 0) :
    gdD N am * f5mid n q i x y z = gdD N a * x + gdD N bm * y - gdD N b * z := by
  subst hN ha ham hbm hb
  unfold f5mid
  simp only [RealScalar.mul_def, RealScalar.div_def, RealScalar.sub_def, RealScalar.add_def,
    RealScalar.one_def, dC_eq, neg_neg]
  field_simp

theorem f5top_mul (n q : ℕ) (x y : ℝ) (N a am bm : ℤ) (hN : N = n)
    (ha : a = -q) (ham : am = -q - 1) (hbm : bm = n - 1) (hd : gdD N am ≠ 0) :
    gdD N am * f5top n q x y = gdD N a * x + gdD N bm * y := by
  subst hN ha ham hbm
  unfold f5top
  simp only [RealScalar.mul_def, RealScalar.div_def, RealScalar.sub_def, RealScalar.add_def,
    RealScalar.one_def, dC_eq, neg_neg]
  field_simp

theorem f5v_mul (n q : ℕ) (x v z : ℝ) (N a am bm b : ℤ) (hN : N = n)
    (ha : a = -q) (ham : am = -q - 1) (hbm : bm = q - 1) (hb : b = q) (hd : gdD N am ≠ 0) :
    gdD N am * f5v n q x v z = gdD N a * x + gdD N bm * v - gdD N b * z := by
  subst hN ha ham hbm hb
  unfold f5v
  simp only [RealScalar.mul_def, RealScalar.div_def, RealScalar.sub_def, RealScalar.add_def,
    RealScalar.one_def, dC_eq, neg_neg]
  field_simp

/-! ### (C) `valW`, `valV` equal any Gumerov–Duraiswami family -/

section
variable {c s : ℝ} {H : ℕ → ℤ → ℤ → ℝ}

/-- relation (50) with every index supplied in the caller's form -/
theorem rel50_at (hH : IsGDFamily c s H) (n : ℕ) (a ap am b bp bm : ℤ)
    (h1 : a.natAbs < n) (h2 : (a.natAbs : ℤ) ≤ b) (h3 : b ≤ n)
    (hap : ap = a + 1) (ham : am = a - 1) (hbp : bp = b + 1) (hbm : bm = b - 1) :
    gdD n a * H n ap b = gdD n am * H n am b - gdD n bm * H n a bm + gdD n b * H n a bp := by
  subst hap ham hbp hbm
  exact hH.rel50 n a b h1 h2 h3

/-- relation (50) at m = n: the out-of-domain term is absent -/
theorem rel50_top (hH : IsGDFamily c s H) (n : ℕ) (a ap am bm : ℤ)
    (h1 : a.natAbs < n) (hap : ap = a + 1) (ham : am = a - 1) (hbm : bm = n - 1) :
    gdD n a * H n ap n = gdD n am * H n am n - gdD n bm * H n a bm := by
  have r := rel50_at hH n a ap am n (n + 1) bm h1 (by omega) le_rfl hap ham rfl hbm
  rw [gdD_top, zero_mul, add_zero] at r
  exact r

/-- relation (41) with every index supplied in the caller's form -/
theorem rel41_at (hH : IsGDFamily c s H) (n : ℕ) (m mm mp : ℤ) (h1 : 1 ≤ m) (h2 : m ≤ n)
    (hmm : mm = m - 1) (hmp : mp = m + 1) (mq : ℤ) (hmq : mq = -m - 1) :
    gdB (n + 1) 0 * H n 1 m =
      gdB (n + 1) mq * (1 - c) / 2 * H (n + 1) 0 mp - gdB (n + 1) mm * (1 + c) / 2 * H (n + 1) 0 mm
        - gdA n m * s * H (n + 1) 0 m := by
  subst hmm hmp hmq
  exact hH.rel41 n m h1 h2

/-- the columns m' ≥ 0: H(n, k, m) for 0 ≤ k ≤ m ≤ n.  Uses (0), (41) and the instances 1 ≤ m' < m of (50). -/
theorem valPos_eq (hH : IsGDFamily c s H) : ∀ k n m : ℕ, k ≤ m → m ≤ n →
    valPos c s k n m = H n k m
  | 0, n, m, _, h => by
    rw [valPos, ← hH.col0 n m h]; rfl
  | 1, n, 0, h, _ => by omega
  | 1, n, i+1, _, h => by
    rw [valPos, ← hH.col0 (n+1) (i+2) (by omega), ← hH.col0 (n+1) i (by omega),
      ← hH.col0 (n+1) (i+1) (by omega)]
    have hb : gdB ((n : ℤ) + 1) 0 ≠ 0 := gdB_ne n (by omega)
    apply mul_left_cancel₀ hb
    rw [f3_mul c s n i _ _ _ n ((i+1 : ℕ) : ℤ) (i : ℤ) (-(i:ℤ) - 2) rfl (by omega) rfl rfl hb]
    exact (rel41_at hH n ((i+1 : ℕ) : ℤ) (i : ℤ) ((i+2 : ℕ) : ℤ) (by omega) (by omega) (by omega) (by omega)
      (-(i:ℤ) - 2) (by omega)).symm
  | k+2, n, m, h1, h2 => by
    have hd : gdD (n : ℤ) ((k+1 : ℕ) : ℤ) ≠ 0 := gdD_ne _ _ (by omega) (by omega)
    rw [valPos]
    apply mul_left_cancel₀ hd
    split
    · rw [valPos_eq hH k n m (by omega) (by omega), valPos_eq hH (k+1) n (m-1) (by omega) (by omega),
        valPos_eq hH (k+1) n (m+1) (by omega) (by omega)]
      rw [f4mid_mul n (k+1) (m-(k+1)) _ _ _ n ((k+1 : ℕ) : ℤ) (k : ℤ) ((m-1 : ℕ) : ℤ) (m : ℤ) rfl rfl
        (by omega) (by omega) (by omega) hd]
      exact (rel50_at hH n ((k+1 : ℕ) : ℤ) ((k+2 : ℕ) : ℤ) (k : ℤ) (m : ℤ) ((m+1 : ℕ) : ℤ) ((m-1 : ℕ) : ℤ)
        (by omega) (by omega) (by omega) (by omega) (by omega) (by omega) (by omega)).symm
    · have hmn : m = n := by omega
      subst hmn
      rw [valPos_eq hH k m m (by omega) (by omega), valPos_eq hH (k+1) m (m-1) (by omega) (by omega)]
      rw [f4top_mul m (k+1) _ _ m ((k+1 : ℕ) : ℤ) (k : ℤ) ((m-1 : ℕ) : ℤ) rfl rfl (by omega) (by omega) hd]
      exact (rel50_top hH m ((k+1 : ℕ) : ℤ) ((k+2 : ℕ) : ℤ) (k : ℤ) ((m-1 : ℕ) : ℤ)
        (by omega) (by omega) (by omega) (by omega)).symm

/-- the columns m' ≤ 0: H(n, −q, m) for 0 ≤ q ≤ m ≤ n.  Uses the instances −m < m' ≤ 0 of (50). -/
theorem valNeg_eq (hH : IsGDFamily c s H) : ∀ q n m : ℕ, q ≤ m → m ≤ n →
    valNeg c s q n m = H n (-(q : ℤ)) m
  | 0, n, m, _, h => by
    rw [valNeg, ← hH.col0 n m h]; rfl
  | 1, n, m, h1, h2 => by
    have hd : gdD (n : ℤ) (-((1 : ℕ) : ℤ)) ≠ 0 := gdD_ne _ _ (by omega) (by omega)
    rw [valNeg]
    apply mul_left_cancel₀ hd
    split
    · rw [valPos_eq hH 1 n m h1 h2, ← hH.col0 n (m-1) (by omega), ← hH.col0 n (m+1) (by omega)]
      rw [f5mid_mul n 0 m _ _ _ n 0 (-((1 : ℕ) : ℤ)) ((m-1 : ℕ) : ℤ) (m : ℤ) rfl (by omega) (by omega)
        (by omega) (by omega) hd]
      have r := rel50_at hH n 0 ((1 : ℕ) : ℤ) (-((1 : ℕ) : ℤ)) (m : ℤ) ((m+1 : ℕ) : ℤ) ((m-1 : ℕ) : ℤ)
        (by omega) (by omega) (by omega) (by omega) (by omega) (by omega) (by omega)
      linarith
    · have hmn : m = n := by omega
      subst hmn
      rw [valPos_eq hH 1 m m h1 h2, ← hH.col0 m (m-1) (by omega)]
      rw [f5top_mul m 0 _ _ m 0 (-((1 : ℕ) : ℤ)) ((m-1 : ℕ) : ℤ) rfl (by omega) (by omega) (by omega) hd]
      have r := rel50_top hH m 0 ((1 : ℕ) : ℤ) (-((1 : ℕ) : ℤ)) ((m-1 : ℕ) : ℤ)
        (by omega) (by omega) (by omega) (by omega)
      linarith
  | q+2, n, m, h1, h2 => by
    have hd : gdD (n : ℤ) (-((q+2 : ℕ) : ℤ)) ≠ 0 := gdD_ne _ _ (by omega) (by omega)
    rw [valNeg]
    apply mul_left_cancel₀ hd
    split
    · rw [valNeg_eq hH q n m (by omega) (by omega), valNeg_eq hH (q+1) n (m-1) (by omega) (by omega),
        valNeg_eq hH (q+1) n (m+1) (by omega) (by omega)]
      rw [f5mid_mul n (q+1) (m-(q+1)) _ _ _ n (-((q+1 : ℕ) : ℤ)) (-((q+2 : ℕ) : ℤ)) ((m-1 : ℕ) : ℤ) (m : ℤ)
        rfl rfl (by omega) (by omega) (by omega) hd]
      have r := rel50_at hH n (-((q+1 : ℕ) : ℤ)) (-(q : ℤ)) (-((q+2 : ℕ) : ℤ)) (m : ℤ) ((m+1 : ℕ) : ℤ)
        ((m-1 : ℕ) : ℤ) (by omega) (by omega) (by omega) (by omega) (by omega) (by omega) (by omega)
      linarith
    · have hmn : m = n := by omega
      subst hmn
      rw [valNeg_eq hH q m m (by omega) (by omega), valNeg_eq hH (q+1) m (m-1) (by omega) (by omega)]
      rw [f5top_mul m (q+1) _ _ m (-((q+1 : ℕ) : ℤ)) (-((q+2 : ℕ) : ℤ)) ((m-1 : ℕ) : ℤ)
        rfl rfl (by omega) (by omega) hd]
      have r := rel50_top hH m (-((q+1 : ℕ) : ℤ)) (-(q : ℤ)) (-((q+2 : ℕ) : ℤ)) ((m-1 : ℕ) : ℤ)
        (by omega) (by omega) (by omega) (by omega)
      linarith

/-- (T-GD) the wedge: `valW` equals any Gumerov–Duraiswami family.  No relation between `c` and `s` is used,
    and neither is (S). -/
theorem valW_eq (hH : IsGDFamily c s H) (n : ℕ) (mp : ℤ) (m : ℕ) (h1 : mp.natAbs ≤ m) (h2 : m ≤ n) :
    valW c s n mp m = H n mp m := by
  obtain ⟨k, rfl | rfl⟩ := Int.eq_nat_or_neg mp
  · rw [Int.natAbs_natCast] at h1
    unfold valW
    rw [if_pos (by omega), Int.toNat_natCast]
    exact valPos_eq hH k n m h1 h2
  · rw [Int.natAbs_neg, Int.natAbs_natCast] at h1
    by_cases hk : k = 0
    · subst hk
      unfold valW
      rw [if_pos (by omega)]
      exact valPos_eq hH 0 n m (by omega) h2
    · unfold valW
      rw [if_neg (by omega), Int.natAbs_neg, Int.natAbs_natCast]
      exact valNeg_eq hH k n m h1 h2

/-- the scratch cells `hv n k`, k ≥ 1: the sub-diagonal cell H(n, k, k−1).  Uses the diagonal instances m = m' of (50)
    and the symmetry H(n,0,1) = H(n,1,0). -/
theorem valVPos_eq (hH : IsGDFamily c s H) (n : ℕ) : ∀ k : ℕ, 1 ≤ k → k ≤ n →
    valVPos c s n k = H n k ((k : ℤ) - 1)
  | 0, h, _ => by omega
  | 1, _, h => by
    rw [valVPos, ← hH.col0 n 1 h, hH.symm_swap n 0 ((1 : ℕ) : ℤ) (by omega) (by omega)]
    exact H_congr H n rfl (by omega)
  | k+2, _, h => by
    have hd : gdD (n : ℤ) ((k+1 : ℕ) : ℤ) ≠ 0 := gdD_ne _ _ (by omega) (by omega)
    have iv : valVPos c s n (k+1) = H n ((k+1 : ℕ) : ℤ) (k : ℤ) := by
      rw [valVPos_eq hH n (k+1) (by omega) (by omega)]; exact H_congr H n rfl (by omega)
    rw [valVPos, valPos_eq hH k n (k+1) (by omega) (by omega), iv,
      valPos_eq hH (k+1) n (k+2) (by omega) (by omega),
      H_congr H n rfl (show ((k+2 : ℕ) : ℤ) - 1 = ((k+1 : ℕ) : ℤ) by omega)]
    apply mul_left_cancel₀ hd
    rw [f4v_mul n (k+1) _ _ _ n ((k+1 : ℕ) : ℤ) (k : ℤ) rfl rfl (by omega) hd]
    exact (rel50_at hH n ((k+1 : ℕ) : ℤ) ((k+2 : ℕ) : ℤ) (k : ℤ) ((k+1 : ℕ) : ℤ) ((k+2 : ℕ) : ℤ) (k : ℤ)
      (by omega) (by omega) (by omega) (by omega) (by omega) (by omega) (by omega)).symm

/-- the scratch cells `hv n (−q)`, q ≥ 1: the cell H(n, −q, q−1).  Uses the anti-diagonal instances m = −m' of (50)
    and both symmetries (at q = 1). -/
theorem valVNeg_eq (hH : IsGDFamily c s H) (n : ℕ) : ∀ q : ℕ, 1 ≤ q → q ≤ n →
    valVNeg c s n q = H n (-(q : ℤ)) ((q : ℤ) - 1)
  | 0, h, _ => by omega
  | 1, _, h => by
    have hd : gdD (n : ℤ) (-((1 : ℕ) : ℤ)) ≠ 0 := gdD_ne _ _ (by omega) (by omega)
    have e10 : H n ((1 : ℕ) : ℤ) 0 = H n 0 ((1 : ℕ) : ℤ) := hH.symm_swap n _ _ (by omega) (by omega)
    have e0m : H n 0 (-((1 : ℕ) : ℤ)) = H n 0 ((1 : ℕ) : ℤ) := by
      rw [hH.symm_neg n 0 (-((1 : ℕ) : ℤ)) (by omega) (by omega)]
      exact H_congr H n (by omega) (by omega)
    rw [valVNeg, ← hH.col0 n 1 h, H_congr H n rfl (show ((1 : ℕ) : ℤ) - 1 = 0 by omega)]
    apply mul_left_cancel₀ hd
    rw [f5v_mul n 0 _ _ _ n 0 (-((1 : ℕ) : ℤ)) (-((1 : ℕ) : ℤ)) 0 rfl (by omega) (by omega) (by omega)
      (by omega) hd]
    have r := rel50_at hH n 0 ((1 : ℕ) : ℤ) (-((1 : ℕ) : ℤ)) 0 ((1 : ℕ) : ℤ) (-((1 : ℕ) : ℤ))
      (by omega) (by omega) (by omega) (by omega) (by omega) (by omega) (by omega)
    rw [e10, e0m] at r
    linarith
  | q+2, _, h => by
    have hd : gdD (n : ℤ) (-((q+2 : ℕ) : ℤ)) ≠ 0 := gdD_ne _ _ (by omega) (by omega)
    have iv : valVNeg c s n (q+1) = H n (-((q+1 : ℕ) : ℤ)) (q : ℤ) := by
      rw [valVNeg_eq hH n (q+1) (by omega) (by omega)]; exact H_congr H n rfl (by omega)
    rw [valVNeg, valNeg_eq hH q n (q+1) (by omega) (by omega), iv,
      valNeg_eq hH (q+1) n (q+2) (by omega) (by omega),
      H_congr H n rfl (show ((q+2 : ℕ) : ℤ) - 1 = ((q+1 : ℕ) : ℤ) by omega)]
    apply mul_left_cancel₀ hd
    rw [f5v_mul n (q+1) _ _ _ n (-((q+1 : ℕ) : ℤ)) (-((q+2 : ℕ) : ℤ)) (q : ℤ) ((q+1 : ℕ) : ℤ) rfl rfl
      (by omega) (by omega) (by omega) hd]
    have r := rel50_at hH n (-((q+1 : ℕ) : ℤ)) (-(q : ℤ)) (-((q+2 : ℕ) : ℤ)) ((q+1 : ℕ) : ℤ) ((q+2 : ℕ) : ℤ)
      (q : ℤ) (by omega) (by omega) (by omega) (by omega) (by omega) (by omega) (by omega)
    linarith

/-- the scratch cells: `valV n k` = H(n, k, hvCol k) for n ≥ 1, |k| ≤ n -/
theorem valV_eq (hH : IsGDFamily c s H) (n : ℕ) (hn : 1 ≤ n) (k : ℤ) (hk : k.natAbs ≤ n) :
    valV c s n k = H n k (hvCol k) := by
  obtain ⟨j, rfl | rfl⟩ := Int.eq_nat_or_neg k
  · rw [Int.natAbs_natCast] at hk
    unfold valV hvCol
    rw [if_pos (by omega), if_pos (by omega), Int.toNat_natCast]
    by_cases hj : j = 0
    · subst hj
      rw [valVPos, ← hH.col0 n 1 hn, hH.symm_neg n _ _ (by omega) (by omega)]
      exact H_congr H n (by omega) (by omega)
    · exact valVPos_eq hH n j (by omega) hk
  · rw [Int.natAbs_neg, Int.natAbs_natCast] at hk
    by_cases hj : j = 0
    · subst hj
      unfold valV hvCol
      rw [if_pos (by omega), if_pos (by omega)]
      show valVPos c s n 0 = _
      rw [valVPos, ← hH.col0 n 1 hn, hH.symm_neg n _ _ (by omega) (by omega)]
      exact H_congr H n (by omega) (by omega)
    · unfold valV hvCol
      rw [if_neg (by omega), if_neg (by omega), Int.natAbs_neg, Int.natAbs_natCast,
        valVNeg_eq hH n j (by omega) hk]
      exact H_congr H n rfl (by omega)

/-- on the diagonal m = m' ≥ 1 relation (50) is a consequence of the symmetry H^{m',m} = H^{m,m'} -/
theorem rel50_diag_pos (hsw : ∀ (n : ℕ) (mp m : ℤ), mp.natAbs ≤ n → m.natAbs ≤ n → H n mp m = H n m mp)
    (n : ℕ) (k : ℤ) (h1 : 1 ≤ k) (h2 : k < n) :
    gdD n k * H n (k + 1) k = gdD n (k - 1) * H n (k - 1) k - gdD n (k - 1) * H n k (k - 1) + gdD n k * H n k (k + 1) := by
  rw [hsw n (k + 1) k (by omega) (by omega), hsw n (k - 1) k (by omega) (by omega)]
  ring

/-- on the anti-diagonal m = −m' ≥ 0 relation (50) is a consequence of the two symmetries and d^{−k−1}_n = −d^k_n -/
theorem rel50_diag_neg (hsw : ∀ (n : ℕ) (mp m : ℤ), mp.natAbs ≤ n → m.natAbs ≤ n → H n mp m = H n m mp)
    (hng : ∀ (n : ℕ) (mp m : ℤ), mp.natAbs ≤ n → m.natAbs ≤ n → H n mp m = H n (-mp) (-m))
    (n : ℕ) (q : ℤ) (h1 : 0 ≤ q) (h2 : q < n) :
    gdD n (-q) * H n (-q + 1) q =
      gdD n (-q - 1) * H n (-q - 1) q - gdD n (q - 1) * H n (-q) (q - 1) + gdD n q * H n (-q) (q + 1) := by
  by_cases hq : q = 0
  · subst hq
    simp only [neg_zero, zero_add, zero_sub]
    rw [hsw n 1 0 (by omega) (by omega), hsw n (-1) 0 (by omega) (by omega)]
    ring
  · have eA : H n (-q - 1) q = H n (-q) (q + 1) := by
      rw [hsw n (-q - 1) q (by omega) (by omega), hng n q (-q - 1) (by omega) (by omega)]
      exact H_congr H n rfl (by omega)
    have eB : H n (-q) (q - 1) = H n (-q + 1) q := by
      rw [hsw n (-q) (q - 1) (by omega) (by omega), hng n (q - 1) (-q) (by omega) (by omega)]
      exact H_congr H n (by omega) (by omega)
    have : gdD n (-q) = -gdD n (q - 1) := by
      rw [← gdD_neg n (q - 1) (by omega)]; congr 1; ring
    rw [eA, eB, gdD_neg n q h1, this]; ring

/-! ### (D) the relations are consistent: the extension of `valW` by the symmetries satisfies them -/

theorem wedgeRep_swap (mp m : ℤ) : wedgeRep m mp = wedgeRep mp m := by
  unfold wedgeRep
  split_ifs <;> simp only [Prod.mk.injEq] <;> omega

theorem wedgeRep_neg (mp m : ℤ) : wedgeRep (-mp) (-m) = wedgeRep mp m := by
  unfold wedgeRep
  split_ifs <;> simp only [Prod.mk.injEq] <;> omega

theorem wedgeRep_wedge (mp m : ℤ) (h : (mp.natAbs : ℤ) ≤ m) : wedgeRep mp m = (mp, m) := by
  unfold wedgeRep
  rw [if_neg (by omega), if_neg (by omega)]

theorem valExt_pos (c s : ℝ) (n : ℕ) (a b : ℤ) (k M : ℕ) (ha : a = k) (hb : b = M) (h : k ≤ M) :
    valExt c s n a b = valPos c s k n M := by
  subst ha hb
  unfold valExt
  rw [wedgeRep_wedge _ _ (by omega)]
  unfold valW
  simp only [Int.toNat_natCast]
  rw [if_pos (by omega)]

theorem valNeg_zero (c s : ℝ) (n M : ℕ) : valNeg c s 0 n M = valPos c s 0 n M := by
  rw [valNeg, valPos]

theorem valExt_neg (c s : ℝ) (n : ℕ) (a b : ℤ) (q M : ℕ) (ha : a = -(q : ℤ)) (hb : b = M) (h : q ≤ M) :
    valExt c s n a b = valNeg c s q n M := by
  subst ha hb
  unfold valExt
  rw [wedgeRep_wedge _ _ (by omega)]
  unfold valW
  simp only [Int.toNat_natCast]
  by_cases hq : q = 0
  · subst hq
    rw [if_pos (by omega), valNeg_zero]; rfl
  · rw [if_neg (by omega), Int.natAbs_neg, Int.natAbs_natCast]

theorem valExt_col0 (c s : ℝ) (n : ℕ) (b : ℤ) (M : ℕ) (hb : b = M) : valExt c s n 0 b = col0 c s n M := by
  rw [valExt_pos c s n 0 b 0 M rfl hb (by omega), valPos]

/-- (N) non-vacuity and consistency: `valExt`, the recursion's own output extended by the symmetries, is a
    Gumerov–Duraiswami family, for EVERY real c, s.  The hypothesis of `valW_eq` is therefore exactly
    "H is the fixed point of the recursion": by `valW_eq` any family satisfying it coincides with `valExt`. -/
theorem isGDFamily_valExt (c s : ℝ) : IsGDFamily c s (valExt c s) where
  symm_swap n mp m _ _ := by unfold valExt; rw [wedgeRep_swap]
  symm_neg n mp m _ _ := by unfold valExt; rw [wedgeRep_neg]
  col0 n m _ := valExt_col0 c s n m m rfl
  rel41 n m h1 h2 := by
    obtain ⟨i, hi⟩ : ∃ i : ℕ, m = ((i + 1 : ℕ) : ℤ) := ⟨(m - 1).toNat, by omega⟩
    have hb : gdB ((n : ℤ) + 1) 0 ≠ 0 := gdB_ne n (by omega)
    rw [valExt_pos c s n 1 m 1 (i+1) rfl hi (by omega), valExt_col0 c s (n+1) (m+1) (i+2) (by omega),
      valExt_col0 c s (n+1) (m-1) i (by omega), valExt_col0 c s (n+1) m (i+1) (by omega), valPos]
    exact f3_mul c s n i _ _ _ n m (m - 1) (-m - 1) rfl (by omega) (by omega) (by omega) hb
  rel50 n mp m h1 h2 h3 := by
    unfold Rel50
    obtain ⟨M, hM⟩ : ∃ M : ℕ, m = (M : ℤ) := ⟨m.toNat, by omega⟩
    by_cases hdiag : m = (mp.natAbs : ℤ)
    · -- the scratch-cell instances: consequences of the symmetries
      have hsw : ∀ (n : ℕ) (mp m : ℤ), mp.natAbs ≤ n → m.natAbs ≤ n → valExt c s n mp m = valExt c s n m mp :=
        fun n mp m _ _ => by unfold valExt; rw [wedgeRep_swap]
      have hng : ∀ (n : ℕ) (mp m : ℤ), mp.natAbs ≤ n → m.natAbs ≤ n →
          valExt c s n mp m = valExt c s n (-mp) (-m) :=
        fun n mp m _ _ => by unfold valExt; rw [wedgeRep_neg]
      by_cases hp : 1 ≤ mp
      · have : m = mp := by omega
        subst this
        exact rel50_diag_pos hsw n m hp (by omega)
      · have : mp = -m := by omega
        subst this
        exact rel50_diag_neg hsw hng n m (by omega) (by omega)
    · by_cases hp : 1 ≤ mp
      · -- step 4
        obtain ⟨j, hj⟩ : ∃ j : ℕ, mp = ((j + 1 : ℕ) : ℤ) := ⟨(mp - 1).toNat, by omega⟩
        have hd : gdD (n : ℤ) mp ≠ 0 := gdD_ne _ _ (by omega) (by omega)
        have e : valPos c s (j+2) n M =
            if M < n then f4mid n (j+1) (M-(j+1)) (valPos c s j n M) (valPos c s (j+1) n (M-1)) (valPos c s (j+1) n (M+1))
            else f4top n (j+1) (valPos c s j n n) (valPos c s (j+1) n (n-1)) := by rw [valPos]
        rw [valExt_pos c s n (mp+1) m (j+2) M (by omega) hM (by omega),
          valExt_pos c s n (mp-1) m j M (by omega) hM (by omega),
          valExt_pos c s n mp (m-1) (j+1) (M-1) hj (by omega) (by omega), e]
        split
        · rw [valExt_pos c s n mp (m+1) (j+1) (M+1) hj (by omega) (by omega)]
          exact f4mid_mul n (j+1) (M-(j+1)) _ _ _ n mp (mp-1) (m-1) m rfl hj (by omega) (by omega) (by omega) hd
        · have hMn : M = n := by omega
          have hz : gdD (n : ℤ) m = 0 := by rw [show m = (n : ℤ) by omega]; exact gdD_top n
          rw [hz, zero_mul, add_zero]
          subst hMn
          exact f4top_mul M (j+1) _ _ M mp (mp-1) (m-1) rfl hj (by omega) (by omega) hd
      · -- step 5
        obtain ⟨q, hq⟩ : ∃ q : ℕ, mp = -(q : ℤ) := ⟨(-mp).toNat, by omega⟩
        have hd : gdD (n : ℤ) (mp - 1) ≠ 0 := gdD_ne _ _ (by omega) (by omega)
        have key : gdD (n : ℤ) (mp - 1) * valExt c s n (mp - 1) m =
            gdD n mp * valExt c s n (mp + 1) m + gdD n (m - 1) * valExt c s n mp (m - 1)
              - gdD n m * valExt c s n mp (m + 1) := by
          rw [valExt_neg c s n (mp-1) m (q+1) M (by omega) hM (by omega),
            valExt_neg c s n mp (m-1) q (M-1) hq (by omega) (by omega)]
          by_cases hq0 : q = 0
          · subst hq0
            have e : valNeg c s 1 n M =
                if M < n then f5mid n 0 M (valPos c s 1 n M) (col0 c s n (M-1)) (col0 c s n (M+1))
                else f5top n 0 (valPos c s 1 n n) (col0 c s n (n-1)) := by rw [valNeg]
            rw [valExt_pos c s n (mp+1) m 1 M (by omega) hM (by omega), valNeg_zero, e]
            have e0 : valPos c s 0 n (M-1) = col0 c s n (M-1) := by rw [valPos]
            rw [e0]
            split
            · rw [valExt_neg c s n mp (m+1) 0 (M+1) hq (by omega) (by omega), valNeg_zero]
              have e1 : valPos c s 0 n (M+1) = col0 c s n (M+1) := by rw [valPos]
              rw [e1]
              exact f5mid_mul n 0 M _ _ _ n mp (mp-1) (m-1) m rfl hq (by omega) (by omega) (by omega) hd
            · have hMn : M = n := by omega
              have hz : gdD (n : ℤ) m = 0 := by rw [show m = (n : ℤ) by omega]; exact gdD_top n
              rw [hz, zero_mul, sub_zero]
              subst hMn
              exact f5top_mul M 0 _ _ M mp (mp-1) (m-1) rfl hq (by omega) (by omega) hd
          · obtain ⟨p, rfl⟩ : ∃ p : ℕ, q = p + 1 := ⟨q - 1, by omega⟩
            have e : valNeg c s (p+2) n M =
                if M < n then f5mid n (p+1) (M-(p+1)) (valNeg c s p n M) (valNeg c s (p+1) n (M-1))
                  (valNeg c s (p+1) n (M+1))
                else f5top n (p+1) (valNeg c s p n n) (valNeg c s (p+1) n (n-1)) := by rw [valNeg]
            rw [valExt_neg c s n (mp+1) m p M (by omega) hM (by omega), e]
            split
            · rw [valExt_neg c s n mp (m+1) (p+1) (M+1) hq (by omega) (by omega)]
              exact f5mid_mul n (p+1) (M-(p+1)) _ _ _ n mp (mp-1) (m-1) m rfl hq (by omega) (by omega)
                (by omega) hd
            · have hMn : M = n := by omega
              have hz : gdD (n : ℤ) m = 0 := by rw [show m = (n : ℤ) by omega]; exact gdD_top n
              rw [hz, zero_mul, sub_zero]
              subst hMn
              exact f5top_mul M (p+1) _ _ M mp (mp-1) (m-1) rfl hq (by omega) (by omega) hd
        linarith

/-! ### (E) from the wedge to all |m'|, |m| ≤ n: this is where (S) is used -/

/-- the value of a family at the stored-wedge representative is its value at (m', m) -/
theorem H_wedgeRep (hH : IsGDFamily c s H) (n : ℕ) (mp m : ℤ) (h1 : mp.natAbs ≤ n) (h2 : m.natAbs ≤ n) :
    H n (wedgeRep mp m).1 (((wedgeRep mp m).2.toNat : ℕ) : ℤ) = H n mp m := by
  unfold wedgeRep
  split_ifs
  · rw [hH.symm_neg n mp m h1 h2]; exact H_congr H n rfl (by simp only; omega)
  · rw [hH.symm_swap n mp m h1 h2, hH.symm_neg n m mp h2 h1]; exact H_congr H n rfl (by simp only; omega)
  · rw [hH.symm_swap n mp m h1 h2]; exact H_congr H n rfl (by simp only; omega)
  · exact H_congr H n rfl (by simp only; omega)

/-- any Gumerov–Duraiswami family is `valExt` on the whole square |m'|, |m| ≤ n -/
theorem eq_valExt (hH : IsGDFamily c s H) (n : ℕ) (mp m : ℤ) (h1 : mp.natAbs ≤ n) (h2 : m.natAbs ≤ n) :
    H n mp m = valExt c s n mp m := by
  unfold valExt
  rw [valW_eq hH n _ _ (Lemmas.Object.wedgeRep_fst_le_snd mp m) (Lemmas.Object.wedgeRep_snd_le mp m n h1 h2),
    H_wedgeRep hH n mp m h1 h2]

theorem eps_sq (a b : ℤ) : (((eps a * eps b : ℤ) : ℝ)) * (((eps a * eps b : ℤ) : ℝ)) = 1 := by
  have h : ∀ x : ℤ, eps x * eps x = 1 := by
    intro x; unfold eps; split_ifs <;> rfl
  rw [← Int.cast_mul, show eps a * eps b * (eps a * eps b) = (eps a * eps a) * (eps b * eps b) by ring, h, h]
  norm_num

/-! ### (F) relation (50) on the whole square |m'|, |m| ≤ n

    (50) is invariant under the two symmetries; the wedge instances and (S) therefore give every instance. -/

section full
variable (hsw : ∀ (n : ℕ) (mp m : ℤ), mp.natAbs ≤ n → m.natAbs ≤ n → H n mp m = H n m mp)
variable (hng : ∀ (n : ℕ) (mp m : ℤ), mp.natAbs ≤ n → m.natAbs ≤ n → H n mp m = H n (-mp) (-m))
include hsw

theorem swapU (n : ℕ) (k j : ℤ) (hk : k.natAbs ≤ n) (hj : j.natAbs ≤ n) :
    gdD n k * H n (k + 1) j = gdD n k * H n j (k + 1) := by
  by_cases h : k = n
  · rw [h, gdD_top, zero_mul, zero_mul]
  · rw [hsw n (k + 1) j (by omega) hj]

theorem swapD (n : ℕ) (k j : ℤ) (hk : k.natAbs ≤ n) (hj : j.natAbs ≤ n) :
    gdD n (k - 1) * H n (k - 1) j = gdD n (k - 1) * H n j (k - 1) := by
  by_cases h : k = -n
  · rw [h, gdD_bot, zero_mul, zero_mul]
  · rw [hsw n (k - 1) j (by omega) hj]

/-- (50) at (m', m) gives (50) at (m, m') -/
theorem rel50_swap (n : ℕ) (mp m : ℤ) (h1 : mp.natAbs ≤ n) (h2 : m.natAbs ≤ n) (r : Rel50 H n mp m) :
    Rel50 H n m mp := by
  unfold Rel50 at r ⊢
  have t1 := swapU hsw n m mp h2 h1
  have t2 := swapD hsw n m mp h2 h1
  have t3 := swapD hsw n mp m h1 h2
  have t4 := swapU hsw n mp m h1 h2
  linear_combination t1 - t2 - t3 + t4 - r

include hng

omit hsw in
theorem negU (n : ℕ) (k j : ℤ) (a b : ℤ) (ha : a = -(k + 1)) (hb : b = -j) (hk : k.natAbs ≤ n) (hj : j.natAbs ≤ n) :
    gdD n k * H n a b = gdD n k * H n (k + 1) j := by
  subst ha hb
  by_cases h : k = n
  · rw [h, gdD_top, zero_mul, zero_mul]
  · rw [hng n (k + 1) j (by omega) hj]

omit hsw in
theorem negD (n : ℕ) (k j : ℤ) (a b : ℤ) (ha : a = -(k - 1)) (hb : b = -j) (hk : k.natAbs ≤ n) (hj : j.natAbs ≤ n) :
    gdD n (k - 1) * H n a b = gdD n (k - 1) * H n (k - 1) j := by
  subst ha hb
  by_cases h : k = -n
  · rw [h, gdD_bot, zero_mul, zero_mul]
  · rw [hng n (k - 1) j (by omega) hj]

omit hsw in
theorem negU2 (n : ℕ) (k j : ℤ) (a b : ℤ) (ha : a = -k) (hb : b = -(j + 1)) (hk : k.natAbs ≤ n) (hj : j.natAbs ≤ n) :
    gdD n j * H n a b = gdD n j * H n k (j + 1) := by
  subst ha hb
  by_cases h : j = n
  · rw [h, gdD_top, zero_mul, zero_mul]
  · rw [hng n k (j + 1) hk (by omega)]

omit hsw in
theorem negD2 (n : ℕ) (k j : ℤ) (a b : ℤ) (ha : a = -k) (hb : b = -(j - 1)) (hk : k.natAbs ≤ n) (hj : j.natAbs ≤ n) :
    gdD n (j - 1) * H n a b = gdD n (j - 1) * H n k (j - 1) := by
  subst ha hb
  by_cases h : j = -n
  · rw [h, gdD_bot, zero_mul, zero_mul]
  · rw [hng n k (j - 1) hk (by omega)]

omit hsw in
/-- (50) at (m', m) gives (50) at (−m', −m) -/
theorem rel50_neg (n : ℕ) (mp m : ℤ) (h1 : mp.natAbs ≤ n) (h2 : m.natAbs ≤ n) (r : Rel50 H n mp m) :
    Rel50 H n (-mp) (-m) := by
  unfold Rel50 at r ⊢
  have c1 : gdD n (-mp) = -gdD n (mp - 1) := by rw [← gdD_neg' n (mp - 1)]; congr 1; ring
  have c2 : gdD n (-mp - 1) = -gdD n mp := gdD_neg' n mp
  have c3 : gdD n (-m - 1) = -gdD n m := gdD_neg' n m
  have c4 : gdD n (-m) = -gdD n (m - 1) := by rw [← gdD_neg' n (m - 1)]; congr 1; ring
  have t1 := negD hng n mp m (-mp + 1) (-m) (by ring) rfl h1 h2
  have t2 := negU hng n mp m (-mp - 1) (-m) (by ring) rfl h1 h2
  have t3 := negU2 hng n mp m (-mp) (-m - 1) rfl (by ring) h1 h2
  have t4 := negD2 hng n mp m (-mp) (-m + 1) rfl (by ring) h1 h2
  rw [c1, c2, c3, c4]
  linear_combination (-1 : ℝ) * t1 + t2 - t3 + t4 + r

end full

/-- (50) on the stored wedge including its two corners m' = ±n, m = n (where it follows from (S)) -/
theorem rel50_wedge (hH : IsGDFamily c s H) (n : ℕ) (a b : ℤ) (h1 : (a.natAbs : ℤ) ≤ b) (h2 : b ≤ n) :
    Rel50 H n a b := by
  by_cases h : a.natAbs < n
  · exact hH.rel50 n a b h h1 h2
  · have hb : b = n := by omega
    subst hb
    by_cases hp : 0 ≤ a
    · have ha : a = n := by omega
      subst ha
      unfold Rel50
      have t := swapD hH.symm_swap n n n (by omega) (by omega)
      rw [gdD_top, zero_mul, zero_mul]
      linear_combination -t
    · have ha : a = -n := by omega
      subst ha
      unfold Rel50
      rw [gdD_top, gdD_bot, zero_mul, zero_mul]
      have c1 : gdD n (-(n : ℤ)) = -gdD n ((n : ℤ) - 1) := by
        rw [← gdD_neg' n ((n : ℤ) - 1)]; congr 1; ring
      have e : H n (-(n : ℤ)) ((n : ℤ) - 1) = H n (-(n : ℤ) + 1) n := by
        rw [hH.symm_swap n _ _ (by omega) (by omega), hH.symm_neg n _ _ (by omega) (by omega)]
        exact H_congr H n (by omega) (by omega)
      rw [c1, e]; ring

/-- (F) relation (50) holds at EVERY |m'|, |m| ≤ n for a Gumerov–Duraiswami family: the instances outside the
    stored wedge are images of wedge instances under the symmetries, so they are no additional constraint. -/
theorem rel50_full (hH : IsGDFamily c s H) (n : ℕ) (mp m : ℤ) (h1 : mp.natAbs ≤ n) (h2 : m.natAbs ≤ n) :
    Rel50 H n mp m := by
  have sw := hH.symm_swap
  have ng := hH.symm_neg
  by_cases ha : m < -mp
  · by_cases hb : m < mp
    · -- representative (−m', −m)
      have r := rel50_neg ng n (-mp) (-m) (by omega) (by omega)
        (rel50_wedge hH n (-mp) (-m) (by omega) (by omega))
      rw [neg_neg, neg_neg] at r
      exact r
    · -- representative (−m, −m')
      have r := rel50_neg ng n (-m) (-mp) (by omega) (by omega)
        (rel50_wedge hH n (-m) (-mp) (by omega) (by omega))
      rw [neg_neg, neg_neg] at r
      exact rel50_swap sw n m mp h2 h1 r
  · by_cases hb : m < mp
    · exact rel50_swap sw n m mp h2 h1 (rel50_wedge hH n m mp (by omega) (by omega))
    · exact rel50_wedge hH n mp m (by omega) (by omega)

end

end
end GDFamily
