"""C02 — spin-weighted spherical harmonics are exact, finite and accurate past ell=1000.

Obligations: Props/C02.lean (+ shared HKernel, Routes).  Correspondence: fill_sYlm bitwise (incl. |s|>=3,
mp_max-limited calculators, ell_min>0).  Gap monitor: sYlm vs (-1)^s sqrt((2l+1)/4pi) D^l_{m,-s} of the documented
polynomial (mpmath), exact zeros below |s|, finiteness and the addition theorem up to ell=1024 (thorough 1400)."""
import math

import numpy as np

from .. import corr, kern, oracle, helpers
from . import common
from .C01 import band_info, subnormal_band_rotors

EPS = 2.0 ** -52
K_BOUND = 16.0
K_SUM = 64.0   # addition theorem: |sum_m |Y|^2 /((2l+1)/4pi) - 1| <= K_SUM (ell+1) eps ; observed ~3e-14 at ell=1024 i.e. ~0.15


def gap_Y(run, cfgs, rotors, n_samples, big_m=False):
    """cfgs: [(ell_max, mp_max, [spins])]"""
    import spherical
    import quaternionic
    rng = run.rng
    worst = 0.0
    worst_sum = 0.0
    for cfg in cfgs:
        (L, P, spins), emin = cfg[:3], (cfg[3] if len(cfg) > 3 else 0)
        w = spherical.Wigner(L, ell_min=emin, mp_max=P)
        batch = {}
        for s in spins:   # the same rotors in ONE vectorised call: each slice must be the single-rotor result
            try:
                batch[s] = w.sYlm(s, quaternionic.array(np.array([R for _, R in rotors])))
            except Exception as e:
                run.violation("sYlm-raised", "Wigner.sYlm", {"ell_max": L, "mp_max": P, "s": s, "batched": True, "min_sq": 1.0}, "values", repr(e))
        for i_rot, (lab, R) in enumerate(rotors):
            for s in spins:
                try:
                    Y = w.sYlm(s, quaternionic.array(R))
                    if s in batch and not np.array_equal(batch[s][i_rot], Y, equal_nan=True):
                        k = int(np.flatnonzero(batch[s][i_rot] != Y)[0])
                        run.violation("sYlm-batched-differs-from-single", "Wigner.sYlm", {"ell_max": L, "mp_max": P, "s": s, "R": list(R), "rotors_in_batch": [list(r) for _, r in rotors][max(0, i_rot - 1):i_rot + 1],
                                                                                      "flat_index": k, **band_info(R)}, str(complex(Y[k])), str(complex(batch[s][i_rot][k])))
                except Exception as e:
                    run.violation("sYlm-raised", "Wigner.sYlm", {"ell_max": L, "mp_max": P, "s": s, "R": list(R), **band_info(R)}, "values", repr(e))
                    continue
                inp = {"ell_max": L, "ell_min": emin, "mp_max": P, "s": s, "R": list(R), **band_info(R)}
                if i_rot < 3 and L <= 64:
                    # the same request through an explicit workspace holding arbitrary previous content (np.empty garbage may be NaN)
                    for fill in (float("nan"), 1e300):
                        ws = w.new_workspace()
                        ws[:] = fill
                        Yw = w.sYlm(s, quaternionic.array(R), workspace=ws)
                        if not np.array_equal(Yw, Y, equal_nan=True):
                            k = int(np.flatnonzero(~((Yw == Y) | (np.isnan(Yw) & np.isnan(Y))))[0])
                            run.violation("sYlm-not-finite" if not np.all(np.isfinite(Yw)) else "sYlm-depends-on-workspace-content", "Wigner.sYlm",
                                          {**inp, "workspace_prefilled_with": repr(fill), "flat_index": k}, str(complex(Y[k])), str(complex(Yw[k])))
                            break
                if not np.all(np.isfinite(Y)):
                    i = int(np.flatnonzero(~np.isfinite(Y))[0])
                    run.violation("sYlm-not-finite", "Wigner.sYlm", {**inp, "flat_index": i}, "finite", str(Y[i]))
                    continue
                off = emin ** 2          # the array starts at ell = ell_min
                nlow = max(abs(s) ** 2 - off, 0)
                if np.any(Y[:nlow] != 0):
                    run.violation("sYlm-nonzero-below-|s|", "Wigner.sYlm", inp, "exact zeros", "nonzero")
                # addition theorem for every ell
                idx = 0
                a2 = np.abs(Y) ** 2
                cs = np.concatenate([[0.0], np.cumsum(a2)])
                ells = np.arange(emin, L + 1)
                tot = cs[(ells + 1) ** 2 - off] - cs[ells ** 2 - off]
                want = (2 * ells + 1) / (4 * math.pi)
                rel = np.abs(tot / want - 1.0)
                rel[ells < abs(s)] = 0.0
                # cumulative-sum differencing costs ~ L*eps itself; recompute the worst ell directly
                iw = int(np.argmax(rel / ((ells + 1) * EPS)))
                lw = int(ells[iw])
                direct = float(np.sum(a2[lw ** 2 - off:(lw + 1) ** 2 - off])) / want[iw] - 1.0 if lw >= abs(s) else 0.0
                r = abs(direct) / ((lw + 1) * EPS)
                worst_sum = max(worst_sum, r)
                run.gap_case("addition-theorem", (L, P, s, R), lab, {"ell_max": L, "s": s, "R": list(R), "worst_ell": lw, "rel_over_(ell+1)eps": round(r, 3)})
                if not (r <= K_SUM):
                    run.violation("addition-theorem-fails", "Wigner.sYlm", {**inp, "ell": lw}, "sum_m |Y|^2 = (2l+1)/4pi", f"relative deviation {direct}")
                # oracle samples
                ells_s = sorted(e for e in (set([abs(s), min(L, abs(s) + 1), emin, emin + 1, L // 2, L]) | {rng.randint(abs(s), L) for _ in range(2)}) if e >= emin) if L >= abs(s) else []
                k = 0
                for ell in ells_s:
                    if ell < abs(s) or ell > L:
                        continue
                    ms = {-ell, ell, 0, rng.randint(-ell, ell)} if ell > 2 else set(range(-ell, ell + 1))
                    if big_m and ell > 8:
                        ms = {int(0.6 * ell), -int(0.8 * ell), ell - 1, rng.randint(ell // 2, ell)}
                    for m in list(ms)[:max(1, n_samples)]:
                        ex = oracle.sYlm_exact(s, ell, m, R)
                        got = Y[ell * (ell + 1) + m - off]
                        e = oracle.err(ex, got) / math.sqrt((2 * ell + 1) / (4 * math.pi))
                        rel_e = e / ((ell + 1) * EPS)
                        worst = max(worst, rel_e)
                        k += 1
                        run.gap_case("sYlm-vs-definition", (L, P, s, R, ell, m), f"{lab}|ell>=512" if ell >= 512 else lab,
                                     {"ell_max": L, "mp_max": P, "s": s, "R": list(R), "ell": ell, "m": m, "err_over_(ell+1)eps": round(rel_e, 3)})
                        if not (rel_e <= K_BOUND):
                            run.violation("sYlm-differs-from-definition", "Wigner.sYlm", {**inp, "ell": ell, "m": m}, str(oracle.to_complex(ex)), str(complex(got)),
                                          detail={"err_over_(ell+1)eps": rel_e, "stratum": lab})
                            break
    run.notes["worst_sYlm_err_over_(ell+1)eps"] = round(worst, 3)
    run.notes["worst_addition_theorem_rel_over_(ell+1)eps"] = round(worst_sum, 3)


def argument_types(run):
    """the rotor argument is array_like: float32 / float16 / integer ndarrays denote the same quaternions as their float64
    copies and must give the same values (the float64 copy is what the oracle sweeps verify).  Plain Python lists are rejected
    by the unchanged tree (AttributeError: no .shape) — a rejection, not a wrong value, so they are not part of this stratum."""
    import spherical
    import quaternionic
    rng = run.rng
    w = spherical.Wigner(12, mp_max=3)
    wD = spherical.Wigner(6)
    base = [np.array(helpers.random_rotor(rng)) for _ in range(3)] + [np.array([0.6, 0.0, 0.0, 0.8]), np.array([1.0, 2.0, -3.0, 4.0]), np.array([3.0, 1.0, -2.0, 5.0])]
    for R in base:
        variants = {"float32": R.astype(np.float32), "float16": R.astype(np.float16)}
        if np.all(R == np.round(R)):
            variants["int64"] = R.astype(np.int64)
        for vname, Rv in variants.items():
            R64 = np.asarray(Rv, dtype=np.float64)          # exactly the same four numbers, as doubles
            for s in (-2, 0, 3):
                run.gap_case("argument-types", (vname, tuple(R64), s), vname)
                inp = {"R": [float(x) for x in R64], "R_given_as": vname, "s": s, "ell_max": 12, "mp_max": 3}
                try:
                    a = w.sYlm(s, Rv).copy()
                    b = w.sYlm(s, quaternionic.array(R64)).copy()
                except Exception as e:   # noqa: BLE001
                    run.violation("sYlm-raised", "Wigner.sYlm", inp, "values", repr(e)[:200])
                    continue
                if a.shape != b.shape or not (float(np.max(np.abs(a - b))) <= 64 * 13 * 2.3e-16):
                    k = int(np.argmax(np.abs(a - b)))
                    ell_k = int(np.floor(np.sqrt(k)))
                    run.violation("sYlm-differs-from-definition", "Wigner.sYlm", {**inp, "flat_index": k, "ell": ell_k},
                                  f"the value for the same quaternion given as float64: {complex(b[k])}", str(complex(a[k])),
                                  detail={"max_abs_diff": float(np.max(np.abs(a - b))), "note": "the float64 call is within the bound of the mpmath oracle (gap_Y)"})
            try:
                a = wD.D(Rv).copy()
                b = wD.D(quaternionic.array(R64)).copy()
                if a.shape != b.shape or not (float(np.max(np.abs(a - b))) <= 64 * 7 * 2.3e-16):
                    run.violation("sYlm-differs-from-definition", "Wigner.D", {"R": [float(x) for x in R64], "R_given_as": vname, "ell_max": 6},
                                  "the value for the same quaternion given as float64", f"max abs diff {float(np.max(np.abs(a - b)))}")
            except Exception as e:   # noqa: BLE001
                run.violation("sYlm-raised", "Wigner.D", {"R_given_as": vname}, "values", repr(e)[:200])


def check(run):
    quick = run.tier == "quick"
    run.regenerate()
    run.lean_props(common.modules_for("C02"))
    rng = run.rng
    rotors = corr.rotor_strata(rng, 4 if quick else 16)
    preps = run.attempt("corr:euler", kern.prep_rotors, run, rotors, default={})
    cfg = [(0, 0, 0), (2, 0, 0), (4, 2, 0), (6, 3, 2), (7, 7, 0), (9, 4, 3)] if quick else \
        [(0, 0, 0), (1, 1, 0), (2, 0, 0), (4, 2, 0), (6, 3, 2), (7, 7, 0), (9, 4, 3), (12, 6, 0), (16, 5, 5), (24, 3, 1)]
    run.attempt("corr:corr_Y", kern.corr_Y, run, cfg, rotors if not quick else rotors[:18] + rotors[-4:], preps, poison=float("nan"))
    pole_focus = [r for r in rotors if ("pole" in r[0] or "identity" in r[0] or "pi-about" in r[0])]
    gen = [r for r in rotors if r[0] in ("generic", "rational", "beta-pi/2")]
    run.attempt("gap:argument_types", argument_types, run)
    gap_Y(run, [(8, 8, list(range(-8, 9)))], rotors, 3)
    gap_Y(run, [(48, 6, [-6, -3, -2, 0, 1, 5])], rotors[::2], 2)
    gap_Y(run, [(12, 3, [-3, 2])], subnormal_band_rotors(), 2)
    gap_Y(run, [(8, 3, [-3, 0, 2], 1), (8, 8, [-2, 1], 2), (9, 4, [0, -4], 5), (6, 2, [2], 6)], rotors[::3], 2)     # sYlm arrays that start at ell_min > 0
    runs = [(f"near-pole-run-{k}", (math.cos(0.2 * k), (1 + 2 * k) * 1e-9, -(1 + k) * 1e-9, math.sin(0.2 * k))) for k in range(4)] + \
           [(f"antipole-run-{k}", ((1 + k) * 2e-9, math.cos(0.3 * k), math.sin(0.3 * k), (1 + k) * 1e-9)) for k in range(3)]
    gap_Y(run, [(40, 2, [-2, 0, 1])], runs, 3)
    big = 1024 if quick else 1400
    # colatitude sweep at the largest ell: addition theorem on every ell (cheap) + oracle at large |m|; deeper when a proof
    # obligation or the bitwise correspondence is broken (failing-input search)
    deep = bool(run.broken)
    step = 5 if deep else (10 if not quick else 15)
    sweep = [(f"colat-{d}", (math.cos(math.radians(d) / 2), 0.0, math.sin(math.radians(d) / 2), 0.0)) for d in range(step, 180, step)]
    gap_Y(run, [(big, 2, [0, -2] if deep else [-2])], sweep, 3 if deep else 1, big_m=True)
    gap_Y(run, [(big, 2, [-2, 0] if quick else [-2, 0, 2])], (pole_focus[:5] + gen[:2]) if quick else (pole_focus[:8] + gen[:3]), 1)
    run.assumptions += ["exact arithmetic: sYlm of the model = (-1)^s sqrt((2l+1)/4pi) docD^l_{m,-s} for every ell, spin and unit quaternion (DAll.sYlm_all); exact zeros below |s| for every arithmetic (Routes.sYlm_low_exact_zero); the rounding bound and finiteness at ell>1000 are checked by oracle sampling (no theorem)",
                        "the addition theorem is proved in exact arithmetic for every ell, spin and rotor (HomAll.addition_theorem); its floating-point deviation bound is swept"]


def replay(body):
    import spherical
    import quaternionic
    inp = body["input"]
    w = spherical.Wigner(inp["ell_max"], ell_min=inp.get("ell_min", 0), mp_max=inp["mp_max"])
    Y = w.sYlm(inp["s"], quaternionic.array(inp["R"]))
    if "m" in inp:
        ell, m = inp["ell"], inp["m"]
        print("implementation:", Y[ell * (ell + 1) + m - inp.get("ell_min", 0) ** 2], " definition:", oracle.to_complex(oracle.sYlm_exact(inp["s"], ell, m, inp["R"])))
    else:
        print("finite:", bool(np.all(np.isfinite(Y))))
    return 0
