import SphericalVerif.Gen.Indexing
import SphericalVerif.Lemmas.Ranges
import Mathlib.Tactic.LinearCombination

/-! `WignerDsize`, `WignerDindex` against the documented ordering `Spec.dRange`. -/
namespace Lemmas
open Gen Spec

/-! ### divisibility by 3 -/

theorem three_dvd_p1 (L : Int) : (L * (L * (4 * L + 12) + 11)) % 3 = 0 := by
  obtain ⟨q, r, hr0, hr3, rfl⟩ : ∃ q r : Int, 0 ≤ r ∧ r < 3 ∧ L = 3 * q + r :=
    ⟨L / 3, L % 3, by omega, by omega, by omega⟩
  have : r = 0 ∨ r = 1 ∨ r = 2 := by omega
  rcases this with rfl | rfl | rfl <;> ring_nf <;> omega

theorem three_dvd_p2 (e : Int) : (e * (1 - 4 * e ^ 2)) % 3 = 0 := by
  obtain ⟨q, r, hr0, hr3, rfl⟩ : ∃ q r : Int, 0 ≤ r ∧ r < 3 ∧ e = 3 * q + r :=
    ⟨e / 3, e % 3, by omega, by omega, by omega⟩
  have : r = 0 ∨ r = 1 ∨ r = 2 := by omega
  rcases this with rfl | rfl | rfl <;> ring_nf <;> omega

theorem three_dvd_p3 (P : Int) : (P * (P * (-2 * P - 3) + 5)) % 3 = 0 := by
  obtain ⟨q, r, hr0, hr3, rfl⟩ : ∃ q r : Int, 0 ≤ r ∧ r < 3 ∧ P = 3 * q + r :=
    ⟨P / 3, P % 3, by omega, by omega, by omega⟩
  have : r = 0 ∨ r = 1 ∨ r = 2 := by omega
  rcases this with rfl | rfl | rfl <;> ring_nf <;> omega

/-! ### closed form of `WignerDsize` (times 3), for explicit `ell_max ≥ 0` -/

theorem dsize3_a (e P L : Int) (hL : 0 ≤ L) (h : P ≥ L) :
    3 * WignerDsize e P L = L * (L * (4 * L + 12) + 11) + e * (1 - 4 * e ^ 2) + 3 := by
  unfold WignerDsize
  have c0 : ¬ (L < 0) := by omega
  simp only [c0, if_false, h, if_true]
  have h1 := three_dvd_p1 L
  have h2 := three_dvd_p2 e
  omega

theorem dsize3_b (e P L : Int) (hL : 0 ≤ L) (h : ¬ P ≥ L) (h' : P > e) :
    3 * WignerDsize e P L
      = 3 * L * (L + 2) + e * (1 - 4 * e ^ 2)
        + P * (3 * L * (2 * L + 4) + P * (-2 * P - 3) + 5) + 3 := by
  unfold WignerDsize
  have c0 : ¬ (L < 0) := by omega
  simp only [c0, if_false, h, h', if_true]
  have h2 := three_dvd_p2 e
  have h3 := three_dvd_p3 P
  have e1 : 3 * L * (L + 2) + e * (1 - 4 * e ^ 2)
        + P * (3 * L * (2 * L + 4) + P * (-2 * P - 3) + 5) + 3
      = 3 * (L * (L + 2) + P * (L * (2 * L + 4)) + 1) + e * (1 - 4 * e ^ 2)
        + P * (P * (-2 * P - 3) + 5) := by ring
  rw [e1]
  omega

theorem dsize_c (e P L : Int) (hL : 0 ≤ L) (h : ¬ P ≥ L) (h' : ¬ P > e) :
    WignerDsize e P L = (L * (L + 2) - e ^ 2) * (1 + 2 * P) + 2 * P + 1 := by
  unfold WignerDsize
  have c0 : ¬ (L < 0) := by omega
  simp only [c0, if_false, h, h']

/-- Negative `ell_max` means `ell_max := mp_max`. -/
theorem dsize_default (e P L : Int) (hL : L < 0) :
    WignerDsize e P L = WignerDsize e P P := by
  unfold WignerDsize
  by_cases c0 : P < 0
  · simp only [hL, if_true, c0]
  · simp only [hL, if_true, c0, if_false]

/-! ### blocks -/

def dBlock (P ell : Int) : List (Int × Int × Int) :=
  (irange (-(min ell P)) (min ell P)).flatMap fun mp =>
    (irange (-ell) ell).map fun m => (ell, mp, m)

theorem dRange_eq (e P L : Int) : dRange e P L = (irange e L).flatMap (dBlock P) := rfl

theorem length_dCol (ell mp : Int) (h : 0 ≤ ell) :
    (((irange (-ell) ell).map fun m => (ell, mp, m)).length : Int) = 2 * ell + 1 := by
  rw [List.length_map, length_irange_int _ _ (by omega)]; ring

theorem length_dBlock (P ell : Int) (hP : 0 ≤ P) (hl : 0 ≤ ell) :
    ((dBlock P ell).length : Int) = (2 * min ell P + 1) * (2 * ell + 1) := by
  unfold dBlock
  rw [flatMap_irange_length _ (fun mp => (mp + min ell P) * (2 * ell + 1)) (-(min ell P)) (min ell P)
    (by omega) (by simp)
    (by intro k _ _; rw [length_dCol ell k hl]; ring)]
  ring

theorem dBlock_get (P ell mp m : Int) (hP : 0 ≤ P) (hl : 0 ≤ ell)
    (h1 : -(min ell P) ≤ mp) (h2 : mp ≤ min ell P) (h3 : -ell ≤ m) (h4 : m ≤ ell) :
    0 ≤ (mp + min ell P) * (2 * ell + 1) + (m + ell) ∧
    (mp + min ell P) * (2 * ell + 1) + (m + ell) < ((dBlock P ell).length : Int) ∧
    (dBlock P ell)[((mp + min ell P) * (2 * ell + 1) + (m + ell)).toNat]? = some (ell, mp, m) := by
  have key := flatMap_irange_get
    (fun mp => (irange (-ell) ell).map fun m => (ell, mp, m))
    (fun mp => (mp + min ell P) * (2 * ell + 1)) (-(min ell P)) (min ell P)
    (by simp)
    (by intro k _ _; rw [length_dCol ell k hl]; ring)
    mp h1 h2 (m + ell) (by omega)
    (by rw [length_dCol ell mp hl]; omega)
  obtain ⟨a, b, c⟩ := key
  rw [length_dBlock P ell hP hl]
  refine ⟨by omega, ?_, ?_⟩
  · have : (min ell P + 1 + min ell P) * (2 * ell + 1) = (2 * min ell P + 1) * (2 * ell + 1) := by ring
    rw [← this]; exact b
  · unfold dBlock
    rw [c]
    have := getElem?_map_irange (fun m => (ell, mp, m)) (-ell) ell m h3 h4
    rw [show m + ell = m - -ell by ring]
    exact this

/-! ### outer level -/

/-- running total: number of elements with `ell' < k` -/
def dOff (e P k : Int) : Int := if k > e then WignerDsize e P (k - 1) else 0

/-- first block -/
theorem dsize_base (e P : Int) (he : 0 ≤ e) (_hP : 0 ≤ P) :
    WignerDsize e P e = (2 * min e P + 1) * (2 * e + 1) := by
  by_cases c : P ≥ e
  · have h := dsize3_a e P e he c
    have mm : min e P = e := by omega
    rw [mm]
    have : 3 * WignerDsize e P e = 3 * ((2 * e + 1) * (2 * e + 1)) := by rw [h]; ring
    omega
  · have c' : ¬ P > e := by omega
    rw [dsize_c e P e he c c']
    have mm : min e P = P := by omega
    rw [mm]; ring

/-- later blocks -/
theorem dsize_step (e P k : Int) (he : 0 ≤ e) (hP : 0 ≤ P) (hk : e < k) :
    WignerDsize e P k = WignerDsize e P (k - 1) + (2 * min k P + 1) * (2 * k + 1) := by
  have hk0 : 0 ≤ k - 1 := by omega
  have hk1 : 0 ≤ k := by omega
  by_cases c : P ≥ k
  · have h1 := dsize3_a e P k hk1 c
    have h0 := dsize3_a e P (k - 1) hk0 (by omega)
    have mm : min k P = k := by omega
    rw [mm]
    have : 3 * WignerDsize e P k = 3 * (WignerDsize e P (k - 1) + (2 * k + 1) * (2 * k + 1)) := by
      linear_combination h1 - h0
    omega
  · have mm : min k P = P := by omega
    rw [mm]
    by_cases c2 : P ≥ k - 1
    · have hPk : k = P + 1 := by omega
      subst hPk
      have h0 := dsize3_a e P (P + 1 - 1) hk0 c2
      by_cases c3 : P > e
      · have h1 := dsize3_b e P (P + 1) hk1 c c3
        have : 3 * WignerDsize e P (P + 1)
            = 3 * (WignerDsize e P (P + 1 - 1) + (2 * P + 1) * (2 * (P + 1) + 1)) := by
          linear_combination h1 - h0
        omega
      · have h1 := dsize_c e P (P + 1) hk1 c c3
        have hek : e = P := by omega
        subst hek
        have : 3 * WignerDsize e e (e + 1)
            = 3 * (WignerDsize e e (e + 1 - 1) + (2 * e + 1) * (2 * (e + 1) + 1)) := by
          linear_combination 3 * h1 - h0
        omega
    · by_cases c3 : P > e
      · have h1 := dsize3_b e P k hk1 c c3
        have h0 := dsize3_b e P (k - 1) hk0 c2 c3
        have : 3 * WignerDsize e P k = 3 * (WignerDsize e P (k - 1) + (2 * P + 1) * (2 * k + 1)) := by
          linear_combination h1 - h0
        omega
      · rw [dsize_c e P k hk1 c c3, dsize_c e P (k - 1) hk0 c2 c3]; ring

theorem dOff_start (e P : Int) : dOff e P e = 0 := by
  unfold dOff; simp

theorem dOff_step (e P k : Int) (he : 0 ≤ e) (hP : 0 ≤ P) (hk : e ≤ k) :
    dOff e P (k + 1) = dOff e P k + ((dBlock P k).length : Int) := by
  rw [length_dBlock P k hP (by omega)]
  unfold dOff
  have c1 : k + 1 > e := by omega
  simp only [c1, if_true, show k + 1 - 1 = k by ring]
  by_cases c : k > e
  · simp only [c, if_true]
    exact dsize_step e P k he hP c
  · have : k = e := by omega
    subst this
    simp only [c, if_false, zero_add]
    exact dsize_base k P he hP

theorem dOff_end (e P L : Int) (h : e ≤ L + 1) (he : 0 ≤ e) (hL : 0 ≤ L) (_hP : 0 ≤ P) :
    dOff e P (L + 1) = WignerDsize e P L := by
  unfold dOff
  rw [show L + 1 - 1 = L by ring]
  by_cases c : L + 1 > e
  · simp [c]
  · have hLe : e = L + 1 := by omega
    simp only [c, if_false]
    -- empty range: the closed forms vanish
    subst hLe
    by_cases c1 : P ≥ L
    · have h := dsize3_a (L + 1) P L hL c1
      have : 3 * WignerDsize (L + 1) P L = 0 := by rw [h]; ring
      omega
    · have c2 : ¬ P > L + 1 := by omega
      rw [dsize_c (L + 1) P L hL c1 c2]; ring

theorem dsize_eq_length (e P L : Int) (he : 0 ≤ e) (h : e ≤ L + 1) (hL : 0 ≤ L) (hP : 0 ≤ P) :
    WignerDsize e P L = ((dRange e P L).length : Int) := by
  rw [dRange_eq, flatMap_irange_length (dBlock P) (dOff e P) e L h (dOff_start e P)
    (fun k hk _ => dOff_step e P k he hP hk)]
  exact (dOff_end e P L h he hL hP).symm

theorem dindex_eq (ell mp m e P : Int) (hP : 0 ≤ P) :
    WignerDindex ell mp m e P = dOff e P ell + ((mp + min ell P) * (2 * ell + 1) + (m + ell)) := by
  unfold WignerDindex dOff
  have c0 : ¬ (P < 0) := by omega
  simp only [c0, if_false, min_comm P ell]
  split <;> ring

theorem dindex_default (ell mp m e P : Int) (hP : P < 0) :
    WignerDindex ell mp m e P = WignerDindex ell mp m e ell := by
  unfold WignerDindex
  simp only [hP, if_true, min_self]
  by_cases c : ell < 0
  · simp only [c, if_true]
  · simp only [c, if_false]

theorem dindex_get (e P L ell mp m : Int) (he : 0 ≤ e) (hel : e ≤ ell) (hL : ell ≤ L) (hP : 0 ≤ P)
    (h1 : -(min ell P) ≤ mp) (h2 : mp ≤ min ell P) (h3 : -ell ≤ m) (h4 : m ≤ ell) :
    0 ≤ WignerDindex ell mp m e P ∧ WignerDindex ell mp m e P < WignerDsize e P L ∧
      (dRange e P L)[(WignerDindex ell mp m e P).toNat]? = some (ell, mp, m) := by
  obtain ⟨ba, bb, bc⟩ := dBlock_get P ell mp m hP (by omega) h1 h2 h3 h4
  have key := flatMap_irange_get (dBlock P) (dOff e P) e L (dOff_start e P)
    (fun k hk _ => dOff_step e P k he hP hk)
    ell hel hL _ ba bb
  obtain ⟨a, b, c⟩ := key
  rw [dOff_end e P L (by omega) he (by omega) hP] at b
  rw [dindex_eq ell mp m e P hP, dRange_eq]
  exact ⟨by omega, b, by rw [c, bc]⟩

end Lemmas
