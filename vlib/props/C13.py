"""C13 — Modes algebra acts on the function, not on the coefficients.

Obligations: Props/C13.lean (+ Routes: conjugation symmetry of D / sYlm which gives conj(f)(Q) = conj(f(Q))).
Gap/search: (f±g)(Q), conjugation by every spelling, real/imag, norm, rejections, ufunc allow-list."""
import numpy as np

from .. import helpers
from . import common

EPS = 2.0 ** -52


def ev(modes, Rs):
    import spherical
    import quaternionic
    w = spherical.Wigner(modes.ell_max, mp_max=abs(modes.spin_weight))
    return np.asarray(w.evaluate(modes, quaternionic.array(np.array(Rs)), horner=True))


def check(run):
    import spherical
    import quaternionic
    quick = run.tier == "quick"
    run.regenerate()
    run.lean_props(common.modules_for("C13"))
    from .. import glue_modes
    from .. import glue_diff
    run.attempt("corr:glue_diff.algebra", glue_diff.corr, run, quick, parts=("algebra",))   # generated conjugate / real / imag loops vs the real methods, bit for bit
    run.attempt("corr:glue_modes.corr", glue_modes.corr, run, quick)   # Lean model of Modes (constructor, layout, dispatch, conj pairing, product terms, copies) vs the real class
    rng = run.rng
    Rs = [helpers.random_rotor(rng) for _ in range(3)] + [(1.0, 0.0, 0.0, 0.0), (0.0, 0.6, 0.8, 0.0)]

    def tol(*ms):
        return 256 * (max(m.ell_max for m in ms) + 2) ** 1.5 * EPS * max(max(float(np.max(np.sum(np.abs(m.ndarray), axis=-1))) for m in ms), 1e-300)

    def attempt(site, inp, f):
        try:
            return f()
        except Exception as e:
            run.violation("operation-raised", site, inp, "a Modes result", repr(e))
            return None

    spins = [-2, 0, 1] if quick else list(range(-4, 5))
    pairs = [(0, 0), (3, 3), (2, 5), (6, 1)] if quick else [(a, b) for a in (0, 1, 4, 7, 12) for b in (0, 2, 7, 12)]
    leads = [((), ()), ((2,), (2,)), ((2, 1), (3,))]
    kcount = 0
    for s in spins:
        for (La, Lb) in pairs:
            if La < abs(s) or Lb < abs(s):
                La, Lb = max(La, abs(s)), max(Lb, abs(s))
            for la, lb in leads[: (2 if quick else 3)]:
                kf, kg = helpers.KINDS[kcount % 12], helpers.KINDS[(5 * kcount + 2) % 12]
                kcount += 1
                f = helpers.make_modes(rng, s, La, la, kf)
                g = helpers.make_modes(rng, s, Lb, lb, kg)
                fe, ge = ev(f, Rs), ev(g, Rs)
                inp = {"s": s, "ell_max_f": La, "ell_max_g": Lb, "lead_f": list(la), "lead_g": list(lb), "weights_f": kf, "weights_g": kg}
                for opname, op, expect in (("f+g", lambda: f + g, lambda: _b(fe, ge, la, lb, +1)), ("f-g", lambda: f - g, lambda: _b(fe, ge, la, lb, -1)),
                                           ("np.add", lambda: np.add(f, g), lambda: _b(fe, ge, la, lb, +1)), ("f.add(g)", lambda: f.add(g), lambda: _b(fe, ge, la, lb, +1)),
                                           ("f.subtract(g)", lambda: f.subtract(g), lambda: _b(fe, ge, la, lb, -1)), ("np.subtract", lambda: np.subtract(f, g), lambda: _b(fe, ge, la, lb, -1))):
                    r = attempt(opname, inp, op)
                    run.gap_case("add-sub", (s, La, Lb, la, lb, opname), opname, {**inp, "op": opname})
                    if r is None:
                        continue
                    if not isinstance(r, spherical.Modes) or r.spin_weight != s or r.ell_max != max(La, Lb):
                        run.violation("add-sub-metadata", opname, inp, f"Modes s={s} ell_max={max(La, Lb)}", f"{type(r).__name__} s={getattr(r, 'spin_weight', None)} ell_max={getattr(r, 'ell_max', None)}")
                        continue
                    if not (float(np.max(np.abs(ev(r, Rs) - expect()))) <= tol(f, g)):
                        run.violation("add-sub-not-pointwise", opname, inp, "(f±g)(Q) = f(Q)±g(Q)", "differs")
                # out= and in-place forms of + and -
                Lr = max(La, Lb)
                for opname, uf, sign in (("np.add(out=)", np.add, +1), ("np.subtract(out=)", np.subtract, -1)):
                    try:
                        shp = np.broadcast_shapes(la, lb) + ((Lr + 1) ** 2,)
                        o = spherical.Modes(np.full(shp, 100.0 - 3.0j), spin_weight=s, ell_min=0, ell_max=Lr)
                        r = uf(f, g, out=o)
                        run.gap_case("add-sub-out", (s, La, Lb, la, lb, opname), opname)
                        want = np.zeros(shp, dtype=complex)
                        want[..., :(La + 1) ** 2] += f.ndarray
                        want[..., :(Lb + 1) ** 2] += sign * g.ndarray
                        want[..., :s * s] = 0
                        if not np.shares_memory(r, o) or not np.allclose(np.asarray(r.view(np.ndarray)), want, rtol=1e-14, atol=1e-14) or r.spin_weight != s or r.ell_max != Lr:
                            run.violation("add-sub-out-wrong", opname, {**inp, "out_prefilled": True}, "f±g written into out", f"max diff {float(np.max(np.abs(np.asarray(r.view(np.ndarray)) - want)))}")
                    except Exception as e:
                        run.violation("operation-raised", opname, inp, "a Modes result", repr(e))
                if La >= Lb and la == np.broadcast_shapes(la, lb):
                    for opname, sign in (("f += g", +1), ("f -= g", -1)):
                        try:
                            h = f.copy()
                            if sign > 0:
                                h += g
                            else:
                                h -= g
                            want = f.ndarray.copy()
                            want[..., :(Lb + 1) ** 2] += sign * g.ndarray
                            run.gap_case("add-sub-out", (s, La, Lb, la, lb, opname), opname)
                            if h.shape != f.shape or not np.allclose(h.ndarray, want, rtol=1e-14, atol=1e-14) or h.spin_weight != s:
                                run.violation("add-sub-out-wrong", opname, inp, "f±g in place", "differs")
                        except Exception as e:
                            run.violation("operation-raised", opname, inp, "a Modes result", repr(e))
                # conjugation by every spelling
                fe_c = np.conj(fe)
                for cname, op in (("f.conjugate()", lambda: f.conjugate()), ("f.conj()", lambda: f.conj()), ("f.bar", lambda: f.bar), ("np.conjugate(f)", lambda: np.conjugate(f)),
                                  ("np.conj(f)", lambda: np.conj(f)), ("f.copy().conjugate(inplace=True)", lambda: f.copy().conjugate(inplace=True)),
                                  ("np.conjugate(f, out=)", lambda: _conj_out(f)), ("np.conjugate(h, out=h)", lambda: _conj_alias(f))):
                    r = attempt(cname, inp, op)
                    run.gap_case("conjugation", (s, La, la, cname), cname)
                    if r is None:
                        continue
                    if not isinstance(r, spherical.Modes) or r.spin_weight != -s or r.ell_max != La:
                        run.violation("conjugate-metadata", cname, inp, f"Modes s={-s}", f"{type(r).__name__} s={getattr(r, 'spin_weight', None)}")
                        continue
                    if not (float(np.max(np.abs(ev(r, Rs) - fe_c))) <= tol(f)):
                        run.violation("conjugate-not-pointwise", cname, inp, "conj(f)(Q) = conj(f(Q))", "differs")
                    rr = attempt(cname + " twice", inp, lambda: np.conjugate(r) if "np." in cname else r.conjugate())
                    if rr is not None and (rr.spin_weight != s or not np.array_equal(rr.ndarray, f.ndarray)):
                        run.violation("conjugate-not-involution", cname, inp, "conj(conj(f)) = f", "differs")
                if s == 0:
                    # correspondence for the weight formulas the theorems FuncAlg.real_imag_* speak about (realW / imagW):
                    # entry (l, m>0) = (f_lm +- conj f_l,-m)/2 [times -i], entry (l, -m) = +-conj of it, entry (l, 0) = Re / Im
                    A = f.ndarray
                    wantR, wantI = np.zeros_like(A), np.zeros_like(A)
                    for l in range(La + 1):
                        i0 = l * (l + 1)
                        wantR[..., i0] = A[..., i0].real
                        wantI[..., i0] = A[..., i0].imag
                        for m in range(1, l + 1):
                            sg = 1.0 if m % 2 == 0 else -1.0
                            wantR[..., i0 + m] = (A[..., i0 + m] + sg * np.conjugate(A[..., i0 - m])) / 2
                            wantR[..., i0 - m] = sg * np.conjugate(wantR[..., i0 + m])
                            wantI[..., i0 + m] = -1j * (A[..., i0 + m] - sg * np.conjugate(A[..., i0 - m])) / 2
                            wantI[..., i0 - m] = sg * np.conjugate(wantI[..., i0 + m])
                    for pname, got, want in (("f.real", attempt("f.real", inp, lambda: f.real), wantR), ("f.imag", attempt("f.imag", inp, lambda: f.imag), wantI)):
                        run.corr_case("real-imag-weight-formula", (La, la, kf, pname), pname)
                        if got is not None and not helpers.bits_equal(got.ndarray + 0.0, want + 0.0):
                            run.corr_break("corr:real-imag-weight-formula", {**inp, "op": pname, "max_abs_diff": float(np.max(np.abs(got.ndarray - want)))})
                    for pname, op, expect in (("f.real", lambda: f.real, fe.real), ("f.imag", lambda: f.imag, fe.imag)):
                        r = attempt(pname, inp, op)
                        run.gap_case("real-imag", (La, la, pname), pname)
                        if r is not None and not (float(np.max(np.abs(ev(r, Rs) - expect))) <= tol(f)):
                            run.violation("real-imag-not-pointwise", pname, inp, "Re/Im of f(Q)", "differs")
                else:
                    for pname, op in (("f.real", lambda: f.real), ("f.imag", lambda: f.imag)):
                        try:
                            op()
                            run.violation("meaningless-operation-returned", pname, inp, "raise for non-zero spin", "returned")
                        except Exception:
                            pass
                # norm = L2 norm of the function = sqrt(sum |f_lm|^2)
                for nname, op in (("f.norm()", lambda: f.norm()), ("np.absolute(f)", lambda: np.absolute(f)), ("abs(f)", lambda: abs(f))):
                    r = attempt(nname, inp, op)
                    run.gap_case("norm", (s, La, la, nname), nname)
                    if r is not None and not np.allclose(np.asarray(r), np.sqrt(np.sum(np.abs(f.ndarray) ** 2, axis=-1)), rtol=1e-13, atol=0):
                        run.violation("norm-wrong", nname, inp, "sqrt(sum |f_lm|^2)", "differs")
    # norm / conjugation must act on the function also when the data were supplied from an ell_min below |s|
    for s_ in (-4, -2, 2, 3):
        for emin in range(1, abs(s_)):
            L = abs(s_) + 2
            n = (L + 1) ** 2 - emin ** 2
            data = np.array([complex(rng.gauss(0, 1), rng.gauss(0, 1)) for _ in range(n)])
            inp_ = {"s": s_, "ell_min": emin, "ell_max": L}
            try:
                f = spherical.Modes(data.copy(), spin_weight=s_, ell_min=emin, ell_max=L)
                want = np.sqrt(np.sum(np.abs(data[s_ ** 2 - emin ** 2:]) ** 2))
                run.gap_case("norm", (s_, emin, "low-ell_min"), "ell_min<|s|")
                if not np.isclose(float(f.norm()), want, rtol=1e-13) or not np.isclose(float(np.absolute(f)), want, rtol=1e-13):
                    run.violation("norm-wrong", "f.norm()", inp_, "L2 norm of the function (modes below |s| do not exist)", float(f.norm()))
                if not np.array_equal(f.bar.bar.ndarray, f.ndarray) or not np.isclose(float(f.bar.norm()), want, rtol=1e-13):
                    run.violation("conjugate-not-involution", "f.bar.bar", inp_, "conj(conj(f)) = f, same norm", "differs")
            except Exception as e:
                run.violation("operation-raised", "Modes(ell_min<|s|).norm()", inp_, "norm", repr(e))
    # rejections
    f0, f1 = helpers.make_modes(rng, 0, 3), helpers.make_modes(rng, 1, 3)
    must_raise = [("f(s=0)+f(s=1)", lambda: f0 + f1), ("f(s=0)-f(s=1)", lambda: f0 - f1), ("np.add mismatched spins", lambda: np.add(f0, f1)), ("f.add mismatched", lambda: f0.add(f1)),
                  ("f.subtract mismatched", lambda: f0.subtract(f1)), ("f+1.0", lambda: f1 + 1.0), ("1.0+f", lambda: 1.0 + f1), ("f-2", lambda: f0 - 2), ("f.add(3)", lambda: f0.add(3)),
                  ("f/f", lambda: f0 / f0), ("1/f", lambda: 1.0 / f0), ("f.divide(f)", lambda: f0.divide(f0)), ("np.divide(f,f)", lambda: np.divide(f0, f0))]
    for uf in (np.exp, np.log, np.sin, np.sqrt, np.square, np.floor, np.maximum, np.arctan2, np.power, np.tanh, np.sign):
        must_raise.append((f"np.{uf.__name__}(f)", (lambda uf=uf: uf(f0) if uf.nin == 1 else uf(f0, f0))))
    for name, op in must_raise:
        run.gap_case("rejections", name, "must-raise", {"op": name})
        try:
            r = op()
            run.violation("meaningless-operation-returned", name, {"op": name}, "raise", f"returned {type(r).__name__}")
        except Exception:
            pass
    # zero scalars are allowed and leave the function unchanged
    for name, op in (("f+0", lambda: f1 + 0), ("0+f", lambda: 0 + f1), ("f-0.0", lambda: f1 - 0.0)):
        r = None
        try:
            r = op()
        except Exception as e:
            run.violation("operation-raised", name, {"op": name}, "f", repr(e))
        if r is not None and (not isinstance(r, spherical.Modes) or r.spin_weight != 1 or not np.array_equal(r.ndarray, f1.ndarray)):
            run.violation("zero-scalar-add", name, {"op": name}, "f", "differs")
    from .. import layouts
    def _g(f):
        return helpers.make_modes(__import__("random").Random(7), f.spin_weight, f.ell_max + 1, (3,))
    layouts.sweep_modes(run, "algebra", [("f+g", lambda f: f + _g(f)), ("f-g", lambda f: f - _g(f)), ("g-f", lambda f: _g(f) - f), ("np.add(f,g)", lambda f: np.add(f, _g(f))),
                                         ("np.conjugate(f)", lambda f: np.conjugate(f)), ("f.bar", lambda f: f.bar), ("f.conjugate()", lambda f: f.conjugate()), ("-f", lambda f: -f),
                                         ("f.norm()", lambda f: f.norm()), ("f.real", lambda f: f.real), ("f.imag", lambda f: f.imag), ("np.absolute(f)", lambda f: np.absolute(f))],
                        [-2, 0, 1] if quick else range(-3, 4), exact=lambda nm: nm not in ("f.norm()", "np.absolute(f)"))
    run.assumptions += ["norm = L2 norm of the function relies on orthonormality of sYlm (not proved): the check is sqrt(sum |f_lm|^2)"]


def _b(fe, ge, la, lb, sign):
    n = fe.shape[-1]
    a = fe.reshape(la + (n,))
    b = ge.reshape(lb + (n,))
    # broadcast leading shapes, keep rotor axis last
    return a + sign * b if a.ndim == b.ndim else (a[..., None, :] + sign * b if False else _bc(a, b, sign))


def _bc(a, b, sign):
    n = a.shape[-1]
    la, lb = a.shape[:-1], b.shape[:-1]
    sh = np.broadcast_shapes(la, lb)
    return np.broadcast_to(a, sh + (n,)) + sign * np.broadcast_to(b, sh + (n,)) if True else None


def _conj_out(f):
    import spherical
    out = spherical.Modes(np.zeros_like(f.ndarray), spin_weight=f.spin_weight, ell_min=0, ell_max=f.ell_max)
    r = np.conjugate(f, out=out)
    return r


def _conj_alias(f):
    h = f.copy()
    r = np.conjugate(h, out=h)      # output aliases the operand
    if not np.shares_memory(r, h) or h.spin_weight != -f.spin_weight:
        raise AssertionError("in-place ufunc conjugation did not write into / relabel its operand")
    return r


def replay(body):
    print(body["input"], body["expected"], body["got"])
    return 0
