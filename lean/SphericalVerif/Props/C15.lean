import SphericalVerif.Props.C11
import SphericalVerif.Lemmas.Object
/-! C15 — the guards of the `Wigner` methods are exactly the documented preconditions, and they are sufficient
    for every table lookup the kernels perform to be in range.

    Statements are about the GENERATED guard functions `Gen.Wigner_*_ok` (the leading `if …: raise` statements of
    each method of spherical/wigner.py, re-translated on every run; `true` = no guard raises). -/
namespace C15
open Gen Spec
-- the guard proofs are uniform case splits; not every case needs every hypothesis
set_option linter.unusedSimpArgs false
set_option linter.unusedTactic false
set_option linter.unreachableTactic false
set_option linter.unnecessarySeqFocus false

/-! ### `__init__` -/

/-- `Wigner(ell_max, ell_min, mp_max)` is accepted iff `0 ≤ ell_min ≤ ell_max` (whatever `mp_max`).
    The second guard (`ell_max < 0`) can never fire once the first has passed. -/
theorem init_guard_iff (ell_min ell_max mp_max : Int) :
    Wigner___init___ok ell_min ell_max mp_max = true ↔ (0 ≤ ell_min ∧ ell_min ≤ ell_max) := by
  unfold Wigner___init___ok
  simp only []
  split
  · constructor
    · intro h; cases h
    · omega
  · split
    · constructor
      · intro h; cases h
      · omega
    · constructor
      · intro _; omega
      · intro _; rfl

/-- the stored `self.mp_max` is `min(|mp_max|, ell_max)` -/
theorem init_mp_max (ell_min ell_max mp_max : Int) :
    Wigner___init___self_mp_max ell_min ell_max mp_max = min (mp_max.natAbs : Int) ell_max := rfl

/-- hence every accepted object has `0 ≤ self.mp_max ≤ self.ell_max`, `0 ≤ self.ell_min ≤ self.ell_max` -/
theorem init_invariant (ell_min ell_max mp_max : Int) (h : Wigner___init___ok ell_min ell_max mp_max = true) :
    0 ≤ Wigner___init___self_mp_max ell_min ell_max mp_max
    ∧ Wigner___init___self_mp_max ell_min ell_max mp_max ≤ Wigner___init___self_ell_max ell_min ell_max mp_max
    ∧ 0 ≤ Wigner___init___self_ell_min ell_min ell_max mp_max
    ∧ Wigner___init___self_ell_min ell_min ell_max mp_max ≤ Wigner___init___self_ell_max ell_min ell_max mp_max := by
  have := (init_guard_iff ell_min ell_max mp_max).1 h
  rw [init_mp_max]
  show _ ∧ _ ≤ ell_max ∧ 0 ≤ ell_min ∧ ell_min ≤ ell_max
  omega

example : Wigner___init___ok 2 5 (-3) = true ∧ Wigner___init___self_mp_max 2 5 (-3) = 3 := by decide

/-! ### `d`, `D`, `sYlm`, `rotate`, `evaluate` -/

theorem d_guard_iff (P L : Int) : Wigner_d_ok P L = true ↔ L ≤ P := by
  unfold Wigner_d_ok
  split
  · constructor
    · intro h; cases h
    · omega
  · constructor
    · intro _; omega
    · intro _; rfl

/-- `D(R, out)`: `mp_max ≥ ell_max`, and a supplied `out` has size `Dsize * R.size // 4` and dtype complex -/
theorem D_guard_iff (P L : Int) (out_present : Bool) (out_size Dsize R_size : Int) (dtype_ne_complex : Bool) :
    Wigner_D_ok P L out_present out_size Dsize R_size dtype_ne_complex = true ↔
      (L ≤ P ∧ (out_present = true → out_size = Dsize * R_size / 4 ∧ dtype_ne_complex = false)) := by
  unfold Wigner_D_ok
  cases out_present <;> cases dtype_ne_complex <;>
    by_cases h1 : P < L <;> by_cases h2 : out_size = Dsize * R_size / 4 <;> simp [h1, h2] <;> omega

/-- for a whole number of rotors (`R.size = 4 k`) the required size is `Dsize * k` -/
theorem D_guard_size (Dsize R_size : Int) (h : R_size % 4 = 0) : Dsize * R_size / 4 = Dsize * (R_size / 4) := by
  obtain ⟨k, rfl⟩ : ∃ k, R_size = 4 * k := ⟨R_size / 4, by omega⟩
  rw [Int.mul_ediv_cancel_left _ (by decide : (4 : Int) ≠ 0), Int.mul_left_comm,
    Int.mul_ediv_cancel_left _ (by decide : (4 : Int) ≠ 0)]

theorem sYlm_guard_iff (s P : Int) (out_present : Bool) (out_size Ysize R_size : Int) (dtype_ne_complex : Bool) :
    Wigner_sYlm_ok s P out_present out_size Ysize R_size dtype_ne_complex = true ↔
      ((s.natAbs : Int) ≤ P ∧ (out_present = true → out_size = Ysize * R_size / 4 ∧ dtype_ne_complex = false)) := by
  unfold Wigner_sYlm_ok
  cases out_present <;> cases dtype_ne_complex <;>
    by_cases h1 : (s.natAbs : Int) > P <;> by_cases h2 : out_size = Ysize * R_size / 4 <;> simp [h1, h2] <;> omega

theorem rotate_guard_iff (P L modes_ell_min modes_ell_max modes_spin_weight : Int) :
    Wigner_rotate_ok P L modes_ell_min modes_ell_max modes_spin_weight = true ↔ (L ≤ P ∧ modes_ell_max ≤ L) := by
  unfold Wigner_rotate_ok
  by_cases h1 : P < L <;> by_cases h2 : modes_ell_max > L <;> simp [h1, h2] <;> omega

theorem evaluate_guard_iff (s modes_ell_min modes_ell_max P ell_min L : Int) :
    Wigner_evaluate_ok s modes_ell_min modes_ell_max P ell_min L = true ↔
      ((s.natAbs : Int) ≤ P ∧ ell_min ≤ max (s.natAbs : Int) modes_ell_min ∧ modes_ell_max ≤ L) := by
  unfold Wigner_evaluate_ok
  by_cases h1 : (s.natAbs : Int) > P <;> by_cases h2 : max (s.natAbs : Int) modes_ell_min < ell_min <;>
    by_cases h3 : modes_ell_max > L <;> simp [h1, h2, h3] <;> omega

example : Wigner_D_ok 4 4 true 330 165 8 false = true ∧ Wigner_D_ok 3 4 false 0 0 0 false = false
    ∧ Wigner_sYlm_ok (-2) 2 false 0 0 0 false = true ∧ Wigner_sYlm_ok (-3) 2 false 0 0 0 false = false
    ∧ Wigner_evaluate_ok (-2) 2 6 2 1 8 = true ∧ Wigner_rotate_ok 8 8 2 6 (-2) = true := by decide

/-! ### `_split_workspace` -/

theorem split_workspace_guard_iff (Hsize L workspace_size : Int) :
    Wigner__split_workspace_ok Hsize L workspace_size = true ↔
      Hsize + (L + 1) ^ 2 + (L + 2) + 2 * (L + 1) + 2 * (L + 1) + 6 ≤ workspace_size := by
  unfold Wigner__split_workspace_ok
  simp only []
  split
  · constructor
    · intro h; cases h
    · omega
  · constructor
    · intro _; omega
    · intro _; rfl

/-- the six parts `[0,i1) [i1,i2) … [i5,i6)` have the documented sizes, are consecutive (hence pairwise
    disjoint), and — when the guard passes — lie inside the workspace -/
theorem split_workspace_parts (Hsize L ws : Int) (hH : 0 ≤ Hsize) (hL : 0 ≤ L) :
    Wigner__split_workspace_i1 Hsize L ws = Hsize
    ∧ Wigner__split_workspace_i2 Hsize L ws - Wigner__split_workspace_i1 Hsize L ws = (L + 1) ^ 2
    ∧ Wigner__split_workspace_i3 Hsize L ws - Wigner__split_workspace_i2 Hsize L ws = L + 2
    ∧ Wigner__split_workspace_i4 Hsize L ws - Wigner__split_workspace_i3 Hsize L ws = 2 * (L + 1)
    ∧ Wigner__split_workspace_i5 Hsize L ws - Wigner__split_workspace_i4 Hsize L ws = 2 * (L + 1)
    ∧ Wigner__split_workspace_i6 Hsize L ws - Wigner__split_workspace_i5 Hsize L ws = 2 * 3
    ∧ 0 ≤ Wigner__split_workspace_i1 Hsize L ws
    ∧ Wigner__split_workspace_i1 Hsize L ws ≤ Wigner__split_workspace_i2 Hsize L ws
    ∧ Wigner__split_workspace_i2 Hsize L ws ≤ Wigner__split_workspace_i3 Hsize L ws
    ∧ Wigner__split_workspace_i3 Hsize L ws ≤ Wigner__split_workspace_i4 Hsize L ws
    ∧ Wigner__split_workspace_i4 Hsize L ws ≤ Wigner__split_workspace_i5 Hsize L ws
    ∧ Wigner__split_workspace_i5 Hsize L ws ≤ Wigner__split_workspace_i6 Hsize L ws
    ∧ (Wigner__split_workspace_ok Hsize L ws = true → Wigner__split_workspace_i6 Hsize L ws ≤ ws) := by
  have hsq : 0 ≤ (L + 1) ^ 2 := by positivity
  rw [split_workspace_guard_iff]
  unfold Wigner__split_workspace_i1 Wigner__split_workspace_i2 Wigner__split_workspace_i3
    Wigner__split_workspace_i4 Wigner__split_workspace_i5 Wigner__split_workspace_i6
  simp only []
  generalize (L + 1) ^ 2 = q at hsq ⊢
  refine ⟨?_, ?_, ?_, ?_, ?_, ?_, ?_, ?_, ?_, ?_, ?_, ?_, ?_⟩ <;> first | trivial | omega

/-- `new_workspace()` allocates exactly `i6` cells: the object's own workspace passes the guard with equality -/
theorem new_workspace_ok (Hsize L : Int) :
    Wigner__split_workspace_ok Hsize L (Hsize + (L + 1) ^ 2 + L + 2 + 2 * (L + 1) + 2 * (L + 1) + 2 * 3) = true
    ∧ Wigner__split_workspace_i6 Hsize L 0 = Hsize + (L + 1) ^ 2 + L + 2 + 2 * (L + 1) + 2 * (L + 1) + 2 * 3 := by
  rw [split_workspace_guard_iff]
  unfold Wigner__split_workspace_i6
  simp only []
  generalize (L + 1) ^ 2 = q
  omega

example : Wigner__split_workspace_ok 30 3 73 = true ∧ Wigner__split_workspace_ok 30 3 72 = false
    ∧ Wigner__split_workspace_i6 30 3 73 = 73 := by decide

/-! ### the guards make every lookup in range -/

/-- the H lookup of any `(mp, m)` with `|mp|, |m| ≤ ell ≤ L`, for an object whose `mp_max = P` is at least
    `min(|mp|, |m|)`: in range, and it is the slot of the wedge representative -/
theorem hlookup_in_range (P L ell mp m : Int) (hP : 0 ≤ P) (hl : 0 ≤ ell) (hL : ell ≤ L)
    (h1 : (mp.natAbs : Int) ≤ ell) (h2 : (m.natAbs : Int) ≤ ell)
    (h3 : (mp.natAbs : Int) ≤ P ∨ (m.natAbs : Int) ≤ P) :
    0 ≤ WignerHindex ell mp m (some P) ∧ WignerHindex ell mp m (some P) < WignerHsize P L ∧
    (hRange P L)[(WignerHindex ell mp m (some P)).toNat]? = some (ell, (wedgeRep mp m).1, (wedgeRep mp m).2) := by
  by_cases h0 : ell = 0
  · subst h0
    have e1 : mp = 0 := by omega
    have e2 : m = 0 := by omega
    subst e1 e2
    have := C11.hindex_get P L 0 0 0 hP (le_refl 0) hL (by omega) (by omega) (by simp) (le_refl 0)
    simpa [wedgeRep] using this
  · have hr := Lemmas.Object.wedgeRep_fst_le mp m
    exact C11.hindex_fold_get P L ell mp m hP (by omega) hL (by omega) (by omega) (by omega) (by omega) (by omega)

/-- `sYlm(s, R)`: once the guard has passed (object with `0 ≤ mp_max = P ≤ ell_max = L`), every lookup
    `Hwedge[WignerHindex(ell, m, -s, mp_max)]` of `_fill_sYlm` is in `[0, Hsize)` and reads the wedge representative -/
theorem guard_sound_sYlm (s P L out_size Ysize R_size : Int) (b : Bool) (hP : 0 ≤ P) (_hPL : P ≤ L)
    (hg : Wigner_sYlm_ok s P false out_size Ysize R_size b = true)
    (ell m : Int) (hs : (s.natAbs : Int) ≤ ell) (hL : ell ≤ L) (hm : (m.natAbs : Int) ≤ ell) :
    0 ≤ WignerHindex ell m (-s) (some P) ∧ WignerHindex ell m (-s) (some P) < WignerHsize P L ∧
    (hRange P L)[(WignerHindex ell m (-s) (some P)).toNat]?
      = some (ell, (wedgeRep m (-s)).1, (wedgeRep m (-s)).2) := by
  have h := ((sYlm_guard_iff s P false out_size Ysize R_size b).1 hg).1
  exact hlookup_in_range P L ell m (-s) hP (by omega) hL hm (by omega) (Or.inr (by omega))

/-- `evaluate(modes, R)`: once the guards have passed, every H entry `(ell, m, -s)` the evaluation needs
    (`|s| ≤ ell ≤ modes.ell_max`, `|m| ≤ ell`) is in range -/
theorem guard_sound_evaluate (s modes_ell_min modes_ell_max P ell_min L : Int) (hP : 0 ≤ P) (_hPL : P ≤ L)
    (hg : Wigner_evaluate_ok s modes_ell_min modes_ell_max P ell_min L = true)
    (ell m : Int) (hs : (s.natAbs : Int) ≤ ell) (hL : ell ≤ modes_ell_max) (hm : (m.natAbs : Int) ≤ ell) :
    0 ≤ WignerHindex ell m (-s) (some P) ∧ WignerHindex ell m (-s) (some P) < WignerHsize P L ∧
    (hRange P L)[(WignerHindex ell m (-s) (some P)).toNat]?
      = some (ell, (wedgeRep m (-s)).1, (wedgeRep m (-s)).2) := by
  have h := (evaluate_guard_iff s modes_ell_min modes_ell_max P ell_min L).1 hg
  exact hlookup_in_range P L ell m (-s) hP (by omega) (by omega) hm (by omega) (Or.inr (by omega))

/-- `d` / `D` / `rotate`: once the guard `mp_max ≥ ell_max` has passed, every `(ell, mp, m)` with
    `ell_min ≤ ell ≤ L`, `|mp|, |m| ≤ ell` has its H lookup in `[0, Hsize)` and its output slot
    `WignerDindex(ell, mp, m, ell_min)` (default `mp_max = -1`) in `[0, Dsize)`, at the documented position -/
theorem guard_sound_D (P L ell_min : Int) (h0 : 0 ≤ ell_min) (hg : Wigner_d_ok P L = true)
    (ell mp m : Int) (hl : ell_min ≤ ell) (hL : ell ≤ L) (hmp : (mp.natAbs : Int) ≤ ell) (hm : (m.natAbs : Int) ≤ ell) :
    (0 ≤ WignerHindex ell mp m (some P) ∧ WignerHindex ell mp m (some P) < WignerHsize P L ∧
      (hRange P L)[(WignerHindex ell mp m (some P)).toNat]? = some (ell, (wedgeRep mp m).1, (wedgeRep mp m).2))
    ∧ (0 ≤ WignerDindex ell mp m ell_min (-1) ∧ WignerDindex ell mp m ell_min (-1) < WignerDsize ell_min P L ∧
      (dRange ell_min P L)[(WignerDindex ell mp m ell_min (-1)).toNat]? = some (ell, mp, m)) := by
  have hPL := (d_guard_iff P L).1 hg
  refine ⟨hlookup_in_range P L ell mp m (by omega) (by omega) hL hmp hm (Or.inl (by omega)), ?_⟩
  rw [C11.dindex_default ell mp m ell_min (-1) (by decide)]
  have hd := C11.dindex_get ell_min ell L ell mp m h0 hl hL (by omega) (by omega) (by omega) (by omega) (by omega)
  -- positions and sizes for `mp_max = ell` and `mp_max = P ≥ L ≥ ell` coincide on this entry
  have hd' := C11.dindex_get ell_min P L ell mp m h0 hl hL (by omega) (by omega) (by omega) (by omega) (by omega)
  have e : WignerDindex ell mp m ell_min ell = WignerDindex ell mp m ell_min P := by
    unfold WignerDindex
    have e1 : min P ell = ell := by omega
    have e2 : ¬ (P < 0) := by omega
    have e3 : ¬ (ell < 0) := by omega
    rw [if_neg e2, if_neg e3]
    simp only [e1, Int.min_self]
    by_cases h4 : ell > ell_min
    · rw [if_pos h4, if_pos h4]
      have e5 : WignerDsize ell_min ell (ell - 1) = WignerDsize ell_min P (ell - 1) := by
        unfold WignerDsize
        have c1 : ¬ (ell - 1 < 0) := by omega
        have c2 : ell ≥ ell - 1 := by omega
        have c3 : P ≥ ell - 1 := by omega
        simp only [c1, c2, c3, if_true, if_false]
      rw [e5]
    · rw [if_neg h4, if_neg h4]
  rw [e]
  exact hd'

example : Wigner_sYlm_ok (-2) 2 false 0 0 0 false = true ∧ (0 : Int) ≤ 2 ∧ (2 : Int) ≤ 5
    ∧ (((-2 : Int).natAbs : Int) ≤ 4) ∧ (4 : Int) ≤ 5 ∧ (((-3 : Int).natAbs : Int) ≤ 4) := by decide

example : Wigner_d_ok 5 5 = true ∧ (1 : Int) ≤ 4 ∧ (4 : Int) ≤ 5 ∧ (((-4 : Int).natAbs : Int) ≤ 4)
    ∧ (((3 : Int).natAbs : Int) ≤ 4) := by decide

end C15
