import SphericalVerif.Lemmas.DocD3
/-! Relation (41) of Gumerov–Duraiswami for the documented d: the m' = 1 column of degree n from the m' = 0 column of
    degree n+1.

    Polynomial content: with P = u^{n+1} v^{n+1} and the lowering operator L_k p := u p' + k·sh·p,
    L_{2n+1} L_{2n+2} P = n(n+1) u^{n+1} v^{n−1}. -/
noncomputable section
namespace DocD
open Polynomial Nat Model GDFamily
set_option linter.unusedVariables false

variable (ch sh : ℝ)

/-- n(n+1) q_J = sh² (I+1)(I+2) r_J + 2 ch sh (I+1)(J+1) r_{J+1} + ch² (J+1)(J+2) r_{J+2},
    q = coefficients of u^{n+1} v^{n−1}, r = coefficients of u^{n+1} v^{n+1}, n = N+1, I + J = 2n -/
theorem raw41 (hcs : ch ^ 2 + sh ^ 2 = 1) (N I J : ℕ) (h : I + J = 2 * N + 2) :
    ((N : ℝ) + 1) * ((N : ℝ) + 2) * T ch sh (N + 2) N J =
      sh ^ 2 * (((I : ℝ) + 1) * ((I : ℝ) + 2)) * T ch sh (N + 2) (N + 2) J
      + 2 * ch * sh * (((I : ℝ) + 1) * ((J : ℝ) + 1)) * T ch sh (N + 2) (N + 2) (J + 1)
      + ch ^ 2 * (((J : ℝ) + 1) * ((J : ℝ) + 2)) * T ch sh (N + 2) (N + 2) (J + 2) := by
  have hR : (I : ℝ) + J = 2 * N + 2 := by exact_mod_cast h
  have l0 := lower_b ch sh hcs (N + 2) N J
  have l1 := lower_b ch sh hcs (N + 2) (N + 1) J
  have l2 := lower_b ch sh hcs (N + 2) (N + 1) (J + 1)
  push_cast at l0 l1 l2
  have eI : (I : ℝ) = 2 * N + 2 - J := by linarith
  rw [eI]
  linear_combination ((N : ℝ) + 2) * l0 + (sh * (2 * (N : ℝ) + 3 - J)) * l1 + (ch * ((J : ℝ) + 1)) * l2

theorem sq_sqrt_mul (x y : ℝ) (hx : 0 ≤ x) (hy : 0 ≤ y) : Real.sqrt (x * y) * Real.sqrt (x * y) = x * y :=
  Real.mul_self_sqrt (mul_nonneg hx hy)

/-- nrm(a,b+2,i,j) · √((b+1)(b+2)) = nrm(a,b,i,j) -/
theorem nrm_b2 (a b i j : ℕ) :
    nrm a (b + 2) i j * Real.sqrt (((b : ℝ) + 1) * ((b : ℝ) + 2)) = nrm a b i j := by
  rw [nrm_eq, nrm_eq, w_succ (b + 1), w_succ b, Real.sqrt_mul (by positivity)]
  have h1 : Real.sqrt ((b : ℝ) + 1) ≠ 0 := (Real.sqrt_pos.mpr (by positivity)).ne'
  have h2 : Real.sqrt ((b : ℝ) + 2) ≠ 0 := (Real.sqrt_pos.mpr (by positivity)).ne'
  have := w_ne a; have := w_ne b
  push_cast
  rw [show ((b : ℝ) + 1 + 1) = (b : ℝ) + 2 by ring]
  field_simp

/-- √((i+1)(i+2)) · nrm(a,b,i+2,j) = (i+1)(i+2) · nrm(a,b,i,j) -/
theorem nrm_i2 (a b i j : ℕ) :
    Real.sqrt (((i : ℝ) + 1) * ((i : ℝ) + 2)) * nrm a b (i + 2) j = (((i : ℝ) + 1) * ((i : ℝ) + 2)) * nrm a b i j := by
  rw [nrm_eq, nrm_eq, w_succ (i + 1), w_succ i, Real.sqrt_mul (by positivity)]
  have h1 := Real.mul_self_sqrt (show (0 : ℝ) ≤ (i : ℝ) + 1 by positivity)
  have h2 := Real.mul_self_sqrt (show (0 : ℝ) ≤ (i : ℝ) + 2 by positivity)
  push_cast
  rw [show ((i : ℝ) + 1 + 1) = (i : ℝ) + 2 by ring, ← mul_div_assoc, ← mul_div_assoc]
  congr 1
  linear_combination (Real.sqrt ((i : ℝ) + 2) * Real.sqrt ((i : ℝ) + 2) * w i * w j) * h1
    + (((i : ℝ) + 1) * w i * w j) * h2

/-- √((j+1)(j+2)) · nrm(a,b,i,j+2) = (j+1)(j+2) · nrm(a,b,i,j) -/
theorem nrm_j2 (a b i j : ℕ) :
    Real.sqrt (((j : ℝ) + 1) * ((j : ℝ) + 2)) * nrm a b i (j + 2) = (((j : ℝ) + 1) * ((j : ℝ) + 2)) * nrm a b i j := by
  rw [nrm_eq, nrm_eq, w_succ (j + 1), w_succ j, Real.sqrt_mul (by positivity)]
  have h1 := Real.mul_self_sqrt (show (0 : ℝ) ≤ (j : ℝ) + 1 by positivity)
  have h2 := Real.mul_self_sqrt (show (0 : ℝ) ≤ (j : ℝ) + 2 by positivity)
  push_cast
  rw [show ((j : ℝ) + 1 + 1) = (j : ℝ) + 2 by ring, ← mul_div_assoc, ← mul_div_assoc]
  congr 1
  linear_combination (Real.sqrt ((j : ℝ) + 2) * Real.sqrt ((j : ℝ) + 2) * w i * w j) * h1
    + (((j : ℝ) + 1) * w i * w j) * h2

/-- √((i+1)(j+1)) · nrm(a,b,i+1,j+1) = (i+1)(j+1) · nrm(a,b,i,j) -/
theorem nrm_ij (a b i j : ℕ) :
    Real.sqrt (((i : ℝ) + 1) * ((j : ℝ) + 1)) * nrm a b (i + 1) (j + 1) = (((i : ℝ) + 1) * ((j : ℝ) + 1)) * nrm a b i j := by
  rw [nrm_eq, nrm_eq, w_succ i, w_succ j, Real.sqrt_mul (by positivity)]
  have h1 := Real.mul_self_sqrt (show (0 : ℝ) ≤ (i : ℝ) + 1 by positivity)
  have h2 := Real.mul_self_sqrt (show (0 : ℝ) ≤ (j : ℝ) + 1 by positivity)
  rw [← mul_div_assoc, ← mul_div_assoc]
  congr 1
  linear_combination (Real.sqrt ((j : ℝ) + 1) * Real.sqrt ((j : ℝ) + 1) * w i * w j) * h1
    + (((i : ℝ) + 1) * w i * w j) * h2

/-- (41), normalised, natural-number indices: n = N+1, I = n+m, J = n−m -/
theorem dN41 (hcs : ch ^ 2 + sh ^ 2 = 1) (N I J : ℕ) (h : I + J = 2 * N + 2) :
    Real.sqrt (((N : ℝ) + 1) * ((N : ℝ) + 2)) * dN ch sh (N + 2) N I J =
      sh ^ 2 * Real.sqrt (((I : ℝ) + 1) * ((I : ℝ) + 2)) * dN ch sh (N + 2) (N + 2) (I + 2) J
      + 2 * ch * sh * Real.sqrt (((I : ℝ) + 1) * ((J : ℝ) + 1)) * dN ch sh (N + 2) (N + 2) (I + 1) (J + 1)
      + ch ^ 2 * Real.sqrt (((J : ℝ) + 1) * ((J : ℝ) + 2)) * dN ch sh (N + 2) (N + 2) I (J + 2) := by
  have r := raw41 ch sh hcs N I J h
  have hS := sq_sqrt_mul ((N : ℝ) + 1) ((N : ℝ) + 2) (by positivity) (by positivity)
  have hSne : Real.sqrt (((N : ℝ) + 1) * ((N : ℝ) + 2)) ≠ 0 := (Real.sqrt_pos.mpr (by positivity)).ne'
  have n0 := nrm_b2 (N + 2) N I J
  have n1 := nrm_i2 (N + 2) (N + 2) I J
  have n2 := nrm_ij (N + 2) (N + 2) I J
  have n3 := nrm_j2 (N + 2) (N + 2) I J
  unfold dN
  set S := Real.sqrt (((N : ℝ) + 1) * ((N : ℝ) + 2)) with hSdef
  set K := nrm (N + 2) (N + 2) I J with hK
  rw [← n0]
  -- everything is K × (raw41) after the n-lemmas
  linear_combination (sh ^ 2 * T ch sh (N + 2) (N + 2) J) * (-n1)
    + (2 * ch * sh * T ch sh (N + 2) (N + 2) (J + 1)) * (-n2)
    + (ch ^ 2 * T ch sh (N + 2) (N + 2) (J + 2)) * (-n3)
    + (K * T ch sh (N + 2) N J) * hS + K * r

theorem eps_nonpos (k : ℤ) (h : k ≤ 0) : eps k = 1 := by unfold eps; rw [if_pos h]

theorem sqrt_int_div (x y : ℤ) (X : ℝ) (hX : 0 ≤ X) (h : (x : ℝ) = X) :
    Real.sqrt ((x : ℝ) / (y : ℝ)) = Real.sqrt X / Real.sqrt (y : ℝ) := by
  rw [h, Real.sqrt_div hX]

/-- relation (41) for `Hdoc` -/
theorem Hdoc_rel41 (hcs : ch ^ 2 + sh ^ 2 = 1) (n : ℕ) (m : ℤ) (h1 : 1 ≤ m) (h2 : m ≤ n) :
    gdB ((n : ℤ) + 1) 0 * Hdoc ch sh n 1 m =
      gdB ((n : ℤ) + 1) (-m - 1) * (1 - (ch ^ 2 - sh ^ 2)) / 2 * Hdoc ch sh (n + 1) 0 (m + 1)
        - gdB ((n : ℤ) + 1) (m - 1) * (1 + (ch ^ 2 - sh ^ 2)) / 2 * Hdoc ch sh (n + 1) 0 (m - 1)
        - gdA n m * (2 * ch * sh) * Hdoc ch sh (n + 1) 0 m := by
  obtain ⟨N, rfl⟩ : ∃ N : ℕ, n = N + 1 := ⟨n - 1, by omega⟩
  obtain ⟨I, hI⟩ : ∃ I : ℕ, (I : ℤ) = ((N + 1 : ℕ) : ℤ) + m := ⟨(((N + 1 : ℕ) : ℤ) + m).toNat, by omega⟩
  obtain ⟨J, hJ⟩ : ∃ J : ℕ, (J : ℤ) = ((N + 1 : ℕ) : ℤ) - m := ⟨(((N + 1 : ℕ) : ℤ) - m).toNat, by omega⟩
  have hIr : (I : ℝ) = (N : ℝ) + 1 + m := by exact_mod_cast hI
  have hJr : (J : ℝ) = (N : ℝ) + 1 - m := by exact_mod_cast hJ
  have core := dN41 ch sh hcs N I J (by omega)
  unfold Hdoc
  rw [docd_eq_dN ch sh (N + 1) 1 m (N + 2) N I J (by omega) (by omega) hI hJ,
    docd_eq_dN ch sh (N + 1 + 1) 0 (m + 1) (N + 2) (N + 2) (I + 2) J (by omega) (by omega) (by omega) (by omega),
    docd_eq_dN ch sh (N + 1 + 1) 0 (m - 1) (N + 2) (N + 2) I (J + 2) (by omega) (by omega) (by omega) (by omega),
    docd_eq_dN ch sh (N + 1 + 1) 0 m (N + 2) (N + 2) (I + 1) (J + 1) (by omega) (by omega) (by omega) (by omega),
    eps_nonpos (-m) (by omega), eps_nonpos (-(m + 1)) (by omega), eps_nonpos (-(m - 1)) (by omega)]
  have e1 : eps 1 = -1 := by decide
  have e0 : eps 0 = 1 := by decide
  rw [e1, e0]
  unfold gdB gdA sgn
  rw [if_neg (by omega), if_pos (by omega), if_neg (by omega),
    sqrt_int_div _ _ (((N : ℝ) + 1) * ((N : ℝ) + 2)) (by positivity) (by push_cast; ring),
    sqrt_int_div _ _ (((I : ℝ) + 1) * ((I : ℝ) + 2)) (by positivity) (by push_cast; rw [hIr]; ring),
    sqrt_int_div _ _ (((J : ℝ) + 1) * ((J : ℝ) + 2)) (by positivity) (by push_cast; rw [hJr]; ring),
    sqrt_int_div _ _ (((I : ℝ) + 1) * ((J : ℝ) + 1)) (by positivity) (by push_cast; rw [hIr, hJr]; ring)]
  have eD : (((2 * (((N + 1 : ℕ) : ℤ) + 1) - 1) * (2 * (((N + 1 : ℕ) : ℤ) + 1) + 1) : ℤ) : ℝ)
      = (((2 * ((N + 1 : ℕ) : ℤ) + 1) * (2 * ((N + 1 : ℕ) : ℤ) + 3) : ℤ) : ℝ) := by push_cast; ring
  rw [eD]
  set D := Real.sqrt (((2 * ((N + 1 : ℕ) : ℤ) + 1) * (2 * ((N + 1 : ℕ) : ℤ) + 3) : ℤ) : ℝ) with hD
  push_cast
  linear_combination (-1 / D) * core
    - ((Real.sqrt (((I : ℝ) + 1) * ((I : ℝ) + 2)) * dN ch sh (N + 2) (N + 2) (I + 2) J
        + Real.sqrt (((J : ℝ) + 1) * ((J : ℝ) + 2)) * dN ch sh (N + 2) (N + 2) I (J + 2)) / (2 * D)) * hcs

end DocD
end
