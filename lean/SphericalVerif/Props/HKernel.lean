import SphericalVerif.Lemmas.HRefine6
/-! Properties of the H recursion (`Model.runH`, the validated model of `_step_1` … `_step_5`), corollaries of the
    refinement theorem `HRefine.runH_refines`: every wedge cell holds `Spec.valW c s n m' m`, a function of the
    coordinates and of (c, s) = (cos β, sin β) only.  They hold for every arithmetic `Scalar α` (no laws assumed,
    so in particular for IEEE doubles, bit for bit) and every lawful memory.
    The hypotheses `P ≤ L` delimit the configurations the kernels accept; the proofs do not use them. -/
namespace HKernel
open Model

/-- (C-pure) the wedge computed by `runH` does not depend on the initial contents of the workspace -/
theorem runH_pure {α : Type} [Scalar α] {μ : Type} [Mem μ α] [LawfulMem μ α]
    (L P : Nat) (_hPL : P ≤ L) (c s : α) (st₁ st₂ : μ) (n : Nat) (mp : Int) (m : Nat)
    (hn : n ≤ L) (hmp : mp.natAbs ≤ min n P) (hm1 : mp.natAbs ≤ m) (hm2 : m ≤ n) :
    rd (α := α) (runH L P c s st₁) (.hw n mp m) = rd (runH L P c s st₂) (.hw n mp m) := by
  rw [HRefine.runH_refines L P c s st₁ n mp m hn hmp hm1 hm2, HRefine.runH_refines L P c s st₂ n mp m hn hmp hm1 hm2]

/-- (C-size) two calculators of different sizes (ell_max, mp_max), with workspaces of possibly different
    representations and contents, agree on every cell that lies in both wedges -/
theorem runH_size_indep {α : Type} [Scalar α] {μ₁ : Type} [Mem μ₁ α] [LawfulMem μ₁ α]
    {μ₂ : Type} [Mem μ₂ α] [LawfulMem μ₂ α]
    (L₁ P₁ L₂ P₂ : Nat) (_hPL₁ : P₁ ≤ L₁) (_hPL₂ : P₂ ≤ L₂) (c s : α) (st₁ : μ₁) (st₂ : μ₂)
    (n : Nat) (mp : Int) (m : Nat)
    (hn₁ : n ≤ L₁) (hmp₁ : mp.natAbs ≤ min n P₁) (hn₂ : n ≤ L₂) (hmp₂ : mp.natAbs ≤ min n P₂)
    (hm1 : mp.natAbs ≤ m) (hm2 : m ≤ n) :
    rd (α := α) (runH L₁ P₁ c s st₁) (.hw n mp m) = rd (runH L₂ P₂ c s st₂) (.hw n mp m) := by
  rw [HRefine.runH_refines L₁ P₁ c s st₁ n mp m hn₁ hmp₁ hm1 hm2,
      HRefine.runH_refines L₂ P₂ c s st₂ n mp m hn₂ hmp₂ hm1 hm2]

/-- the hypotheses are satisfiable at a non-trivial point: cell (3, -2, 2) lies in the wedge (L, P) = (3, 2) and in
    the wedge (5, 4); executable memories (`HMem`, as in the bitwise correspondence runs) vs. function memories -/
example (c s : Float) (st₁ : HMem Float) (st₂ : Loc → Float) :
    rd (α := Float) (runH 3 2 c s st₁) (.hw 3 (-2) 2) = rd (runH 5 4 c s st₂) (.hw 3 (-2) 2) :=
  runH_size_indep 3 2 5 4 (by decide) (by decide) c s st₁ st₂ 3 (-2) 2
    (by decide) (by decide) (by decide) (by decide) (by decide) (by decide)

example {α : Type} [Scalar α] (c s : α) (st₁ st₂ : Loc → α) :
    rd (α := α) (runH 3 2 c s st₁) (.hw 3 (-2) 2) = rd (runH 3 2 c s st₂) (.hw 3 (-2) 2) :=
  runH_pure 3 2 (by decide) c s st₁ st₂ 3 (-2) 2 (by decide) (by decide) (by decide) (by decide)

end HKernel
