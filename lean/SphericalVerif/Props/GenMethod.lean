import SphericalVerif.Gen.MethodKern
import SphericalVerif.Props.Footprint
/-! GenMethod — **the wiring of the public methods, from the method text**.

    `Gen/MethodKern.lean` is regenerated on every run from the bodies of `Wigner.D`, `Wigner.sYlm` and the Horner branches
    of `Wigner.evaluate` and `Wigner.rotate` (and from `Wigner._split_workspace`, which fixes the shapes of the power arrays):
    the kernel calls for one rotor in the order and with the arguments the Python text gives them, every read-only argument
    being the *current content* of the array at the time of the call.  The theorems below identify each of them with the
    chain of `GenChain` (inputs captured where they are produced), whenever the workspace parts and the output are pairwise
    distinct arrays — which is what `_split_workspace` guarantees (consecutive slices; checked syntactically by the
    translator) and what the footprint theorems (`Footprint.*_only`) turn into "still there when read".  Hence everything
    `GenChain` proves (`gen_D_chain(_doc)`, `gen_Y_chain(_doc)`, `gen_evaluate_chain(_doc)`, `gen_rotate_chain(_doc)`) is a
    statement about the generated method bodies: a change of the order of the calls, of which phase goes where, of the array
    a kernel is handed, or of the workspace layout changes the definition these theorems are about. -/
namespace GenMethod
open Gen Frame Footprint GenH

section
variable {α : Type} [Scalar α] {φ : Type} [FMem φ α] [LawfulFMem φ α]

/-- `_complex_powers` on a one-element slice reads that one element -/
theorem cpow_one (zr : Int → Cx α) (M : Int) (zp : Nat) (nc : Int) (imsqrt : Cx α → α) (fuel : Nat) (st : φ) :
    Gen.u_complex_powers (α := α) zr M zp 1 nc imsqrt fuel st
      = Gen.u_complex_powers (α := α) (fun _ => zr 0) M zp 1 nc imsqrt fuel st := by
  rw [GenCPow.gen_eq_rows, GenCPow.gen_eq_rows]
  rfl

theorem half_double (L : Nat) : ((2 : Int) * ((L : Int) + (1 : Int))) / 2 = (L : Int) + 1 := by omega

/-- the body of `Wigner.D`'s loop, as generated from the method, is the chain of `GenChain.gen_D_chain` -/
theorem D_rotor_eq (L : Nat) (ell_min : Int) (zI aI gI DI : Nat) (a b d g h : Int → α) (imsqrt : Cx α → α) (R : Int → α) (st : φ)
    (hz : 2 < zI) (ha : 2 < aI) (hg : 2 < gI) (hza : zI ≠ aI) (hzg : zI ≠ gI) (hag : aI ≠ gI) :
    Gen.Wigner_D_rotor (α := α) R zI g h (L : Int) (L : Int) a b d idW idV idX DI aI imsqrt gI ell_min st
      = GenChain.wignerD L ell_min zI aI gI DI a b d g h imsqrt R st := by
  rw [← gen_D_chain_inplace L ell_min zI aI gI DI a b d g h imsqrt R st hz ha hg hza hzg hag]
  unfold Gen.Wigner_D_rotor Footprint.wignerD'
  simp only [half_double]
  rw [cpow_one]
  conv => lhs; arg 8; rw [cpow_one]
  rfl

/-- reading an array that `Wigner.H` does not own, after `Wigner.H` -/
theorem frdC_after_H (g h : Int → α) (L P : Int) (a b d : Int → α) (w : Cx α) (st : φ) (zI : Nat) (hz : 2 < zI) (i : Int) :
    frdC (α := α) (Gen.Wigner_H (α := α) g h L P a b d w idW idV idX st) zI i = frdC (α := α) st zI i :=
  Only.frdC _ _ _ (wigner_H_only g h L P a b d w idW idV idX st) zI i (by simp [idW, idV, idX]; omega)

/-- the body of `Wigner.sYlm`'s loop, as generated from the method, is the chain of `GenChain.gen_Y_chain`, the library power
    `z[2]**abs(s)` being taken of the phase the Euler kernel wrote -/
theorem sYlm_rotor_eq (L P : Nat) (ell_min sw : Int) (zI aI YI : Nat) (a b d g h : Int → α) (imsqrt : Cx α → α)
    (cpowi : Cx α → Int → Cx α) (R : Int → α) (st : φ) (hz : 2 < zI) (ha : 2 < aI) (hza : zI ≠ aI) :
    Gen.Wigner_sYlm_rotor (α := α) R zI g h (L : Int) (P : Int) a b d idW idV idX YI aI imsqrt cpowi sw ell_min st
      = GenChain.wignerY L P ell_min sw zI aI YI a b d g h imsqrt
          (cpowi (frdC (α := α) (Gen.u_to_euler_phases (α := α) R zI st) zI 2) ((Int.natAbs sw : Nat) : Int)) R st := by
  unfold Gen.Wigner_sYlm_rotor GenChain.wignerY
  simp only [half_double]
  rw [cpow_one]
  generalize Gen.u_to_euler_phases (α := α) R zI st = st1
  have e0 : frdC (α := α) (Gen.Wigner_H (α := α) g h (L : Int) (P : Int) a b d (frdC (α := α) st1 zI 1) idW idV idX st1) zI ((0 : Int) + 0)
      = frdC (α := α) st1 zI 0 := frdC_after_H g h _ _ a b d _ st1 zI hz _
  rw [e0]
  generalize hH : Gen.Wigner_H (α := α) g h (L : Int) (P : Int) a b d (frdC (α := α) st1 zI 1) idW idV idX st1 = stH
  have fa := cpow_only (fun _ => frdC (α := α) st1 zI 0) (L : Int) aI 1 ((L : Int) + 1) imsqrt 4 stH
  have e2 : frdC (α := α) (Gen.u_complex_powers (α := α) (fun _ => frdC (α := α) st1 zI 0) (L : Int) aI 1 ((L : Int) + 1) imsqrt 4 stH) zI 2
      = frdC (α := α) st1 zI 2 := by
    rw [Only.frdC _ _ _ fa zI 2 (by simp; exact hza), ← hH]; exact frdC_after_H g h _ _ a b d _ st1 zI hz _
  have eW : ∀ i, frd (α := α) (Gen.u_complex_powers (α := α) (fun _ => frdC (α := α) st1 zI 0) (L : Int) aI 1 ((L : Int) + 1) imsqrt 4 stH) idW i
      = frd (α := α) stH idW i := fun i => fa idW i (by simp [idW]; omega)
  simp only [e2, eW]

/-- the body of the Horner branch of `Wigner.evaluate`, as generated from the method, is the chain of `GenChain.gen_evaluate_chain` -/
theorem evaluate_rotor_eq (L P : Nat) (sw : Int) (ellMax : Nat) (zI fvI : Nat) (a b d g h : Int → α) (cpowi : Cx α → Int → Cx α) (ncols : Int)
    (farr : Array (Cx α)) (R : Int → α) (st : φ) (hz : 2 < zI) :
    Gen.Wigner_evaluate_rotor (α := α) R zI g h (L : Int) (P : Int) a b d idW idV idX (fun i => Model.cget farr i.toNat) fvI
        0 0 (ellMax : Int) sw 1 ncols cpowi st
      = GenChain.wignerEval L P sw ellMax zI fvI a b d g h cpowi ncols farr R st := by
  unfold Gen.Wigner_evaluate_rotor GenChain.wignerEval
  simp only []
  rw [frdC_after_H g h _ _ a b d _ _ zI hz 0, frdC_after_H g h _ _ a b d _ _ zI hz 2]

/-- the Horner branch of `Wigner.rotate`, as generated from the method, is the chain of `GenChain.gen_rotate_chain` -/
theorem rotate_rotor_eq (L : Nat) (sw : Int) (ellMax : Nat) (zI flnI nT pT : Nat) (a b d g h : Int → α) (cpowi : Cx α → Int → Cx α) (ncn nc : Int)
    (farr : Array (Cx α)) (R : Int → α) (st : φ) (hz : 2 < zI) :
    Gen.Wigner_rotate_rotor (α := α) R zI g h (L : Int) (L : Int) a b d idW idV idX (fun i => Model.cget farr i.toNat) flnI
        0 0 (ellMax : Int) sw nT pT 1 1 ncn nc cpowi st
      = GenChain.wignerRot L sw ellMax zI flnI nT pT a b d g h cpowi ncn nc farr R st := by
  unfold Gen.Wigner_rotate_rotor GenChain.wignerRot
  simp only []
  rw [frdC_after_H g h _ _ a b d _ _ zI hz 0, frdC_after_H g h _ _ a b d _ _ zI hz 2]

/-! ### what a whole method body writes: its workspace parts and its output, nothing else -/

macro "sub_ids" : tactic => `(tactic| (intro a ha; simp only [List.mem_cons, List.mem_singleton, List.not_mem_nil, or_false] at ha ⊢; tauto))

theorem D_rotor_only (R : Int → α) (zI : Nat) (g h : Int → α) (L P : Int) (a b d : Int → α) (Hw Hv Hx DI aI : Nat) (imsqrt : Cx α → α) (gI : Nat)
    (ell_min : Int) (st : φ) :
    Only α [Hw, Hv, Hx, zI, aI, gI, DI] st (Gen.Wigner_D_rotor (α := α) R zI g h L P a b d Hw Hv Hx DI aI imsqrt gI ell_min st) := by
  unfold Gen.Wigner_D_rotor
  simp only []
  refine Only.trans _ _ _ _ ?_ (Only.mono _ _ _ _ (by sub_ids) (fill_D_only _ _ _ DI _ _ _ _))
  refine Only.trans _ _ _ _ ?_ (Only.mono _ _ _ _ (by sub_ids) (cpow_only _ _ gI _ _ _ _ _))
  refine Only.trans _ _ _ _ ?_ (Only.mono _ _ _ _ (by sub_ids) (cpow_only _ _ aI _ _ _ _ _))
  refine Only.trans _ _ _ _ ?_ (Only.mono _ _ _ _ (by sub_ids) (wigner_H_only g h L P a b d _ Hw Hv Hx _))
  exact Only.mono _ _ _ _ (by sub_ids) (euler_only R zI st)

theorem sYlm_rotor_only (R : Int → α) (zI : Nat) (g h : Int → α) (L P : Int) (a b d : Int → α) (Hw Hv Hx YI aI : Nat) (imsqrt : Cx α → α)
    (cpowi : Cx α → Int → Cx α) (s ell_min : Int) (st : φ) :
    Only α [Hw, Hv, Hx, zI, aI, YI] st (Gen.Wigner_sYlm_rotor (α := α) R zI g h L P a b d Hw Hv Hx YI aI imsqrt cpowi s ell_min st) := by
  unfold Gen.Wigner_sYlm_rotor
  simp only []
  refine Only.trans _ _ _ _ ?_ (Only.mono _ _ _ _ (by sub_ids) (fill_sYlm_only _ _ _ _ YI _ _ _ _))
  refine Only.trans _ _ _ _ ?_ (Only.mono _ _ _ _ (by sub_ids) (cpow_only _ _ aI _ _ _ _ _))
  refine Only.trans _ _ _ _ ?_ (Only.mono _ _ _ _ (by sub_ids) (wigner_H_only g h L P a b d _ Hw Hv Hx _))
  exact Only.mono _ _ _ _ (by sub_ids) (euler_only R zI st)

theorem evaluate_rotor_only (R : Int → α) (zI : Nat) (g h : Int → α) (L P : Int) (a b d : Int → α) (Hw Hv Hx : Nat) (mw : Int → Cx α) (fvI : Nat)
    (a1 a2 a3 a4 n nc : Int) (cpowi : Cx α → Int → Cx α) (st : φ) :
    Only α [Hw, Hv, Hx, zI, fvI] st (Gen.Wigner_evaluate_rotor (α := α) R zI g h L P a b d Hw Hv Hx mw fvI a1 a2 a3 a4 n nc cpowi st) := by
  unfold Gen.Wigner_evaluate_rotor
  simp only []
  refine Only.trans _ _ _ _ ?_ (Only.mono _ _ _ _ (by sub_ids) (evalH_only _ fvI _ _ _ _ _ _ _ _ _ _ _ _ _))
  refine Only.trans _ _ _ _ ?_ (Only.mono _ _ _ _ (by sub_ids) (wigner_H_only g h L P a b d _ Hw Hv Hx _))
  exact Only.mono _ _ _ _ (by sub_ids) (euler_only R zI st)

theorem rotate_rotor_only (R : Int → α) (zI : Nat) (g h : Int → α) (L P : Int) (a b d : Int → α) (Hw Hv Hx : Nat) (mw : Int → Cx α) (flnI : Nat)
    (a1 a2 a3 a4 : Int) (nT pT : Nat) (n1 n2 n3 n4 : Int) (cpowi : Cx α → Int → Cx α) (st : φ) :
    Only α [Hw, Hv, Hx, zI, flnI, nT, pT] st
      (Gen.Wigner_rotate_rotor (α := α) R zI g h L P a b d Hw Hv Hx mw flnI a1 a2 a3 a4 nT pT n1 n2 n3 n4 cpowi st) := by
  unfold Gen.Wigner_rotate_rotor
  simp only []
  refine Only.trans _ _ _ _ ?_ (Only.mono _ _ _ _ (by sub_ids) (rotH_only _ flnI _ _ _ _ _ _ _ _ _ nT pT _ _ _ _ _ _))
  refine Only.trans _ _ _ _ ?_ (Only.mono _ _ _ _ (by sub_ids) (wigner_H_only g h L P a b d _ Hw Hv Hx _))
  exact Only.mono _ _ _ _ (by sub_ids) (euler_only R zI st)
end

/-! ### the documented functions, for the generated method bodies (exact reals, every unit quaternion) -/
section
variable {φ : Type} [FMem φ ℝ] [LawfulFMem φ ℝ]

/-- **`Wigner.D` — method body and every kernel from the source — writes the documented 𝔇** -/
theorem D_rotor_doc (L : Nat) (ell_min : Int) (zI aI gI DI : Nat) (a b d g h : Int → ℝ) (ht : TabOK L a b d g h) (imsqrt : Cx ℝ → ℝ)
    (hs : ∀ w : Cx ℝ, w.re ^ 2 + w.im ^ 2 = 1 → 2 * (imsqrt w) ^ 2 = 1 - w.re)
    (R : Int → ℝ) (hR : R 0 ^ 2 + R 1 ^ 2 + R 2 ^ 2 + R 3 ^ 2 = 1) (F : φ) (h0 : 0 ≤ ell_min)
    (hz : 2 < zI) (ha : 2 < aI) (hg : 2 < gI) (hza : zI ≠ aI) (hzg : zI ≠ gI) (hag : aI ≠ gI)
    (ell : Nat) (mp m : Int) (h1 : ell_min ≤ ell) (hl : ell ≤ L) (hmp : mp.natAbs ≤ ell) (hm : m.natAbs ≤ ell) :
    CPow.toC (frdC (α := ℝ) (Gen.Wigner_D_rotor (α := ℝ) R zI g h (L : Int) (L : Int) a b d idW idV idX DI aI imsqrt gI ell_min F) DI
        (WignerDindex (ell : Int) mp m ell_min (-1)))
      = DDef.docD ell (DDef.Ra (R 0) (R 3)) (DDef.Rb (R 1) (R 2)) mp m := by
  rw [D_rotor_eq L ell_min zI aI gI DI a b d g h imsqrt R F hz ha hg hza hzg hag]
  exact GenChain.gen_D_chain_doc L ell_min zI aI gI DI a b d g h ht imsqrt hs R hR F h0 ell mp m h1 hl hmp hm

/-- **`Wigner.sYlm` — method body and every kernel from the source — writes (−1)^s √((2ℓ+1)/4π) 𝔇^ℓ_{m,−s}** -/
theorem sYlm_rotor_doc (L P : Nat) (ell_min sw : Int) (zI aI YI : Nat) (a b d g h : Int → ℝ) (ht : TabOK L a b d g h) (imsqrt : Cx ℝ → ℝ)
    (hs : ∀ w : Cx ℝ, w.re ^ 2 + w.im ^ 2 = 1 → 2 * (imsqrt w) ^ 2 = 1 - w.re) (cpowi : Cx ℝ → Int → Cx ℝ)
    (R : Int → ℝ) (hR : R 0 ^ 2 + R 1 ^ 2 + R 2 ^ 2 + R 3 ^ 2 = 1)
    (hY : CPow.toC (cpowi (Model.eulerPhases (R 0) (R 1) (R 2) (R 3)).2.2 ((Int.natAbs sw : Nat) : Int))
        = CPow.toC (Model.eulerPhases (R 0) (R 1) (R 2) (R 3)).2.2 ^ sw.natAbs) (F : φ) (h0 : 0 ≤ ell_min)
    (hz : 2 < zI) (ha : 2 < aI) (hza : zI ≠ aI)
    (hsP : sw.natAbs ≤ P) (ell : Nat) (m : Int) (h1 : ell_min ≤ ell) (hl : ell ≤ L) (hsl : sw.natAbs ≤ ell) (hm : m.natAbs ≤ ell) :
    CPow.toC (frdC (α := ℝ) (Gen.Wigner_sYlm_rotor (α := ℝ) R zI g h (L : Int) (P : Int) a b d idW idV idX YI aI imsqrt cpowi sw ell_min F) YI
        (Yindex (ell : Int) m ell_min))
      = (((-1) ^ sw.natAbs * Real.sqrt ((2 * (ell : ℝ) + 1) / (4 * Real.pi)) : ℝ) : ℂ)
          * DDef.docD ell (DDef.Ra (R 0) (R 3)) (DDef.Rb (R 1) (R 2)) m (-sw) := by
  rw [sYlm_rotor_eq L P ell_min sw zI aI YI a b d g h imsqrt cpowi R F hz ha hza]
  refine GenChain.gen_Y_chain_doc L P ell_min sw zI aI YI a b d g h ht imsqrt hs _ R hR ?_ F h0 hsP ell m h1 hl hsl hm
  rw [(GenEuler.gen_euler_phases R zI F).2.2]; exact hY

/-- **`Wigner.evaluate(horner=True)` — method body and every kernel from the source — writes Σ f_{ℓm} ₛY_{ℓm}(Q)** -/
theorem evaluate_rotor_doc (L P : Nat) (sw : Int) (ellMax : Nat) (zI fvI : Nat)
    (a b d g h : Int → ℝ) (ht : TabOK L a b d g h) (cpowi : Cx ℝ → Int → Cx ℝ) (ncols : Int) (farr : Array (Cx ℝ))
    (Q : Model.Quat ℝ) (hQ : Q.w ^ 2 + Q.x ^ 2 + Q.y ^ 2 + Q.z ^ 2 = 1) (F : φ) (hz : 2 < zI) (hsP : sw.natAbs ≤ P) (hM : ellMax ≤ L)
    (hE : CPow.toC (cpowi (Cx.conj (Model.eulerPhases Q.w Q.x Q.y Q.z).2.2) sw)
        = (starRingEnd ℂ) (CPow.toC (Model.eulerPhases Q.w Q.x Q.y Q.z).2.2) ^ sw) :
    CPow.toC (frdC (α := ℝ) (Gen.Wigner_evaluate_rotor (α := ℝ) (fun i => if i = 0 then Q.w else if i = 1 then Q.x else if i = 2 then Q.y else Q.z)
        zI g h (L : Int) (P : Int) a b d idW idV idX (fun i => Model.cget farr i.toNat) fvI 0 0 (ellMax : Int) sw 1 ncols cpowi F) fvI 0)
      = HomAll.evalW sw Q (HomAll.wts farr) ellMax := by
  rw [evaluate_rotor_eq L P sw ellMax zI fvI a b d g h cpowi ncols farr _ F hz]
  exact GenChain.gen_evaluate_chain_doc L P sw ellMax zI fvI a b d g h ht cpowi ncols farr Q hQ F hsP hM hE

/-- **`Wigner.rotate(horner=True)` — method body and every kernel from the source — writes f · 𝔇(documented)** -/
theorem rotate_rotor_doc (L : Nat) (sw : Int) (ellMax : Nat) (zI flnI nT pT : Nat)
    (a b d g h : Int → ℝ) (ht : TabOK L a b d g h) (cpowi : Cx ℝ → Int → Cx ℝ) (ncn nc : Int) (farr : Array (Cx ℝ))
    (R : Model.Quat ℝ) (hR : R.w ^ 2 + R.x ^ 2 + R.y ^ 2 + R.z ^ 2 = 1) (F : φ) (hz : 2 < zI)
    (h1 : nT ≠ pT) (h2 : flnI ≠ nT) (h3 : flnI ≠ pT) (hM : ellMax ≤ L)
    (n : Nat) (m : Int) (hsn : sw.natAbs ≤ n) (hn : n ≤ ellMax) (hm : m.natAbs ≤ n)
    (hpow : CPow.toC (cpowi (Model.eulerPhases R.w R.x R.y R.z).2.2 m) = CPow.toC (Model.eulerPhases R.w R.x R.y R.z).2.2 ^ m) :
    CPow.toC (frdC (α := ℝ) (Gen.Wigner_rotate_rotor (α := ℝ) (fun i => if i = 0 then R.w else if i = 1 then R.x else if i = 2 then R.y else R.z)
        zI g h (L : Int) (L : Int) a b d idW idV idX (fun i => Model.cget farr i.toNat) flnI 0 0 (ellMax : Int) sw nT pT 1 1 ncn nc cpowi F)
        flnI ((n : Int) * ((n : Int) + 1) + m))
      = HomAll.rot R (HomAll.wts farr) n m := by
  rw [rotate_rotor_eq L sw ellMax zI flnI nT pT a b d g h cpowi ncn nc farr _ F hz]
  exact GenChain.gen_rotate_chain_doc L sw ellMax zI flnI nT pT a b d g h ht cpowi ncn nc farr R hR F h1 h2 h3 hM n m hsn hn hm hpow
end
end GenMethod
