import SphericalVerif.Props.C15
#print axioms C15.init_guard_iff
#print axioms C15.init_mp_max
#print axioms C15.init_invariant
#print axioms C15.d_guard_iff
#print axioms C15.D_guard_iff
#print axioms C15.D_guard_size
#print axioms C15.sYlm_guard_iff
#print axioms C15.rotate_guard_iff
#print axioms C15.evaluate_guard_iff
#print axioms C15.split_workspace_guard_iff
#print axioms C15.split_workspace_parts
#print axioms C15.new_workspace_ok
#print axioms C15.hlookup_in_range
#print axioms C15.guard_sound_sYlm
#print axioms C15.guard_sound_evaluate
#print axioms C15.guard_sound_D
