import SphericalVerif.Lemmas.Frame
import SphericalVerif.Gen.DiffKern
import SphericalVerif.Gen.AlgKern
import SphericalVerif.Gen.MulKern
import SphericalVerif.Props.GenW3j
/-! Footprint2 — **what the loops of `Modes` and the product helper write, from their source** (continuation of `Props/Footprint`).

    For every generated loop of spherical/modes/derivatives.py, spherical/utilities/operators.py and spherical/modes/algebra.py, every size,
    spin weight, arithmetic and memory content: the memory after the loop differs from the memory before it at most on the array the loop is
    handed for writing — the output `o` / `c`, or the copy `s` the in-place forms work on.  The input of the fresh-output forms is not even
    an array of the memory (a read-only function), so "the operand is never modified" (C09, C13, C12: inputs unchanged) is visible in the
    generated signature; these theorems add that nothing else is.  `_multiplication_helper` writes the output and the two calculators'
    arrays only, whenever `calculate` writes its own array only. -/
namespace Footprint2
open Gen Frame

section
variable {α : Type} [Scalar α] {φ : Type} [FMem φ α] [LawfulFMem φ α]

theorem Lz_only (A : Nat) (L e s : Int) (st : φ) : Only α [A] st (Gen.Modes_Lz_loop (α := α) A L e s st) := by
  unfold Gen.Modes_Lz_loop; simp only []; repeat frame_step
theorem Lsquared_only (A : Nat) (L e s : Int) (st : φ) : Only α [A] st (Gen.Modes_Lsquared_loop (α := α) A L e s st) := by
  unfold Gen.Modes_Lsquared_loop; simp only []; repeat frame_step
theorem Lplus_only (sin : Int → Cx α) (A : Nat) (a b c d e f : Int) (st : φ) : Only α [A] st (Gen.Modes_Lplus_loop (α := α) sin A a b c d e f st) := by
  unfold Gen.Modes_Lplus_loop; simp only []; repeat frame_step
theorem Lminus_only (sin : Int → Cx α) (A : Nat) (a b c : Int) (st : φ) : Only α [A] st (Gen.Modes_Lminus_loop (α := α) sin A a b c st) := by
  unfold Gen.Modes_Lminus_loop; simp only []; repeat frame_step
theorem Rplus_only (sin : Int → Cx α) (A : Nat) (a b c d e f : Int) (st : φ) : Only α [A] st (Gen.Modes_Rplus_loop (α := α) sin A a b c d e f st) := by
  unfold Gen.Modes_Rplus_loop; simp only []; repeat frame_step
theorem Rminus_only (sin : Int → Cx α) (A : Nat) (a b c d e f : Int) (st : φ) : Only α [A] st (Gen.Modes_Rminus_loop (α := α) sin A a b c d e f st) := by
  unfold Gen.Modes_Rminus_loop; simp only []; repeat frame_step

theorem conjugate_only (sin : Int → Cx α) (C : Nat) (a b c : Int) (st : φ) : Only α [C] st (Gen.Modes_conjugate_loop (α := α) sin C a b c st) := by
  unfold Gen.Modes_conjugate_loop; simp only []; repeat frame_step
theorem conjugate_inplace_only (A : Nat) (a b c : Int) (st : φ) : Only α [A] st (Gen.Modes_conjugate_inplace_loop (α := α) A a b c st) := by
  unfold Gen.Modes_conjugate_inplace_loop; simp only []; repeat frame_step
theorem real_only (sin : Int → Cx α) (C : Nat) (a b c : Int) (st : φ) : Only α [C] st (Gen.Modes_real_loop (α := α) sin C a b c st) := by
  unfold Gen.Modes_real_loop; simp only []; repeat frame_step
theorem real_inplace_only (A : Nat) (a b c : Int) (st : φ) : Only α [A] st (Gen.Modes_real_inplace_loop (α := α) A a b c st) := by
  unfold Gen.Modes_real_inplace_loop; simp only []; repeat frame_step
theorem imag_only (sin : Int → Cx α) (C : Nat) (a b c : Int) (st : φ) : Only α [C] st (Gen.Modes_imag_loop (α := α) sin C a b c st) := by
  unfold Gen.Modes_imag_loop; simp only []; repeat frame_step
theorem imag_inplace_only (A : Nat) (a b c : Int) (st : φ) : Only α [A] st (Gen.Modes_imag_inplace_loop (α := α) A a b c st) := by
  unfold Gen.Modes_imag_inplace_loop; simp only []; repeat frame_step

theorem add_rows_only (a1 a2 : Int → Cx α) (R : Nat) (e1 e2 e3 e4 : Int) (st : φ) : Only α [R] st (Gen.Modes_add_rows (α := α) a1 a2 R e1 e2 e3 e4 st) := by
  unfold Gen.Modes_add_rows; simp only []; repeat frame_step
theorem subtract_rows_only (a1 a2 : Int → Cx α) (R : Nat) (e1 e2 e3 e4 : Int) (st : φ) : Only α [R] st (Gen.Modes_subtract_rows (α := α) a1 a2 R e1 e2 e3 e4 st) := by
  unfold Gen.Modes_subtract_rows; simp only []; repeat frame_step

theorem eth_GHP_only (A : Nat) (s a b : Int) (st : φ) : Only α [A] st (Gen.arr_eth_GHP_loop (α := α) A s a b st) := by
  unfold Gen.arr_eth_GHP_loop; simp only []; repeat frame_step
theorem ethbar_GHP_only (A : Nat) (s a b : Int) (st : φ) : Only α [A] st (Gen.arr_ethbar_GHP_loop (α := α) A s a b st) := by
  unfold Gen.arr_ethbar_GHP_loop; simp only []; repeat frame_step
theorem eth_NP_only (A : Nat) (s a b : Int) (st : φ) : Only α [A] st (Gen.arr_eth_NP_loop (α := α) A s a b st) := by
  unfold Gen.arr_eth_NP_loop; simp only []; repeat frame_step
theorem ethbar_NP_only (A : Nat) (s a b : Int) (st : φ) : Only α [A] st (Gen.arr_ethbar_NP_loop (α := α) A s a b st) := by
  unfold Gen.arr_ethbar_NP_loop; simp only []; repeat frame_step
theorem ethbar_inverse_NP_only (A : Nat) (s a b : Int) (st : φ) : Only α [A] st (Gen.arr_ethbar_inverse_NP_loop (α := α) A s a b st) := by
  unfold Gen.arr_ethbar_inverse_NP_loop; simp only [apply_ite Prod.fst]; repeat frame_step

/-- `_multiplication_helper` writes the output row and the two calculators' arrays, nothing else — if `calculate` writes its own array only -/
theorem mul_only (f g : Int → Cx α) (FG sC mC : Nat) (a1 a2 a3 a4 a5 a6 a7 a8 a9 : Int) (pi_ : α)
    (w3jcalc : Nat → Int → Int → Int → Int → φ → φ) (hfoot : ∀ id a b c d (st : φ), Only α [id] st (w3jcalc id a b c d st)) (st : φ) :
    Only α [FG, sC, mC] st (Gen.u_multiplication_helper (α := α) f a1 a2 a3 g a4 a5 a6 FG a7 a8 a9 sC mC pi_ w3jcalc st) := by
  unfold Gen.u_multiplication_helper
  simp only []
  have hS : ∀ a b c d (x : φ), Only α [FG, sC, mC] st x → Only α [FG, sC, mC] st (w3jcalc sC a b c d x) := fun a b c d x hx =>
    Only.trans _ _ _ _ hx (Only.mono _ _ _ _ (by simp) (hfoot sC a b c d x))
  have hM : ∀ a b c d (x : φ), Only α [FG, sC, mC] st x → Only α [FG, sC, mC] st (w3jcalc mC a b c d x) := fun a b c d x hx =>
    Only.trans _ _ _ _ hx (Only.mono _ _ _ _ (by simp) (hfoot mC a b c d x))
  repeat (first | frame_step | (apply hS) | (apply hM))

/-- … and with the GENERATED `Wigner3jCalculator.calculate` as `calculate` the hypothesis is a theorem (`GenW3j.gen_w3j_only`): the product
    helper and everything it calls, from the source, write the output row and the two calculators' arrays only -/
theorem mul_only_generated (f g : Int → Cx α) (FG sC mC : Nat) (a1 a2 a3 a4 a5 a6 a7 a8 a9 : Int) (pi_ : α) (size : Int) (st : φ) :
    Only α [FG, sC, mC] st (Gen.u_multiplication_helper (α := α) f a1 a2 a3 g a4 a5 a6 FG a7 a8 a9 sC mC pi_
      (fun id j2 j3 m2 m3 x => Gen.Wigner3jCalculator_calculate (α := α) id size j2 j3 m2 m3 x) st) :=
  mul_only f g FG sC mC a1 a2 a3 a4 a5 a6 a7 a8 a9 pi_ _ (fun id a b c d x => GenW3j.gen_w3j_only id size a b c d x) st
end
end Footprint2
