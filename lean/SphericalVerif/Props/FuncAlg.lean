import SphericalVerif.Lemmas.FuncAlg
/-! FuncAlg — the `Modes` algebra acts on the FUNCTION, in exact arithmetic (function-level part of C13 / C06).

    Property theorems only; definitions and helpers live in `Lemmas/FuncAlg.lean`.

    Vocabulary.
    * `evalFn s L w Y = Σ_{ℓ=|s|}^{L} Σ_{m=−ℓ}^{ℓ} w(pos ℓ m) · Y ℓ m`: the value of the function with weight row `w`
      (stored from ℓ = 0, `pos ℓ m = ℓ(ℓ+1)+m`), spin weight `s`, `ell_max = L`, when `Y ℓ m` is the value of ₛY_{ℓm} at
      the rotor.  By `evaluate_is_evalFn` this IS what the model of `Wigner.evaluate` returns (Horner route,
      `Routes.evaluate_eq_sum_sYlm`), and by `evaluate_is_evalFn_doc` with `Y := Ydoc s R_a R_b`, the documented
      `(−1)^s √((2ℓ+1)/4π) · docD ℓ R_a R_b m (−s)` (`DAll.sYlm_all`), for every unit quaternion.
    * weight rows of results are those of the MODEL's loops: `Model.Modes.addEntries` (add / subtract, with or without
      `out=`), `Model.Modes.conjRow` (the `np.conjugate` loop followed by the constructor's zeroing; equal to the
      method's loop, also in place, by `C13.conj_method_eq_ufunc`, `C13.conj_inplace_eq`).
    * scalar multiplication / division has no loop in the model (it is numpy's elementwise ufunc on the viewed
      array): `scalar_pointwise` is stated for the elementwise weight formula.
    * `Modes.real` / `Modes.imag`: `Model/Modes.lean` contains only their dispatch (`methodRealImag`), not their
      loops.  `real_imag_pointwise_partial` is stated for `FuncAlg.realLoop` / `FuncAlg.imagLoop`, transcriptions of
      the loops of `_real_func` / `_imag_func` made in `Lemmas/FuncAlg.lean` (NOT validated by the correspondence
      harness), whose entries are shown to be `(f + conj f)/2`, `(f − conj f)/(2i)` with `conj f` the MODEL's
      `conjRow` (`real_imag_entries`). -/
noncomputable section
namespace FuncAlg
open Model Horner DDef Gen Spec Model.Modes Lemmas.Modes
open scoped ComplexConjugate

/-! ### 0. `evalFn` is what the model of `Wigner.evaluate` returns -/

/-- The model of `_evaluate_Horner` returns `evalFn` of the weight row against the entries `_fill_sYlm` writes
    (hypotheses as in `Routes.evaluate_eq_sum_sYlm`). -/
theorem evaluate_is_evalFn {μ : Type} [Mem μ ℝ] (st : μ) (f : Array (Cx ℝ)) (za zg zgpowE zgpowY : Cx ℝ)
    (zaArr : Array (Cx ℝ)) (s : ℤ) (ellMax : ℕ)
    (hza : ∀ k ≤ ellMax, toC (cget zaArr k) = toC za ^ k)
    (hnorm : Complex.normSq (toC zg) = 1)
    (hE : toC zgpowE = (conj (toC zg)) ^ s)
    (hY : toC zgpowY = toC zg ^ s.natAbs) :
    toC (evaluateHorner st f za zgpowE s ellMax ⟨zero, zero⟩)
      = evalFn s ellMax (fun p => toC (cget f p)) (fun ell m => toC (sYlmEntry st zaArr zgpowY s ell m)) :=
  evaluateHorner_evalFn st f za zg zgpowE zgpowY zaArr s ellMax hza hnorm hE hY

/-- The object-level model of `Wigner.evaluate(modes, R)` at ANY unit quaternion R = (R0, R1, R2, R3), any calculator
    `ell_max = L ≥ ellMax`, `mp_max = P ≥ |s|`, any lawful memory and previous workspace / output content:
    `evalFn` of the weight row against the DOCUMENTED sYlm at R_a = R0 + i R3, R_b = R2 + i R1.
    `zgpowE` is the library power `zᵧ.conjugate()**s`. -/
theorem evaluate_is_evalFn_doc {μ : Type} [Mem μ ℝ] [LawfulMem μ ℝ] (L P : ℕ) (st : μ) (R0 R1 R2 R3 : ℝ)
    (hR : R0 ^ 2 + R1 ^ 2 + R2 ^ 2 + R3 ^ 2 = 1) (zgpowE : Cx ℝ) (f : Array (Cx ℝ)) (s : ℤ) (ellMax : ℕ)
    (prev : Cx ℝ) (hL : ellMax ≤ L) (hsP : s.natAbs ≤ P)
    (hE : toC zgpowE = (conj (toC (eulerPhases R0 R1 R2 R3).2.2)) ^ s) :
    toC (objEvalH L P st R0 R1 R2 R3 zgpowE f s ellMax prev)
      = evalFn s ellMax (fun p => toC (cget f p)) (Ydoc s (Ra R0 R3) (Rb R1 R2)) :=
  objEvalH_evalFn L P st R0 R1 R2 R3 hR zgpowE f s ellMax prev hL hsP hE

/-- the hypotheses are satisfiable: the rotor (1/2, 1/2, 1/2, 1/2), s = −2, ell_max = 3 on a calculator of size 4 -/
example : ∃ zgpowE : Cx ℝ, ((1/2 : ℝ)) ^ 2 + (1/2) ^ 2 + (1/2) ^ 2 + (1/2) ^ 2 = 1 ∧ (3 : ℕ) ≤ 4 ∧ (-2 : ℤ).natAbs ≤ 2
    ∧ toC zgpowE = (conj (toC (eulerPhases (1/2 : ℝ) (1/2) (1/2) (1/2)).2.2)) ^ (-2 : ℤ) :=
  ⟨ofC ((conj (toC (eulerPhases (1/2 : ℝ) (1/2) (1/2) (1/2)).2.2)) ^ (-2 : ℤ)), by norm_num, by decide, by decide, rfl⟩

/-- the unit-norm hypothesis on (R_a, R_b) used below is the unit-quaternion condition -/
theorem RaRb_unit (R0 R1 R2 R3 : ℝ) (hR : R0 ^ 2 + R1 ^ 2 + R2 ^ 2 + R3 ^ 2 = 1) :
    Complex.normSq (Ra R0 R3) + Complex.normSq (Rb R1 R2) = 1 := by
  rw [Complex.normSq_apply, Complex.normSq_apply]
  show R0 * R0 + R3 * R3 + (R2 * R2 + R1 * R1) = 1
  linarith

/-- only the entries `|s| ≤ ℓ ≤ L` of a row matter; in particular the constructor's zeroing below `|s|`
    (`Model.Modes.stored`) does not change the function -/
theorem constructor_zeroing_invisible (s : ℤ) (L : ℕ) (ellMax : ℤ) (w : ℕ → ℂ) (Y : ℕ → ℤ → ℂ) :
    evalFn s L (stored s 0 ellMax w 0) Y = evalFn s L w Y :=
  evalFn_stored s L ellMax w Y

/-! ### 1. addition and subtraction -/

/-- `(f + g)(Q) = f(Q) + g(Q)`: the row `Model.Modes.addEntries` builds from operands of `ell_max` L₁, L₂ (lengths
    `LM_total_size(0, Lᵢ)`; the shorter one is zero-padded), read with the result's `ell_max = max L₁ L₂`, evaluates to
    the sum of the operands' values — for ANY values `Y` of the basis functions, any spin weight, with or without
    `out=` (also when the output buffer is an operand's: the operands' rows are those held BEFORE the call). -/
theorem add_pointwise (s : ℤ) (L1 L2 : ℕ) (mem : ℕ → Row ℂ) (b1 b2 fresh : ℕ) (out : Option ℕ) (Y : ℕ → ℤ → ℂ) :
    evalFn s (max L1 L2)
        ((addEntries (· + ·) (0 : ℂ) (Ysize 0 (L1 : ℤ)).toNat (Ysize 0 (L2 : ℤ)).toNat mem b1 b2 fresh out).1
          (addEntries (· + ·) (0 : ℂ) (Ysize 0 (L1 : ℤ)).toNat (Ysize 0 (L2 : ℤ)).toNat mem b1 b2 fresh out).2).get Y
      = evalFn s L1 (mem b1).get Y + evalFn s L2 (mem b2).get Y := by
  rw [evalFn_congr_w s (max L1 L2) _ (fun p => padRow (Ysize 0 (L1 : ℤ)).toNat (mem b1).get p
      + padRow (Ysize 0 (L2 : ℤ)).toNat (mem b2).get p) Y
      (fun ell _ _ m _ _ => addEntries_row_add _ _ mem b1 b2 fresh out _),
    evalFn_add, evalFn_padRow s L1 _ (le_max_left _ _), evalFn_padRow s L2 _ (le_max_right _ _)]

/-- `(f − g)(Q) = f(Q) − g(Q)`, same generality. -/
theorem sub_pointwise (s : ℤ) (L1 L2 : ℕ) (mem : ℕ → Row ℂ) (b1 b2 fresh : ℕ) (out : Option ℕ) (Y : ℕ → ℤ → ℂ) :
    evalFn s (max L1 L2)
        ((addEntries (· - ·) (0 : ℂ) (Ysize 0 (L1 : ℤ)).toNat (Ysize 0 (L2 : ℤ)).toNat mem b1 b2 fresh out).1
          (addEntries (· - ·) (0 : ℂ) (Ysize 0 (L1 : ℤ)).toNat (Ysize 0 (L2 : ℤ)).toNat mem b1 b2 fresh out).2).get Y
      = evalFn s L1 (mem b1).get Y - evalFn s L2 (mem b2).get Y := by
  rw [evalFn_congr_w s (max L1 L2) _ (fun p => padRow (Ysize 0 (L1 : ℤ)).toNat (mem b1).get p
      - padRow (Ysize 0 (L2 : ℤ)).toNat (mem b2).get p) Y
      (fun ell _ _ m _ _ => addEntries_row_sub _ _ mem b1 b2 fresh out _),
    evalFn_sub, evalFn_padRow s L1 _ (le_max_left _ _), evalFn_padRow s L2 _ (le_max_right _ _)]

/-- zero padding on its own: a row of `ell_max = L₁` continued by zeros evaluates the same under any `ell_max ≥ L₁` -/
theorem pad_pointwise (s : ℤ) (L1 L : ℕ) (hL : L1 ≤ L) (w : ℕ → ℂ) (Y : ℕ → ℤ → ℂ) :
    evalFn s L (padRow (Ysize 0 (L1 : ℤ)).toNat w) Y = evalFn s L1 w Y :=
  evalFn_padRow s L1 L hL w Y

/-- transfer to the model of `Wigner.evaluate`: if the array `h` holds the row the model's addition builds from the
    arrays `f` (ell_max L₁) and `g` (ell_max L₂), then evaluating `h` (ell_max = max L₁ L₂) at a unit quaternion gives
    the sum of the evaluations of `f` and `g` — whatever the three workspaces / output cells held before. -/
theorem evaluate_add {μ : Type} [Mem μ ℝ] [LawfulMem μ ℝ] (L P : ℕ) (st st1 st2 : μ) (R0 R1 R2 R3 : ℝ)
    (hR : R0 ^ 2 + R1 ^ 2 + R2 ^ 2 + R3 ^ 2 = 1) (zgpowE : Cx ℝ) (f g h : Array (Cx ℝ)) (s : ℤ) (L1 L2 : ℕ)
    (prev prev1 prev2 : Cx ℝ) (hL1 : L1 ≤ L) (hL2 : L2 ≤ L) (hsP : s.natAbs ≤ P)
    (hE : toC zgpowE = (conj (toC (eulerPhases R0 R1 R2 R3).2.2)) ^ s)
    (mem : ℕ → Row ℂ) (b1 b2 fresh : ℕ) (out : Option ℕ)
    (hf : (mem b1).get = fun p => toC (cget f p)) (hg : (mem b2).get = fun p => toC (cget g p))
    (hh : ∀ p, toC (cget h p)
      = ((addEntries (· + ·) (0 : ℂ) (Ysize 0 (L1 : ℤ)).toNat (Ysize 0 (L2 : ℤ)).toNat mem b1 b2 fresh out).1
          (addEntries (· + ·) (0 : ℂ) (Ysize 0 (L1 : ℤ)).toNat (Ysize 0 (L2 : ℤ)).toNat mem b1 b2 fresh out).2).get p) :
    toC (objEvalH L P st R0 R1 R2 R3 zgpowE h s (max L1 L2) prev)
      = toC (objEvalH L P st1 R0 R1 R2 R3 zgpowE f s L1 prev1)
        + toC (objEvalH L P st2 R0 R1 R2 R3 zgpowE g s L2 prev2) := by
  rw [evaluate_is_evalFn_doc L P st R0 R1 R2 R3 hR zgpowE h s _ prev (max_le hL1 hL2) hsP hE,
    evaluate_is_evalFn_doc L P st1 R0 R1 R2 R3 hR zgpowE f s _ prev1 hL1 hsP hE,
    evaluate_is_evalFn_doc L P st2 R0 R1 R2 R3 hR zgpowE g s _ prev2 hL2 hsP hE,
    ← hf, ← hg, ← add_pointwise s L1 L2 mem b1 b2 fresh out]
  exact congrArg (fun w => evalFn s (max L1 L2) w _) (funext hh)

/-- the hypotheses of `evaluate_add` are satisfiable for all operand arrays: an array `h` holding the model's row
    exists (the row vanishes from `max k₁ k₂` on) -/
example (f g : Array (Cx ℝ)) (k1 k2 : ℕ) : ∃ (mem : ℕ → Row ℂ) (b1 b2 fresh : ℕ) (out : Option ℕ) (h : Array (Cx ℝ)),
    ((mem b1).get = fun p => toC (cget f p)) ∧ ((mem b2).get = fun p => toC (cget g p)) ∧
    ∀ p, toC (cget h p) = ((addEntries (· + ·) (0 : ℂ) k1 k2 mem b1 b2 fresh out).1
          (addEntries (· + ·) (0 : ℂ) k1 k2 mem b1 b2 fresh out).2).get p := by
  refine ⟨fun i => if i = 0 then ⟨fun p => toC (cget f p)⟩ else ⟨fun p => toC (cget g p)⟩, 0, 1, 2, none,
    rowArr (fun p => padRow k1 (fun p => toC (cget f p)) p + padRow k2 (fun p => toC (cget g p)) p) (max k1 k2),
    rfl, rfl, ?_⟩
  intro p
  rw [addEntries_row_add, rowArr_spec]
  · rfl
  · intro q hq
    unfold padRow
    rw [if_neg (by omega), if_neg (by omega), add_zero]

/-! ### 2. scalars -/

/-- multiplying every weight by `c` scales the function by `c`; dividing by `c ≠ 0` divides it — for any `Y` -/
theorem scalar_pointwise (s : ℤ) (L : ℕ) (c : ℂ) (w : ℕ → ℂ) (Y : ℕ → ℤ → ℂ) :
    evalFn s L (fun p => c * w p) Y = c * evalFn s L w Y
    ∧ evalFn s L (fun p => w p * c) Y = evalFn s L w Y * c
    ∧ (c ≠ 0 → evalFn s L (fun p => w p / c) Y = evalFn s L w Y / c
        ∧ c * evalFn s L (fun p => w p / c) Y = evalFn s L w Y) := by
  refine ⟨evalFn_smul s L c w Y, ?_, fun hc => ⟨evalFn_div s L c w Y, ?_⟩⟩
  · have : (fun p => w p * c) = fun p => c * w p := by funext p; ring
    rw [this, evalFn_smul, mul_comm]
  · rw [evalFn_div, mul_div_cancel₀ _ hc]

/-! ### 3. conjugation -/

/-- the documented D: `D^ℓ_{−m',−m} = (−1)^{m'+m} conj D^ℓ_{m',m}` at every (R_a, R_b) with |R_a|² + |R_b|² = 1 (own
    proof, through the model's assembly symmetry `Routes.D_conj_symm'` and `DAll.DEntry_core`) -/
theorem docD_conj_symm_unit (ℓ : ℕ) (A B : ℂ) (hAB : Complex.normSq A + Complex.normSq B = 1) (mp m : ℤ)
    (hmp : mp.natAbs ≤ ℓ) (hm : m.natAbs ≤ ℓ) :
    docD ℓ A B (-mp) (-m) = (-1 : ℂ) ^ (mp + m) * conj (docD ℓ A B mp m) :=
  docD_conj_symm ℓ A B hAB mp m hmp hm

/-- `conj ₛY_{ℓm} = (−1)^{s+m} ₋ₛY_{ℓ,−m}` for the documented sYlm -/
theorem sYlm_conj (s : ℤ) (A B : ℂ) (hAB : Complex.normSq A + Complex.normSq B = 1) (ell : ℕ) (m : ℤ)
    (hs : s.natAbs ≤ ell) (hm : m.natAbs ≤ ell) :
    conj (Ydoc s A B ell m) = (-1 : ℂ) ^ (s + m) * Ydoc (-s) A B ell (-m) :=
  conj_Ydoc s A B hAB ell m hs hm

/-- the entries the model's conjugation stores: `(−1)^{s+m} conj f_{ℓ,−m}` (`C13.conj_pairing` at `ℂ`, after the
    constructor's zeroing) -/
theorem conj_entries (s : ℤ) (L : ℕ) (src : ℕ → ℂ) (c0 : Row ℂ) (ell : ℕ) (m : ℤ)
    (h1 : s.natAbs ≤ ell) (h2 : ell ≤ L) (hm1 : -(ell : ℤ) ≤ m) (hm2 : m ≤ ell) :
    conjRow cneg cconj s (L : ℤ) src c0 0 (pos (ell : ℤ) m)
      = (-1 : ℂ) ^ (s + m) * conj (src (pos (ell : ℤ) (-m))) :=
  conjRow_entry s L src c0 ell m h1 h2 hm1 hm2

/-- `conj(f)(Q) = conj (f(Q))`: the stored row of the model's conjugation of a spin-`s` row (any initial content `c0`
    of the output array), read with spin weight `−s`, evaluates to the complex conjugate of the value of `f` — at
    every unit rotor (R_a, R_b) = (A, B). -/
theorem conj_pointwise (s : ℤ) (L : ℕ) (A B : ℂ) (hAB : Complex.normSq A + Complex.normSq B = 1)
    (src : ℕ → ℂ) (c0 : Row ℂ) :
    evalFn (-s) L (conjRow cneg cconj s (L : ℤ) src c0 0) (Ydoc (-s) A B) = conj (evalFn s L src (Ydoc s A B)) := by
  rw [conj_evalFn s L A B hAB src]
  apply evalFn_congr_w
  intro ell h1 h2 m h3 h4
  rw [Int.natAbs_neg] at h1
  have h0 : (0 : ℤ) ≤ ell := Int.natCast_nonneg _
  rw [conjRow_entry s L src c0 ell m h1 h2 h3 h4, sqrt_pos _ _ h0 h3 h4, mOf_pos _ _ h0 h3 h4]

example : Complex.normSq (1 : ℂ) + Complex.normSq (0 : ℂ) = 1 := by simp
example : Complex.normSq (Ra (1/2) (1/2)) + Complex.normSq (Rb (1/2) (1/2)) = 1 :=
  RaRb_unit (1/2) (1/2) (1/2) (1/2) (by norm_num)

/-- transfer to the model of `Wigner.evaluate`: if the array `h` holds the stored row of the model's conjugation of
    the array `f` (spin `s`), then evaluating `h` with spin weight `−s` at a unit quaternion gives the complex
    conjugate of the evaluation of `f`.  `zgpowE`, `zgpowE'` are the library powers `zᵧ.conjugate()**s`,
    `zᵧ.conjugate()**(−s)`. -/
theorem evaluate_conj {μ : Type} [Mem μ ℝ] [LawfulMem μ ℝ] (L P : ℕ) (st st' : μ) (R0 R1 R2 R3 : ℝ)
    (hR : R0 ^ 2 + R1 ^ 2 + R2 ^ 2 + R3 ^ 2 = 1) (zgpowE zgpowE' : Cx ℝ) (f h : Array (Cx ℝ)) (s : ℤ) (ellMax : ℕ)
    (prev prev' : Cx ℝ) (hL : ellMax ≤ L) (hsP : s.natAbs ≤ P)
    (hE : toC zgpowE = (conj (toC (eulerPhases R0 R1 R2 R3).2.2)) ^ s)
    (hE' : toC zgpowE' = (conj (toC (eulerPhases R0 R1 R2 R3).2.2)) ^ (-s))
    (c0 : Row ℂ)
    (hh : ∀ p, toC (cget h p) = conjRow cneg cconj s (ellMax : ℤ) (fun p => toC (cget f p)) c0 0 p) :
    toC (objEvalH L P st' R0 R1 R2 R3 zgpowE' h (-s) ellMax prev')
      = conj (toC (objEvalH L P st R0 R1 R2 R3 zgpowE f s ellMax prev)) := by
  rw [evaluate_is_evalFn_doc L P st' R0 R1 R2 R3 hR zgpowE' h (-s) ellMax prev' hL (by rw [Int.natAbs_neg]; exact hsP) hE',
    evaluate_is_evalFn_doc L P st R0 R1 R2 R3 hR zgpowE f s ellMax prev hL hsP hE,
    ← conj_pointwise s ellMax _ _ (RaRb_unit R0 R1 R2 R3 hR) _ c0]
  exact congrArg (fun w => evalFn (-s) ellMax w _) (funext hh)

/-- the hypotheses of `evaluate_conj` are satisfiable for every input array: with the output initially zero
    (`np.zeros_like`) an array `h` holding the model's conjugated row exists -/
example (f : Array (Cx ℝ)) (s : ℤ) (ellMax : ℕ) : ∃ (c0 : Row ℂ) (h : Array (Cx ℝ)),
    ∀ p, toC (cget h p) = conjRow cneg cconj s (ellMax : ℤ) (fun p => toC (cget f p)) c0 0 p := by
  refine ⟨⟨fun _ => 0⟩, rowArr (conjRow cneg cconj s (ellMax : ℤ) (fun p => toC (cget f p)) ⟨fun _ => 0⟩ 0)
    ((ellMax + 1) * (ellMax + 1)), rowArr_spec _ _ ?_⟩
  intro p hp
  have := sqrt_ge_of_sq_le ellMax p hp
  rw [conjRow_get]
  split
  · rfl
  · rw [if_neg (by omega)]

example : ∃ (s : ℤ) (L ell : ℕ) (m : ℤ), s.natAbs ≤ ell ∧ ell ≤ L ∧ -(ell : ℤ) ≤ m ∧ m ≤ ell := ⟨-2, 4, 3, -1, by decide⟩

/-! ### 4. conjugation is an involution -/

/-- conjugating twice (spin `s`, then spin `−s`; each time the loop followed by the constructor's zeroing, whatever
    the output arrays held) gives a row with the weights of `f` on `|s| ≤ ℓ ≤ ell_max`, hence the same function — for
    any `Y` (from `C13.conj_involution`) -/
theorem conj_involution (s : ℤ) (L : ℕ) (src : ℕ → ℂ) (c0 c0' : Row ℂ) (Y : ℕ → ℤ → ℂ) :
    evalFn s L (conjRow cneg cconj (-s) (L : ℤ) (conjRow cneg cconj s (L : ℤ) src c0 0) c0' 0) Y = evalFn s L src Y := by
  apply evalFn_congr_w
  intro ell h1 h2 m h3 h4
  rw [C13.conj_involution cneg cconj cconj_cconj cneg_cneg cconj_cneg s L ell m src c0 c0' 0
    (Int.natCast_nonneg _) (by exact_mod_cast h2) h3 h4, if_neg (by omega)]

/-- the same at function level through `conj_pointwise` twice: `conj (conj (f(Q))) = f(Q)` is what the doubly
    conjugated row evaluates to -/
theorem conj_conj_pointwise (s : ℤ) (L : ℕ) (A B : ℂ) (hAB : Complex.normSq A + Complex.normSq B = 1)
    (src : ℕ → ℂ) (c0 c0' : Row ℂ) :
    evalFn s L (conjRow cneg cconj (-s) (L : ℤ) (conjRow cneg cconj s (L : ℤ) src c0 0) c0' 0) (Ydoc s A B)
      = conj (conj (evalFn s L src (Ydoc s A B))) := by
  have h := conj_pointwise (-s) L A B hAB (conjRow cneg cconj s (L : ℤ) src c0 0) c0'
  rw [neg_neg] at h
  rw [h, conj_pointwise s L A B hAB src c0]

/-! ### 5. real and imaginary parts (spin weight 0) -/

/-- the entries the loops of `Modes.real` / `Modes.imag` write (transcriptions `realLoop` / `imagLoop`, see the file
    header) are `(f + conj f)/2` and `(f − conj f)/(2i)` with `conj f` the MODEL's conjugation row for spin 0 -/
theorem real_imag_entries (L : ℕ) (src : ℕ → ℂ) (c0 c0' : Row ℂ) (ell : ℕ) (m : ℤ) (h2 : ell ≤ L)
    (hm1 : -(ell : ℤ) ≤ m) (hm2 : m ≤ ell) :
    (realLoop (L : ℤ) src c0).get (pos (ell : ℤ) m)
        = (src (pos (ell : ℤ) m) + conjRow cneg cconj 0 (L : ℤ) src c0' 0 (pos (ell : ℤ) m)) / 2
    ∧ (imagLoop (L : ℤ) src c0).get (pos (ell : ℤ) m)
        = (src (pos (ell : ℤ) m) - conjRow cneg cconj 0 (L : ℤ) src c0' 0 (pos (ell : ℤ) m)) / (2 * Complex.I) :=
  ⟨realLoop_entry L src c0 c0' ell m h2 hm1 hm2, imagLoop_entry L src c0 c0' ell m h2 hm1 hm2⟩

/-- `f.real(Q) = Re f(Q)` and `f.imag(Q) = Im f(Q)` (as complex numbers with zero imaginary part) for spin weight 0,
    at every unit rotor.  PARTIAL: about the loop transcriptions `realLoop` / `imagLoop` of `Lemmas/FuncAlg.lean`,
    which are not part of the validated `Model/Modes.lean`. -/
theorem real_imag_pointwise_partial (L : ℕ) (A B : ℂ) (hAB : Complex.normSq A + Complex.normSq B = 1)
    (src : ℕ → ℂ) (c0 : Row ℂ) :
    evalFn 0 L (realLoop (L : ℤ) src c0).get (Ydoc 0 A B) = (((evalFn 0 L src (Ydoc 0 A B)).re : ℝ) : ℂ)
    ∧ evalFn 0 L (imagLoop (L : ℤ) src c0).get (Ydoc 0 A B) = (((evalFn 0 L src (Ydoc 0 A B)).im : ℝ) : ℂ) := by
  have hc := conj_pointwise 0 L A B hAB src c0
  rw [neg_zero] at hc
  constructor
  · rw [evalFn_congr_w 0 L _ (fun p => (src p + conjRow cneg cconj 0 (L : ℤ) src c0 0 p) / 2) _
        (fun ell _ h2 m h3 h4 => realLoop_entry L src c0 c0 ell m h2 h3 h4),
      evalFn_div, evalFn_add, hc, Complex.re_eq_add_conj]
  · rw [evalFn_congr_w 0 L _ (fun p => (src p - conjRow cneg cconj 0 (L : ℤ) src c0 0 p) / (2 * Complex.I)) _
        (fun ell _ h2 m h3 h4 => imagLoop_entry L src c0 c0 ell m h2 h3 h4),
      evalFn_div, evalFn_sub, hc, Complex.im_eq_sub_conj]

/-- the same for the weight formulas alone (no loop): rows `(f + conj f)/2`, `(f − conj f)/(2i)` built from the
    MODEL's conjugation row -/
theorem real_imag_pointwise_formula (L : ℕ) (A B : ℂ) (hAB : Complex.normSq A + Complex.normSq B = 1)
    (src : ℕ → ℂ) (c0 : Row ℂ) :
    evalFn 0 L (fun p => (src p + conjRow cneg cconj 0 (L : ℤ) src c0 0 p) / 2) (Ydoc 0 A B)
        = (((evalFn 0 L src (Ydoc 0 A B)).re : ℝ) : ℂ)
    ∧ evalFn 0 L (fun p => (src p - conjRow cneg cconj 0 (L : ℤ) src c0 0 p) / (2 * Complex.I)) (Ydoc 0 A B)
        = (((evalFn 0 L src (Ydoc 0 A B)).im : ℝ) : ℂ) := by
  have hc := conj_pointwise 0 L A B hAB src c0
  rw [neg_zero] at hc
  constructor
  · rw [evalFn_div, evalFn_add, hc, Complex.re_eq_add_conj]
  · rw [evalFn_div, evalFn_sub, hc, Complex.im_eq_sub_conj]

/-- real-valuedness: the value of `f.real` is its own conjugate -/
theorem real_is_real (L : ℕ) (A B : ℂ) (hAB : Complex.normSq A + Complex.normSq B = 1) (src : ℕ → ℂ) (c0 : Row ℂ) :
    conj (evalFn 0 L (realLoop (L : ℤ) src c0).get (Ydoc 0 A B)) = evalFn 0 L (realLoop (L : ℤ) src c0).get (Ydoc 0 A B) := by
  rw [(real_imag_pointwise_partial L A B hAB src c0).1, Complex.conj_ofReal]

/-! ### instances: the statements have content -/

/-- ℓ ≤ 1, spin 0, the identity rotor: `evalFn` is the explicit four-term sum -/
example (w : ℕ → ℂ) (Y : ℕ → ℤ → ℂ) :
    evalFn 0 1 w Y = w 0 * Y 0 0 + (w 1 * Y 1 (-1) + w 2 * Y 1 0 + w 3 * Y 1 1) := by
  have e1 : Finset.Icc (0 : ℤ).natAbs 1 = {0, 1} := by decide
  have e2 : Finset.Icc (-((0 : ℕ) : ℤ)) ((0 : ℕ) : ℤ) = {0} := by decide
  have e3 : Finset.Icc (-((1 : ℕ) : ℤ)) ((1 : ℕ) : ℤ) = {-1, 0, 1} := by decide
  have p0 : pos ((0 : ℕ) : ℤ) 0 = 0 := by decide
  have p1 : pos ((1 : ℕ) : ℤ) (-1) = 1 := by decide
  have p2 : pos ((1 : ℕ) : ℤ) 0 = 2 := by decide
  have p3 : pos ((1 : ℕ) : ℤ) 1 = 3 := by decide
  unfold evalFn
  rw [e1, Finset.sum_pair (by decide), e2, e3, Finset.sum_singleton,
    Finset.sum_insert (by decide), Finset.sum_pair (by decide), p0, p1, p2, p3]
  ring

end FuncAlg
end
