import SphericalVerif.Model.Object
import SphericalVerif.Props.HKernel
/-! Helper lemmas for the object-level properties C08 / C09 / C15 / C17 (core Lean only). -/
namespace Lemmas.Object
open Model Spec

/-! ### the wedge representative -/

/-- the first order of the representative is no larger than either order of the original pair -/
theorem wedgeRep_fst_le (mp m : Int) :
    (wedgeRep mp m).1.natAbs ≤ mp.natAbs ∧ (wedgeRep mp m).1.natAbs ≤ m.natAbs := by
  unfold wedgeRep
  split <;> split <;> (simp only []; omega)

theorem wedgeRep_snd_nonneg (mp m : Int) : 0 ≤ (wedgeRep mp m).2 := by
  unfold wedgeRep
  split <;> split <;> (simp only []; omega)

theorem wedgeRep_fst_le_snd (mp m : Int) : (wedgeRep mp m).1.natAbs ≤ (wedgeRep mp m).2.toNat := by
  unfold wedgeRep
  split <;> split <;> (simp only []; omega)

theorem wedgeRep_snd_le (mp m : Int) (ell : Nat) (h1 : mp.natAbs ≤ ell) (h2 : m.natAbs ≤ ell) :
    (wedgeRep mp m).2.toNat ≤ ell := by
  unfold wedgeRep
  split <;> split <;> (simp only []; omega)

end Lemmas.Object
