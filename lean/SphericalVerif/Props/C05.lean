import SphericalVerif.Lemmas.W3j
/-! C05 — Wigner 3-j symbols and Clebsch-Gordan coefficients (spherical/recursions/wigner3j.py).
    Property theorems only; helper lemmas live in `Lemmas/W3j.lean`.

    * Integer part: statements about the *generated* definitions `Gen.B`, `Gen.B_w`, `Gen.B_ret`,
      `Gen.A_radicand`, `Gen.A_radicand_w` (re-translated from the Python source on every run,
      together with the declared return width of `B`).
    * Data flow: statements about the hand-written model `Model.W3j` (validated bit for bit against
      the compiled code at `Float`), for EVERY `Scalar α` — no arithmetic law is used. -/
namespace C05
open Model.W3j Scalar
open Lemmas.W3j (Perm perm)

/-! ### 1. the integer coefficient `B` never overflows -/

/-- What the compiled `B` returns (int64 arithmetic wrapped after every operation, then conversion to
    the declared return width) is the mathematical value, for `j2, j3 ≤ 20000`, `j ≤ 40000`. -/
theorem B_exact (j j2 j3 m2 m3 : Int) (hj2 : 0 ≤ j2 ∧ j2 ≤ 20000) (hj3 : 0 ≤ j3 ∧ j3 ≤ 20000)
    (hj : 0 ≤ j ∧ j ≤ 40000) (hm2 : (m2.natAbs : Int) ≤ j2 + 1) (hm3 : (m3.natAbs : Int) ≤ j3 + 1) :
    Gen.B_ret j j2 j3 m2 m3 = Gen.B j j2 j3 m2 m3 :=
  Lemmas.W3j.B_ret_eq j j2 j3 m2 m3 hj hj2 hj3 (by omega) (by omega)

/-- the same for the arithmetic alone (before the conversion to the declared width) -/
theorem B_w_exact (j j2 j3 m2 m3 : Int) (hj2 : 0 ≤ j2 ∧ j2 ≤ 20000) (hj3 : 0 ≤ j3 ∧ j3 ≤ 20000)
    (hj : 0 ≤ j ∧ j ≤ 40000) (hm2 : (m2.natAbs : Int) ≤ j2 + 1) (hm3 : (m3.natAbs : Int) ≤ j3 + 1) :
    Gen.B_w j j2 j3 m2 m3 = Gen.B j j2 j3 m2 m3 :=
  Lemmas.W3j.B_w_eq j j2 j3 m2 m3 hj hj2 hj3 (by omega) (by omega)

example : Gen.B_ret 343 299 539 119 (-272) = Gen.B 343 299 539 119 (-272) :=
  B_exact _ _ _ _ _ (by decide) (by decide) (by decide) (by decide) (by decide)
example : Gen.B_w 343 299 539 119 (-272) = Gen.B 343 299 539 119 (-272) :=
  B_w_exact _ _ _ _ _ (by decide) (by decide) (by decide) (by decide) (by decide)

/-- The historical defect: with a declared `int32` return type the same value is truncated.  (Why the
    declared width is part of the generated definition `Gen.B_ret`.) -/
theorem B_int32_would_overflow :
    Gen.wrap32 (Gen.B 343 299 539 119 (-272)) ≠ Gen.B 343 299 539 119 (-272) := by
  decide

/-- the model's `Yf` is the conversion of the exact integer -/
theorem Yf_exact {α : Type} [Scalar α] (j j2 j3 m2 m3 : Int) (hj2 : 0 ≤ j2 ∧ j2 ≤ 20000)
    (hj3 : 0 ≤ j3 ∧ j3 ≤ 20000) (hj : 0 ≤ j ∧ j ≤ 40000) (hm2 : (m2.natAbs : Int) ≤ j2 + 1)
    (hm3 : (m3.natAbs : Int) ≤ j3 + 1) :
    (Yf j j2 j3 m2 m3 : α) = ofInt (Gen.B j j2 j3 m2 m3) := by
  unfold Yf YfI
  rw [B_exact j j2 j3 m2 m3 hj2 hj3 hj hm2 hm3]

example : (Yf 5 3 4 1 (-2) : Float) = ofInt (Gen.B 5 3 4 1 (-2)) :=
  Yf_exact _ _ _ _ _ (by decide) (by decide) (by decide) (by decide) (by decide)

/-! ### 2. the radicand of `A` -/

/-- int64 evaluation of the radicand is exact on the box `j2, j3 ≤ 720`, `j ≤ 1440`, `|m1| ≤ j`
    (no relation between `j` and `j2, j3` assumed). -/
theorem A_radicand_exact (j j2 j3 m1 : Int) (hj2 : 0 ≤ j2 ∧ j2 ≤ 720) (hj3 : 0 ≤ j3 ∧ j3 ≤ 720)
    (hj : 0 ≤ j ∧ j ≤ 1440) (hm1 : (m1.natAbs : Int) ≤ j) :
    Gen.A_radicand_w j j2 j3 m1 = Gen.A_radicand j j2 j3 m1 :=
  Lemmas.W3j.A_radicand_w_box j j2 j3 m1 hj hj2 hj3 (by omega)

example : Gen.A_radicand_w 1000 700 400 (-900) = Gen.A_radicand 1000 700 400 (-900) :=
  A_radicand_exact _ _ _ _ (by decide) (by decide) (by decide) (by decide)

/-- On the admissible domain of the recursion (`|j2-j3| ≤ j ≤ j2+j3+1`, `|m1| ≤ j`: every call made
    by `calculate`) int64 evaluation is exact up to `j2 + j3 ≤ 1989` — which is sharp, see
    `A_radicand_overflows_at_1990`. -/
theorem A_radicand_exact_admissible (j j2 j3 m1 : Int) (hj2 : 0 ≤ j2) (hj3 : 0 ≤ j3)
    (hs : j2 + j3 ≤ 1989) (hlo : ((j2 - j3).natAbs : Int) ≤ j) (hhi : j ≤ j2 + j3 + 1)
    (hm1 : (m1.natAbs : Int) ≤ j) :
    Gen.A_radicand_w j j2 j3 m1 = Gen.A_radicand j j2 j3 m1 :=
  Lemmas.W3j.A_radicand_w_adm j j2 j3 m1 hj2 hj3 hs hlo hhi hm1

example : Gen.A_radicand_w 1625 995 994 0 = Gen.A_radicand 1625 995 994 0 :=
  A_radicand_exact_admissible _ _ _ _ (by decide) (by decide) (by decide) (by decide) (by decide)
    (by decide)

/-- Sharpness: at `j2 = j3 = 995` (`j2 + j3 = 1990`), `j = 1626`, `m1 = 0` — an admissible call — the
    int64 product wraps to a negative number, so `math.sqrt` receives a negative argument. -/
theorem A_radicand_overflows_at_1990 :
    Gen.A_radicand_w 1626 995 995 0 ≠ Gen.A_radicand 1626 995 995 0 ∧
    Gen.A_radicand_w 1626 995 995 0 < 0 := by
  decide

/-- in particular the bound `j2, j3 ≤ 1000` that holds for `B` does not hold for `A` -/
theorem A_radicand_overflows_at_1000 :
    Gen.A_radicand_w 1634 1000 1000 0 ≠ Gen.A_radicand 1634 1000 1000 0 := by
  decide

/-- `math.sqrt` never sees a negative number: the mathematical radicand is non-negative on the
    admissible domain (no size bound). -/
theorem A_radicand_nonneg (j j2 j3 m1 : Int) (hlo : ((j2 - j3).natAbs : Int) ≤ j)
    (hhi : j ≤ j2 + j3 + 1) (hm1 : (m1.natAbs : Int) ≤ j) : 0 ≤ Gen.A_radicand j j2 j3 m1 :=
  Lemmas.W3j.A_radicand_nonneg j j2 j3 m1 hlo hhi hm1

example : 0 ≤ Gen.A_radicand 8 3 5 (-8) :=
  A_radicand_nonneg _ _ _ _ (by decide) (by decide) (by decide)

/-- … and hence so is the number the compiled code passes to `math.sqrt`, up to `j2 + j3 ≤ 1989` -/
theorem A_radicand_w_nonneg (j j2 j3 m1 : Int) (hj2 : 0 ≤ j2) (hj3 : 0 ≤ j3)
    (hs : j2 + j3 ≤ 1989) (hlo : ((j2 - j3).natAbs : Int) ≤ j) (hhi : j ≤ j2 + j3 + 1)
    (hm1 : (m1.natAbs : Int) ≤ j) : 0 ≤ Gen.A_radicand_w j j2 j3 m1 := by
  rw [A_radicand_exact_admissible j j2 j3 m1 hj2 hj3 hs hlo hhi hm1]
  exact A_radicand_nonneg j j2 j3 m1 hlo hhi hm1

example : 0 ≤ Gen.A_radicand_w 8 3 5 (-8) :=
  A_radicand_w_nonneg _ _ _ _ (by decide) (by decide) (by decide) (by decide) (by decide) (by decide)

/-! ### 3. selection rules: literal zeros, for every arithmetic -/
section
variable {α : Type} [Scalar α]

theorem wigner3j_m_sum (j1 j2 j3 m1 m2 m3 : Int) (h : m1 + m2 + m3 ≠ 0) :
    wigner3j (α := α) j1 j2 j3 m1 m2 m3 = some zero :=
  Lemmas.W3j.wigner3j_m_sum j1 j2 j3 m1 m2 m3 h

example : wigner3j (α := α) 2 6 4 0 0 1 = some zero := wigner3j_m_sum _ _ _ _ _ _ (by decide)

theorem wigner3j_m_range (j1 j2 j3 m1 m2 m3 : Int)
    (h : (m1.natAbs : Int) > j1 ∨ (m2.natAbs : Int) > j2 ∨ (m3.natAbs : Int) > j3) :
    wigner3j (α := α) j1 j2 j3 m1 m2 m3 = some zero :=
  Lemmas.W3j.wigner3j_m_range j1 j2 j3 m1 m2 m3 h

example : wigner3j (α := α) 2 1 3 0 (-2) 2 = some zero := wigner3j_m_range _ _ _ _ _ _ (by decide)

/-- triangle rule: the largest `j` exceeds the sum of the other two -/
theorem wigner3j_triangle_max (j1 j2 j3 m1 m2 m3 : Int)
    (h : max (max j1 j2) j3 > j1 + j2 + j3 - max (max j1 j2) j3) :
    wigner3j (α := α) j1 j2 j3 m1 m2 m3 = some zero :=
  Lemmas.W3j.wigner3j_triangle_max j1 j2 j3 m1 m2 m3 (by omega)

/-- triangle rule, symmetric form -/
theorem wigner3j_triangle (j1 j2 j3 m1 m2 m3 : Int)
    (h : j1 > j2 + j3 ∨ j2 > j3 + j1 ∨ j3 > j1 + j2) :
    wigner3j (α := α) j1 j2 j3 m1 m2 m3 = some zero :=
  Lemmas.W3j.wigner3j_triangle j1 j2 j3 m1 m2 m3 h

example : wigner3j (α := α) 1 5 2 0 0 0 = some zero := wigner3j_triangle _ _ _ _ _ _ (by decide)
example : wigner3j (α := α) 1 5 2 0 0 0 = some zero := wigner3j_triangle_max _ _ _ _ _ _ (by decide)

/-- `calculate` outside its domain returns the zeroed slice `workspace[:size]` untouched and does not
    raise. -/
theorem calculate_out_of_range (size : Nat) (ws : Array α) (j2 j3 m2 m3 : Int)
    (h : (m2.natAbs : Int) > j2 ∨ (m3.natAbs : Int) > j3 ∨
      j2 + j3 < max ((j2 - j3).natAbs : Int) ((m2 + m3).natAbs : Int)) :
    calculate size ws j2 j3 m2 m3 = ⟨(ws.map (fun _ => zero)).extract 0 size, false⟩ :=
  Lemmas.W3j.calculate_out_of_range size ws j2 j3 m2 m3 h

/-- … i.e. `min size ws.size` literal zeros -/
theorem calculate_out_of_range_zeros (size : Nat) (ws : Array α) (j2 j3 m2 m3 : Int)
    (h : (m2.natAbs : Int) > j2 ∨ (m3.natAbs : Int) > j3 ∨
      j2 + j3 < max ((j2 - j3).natAbs : Int) ((m2 + m3).natAbs : Int)) :
    (calculate size ws j2 j3 m2 m3).f = Array.replicate (min size ws.size) zero ∧
    (calculate size ws j2 j3 m2 m3).raised = false := by
  rw [calculate_out_of_range size ws j2 j3 m2 m3 h]
  refine ⟨?_, rfl⟩
  apply Array.ext
  · simp
  · intro i h1 h2; simp

example (ws : Array α) : calculate 6 ws 2 3 (-3) 1 = ⟨(ws.map (fun _ => zero)).extract 0 6, false⟩ :=
  calculate_out_of_range _ _ _ _ _ _ (by decide)
example (ws : Array α) : calculate 6 ws (-1) 0 0 0 = ⟨(ws.map (fun _ => zero)).extract 0 6, false⟩ :=
  calculate_out_of_range _ _ _ _ _ _ (by decide)

/-! ### 4. purity of the calculator -/

/-- The result depends on the workspace only through its length: whatever previous calls left in the
    calculator's workspace has no influence. -/
theorem calculate_pure (size : Nat) (ws₁ ws₂ : Array α) (j2 j3 m2 m3 : Int)
    (h : ws₁.size = ws₂.size) :
    calculate size ws₁ j2 j3 m2 m3 = calculate size ws₂ j2 j3 m2 m3 :=
  Lemmas.W3j.calculate_pure size ws₁ ws₂ j2 j3 m2 m3 h

example (x y : α) : calculate 1 #[x, y, x, x] 0 0 0 0 = calculate 1 #[y, y, x, y] 0 0 0 0 :=
  calculate_pure _ _ _ _ _ _ _ rfl

/-! ### 5. Clebsch-Gordan -/

theorem clebschGordan_def (j1 m1 j2 m2 j3 m3 : Int) :
    clebschGordan (α := α) j1 m1 j2 m2 j3 m3 =
      (wigner3j (α := α) j1 j2 j3 m1 m2 (-m3)).map
        (fun w => ((ofInt (parity (j1 - j2 + m3)) : α) *. sqrt (ofInt (2*j3+1))) *. w) :=
  Lemmas.W3j.clebschGordan_def j1 m1 j2 m2 j3 m3

theorem parity_eq (k : Int) : parity k = (-1) ^ k.natAbs := Lemmas.W3j.parity_eq k

/-! ### 6. the front-end permutation -/

/-- `perm` is the source's branch structure -/
theorem perm_def (j1 j2 j3 m1 m2 m3 : Int) :
    perm j1 j2 j3 m1 m2 m3 =
      if j1 = max (max j1 j2) j3 then ⟨j1, j2, j3, m1, m2, m3⟩
      else if j2 = max (max j1 j2) j3 then ⟨j2, j3, j1, m2, m3, m1⟩
      else ⟨j3, j1, j2, m3, m1, m2⟩ := rfl

/-- it is a cyclic permutation of the columns … -/
theorem perm_cyclic (j1 j2 j3 m1 m2 m3 : Int) :
    perm j1 j2 j3 m1 m2 m3 = ⟨j1, j2, j3, m1, m2, m3⟩ ∨
    perm j1 j2 j3 m1 m2 m3 = ⟨j2, j3, j1, m2, m3, m1⟩ ∨
    perm j1 j2 j3 m1 m2 m3 = ⟨j3, j1, j2, m3, m1, m2⟩ :=
  Lemmas.W3j.perm_cyclic j1 j2 j3 m1 m2 m3

/-- … that puts the largest `j` first -/
theorem perm_a1_max (j1 j2 j3 m1 m2 m3 : Int) :
    (perm j1 j2 j3 m1 m2 m3).a1 = max (max j1 j2) j3 :=
  Lemmas.W3j.perm_a1 j1 j2 j3 m1 m2 m3

/-- When the selection rules pass, `Wigner3j` is entry `a1` of a fresh calculator of exactly the needed
    capacity `a2 + a3 + 1`, run on the permuted arguments (`none` = the calculator raised). -/
theorem wigner3j_perm (j1 j2 j3 m1 m2 m3 : Int) (hs : m1 + m2 + m3 = 0)
    (h1 : (m1.natAbs : Int) ≤ j1) (h2 : (m2.natAbs : Int) ≤ j2) (h3 : (m3.natAbs : Int) ≤ j3)
    (ht : max (max j1 j2) j3 ≤ j1 + j2 + j3 - max (max j1 j2) j3) :
    wigner3j (α := α) j1 j2 j3 m1 m2 m3 =
      let p := perm j1 j2 j3 m1 m2 m3
      let size := (p.a2 + p.a3 + 1).toNat
      let r := calculate (α := α) size (Array.replicate (4*size) zero) p.a2 p.a3 p.b2 p.b3
      if r.raised then none else some (geti r.f p.a1) :=
  Lemmas.W3j.wigner3j_perm j1 j2 j3 m1 m2 m3 hs h1 h2 h3 (by omega)

example :
    wigner3j (α := α) 2 6 4 0 0 0 =
      let r := calculate (α := α) 7 (Array.replicate 28 zero) 4 2 0 0
      if r.raised then none else some (geti r.f 6) :=
  wigner3j_perm 2 6 4 0 0 0 (by decide) (by decide) (by decide) (by decide) (by decide)

/-- The call made by the front end is inside the calculator's domain, and the entry read is one of the
    computed ones: `|b2| ≤ a2`, `|b3| ≤ a3`, `b1 + b2 + b3 = 0`,
    `j_min = max |a2-a3| |b2+b3| ≤ a1 ≤ a2 + a3 = j_max`, and `a1 < size`. -/
theorem wigner3j_call_in_domain (j1 j2 j3 m1 m2 m3 : Int) (hs : m1 + m2 + m3 = 0)
    (h1 : (m1.natAbs : Int) ≤ j1) (h2 : (m2.natAbs : Int) ≤ j2) (h3 : (m3.natAbs : Int) ≤ j3)
    (ht : max (max j1 j2) j3 ≤ j1 + j2 + j3 - max (max j1 j2) j3) :
    let p := perm j1 j2 j3 m1 m2 m3
    ((p.b2.natAbs : Int) ≤ p.a2 ∧ (p.b3.natAbs : Int) ≤ p.a3 ∧ p.b1 + p.b2 + p.b3 = 0) ∧
    max ((p.a2 - p.a3).natAbs : Int) ((p.b2 + p.b3).natAbs : Int) ≤ p.a1 ∧ p.a1 ≤ p.a2 + p.a3 ∧
    p.a1.toNat < (p.a2 + p.a3 + 1).toNat :=
  Lemmas.W3j.perm_call_in_domain j1 j2 j3 m1 m2 m3 hs h1 h2 h3 (by omega)

end
end C05
