import SphericalVerif.Model.Object
import SphericalVerif.Spec.ValH
import SphericalVerif.Lemmas.HRefine6
import SphericalVerif.Lemmas.Object
import SphericalVerif.Lemmas.RealScalar
import SphericalVerif.Lemmas.CPow
import SphericalVerif.Lemmas.Horner
import Mathlib.Analysis.Real.Sqrt
import Mathlib.Data.Complex.Basic
import Mathlib.Tactic.Ring
import Mathlib.Tactic.Linarith
import Mathlib.Tactic.NormNum
import Mathlib.Tactic.FieldSimp
import Mathlib.Tactic.LinearCombination
import Mathlib.Data.Nat.Factorial.Basic
import Mathlib.Data.Nat.Choose.Basic
/-! Helper lemmas for `Props/DDef.lean`: at `α := ℝ` the object-level model `Model.objD` of `Wigner.D`
    computes, for ℓ = 0 and ℓ = 1, the polynomial in R_a = w + i z, R_b = y + i x that
    docs/WignerDMatrices.md of the library documents. -/
noncomputable section
namespace DDef
open Model Spec Horner
open scoped ComplexConjugate Nat
set_option linter.unusedSimpArgs false

/-! ### square roots of small numerals -/

theorem sqrt_of_sq {x y : ℝ} (hy : 0 ≤ y) (h : y * y = x) : Real.sqrt x = y := by
  rw [← h]; exact Real.sqrt_mul_self hy

theorem s4 : Real.sqrt 4 = 2 := sqrt_of_sq (by norm_num) (by norm_num)
theorem s6 : Real.sqrt 6 = Real.sqrt 2 * Real.sqrt 3 := by
  rw [← Real.sqrt_mul (by norm_num)]; norm_num
theorem s10 : Real.sqrt 10 = Real.sqrt 2 * Real.sqrt 5 := by
  rw [← Real.sqrt_mul (by norm_num)]; norm_num
theorem s15 : Real.sqrt 15 = Real.sqrt 3 * Real.sqrt 5 := by
  rw [← Real.sqrt_mul (by norm_num)]; norm_num

theorem r2 : Real.sqrt 2 ^ 2 = 2 := Real.sq_sqrt (by norm_num)
theorem r3 : Real.sqrt 3 ^ 2 = 3 := Real.sq_sqrt (by norm_num)
theorem r5 : Real.sqrt 5 ^ 2 = 5 := Real.sq_sqrt (by norm_num)
theorem p2 : 0 < Real.sqrt 2 := Real.sqrt_pos.mpr (by norm_num)
theorem p3 : 0 < Real.sqrt 3 := Real.sqrt_pos.mpr (by norm_num)
theorem p5 : 0 < Real.sqrt 5 := Real.sqrt_pos.mpr (by norm_num)

section
variable {α : Type} [Scalar α]
theorem rawD_0 (c s : α) (n : Nat) : rawD c s n 0 = topU n := rfl
theorem rawD_1 (c s : α) (n : Nat) :
    rawD c s n 1 = Scalar.mul (Scalar.mul (gC (n : Int) ((n : Int) - 1)) c) (topU n) := rfl
theorem rawD_succ2 (c s : α) (n j : Nat) :
    rawD c s n (j+2) =
      Scalar.sub (Scalar.mul (Scalar.mul (gC (n : Int) ((n : Int) - ((j+2 : Nat) : Int))) c) (rawD c s n (j+1)))
        (Scalar.mul (Scalar.mul (hC (n : Int) ((n : Int) - ((j+2 : Nat) : Int))) (Scalar.mul s s)) (rawD c s n j)) := rfl
end

/-! ### the values of the H recursion for n ≤ 1 (and row 2 of the m' = 0 column, which step 3 reads) -/

section valH
variable (c s : ℝ)

theorem valW_0_0_0 : valW c s 0 0 0 = 1 := by
  simp [valW, valPos, col0]

/-- H¹(0,0) = cos β -/
theorem valW_1_0_0 : valW c s 1 0 0 = c := by
  simp only [valW, valPos, col0, gC, le_refl, if_true, Int.toNat_zero, RealScalar.mul_def, RealScalar.div_def,
    RealScalar.sqrt_def, RealScalar.ofInt_def, RealScalar.one_def]
  have h0 := p2.ne'
  norm_num
  field_simp

/-- H¹(0,1) = sin β / √2 -/
theorem valW_1_0_1 : valW c s 1 0 1 = s / Real.sqrt 2 := by
  simp only [valW, valPos, col0, topN, topU, preS, le_refl, if_true, Int.toNat_zero, RealScalar.mul_def,
    RealScalar.div_def, RealScalar.sqrt_def, RealScalar.ofInt_def, RealScalar.one_def]
  norm_num
  rw [s6]
  have := p2.ne'; have := p3.ne'
  field_simp

theorem col0_2_2 : col0 c s 2 2 = s^2 * Real.sqrt 6 / 4 := by
  simp only [col0, topN, topU, preS, RealScalar.mul_def, RealScalar.div_def,
    RealScalar.sqrt_def, RealScalar.ofInt_def, RealScalar.one_def, RealScalar.add_def, RealScalar.half_def]
  norm_num
  rw [s4, s6, s10]
  have h2 := r2
  have := p2.ne'; have := p3.ne'; have := p5.ne'
  field_simp
  linear_combination (-2 * s^2) * h2

theorem col0_2_1 : col0 c s 2 1 = c * s * Real.sqrt 6 / 2 := by
  simp only [col0, preS, cnorm, RealScalar.mul_def, RealScalar.div_def,
    RealScalar.sqrt_def, RealScalar.ofInt_def, RealScalar.one_def]
  norm_num [rawD_1, topU, gC]
  rw [s4, s6, s10]
  have h2 := r2
  have := p2.ne'; have := p3.ne'; have := p5.ne'
  field_simp
  linear_combination (-c * s) * h2

/-- H²(0,0) = (3cos²β − 1)/2 when sin² + cos² = 1; as computed: cos²β − sin²β/2 -/
theorem col0_2_0 : col0 c s 2 0 = c^2 - s^2/2 := by
  simp only [col0, cnorm, bot0, RealScalar.mul_def, RealScalar.div_def,
    RealScalar.sqrt_def, RealScalar.ofInt_def, RealScalar.one_def, RealScalar.sub_def]
  norm_num [rawD_0, rawD_1, topU, gC, hC]
  rw [s4, s6, s10]
  have h2 := r2
  have := p2.ne'; have := p3.ne'; have := p5.ne'
  field_simp
  linear_combination (-2 * c^2) * h2

/-- H¹(1,1) = −(1 + cos β)/2 -/
theorem valW_1_1_1 (h : c^2 + s^2 = 1) : valW c s 1 1 1 = -(1 + c) / 2 := by
  have e : valW c s 1 1 1 = f3 c s 1 0 (col0 c s 2 2) (col0 c s 2 0) (col0 c s 2 1) := by
    simp [valW, valPos]
  rw [e, col0_2_2, col0_2_1, col0_2_0]
  simp only [f3, aC, bC, RealScalar.mul_def, RealScalar.div_def, RealScalar.sqrt_def, RealScalar.ofInt_def,
    RealScalar.one_def, RealScalar.add_def, RealScalar.sub_def, RealScalar.half_def]
  norm_num
  rw [s4, s6, s15]
  have h3 := r3
  have := p2.ne'; have := p3.ne'; have := p5.ne'
  field_simp
  rw [h3]
  linear_combination (-8 * (1 + c)) * h

/-- H¹(−1,1) = (1 − cos β)/2 -/
theorem valW_1_m1_1 (h : c^2 + s^2 = 1) : valW c s 1 (-1) 1 = (1 - c) / 2 := by
  have e : valW c s 1 (-1) 1 = f5top 1 0 (valW c s 1 1 1) (valW c s 1 0 0) := by
    simp [valW, valNeg, valPos]
  rw [e, valW_1_1_1 c s h, valW_1_0_0]
  simp only [f5top, dC, RealScalar.mul_def, RealScalar.div_def, RealScalar.sqrt_def, RealScalar.ofInt_def,
    RealScalar.one_def, RealScalar.add_def, RealScalar.half_def]
  have := p2.ne'
  norm_num
  field_simp
  ring

end valH

/-! ### `to_euler_phases` at ℝ -/

theorem div_ofRe (a : Cx ℝ) (x : ℝ) : Cx.div a (Cx.ofRe x) = ⟨a.re / x, a.im / x⟩ := by
  unfold Cx.div Cx.ofRe
  simp

/-- `zp` of `to_euler_phases` at ℝ -/
def zpR (R0 R3 : ℝ) : Cx ℝ :=
  if 0 < Real.sqrt (R0 * R0 + R3 * R3) then
    ⟨R0 / Real.sqrt (R0 * R0 + R3 * R3), R3 / Real.sqrt (R0 * R0 + R3 * R3)⟩ else ⟨1, 0⟩

/-- `zm` of `to_euler_phases` at ℝ -/
def zmR (R1 R2 : ℝ) : Cx ℝ :=
  if 0 < Real.sqrt (R1 * R1 + R2 * R2) then
    ⟨R2 / Real.sqrt (R1 * R1 + R2 * R2), -R1 / Real.sqrt (R1 * R1 + R2 * R2)⟩ else ⟨1, 0⟩

theorem eulerPhases_eq (R0 R1 R2 R3 : ℝ) :
    eulerPhases R0 R1 R2 R3 =
      (Cx.mul (zpR R0 R3) (zmR R1 R2),
       ⟨((R0 * R0 + R3 * R3) - (R1 * R1 + R2 * R2)) / ((R0 * R0 + R3 * R3) + (R1 * R1 + R2 * R2)),
        2 * Real.sqrt (R0 * R0 + R3 * R3) * Real.sqrt (R1 * R1 + R2 * R2)
          / ((R0 * R0 + R3 * R3) + (R1 * R1 + R2 * R2))⟩,
       Cx.mul (zpR R0 R3) (Cx.conj (zmR R1 R2))) := by
  unfold eulerPhases zpR zmR
  simp only [div_ofRe, RealScalar.mul_def, RealScalar.add_def, RealScalar.sub_def, RealScalar.sqrt_def,
    RealScalar.lt_def, RealScalar.abs_def, RealScalar.zero_def, abs_of_nonneg (Real.sqrt_nonneg _), decide_eq_true_eq]
  simp only [Cx.ofRe, Cx.add, Cx.sub, Cx.mulr, Cx.mul, Cx.I, Cx.oneC, RealScalar.mul_def, RealScalar.add_def,
    RealScalar.sub_def, RealScalar.zero_def, RealScalar.one_def, RealScalar.ofInt_def]
  norm_num

theorem toC_eq (w : Cx ℝ) : toC w = CPow.toC w := rfl

/-- every entry of the `_complex_powers` array of a unit-modulus z, read the way the fill kernels read it -/
theorem cpowers_cget (z : Cx ℝ) (hz : z.re ^ 2 + z.im ^ 2 = 1) (M : Nat) (imsqrt : Cx ℝ → ℝ)
    (hs : ∀ w : Cx ℝ, w.re ^ 2 + w.im ^ 2 = 1 → 2 * (imsqrt w) ^ 2 = 1 - w.re) :
    ∀ k ≤ M, toC (cget (cpowers z M imsqrt) k) = toC z ^ k := by
  intro k hk
  obtain ⟨hsz, h⟩ := CPow.cpowers_exact z hz M imsqrt
    (hs _ (by rw [(CPow.quadrant_spec z).2.2.2.2.1, hz]))
  obtain ⟨e, he, hp⟩ := h k hk
  rw [CPow.getElem?_eq_cget _ _ (by omega)] at he
  cases he
  exact hp

theorem zpR_spec (R0 R3 : ℝ) :
    ((Real.sqrt (R0 * R0 + R3 * R3) : ℝ) : ℂ) * toC (zpR R0 R3) = ⟨R0, R3⟩
    ∧ (zpR R0 R3).re ^ 2 + (zpR R0 R3).im ^ 2 = 1 := by
  unfold zpR
  by_cases h : 0 < Real.sqrt (R0 * R0 + R3 * R3)
  · rw [if_pos h]
    have hsq : Real.sqrt (R0 * R0 + R3 * R3) ^ 2 = R0 * R0 + R3 * R3 :=
      Real.sq_sqrt (by nlinarith [sq_nonneg R0, sq_nonneg R3])
    generalize Real.sqrt (R0 * R0 + R3 * R3) = r at *
    have hr : r ≠ 0 := h.ne'
    constructor
    · apply Complex.ext <;> simp <;> field_simp
    · simp only []
      field_simp
      linarith
  · rw [if_neg h]
    have h0 : Real.sqrt (R0 * R0 + R3 * R3) = 0 := le_antisymm (not_lt.mp h) (Real.sqrt_nonneg _)
    have ha : R0 * R0 + R3 * R3 ≤ 0 := Real.sqrt_eq_zero'.mp h0
    have e0 : R0 = 0 := by nlinarith [sq_nonneg R0, sq_nonneg R3]
    have e3 : R3 = 0 := by nlinarith [sq_nonneg R0, sq_nonneg R3]
    rw [h0]
    constructor
    · apply Complex.ext <;> simp [e0, e3]
    · norm_num

theorem zmR_spec (R1 R2 : ℝ) :
    ((Real.sqrt (R1 * R1 + R2 * R2) : ℝ) : ℂ) * toC (zmR R1 R2) = ⟨R2, -R1⟩
    ∧ (zmR R1 R2).re ^ 2 + (zmR R1 R2).im ^ 2 = 1 := by
  unfold zmR
  by_cases h : 0 < Real.sqrt (R1 * R1 + R2 * R2)
  · rw [if_pos h]
    have hsq : Real.sqrt (R1 * R1 + R2 * R2) ^ 2 = R1 * R1 + R2 * R2 :=
      Real.sq_sqrt (by nlinarith [sq_nonneg R1, sq_nonneg R2])
    generalize Real.sqrt (R1 * R1 + R2 * R2) = r at *
    have hr : r ≠ 0 := h.ne'
    constructor
    · apply Complex.ext <;> simp <;> field_simp
    · simp only []
      field_simp
      linarith
  · rw [if_neg h]
    have h0 : Real.sqrt (R1 * R1 + R2 * R2) = 0 := le_antisymm (not_lt.mp h) (Real.sqrt_nonneg _)
    have ha : R1 * R1 + R2 * R2 ≤ 0 := Real.sqrt_eq_zero'.mp h0
    have e1 : R1 = 0 := by nlinarith [sq_nonneg R1, sq_nonneg R2]
    have e2 : R2 = 0 := by nlinarith [sq_nonneg R1, sq_nonneg R2]
    rw [h0]
    constructor
    · apply Complex.ext <;> simp [e1, e2]
    · norm_num

theorem mul_unit (a b : Cx ℝ) (ha : a.re ^ 2 + a.im ^ 2 = 1) (hb : b.re ^ 2 + b.im ^ 2 = 1) :
    (Cx.mul a b).re ^ 2 + (Cx.mul a b).im ^ 2 = 1 := by
  simp only [Cx.mul, RealScalar.mul_def, RealScalar.add_def, RealScalar.sub_def]
  have : (a.re * b.re - a.im * b.im) ^ 2 + (a.re * b.im + a.im * b.re) ^ 2
      = (a.re ^ 2 + a.im ^ 2) * (b.re ^ 2 + b.im ^ 2) := by ring
  rw [this, ha, hb]; norm_num

theorem conj_unit (a : Cx ℝ) (ha : a.re ^ 2 + a.im ^ 2 = 1) :
    (Cx.conj a).re ^ 2 + (Cx.conj a).im ^ 2 = 1 := by
  simp only [Cx.conj, RealScalar.neg_def]
  rw [neg_sq]; exact ha

/-- cos β and sin β as `to_euler_phases` computes them for a unit quaternion -/
def cosB (R0 R1 R2 R3 : ℝ) : ℝ := (R0 * R0 + R3 * R3) - (R1 * R1 + R2 * R2)
def sinB (R0 R1 R2 R3 : ℝ) : ℝ := 2 * Real.sqrt (R0 * R0 + R3 * R3) * Real.sqrt (R1 * R1 + R2 * R2)

theorem eulerPhases_unit (R0 R1 R2 R3 : ℝ) (hR : R0 ^ 2 + R1 ^ 2 + R2 ^ 2 + R3 ^ 2 = 1) :
    eulerPhases R0 R1 R2 R3 =
      (Cx.mul (zpR R0 R3) (zmR R1 R2), ⟨cosB R0 R1 R2 R3, sinB R0 R1 R2 R3⟩,
       Cx.mul (zpR R0 R3) (Cx.conj (zmR R1 R2))) := by
  rw [eulerPhases_eq]
  have h1 : (R0 * R0 + R3 * R3) + (R1 * R1 + R2 * R2) = 1 := by linarith
  rw [h1, div_one, div_one]
  rfl

theorem cos_sin_unit (R0 R1 R2 R3 : ℝ) (hR : R0 ^ 2 + R1 ^ 2 + R2 ^ 2 + R3 ^ 2 = 1) :
    cosB R0 R1 R2 R3 ^ 2 + sinB R0 R1 R2 R3 ^ 2 = 1 := by
  unfold cosB sinB
  have ha : 0 ≤ R0 * R0 + R3 * R3 := by nlinarith [sq_nonneg R0, sq_nonneg R3]
  have hb : 0 ≤ R1 * R1 + R2 * R2 := by nlinarith [sq_nonneg R1, sq_nonneg R2]
  have h1 : (R0 * R0 + R3 * R3) + (R1 * R1 + R2 * R2) = 1 := by linarith
  have e : (2 * Real.sqrt (R0 * R0 + R3 * R3) * Real.sqrt (R1 * R1 + R2 * R2)) ^ 2
      = 4 * (R0 * R0 + R3 * R3) * (R1 * R1 + R2 * R2) := by
    rw [mul_pow, mul_pow, Real.sq_sqrt ha, Real.sq_sqrt hb]; ring
  rw [e]
  generalize R0 * R0 + R3 * R3 = a at *
  generalize R1 * R1 + R2 * R2 = b at *
  have : (a - b) ^ 2 + 4 * a * b = (a + b) ^ 2 := by ring
  rw [this, h1]; norm_num

section master
variable {μ : Type} [Mem μ ℝ] [LawfulMem μ ℝ]

/-- the entry of `Wigner.D` in closed product form, for every ℓ: sign · H-recursion value · phase powers -/
theorem objD_eq (L : ℕ) (st : μ) (R0 R1 R2 R3 : ℝ) (hR : R0 ^ 2 + R1 ^ 2 + R2 ^ 2 + R3 ^ 2 = 1)
    (imsqrt : Cx ℝ → ℝ)
    (hs : ∀ w : Cx ℝ, w.re ^ 2 + w.im ^ 2 = 1 → 2 * (imsqrt w) ^ 2 = 1 - w.re)
    (ell : ℕ) (hl : ell ≤ L) (mp m : ℤ) (hmp : mp.natAbs ≤ ell) (hm : m.natAbs ≤ ell) :
    toC (objD L st R0 R1 R2 R3 imsqrt ell mp m) =
      ((eps mp * eps (-m) : ℤ) : ℂ)
        * ((valW (cosB R0 R1 R2 R3) (sinB R0 R1 R2 R3) ell (wedgeRep mp m).1 (wedgeRep mp m).2.toNat : ℝ) : ℂ)
        * pw (toC (Cx.mul (zpR R0 R3) (Cx.conj (zmR R1 R2)))) m
        * pw (toC (Cx.mul (zpR R0 R3) (zmR R1 R2))) mp := by
  unfold objD
  rw [eulerPhases_unit R0 R1 R2 R3 hR]
  simp only []
  have up := (zpR_spec R0 R3).2
  have um := (zmR_spec R1 R2).2
  rw [toC_DEntry,
    apw_eq_pw (cpowers_cget _ (mul_unit _ _ up (conj_unit _ um)) L imsqrt hs) (by omega),
    apw_eq_pw (cpowers_cget _ (mul_unit _ _ up um) L imsqrt hs) (by omega)]
  unfold Hat
  simp only []
  have h1 := Lemmas.Object.wedgeRep_fst_le mp m
  have h2 := Lemmas.Object.wedgeRep_fst_le_snd mp m
  have h3 := Lemmas.Object.wedgeRep_snd_le mp m ell hmp hm
  rw [HRefine.runH_refines L L _ _ st ell _ _ hl (by omega) h2 h3]
end master

/-! ### ℓ = 1: the nine entries -/

theorem unit_mul_conj (z : Cx ℝ) (h : z.re ^ 2 + z.im ^ 2 = 1) : toC z * conj (toC z) = 1 := by
  rw [Complex.mul_conj]
  have : Complex.normSq (toC z) = 1 := by
    rw [Complex.normSq_apply]; simp only [toC_re, toC_im]; linarith
  rw [this]; simp

/-- R_a = w + i z and R_b = y + i x of docs/WignerDMatrices.md -/
def Ra (R0 R3 : ℝ) : ℂ := ⟨R0, R3⟩
def Rb (R1 R2 : ℝ) : ℂ := ⟨R2, R1⟩

/-- everything the ℓ = 1 computation needs to know about the phases, in one package -/
theorem phase_facts (R0 R1 R2 R3 : ℝ) (hR : R0 ^ 2 + R1 ^ 2 + R2 ^ 2 + R3 ^ 2 = 1) :
    ∃ (sa sb : ℝ) (P M : ℂ), toC (zpR R0 R3) = P ∧ toC (zmR R1 R2) = M ∧
      (sa : ℂ) ^ 2 + (sb : ℂ) ^ 2 = 1 ∧ P * conj P = 1 ∧ M * conj M = 1 ∧
      Ra R0 R3 = sa * P ∧ Rb R1 R2 = sb * conj M ∧
      (1 + cosB R0 R1 R2 R3) / 2 = sa ^ 2 ∧ (1 - cosB R0 R1 R2 R3) / 2 = sb ^ 2 ∧
      cosB R0 R1 R2 R3 = sa ^ 2 - sb ^ 2 ∧ sinB R0 R1 R2 R3 = 2 * sa * sb := by
  have ha : 0 ≤ R0 * R0 + R3 * R3 := by nlinarith [sq_nonneg R0, sq_nonneg R3]
  have hb : 0 ≤ R1 * R1 + R2 * R2 := by nlinarith [sq_nonneg R1, sq_nonneg R2]
  have h1 : (R0 * R0 + R3 * R3) + (R1 * R1 + R2 * R2) = 1 := by linarith
  have qa := Real.sq_sqrt ha
  have qb := Real.sq_sqrt hb
  refine ⟨Real.sqrt (R0 * R0 + R3 * R3), Real.sqrt (R1 * R1 + R2 * R2), _, _, rfl, rfl, ?_,
    unit_mul_conj _ (zpR_spec R0 R3).2, unit_mul_conj _ (zmR_spec R1 R2).2, (zpR_spec R0 R3).1.symm, ?_, ?_, ?_, ?_, rfl⟩
  · rw [← Complex.ofReal_pow, ← Complex.ofReal_pow, ← Complex.ofReal_add, qa, qb, h1]; simp
  · have := congrArg conj (zmR_spec R1 R2).1
    rw [map_mul, Complex.conj_ofReal] at this
    rw [this]
    apply Complex.ext <;> simp [Rb]
  · rw [qa]; unfold cosB; linarith
  · rw [qb]; unfold cosB; linarith
  · rw [qa, qb]; rfl

theorem pw_one (z : ℂ) : pw z 1 = z := by unfold pw; simp
theorem pw_neg_one (z : ℂ) : pw z (-1) = conj z := by unfold pw; simp

theorem sqrt2C_sq : ((Real.sqrt 2 : ℝ) : ℂ) ^ 2 = 2 := by
  rw [← Complex.ofReal_pow, r2]; simp
theorem sqrt2C_ne : ((Real.sqrt 2 : ℝ) : ℂ) ≠ 0 := by
  rw [Ne, Complex.ofReal_eq_zero]; exact p2.ne'

section entries
set_option linter.unusedSimpArgs false
variable {μ : Type} [Mem μ ℝ] [LawfulMem μ ℝ]
variable (L : ℕ) (st : μ) (R0 R1 R2 R3 : ℝ) (hR : R0 ^ 2 + R1 ^ 2 + R2 ^ 2 + R3 ^ 2 = 1)
    (imsqrt : Cx ℝ → ℝ)
    (hs : ∀ w : Cx ℝ, w.re ^ 2 + w.im ^ 2 = 1 → 2 * (imsqrt w) ^ 2 = 1 - w.re) (hl : 1 ≤ L)
include hR hs hl


theorem D1_m1_m1 : toC (objD L st R0 R1 R2 R3 imsqrt 1 (-1) (-1)) = conj (Ra R0 R3) ^ 2 := by
  rw [objD_eq L st R0 R1 R2 R3 hR imsqrt hs 1 hl (-1) (-1) (by decide) (by decide)]
  obtain ⟨sa, sb, P, M, eP, eM, h1, hP, hM, hA, hB, hca, hcb, hc, hsn⟩ := phase_facts R0 R1 R2 R3 hR
  have w : wedgeRep (-1) (-1) = (1, 1) := by decide
  have e : eps (-1) * eps (-(-1)) = -1 := by decide
  rw [w, e]
  simp only [Int.toNat_one, Int.toNat_zero]
  rw [valW_1_1_1 _ _ (cos_sin_unit R0 R1 R2 R3 hR)]
  simp only [pw_one, pw_neg_one, pw_zero, toC_mul, toC_conj, eP, eM, hA, hB, hc, hsn, map_mul, Complex.conj_ofReal,
    Complex.conj_conj]
  push_cast
  linear_combination ((1 + (sa:ℂ)^2 - (sb:ℂ)^2) / 2 * (conj P)^2) * hM - ((conj P)^2 / 2) * h1

theorem D1_m1_z : toC (objD L st R0 R1 R2 R3 imsqrt 1 (-1) (0)) = (Real.sqrt 2 : ℂ) * conj (Ra R0 R3) * Rb R1 R2 := by
  rw [objD_eq L st R0 R1 R2 R3 hR imsqrt hs 1 hl (-1) (0) (by decide) (by decide)]
  obtain ⟨sa, sb, P, M, eP, eM, h1, hP, hM, hA, hB, hca, hcb, hc, hsn⟩ := phase_facts R0 R1 R2 R3 hR
  have w : wedgeRep (-1) (0) = (0, 1) := by decide
  have e : eps (-1) * eps (-(0)) = 1 := by decide
  rw [w, e]
  simp only [Int.toNat_one, Int.toNat_zero]
  rw [valW_1_0_1]
  simp only [pw_one, pw_neg_one, pw_zero, toC_mul, toC_conj, eP, eM, hA, hB, hc, hsn, map_mul, Complex.conj_ofReal,
    Complex.conj_conj]
  push_cast
  have hne := sqrt2C_ne
  field_simp
  rw [sqrt2C_sq]; ring

theorem D1_m1_p1 : toC (objD L st R0 R1 R2 R3 imsqrt 1 (-1) (1)) = Rb R1 R2 ^ 2 := by
  rw [objD_eq L st R0 R1 R2 R3 hR imsqrt hs 1 hl (-1) (1) (by decide) (by decide)]
  obtain ⟨sa, sb, P, M, eP, eM, h1, hP, hM, hA, hB, hca, hcb, hc, hsn⟩ := phase_facts R0 R1 R2 R3 hR
  have w : wedgeRep (-1) (1) = (-1, 1) := by decide
  have e : eps (-1) * eps (-(1)) = 1 := by decide
  rw [w, e]
  simp only [Int.toNat_one, Int.toNat_zero]
  rw [valW_1_m1_1 _ _ (cos_sin_unit R0 R1 R2 R3 hR)]
  simp only [pw_one, pw_neg_one, pw_zero, toC_mul, toC_conj, eP, eM, hA, hB, hc, hsn, map_mul, Complex.conj_ofReal,
    Complex.conj_conj]
  push_cast
  linear_combination ((1 - (sa:ℂ)^2 + (sb:ℂ)^2) / 2 * (conj M)^2) * hP - ((conj M)^2 / 2) * h1

theorem D1_z_m1 : toC (objD L st R0 R1 R2 R3 imsqrt 1 (0) (-1)) = -(Real.sqrt 2 : ℂ) * conj (Ra R0 R3) * conj (Rb R1 R2) := by
  rw [objD_eq L st R0 R1 R2 R3 hR imsqrt hs 1 hl (0) (-1) (by decide) (by decide)]
  obtain ⟨sa, sb, P, M, eP, eM, h1, hP, hM, hA, hB, hca, hcb, hc, hsn⟩ := phase_facts R0 R1 R2 R3 hR
  have w : wedgeRep (0) (-1) = (0, 1) := by decide
  have e : eps (0) * eps (-(-1)) = -1 := by decide
  rw [w, e]
  simp only [Int.toNat_one, Int.toNat_zero]
  rw [valW_1_0_1]
  simp only [pw_one, pw_neg_one, pw_zero, toC_mul, toC_conj, eP, eM, hA, hB, hc, hsn, map_mul, Complex.conj_ofReal,
    Complex.conj_conj]
  push_cast
  have hne := sqrt2C_ne
  field_simp
  rw [sqrt2C_sq]; ring

theorem D1_z_z : toC (objD L st R0 R1 R2 R3 imsqrt 1 (0) (0)) = Ra R0 R3 * conj (Ra R0 R3) - Rb R1 R2 * conj (Rb R1 R2) := by
  rw [objD_eq L st R0 R1 R2 R3 hR imsqrt hs 1 hl (0) (0) (by decide) (by decide)]
  obtain ⟨sa, sb, P, M, eP, eM, h1, hP, hM, hA, hB, hca, hcb, hc, hsn⟩ := phase_facts R0 R1 R2 R3 hR
  have w : wedgeRep (0) (0) = (0, 0) := by decide
  have e : eps (0) * eps (-(0)) = 1 := by decide
  rw [w, e]
  simp only [Int.toNat_one, Int.toNat_zero]
  rw [valW_1_0_0]
  simp only [pw_one, pw_neg_one, pw_zero, toC_mul, toC_conj, eP, eM, hA, hB, hc, hsn, map_mul, Complex.conj_ofReal,
    Complex.conj_conj]
  push_cast
  linear_combination (-(sa:ℂ)^2) * hP + ((sb:ℂ)^2) * hM

theorem D1_z_p1 : toC (objD L st R0 R1 R2 R3 imsqrt 1 (0) (1)) = (Real.sqrt 2 : ℂ) * Ra R0 R3 * Rb R1 R2 := by
  rw [objD_eq L st R0 R1 R2 R3 hR imsqrt hs 1 hl (0) (1) (by decide) (by decide)]
  obtain ⟨sa, sb, P, M, eP, eM, h1, hP, hM, hA, hB, hca, hcb, hc, hsn⟩ := phase_facts R0 R1 R2 R3 hR
  have w : wedgeRep (0) (1) = (0, 1) := by decide
  have e : eps (0) * eps (-(1)) = 1 := by decide
  rw [w, e]
  simp only [Int.toNat_one, Int.toNat_zero]
  rw [valW_1_0_1]
  simp only [pw_one, pw_neg_one, pw_zero, toC_mul, toC_conj, eP, eM, hA, hB, hc, hsn, map_mul, Complex.conj_ofReal,
    Complex.conj_conj]
  push_cast
  have hne := sqrt2C_ne
  field_simp
  rw [sqrt2C_sq]; ring

theorem D1_p1_m1 : toC (objD L st R0 R1 R2 R3 imsqrt 1 (1) (-1)) = conj (Rb R1 R2) ^ 2 := by
  rw [objD_eq L st R0 R1 R2 R3 hR imsqrt hs 1 hl (1) (-1) (by decide) (by decide)]
  obtain ⟨sa, sb, P, M, eP, eM, h1, hP, hM, hA, hB, hca, hcb, hc, hsn⟩ := phase_facts R0 R1 R2 R3 hR
  have w : wedgeRep (1) (-1) = (-1, 1) := by decide
  have e : eps (1) * eps (-(-1)) = 1 := by decide
  rw [w, e]
  simp only [Int.toNat_one, Int.toNat_zero]
  rw [valW_1_m1_1 _ _ (cos_sin_unit R0 R1 R2 R3 hR)]
  simp only [pw_one, pw_neg_one, pw_zero, toC_mul, toC_conj, eP, eM, hA, hB, hc, hsn, map_mul, Complex.conj_ofReal,
    Complex.conj_conj]
  push_cast
  linear_combination ((1 - (sa:ℂ)^2 + (sb:ℂ)^2) / 2 * M^2) * hP - (M^2 / 2) * h1

theorem D1_p1_z : toC (objD L st R0 R1 R2 R3 imsqrt 1 (1) (0)) = -(Real.sqrt 2 : ℂ) * Ra R0 R3 * conj (Rb R1 R2) := by
  rw [objD_eq L st R0 R1 R2 R3 hR imsqrt hs 1 hl (1) (0) (by decide) (by decide)]
  obtain ⟨sa, sb, P, M, eP, eM, h1, hP, hM, hA, hB, hca, hcb, hc, hsn⟩ := phase_facts R0 R1 R2 R3 hR
  have w : wedgeRep (1) (0) = (0, 1) := by decide
  have e : eps (1) * eps (-(0)) = -1 := by decide
  rw [w, e]
  simp only [Int.toNat_one, Int.toNat_zero]
  rw [valW_1_0_1]
  simp only [pw_one, pw_neg_one, pw_zero, toC_mul, toC_conj, eP, eM, hA, hB, hc, hsn, map_mul, Complex.conj_ofReal,
    Complex.conj_conj]
  push_cast
  have hne := sqrt2C_ne
  field_simp
  rw [sqrt2C_sq]; ring

theorem D1_p1_p1 : toC (objD L st R0 R1 R2 R3 imsqrt 1 (1) (1)) = Ra R0 R3 ^ 2 := by
  rw [objD_eq L st R0 R1 R2 R3 hR imsqrt hs 1 hl (1) (1) (by decide) (by decide)]
  obtain ⟨sa, sb, P, M, eP, eM, h1, hP, hM, hA, hB, hca, hcb, hc, hsn⟩ := phase_facts R0 R1 R2 R3 hR
  have w : wedgeRep (1) (1) = (1, 1) := by decide
  have e : eps (1) * eps (-(1)) = -1 := by decide
  rw [w, e]
  simp only [Int.toNat_one, Int.toNat_zero]
  rw [valW_1_1_1 _ _ (cos_sin_unit R0 R1 R2 R3 hR)]
  simp only [pw_one, pw_neg_one, pw_zero, toC_mul, toC_conj, eP, eM, hA, hB, hc, hsn, map_mul, Complex.conj_ofReal,
    Complex.conj_conj]
  push_cast
  linear_combination ((1 + (sa:ℂ)^2 - (sb:ℂ)^2) / 2 * P^2) * hM - (P^2 / 2) * h1
end entries
/-! ### the documented definition -/

/-- binomial coefficient with integer arguments: 0 unless 0 ≤ k (and, by `Nat.choose`, k ≤ n) -/
def ichoose (n k : ℤ) : ℕ := if 0 ≤ k then Nat.choose n.toNat k.toNat else 0

/-- the definition of docs/WignerDMatrices.md, verbatim:
    D^ℓ_{m',m}(R) = √[(ℓ+m)!(ℓ−m)!/((ℓ+m')!(ℓ−m')!)] Σ_ρ C(ℓ+m',ρ) C(ℓ−m',ℓ−ρ−m) (−1)^ρ
                     R_a^{ℓ+m'−ρ} conj(R_a)^{ℓ−ρ−m} R_b^{ρ−m'+m} conj(R_b)^ρ
    (the sum over all ρ for which the binomials do not vanish: 0 ≤ ρ ≤ ℓ+m' ≤ 2ℓ). -/
def docD (ℓ : ℕ) (Ra Rb : ℂ) (mp m : ℤ) : ℂ :=
  ((Real.sqrt (((((ℓ : ℤ) + m).toNat ! * ((ℓ : ℤ) - m).toNat ! : ℕ) : ℝ)
      / ((((ℓ : ℤ) + mp).toNat ! * ((ℓ : ℤ) - mp).toNat ! : ℕ) : ℝ)) : ℝ) : ℂ) *
  ∑ ρ ∈ Finset.range (2 * ℓ + 1),
    ((ichoose ((ℓ : ℤ) + mp) ρ * ichoose ((ℓ : ℤ) - mp) ((ℓ : ℤ) - ρ - m) : ℕ) : ℂ) * (-1) ^ ρ
      * Ra ^ ((ℓ : ℤ) + mp - ρ).toNat * conj Ra ^ ((ℓ : ℤ) - ρ - m).toNat
      * Rb ^ ((ρ : ℤ) - mp + m).toNat * conj Rb ^ ρ

/-- the nine entries for ℓ = 1, rows m' = −1, 0, 1 and columns m = −1, 0, 1 -/
def D1doc (Ra Rb : ℂ) (mp m : ℤ) : ℂ :=
  if mp = -1 then
    (if m = -1 then conj Ra ^ 2 else if m = 0 then (Real.sqrt 2 : ℂ) * conj Ra * Rb else Rb ^ 2)
  else if mp = 0 then
    (if m = -1 then -(Real.sqrt 2 : ℂ) * conj Ra * conj Rb
     else if m = 0 then Ra * conj Ra - Rb * conj Rb else (Real.sqrt 2 : ℂ) * Ra * Rb)
  else
    (if m = -1 then conj Rb ^ 2 else if m = 0 then -(Real.sqrt 2 : ℂ) * Ra * conj Rb else Ra ^ 2)

theorem docD_zero (Ra Rb : ℂ) : docD 0 Ra Rb 0 0 = 1 := by
  simp [docD, ichoose]

theorem docD_one_m1_m1 (Ra Rb : ℂ) : docD 1 Ra Rb (-1) (-1) = D1doc Ra Rb (-1) (-1) := by
  simp [docD, D1doc, ichoose, Finset.sum_range_succ]
theorem docD_one_m1_z (Ra Rb : ℂ) : docD 1 Ra Rb (-1) (0) = D1doc Ra Rb (-1) (0) := by
  simp [docD, D1doc, ichoose, Finset.sum_range_succ]
  have hne := sqrt2C_ne
  field_simp
  rw [sqrt2C_sq]
theorem docD_one_m1_p1 (Ra Rb : ℂ) : docD 1 Ra Rb (-1) (1) = D1doc Ra Rb (-1) (1) := by
  simp [docD, D1doc, ichoose, Finset.sum_range_succ]
theorem docD_one_z_m1 (Ra Rb : ℂ) : docD 1 Ra Rb (0) (-1) = D1doc Ra Rb (0) (-1) := by
  simp [docD, D1doc, ichoose, Finset.sum_range_succ]
  ring1
theorem docD_one_z_z (Ra Rb : ℂ) : docD 1 Ra Rb (0) (0) = D1doc Ra Rb (0) (0) := by
  simp [docD, D1doc, ichoose, Finset.sum_range_succ]
  ring1
theorem docD_one_z_p1 (Ra Rb : ℂ) : docD 1 Ra Rb (0) (1) = D1doc Ra Rb (0) (1) := by
  simp [docD, D1doc, ichoose, Finset.sum_range_succ]
  ring1
theorem docD_one_p1_m1 (Ra Rb : ℂ) : docD 1 Ra Rb (1) (-1) = D1doc Ra Rb (1) (-1) := by
  simp [docD, D1doc, ichoose, Finset.sum_range_succ]
theorem docD_one_p1_z (Ra Rb : ℂ) : docD 1 Ra Rb (1) (0) = D1doc Ra Rb (1) (0) := by
  simp [docD, D1doc, ichoose, Finset.sum_range_succ]
  have hne := sqrt2C_ne
  field_simp
  rw [sqrt2C_sq]
theorem docD_one_p1_p1 (Ra Rb : ℂ) : docD 1 Ra Rb (1) (1) = D1doc Ra Rb (1) (1) := by
  simp [docD, D1doc, ichoose, Finset.sum_range_succ]

/-- for ℓ = 1 the documented sum is the table `D1doc` -/
theorem docD_one (Ra Rb : ℂ) (mp m : ℤ) (hmp : mp.natAbs ≤ 1) (hm : m.natAbs ≤ 1) :
    docD 1 Ra Rb mp m = D1doc Ra Rb mp m := by
  have h1 : mp = -1 ∨ mp = 0 ∨ mp = 1 := by omega
  have h2 : m = -1 ∨ m = 0 ∨ m = 1 := by omega
  rcases h1 with rfl | rfl | rfl <;> rcases h2 with rfl | rfl | rfl
  · exact docD_one_m1_m1 Ra Rb
  · exact docD_one_m1_z Ra Rb
  · exact docD_one_m1_p1 Ra Rb
  · exact docD_one_z_m1 Ra Rb
  · exact docD_one_z_z Ra Rb
  · exact docD_one_z_p1 Ra Rb
  · exact docD_one_p1_m1 Ra Rb
  · exact docD_one_p1_z Ra Rb
  · exact docD_one_p1_p1 Ra Rb

section
variable {μ : Type} [Mem μ ℝ] [LawfulMem μ ℝ]

/-- ℓ = 1: the model's entry is the documented table entry, all nine (m', m) -/
theorem objD_one_eq_table (L : ℕ) (st : μ) (R0 R1 R2 R3 : ℝ) (hR : R0 ^ 2 + R1 ^ 2 + R2 ^ 2 + R3 ^ 2 = 1)
    (imsqrt : Cx ℝ → ℝ)
    (hs : ∀ w : Cx ℝ, w.re ^ 2 + w.im ^ 2 = 1 → 2 * (imsqrt w) ^ 2 = 1 - w.re) (hl : 1 ≤ L)
    (mp m : ℤ) (hmp : mp.natAbs ≤ 1) (hm : m.natAbs ≤ 1) :
    toC (objD L st R0 R1 R2 R3 imsqrt 1 mp m) = D1doc (Ra R0 R3) (Rb R1 R2) mp m := by
  have h1 : mp = -1 ∨ mp = 0 ∨ mp = 1 := by omega
  have h2 : m = -1 ∨ m = 0 ∨ m = 1 := by omega
  rcases h1 with rfl | rfl | rfl <;> rcases h2 with rfl | rfl | rfl
  · rw [D1_m1_m1 L st R0 R1 R2 R3 hR imsqrt hs hl]; simp [D1doc]
  · rw [D1_m1_z L st R0 R1 R2 R3 hR imsqrt hs hl]; simp [D1doc]
  · rw [D1_m1_p1 L st R0 R1 R2 R3 hR imsqrt hs hl]; simp [D1doc]
  · rw [D1_z_m1 L st R0 R1 R2 R3 hR imsqrt hs hl]; simp [D1doc]
  · rw [D1_z_z L st R0 R1 R2 R3 hR imsqrt hs hl]; simp [D1doc]
  · rw [D1_z_p1 L st R0 R1 R2 R3 hR imsqrt hs hl]; simp [D1doc]
  · rw [D1_p1_m1 L st R0 R1 R2 R3 hR imsqrt hs hl]; simp [D1doc]
  · rw [D1_p1_z L st R0 R1 R2 R3 hR imsqrt hs hl]; simp [D1doc]
  · rw [D1_p1_p1 L st R0 R1 R2 R3 hR imsqrt hs hl]; simp [D1doc]

/-- ℓ = 0 -/
theorem objD_zero (L : ℕ) (st : μ) (R0 R1 R2 R3 : ℝ) (hR : R0 ^ 2 + R1 ^ 2 + R2 ^ 2 + R3 ^ 2 = 1)
    (imsqrt : Cx ℝ → ℝ)
    (hs : ∀ w : Cx ℝ, w.re ^ 2 + w.im ^ 2 = 1 → 2 * (imsqrt w) ^ 2 = 1 - w.re) :
    toC (objD L st R0 R1 R2 R3 imsqrt 0 0 0) = 1 := by
  rw [objD_eq L st R0 R1 R2 R3 hR imsqrt hs 0 (Nat.zero_le _) 0 0 (by decide) (by decide)]
  have w : wedgeRep 0 0 = (0, 0) := by decide
  have e : eps 0 * eps (-0) = 1 := by decide
  rw [w, e]
  simp only [Int.toNat_zero]
  rw [valW_0_0_0, pw_zero, pw_zero]
  simp
end
/-! ### `Wigner.d` -/

section
variable {μ : Type} [Mem μ ℝ] [LawfulMem μ ℝ]

/-- the entry of `Wigner.d` in closed form, for every ℓ: sign · H-recursion value -/
theorem objd_eq (L : ℕ) (st : μ) (c s : ℝ) (ell : ℕ) (hl : ell ≤ L) (mp m : ℤ)
    (hmp : mp.natAbs ≤ ell) (hm : m.natAbs ≤ ell) :
    objd L st c s ell mp m =
      ((eps mp * eps (-m) : ℤ) : ℝ) * valW c s ell (wedgeRep mp m).1 (wedgeRep mp m).2.toNat := by
  unfold objd dEntry Hat
  simp only [RealScalar.mul_def, RealScalar.ofInt_def]
  have h1 := Lemmas.Object.wedgeRep_fst_le mp m
  have h2 := Lemmas.Object.wedgeRep_fst_le_snd mp m
  have h3 := Lemmas.Object.wedgeRep_snd_le mp m ell hmp hm
  rw [HRefine.runH_refines L L _ _ st ell _ _ hl (by omega) h2 h3]

/-- the real d¹(β) in the library's convention (rows m' = −1, 0, 1; columns m = −1, 0, 1), c = cos β, s = sin β -/
def d1doc (c s : ℝ) (mp m : ℤ) : ℝ :=
  if mp = -1 then (if m = -1 then (1 + c) / 2 else if m = 0 then s / Real.sqrt 2 else (1 - c) / 2)
  else if mp = 0 then (if m = -1 then -(s / Real.sqrt 2) else if m = 0 then c else s / Real.sqrt 2)
  else (if m = -1 then (1 - c) / 2 else if m = 0 then -(s / Real.sqrt 2) else (1 + c) / 2)

theorem objd_one_eq_table (L : ℕ) (st : μ) (c s : ℝ) (hcs : c ^ 2 + s ^ 2 = 1) (hl : 1 ≤ L)
    (mp m : ℤ) (hmp : mp.natAbs ≤ 1) (hm : m.natAbs ≤ 1) :
    objd L st c s 1 mp m = d1doc c s mp m := by
  rw [objd_eq L st c s 1 hl mp m hmp hm]
  have h1 : mp = -1 ∨ mp = 0 ∨ mp = 1 := by omega
  have h2 : m = -1 ∨ m = 0 ∨ m = 1 := by omega
  have v11 := valW_1_1_1 c s hcs
  have vm11 := valW_1_m1_1 c s hcs
  have v01 := valW_1_0_1 c s
  have v00 := valW_1_0_0 c s
  rcases h1 with rfl | rfl | rfl <;> rcases h2 with rfl | rfl | rfl
  · have w : wedgeRep (-1) (-1) = (1, 1) := by decide
    have e : eps (-1) * eps (-(-1)) = -1 := by decide
    rw [w, e]; simp only [Int.toNat_one]; rw [v11]; simp [d1doc]; ring
  · have w : wedgeRep (-1) 0 = (0, 1) := by decide
    have e : eps (-1) * eps (-0) = 1 := by decide
    rw [w, e]; simp only [Int.toNat_one]; rw [v01]; simp [d1doc]
  · have w : wedgeRep (-1) 1 = (-1, 1) := by decide
    have e : eps (-1) * eps (-1) = 1 := by decide
    rw [w, e]; simp only [Int.toNat_one]; rw [vm11]; simp [d1doc]
  · have w : wedgeRep 0 (-1) = (0, 1) := by decide
    have e : eps 0 * eps (-(-1)) = -1 := by decide
    rw [w, e]; simp only [Int.toNat_one]; rw [v01]; simp [d1doc]
  · have w : wedgeRep 0 0 = (0, 0) := by decide
    have e : eps 0 * eps (-0) = 1 := by decide
    rw [w, e]; simp only [Int.toNat_zero]; rw [v00]; simp [d1doc]
  · have w : wedgeRep 0 1 = (0, 1) := by decide
    have e : eps 0 * eps (-1) = 1 := by decide
    rw [w, e]; simp only [Int.toNat_one]; rw [v01]; simp [d1doc]
  · have w : wedgeRep 1 (-1) = (-1, 1) := by decide
    have e : eps 1 * eps (-(-1)) = 1 := by decide
    rw [w, e]; simp only [Int.toNat_one]; rw [vm11]; simp [d1doc]
  · have w : wedgeRep 1 0 = (0, 1) := by decide
    have e : eps 1 * eps (-0) = -1 := by decide
    rw [w, e]; simp only [Int.toNat_one]; rw [v01]; simp [d1doc]
  · have w : wedgeRep 1 1 = (1, 1) := by decide
    have e : eps 1 * eps (-1) = -1 := by decide
    rw [w, e]; simp only [Int.toNat_one]; rw [v11]; simp [d1doc]; ring
end

/-- the d table is the D table on the rotors (cos β/2, 0, sin β/2, 0): R_a = x, R_b = y real -/
theorem d1doc_eq_D1doc (x y : ℝ) (h : x ^ 2 + y ^ 2 = 1) (mp m : ℤ) (hmp : mp.natAbs ≤ 1) (hm : m.natAbs ≤ 1) :
    ((d1doc (x ^ 2 - y ^ 2) (2 * x * y) mp m : ℝ) : ℂ) = D1doc (x : ℂ) (y : ℂ) mp m := by
  have h1 : mp = -1 ∨ mp = 0 ∨ mp = 1 := by omega
  have h2 : m = -1 ∨ m = 0 ∨ m = 1 := by omega
  have hne := sqrt2C_ne
  have hq := sqrt2C_sq
  have hC : (x : ℂ) ^ 2 + (y : ℂ) ^ 2 = 1 := by
    rw [← Complex.ofReal_pow, ← Complex.ofReal_pow, ← Complex.ofReal_add, h]; simp
  rcases h1 with rfl | rfl | rfl <;> rcases h2 with rfl | rfl | rfl <;>
    simp [d1doc, D1doc, Complex.conj_ofReal]
  all_goals first
    | (linear_combination (1 / 2 : ℂ) * hC)
    | (linear_combination (-1 / 2 : ℂ) * hC)
    | ring1
    | (field_simp; rw [hq]; ring1)

end DDef
end
