"""C04 — rotating mode weights realises f'(Q) = f(R*Q) and composes like the rotation group.

Obligations: Props/C04.lean + Routes (rotateHorner_eq_matrix ...).  Correspondence: _rotate_Horner bitwise.
Gap monitor: f'_{lm} = sum_{m'} f_{lm'} D_{m'm} against the D matrix of a fresh calculator, evaluation identity
f'(Q) = f(R Q), composition, inverse, block norms, low modes zero, metadata, Horner = matrix, Modes.rotate."""
import math

import numpy as np

from .. import corr, kern, helpers
from . import common

EPS = 2.0 ** -52


def gap(run, quick):
    import spherical
    import quaternionic
    rng = run.rng
    rot_all = [r for r in corr.rotor_strata(rng, 6) if "subnormal" not in r[0] and "1e-160" not in r[0]]
    spins = [0, -2, 3, 6] if quick else list(range(-6, 7))
    for s in spins:
        for L in ([abs(s), 7, 16] if quick else [abs(s), abs(s) + 1, 7, 16, 32, 48]):
            if L < abs(s):
                continue
            for lead, kind in [((), "random"), ((3,), "single"), ((2, 2), "dynamic")][: (1 if quick and L > 7 else 3)]:
                modes = helpers.make_modes(rng, s, L, lead, kind, multiplication_truncator=max)
                arr0 = modes.ndarray.copy()
                scale = max(float(np.max(np.abs(arr0))), 1e-300)
                tol = 64 * (L + 2) ** 1.5 * EPS * max(float(np.max(np.sqrt(np.sum(np.abs(arr0) ** 2, axis=-1)))), scale)
                (la, R), (lb, R2) = rng.sample(rot_all, 2)
                Q = helpers.random_rotor(rng)
                wD = spherical.Wigner(L)
                D = wD.D(quaternionic.array(R))
                ref = np.zeros_like(arr0)
                for ell in range(abs(s), L + 1):
                    i1 = wD.Dindex(ell, -ell, -ell)
                    B = D[i1:i1 + (2 * ell + 1) ** 2].reshape(2 * ell + 1, 2 * ell + 1)
                    ref[..., ell * ell:(ell + 1) ** 2] = arr0[..., ell * ell:(ell + 1) ** 2] @ B
                calcs = [("exact", spherical.Wigner(L)), ("larger", spherical.Wigner(L + 2))]
                if L >= abs(s) + 2:   # calculator ell_min above the modes' lowest ell: served through the Horner route
                    calcs += [("ell_min>|s|", spherical.Wigner(L, ell_min=abs(s) + 2))]
                if abs(s) >= 1:   # calculators whose own ell_min is above 0 (anything up to |s| must serve these modes)
                    calcs += [("ell_min=|s|", spherical.Wigner(L + 1, ell_min=abs(s))), ("ell_min=1", spherical.Wigner(L, ell_min=1))]
                for cname, w in calcs:
                    res = {}
                    for horner in (True, False):
                        inp = {"s": s, "ell_max_modes": L, "lead": list(lead), "kind": kind, "calc": [w.ell_min, w.ell_max, w.mp_max], "horner": horner, "R": list(R)}
                        site = f"Wigner.rotate[horner={horner}]"
                        try:
                            r = w.rotate(modes, quaternionic.array(R), horner=horner)
                        except Exception as e:
                            run.violation("rotate-raised-on-valid-request", site, inp, "Modes", repr(e))
                            continue
                        run.gap_case("rotate-vs-matrix-definition", (s, L, lead, kind, cname, horner), f"{cname}|horner={horner}|{la}", {k: inp[k] for k in ("s", "ell_max_modes", "calc", "horner")})
                        if type(r) is not type(modes) or r.spin_weight != s or r.ell_max != L or r.shape != modes.shape or r._metadata.get("multiplication_truncator") is not max:
                            run.violation("rotate-metadata", site, inp, "same class/spin/ell_max/shape/metadata", f"{type(r).__name__} s={getattr(r, 'spin_weight', None)} ell_max={getattr(r, 'ell_max', None)} shape={r.shape}")
                            continue
                        ra = r.ndarray
                        res[horner] = ra
                        if np.any(ra[..., :s * s] != 0):
                            run.violation("rotate-low-modes-nonzero", site, inp, "zeros below |s|", "nonzero")
                        err = float(np.max(np.abs(ra - ref)))
                        if not (err <= tol):
                            run.violation("rotate-differs-from-f.D", site, inp, "sum_m' f_lm' D_m'm", f"max abs err {err} > {tol}")
                        if not np.array_equal(modes.ndarray, arr0):
                            run.violation("rotate-modified-input", site, inp, "input unchanged", "changed")
                        # the same request into a caller-supplied, non-zero output buffer
                        try:
                            buf = np.full(modes.shape, 3.0 - 2.0j)
                            ro = w.rotate(modes, quaternionic.array(R), out=buf, horner=horner).ndarray
                            if not (float(np.max(np.abs(ro - ref))) <= tol) or not (float(np.max(np.abs(buf - ref))) <= tol):
                                run.violation("rotate-differs-from-f.D", site, {**inp, "out": "prefilled"}, "sum_m' f_lm' D_m'm written into out", f"max abs err {float(np.max(np.abs(ro - ref)))}")
                        except Exception as e:
                            run.violation("rotate-raised-on-valid-request", site, {**inp, "out": "prefilled"}, "Modes", repr(e))
                        # block norms
                        for ell in range(abs(s), L + 1):
                            n0 = np.linalg.norm(arr0[..., ell * ell:(ell + 1) ** 2], axis=-1)
                            n1 = np.linalg.norm(ra[..., ell * ell:(ell + 1) ** 2], axis=-1)
                            if not np.all(np.abs(n0 - n1) <= 64 * (ell + 2) * EPS * np.maximum(n0, 1e-300)):
                                run.violation("rotate-block-norm", site, {**inp, "ell": ell}, "2-norm preserved", "changed")
                                break
                    if cname == "exact" and True in res:
                        # evaluation identity, composition, inverse (Horner route results)
                        we = spherical.Wigner(L, mp_max=abs(s))
                        rm = spherical.Modes(res[True].copy(), spin_weight=s, ell_min=0, ell_max=L)
                        lhs = we.evaluate(rm, quaternionic.array(Q), horner=True)
                        rhs = we.evaluate(modes, quaternionic.array(helpers.qmul(R, Q)), horner=True)
                        etol = 64 * (L + 2) ** 2 * EPS * max(float(np.max(np.sum(np.abs(arr0), axis=-1))), 1e-300)
                        run.gap_case("rotate-evaluation-identity", (s, L, lead, kind), la)
                        if not (float(np.max(np.abs(lhs - rhs))) <= etol):
                            run.violation("rotate-evaluation-identity", "Wigner.rotate[horner=True]", {"s": s, "ell_max_modes": L, "R": list(R), "Q": list(Q)}, "f'(Q) = f(R Q)", f"err {float(np.max(np.abs(lhs - rhs)))}")
                        for horner in (True, False):
                            try:
                                a = w.rotate(w.rotate(modes, quaternionic.array(R), horner=horner), quaternionic.array(R2), horner=horner).ndarray
                                b = w.rotate(modes, quaternionic.array(helpers.qmul(R, R2)), horner=horner).ndarray
                                c = w.rotate(w.rotate(modes, quaternionic.array(R), horner=horner), quaternionic.array(helpers.qconj(R)), horner=horner).ndarray
                                # the same inverse pair with unrelated calls in between and an explicit workspace for the way back
                                r1 = w.rotate(modes, quaternionic.array(R), horner=horner)
                                w.D(quaternionic.array(R2))
                                w.sYlm(0, quaternionic.array(Q))
                                c2 = w.rotate(r1, quaternionic.array(helpers.qconj(R)), horner=horner).ndarray
                                c3 = w.rotate(r1, quaternionic.array(helpers.qconj(R)), workspace=w.new_workspace(), horner=horner).ndarray
                                if not (float(np.max(np.abs(c2 - arr0))) <= 2 * tol) or not (float(np.max(np.abs(c3 - arr0))) <= 2 * tol):
                                    run.violation("rotate-inverse", f"Wigner.rotate[horner={horner}]", {"s": s, "ell_max_modes": L, "R": list(R), "between": ["D(R2)", "sYlm(0,Q)"], "R2": list(R2), "Q": list(Q)},
                                                  "rotate(R), other calls, rotate(R^-1) = identity", f"err {max(float(np.max(np.abs(c2 - arr0))), float(np.max(np.abs(c3 - arr0))))}")
                            except Exception:
                                continue
                            run.gap_case("rotate-composition-inverse", (s, L, lead, kind, horner), f"{la}*{lb}")
                            if not (float(np.max(np.abs(a - b))) <= 2 * tol):
                                run.violation("rotate-composition", f"Wigner.rotate[horner={horner}]", {"s": s, "ell_max_modes": L, "R1": list(R), "R2": list(R2)}, "rotate(R1) then rotate(R2) = rotate(R1 R2)", f"err {float(np.max(np.abs(a - b)))}")
                            if not (float(np.max(np.abs(c - arr0))) <= 2 * tol):
                                run.violation("rotate-inverse", f"Wigner.rotate[horner={horner}]", {"s": s, "ell_max_modes": L, "R": list(R)}, "rotate(R) then rotate(R^-1) = identity", f"err {float(np.max(np.abs(c - arr0)))}")
                # Modes.rotate front end
                try:
                    r = modes.rotate(quaternionic.array(R))
                    if type(r) is not type(modes) or r.spin_weight != s or not (float(np.max(np.abs(r.ndarray - ref))) <= tol):
                        run.violation("Modes.rotate-differs", "Modes.rotate", {"s": s, "ell_max_modes": L, "R": list(R)}, "f.D", "differs")
                except Exception as e:
                    run.violation("Modes.rotate-raised", "Modes.rotate", {"s": s, "ell_max_modes": L}, "Modes", repr(e))


def shared_calculator(run, quick):
    """ONE calculator serving modes of many spin weights, ell ranges and shapes in a row (as a user who keeps a Wigner object
    around does), in several orders — decreasing |s|, increasing |s|, shuffled — on both strategies: every result must be
    f.D with D from a freshly built calculator."""
    import spherical
    import quaternionic
    rng = run.rng
    L = 8
    R = helpers.random_rotor(rng)
    Rq = quaternionic.array(R)
    wD = spherical.Wigner(L)
    D = wD.D(Rq).copy()
    spins = [-3, 3, -2, 2, -1, 1, 0]
    orders = {"decreasing-|s|": spins, "increasing-|s|": spins[::-1], "shuffled": rng.sample(spins, len(spins)), "alternating": [0, -3, 0, 2, -1, 3, 1, -2]}
    items = {}
    for sw in set(spins):
        for eM in (L, L - 2):
            if eM < abs(sw):
                continue
            modes = helpers.make_modes(rng, sw, eM, (2,) if sw % 2 else (), "random")
            arr0 = modes.ndarray.copy()
            ref = np.zeros_like(arr0)
            for ell in range(abs(sw), eM + 1):
                i1 = wD.Dindex(ell, -ell, -ell)
                B = D[i1:i1 + (2 * ell + 1) ** 2].reshape(2 * ell + 1, 2 * ell + 1)
                ref[..., ell * ell:(ell + 1) ** 2] = arr0[..., ell * ell:(ell + 1) ** 2] @ B
            items[(sw, eM)] = (modes, arr0, ref, 64 * (eM + 2) ** 1.5 * EPS * max(float(np.max(np.abs(arr0))), 1e-300) * np.sqrt(arr0.shape[-1]))
    for oname, order in orders.items():
        for horner in (False, True):
            for wname, mk in (("Wigner(L)", lambda: spherical.Wigner(L)), ("Wigner(L+2)", lambda: spherical.Wigner(L + 2))):
                w = mk()
                hist = []
                for sw in order:
                    for eM in ((L, L - 2) if oname != "alternating" else (L,)):
                        if (sw, eM) not in items:
                            continue
                        modes, arr0, ref, tol = items[(sw, eM)]
                        hist.append([sw, eM])
                        inp = {"calculator": wname, "horner": horner, "order": oname, "requests_so_far_(s,ell_max)": list(hist), "R": list(R)}
                        run.gap_case("rotate-shared-calculator", (oname, horner, wname, sw, eM), f"{oname}|horner={horner}")
                        try:
                            ra = w.rotate(modes, Rq, horner=horner).ndarray
                        except Exception as e:   # noqa: BLE001
                            run.violation("rotate-raised-on-valid-request", f"Wigner.rotate[horner={horner}]", inp, "Modes", repr(e)[:200])
                            break
                        err = float(np.max(np.abs(ra - ref)))
                        if not (err <= tol):
                            run.violation("rotate-differs-from-f.D", f"Wigner.rotate[horner={horner}]", inp, "sum_m' f_lm' D_m'm (D from a fresh calculator)", f"max abs err {err} > {tol}")
                            break
                        if not np.array_equal(modes.ndarray, arr0):
                            run.violation("rotate-modified-input", f"Wigner.rotate[horner={horner}]", inp, "input unchanged", "changed")
                            modes.ndarray[...] = arr0
                    else:
                        continue
                    break


def check(run):
    quick = run.tier == "quick"
    run.regenerate()
    run.lean_props(common.modules_for("C04"))
    rng = run.rng
    rotors = corr.rotor_strata(rng, 4 if quick else 12)
    preps = run.attempt("corr:euler", kern.prep_rotors, run, rotors, default={})
    cases = []
    for (L, s, eM) in ([(4, 0, 4), (4, -2, 3), (6, 3, 6), (6, 1, 2), (8, -4, 8), (7, 6, 7), (3, 0, 0)] if quick else
                       [(4, 0, 4), (4, -2, 3), (6, 3, 6), (6, 1, 2), (8, -4, 8), (7, 6, 7), (3, 0, 0), (12, 5, 12), (16, -3, 13), (20, 2, 20)]):
        cases.append((L, s, eM, helpers.random_weights(rng, s, eM)))
    run.attempt("corr:corr_rotH", kern.corr_rotH, run, cases, rotors if not quick else rotors[:14] + rotors[-3:], preps, poison=float("nan"))
    # the default (matrix) route from the source: generated Wigner.D body + generated `_rotate` (left-fold contraction), numerically against the real call;
    # calculators whose ell_min is 0, 1 or |s| (the matrix route is taken when ell_min <= max(|s|, modes' ell_min))
    mcases = []
    for (L, s, eM, f) in cases:
        for emin in sorted({0, min(1, abs(s)), abs(s)}):
            if emin <= L:
                mcases.append((L, emin, s, eM, f))
    run.attempt("corr:corr_rotM", kern.corr_rotM, run, mcases, rotors if not quick else rotors[:8] + rotors[-2:], preps)
    gap(run, quick)
    run.attempt("gap:shared_calculator", shared_calculator, run, quick)
    from .. import layouts
    import quaternionic as _q
    import spherical
    wl_ = spherical.Wigner(7)
    R_ = _q.array(helpers.random_rotor(run.rng))
    layouts.sweep_modes(run, "rotate", [("rotate[horner=True]", lambda f: wl_.rotate(f, R_, horner=True)), ("rotate[horner=False]", lambda f: wl_.rotate(f, R_, horner=False)),
                                        ("Modes.rotate", lambda f: f.rotate(R_))],
                        [-2, 0, 1] if quick else range(-3, 4), exact=lambda nm: "True" in nm)
    run.assumptions += ["f'(Q)=f(RQ), composition, inverse and block norms are proved in exact arithmetic for every ell (HomAll.rot_* / rotate_*); their floating-point deviation bounds are swept",
                        "matrix route uses BLAS: compared numerically"]


def replay(body):
    print(body["input"], body["expected"], body["got"])
    return 0
