import SphericalVerif.Lemmas.DocD2
import SphericalVerif.Spec.GDFamily
/-! Normalisation √((ℓ+m)!(ℓ−m)!/((ℓ+m')!(ℓ−m')!)), the natural-number form `dN` of the documented d, the signs
    ε and sign(·), and the two symmetries (S) of `Hdoc`. -/
noncomputable section
namespace DocD
open Polynomial Nat
set_option linter.unusedVariables false

/-! ### √(k!) -/

/-- w k = √(k!) -/
def w (k : ℕ) : ℝ := Real.sqrt (k ! : ℝ)

theorem w_pos (k : ℕ) : 0 < w k := Real.sqrt_pos.mpr (by exact_mod_cast Nat.factorial_pos k)

theorem w_ne (k : ℕ) : w k ≠ 0 := (w_pos k).ne'

theorem w_sq (k : ℕ) : w k * w k = (k ! : ℝ) := Real.mul_self_sqrt (by positivity)

theorem w_succ (k : ℕ) : w (k + 1) = Real.sqrt ((k : ℝ) + 1) * w k := by
  unfold w
  rw [Nat.factorial_succ, Nat.cast_mul, Real.sqrt_mul (by positivity)]
  push_cast; rfl

theorem sq_sqrt_succ (k : ℕ) : Real.sqrt ((k : ℝ) + 1) * Real.sqrt ((k : ℝ) + 1) = (k : ℝ) + 1 :=
  Real.mul_self_sqrt (by positivity)

/-- the normalisation factor -/
def nrm (a b i j : ℕ) : ℝ := Real.sqrt (((i ! * j ! : ℕ) : ℝ) / ((a ! * b ! : ℕ) : ℝ))

theorem nrm_eq (a b i j : ℕ) : nrm a b i j = w i * w j / (w a * w b) := by
  unfold nrm w
  rw [Real.sqrt_div (by positivity), Nat.cast_mul, Nat.cast_mul, Real.sqrt_mul (by positivity),
    Real.sqrt_mul (by positivity)]

theorem nrm_symm (a b i j : ℕ) : nrm a b i j = nrm b a j i := by
  rw [nrm_eq, nrm_eq]; ring

/-- √((j+1)(i+1)) · nrm(a,b,i,j+1) = (j+1) · nrm(a,b,i+1,j) -/
theorem nrm_j_up (a b i j : ℕ) :
    Real.sqrt (((j : ℝ) + 1) * ((i : ℝ) + 1)) * nrm a b i (j + 1) = ((j : ℝ) + 1) * nrm a b (i + 1) j := by
  rw [nrm_eq, nrm_eq, w_succ, w_succ, Real.sqrt_mul (by positivity)]
  have h := sq_sqrt_succ j
  rw [← mul_div_assoc, ← mul_div_assoc]
  congr 1
  linear_combination (Real.sqrt ((i : ℝ) + 1) * w i * w j) * h

/-- √((j+1)(i+1)) · nrm(a,b,i+1,j) = (i+1) · nrm(a,b,i,j+1) -/
theorem nrm_i_up (a b i j : ℕ) :
    Real.sqrt (((j : ℝ) + 1) * ((i : ℝ) + 1)) * nrm a b (i + 1) j = ((i : ℝ) + 1) * nrm a b i (j + 1) := by
  rw [nrm_eq, nrm_eq, w_succ, w_succ, Real.sqrt_mul (by positivity)]
  have h := sq_sqrt_succ i
  rw [← mul_div_assoc, ← mul_div_assoc]
  congr 1
  linear_combination (Real.sqrt ((j : ℝ) + 1) * w i * w j) * h

/-- √((b+1)(a+1)) · nrm(a+1,b,i,j) = (b+1) · nrm(a,b+1,i,j) -/
theorem nrm_a_up (a b i j : ℕ) :
    Real.sqrt (((b : ℝ) + 1) * ((a : ℝ) + 1)) * nrm (a + 1) b i j = ((b : ℝ) + 1) * nrm a (b + 1) i j := by
  rw [nrm_eq, nrm_eq, w_succ, w_succ, Real.sqrt_mul (by positivity)]
  have h := sq_sqrt_succ b
  have := w_ne a; have := w_ne b
  have h1 : Real.sqrt ((a : ℝ) + 1) ≠ 0 := (Real.sqrt_pos.mpr (by positivity)).ne'
  have h2 : Real.sqrt ((b : ℝ) + 1) ≠ 0 := (Real.sqrt_pos.mpr (by positivity)).ne'
  rw [← mul_div_assoc, ← mul_div_assoc, div_eq_div_iff (by positivity) (by positivity)]
  linear_combination (Real.sqrt ((a : ℝ) + 1) * w i * w j * w a * w b) * h

/-- √((b+1)(a+1)) · nrm(a,b+1,i,j) = (a+1) · nrm(a+1,b,i,j) -/
theorem nrm_b_up (a b i j : ℕ) :
    Real.sqrt (((b : ℝ) + 1) * ((a : ℝ) + 1)) * nrm a (b + 1) i j = ((a : ℝ) + 1) * nrm (a + 1) b i j := by
  rw [nrm_eq, nrm_eq, w_succ, w_succ, Real.sqrt_mul (by positivity)]
  have h := sq_sqrt_succ a
  have := w_ne a; have := w_ne b
  have h1 : Real.sqrt ((a : ℝ) + 1) ≠ 0 := (Real.sqrt_pos.mpr (by positivity)).ne'
  have h2 : Real.sqrt ((b : ℝ) + 1) ≠ 0 := (Real.sqrt_pos.mpr (by positivity)).ne'
  rw [← mul_div_assoc, ← mul_div_assoc, div_eq_div_iff (by positivity) (by positivity)]
  linear_combination (Real.sqrt ((b : ℝ) + 1) * w i * w j * w a * w b) * h

/-! ### the documented d with natural-number indices -/

/-- d with a = ℓ+m', b = ℓ−m', i = ℓ+m, j = ℓ−m -/
def dN (ch sh : ℝ) (a b i j : ℕ) : ℝ := nrm a b i j * T ch sh a b j

theorem docd_eq_dN (ch sh : ℝ) (n : ℕ) (mp m : ℤ) (a b i j : ℕ)
    (ha : (a : ℤ) = n + mp) (hb : (b : ℤ) = n - mp) (hi : (i : ℤ) = n + m) (hj : (j : ℤ) = n - m) :
    docd ch sh n mp m = dN ch sh a b i j := by
  rw [docd_eq_coeff ch sh n mp m (by omega)]
  have e1 : ((n : ℤ) + mp).toNat = a := by omega
  have e2 : ((n : ℤ) - mp).toNat = b := by omega
  have e3 : ((n : ℤ) + m).toNat = i := by omega
  have e4 : ((n : ℤ) - m).toNat = j := by omega
  rw [e1, e2, e3, e4]
  rfl

variable (ch sh : ℝ)

theorem dN_reflect (a b i j : ℕ) (h : a + b = i + j) : dN ch sh a b i j = (-1) ^ (j + b) * dN ch sh b a j i := by
  unfold dN
  rw [T_reflect ch sh a b i j h, nrm_symm]; ring

theorem dN_swap (a b i j : ℕ) (h : a + b = i + j) : dN ch sh a b i j = dN ch sh j i b a := by
  unfold dN
  have hs := T_swap ch sh a b i j h
  rw [nrm_eq, nrm_eq]
  have ha := w_sq a; have hb := w_sq b; have hi := w_sq i; have hj := w_sq j
  have := w_ne a; have := w_ne b; have := w_ne i; have := w_ne j
  rw [← ha, ← hb, ← hi, ← hj] at hs
  field_simp
  linear_combination hs

/-! ### signs -/

open Model GDFamily

theorem neg_one_pow_congr (p q : ℕ) (h : p % 2 = q % 2) : (-1 : ℝ) ^ p = (-1) ^ q := by
  rw [neg_one_pow_eq_pow_mod_two, h, ← neg_one_pow_eq_pow_mod_two]

theorem eps_cast_sq (k : ℤ) : ((eps k : ℤ) : ℝ) * ((eps k : ℤ) : ℝ) = 1 := by
  unfold eps; split_ifs <;> norm_num

/-- ε(k) = (−1)^k ε(−k) -/
theorem eps_ratio (k : ℤ) (p : ℕ) (hp : (p : ℤ) % 2 = k % 2) : ((eps k : ℤ) : ℝ) = (-1) ^ p * ((eps (-k) : ℤ) : ℝ) := by
  rcases Nat.even_or_odd p with he | ho
  · rw [he.neg_one_pow]
    have : (p : ℤ) % 2 = 0 := by obtain ⟨r, hr⟩ := he; omega
    unfold eps; split_ifs <;> first | (exfalso; omega) | norm_num
  · rw [ho.neg_one_pow]
    have : (p : ℤ) % 2 = 1 := by obtain ⟨r, hr⟩ := ho; omega
    unfold eps; split_ifs <;> first | (exfalso; omega) | norm_num

theorem eps_pair (x y : ℤ) (p : ℕ) (hp : (p : ℤ) % 2 = (x + y) % 2) :
    ((eps x * eps (-y) : ℤ) : ℝ) = (-1) ^ p * ((eps (-x) * eps y : ℤ) : ℝ) := by
  have h1 := eps_ratio x x.natAbs (by omega)
  have h2 := eps_ratio (-y) y.natAbs (by omega)
  rw [neg_neg] at h2
  have h3 : (-1 : ℝ) ^ p = (-1) ^ (x.natAbs + y.natAbs) := neg_one_pow_congr _ _ (by omega)
  push_cast
  rw [h1, h2, h3, pow_add]; ring

/-- sign(k) ε(k+1) = −ε(k) -/
theorem sg_up (k : ℤ) : sgn k * ((eps (k + 1) : ℤ) : ℝ) = -((eps k : ℤ) : ℝ) := by
  unfold sgn eps; split_ifs <;> first | (exfalso; omega) | norm_num

/-- sign(k−1) ε(k−1) = −ε(k) -/
theorem sg_dn (k : ℤ) : sgn (k - 1) * ((eps (k - 1) : ℤ) : ℝ) = -((eps k : ℤ) : ℝ) := by
  unfold sgn eps; split_ifs <;> first | (exfalso; omega) | norm_num

/-- sign(m−1) ε(−(m−1)) = ε(−m) -/
theorem sg_m_dn (m : ℤ) : sgn (m - 1) * ((eps (-(m - 1)) : ℤ) : ℝ) = ((eps (-m) : ℤ) : ℝ) := by
  unfold sgn eps; split_ifs <;> first | (exfalso; omega) | norm_num

/-- sign(m) ε(−(m+1)) = ε(−m) -/
theorem sg_m_up (m : ℤ) : sgn m * ((eps (-(m + 1)) : ℤ) : ℝ) = ((eps (-m) : ℤ) : ℝ) := by
  unfold sgn eps; split_ifs <;> first | (exfalso; omega) | norm_num

/-! ### (S) the symmetries of `Hdoc` -/

theorem exists_idx (n : ℕ) (mp m : ℤ) (hmp : mp.natAbs ≤ n) (hm : m.natAbs ≤ n) :
    ∃ a b i j : ℕ, (a : ℤ) = n + mp ∧ (b : ℤ) = n - mp ∧ (i : ℤ) = n + m ∧ (j : ℤ) = n - m :=
  ⟨((n : ℤ) + mp).toNat, ((n : ℤ) - mp).toNat, ((n : ℤ) + m).toNat, ((n : ℤ) - m).toNat,
    by omega, by omega, by omega, by omega⟩

theorem Hdoc_symm_neg (n : ℕ) (mp m : ℤ) (hmp : mp.natAbs ≤ n) (hm : m.natAbs ≤ n) :
    Hdoc ch sh n mp m = Hdoc ch sh n (-mp) (-m) := by
  obtain ⟨a, b, i, j, ha, hb, hi, hj⟩ := exists_idx n mp m hmp hm
  unfold Hdoc
  rw [docd_eq_dN ch sh n mp m a b i j ha hb hi hj,
    docd_eq_dN ch sh n (-mp) (-m) b a j i (by omega) (by omega) (by omega) (by omega),
    dN_reflect ch sh a b i j (by omega), eps_pair mp m (j + b) (by omega), neg_neg]
  have : ((-1 : ℝ)) ^ (j + b) * (-1) ^ (j + b) = 1 := by rw [← mul_pow]; simp
  linear_combination (((eps (-mp) * eps m : ℤ) : ℝ) * dN ch sh b a j i) * this

theorem Hdoc_symm_swap (n : ℕ) (mp m : ℤ) (hmp : mp.natAbs ≤ n) (hm : m.natAbs ≤ n) :
    Hdoc ch sh n mp m = Hdoc ch sh n m mp := by
  obtain ⟨a, b, i, j, ha, hb, hi, hj⟩ := exists_idx n mp m hmp hm
  unfold Hdoc
  rw [docd_eq_dN ch sh n mp m a b i j ha hb hi hj,
    docd_eq_dN ch sh n m mp i j a b hi hj ha hb,
    dN_swap ch sh a b i j (by omega), dN_reflect ch sh j i b a (by omega), eps_pair mp m (a + i) (by omega)]
  have e : ((eps (-mp) * eps m : ℤ) : ℝ) = ((eps m * eps (-mp) : ℤ) : ℝ) := by rw [mul_comm]
  have : ((-1 : ℝ)) ^ (a + i) * (-1) ^ (a + i) = 1 := by rw [← mul_pow]; simp
  rw [e]
  linear_combination (((eps m * eps (-mp) : ℤ) : ℝ) * dN ch sh i j a b) * this

end DocD
end
