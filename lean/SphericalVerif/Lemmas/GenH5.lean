import SphericalVerif.Lemmas.GenH
/-! `_step_5`: the generated kernel is the coordinate model run on the hybrid memory. -/
set_option linter.unusedTactic false
set_option linter.unreachableTactic false
set_option linter.unnecessarySeqFocus false
namespace GenH
open Gen Model FlatSteps Scalar
section
variable {α : Type} [Scalar α] {φ : Type} [FMem φ α] {L P : Nat}

theorem sim_step5 (d : Int → α)
    (hd : ∀ n k : Int, 0 ≤ n → n ≤ (L : Int) + 1 → -n ≤ k → k ≤ n → d (nm_index n k) = Gen.tab_d n k)
    (F : φ) (J : Loc → α) :
    Model.step5 (α := α) L P (⟨F, J⟩ : Hyb L P φ α) = ⟨Gen.u_step_5 (α := α) d L P idW idV F, J⟩ := by
  unfold Model.step5 Gen.u_step_5
  by_cases h0 : L = 0 ∨ P = 0
  · have h1 : ¬ (((L : Int) > 0) ∧ ((P : Int) > 0)) := by omega
    simp only [if_pos h0, if_neg h1]
  · have h1 : (((L : Int) > 0) ∧ ((P : Int) > 0)) := by omega
    simp only [if_neg h0, if_pos h1]
    have hc : ((((L : Int) + 1)) - 0).toNat = L + 1 := by omega
    rw [hc]
    apply loopN_hyb
    intro k F hk
    simp only [Int.zero_add, Int.zero_sub]
    have hc2 : (- -(min (k : Int) (P : Int))).toNat = min k P := by omega
    rw [hc2]
    apply loopN_hyb
    intro q F hq
    simp only [Int.neg_neg, one]
    have hnL : k ≤ L := by omega
    have hm1 : -(q : Int) ≤ 0 := by omega
    have hm2 : -(min (k : Int) (P : Int)) < -(q : Int) := by omega
    have hc3 : ((k : Int) + -(q : Int) - 1).toNat = k - q - 1 := by omega
    rw [hc3]
    have t5 : d (nm_index ↑k (-↑q - 1)) = dC (k : Int) (-(q : Int) - 1) :=
      tab_nm L hd (s5_d5_eq _ _ P hm1 hm2) (by omega) (by omega)
    have t6 : d (nm_index ↑k (-↑q)) = dC (k : Int) (-(q : Int)) :=
      tab_nm L hd (s5_d6_eq _ _ P hm1 hm2) (by omega) (by omega)
    have t7 : d (nm_index ↑k (↑q - 1)) = dC (k : Int) ((q : Int) - 1) :=
      tab_nm L hd (nmc (s5_d7_eq _ _ 0 P hm1 hm2 (by omega) (by omega)) (by unfold s5_d7 s5_i7 nm_index; (try simp only [Int.neg_neg]) <;> omega) (by omega)) (by omega) (by omega)
    have t8 : d (nm_index ↑k ↑q) = dC (k : Int) (q : Int) :=
      tab_nm L hd (nmc (s5_d8_eq _ _ 0 P hm1 hm2 (by omega) (by omega)) (by unfold s5_d8 s5_i8 nm_index; (try simp only [Int.neg_neg]) <;> omega) (by omega)) (by omega) (by omega)
    rw [t5, t6, t7, t8]
    -- first statement (`i = 0`), two textual branches
    have first : (if q = 0 then
          wr (α := α) (⟨F, J⟩ : Hyb L P φ α) (Loc.hv k (-1))
            (ofInt 1 /. dC (↑k) (-↑q - 1) *.
              (dC (↑k) (-↑q) *. rd (α := α) (⟨F, J⟩ : Hyb L P φ α) (Loc.hv k 1) +.
                  dC (↑k) (↑q - 1) *. rd (α := α) (⟨F, J⟩ : Hyb L P φ α) (Loc.hv k 0) -.
                dC ↑k ↑q *. rd (α := α) (⟨F, J⟩ : Hyb L P φ α) (Loc.hw k 0 1)))
        else
          wr (α := α) (⟨F, J⟩ : Hyb L P φ α) (Loc.hv k (-↑q - 1))
            (ofInt 1 /. dC (↑k) (-↑q - 1) *.
              (dC (↑k) (-↑q) *. rd (α := α) (⟨F, J⟩ : Hyb L P φ α) (Loc.hw k (-↑q + 1) q) +.
                  dC (↑k) (↑q - 1) *. rd (α := α) (⟨F, J⟩ : Hyb L P φ α) (Loc.hv k (-↑q)) -.
                dC ↑k ↑q *. rd (α := α) (⟨F, J⟩ : Hyb L P φ α) (Loc.hw k (-↑q) (q + 1))))) =
        ⟨(if -(q : Int) = 0 then
              fwr (α := α) F idV (nm_index (↑k) (-↑q - 1))
                (ofInt 1 /. dC (↑k) (-↑q - 1) *.
                  (dC (↑k) (-↑q) *. frd (α := α) F idV (nm_index (↑k) (-↑q + 1)) +.
                      dC (↑k) (↑q - 1) *. frd (α := α) F idV (nm_index (↑k) (-↑q)) -.
                    dC ↑k ↑q *. frd (α := α) F idW (WignerHindex (↑k) (-↑q) (↑q + 1) (some ↑P))))
            else
              fwr (α := α) F idV (nm_index (↑k) (-↑q - 1))
                (ofInt 1 /. dC (↑k) (-↑q - 1) *.
                  (dC (↑k) (-↑q) *. frd (α := α) F idW (WignerHindex (↑k) (-↑q + 1) (↑q + 1) (some ↑P) - 1) +.
                      dC (↑k) (↑q - 1) *. frd (α := α) F idV (nm_index (↑k) (-↑q)) -.
                    dC ↑k ↑q *. frd (α := α) F idW (WignerHindex (↑k) (-↑q) (↑q + 1) (some ↑P))))), J⟩ := by
      by_cases hq0 : q = 0
      · have hq0' : -(q : Int) = 0 := by omega
        rw [if_pos hq0, if_pos hq0']
        rw [rd_hv F J k 1 (nm_index ↑k (-↑q + 1)) hnL ⟨congrArg (nm_index ↑k) (by omega), by omega, by omega⟩,
            rd_hv F J k 0 (nm_index ↑k (-↑q)) hnL ⟨congrArg (nm_index ↑k) (by omega), by omega, by omega⟩,
            rd_hw F J k 0 1 (WignerHindex ↑k (-↑q) (↑q + 1) (some ↑P)) hnL
              (hwc4 (s5_read4_eq _ _ 0 P hm1 hm2 (by omega) (by omega)) (by unfold s5_read4 s5_i4; (try simp only [Int.neg_neg]) <;> omega) rfl (by omega) (by omega)),
            wr_hv F J k (-1) (nm_index ↑k (-↑q - 1)) _ hnL ⟨congrArg (nm_index ↑k) (by omega), by omega, by omega⟩]
      · have hq0' : ¬ (-(q : Int) = 0) := by omega
        rw [if_neg hq0, if_neg hq0']
        rw [rd_hw F J k (-↑q + 1) q (WignerHindex ↑k (-↑q + 1) (↑q + 1) (some ↑P) - 1) hnL
              (hwc4 (s5_read2_eq _ _ 0 P hm1 hm2 (Or.inr ⟨rfl, by omega⟩) (by omega)) (by unfold s5_read2 s5_i2; (try simp only [Int.neg_neg]) <;> omega) rfl rfl (by omega)),
            rd_hv F J k (-↑q) (nm_index ↑k (-↑q)) hnL ⟨rfl, by omega, by omega⟩,
            rd_hw F J k (-↑q) (q + 1) (WignerHindex ↑k (-↑q) (↑q + 1) (some ↑P)) hnL
              (hwc4 (s5_read4_eq _ _ 0 P hm1 hm2 (by omega) (by omega)) (by unfold s5_read4 s5_i4; (try simp only [Int.neg_neg]) <;> omega) rfl rfl (by push_cast; omega)),
            wr_hv F J k (-↑q - 1) (nm_index ↑k (-↑q - 1)) _ hnL ⟨rfl, by omega, by omega⟩]
    rw [first]
    generalize hF1 : (ite (-(q : Int) = 0) _ _ : φ) = F1
    generalize hS : (loopN _ _ (⟨F1, J⟩ : Hyb L P φ α)) = S2
    generalize hG : (loopN _ _ F1 : φ) = F2
    have hrel : S2 = ⟨F2, J⟩ := by
      rw [← hS, ← hG]
      apply loopN_hyb
      intro t F ht
      have et : (1 : Int) + (t : Int) = ((t + 1 : Nat) : Int) := by push_cast; omega
      simp only [et]
      have t7 : d (↑(t + 1) + nm_index ↑k (↑q - 1)) = dC (k : Int) ((q : Int) - 1 + ((t + 1 : Nat) : Int)) :=
        tab_nm L hd (nmc (s5_d7_eq _ _ ↑(t + 1) P hm1 hm2 (by omega) (by omega)) (by unfold s5_d7 s5_i7 nm_index; (try simp only [Int.neg_neg]) <;> omega) (by omega)) (by omega) (by omega)
      have t8 : d (↑(t + 1) + nm_index ↑k ↑q) = dC (k : Int) ((q : Int) + ((t + 1 : Nat) : Int)) :=
        tab_nm L hd (nmc (s5_d8_eq _ _ ↑(t + 1) P hm1 hm2 (by omega) (by omega)) (by unfold s5_d8 s5_i8 nm_index; (try simp only [Int.neg_neg]) <;> omega) (by omega)) (by omega) (by omega)
      rw [t7, t8]
      rw [rd_hw F J k (-↑q + 1) (q + (t + 1)) (↑(t + 1) + (WignerHindex ↑k (-↑q + 1) (↑q + 1) (some ↑P) - 1)) hnL
            (hwc4 (s5_read2_eq _ _ ↑(t + 1) P hm1 hm2 (Or.inl (by omega)) (by omega)) (by unfold s5_read2 s5_i2; (try simp only [Int.neg_neg]) <;> omega) rfl rfl (by push_cast; omega)),
          rd_hw F J k (-↑q) (q + (t + 1) - 1) (↑(t + 1) + (WignerHindex ↑k (-↑q) ↑q (some ↑P) - 1)) hnL
            (hwc4 (s5_read3_eq _ _ ↑(t + 1) P hm1 hm2 (by omega) (by omega)) (by unfold s5_read3 s5_i3; (try simp only [Int.neg_neg]) <;> omega) rfl rfl (by push_cast; omega)),
          rd_hw F J k (-↑q) (q + (t + 1) + 1) (↑(t + 1) + WignerHindex ↑k (-↑q) (↑q + 1) (some ↑P)) hnL
            (hwc4 (s5_read4_eq _ _ ↑(t + 1) P hm1 hm2 (by omega) (by omega)) (by unfold s5_read4 s5_i4; (try simp only [Int.neg_neg]) <;> omega) rfl rfl (by push_cast; omega)),
          wr_hw F J k (-↑q - 1) (q + (t + 1)) (↑(t + 1) + (WignerHindex ↑k (-↑q - 1) (↑q + 1) (some ↑P) - 1)) _ hnL
            (hwc4 (s5_write_eq _ _ ↑(t + 1) P hm1 hm2 (by omega) (by omega)) (by unfold s5_write s5_i1; (try simp only [Int.neg_neg]) <;> omega) rfl rfl (by push_cast; omega))]
    subst hrel
    obtain ⟨_, l1, l2, l3, l4⟩ := s5_last_eq ↑k (-↑q) P hm1 hm2
    have t9 : d (↑k + -↑q + nm_index ↑k (↑q - 1)) = dC (k : Int) ((k : Int) - 1) :=
      tab_nm L hd (nmc l4 (by unfold s5_d7 s5_i7 nm_index; (try simp only [Int.neg_neg]) <;> omega) rfl) (by omega) (by omega)
    rw [t9]
    rw [rd_hw F2 J k (-↑q + 1) k (↑k + -↑q + (WignerHindex ↑k (-↑q + 1) (↑q + 1) (some ↑P) - 1)) hnL
          (hwc4 l2 (by unfold s5_read2 s5_i2; (try simp only [Int.neg_neg]) <;> omega) rfl rfl rfl),
        rd_hw F2 J k (-↑q) (k - 1) (↑k + -↑q + (WignerHindex ↑k (-↑q) ↑q (some ↑P) - 1)) hnL
          (hwc4 l3 (by unfold s5_read3 s5_i3; (try simp only [Int.neg_neg]) <;> omega) rfl rfl (by omega)),
        wr_hw F2 J k (-↑q - 1) k (↑k + -↑q + (WignerHindex ↑k (-↑q - 1) (↑q + 1) (some ↑P) - 1)) _ hnL
          (hwc4 l1 (by unfold s5_write s5_i1; (try simp only [Int.neg_neg]) <;> omega) rfl rfl rfl)]
end
end GenH
