import SphericalVerif.Model.Basic
import SphericalVerif.Model.HKernels
/-! Size- and history-free description of the Wigner "H" wedge computed by `Model.runH`.

    `valW c s n m' m` is the value of wedge cell H(n, m', m) and `valV c s n k` the value of the scratch
    cell `hv n k`, defined by recursion on the coordinates only: no `L` (ell_max), no `P` (mp_max), no
    memory and no state occur in their signatures.  The expression trees mirror those of the model
    operation for operation (the arithmetic `Scalar α` is arbitrary and has no laws).

    The formula functions `f3`, `f4v`, `f4mid`, `f4top`, `f5v`, `f5mid`, `f5top` are the right-hand sides
    of the assignments in `_step_3`, `_step_4`, `_step_5`, as functions of the values read. -/
namespace Spec
section
open Scalar Model
variable {α : Type} [Scalar α]

/-! ### step 2: the m' = 0 column -/

/-- the un-normalised top cell (m = n) of row n of the m'=0 column, as step 2 carries it from row to row -/
def topU : Nat → α
  | 0 => one
  | 1 => sqrt (ofInt 3)
  | k+2 => sqrt ((ofInt 1 : α) +. (half /. ofInt ((k+2 : Nat) : Int))) *. topU (k+1)

/-- row n (n ≥ 2) of the m'=0 column before normalisation, indexed by the distance d = n - m from the top -/
def rawD (c s : α) (n : Nat) : Nat → α
  | 0 => topU n
  | 1 => (gC (n : Int) ((n : Int) - 1) *. c) *. topU n
  | j+2 => ((gC (n : Int) ((n : Int) - ((j+2 : Nat) : Int)) *. c) *. rawD c s n (j+1))
            -. ((hC (n : Int) ((n : Int) - ((j+2 : Nat) : Int)) *. (s *. s)) *. rawD c s n j)

/-- running prefactor: `p0 * s * s * … * s` (i factors, multiplied on the right one at a time) -/
def preS (s : α) (p0 : α) : Nat → α
  | 0 => p0
  | i+1 => preS s p0 i *. s

/-- `1 / sqrt(4n+2)` -/
def cnorm (n : Nat) : α := one /. sqrt (ofInt (4*(n : Int)+2))

/-- final (normalised) top cell H(n,0,n), n ≥ 1 -/
def topN (s : α) (n : Nat) : α := topU n *. (preS s (one : α) n /. sqrt (ofInt (4*(n : Int)+2)))

/-- value of H(n,0,0) for n ≥ 2 -/
def bot0 (c s : α) (n : Nat) : α :=
  (((gC (n : Int) 0 *. c) *. rawD c s n (n-1)) -. ((hC (n : Int) 0 *. (s *. s)) *. rawD c s n (n-2))) *. cnorm n

/-- the m'=0 column H(n,0,m) -/
def col0 (c s : α) : Nat → Nat → α
  | 0, _ => one
  | 1, 0 => (gC 1 0 *. c) *. (one /. sqrt (ofInt 2))
  | 1, _+1 => topN s 1
  | k+2, m =>
    if m = 0 then bot0 c s (k+2)
    else if m < k+2 then rawD c s (k+2) (k+2-m) *. preS s (cnorm (k+2)) m
    else topN s (k+2)

/-! ### formula functions of steps 3, 4, 5 -/

/-- step 3: H(n,1,i+1) from x2 = H(n+1,0,i+2), x0 = H(n+1,0,i), x1 = H(n+1,0,i+1) -/
def f3 (c s : α) (n i : Nat) (x2 x0 x1 : α) : α :=
  let nI : Int := n
  let iI : Int := i
  (one /. bC (nI+1) 0) *. ((half *. (((bC (nI+1) (-iI-2) *. (one -. c)) *. x2) -. ((bC (nI+1) iI *. (one +. c)) *. x0)))
                    -. ((aC nI (iI+1) *. s) *. x1))

/-- step 4, i = 0: scratch cell hv n (mp+1) from x = H(n,mp-1,mp), v = hv n mp, z = H(n,mp,mp+1) -/
def f4v (n mp : Nat) (x v z : α) : α :=
  let nI : Int := n
  let mpI : Int := mp
  (one /. dC nI mpI) *. (((dC nI (mpI-1) *. x) -. (dC nI (mpI-1) *. v)) +. (dC nI mpI *. z))

/-- step 4, 1 ≤ i < n-mp: H(n,mp+1,mp+i) from x = H(n,mp-1,mp+i), y = H(n,mp,mp+i-1), z = H(n,mp,mp+i+1) -/
def f4mid (n mp i : Nat) (x y z : α) : α :=
  let nI : Int := n
  let mpI : Int := mp
  (one /. dC nI mpI) *. (((dC nI (mpI-1) *. x) -. (dC nI (mpI-1+i) *. y)) +. (dC nI (mpI+i) *. z))

/-- step 4, i = n-mp: H(n,mp+1,n) from x = H(n,mp-1,n), y = H(n,mp,n-1) -/
def f4top (n mp : Nat) (x y : α) : α :=
  let nI : Int := n
  let mpI : Int := mp
  (one /. dC nI mpI) *. ((dC nI (mpI-1) *. x) -. (dC nI (nI-1) *. y))

/-- step 5, i = 0 (m' = -q): scratch cell hv n (-q-1) from x, v, z -/
def f5v (n q : Nat) (x v z : α) : α :=
  let nI : Int := n
  let mpI : Int := -(q : Int)
  (one /. dC nI (mpI-1)) *. (((dC nI mpI *. x) +. (dC nI (-mpI-1) *. v)) -. (dC nI (-mpI) *. z))

/-- step 5, 1 ≤ i < n-q: H(n,-q-1,q+i) from x = H(n,-q+1,q+i), y = H(n,-q,q+i-1), z = H(n,-q,q+i+1) -/
def f5mid (n q i : Nat) (x y z : α) : α :=
  let nI : Int := n
  let mpI : Int := -(q : Int)
  (one /. dC nI (mpI-1)) *. (((dC nI mpI *. x) +. (dC nI (-mpI-1+i) *. y)) -. (dC nI (-mpI+i) *. z))

/-- step 5, i = n-q: H(n,-q-1,n) from x = H(n,-q+1,n), y = H(n,-q,n-1) -/
def f5top (n q : Nat) (x y : α) : α :=
  let nI : Int := n
  let mpI : Int := -(q : Int)
  (one /. dC nI (mpI-1)) *. ((dC nI mpI *. x) +. (dC nI (nI-1) *. y))

/-! ### the columns m' ≥ 0 (steps 2, 3, 4), by recursion on m' -/

/-- `valPos c s k n m` = H(n, k, m) for k ≥ 0 -/
def valPos (c s : α) : Nat → Nat → Nat → α
  | 0, n, m => col0 c s n m
  | 1, _, 0 => zero
  | 1, n, i+1 => f3 c s n i (col0 c s (n+1) (i+2)) (col0 c s (n+1) i) (col0 c s (n+1) (i+1))
  | k+2, n, m =>
    if m < n then f4mid n (k+1) (m-(k+1)) (valPos c s k n m) (valPos c s (k+1) n (m-1)) (valPos c s (k+1) n (m+1))
    else f4top n (k+1) (valPos c s k n n) (valPos c s (k+1) n (n-1))

/-- `valVPos c s n k` = contents of `hv n k` for k ≥ 0 (the sub-diagonal cell H(n,k,k-1) for k ≥ 2) -/
def valVPos (c s : α) (n : Nat) : Nat → α
  | 0 => col0 c s n 1
  | 1 => col0 c s n 1
  | k+2 => f4v n (k+1) (valPos c s k n (k+1)) (valVPos c s n (k+1)) (valPos c s (k+1) n (k+2))

/-! ### the columns m' ≤ 0 (step 5), by recursion on -m' -/

/-- `valNeg c s q n m` = H(n, -q, m) -/
def valNeg (c s : α) : Nat → Nat → Nat → α
  | 0, n, m => col0 c s n m
  | 1, n, m =>
    if m < n then f5mid n 0 m (valPos c s 1 n m) (col0 c s n (m-1)) (col0 c s n (m+1))
    else f5top n 0 (valPos c s 1 n n) (col0 c s n (n-1))
  | q+2, n, m =>
    if m < n then f5mid n (q+1) (m-(q+1)) (valNeg c s q n m) (valNeg c s (q+1) n (m-1)) (valNeg c s (q+1) n (m+1))
    else f5top n (q+1) (valNeg c s q n n) (valNeg c s (q+1) n (n-1))

/-- `valVNeg c s n q` = contents of `hv n (-q)` -/
def valVNeg (c s : α) (n : Nat) : Nat → α
  | 0 => col0 c s n 1
  | 1 => f5v n 0 (col0 c s n 1) (col0 c s n 1) (col0 c s n 1)
  | q+2 => f5v n (q+1) (valNeg c s q n (q+1)) (valVNeg c s n (q+1)) (valNeg c s (q+1) n (q+2))

/-! ### the two functions of the refinement theorem -/

/-- value of the wedge cell H(n, m', m); for m' = 0 also of row L+1, which the kernels keep in `Hextra` -/
def valW (c s : α) (n : Nat) (mp : Int) (m : Nat) : α :=
  if 0 ≤ mp then valPos c s mp.toNat n m else valNeg c s mp.natAbs n m

/-- value of the scratch cell `hv n k` -/
def valV (c s : α) (n : Nat) (k : Int) : α :=
  if 0 ≤ k then valVPos c s n k.toNat else valVNeg c s n k.natAbs

end
end Spec
