import SphericalVerif.Lemmas.Object
/-! C09 — a `Wigner` object is stateless: what a method returns does not depend on what earlier calls (of the same
    or of any other method, with any arguments) left in the object's workspace.

    `Model.objd` … `Model.objRotH` (Model/Object.lean) are the method bodies as the validated driver commands
    compose them, with the workspace content on entry `st` as an explicit argument.  Every theorem holds for
    every arithmetic `Scalar α` (no laws assumed: in particular IEEE doubles, bit for bit), every library
    `imsqrt` / complex power, and every lawful memory.  The range hypotheses are the documented ones
    (entries of the output array; the guards of `C15`). -/
namespace C09
open Model Lemmas.Object
section
variable {α : Type} [Scalar α] {μ : Type} [Mem μ α] [LawfulMem μ α]

/-- `Wigner.d`: entry (ℓ, m', m), `ℓ ≤ ell_max`, `|m'|, |m| ≤ ℓ` -/
theorem objd_pure (L : Nat) (st₁ st₂ : μ) (c s : α) (ell : Nat) (mp m : Int)
    (hl : ell ≤ L) (hmp : mp.natAbs ≤ ell) (hm : m.natAbs ≤ ell) :
    objd (α := α) L st₁ c s ell mp m = objd (α := α) L st₂ c s ell mp m := by
  unfold objd
  exact dEntry_congr _ _ ell mp m
    (Hat_runH_agree L L L L (Nat.le_refl L) (Nat.le_refl L) c s st₁ st₂ ell mp m hl hl hmp hm
      (Or.inl (by omega)) (Or.inl (by omega)))

/-- `Wigner.D` -/
theorem objD_pure (L : Nat) (st₁ st₂ : μ) (R0 R1 R2 R3 : α) (imsqrt : Cx α → α) (ell : Nat) (mp m : Int)
    (hl : ell ≤ L) (hmp : mp.natAbs ≤ ell) (hm : m.natAbs ≤ ell) :
    objD L st₁ R0 R1 R2 R3 imsqrt ell mp m = objD L st₂ R0 R1 R2 R3 imsqrt ell mp m := by
  unfold objD
  exact DEntry_congr _ _ _ _ _ _ ell mp m
    (Hat_runH_agree L L L L (Nat.le_refl L) (Nat.le_refl L) _ _ st₁ st₂ ell mp m hl hl hmp hm
      (Or.inl (by omega)) (Or.inl (by omega))) rfl rfl

/-- `Wigner.sYlm` (guard `|s| ≤ mp_max`); entries with ℓ < |s| are the literal 0 and are covered too -/
theorem objY_pure (L P : Nat) (hPL : P ≤ L) (st₁ st₂ : μ) (R0 R1 R2 R3 : α) (imsqrt : Cx α → α) (zgpow : Cx α)
    (s : Int) (ell : Nat) (m : Int) (hs : s.natAbs ≤ P) (hl : ell ≤ L) (hm : m.natAbs ≤ ell) :
    objY L P st₁ R0 R1 R2 R3 imsqrt zgpow s ell m = objY L P st₂ R0 R1 R2 R3 imsqrt zgpow s ell m := by
  unfold objY
  exact sYlmEntry_congr _ _ _ _ zgpow s ell m
    (fun hse => Hat_runH_agree L P L P hPL hPL _ _ st₁ st₂ ell m (-s) hl hl hm (by omega)
      (Or.inr (by omega)) (Or.inr (by omega))) rfl

/-- `Wigner.evaluate(…, horner=True)` (guards `|s| ≤ mp_max`, `modes.ell_max ≤ ell_max`); also independent of
    what the output cell held -/
theorem objEvalH_pure (L P : Nat) (hPL : P ≤ L) (st₁ st₂ : μ) (R0 R1 R2 R3 : α) (zgpow : Cx α) (f : Array (Cx α))
    (s : Int) (ellMax : Nat) (prev₁ prev₂ : Cx α) (hs : s.natAbs ≤ P) (hL : ellMax ≤ L) :
    objEvalH L P st₁ R0 R1 R2 R3 zgpow f s ellMax prev₁ = objEvalH L P st₂ R0 R1 R2 R3 zgpow f s ellMax prev₂ := by
  unfold objEvalH
  exact evaluateHornerK_congr _ _ f _ zgpow s ellMax prev₁ prev₂
    (fun ell m' h1 h2 h3 => Hat_runH_agree L P L P hPL hPL _ _ st₁ st₂ ell m' (-s) (by omega) (by omega) h3
      (by omega) (Or.inr (by omega)) (Or.inr (by omega)))

/-- `Wigner.rotate(…, horner=True)` (guard `mp_max ≥ ell_max`) -/
theorem objRotH_pure (L : Nat) (st₁ st₂ : μ) (R0 R1 R2 R3 : α) (zgpow : Int → Cx α) (f : Array (Cx α)) (s : Int)
    (ell : Nat) (m : Int) (hl : ell ≤ L) (hm : m.natAbs ≤ ell) :
    objRotH L st₁ R0 R1 R2 R3 zgpow f s ell m = objRotH L st₂ R0 R1 R2 R3 zgpow f s ell m := by
  unfold objRotH
  simp only []
  split
  · rfl
  · exact rotateHornerEntry_congr _ _ f _ zgpow ell m
      (fun n hn => Hat_runH_agree L L L L (Nat.le_refl L) (Nat.le_refl L) _ _ st₁ st₂ ell n m hl hl hn hm
        (Or.inr (by omega)) (Or.inr (by omega)))

/-- one call: its value is the same on any two workspaces -/
theorem op_out_pure (L P : Nat) (hPL : P ≤ L) (imsqrt : Cx α → α) (cpow : Cx α → Int → Cx α) (op : Op α)
    (hv : op.valid L P) (st₁ st₂ : μ) :
    op.out L P imsqrt cpow st₁ = op.out L P imsqrt cpow st₂ := by
  cases op with
  | d c s ell mp m =>
    obtain ⟨_, h2, h3, h4⟩ := hv
    show Val.re _ = Val.re _
    rw [objd_pure L st₁ st₂ c s ell mp m h2 h3 h4]
  | D R ell mp m =>
    obtain ⟨_, h2, h3, h4⟩ := hv
    show Val.cx _ = Val.cx _
    rw [objD_pure L st₁ st₂ _ _ _ _ imsqrt ell mp m h2 h3 h4]
  | sYlm s R ell m =>
    obtain ⟨h1, h2, h3⟩ := hv
    show Val.cx _ = Val.cx _
    rw [objY_pure L P hPL st₁ st₂ _ _ _ _ imsqrt _ s ell m h1 h2 h3]
  | evalH f s ellMax R prev =>
    obtain ⟨h1, h2⟩ := hv
    show Val.cx _ = Val.cx _
    rw [objEvalH_pure L P hPL st₁ st₂ _ _ _ _ _ f s ellMax prev prev h1 h2]
  | rotH f s R ell m =>
    obtain ⟨_, h2, h3⟩ := hv
    show Val.cx _ = Val.cx _
    rw [objRotH_pure L st₁ st₂ _ _ _ _ _ f s ell m h2 h3]

/-- (C-history) any sequence of calls on one object (`d`, `D`, `sYlm`, `evaluate`, `rotate` in any order, each
    starting on the workspace the previous one left): the `i`-th call, if it is a valid call, returns what the
    same call returns on a fresh object — whatever its workspace `st'` holds, and whether or not the *other*
    calls of the sequence are valid. -/
theorem history_indep (L P : Nat) (hPL : P ≤ L) (imsqrt : Cx α → α) (cpow : Cx α → Int → Cx α)
    (ops : List (Op α)) (st st' : μ) (i : Nat) (hi : i < ops.length) (hv : (ops[i]).valid L P) :
    (runOps L P imsqrt cpow st ops)[i]? = some ((ops[i]).out L P imsqrt cpow st') := by
  induction ops generalizing st i with
  | nil => exact absurd hi (Nat.not_lt_zero i)
  | cons op ops ih =>
    cases i with
    | zero =>
      simp only [runOps, List.getElem?_cons_zero, List.getElem_cons_zero] at hv ⊢
      rw [op_out_pure L P hPL imsqrt cpow op hv st st']
    | succ j =>
      simp only [runOps, List.getElem?_cons_succ, List.getElem_cons_succ] at hv ⊢
      exact ih _ j (by simpa using hi) hv

/-- when every call is valid: the whole output sequence is the `map` of the fresh-object call -/
theorem history_indep_all (L P : Nat) (hPL : P ≤ L) (imsqrt : Cx α → α) (cpow : Cx α → Int → Cx α)
    (ops : List (Op α)) (st st' : μ) (hv : ∀ op, op ∈ ops → op.valid L P) :
    runOps L P imsqrt cpow st ops = ops.map (fun op => op.out L P imsqrt cpow st') := by
  induction ops generalizing st with
  | nil => rfl
  | cons op ops ih =>
    simp only [runOps, List.map_cons]
    rw [op_out_pure L P hPL imsqrt cpow op (hv op (List.mem_cons_self ..)) st st',
      ih _ (fun o ho => hv o (List.mem_cons_of_mem _ ho))]

end

/-! ### the hypotheses are satisfiable at non-trivial points (IEEE doubles, executable memory) -/

example (st₁ st₂ : HMem Float) (R0 R1 R2 R3 : Float) (imsqrt : Cx Float → Float) :
    objD 4 st₁ R0 R1 R2 R3 imsqrt 3 (-2) 3 = objD 4 st₂ R0 R1 R2 R3 imsqrt 3 (-2) 3 :=
  objD_pure 4 st₁ st₂ R0 R1 R2 R3 imsqrt 3 (-2) 3 (by decide) (by decide) (by decide)

example (st₁ st₂ : HMem Float) (c s : Float) : objd 4 st₁ c s 4 (-4) 1 = objd 4 st₂ c s 4 (-4) 1 :=
  objd_pure 4 st₁ st₂ c s 4 (-4) 1 (by decide) (by decide) (by decide)

example (st₁ st₂ : HMem Float) (R0 R1 R2 R3 : Float) (imsqrt : Cx Float → Float) (zgpow : Cx Float) :
    objY 6 2 st₁ R0 R1 R2 R3 imsqrt zgpow (-2) 5 (-4) = objY 6 2 st₂ R0 R1 R2 R3 imsqrt zgpow (-2) 5 (-4) :=
  objY_pure 6 2 (by decide) st₁ st₂ R0 R1 R2 R3 imsqrt zgpow (-2) 5 (-4) (by decide) (by decide) (by decide)

example (st₁ st₂ : HMem Float) (R0 R1 R2 R3 : Float) (zgpow p₁ p₂ : Cx Float) (f : Array (Cx Float)) :
    objEvalH 6 2 st₁ R0 R1 R2 R3 zgpow f (-2) 5 p₁ = objEvalH 6 2 st₂ R0 R1 R2 R3 zgpow f (-2) 5 p₂ :=
  objEvalH_pure 6 2 (by decide) st₁ st₂ R0 R1 R2 R3 zgpow f (-2) 5 p₁ p₂ (by decide) (by decide)

example (st₁ st₂ : HMem Float) (R0 R1 R2 R3 : Float) (zgpow : Int → Cx Float) (f : Array (Cx Float)) :
    objRotH 6 st₁ R0 R1 R2 R3 zgpow f (-2) 5 (-3) = objRotH 6 st₂ R0 R1 R2 R3 zgpow f (-2) 5 (-3) :=
  objRotH_pure 6 st₁ st₂ R0 R1 R2 R3 zgpow f (-2) 5 (-3) (by decide) (by decide)

/-- a mixed history on an object with (ell_max, mp_max) = (4, 4): `sYlm`, then `d`, then `D`; the third call
    returns what it returns on a fresh object -/
example (st st' : HMem Float) (imsqrt : Cx Float → Float) (cpow : Cx Float → Int → Cx Float) (R R' : Quat Float)
    (c s : Float) :
    (runOps 4 4 imsqrt cpow st [Op.sYlm (-2) R 3 1, Op.d c s 4 (-3) 2, Op.D R' 3 (-2) 3])[2]?
      = some ((Op.D R' 3 (-2) 3).out 4 4 imsqrt cpow st') :=
  history_indep 4 4 (by decide) imsqrt cpow _ st st' 2 (by simp)
    ⟨by decide, by decide, by decide, by decide⟩

end C09
