import SphericalVerif.Lemmas.RealScalar
/-! "Checked reals": the arithmetic `Scalar (Option ℝ)` in which `none` is an arithmetic fault.

    * `div a b` faults when the divisor is `some 0`,
    * `sqrt (some x)` faults when `x < 0`,
    * every operation propagates a fault of an argument, comparisons involving a fault are `false`.

    A computation over this instance that ends in `some x` has therefore met, on the way to its result, no
    division by zero and no square root of a negative number, and has read no faulty input.  Over IEEE
    doubles these are exactly the operations that create an `inf` or a `nan` out of finite operands
    (overflow aside): "the value is `some x`" is the exact-arithmetic part of "the computed value is finite". -/
namespace Model.Checked
noncomputable section
open Classical

/-- lift of a total binary operation: faults propagate -/
def lift2 (f : ℝ → ℝ → ℝ) : Option ℝ → Option ℝ → Option ℝ
  | some a, some b => some (f a b)
  | _, _ => none

/-- checked division: a zero divisor is a fault -/
def cdiv : Option ℝ → Option ℝ → Option ℝ
  | some a, some b => if b = 0 then none else some (a / b)
  | _, _ => none

/-- checked square root: a negative radicand is a fault -/
def csqrt : Option ℝ → Option ℝ
  | some a => if a < 0 then none else some (Real.sqrt a)
  | none => none

/-- comparisons: `false` as soon as an argument is a fault -/
def cmp (p : ℝ → ℝ → Prop) : Option ℝ → Option ℝ → Bool
  | some a, some b => decide (p a b)
  | _, _ => false

instance instScalarChecked : Scalar (Option ℝ) where
  add := lift2 (· + ·)
  sub := lift2 (· - ·)
  mul := lift2 (· * ·)
  div := cdiv
  neg := Option.map (- ·)
  sqrt := csqrt
  abs := Option.map (fun x => |x|)
  ofInt := fun n => some (n : ℝ)
  half := some (1 / 2)
  inv4pi := some (1 / (4 * Real.pi))
  lt := cmp (· < ·)
  le := cmp (· ≤ ·)
  beq := cmp (· = ·)

/-! ### computation rules -/

theorem add_some (a b : ℝ) : Scalar.add (some a) (some b) = some (a + b) := rfl
theorem sub_some (a b : ℝ) : Scalar.sub (some a) (some b) = some (a - b) := rfl
theorem mul_some (a b : ℝ) : Scalar.mul (some a) (some b) = some (a * b) := rfl
theorem neg_some (a : ℝ) : Scalar.neg (some a) = some (-a) := rfl
theorem abs_some (a : ℝ) : Scalar.abs (some a) = some |a| := rfl
theorem ofInt_some (n : Int) : (Scalar.ofInt n : Option ℝ) = some (n : ℝ) := rfl
theorem half_some : (Scalar.half : Option ℝ) = some (1 / 2) := rfl
theorem inv4pi_some : (Scalar.inv4pi : Option ℝ) = some (1 / (4 * Real.pi)) := rfl
theorem one_some : (one : Option ℝ) = some 1 := by
  show some ((1 : Int) : ℝ) = some 1
  rw [Int.cast_one]
theorem zero_some : (zero : Option ℝ) = some 0 := by
  show some ((0 : Int) : ℝ) = some 0
  rw [Int.cast_zero]

/-- division by a non-zero number is the quotient … -/
theorem div_some (a b : ℝ) (hb : b ≠ 0) : Scalar.div (some a) (some b) = some (a / b) := by
  show cdiv (some a) (some b) = _
  simp only [cdiv, if_neg hb]
/-- … and division by zero is a fault -/
theorem div_zero (a : ℝ) : Scalar.div (some a) (some (0 : ℝ)) = none := by
  show cdiv (some a) (some 0) = _
  simp only [cdiv, if_true]
theorem div_eq_some_iff (a b : Option ℝ) (r : ℝ) :
    Scalar.div a b = some r ↔ ∃ x y, a = some x ∧ b = some y ∧ y ≠ 0 ∧ r = x / y := by
  show cdiv a b = some r ↔ _
  cases a with
  | none => simp [cdiv]
  | some x =>
    cases b with
    | none => simp [cdiv]
    | some y =>
      by_cases hy : y = 0
      · simp [cdiv, hy]
      · simp only [cdiv, if_neg hy, Option.some.injEq]
        constructor
        · intro h; exact ⟨x, y, rfl, rfl, hy, h.symm⟩
        · rintro ⟨x', y', hx, hy', _, h⟩; subst hx; subst hy'; exact h.symm

/-- the square root of a non-negative number is its real square root … -/
theorem sqrt_some (a : ℝ) (ha : 0 ≤ a) : Scalar.sqrt (some a) = some (Real.sqrt a) := by
  show csqrt (some a) = _
  simp only [csqrt, if_neg (not_lt.mpr ha)]
/-- … and the square root of a negative number is a fault -/
theorem sqrt_neg (a : ℝ) (ha : a < 0) : Scalar.sqrt (some a) = none := by
  show csqrt (some a) = _
  simp only [csqrt, if_pos ha]

/-! ### faults propagate -/

theorem add_none_left (b : Option ℝ) : Scalar.add none b = none := rfl
theorem add_none_right (a : Option ℝ) : Scalar.add a none = none := by cases a <;> rfl
theorem sub_none_left (b : Option ℝ) : Scalar.sub none b = none := rfl
theorem sub_none_right (a : Option ℝ) : Scalar.sub a none = none := by cases a <;> rfl
theorem mul_none_left (b : Option ℝ) : Scalar.mul none b = none := rfl
theorem mul_none_right (a : Option ℝ) : Scalar.mul a none = none := by cases a <;> rfl
theorem div_none_left (b : Option ℝ) : Scalar.div none b = none := rfl
theorem div_none_right (a : Option ℝ) : Scalar.div a none = none := by cases a <;> rfl
theorem neg_none : Scalar.neg (none : Option ℝ) = none := rfl
theorem abs_none : Scalar.abs (none : Option ℝ) = none := rfl
theorem sqrt_none : Scalar.sqrt (none : Option ℝ) = none := rfl
theorem lt_none_left (b : Option ℝ) : Scalar.lt none b = false := rfl
theorem lt_none_right (a : Option ℝ) : Scalar.lt a none = false := by cases a <;> rfl
theorem le_none_left (b : Option ℝ) : Scalar.le none b = false := rfl
theorem le_none_right (a : Option ℝ) : Scalar.le a none = false := by cases a <;> rfl
theorem beq_none_left (b : Option ℝ) : Scalar.beq none b = false := rfl
theorem beq_none_right (a : Option ℝ) : Scalar.beq a none = false := by cases a <;> rfl
theorem lt_some (a b : ℝ) : Scalar.lt (some a) (some b) = decide (a < b) := rfl
theorem le_some (a b : ℝ) : Scalar.le (some a) (some b) = decide (a ≤ b) := rfl
theorem beq_some (a b : ℝ) : Scalar.beq (some a) (some b) = decide (a = b) := rfl

end
end Model.Checked
