"""Entry point:  python -m vlib.main Cxx --tier quick|thorough [--replay file]"""
import argparse
import importlib
import json
import os
import sys
import traceback


def main():
    ap = argparse.ArgumentParser()
    ap.add_argument("pid")
    ap.add_argument("--tier", default=os.environ.get("VERIF_TIER", "quick"), choices=["quick", "thorough"])
    ap.add_argument("--replay")
    ap.add_argument("--seed", type=int, default=int(os.environ.get("VERIF_SEED", "0") or 0))
    a = ap.parse_args()
    from . import runner
    try:
        mod = importlib.import_module(f"vlib.props.{a.pid}")
    except ModuleNotFoundError:
        print(f"no check for {a.pid}", file=sys.stderr)
        sys.exit(2)
    if a.replay:
        body = json.load(open(a.replay, encoding="utf-8"))
        if not hasattr(mod, "replay"):
            print("replay not supported for this property; input was:", json.dumps(body.get("input")))
            sys.exit(2)
        sys.exit(mod.replay(body))
    run = runner.Run(a.pid, a.tier, a.seed)
    try:
        mod.check(run)
    except Exception as e:
        tb = traceback.extract_tb(e.__traceback__)
        repo = os.path.realpath(os.environ.get("SPHERICAL_REPO", "/repo"))
        in_impl = [f for f in tb if os.path.realpath(f.filename).startswith(repo + os.sep)]
        if in_impl and not isinstance(e, (MemoryError, KeyboardInterrupt)):
            # the implementation itself raised on an input the sweep considers legitimate: that is a finding, not an
            # infrastructure failure (the sweep stops here; whatever it covered so far is in the evidence)
            last = in_impl[-1]
            run.violation("implementation-raised-during-sweep", f"{os.path.relpath(last.filename, repo)}:{last.name}",
                          {"exception": repr(e), "raised_at": f"{os.path.relpath(last.filename, repo)}:{last.lineno}",
                           "harness_frame": next((f"{os.path.basename(f.filename)}:{f.lineno}: {f.line}" for f in reversed(tb) if "/vlib/" in f.filename), "")},
                          "a result (the sweep only issues requests the property places in range)", repr(e), detail="".join(traceback.format_exception(e))[-3000:])
            sys.exit(run.finish())
        traceback.print_exc()
        print(f"[{a.pid}] infrastructure error", file=sys.stderr)
        sys.exit(2)
    sys.exit(run.finish())


if __name__ == "__main__":
    main()
