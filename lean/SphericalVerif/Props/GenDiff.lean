import SphericalVerif.Lemmas.GenDiff
/-! GenDiff — **the differential operators as the Python text states them** compute what the model of C12 computes.

    `Gen/DiffKern.lean` is regenerated on every run from spherical/modes/derivatives.py: the `for ell in …` loop of `Lsquared`,
    `Lz`, `Lplus`, `Lminus`, `Rplus`, `Rminus` — the statements, ranges, `index(…)` calls (with the guards of `Modes.index`,
    generated from spherical/modes/utilities.py) and coefficient expressions of the text — on a flat memory, for one element of
    the leading axes, generic over the arithmetic.  For every spin weight, every `ell_max`, every arithmetic and every content of
    the arrays, the cell `(ell, m)` (position `ell(ell+1)+m`, the value of `index(ell, m)` — whose guards are proved never to fire
    inside the loops, `Lemmas.GenDiff.midx`) holds after the generated loop exactly the weight of the hand-written operator of
    `Model/Operators.lean`, the subject of every theorem of `Props/C12.lean` (ladder relations, commutators, Casimir, ð/ð̄).
    Hence those theorems are statements about the code as written now; a change of a coefficient, a range, an index or the order
    of `(ell, m∓1)` changes what has to be proved here.

    `famOf s L a` is the family of weights stored in an array `a` (cell `ell(ell+1)+m`), with spin weight `s` and `ell_max = L`.
    The in-place operators (`Lz`, `Lsquared`: `d = self.copy()`, then `*=` on the copy) are stated on the array that holds the
    copy; the others on an output that `np.zeros_like` / `np.zeros` left zero-filled (hypothesis `hz`), the input being read-only. -/
namespace GenDiff
open Gen Model.Ops

section
variable {α : Type} [Scalar α] {φ : Type} [FMem φ α] [LawfulFMem φ α]

/-- the family of weights stored in an array -/
def famOf (s : Int) (L : Nat) (a : Int → Cx α) : Modes α := ⟨s, L, fun ell m => a ((ell : Int) * ((ell : Int) + 1) + m)⟩

/-- **`Modes.Lz`** from the source -/
theorem gen_Lz (A : Nat) (sw : Int) (L : Nat) (st : φ) (ell : Nat) (m : Int) (hm : m.natAbs ≤ ell) (hl : ell ≤ L) :
    frdC (α := α) (Gen.Modes_Lz_loop (α := α) A (L : Int) 0 sw st) A ((ell : Int) * ((ell : Int) + 1) + m)
      = (Lz (famOf sw L (fun i => frdC (α := α) st A i))).w ell m := by
  rw [Lz_canon, mul_blocks_cell A _ sw.natAbs L st ell m hm hl]
  unfold Lz famOf
  simp only []
  by_cases h : sw.natAbs ≤ ell
  · rw [if_pos h, if_pos ⟨h, hl, hm⟩]; rfl
  · rw [if_neg h, if_neg (fun c => h c.1)]

/-- **`Modes.Lsquared`** from the source -/
theorem gen_Lsquared (A : Nat) (sw : Int) (L : Nat) (st : φ) (ell : Nat) (m : Int) (hm : m.natAbs ≤ ell) (hl : ell ≤ L) :
    frdC (α := α) (Gen.Modes_Lsquared_loop (α := α) A (L : Int) 0 sw st) A ((ell : Int) * ((ell : Int) + 1) + m)
      = (Lsquared (famOf sw L (fun i => frdC (α := α) st A i))).w ell m := by
  rw [Lsquared_canon, mul_blocks_cell A _ sw.natAbs L st ell m hm hl]
  unfold Lsquared famOf
  simp only []
  by_cases h : sw.natAbs ≤ ell
  · rw [if_pos h, if_pos ⟨h, hl, hm⟩]; rfl
  · rw [if_neg h, if_neg (fun c => h c.1)]

/-- **`Modes.Lplus`** from the source (output zero-filled by `np.zeros_like`) -/
theorem gen_Lplus (sin : Int → Cx α) (A : Nat) (sw : Int) (L : Nat) (st : φ) (hz : ∀ i, frdC (α := α) st A i = czero)
    (ell : Nat) (m : Int) (hm : m.natAbs ≤ ell) (hl : ell ≤ L) :
    frdC (α := α) (Gen.Modes_Lplus_loop (α := α) sin A (L : Int) 0 sw (L : Int) 0 sw st) A ((ell : Int) * ((ell : Int) + 1) + m)
      = (Lplus (famOf sw L sin)).w ell m := by
  rw [Lplus_canon]
  rw [set_blocks_cell A sw.natAbs L (BLplus A sin)
    (fun e k => if -e < k then Cx.rmul (Scalar.sqrt (Scalar.ofInt ((e + k) * ((e - k) + 1)) : α)) (sin (e * (e + 1) + (k - 1))) else czero) st
    ?_ ?_ ell m hm hl]
  · unfold Lplus famOf
    simp only []
    by_cases h : sw.natAbs ≤ ell
    · rw [if_pos h]
      by_cases h2 : -(ell : Int) < m
      · rw [if_pos h2, if_pos ⟨h, hl, h2, by omega⟩]; rfl
      · rw [if_neg h2, if_neg (fun c => h2 c.2.2.1)]
    · rw [if_neg h, if_neg (fun c => h c.1), hz]
  · intro e s i he hni
    rw [BLplus_cell A sin e he, if_neg (by omega), if_neg (by omega)]
  · intro e s k h1 h2 h3 h4
    rw [BLplus_cell A sin e (by omega)]
    by_cases c : -e < k
    · rw [if_pos (by omega), if_pos c]
      have a1 : e * (e + 1) + k - e * (e + 1) = k := by omega
      have a2 : e * (e + 1) + k - 1 = e * (e + 1) + (k - 1) := by omega
      rw [a1, a2]
    · rw [if_neg (by omega), if_pos (by omega), if_neg c]; rfl

/-- **`Modes.Lminus`** from the source -/
theorem gen_Lminus (sin : Int → Cx α) (A : Nat) (sw : Int) (L : Nat) (st : φ) (hz : ∀ i, frdC (α := α) st A i = czero)
    (ell : Nat) (m : Int) (hm : m.natAbs ≤ ell) (hl : ell ≤ L) :
    frdC (α := α) (Gen.Modes_Lminus_loop (α := α) sin A (L : Int) 0 sw st) A ((ell : Int) * ((ell : Int) + 1) + m)
      = (Lminus (famOf sw L sin)).w ell m := by
  rw [Lminus_canon]
  rw [set_blocks_cell A sw.natAbs L (BLminus A sin)
    (fun e k => if k < e then Cx.rmul (Scalar.sqrt (Scalar.ofInt ((e - k) * ((e + k) + 1)) : α)) (sin (e * (e + 1) + (k + 1))) else czero) st
    ?_ ?_ ell m hm hl]
  · unfold Lminus famOf
    simp only []
    by_cases h : sw.natAbs ≤ ell
    · rw [if_pos h]
      by_cases h2 : m < (ell : Int)
      · rw [if_pos h2, if_pos ⟨h, hl, by omega, h2⟩]; rfl
      · rw [if_neg h2, if_neg (fun c => h2 c.2.2.2)]
    · rw [if_neg h, if_neg (fun c => h c.1), hz]
  · intro e s i he hni
    rw [BLminus_cell A sin e he, if_neg (by omega), if_neg (by omega)]
  · intro e s k h1 h2 h3 h4
    rw [BLminus_cell A sin e (by omega)]
    by_cases c : k < e
    · rw [if_neg (by omega), if_pos (by omega), if_pos c]
      have a1 : e * (e + 1) + k - e * (e + 1) = k := by omega
      have a2 : e * (e + 1) + k + 1 = e * (e + 1) + (k + 1) := by omega
      rw [a1, a2]
    · rw [if_pos (by omega), if_neg c]; rfl

/-- **`Modes.Rplus`** from the source: new spin weight `s - 1` (`metadata['spin_weight'] = self.spin_weight - 1`), same `ell_max`,
    output zero-filled by `np.zeros_like(…, shape=…)` -/
theorem gen_Rplus (sin : Int → Cx α) (A : Nat) (sw : Int) (L : Nat) (st : φ) (hz : ∀ i, frdC (α := α) st A i = czero)
    (ell : Nat) (m : Int) (hm : m.natAbs ≤ ell) (hl : ell ≤ L) :
    frdC (α := α) (Gen.Modes_Rplus_loop (α := α) sin A (L : Int) 0 (sw - 1) (L : Int) 0 sw st) A ((ell : Int) * ((ell : Int) + 1) + m)
      = (Rplus (famOf sw L sin)).w ell m := by
  rw [Rplus_canon sin A sw L st (max (sw - 1).natAbs sw.natAbs) (by omega)]
  rw [set_blocks_cell A (max (sw - 1).natAbs sw.natAbs) L (BR A sin _)
    (fun e k => Cx.rmul (Scalar.sqrt (Scalar.ofInt ((e - (sw - 1)) * ((e + (sw - 1)) + 1)) : α)) (sin (e * (e + 1) + k))) st ?_ ?_ ell m hm hl]
  · unfold Rplus famOf Modes.ellMin
    simp only []
    by_cases h : max (sw - 1).natAbs sw.natAbs ≤ ell
    · rw [if_pos h, if_pos ⟨h, hl, Nat.zero_le _, hm⟩]; rfl
    · rw [if_neg h, if_neg (fun c => h c.1), hz]
  · intro e s i he hni
    rw [BR_cell, if_neg (by omega)]
  · intro e s k h1 h2 h3 h4
    rw [BR_cell, if_pos (by omega)]

/-- **`Modes.Rminus`** (= `eth`) from the source: new spin weight `s + 1` -/
theorem gen_Rminus (sin : Int → Cx α) (A : Nat) (sw : Int) (L : Nat) (st : φ) (hz : ∀ i, frdC (α := α) st A i = czero)
    (ell : Nat) (m : Int) (hm : m.natAbs ≤ ell) (hl : ell ≤ L) :
    frdC (α := α) (Gen.Modes_Rminus_loop (α := α) sin A (L : Int) 0 (sw + 1) (L : Int) 0 sw st) A ((ell : Int) * ((ell : Int) + 1) + m)
      = (Rminus (famOf sw L sin)).w ell m := by
  rw [Rminus_canon sin A sw L st (max (sw + 1).natAbs sw.natAbs) (by omega)]
  rw [set_blocks_cell A (max (sw + 1).natAbs sw.natAbs) L (BR A sin _)
    (fun e k => Cx.rmul (Scalar.sqrt (Scalar.ofInt ((e + (sw + 1)) * ((e - (sw + 1)) + 1)) : α)) (sin (e * (e + 1) + k))) st ?_ ?_ ell m hm hl]
  · unfold Rminus famOf Modes.ellMin
    simp only []
    by_cases h : max (sw + 1).natAbs sw.natAbs ≤ ell
    · rw [if_pos h, if_pos ⟨h, hl, Nat.zero_le _, hm⟩]; rfl
    · rw [if_neg h, if_neg (fun c => h c.1), hz]
  · intro e s i he hni
    rw [BR_cell, if_neg (by omega)]
  · intro e s k h1 h2 h3 h4
    rw [BR_cell, if_pos (by omega)]

/-- inside every loop above the guards of `Modes.index` hold: the generated index is the documented position and `index_ok` is true -/
theorem index_never_raises (sw : Int) (L ell : Nat) (m : Int) (h1 : sw.natAbs ≤ ell) (h2 : ell ≤ L) (hm : m.natAbs ≤ ell) :
    Gen.Modes_index sw 0 L ell m = Gen.Yindex ell m 0 ∧ Gen.index_ok ell m sw 0 L = true := by
  refine ⟨?_, ?_⟩
  · unfold Gen.Modes_index
    rw [if_neg (by omega), if_neg (by omega)]
  · unfold Gen.index_ok
    rw [if_neg (by omega), if_neg (by omega)]
end

/-- non-vacuity: IEEE doubles on the executable memory, spin −2, `ell_max = 4`, the cell (3, −1) of `Lplus` -/
example (sin : Int → Cx Float) (st : HFMem Float) (hz : ∀ i, frdC (α := Float) st 7 i = czero) :
    frdC (α := Float) (Gen.Modes_Lplus_loop (α := Float) sin 7 ((4 : Nat) : Int) 0 (-2) ((4 : Nat) : Int) 0 (-2) st) 7 (((3 : Nat) : Int) * (((3 : Nat) : Int) + 1) + (-1))
      = (Lplus (famOf (-2) 4 sin)).w 3 (-1) :=
  gen_Lplus sin 7 (-2) 4 st hz 3 (-1) (by decide) (by decide)
end GenDiff
