import SphericalVerif.Lemmas.GenRot
import SphericalVerif.Props.GenHorner
/-! GenRot — `Wigner.rotate(horner=True)` **as the Python text states it** (kernel level): the generated `_rotate_Horner`
    (`Gen/RotHKern.lean`, regenerated on every run) on the workspace left by the generated `Wigner.H` leaves in
    `fₗₙ[0, ℓ(ℓ+1)+m]`, for one row of mode weights and one rotor, exactly `Model.rotateHornerEntry` of the coordinate model —
    the value about which `Routes.rotateHorner_eq_matrix`, `HomAll.rotate_is_rot` (= f·𝔇 with the documented 𝔇),
    `rot_evaluate` (f′(Q) = f(R Q)), composition, inverse and block norms are proved.  Every spin, every `ell_max ≤` the
    calculator's, every arithmetic, every previous content of workspace, scratch rows and output.

    Parameters: the phases `zₐ`, `zᵧ` and the library operation `zᵧ**m` (`cpowi`).  Rows: the theorem is per row of weights
    (`nrows = 1`); every whole-column numpy statement of the kernel is elementwise in the row index (the translator turns it
    into `for r in range(nrows)` around the same statement for row `r`). -/
namespace GenRot
open Gen Model Spec GenH GenFill

variable {α : Type} [Scalar α] {φ : Type} [FMem φ α] [LawfulFMem φ α]

/-- **`Wigner.rotate` (Horner strategy), kernel level, from the Python text.** -/
theorem gen_rotate_row (L : Nat) (fln nT pT : Nat) (c s : α) (a b d g h : Int → α) (ht : TabOK L a b d g h)
    (farr : Array (Cx α)) (za zg : Cx α) (sw : Int) (ellMax : Nat) (ncn nc : Int) (cpowi : Cx α → Int → Cx α)
    (F : φ) (J : Loc → α) (h1 : nT ≠ pT) (h2 : fln ≠ nT) (h3 : fln ≠ pT) (hM : ellMax ≤ L)
    (n : Nat) (m : Int) (hsn : sw.natAbs ≤ n) (hn : n ≤ ellMax) (hm1 : -(n : Int) ≤ m) (hm2 : m ≤ n) :
    let stH := Gen.Wigner_H (α := α) g h (L : Int) (L : Int) a b d ⟨c, s⟩ idW idV idX F
    frdC (α := α) (Gen.u_rotate_Horner (α := α) (fun i => Model.cget farr i.toNat) fln 0 (L : Int) (L : Int) 0 (ellMax : Int) sw
        (fun i => frd (α := α) stH idW i) za zg nT pT 1 1 ncn nc cpowi stH) fln ((n : Int) * ((n : Int) + 1) + m)
      = Model.rotateHornerEntry (α := α) (Model.runH (α := α) L L c s (⟨F, J⟩ : Hyb L L φ α)) farr za (cpowi zg) n m := by
  intro stH
  refine gen_rotate_cell (Model.runH (α := α) L L c s (⟨F, J⟩ : Hyb L L φ α)) farr fln nT pT 0 L L ellMax sw _ za zg ncn nc cpowi stH
    h1 h2 h3 (by omega) ?_ n m hsn hn hm1 hm2
  intro ell a' b' hl ha1 ha2 hb1 hb2
  exact (hat_gen L L c s a b d g h ht F J ell a' b' (by omega) ha1 ha2 hb1 hb2 (by omega)).symm

/-- non-vacuity: spin 1, `ell_max = 3` on the calculator `L = 4`, output order (2, -1), IEEE doubles, executable memory -/
example (c s : Float) (farr : Array (Cx Float)) (za zg : Cx Float) (cpowi : Cx Float → Int → Cx Float) (F : HFMem Float) :
    let stH := Gen.Wigner_H (α := Float) (tabOfRange Scalar.half (Spec.nmRange 5) Gen.tab_g)
      (tabOfRange Scalar.half (Spec.nmRange 5) Gen.tab_h) 4 4 (tabOfRange Scalar.half (Spec.nabsmRange 5) Gen.tab_a)
      (tabOfRange Scalar.half (Spec.nmRange 5) Gen.tab_b) (tabOfRange Scalar.half (Spec.nmRange 5) Gen.tab_d) ⟨c, s⟩ idW idV idX F
    frdC (α := Float) (Gen.u_rotate_Horner (α := Float) (fun i => Model.cget farr i.toNat) 3 0 4 4 0 3 1
        (fun i => frd (α := Float) stH idW i) za zg 4 5 1 1 16 16 cpowi stH) 3 (2 * (2 + 1) + (-1))
      = Model.rotateHornerEntry (α := Float) (Model.runH (α := Float) 4 4 c s (⟨F, fun _ => 0.0⟩ : Hyb 4 4 (HFMem Float) Float)) farr za (cpowi zg) 2 (-1) :=
  gen_rotate_row 4 3 4 5 c s _ _ _ _ _ (tabOK_ranges 4) farr za zg 1 3 16 16 cpowi F (fun _ => 0.0) (by decide) (by decide) (by decide)
    (by decide) 2 (-1) (by decide) (by decide) (by decide) (by decide)

end GenRot
