import SphericalVerif.Lemmas.Object
/-! C08 — configuration independence: two `Wigner` objects of different sizes (ell_max, mp_max), with workspaces of
    possibly different representations and contents, return the same value for every entry both of them have.

    Bitwise, for every arithmetic `Scalar α` (no laws assumed).  This includes the phase powers: entry `k` of
    `_complex_powers(z, M)` is the same *expression* for every `M ≥ k` (`cpowers_entry_indep`; the last entry is
    rotated after the loop and the others inside it, but by the same clock value), so the power arrays need not be
    passed as parameters.  `ell_min` only selects which entries are output (it does not enter any entry's value in the
    models), so it does not appear. -/
namespace C08
open Model Lemmas.Object
section
variable {α : Type} [Scalar α] {μ₁ : Type} [Mem μ₁ α] [LawfulMem μ₁ α] {μ₂ : Type} [Mem μ₂ α] [LawfulMem μ₂ α]

/-- entry `k` of `_complex_powers(z, M)` does not depend on the array length `M ≥ k` -/
theorem cpowers_entry_indep (z : Cx α) (M₁ M₂ : Nat) (imsqrt : Cx α → α) (k : Nat) (h₁ : k ≤ M₁) (h₂ : k ≤ M₂) :
    cget (cpowers z M₁ imsqrt) k = cget (cpowers z M₂ imsqrt) k :=
  Lemmas.Object.cpowers_entry_indep z M₁ M₂ imsqrt k h₁ h₂

/-- `Wigner(L₁).d` and `Wigner(L₂).d` agree on every entry with ℓ ≤ min(L₁, L₂) -/
theorem objd_cfg_indep (L₁ L₂ : Nat) (st₁ : μ₁) (st₂ : μ₂) (c s : α) (ell : Nat) (mp m : Int)
    (hl₁ : ell ≤ L₁) (hl₂ : ell ≤ L₂) (hmp : mp.natAbs ≤ ell) (hm : m.natAbs ≤ ell) :
    objd (α := α) L₁ st₁ c s ell mp m = objd (α := α) L₂ st₂ c s ell mp m := by
  unfold objd
  exact dEntry_congr _ _ ell mp m
    (Hat_runH_agree L₁ L₁ L₂ L₂ (Nat.le_refl _) (Nat.le_refl _) c s st₁ st₂ ell mp m hl₁ hl₂ hmp hm
      (Or.inl (by omega)) (Or.inl (by omega)))

/-- `Wigner(L₁).D` and `Wigner(L₂).D` agree on every entry with ℓ ≤ min(L₁, L₂) -/
theorem objD_cfg_indep (L₁ L₂ : Nat) (st₁ : μ₁) (st₂ : μ₂) (R0 R1 R2 R3 : α) (imsqrt : Cx α → α) (ell : Nat)
    (mp m : Int) (hl₁ : ell ≤ L₁) (hl₂ : ell ≤ L₂) (hmp : mp.natAbs ≤ ell) (hm : m.natAbs ≤ ell) :
    objD L₁ st₁ R0 R1 R2 R3 imsqrt ell mp m = objD L₂ st₂ R0 R1 R2 R3 imsqrt ell mp m := by
  unfold objD
  exact DEntry_congr _ _ _ _ _ _ ell mp m
    (Hat_runH_agree L₁ L₁ L₂ L₂ (Nat.le_refl _) (Nat.le_refl _) _ _ st₁ st₂ ell mp m hl₁ hl₂ hmp hm
      (Or.inl (by omega)) (Or.inl (by omega)))
    (Lemmas.Object.cpowers_entry_indep _ L₁ L₂ imsqrt _ (by omega) (by omega))
    (Lemmas.Object.cpowers_entry_indep _ L₁ L₂ imsqrt _ (by omega) (by omega))

/-- `Wigner(L₁, mp_max=P₁).sYlm(s, ·)` and `Wigner(L₂, mp_max=P₂).sYlm(s, ·)` (both with `|s| ≤ Pᵢ ≤ Lᵢ`) agree on
    every entry with ℓ ≤ min(L₁, L₂) -/
theorem objY_cfg_indep (L₁ P₁ L₂ P₂ : Nat) (h₁ : P₁ ≤ L₁) (h₂ : P₂ ≤ L₂) (st₁ : μ₁) (st₂ : μ₂) (R0 R1 R2 R3 : α)
    (imsqrt : Cx α → α) (zgpow : Cx α) (s : Int) (ell : Nat) (m : Int)
    (hs₁ : s.natAbs ≤ P₁) (hs₂ : s.natAbs ≤ P₂) (hl₁ : ell ≤ L₁) (hl₂ : ell ≤ L₂) (hm : m.natAbs ≤ ell) :
    objY L₁ P₁ st₁ R0 R1 R2 R3 imsqrt zgpow s ell m = objY L₂ P₂ st₂ R0 R1 R2 R3 imsqrt zgpow s ell m := by
  unfold objY
  exact sYlmEntry_congr _ _ _ _ zgpow s ell m
    (fun hse => Hat_runH_agree L₁ P₁ L₂ P₂ h₁ h₂ _ _ st₁ st₂ ell m (-s) hl₁ hl₂ hm (by omega)
      (Or.inr (by omega)) (Or.inr (by omega)))
    (Lemmas.Object.cpowers_entry_indep _ L₁ L₂ imsqrt _ (by omega) (by omega))

/-- `evaluate(modes, R, horner=True)`: any two objects that accept the modes (`|s| ≤ Pᵢ`, `modes.ell_max ≤ Lᵢ`) -/
theorem objEvalH_cfg_indep (L₁ P₁ L₂ P₂ : Nat) (h₁ : P₁ ≤ L₁) (h₂ : P₂ ≤ L₂) (st₁ : μ₁) (st₂ : μ₂) (R0 R1 R2 R3 : α)
    (zgpow : Cx α) (f : Array (Cx α)) (s : Int) (ellMax : Nat) (prev₁ prev₂ : Cx α)
    (hs₁ : s.natAbs ≤ P₁) (hs₂ : s.natAbs ≤ P₂) (hL₁ : ellMax ≤ L₁) (hL₂ : ellMax ≤ L₂) :
    objEvalH L₁ P₁ st₁ R0 R1 R2 R3 zgpow f s ellMax prev₁ = objEvalH L₂ P₂ st₂ R0 R1 R2 R3 zgpow f s ellMax prev₂ := by
  unfold objEvalH
  exact evaluateHornerK_congr _ _ f _ zgpow s ellMax prev₁ prev₂
    (fun ell m' a b d => Hat_runH_agree L₁ P₁ L₂ P₂ h₁ h₂ _ _ st₁ st₂ ell m' (-s) (by omega) (by omega) d
      (by omega) (Or.inr (by omega)) (Or.inr (by omega)))

/-- `rotate(modes, R, horner=True)`: any two objects with `ℓ ≤ min(L₁, L₂)` -/
theorem objRotH_cfg_indep (L₁ L₂ : Nat) (st₁ : μ₁) (st₂ : μ₂) (R0 R1 R2 R3 : α) (zgpow : Int → Cx α)
    (f : Array (Cx α)) (s : Int) (ell : Nat) (m : Int) (hl₁ : ell ≤ L₁) (hl₂ : ell ≤ L₂) (hm : m.natAbs ≤ ell) :
    objRotH L₁ st₁ R0 R1 R2 R3 zgpow f s ell m = objRotH L₂ st₂ R0 R1 R2 R3 zgpow f s ell m := by
  unfold objRotH
  simp only []
  split
  · rfl
  · exact rotateHornerEntry_congr _ _ f _ zgpow ell m
      (fun n hn => Hat_runH_agree L₁ L₁ L₂ L₂ (Nat.le_refl _) (Nat.le_refl _) _ _ st₁ st₂ ell n m hl₁ hl₂ hn hm
        (Or.inr (by omega)) (Or.inr (by omega)))

end

/-! ### satisfiable at non-trivial points: IEEE doubles, a hash-map workspace vs. a function workspace -/

example (st₁ : HMem Float) (st₂ : Loc → Float) (R0 R1 R2 R3 : Float) (imsqrt : Cx Float → Float) :
    objD 3 st₁ R0 R1 R2 R3 imsqrt 3 (-2) 3 = objD 8 st₂ R0 R1 R2 R3 imsqrt 3 (-2) 3 :=
  objD_cfg_indep 3 8 st₁ st₂ R0 R1 R2 R3 imsqrt 3 (-2) 3 (by decide) (by decide) (by decide) (by decide)

example (st₁ : HMem Float) (st₂ : Loc → Float) (c s : Float) : objd 4 st₁ c s 4 (-4) 1 = objd 7 st₂ c s 4 (-4) 1 :=
  objd_cfg_indep 4 7 st₁ st₂ c s 4 (-4) 1 (by decide) (by decide) (by decide) (by decide)

example (st₁ : HMem Float) (st₂ : Loc → Float) (R0 R1 R2 R3 : Float) (imsqrt : Cx Float → Float) (zgpow : Cx Float) :
    objY 6 2 st₁ R0 R1 R2 R3 imsqrt zgpow (-2) 5 (-4) = objY 9 9 st₂ R0 R1 R2 R3 imsqrt zgpow (-2) 5 (-4) :=
  objY_cfg_indep 6 2 9 9 (by decide) (by decide) st₁ st₂ R0 R1 R2 R3 imsqrt zgpow (-2) 5 (-4)
    (by decide) (by decide) (by decide) (by decide) (by decide)

example (z : Cx Float) (imsqrt : Cx Float → Float) : cget (cpowers z 3 imsqrt) 3 = cget (cpowers z 8 imsqrt) 3 :=
  cpowers_entry_indep z 3 8 imsqrt 3 (by decide) (by decide)

end C08
