import SphericalVerif.Gen.Indexing
import Mathlib.Tactic.Ring
import Mathlib.Tactic.Linarith
import Mathlib.Tactic.NormNum

/-! Exactness of the fixed-width (`wrap64`) twins on a bounded domain.

    Mechanism: a `Prop`-valued class `Bnd x lo hi` (`lo ≤ x ≤ hi`, bounds are out-params) with
    interval-arithmetic instances; `wrap64_bnd` is a `simp` lemma whose side conditions
    `-2^63 ≤ lo`, `hi < 2^63` are closed numerals discharged by `decide`. -/
namespace Lemmas
open Gen

theorem wrap64_id (x : Int) (h1 : -9223372036854775808 ≤ x) (h2 : x < 9223372036854775808) :
    wrap64 x = x := by
  unfold wrap64; omega

/-- `lo ≤ x ≤ hi`, with the bounds computed by instance resolution. -/
class Bnd (x : Int) (lo hi : outParam Int) : Prop where
  out : lo ≤ x ∧ x ≤ hi

theorem wrap64_bnd (x : Int) {lo hi : Int} [h : Bnd x lo hi]
    (h1 : -9223372036854775808 ≤ lo) (h2 : hi < 9223372036854775808) : wrap64 x = x :=
  wrap64_id x (le_trans h1 h.out.1) (lt_of_le_of_lt h.out.2 h2)

instance bndLit0 : Bnd (0 : Int) 0 0 := ⟨le_refl _, le_refl _⟩
instance bndLit1 : Bnd (1 : Int) 1 1 := ⟨le_refl _, le_refl _⟩
instance bndLit2 : Bnd (2 : Int) 2 2 := ⟨le_refl _, le_refl _⟩
instance bndLit3 : Bnd (3 : Int) 3 3 := ⟨le_refl _, le_refl _⟩
instance bndLit4 : Bnd (4 : Int) 4 4 := ⟨le_refl _, le_refl _⟩
instance bndLit5 : Bnd (5 : Int) 5 5 := ⟨le_refl _, le_refl _⟩
instance bndLit6 : Bnd (6 : Int) 6 6 := ⟨le_refl _, le_refl _⟩
instance bndLit11 : Bnd (11 : Int) 11 11 := ⟨le_refl _, le_refl _⟩
instance bndLit12 : Bnd (12 : Int) 12 12 := ⟨le_refl _, le_refl _⟩

instance bndAdd (a b la ha lb hb : Int) [x : Bnd a la ha] [y : Bnd b lb hb] :
    Bnd (a + b) (la + lb) (ha + hb) :=
  ⟨by have := x.out; have := y.out; omega, by have := x.out; have := y.out; omega⟩

instance bndSub (a b la ha lb hb : Int) [x : Bnd a la ha] [y : Bnd b lb hb] :
    Bnd (a - b) (la - hb) (ha - lb) :=
  ⟨by have := x.out; have := y.out; omega, by have := x.out; have := y.out; omega⟩

instance bndNeg (a la ha : Int) [x : Bnd a la ha] : Bnd (-a) (-ha) (-la) :=
  ⟨by have := x.out; omega, by have := x.out; omega⟩

theorem mul_bounds (a b la ha lb hb : Int) (h1 : la ≤ a) (h2 : a ≤ ha) (h3 : lb ≤ b) (h4 : b ≤ hb) :
    min (min (la * lb) (la * hb)) (min (ha * lb) (ha * hb)) ≤ a * b ∧
    a * b ≤ max (max (la * lb) (la * hb)) (max (ha * lb) (ha * hb)) := by
  have hmin1 : min (min (la * lb) (la * hb)) (min (ha * lb) (ha * hb)) ≤ la * lb :=
    le_trans (min_le_left _ _) (min_le_left _ _)
  have hmin2 : min (min (la * lb) (la * hb)) (min (ha * lb) (ha * hb)) ≤ la * hb :=
    le_trans (min_le_left _ _) (min_le_right _ _)
  have hmin3 : min (min (la * lb) (la * hb)) (min (ha * lb) (ha * hb)) ≤ ha * lb :=
    le_trans (min_le_right _ _) (min_le_left _ _)
  have hmin4 : min (min (la * lb) (la * hb)) (min (ha * lb) (ha * hb)) ≤ ha * hb :=
    le_trans (min_le_right _ _) (min_le_right _ _)
  have hmax1 : la * lb ≤ max (max (la * lb) (la * hb)) (max (ha * lb) (ha * hb)) :=
    le_trans (le_max_left _ _) (le_max_left _ _)
  have hmax2 : la * hb ≤ max (max (la * lb) (la * hb)) (max (ha * lb) (ha * hb)) :=
    le_trans (le_max_right _ _) (le_max_left _ _)
  have hmax3 : ha * lb ≤ max (max (la * lb) (la * hb)) (max (ha * lb) (ha * hb)) :=
    le_trans (le_max_left _ _) (le_max_right _ _)
  have hmax4 : ha * hb ≤ max (max (la * lb) (la * hb)) (max (ha * lb) (ha * hb)) :=
    le_trans (le_max_right _ _) (le_max_right _ _)
  rcases le_total 0 a with ha0 | ha0 <;> rcases le_total 0 b with hb0 | hb0
  · -- a ≥ 0, b ≥ 0:  la*? ... lower: use a*b ≥ a*lb ≥ (la or ha)*lb
    constructor
    · rcases le_total 0 lb with hl | hl
      · have : la * lb ≤ a * b := by nlinarith
        rcases le_total 0 la with hla | hla
        · linarith
        · have : la * lb ≤ 0 := by nlinarith
          nlinarith
      · have : ha * lb ≤ a * b := by nlinarith
        linarith
    · have : a * b ≤ ha * hb := by nlinarith
      linarith
  · -- a ≥ 0, b ≤ 0
    constructor
    · have : ha * lb ≤ a * b := by nlinarith
      linarith
    · rcases le_total 0 hb with hl | hl
      · have : a * b ≤ ha * hb := by nlinarith
        linarith
      · rcases le_total 0 la with hla | hla
        · have : a * b ≤ la * hb := by nlinarith
          linarith
        · have : a * b ≤ la * hb := by nlinarith
          linarith
  · -- a ≤ 0, b ≥ 0
    constructor
    · have : la * hb ≤ a * b := by nlinarith
      linarith
    · rcases le_total 0 ha with hl | hl
      · have : a * b ≤ ha * hb := by nlinarith
        linarith
      · rcases le_total 0 lb with hlb | hlb
        · have : a * b ≤ ha * lb := by nlinarith
          linarith
        · have : a * b ≤ ha * lb := by nlinarith
          linarith
  · -- a ≤ 0, b ≤ 0
    constructor
    · rcases le_total 0 hb with hl | hl
      · have : la * hb ≤ a * b := by nlinarith
        linarith
      · rcases le_total 0 ha with hha | hha
        · have : ha * hb ≤ a * b := by nlinarith
          linarith
        · have : ha * hb ≤ a * b := by nlinarith
          linarith
    · have : a * b ≤ la * lb := by nlinarith
      linarith

instance bndMul (a b la ha lb hb : Int) [x : Bnd a la ha] [y : Bnd b lb hb] :
    Bnd (a * b) (min (min (la * lb) (la * hb)) (min (ha * lb) (ha * hb)))
      (max (max (la * lb) (la * hb)) (max (ha * lb) (ha * hb))) :=
  ⟨mul_bounds a b la ha lb hb x.out.1 x.out.2 y.out.1 y.out.2⟩

instance bndDiv2 (a la ha : Int) [x : Bnd a la ha] : Bnd (a / 2) (la / 2) (ha / 2) :=
  ⟨by have := x.out; omega, by have := x.out; omega⟩

instance bndDiv3 (a la ha : Int) [x : Bnd a la ha] : Bnd (a / 3) (la / 3) (ha / 3) :=
  ⟨by have := x.out; omega, by have := x.out; omega⟩

instance bndDiv6 (a la ha : Int) [x : Bnd a la ha] : Bnd (a / 6) (la / 6) (ha / 6) :=
  ⟨by have := x.out; omega, by have := x.out; omega⟩

instance bndMin (a b la ha lb hb : Int) [x : Bnd a la ha] [y : Bnd b lb hb] :
    Bnd (min a b) (min la lb) (min ha hb) :=
  ⟨by have := x.out; have := y.out; omega, by have := x.out; have := y.out; omega⟩

instance bndNatAbs (a la ha : Int) [x : Bnd a la ha] :
    Bnd ((Int.natAbs a : Nat) : Int) 0 (max (-la) ha) :=
  ⟨by omega, by have := x.out; omega⟩

instance bndMod2 (a : Int) : Bnd (a % 2) 0 1 := ⟨by omega, by omega⟩

/-- weaken a synthesized bound to explicit numerals -/
theorem Bnd.weaken {x lo hi : Int} (h : Bnd x lo hi) {lo' hi' : Int} (h1 : lo' ≤ lo) (h2 : hi ≤ hi') :
    lo' ≤ x ∧ x ≤ hi' := ⟨le_trans h1 h.out.1, le_trans h.out.2 h2⟩

/-! ### exactness on the natural domain, bound `10^6`

Sizes / degrees (`ell`, `ell_min`, `ell_max`, `mp_max`, `n`) range over `0 .. 10^6` (plus the negative
sentinels where the Python code documents one); orders (`mp`, `m`) over `-10^6 .. 10^6`. -/

theorem Ysize_w_eq (ell_min ell_max : Int)
    (h1 : -1000000 ≤ ell_min ∧ ell_min ≤ 1000000) (h2 : -1000000 ≤ ell_max ∧ ell_max ≤ 1000000) :
    Ysize_w ell_min ell_max = Ysize ell_min ell_max := by
  have : Bnd ell_min (-1000000) 1000000 := ⟨h1⟩
  have : Bnd ell_max (-1000000) 1000000 := ⟨h2⟩
  unfold Ysize_w Ysize
  simp (discharger := decide) only [wrap64_bnd]
  ring

theorem Yindex_w_eq (ell m ell_min : Int)
    (h1 : -1000000 ≤ ell ∧ ell ≤ 1000000) (h2 : -1000000 ≤ m ∧ m ≤ 1000000)
    (h3 : -1000000 ≤ ell_min ∧ ell_min ≤ 1000000) :
    Yindex_w ell m ell_min = Yindex ell m ell_min := by
  have : Bnd ell (-1000000) 1000000 := ⟨h1⟩
  have : Bnd m (-1000000) 1000000 := ⟨h2⟩
  have : Bnd ell_min (-1000000) 1000000 := ⟨h3⟩
  unfold Yindex_w Yindex
  simp (discharger := decide) only [wrap64_bnd]
  split <;> ring

theorem nm_index_w_eq (n m : Int)
    (h1 : -1000000 ≤ n ∧ n ≤ 1000000) (h2 : -1000000 ≤ m ∧ m ≤ 1000000) :
    nm_index_w n m = nm_index n m := by
  have : Bnd n (-1000000) 1000000 := ⟨h1⟩
  have : Bnd m (-1000000) 1000000 := ⟨h2⟩
  unfold nm_index_w nm_index
  simp (discharger := decide) only [wrap64_bnd]

theorem nabsm_index_w_eq (n absm : Int)
    (h1 : -1000000 ≤ n ∧ n ≤ 1000000) (h2 : -1000000 ≤ absm ∧ absm ≤ 1000000) :
    nabsm_index_w n absm = nabsm_index n absm := by
  have : Bnd n (-1000000) 1000000 := ⟨h1⟩
  have : Bnd absm (-1000000) 1000000 := ⟨h2⟩
  unfold nabsm_index_w nabsm_index
  simp (discharger := decide) only [wrap64_bnd]

theorem nmpm_index_w_eq (n mp m : Int)
    (h1 : -1000000 ≤ n ∧ n ≤ 1000000) (h2 : -1000000 ≤ mp ∧ mp ≤ 1000000)
    (h3 : -1000000 ≤ m ∧ m ≤ 1000000) :
    nmpm_index_w n mp m = nmpm_index n mp m := by
  have : Bnd n (-1000000) 1000000 := ⟨h1⟩
  have : Bnd mp (-1000000) 1000000 := ⟨h2⟩
  have : Bnd m (-1000000) 1000000 := ⟨h3⟩
  unfold nmpm_index_w nmpm_index
  simp (discharger := decide) only [wrap64_bnd]

theorem eps_w_eq (m : Int) : ε_w m = ε m := by
  unfold ε_w ε
  simp (discharger := decide) only [wrap64_bnd]

theorem sign_w_eq (m : Int) : sign_w m = sign m := by
  unfold sign_w sign
  simp (discharger := decide) only [wrap64_bnd]

/-! #### H -/

theorem Hsize_w_eq (P L : Int) (hP : 0 ≤ P ∧ P ≤ 1000000) (hL : -2 ≤ L ∧ L ≤ 1000000) :
    WignerHsize_w P L = WignerHsize P L := by
  have : Bnd P 0 1000000 := ⟨hP⟩
  have : Bnd L (-2) 1000000 := ⟨hL⟩
  unfold WignerHsize_w WignerHsize
  simp (discharger := decide) only [wrap64_bnd]

/-- crude value bound (enough for the index computations) -/
theorem Hsize_bnd (P L : Int) (hP : 0 ≤ P ∧ P ≤ 1000000) (hL : -2 ≤ L ∧ L ≤ 1000000) :
    -1000000000000000000 ≤ WignerHsize P L ∧ WignerHsize P L ≤ 1000000000000000000 := by
  have : Bnd P 0 1000000 := ⟨hP⟩
  have : Bnd L (-2) 1000000 := ⟨hL⟩
  unfold WignerHsize
  simp only []
  split_ifs <;>
    first
    | exact (inferInstance : Bnd _ _ _).weaken (by decide) (by decide)

theorem u_Hindex_w_eq (ell mp m P : Int) (hl : 0 ≤ ell ∧ ell ≤ 1000000)
    (hmp : -1000000 ≤ mp ∧ mp ≤ 1000000) (hm : -1000000 ≤ m ∧ m ≤ 1000000)
    (hP : 0 ≤ P ∧ P ≤ 1000000) :
    u_WignerHindex_w ell mp m P = u_WignerHindex ell mp m P := by
  have : Bnd ell 0 1000000 := ⟨hl⟩
  have : Bnd mp (-1000000) 1000000 := ⟨hmp⟩
  have : Bnd m (-1000000) 1000000 := ⟨hm⟩
  have : Bnd P 0 1000000 := ⟨hP⟩
  unfold u_WignerHindex_w u_WignerHindex
  simp (discharger := decide) only [wrap64_bnd]
  rw [Hsize_w_eq (min P ell) (ell - 1) (by omega) (by omega)]
  have : Bnd (WignerHsize (min P ell) (ell - 1)) (-1000000000000000000) 1000000000000000000 :=
    ⟨Hsize_bnd (min P ell) (ell - 1) (by omega) (by omega)⟩
  simp (discharger := decide) only [wrap64_bnd]

theorem Hindex_w_eq (ell mp m : Int) (P : Option Int) (hl : 0 ≤ ell ∧ ell ≤ 1000000)
    (hmp : -1000000 ≤ mp ∧ mp ≤ 1000000) (hm : -1000000 ≤ m ∧ m ≤ 1000000)
    (hP : ∀ p, P = some p → 0 ≤ p ∧ p ≤ 1000000) :
    WignerHindex_w ell mp m P = WignerHindex ell mp m P := by
  have : Bnd ell 0 1000000 := ⟨hl⟩
  have : Bnd mp (-1000000) 1000000 := ⟨hmp⟩
  have : Bnd m (-1000000) 1000000 := ⟨hm⟩
  unfold WignerHindex_w WignerHindex
  simp (discharger := decide) only [wrap64_bnd]
  cases P with
  | none =>
    simp only []
    split_ifs <;> first | rfl | exact u_Hindex_w_eq _ _ _ _ (by omega) (by omega) (by omega) (by omega)
  | some p =>
    have hp := hP p rfl
    simp only []
    split_ifs <;> first | rfl | exact u_Hindex_w_eq _ _ _ _ (by omega) (by omega) (by omega) (by omega)

/-! #### D -/

theorem Dsize_w_eq (e P L : Int) (he : 0 ≤ e ∧ e ≤ 1000000) (hP : 0 ≤ P ∧ P ≤ 1000000)
    (hL : -1000000 ≤ L ∧ L ≤ 1000000) :
    WignerDsize_w e P L = WignerDsize e P L := by
  have : Bnd e 0 1000000 := ⟨he⟩
  have : Bnd P 0 1000000 := ⟨hP⟩
  unfold WignerDsize_w WignerDsize
  by_cases c : L < 0
  · simp only [c, if_true, ge_iff_le, le_refl]
    simp (discharger := decide) only [wrap64_bnd]
    ring_nf
  · have : Bnd L 0 1000000 := ⟨by omega⟩
    simp only [c, if_false]
    simp (discharger := decide) only [wrap64_bnd]
    split_ifs <;> ring_nf

theorem Dsize_bnd (e P L : Int) (he : 0 ≤ e ∧ e ≤ 1000000) (hP : 0 ≤ P ∧ P ≤ 1000000)
    (hL : -1000000 ≤ L ∧ L ≤ 1000000) :
    -3000000000000000000 ≤ WignerDsize e P L ∧ WignerDsize e P L ≤ 3000000000000000000 := by
  have : Bnd e 0 1000000 := ⟨he⟩
  have : Bnd P 0 1000000 := ⟨hP⟩
  unfold WignerDsize
  by_cases c : L < 0
  · simp only [c, if_true, ge_iff_le, le_refl, pow_two]
    exact (inferInstance : Bnd _ _ _).weaken (by decide) (by decide)
  · have : Bnd L 0 1000000 := ⟨by omega⟩
    simp only [c, if_false, pow_two]
    split_ifs <;> exact (inferInstance : Bnd _ _ _).weaken (by decide) (by decide)

theorem Dindex_w_eq (ell mp m e P : Int) (hl : 0 ≤ ell ∧ ell ≤ 1000000)
    (hmp : -1000000 ≤ mp ∧ mp ≤ 1000000) (hm : -1000000 ≤ m ∧ m ≤ 1000000)
    (he : 0 ≤ e ∧ e ≤ 1000000) (hP : -1000000 ≤ P ∧ P ≤ 1000000) :
    WignerDindex_w ell mp m e P = WignerDindex ell mp m e P := by
  have : Bnd ell 0 1000000 := ⟨hl⟩
  have : Bnd mp (-1000000) 1000000 := ⟨hmp⟩
  have : Bnd m (-1000000) 1000000 := ⟨hm⟩
  have : Bnd e 0 1000000 := ⟨he⟩
  have : Bnd P (-1000000) 1000000 := ⟨hP⟩
  unfold WignerDindex_w WignerDindex
  simp (discharger := decide) only [wrap64_bnd]
  by_cases c : P < 0
  · simp only [c, if_true]
    by_cases c2 : ell > e
    · simp only [c2, if_true]
      rw [Dsize_w_eq e ell (ell - 1) he hl (by omega)]
      have : Bnd (WignerDsize e ell (ell - 1)) (-3000000000000000000) 3000000000000000000 :=
        ⟨Dsize_bnd e ell (ell - 1) he hl (by omega)⟩
      simp (discharger := decide) only [wrap64_bnd]
    · simp only [c2, if_false]
  · simp only [c, if_false]
    by_cases c2 : ell > e
    · simp only [c2, if_true]
      rw [Dsize_w_eq e P (ell - 1) he (by omega) (by omega)]
      have : Bnd (WignerDsize e P (ell - 1)) (-3000000000000000000) 3000000000000000000 :=
        ⟨Dsize_bnd e P (ell - 1) he (by omega) (by omega)⟩
      simp (discharger := decide) only [wrap64_bnd]
    · simp only [c2, if_false]

/-- With a symmetric bound `|x| ≤ 10^6` on *all* arguments exactness is false for the H functions:
    a negative `mp_max` makes `ell_max - mp_max` up to `2·10^6`, whose cube overflows. -/
theorem Hsize_w_symm_fails : WignerHsize_w (-1000000) 1000000 ≠ WignerHsize (-1000000) 1000000 := by
  decide

/-! ### exactness with a symmetric bound `|x| ≤ 5·10^5` on every argument (sentinels and nonsense included) -/

theorem Hsize_bnd_symm (P L : Int) (hP : -500000 ≤ P ∧ P ≤ 500000) (hL : -500001 ≤ L ∧ L ≤ 500000) :
    -1000000000000000000 ≤ WignerHsize P L ∧ WignerHsize P L ≤ 1000000000000000000 := by
  have : Bnd P (-500000) 500000 := ⟨hP⟩
  have : Bnd L (-500001) 500000 := ⟨hL⟩
  unfold WignerHsize
  simp only []
  split_ifs <;>
    first
    | exact (inferInstance : Bnd _ _ _).weaken (by decide) (by decide)

theorem Hsize_w_symm (P L : Int) (hP : -500000 ≤ P ∧ P ≤ 500000) (hL : -500001 ≤ L ∧ L ≤ 500000) :
    WignerHsize_w P L = WignerHsize P L := by
  have : Bnd P (-500000) 500000 := ⟨hP⟩
  have : Bnd L (-500001) 500000 := ⟨hL⟩
  unfold WignerHsize_w WignerHsize
  simp (discharger := decide) only [wrap64_bnd]

theorem u_Hindex_w_symm (ell mp m P : Int) (hl : -500000 ≤ ell ∧ ell ≤ 500000)
    (hmp : -500000 ≤ mp ∧ mp ≤ 500000) (hm : -500000 ≤ m ∧ m ≤ 500000)
    (hP : -500000 ≤ P ∧ P ≤ 500000) :
    u_WignerHindex_w ell mp m P = u_WignerHindex ell mp m P := by
  have : Bnd ell (-500000) 500000 := ⟨hl⟩
  have : Bnd mp (-500000) 500000 := ⟨hmp⟩
  have : Bnd m (-500000) 500000 := ⟨hm⟩
  have : Bnd P (-500000) 500000 := ⟨hP⟩
  unfold u_WignerHindex_w u_WignerHindex
  simp (discharger := decide) only [wrap64_bnd]
  rw [Hsize_w_symm (min P ell) (ell - 1) (by omega) (by omega)]
  have : Bnd (WignerHsize (min P ell) (ell - 1)) (-1000000000000000000) 1000000000000000000 :=
    ⟨Hsize_bnd_symm (min P ell) (ell - 1) (by omega) (by omega)⟩
  simp (discharger := decide) only [wrap64_bnd]

theorem Hindex_w_symm (ell mp m : Int) (P : Option Int) (hl : -500000 ≤ ell ∧ ell ≤ 500000)
    (hmp : -500000 ≤ mp ∧ mp ≤ 500000) (hm : -500000 ≤ m ∧ m ≤ 500000)
    (hP : ∀ p, P = some p → -500000 ≤ p ∧ p ≤ 500000) :
    WignerHindex_w ell mp m P = WignerHindex ell mp m P := by
  have : Bnd ell (-500000) 500000 := ⟨hl⟩
  have : Bnd mp (-500000) 500000 := ⟨hmp⟩
  have : Bnd m (-500000) 500000 := ⟨hm⟩
  unfold WignerHindex_w WignerHindex
  simp (discharger := decide) only [wrap64_bnd]
  cases P with
  | none =>
    simp only []
    split_ifs <;> first | rfl | exact u_Hindex_w_symm _ _ _ _ (by omega) (by omega) (by omega) (by omega)
  | some p =>
    have hp := hP p rfl
    simp only []
    split_ifs <;> first | rfl | exact u_Hindex_w_symm _ _ _ _ (by omega) (by omega) (by omega) (by omega)

theorem Dsize_w_symm (e P L : Int) (he : -500000 ≤ e ∧ e ≤ 500000) (hP : -500000 ≤ P ∧ P ≤ 500000)
    (hL : -500001 ≤ L ∧ L ≤ 500000) :
    WignerDsize_w e P L = WignerDsize e P L := by
  have : Bnd e (-500000) 500000 := ⟨he⟩
  have : Bnd P (-500000) 500000 := ⟨hP⟩
  have : Bnd L (-500001) 500000 := ⟨hL⟩
  unfold WignerDsize_w WignerDsize
  simp (discharger := decide) only [wrap64_bnd]
  simp only [pow_two]

theorem Dsize_bnd_symm (e P L : Int) (he : -500000 ≤ e ∧ e ≤ 500000) (hP : -500000 ≤ P ∧ P ≤ 500000)
    (hL : -500001 ≤ L ∧ L ≤ 500000) :
    -3000000000000000000 ≤ WignerDsize e P L ∧ WignerDsize e P L ≤ 3000000000000000000 := by
  have : Bnd e (-500000) 500000 := ⟨he⟩
  have : Bnd P (-500000) 500000 := ⟨hP⟩
  have : Bnd L (-500001) 500000 := ⟨hL⟩
  unfold WignerDsize
  simp only [pow_two]
  split_ifs <;> exact (inferInstance : Bnd _ _ _).weaken (by decide) (by decide)

theorem Dindex_w_symm (ell mp m e P : Int) (hl : -500000 ≤ ell ∧ ell ≤ 500000)
    (hmp : -500000 ≤ mp ∧ mp ≤ 500000) (hm : -500000 ≤ m ∧ m ≤ 500000)
    (he : -500000 ≤ e ∧ e ≤ 500000) (hP : -500000 ≤ P ∧ P ≤ 500000) :
    WignerDindex_w ell mp m e P = WignerDindex ell mp m e P := by
  have : Bnd ell (-500000) 500000 := ⟨hl⟩
  have : Bnd mp (-500000) 500000 := ⟨hmp⟩
  have : Bnd m (-500000) 500000 := ⟨hm⟩
  have : Bnd e (-500000) 500000 := ⟨he⟩
  have : Bnd P (-500000) 500000 := ⟨hP⟩
  unfold WignerDindex_w WignerDindex
  simp (discharger := decide) only [wrap64_bnd]
  rw [Dsize_w_symm e ell (ell - 1) he hl (by omega), Dsize_w_symm e P (ell - 1) he hP (by omega)]
  have : Bnd (WignerDsize e ell (ell - 1)) (-3000000000000000000) 3000000000000000000 :=
    ⟨Dsize_bnd_symm e ell (ell - 1) he hl (by omega)⟩
  have : Bnd (WignerDsize e P (ell - 1)) (-3000000000000000000) 3000000000000000000 :=
    ⟨Dsize_bnd_symm e P (ell - 1) he hP (by omega)⟩
  simp (discharger := decide) only [wrap64_bnd]

end Lemmas
