import SphericalVerif.Props.Sched
import SphericalVerif.Props.Footprint
#print axioms Sched.interleave_left
#print axioms Sched.interleave_right
#print axioms Sched.interleave_untouched
#print axioms Sched.private_call_reads_in_region
#print axioms Sched.private_call_writes_in_region
#print axioms Sched.private_calls_noninterfering
#print axioms Sched.private_call_avoids_default
#print axioms Sched.tables_never_written
#print axioms Sched.interleaveN_indep
#print axioms Footprint.step3_only
#print axioms Footprint.step1_only
#print axioms Footprint.step2_only
#print axioms Footprint.step4_only
#print axioms Footprint.step5_only
#print axioms Footprint.fill_d_only
#print axioms Footprint.fill_D_only
#print axioms Footprint.fill_sYlm_only
#print axioms Footprint.euler_only
#print axioms Footprint.cpow_only
#print axioms Footprint.evalH_only
#print axioms Footprint.rotH_only
#print axioms Footprint.wigner_H_only
#print axioms Footprint.gen_D_chain_inplace
