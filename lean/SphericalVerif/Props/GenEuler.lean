import SphericalVerif.Gen.EulerKern
import SphericalVerif.Model.Assemble
import SphericalVerif.Lemmas.GenFill
/-! GenEuler — the Euler-phase kernel **as the installed dependency states it**.

    `spherical/wigner.py` instantiates `quaternionic.converters.ToEulerPhases(jit)`; `Gen/EulerKern.lean` is regenerated on every
    run from the source of that kernel in the installed `quaternionic` package (and the translator checks that wigner.py still
    instantiates it).  `gen_euler_phases`: after the generated kernel the three cells of `z` hold exactly the three phases of the
    hand model `Model.eulerPhases` — about which the degenerate-branch analysis (`DDef`, `DAll`: both pole families, all three
    branches) is proved — for every arithmetic (IEEE doubles bit for bit) and every previous content of `z`.
    Complex division is numba's (the CPython algorithm, `Cx.div`), as validated bit for bit on every run. -/
namespace GenEuler
open Gen Model GenFill

variable {α : Type} [Scalar α] {φ : Type} [FMem φ α] [LawfulFMem φ α]

theorem gen_euler_phases (R : Int → α) (z : Nat) (st : φ) :
    let st' := Gen.u_to_euler_phases (α := α) R z st
    let e := Model.eulerPhases (R 0) (R 1) (R 2) (R 3)
    frdC (α := α) st' z 0 = e.1 ∧ frdC (α := α) st' z 1 = e.2.1 ∧ frdC (α := α) st' z 2 = e.2.2 := by
  intro st' e
  simp only [st', e, Gen.u_to_euler_phases, Model.eulerPhases]
  refine ⟨?_, ?_, ?_⟩
  · rw [frdC_fwrC_other _ _ _ _ _ (by omega), frdC_fwrC_same]; rfl
  · rw [frdC_fwrC_other _ _ _ _ _ (by omega), frdC_fwrC_other _ _ _ _ _ (by omega), frdC_fwrC_same]; rfl
  · rw [frdC_fwrC_same]; rfl

/-- non-vacuity at IEEE doubles on the executable memory -/
example (R : Int → Float) (st : HFMem Float) :
    frdC (α := Float) (Gen.u_to_euler_phases (α := Float) R 7 st) 7 1 = (Model.eulerPhases (R 0) (R 1) (R 2) (R 3)).2.1 :=
  (gen_euler_phases R 7 st).2.1

end GenEuler
