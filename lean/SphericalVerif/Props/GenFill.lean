import SphericalVerif.Lemmas.GenFill
import SphericalVerif.Props.GenH
import SphericalVerif.Model.Object
import SphericalVerif.Props.DocD
/-! GenFill — `Wigner.d`, `Wigner.D`, `Wigner.sYlm` **as the Python text states them** (kernel level) compute, entry by
    entry, what the coordinate model computes.

    `Gen/FillKern.lean` is regenerated on every run from the source of `_fill_wigner_d`, `_fill_wigner_D`, `_fill_sYlm`
    (spherical/wigner.py).  Composed with the generated `Wigner.H` (`Gen/HKern.lean`) exactly as `Wigner.d/D/sYlm` compose
    them — H recursion into the workspace, then the fill kernel reading `Hwedge` from it — the output arrays hold:

    * `gen_d_entry`  : `d[WignerDindex(ell, m', m, ell_min)]   = Model.dEntry …`   (hence `Model.objd`)
    * `gen_D_entry`  : `𝔇[WignerDindex(ell, m', m, ell_min)]   = Model.DEntry …`   (all four sign quadrants)
    * `gen_Y_entry`  : `Y[Yindex(ell, m, ell_min)]             = Model.sYlmEntry …` (both branches of `s`, the zero prefix)

    for every calculator size, every `ell_min`, every arithmetic (IEEE doubles included, bit for bit), every previous
    content of workspace and output.  All theorems about `Model.dEntry / DEntry / sYlmEntry` of `Model.runH` on a lawful
    memory (purity, calculator independence, and over exact reals `DocD.objd_eq_docd`, `DAll.D_all`, `DAll.sYlm_all`, the
    group laws of `HomAll`) therefore hold for the generated kernels; `gen_d_eq_docd` spells one of them out.

    The phase-power arrays are parameters here (read-only functions of the index, as the Python text only reads them);
    `_complex_powers` and `to_euler_phases` stay hand models tied by bitwise correspondence.  The numpy glue of the methods
    (workspace selection, `out=`, reshape, the loop over rotors) is modelled in `Model/Object`, not generated. -/
namespace GenFill
open Gen Model Spec FlatSteps GenH

/-- the generated `ϵ` is the model's -/
theorem eps_eq (m : Int) : Gen.ε m = Model.eps m := rfl

/-- `WignerHindex` of any `(m', m)` is `WignerHindex` of its wedge representative (the two H symmetries) -/
theorem hindex_rep (ell mp m : Int) (P : Option Int) :
    WignerHindex ell mp m P = WignerHindex ell (wedgeRep mp m).1 (wedgeRep mp m).2 P := by
  have hmem := Lemmas.wedgeRep_mem mp m
  have h1 := C11.hindex_symm ell mp m P
  have h2 := C11.hindex_symm ell m mp P
  simp only [List.mem_cons, List.mem_singleton, List.not_mem_nil, or_false] at hmem
  rcases hmem with e | e | e | e <;> rw [e]
  · exact h1.1
  · exact h1.2
  · rw [h1.1]; exact h2.2

/-- the wedge representative of `(m', m)`, `|m'|, |m| ≤ ell`, whose smaller order is within `P`, is a stored cell -/
theorem rep_valid (L P ell : Nat) (mp m : Int) (hl : ell ≤ L) (h1 : -(ell : Int) ≤ mp) (h2 : mp ≤ ell) (h3 : -(ell : Int) ≤ m)
    (h4 : m ≤ ell) (h5 : min (mp.natAbs) (m.natAbs) ≤ P) :
    Valid L P (.hw ell (wedgeRep mp m).1 (wedgeRep mp m).2.toNat) := by
  have ha := Lemmas.wedgeRep_abs mp m
  have hb := Lemmas.wedgeRep_bound mp m ell h1 h2 h3 h4
  have hmem := Lemmas.wedgeRep_mem mp m
  simp only [List.mem_cons, List.mem_singleton, List.not_mem_nil, or_false] at hmem
  refine ⟨hl, ?_⟩
  unfold InWedge
  rcases hmem with e | e | e | e <;> rw [e] at ha hb ⊢ <;> simp only [] at ha hb ⊢ <;> omega

section
variable {α : Type} [Scalar α] {φ : Type} [FMem φ α] [LawfulFMem φ α]

/-- what the model's `Hat` reads from the hybrid memory after the generated `Wigner.H` -/
theorem hat_gen (L P : Nat) (c s : α) (a b d g h : Int → α) (ht : TabOK L a b d g h) (F : φ) (J : Loc → α)
    (ell : Nat) (mp m : Int) (hl : ell ≤ L) (h1 : -(ell : Int) ≤ mp) (h2 : mp ≤ ell) (h3 : -(ell : Int) ≤ m) (h4 : m ≤ ell)
    (h5 : min (mp.natAbs) (m.natAbs) ≤ P) :
    Model.Hat (α := α) (Model.runH (α := α) L P c s (⟨F, J⟩ : Hyb L P φ α)) ell mp m
      = frd (α := α) (Gen.Wigner_H (α := α) g h (L : Int) (P : Int) a b d ⟨c, s⟩ idW idV idX F) idW
          (WignerHindex (ell : Int) mp m (some (P : Int))) := by
  unfold Model.Hat
  simp only []
  rw [genH_sim L P c s a b d g h ht F J, hindex_rep]
  have hb := Lemmas.wedgeRep_abs mp m
  have e : (((wedgeRep mp m).2.toNat : Nat) : Int) = (wedgeRep mp m).2 := by omega
  exact rd_valid _ _ _ idW _ (rep_valid L P ell mp m hl h1 h2 h3 h4 h5) (by simp only [lay, e])

/-- **`Wigner.d`, kernel level, from the Python text.** -/
theorem gen_d_entry (L : Nat) (ell_min : Int) (dId : Nat) (c s : α) (a b d g h : Int → α) (ht : TabOK L a b d g h)
    (F : φ) (J : Loc → α) (h0 : 0 ≤ ell_min) (ell : Nat) (mp m : Int) (h1 : ell_min ≤ ell) (hl : ell ≤ L)
    (hp1 : -(ell : Int) ≤ mp) (hp2 : mp ≤ ell) (hm1 : -(ell : Int) ≤ m) (hm2 : m ≤ ell) :
    let stH := Gen.Wigner_H (α := α) g h (L : Int) (L : Int) a b d ⟨c, s⟩ idW idV idX F
    frd (α := α) (Gen.u_fill_wigner_d (α := α) ell_min (L : Int) (L : Int) dId (fun i => frd (α := α) stH idW i) stH) dId
        (WignerDindex (ell : Int) mp m ell_min (-1))
      = Model.dEntry (α := α) (Model.runH (α := α) L L c s (⟨F, J⟩ : Hyb L L φ α)) ell mp m := by
  intro stH
  rw [fill_d_entry ell_min L L dId _ stH h0 ell mp m h1 (by omega) hp1 hp2 hm1 hm2]
  unfold Model.dEntry
  rw [hat_gen L L c s a b d g h ht F J ell mp m hl hp1 hp2 hm1 hm2 (by omega)]
  rfl

/-- **`Wigner.D`, kernel level, from the Python text**; `za`, `zg` are the phase-power arrays `zₐpowers[0]`, `zᵧpowers[0]` -/
theorem gen_D_entry (L : Nat) (ell_min : Int) (DId : Nat) (c s : α) (a b d g h : Int → α) (ht : TabOK L a b d g h)
    (za zg : Array (Cx α)) (F : φ) (J : Loc → α) (h0 : 0 ≤ ell_min) (ell : Nat) (mp m : Int) (h1 : ell_min ≤ ell) (hl : ell ≤ L)
    (hp1 : -(ell : Int) ≤ mp) (hp2 : mp ≤ ell) (hm1 : -(ell : Int) ≤ m) (hm2 : m ≤ ell) :
    let stH := Gen.Wigner_H (α := α) g h (L : Int) (L : Int) a b d ⟨c, s⟩ idW idV idX F
    frdC (α := α) (Gen.u_fill_wigner_D (α := α) ell_min (L : Int) (L : Int) DId (fun i => frd (α := α) stH idW i)
        (fun i => Model.cget za i.toNat) (fun i => Model.cget zg i.toNat) stH) DId (WignerDindex (ell : Int) mp m ell_min (-1))
      = Model.DEntry (α := α) (Model.runH (α := α) L L c s (⟨F, J⟩ : Hyb L L φ α)) za zg ell mp m := by
  intro stH
  rw [fill_D_entry ell_min L L DId _ _ _ stH h0 ell mp m h1 (by omega) hp1 hp2 hm1 hm2]
  unfold Model.DEntry
  rw [hat_gen L L c s a b d g h ht F J ell mp m hl hp1 hp2 hm1 hm2 (by omega)]
  rfl

/-- **`Wigner.sYlm`, kernel level, from the Python text**, for a calculator with `mp_max = P ≥ |s|` (the method's guard);
    `zgpow` is `z[2]**abs(s)`.  Covers the zero prefix `ell < |s|` as well. -/
theorem gen_Y_entry (L P : Nat) (ell_min : Int) (YId : Nat) (sw : Int) (c s : α) (a b d g h : Int → α) (ht : TabOK L a b d g h)
    (za : Array (Cx α)) (zgpow : Cx α) (F : φ) (J : Loc → α) (h0 : 0 ≤ ell_min) (hs : sw.natAbs ≤ P)
    (hsL : max ((sw.natAbs : Nat) : Int) ell_min ≤ (L : Int) + 1)
    (ell : Nat) (m : Int) (h1 : ell_min ≤ ell) (hl : ell ≤ L) (hm1 : -(ell : Int) ≤ m) (hm2 : m ≤ ell) :
    let stH := Gen.Wigner_H (α := α) g h (L : Int) (P : Int) a b d ⟨c, s⟩ idW idV idX F
    frdC (α := α) (Gen.u_fill_sYlm (α := α) ell_min (L : Int) (P : Int) sw YId (fun i => frd (α := α) stH idW i)
        (fun i => Model.cget za i.toNat) zgpow stH) YId (Yindex (ell : Int) m ell_min)
      = Model.sYlmEntry (α := α) (Model.runH (α := α) L P c s (⟨F, J⟩ : Hyb L P φ α)) za zgpow sw ell m := by
  intro stH
  unfold Model.sYlmEntry
  by_cases hlow : (ell : Int) < (sw.natAbs : Int)
  · rw [if_pos hlow, fill_sYlm_low ell_min L P sw YId _ _ zgpow stH h0 ell m h1 (by omega) hsL hm1 hm2]
    rfl
  · rw [if_neg hlow, fill_sYlm_entry ell_min L P sw YId _ _ zgpow stH h0 ell m (by omega) (by omega) hm1 hm2]
    simp only []
    rw [hat_gen L P c s a b d g h ht F J ell m (-sw) hl hm1 hm2 (by omega) (by omega) (by omega)]
    by_cases hm : m < 0
    · simp only [hm, if_true]
      by_cases h0s : 0 ≤ sw
      · have : sw ≥ 0 := h0s
        simp only [this, h0s, if_true]; rfl
      · have : ¬ (sw ≥ 0) := h0s
        simp only [this, h0s, if_false]; rfl
    · simp only [hm, if_false]
      by_cases h0s : 0 ≤ sw
      · have : sw ≥ 0 := h0s
        simp only [this, h0s, if_true]; rfl
      · have : ¬ (sw ≥ 0) := h0s
        simp only [this, h0s, if_false]; rfl

end

/-! ### one consequence spelled out: the generated `Wigner.d` computes the documented Wigner d (exact arithmetic) -/

/-- For every `ell_max = L`, every `ell_min ≤ ell ≤ L`, every `|m'|, |m| ≤ ell` and every rotation angle (`ch`, `sh` =
    cos β/2, sin β/2): the cell `d[WignerDindex(ell, m', m, ell_min)]` left by the GENERATED `_step_1 … _step_5` and
    `_fill_wigner_d` is the documented d^ell_{m', m}(β). -/
theorem gen_d_eq_docd {φ : Type} [FMem φ ℝ] [LawfulFMem φ ℝ] (ch sh : ℝ) (hcs : ch ^ 2 + sh ^ 2 = 1) (L : Nat) (ell_min : Int)
    (dId : Nat) (a b d g h : Int → ℝ) (ht : TabOK L a b d g h) (F : φ) (h0 : 0 ≤ ell_min) (ell : Nat) (mp m : Int)
    (h1 : ell_min ≤ ell) (hl : ell ≤ L) (hmp : mp.natAbs ≤ ell) (hm : m.natAbs ≤ ell) :
    let stH := Gen.Wigner_H (α := ℝ) g h (L : Int) (L : Int) a b d ⟨ch ^ 2 - sh ^ 2, 2 * ch * sh⟩ idW idV idX F
    frd (α := ℝ) (Gen.u_fill_wigner_d (α := ℝ) ell_min (L : Int) (L : Int) dId (fun i => frd (α := ℝ) stH idW i) stH) dId
        (WignerDindex (ell : Int) mp m ell_min (-1))
      = DocD.docd ch sh ell mp m := by
  intro stH
  rw [gen_d_entry L ell_min dId _ _ a b d g h ht F (fun _ => 0) h0 ell mp m h1 hl (by omega) (by omega) (by omega) (by omega)]
  exact DocD.objd_eq_docd ch sh hcs L (⟨F, fun _ => 0⟩ : Hyb L L φ ℝ) ell hl mp m hmp hm

end GenFill
