import SphericalVerif.Spec.Orderings
import Mathlib.Tactic.Ring
import Mathlib.Tactic.Linarith
import Mathlib.Tactic.NormNum

/-! Generic facts about `Spec.irange` and about positions in `flatMap`s over an `irange`.
    The workhorse is `flatMap_irange`: if `S` is a "running total" function for the block lengths
    of `f` over `lo..hi`, then `S` gives the total length and the offset of every block. -/
namespace Lemmas
open Spec

theorem length_irange (lo hi : Int) : (irange lo hi).length = (hi + 1 - lo).toNat := by
  simp [irange]

theorem length_irange_int (lo hi : Int) (h : lo ≤ hi + 1) :
    ((irange lo hi).length : Int) = hi + 1 - lo := by
  rw [length_irange]; omega

theorem getElem?_irange (lo hi : Int) (k : Nat) (h : k < (hi + 1 - lo).toNat) :
    (irange lo hi)[k]? = some (lo + (k : Int)) := by
  simp [irange, h]

theorem irange_empty (lo hi : Int) (h : hi < lo) : irange lo hi = [] := by
  have : (hi + 1 - lo).toNat = 0 := by omega
  simp [irange, this]

theorem irange_succ (lo hi : Int) (h : lo ≤ hi + 1) :
    irange lo (hi + 1) = irange lo hi ++ [hi + 1] := by
  have e : (hi + 1 + 1 - lo).toNat = (hi + 1 - lo).toNat + 1 := by omega
  have e2 : lo + max (hi + 1 - lo) 0 = hi + 1 := by omega
  simp [irange, e, List.range_succ, e2]

/-- position `j` in the mapped range -/
theorem getElem?_map_irange {β} (g : Int → β) (lo hi x : Int) (h1 : lo ≤ x) (h2 : x ≤ hi) :
    ((irange lo hi).map g)[(x - lo).toNat]? = some (g x) := by
  have hk : (x - lo).toNat < (hi + 1 - lo).toNat := by omega
  rw [List.getElem?_map, getElem?_irange lo hi _ hk]
  have : lo + max (x - lo) 0 = x := by omega
  simp [this]

/-- Main structural lemma, Nat-indexed form: for `hi = lo + n - 1`. -/
theorem flatMap_irange_aux {α} (f : Int → List α) (S : Int → Int) (lo : Int) (h0 : S lo = 0) :
    ∀ n : Nat,
      (∀ k, lo ≤ k → k ≤ lo + n - 1 → S (k + 1) = S k + ((f k).length : Int)) →
      (((irange lo (lo + n - 1)).flatMap f).length : Int) = S (lo + n) ∧
      ∀ k, lo ≤ k → k ≤ lo + n - 1 → ∀ j : Nat, j < (f k).length →
        0 ≤ S k ∧ S k + j < S (lo + n) ∧
        ((irange lo (lo + n - 1)).flatMap f)[(S k + j).toNat]? = (f k)[j]? := by
  intro n
  induction n with
  | zero =>
    intro _
    refine ⟨?_, ?_⟩
    · rw [irange_empty _ _ (by omega)]; simp [h0]
    · intro k h1 h2; exfalso; omega
  | succ n ih =>
    intro hstep
    have ih' := ih (fun k h1 h2 => hstep k h1 (by omega))
    obtain ⟨ihlen, ihget⟩ := ih'
    have hr : irange lo (lo + ((n + 1 : Nat) : Int) - 1) = irange lo (lo + n - 1) ++ [lo + n] := by
      have := irange_succ lo (lo + n - 1) (by omega)
      have e : lo + (n : Int) - 1 + 1 = lo + n := by omega
      rw [e] at this
      have e' : lo + ((n + 1 : Nat) : Int) - 1 = lo + n := by push_cast; omega
      rw [e']; exact this
    have hlast := hstep (lo + n) (by omega) (by push_cast; omega)
    have hcast : lo + ((n + 1 : Nat) : Int) = lo + n + 1 := by push_cast; omega
    rw [hr, hcast]
    simp only [List.flatMap_append, List.flatMap_cons, List.flatMap_nil, List.append_nil,
      List.length_append]
    refine ⟨?_, ?_⟩
    · rw [hlast]; push_cast; omega
    · intro k h1 h2 j hj
      by_cases hk : k ≤ lo + n - 1
      · obtain ⟨a, b, c⟩ := ihget k h1 hk j hj
        refine ⟨a, ?_, ?_⟩
        · rw [hlast]; omega
        · rw [List.getElem?_append_left (by omega)]; exact c
      · have hk' : k = lo + n := by omega
        subst hk'
        have hnn : 0 ≤ S (lo + n) := by rw [← ihlen]; omega
        refine ⟨hnn, ?_, ?_⟩
        · rw [hlast]; omega
        · have e : (S (lo + n) + j).toNat = ((irange lo (lo + n - 1)).flatMap f).length + j := by
            omega
          rw [e, List.getElem?_append_right (by omega)]
          simp

/-- Length of a `flatMap` over `irange lo hi` via a running-total function `S`. -/
theorem flatMap_irange_length {α} (f : Int → List α) (S : Int → Int) (lo hi : Int)
    (hlh : lo ≤ hi + 1) (h0 : S lo = 0)
    (hstep : ∀ k, lo ≤ k → k ≤ hi → S (k + 1) = S k + ((f k).length : Int)) :
    (((irange lo hi).flatMap f).length : Int) = S (hi + 1) := by
  have e : hi = lo + ((hi + 1 - lo).toNat : Int) - 1 := by omega
  have := (flatMap_irange_aux f S lo h0 (hi + 1 - lo).toNat (by rw [← e]; exact hstep)).1
  rw [← e] at this
  rw [this]; congr 1; omega

/-- Element of a `flatMap` over `irange lo hi`: block `k` starts at offset `S k`. -/
theorem flatMap_irange_get {α} (f : Int → List α) (S : Int → Int) (lo hi : Int)
    (h0 : S lo = 0)
    (hstep : ∀ k, lo ≤ k → k ≤ hi → S (k + 1) = S k + ((f k).length : Int))
    (k : Int) (h1 : lo ≤ k) (h2 : k ≤ hi) (j : Int) (hj0 : 0 ≤ j) (hj : j < ((f k).length : Int)) :
    0 ≤ S k ∧ S k + j < S (hi + 1) ∧
      ((irange lo hi).flatMap f)[(S k + j).toNat]? = (f k)[j.toNat]? := by
  have e : hi = lo + ((hi + 1 - lo).toNat : Int) - 1 := by omega
  have := (flatMap_irange_aux f S lo h0 (hi + 1 - lo).toNat (by rw [← e]; exact hstep)).2
    k h1 (by omega) j.toNat (by omega)
  rw [← e] at this
  have e2 : lo + ((hi + 1 - lo).toNat : Int) = hi + 1 := by omega
  rw [e2] at this
  have e3 : ((j.toNat : Nat) : Int) = j := by omega
  rw [e3] at this
  exact this

end Lemmas
