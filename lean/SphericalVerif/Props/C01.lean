import SphericalVerif.Gen.Indexing
import SphericalVerif.Model.Assemble
/-! C01 — Wigner D and d equal their definition.  Property theorems specific to C01
    (the refinement of the H recursion is in Props/HKernel.lean, the assembly identities in Props/Routes.lean). -/
namespace C01
open Model

/-- the hand model's ϵ is the generated (re-translated every run) ϵ of spherical/recursions/wignerH.py -/
theorem eps_eq_gen (m : Int) : Model.eps m = Gen.ε m := by
  unfold Model.eps Gen.ε
  by_cases h : m ≤ 0
  · simp [h]
  · simp [h]

/-- Every d entry is ±(the H value of the symmetry representative): the assembly never mixes entries
    (for every arithmetic, in particular IEEE doubles). -/
theorem dEntry_formula {α μ : Type} [Scalar α] [Mem μ α] (st : μ) (ell : Nat) (mp m : Int) :
    dEntry (α := α) st ell mp m
      = Scalar.mul (Scalar.ofInt (eps mp * eps (-m))) (rd st (.hw ell (Spec.wedgeRep mp m).1 (Spec.wedgeRep mp m).2.toNat)) := rfl

end C01
