import Std.Data.HashMap
/-! Common vocabulary of the hand-written executable models (core Lean + Std only, no Mathlib):
    an abstract scalar (so that the same definitions run at `Float`, bit for bit against the numba
    kernels, and are reasoned about for *every* deterministic arithmetic), complex numbers as numba
    computes them, a counted loop, and an abstract memory addressed by coordinates. -/

/-- The arithmetic the kernels use.  No laws are assumed: every data-flow theorem holds for any
    instance, in particular for IEEE doubles (`Float`). -/
class Scalar (α : Type) where
  add : α → α → α
  sub : α → α → α
  mul : α → α → α
  div : α → α → α
  neg : α → α
  sqrt : α → α
  abs : α → α
  ofInt : Int → α
  /-- 0.5 -/
  half : α
  /-- the module constant `inverse_4pi = 1.0 / (4 * np.pi)` of spherical/wigner.py -/
  inv4pi : α
  lt : α → α → Bool
  le : α → α → Bool
  beq : α → α → Bool

/-- `1.0 / (4 * np.pi)` as a double: 0x3FB45F306DC9C883 -/
def inv4piFloat : Float := Float.ofBits 0x3FB45F306DC9C883

instance : Scalar Float where
  add := (· + ·)
  sub := (· - ·)
  mul := (· * ·)
  div := (· / ·)
  neg := (- ·)
  sqrt := Float.sqrt
  abs := Float.abs
  ofInt := Float.ofInt
  half := 0.5
  inv4pi := inv4piFloat
  lt a b := decide (a < b)
  le a b := decide (a ≤ b)
  beq a b := a == b

infixl:65 " +. " => Scalar.add
infixl:65 " -. " => Scalar.sub
infixl:70 " *. " => Scalar.mul
infixl:70 " /. " => Scalar.div

/-- counted loop: `body k` for k = 0 .. cnt-1 -/
def loopN {σ : Type} : Nat → (Nat → σ → σ) → σ → σ
  | 0, _, s => s
  | k+1, f, s => f k (loopN k f s)

/-- `while c: body` with a bound on the number of turns (`fuel`); the kernels' `while` loops end long before it -/
def loopWhile {σ : Type} : Nat → (σ → Bool) → (σ → σ) → σ → σ
  | 0, _, _, s => s
  | k+1, c, f, s => if c s then loopWhile k c f (f s) else s

/-- invariant rule for `loopN` -/
theorem loopN_inv {σ : Type} (P : Nat → σ → Prop) (cnt : Nat) (f : Nat → σ → σ) (s : σ)
    (h0 : P 0 s) (hs : ∀ k s, k < cnt → P k s → P (k+1) (f k s)) : P cnt (loopN cnt f s) := by
  induction cnt with
  | zero => exact h0
  | succ n ih =>
    simp only [loopN]
    apply hs n _ (Nat.lt_succ_self n)
    exact ih (fun k s hk hp => hs k s (Nat.lt_succ_of_lt hk) hp)

/-- A cell of the H workspace, named by its coordinates (not by a flat index):
    `hw n m' m` = `Hwedge[WignerHindex(n, m', m, mp_max)]`, `hv n m` = `Hv[nm_index(n, m)]`,
    `hx m` = `Hextra[m]`. -/
inductive Loc where
  | hw (n : Nat) (mp : Int) (m : Nat)
  | hv (n : Nat) (m : Int)
  | hx (m : Nat)
  deriving DecidableEq, Hashable, Repr

class Mem (μ : Type) (α : Type) where
  get : μ → Loc → α
  set : μ → Loc → α → μ

/-- a memory is lawful when `set` changes exactly the addressed cell -/
class LawfulMem (μ : Type) (α : Type) [Mem μ α] : Prop where
  get_set : ∀ (st : μ) (l l' : Loc) (v : α), Mem.get (Mem.set st l v) l' = if l' = l then v else Mem.get st l'

/-- reference memory: plain functions -/
instance {α : Type} : Mem (Loc → α) α where
  get st l := st l
  set st l v := fun l' => if l' = l then v else st l'

instance {α : Type} : LawfulMem (Loc → α) α where
  get_set _ _ _ _ := rfl

/-- executable memory: hash map with a default for never-written cells -/
structure HMem (α : Type) where
  map : Std.HashMap Loc α
  dflt : α

instance {α : Type} : Mem (HMem α) α where
  get st l := st.map.getD l st.dflt
  set st l v := { st with map := st.map.insert l v }

instance {α : Type} : LawfulMem (HMem α) α where
  get_set st l l' v := by
    show (st.map.insert l v).getD l' st.dflt = if l' = l then v else st.map.getD l' st.dflt
    rw [Std.HashMap.getD_insert]
    by_cases h : l' = l
    · subst h; simp
    · have : (l == l') = false := by
        simp only [beq_eq_false_iff_ne, ne_eq]; exact fun e => h e.symm
      simp [this, h]

section
variable {α : Type} [Scalar α] {μ : Type} [Mem μ α]
def rd (st : μ) (l : Loc) : α := Mem.get st l
def wr (st : μ) (l : Loc) (v : α) : μ := Mem.set st l v
def one : α := Scalar.ofInt 1
def zero : α := Scalar.ofInt 0
end

/-- Complex numbers as pairs, with the arithmetic numba emits (no C99 NaN recovery, no FMA). -/
structure Cx (α : Type) where
  re : α
  im : α
  deriving Repr

namespace Cx
variable {α : Type} [Scalar α]
def ofRe (x : α) : Cx α := ⟨x, zero⟩
def conj (z : Cx α) : Cx α := ⟨z.re, Scalar.neg z.im⟩
/-- `-z` (`np.negative` / unary minus on a complex number): both components negated -/
def neg (z : Cx α) : Cx α := ⟨Scalar.neg z.re, Scalar.neg z.im⟩
def add (a b : Cx α) : Cx α := ⟨a.re +. b.re, a.im +. b.im⟩
def sub (a b : Cx α) : Cx α := ⟨a.re -. b.re, a.im -. b.im⟩
/-- (a+bi)(c+di) = (ac − bd) + (ad + bc)i, in this operation order -/
def mul (a b : Cx α) : Cx α := ⟨(a.re *. b.re) -. (a.im *. b.im), (a.re *. b.im) +. (a.im *. b.re)⟩
/-- real * complex: numba promotes the real to `x + 0j` and multiplies -/
def rmul (x : α) (b : Cx α) : Cx α := mul (ofRe x) b
def mulr (a : Cx α) (x : α) : Cx α := mul a (ofRe x)
/-- numba's complex division (the CPython algorithm) -/
def div (a b : Cx α) : Cx α :=
  if Scalar.le (Scalar.abs b.im) (Scalar.abs b.re) then
    let ratio := b.im /. b.re
    let denom := b.re +. (b.im *. ratio)
    ⟨(a.re +. (a.im *. ratio)) /. denom, (a.im -. (a.re *. ratio)) /. denom⟩
  else
    let ratio := b.re /. b.im
    let denom := (b.re *. ratio) +. b.im
    ⟨((a.re *. ratio) +. a.im) /. denom, ((a.im *. ratio) -. a.re) /. denom⟩
def I : Cx α := ⟨zero, one⟩
def oneC : Cx α := ⟨one, zero⟩
end Cx
