import SphericalVerif.Lemmas.Grid
import SphericalVerif.Lemmas.Modes
/-! C18 — copying and pickling preserve data and metadata, independently.

    Property theorems only (helpers: `Lemmas/Grid.lean`).

    ## GRID SECTION

    Statements are about the model of `Grid.__array_finalize__`, `Grid.__reduce__`, `Grid.__setstate__`
    in `Model/Grid.lean` (section "copy / pickle hooks"), run on a small object heap in which metadata
    dicts, the objects stored as their values, and data buffers all have identities.  The correspondence
    harness `vlib/glue_grid.py` (kind `grid-copy`) checks on real `spherical.Grid` objects, for every route
    and pickle protocol, (a) that the route triggers exactly the hook sequence `Route.hooks`, and (b) every
    observable the theorems speak about (class, spin weight, keys, values, `is`-identity of the dicts and
    of the value objects, shared memory, and visibility of later mutations in both directions).

    Routes (as observed on numpy 2.x): `obj.copy()`, `copy.copy(obj)` and `np.array(obj, copy=True, subok=True)`
    allocate a new array of the same class and call `__array_finalize__(new, obj)` (ndarray defines `__copy__`);
    `copy.deepcopy(obj)` goes through `Grid.__deepcopy__`, which does the same via `ndarray.__deepcopy__` and then
    replaces the new object's `_metadata` by `copy.deepcopy` of the original's; pickling goes through
    `__reduce__` / `_reconstruct` / `__setstate__`.

    Reading guide: `Live h o d c` — `o` is a live object of heap `h` whose `_metadata` is the dict with
    identity `d` and contents `c` (`c.spin` = the `spin_weight` entry, `c.extra` = the other entries as
    `(key, identity of the value object)`); `copyVia r h o` = (the copy, the heap afterwards);
    `IndependentCopy h o d c o' h' d' c'` (defined in `Lemmas/Grid.lean`) bundles: same class, `o'._metadata` is the
    dict `d' ≠ d` with contents `c'` of equal spin weight, equal keys and equal values; a different data
    buffer with equal bytes; original dict, values and data unchanged. -/
namespace C18
open Model.Grid

/-- Every copy route — `obj.copy()`, `copy.copy`, `copy.deepcopy`, `np.array(copy=True, subok=True)`, pickle with any
    protocol — preserves the class, the spin weight, the extra metadata (keys and values) and the data, and the
    copy's `_metadata` is a DIFFERENT dict object and its data a DIFFERENT buffer. -/
theorem grid_copy_preserves (r : Route) (h : Heap) (o : AObj) (d : Nat) (c : DictC) (hl : Live h o d c) :
    ∃ d' c',
      (copyVia r h o).1.cls = o.cls ∧
      (copyVia r h o).1.md = some d' ∧ d' ≠ d ∧ (copyVia r h o).2.dict d' = some c' ∧
      c'.spin = c.spin ∧
      c'.extra.map (·.1) = c.extra.map (·.1) ∧
      entryVals (copyVia r h o).2 c'.extra = entryVals h c.extra ∧
      (copyVia r h o).1.buf ≠ o.buf ∧ (copyVia r h o).2.buf (copyVia r h o).1.buf = h.buf o.buf := by
  obtain ⟨d', c', ic, _⟩ := route_spec r hl
  exact ⟨d', c', ic.cls, ic.md, ic.dict_ne, ic.dict, ic.spin, ic.keys, ic.values, ic.buf_ne, ic.data⟩

/-- a live Grid of spin weight 2 with one extra entry `note ↦ (value object 1)` and data buffer 2 -/
example : Live ⟨fun i => if i = 0 then some ⟨some 2, [("note", 1)]⟩ else none, fun i => if i = 1 then some "v" else none,
      fun i => if i = 2 then some 42 else none, 3⟩ ⟨.Grid, 2, some 0⟩ 0 ⟨some 2, [("note", 1)]⟩ :=
  ⟨rfl, rfl, by decide, by decide, by simp, by simp, rfl⟩

/-- Copying does not disturb the original, and afterwards the two sides are independent: rebinding or updating
    entries of either side's `_metadata` dict, or overwriting either side's data, is invisible on the other side. -/
theorem grid_copy_independent (r : Route) (h : Heap) (o : AObj) (d : Nat) (c : DictC) (hl : Live h o d c) :
    ∃ d' c', (copyVia r h o).1.md = some d' ∧ (copyVia r h o).2.dict d' = some c' ∧
      -- the original after the copy was made
      (copyVia r h o).2.dict d = some c ∧ (copyVia r h o).2.buf o.buf = h.buf o.buf ∧
      entryVals (copyVia r h o).2 c.extra = entryVals h c.extra ∧
      -- mutate the copy's dict / data: the original is unaffected
      (∀ x, ((copyVia r h o).2.setDict d' x).dict d = some c) ∧
      (∀ v, ((copyVia r h o).2.setBuf (copyVia r h o).1.buf v).buf o.buf = h.buf o.buf) ∧
      -- mutate the original's dict / data: the copy is unaffected
      (∀ x, ((copyVia r h o).2.setDict d x).dict d' = some c') ∧
      (∀ v, ((copyVia r h o).2.setBuf o.buf v).buf (copyVia r h o).1.buf = h.buf o.buf) := by
  obtain ⟨d', c', ic, _⟩ := route_spec r hl
  obtain ⟨m1, m2, m3, m4⟩ := ic.mutations hl.dict
  exact ⟨d', c', ic.md, ic.dict, by rw [ic.orig_dict, hl.dict], ic.orig_buf, ic.orig_vals, m1, m3, m2, m4⟩

example :=
  grid_copy_independent (.pickle 2)
    (⟨fun i => if i = 0 then some ⟨some 2, [("note", 1)]⟩ else none, fun i => if i = 1 then some "v" else none,
      fun i => if i = 2 then some 42 else none, 3⟩ : Heap)
    ⟨.Grid, 2, some 0⟩ 0 ⟨some 2, [("note", 1)]⟩ ⟨rfl, rfl, by decide, by decide, by simp, by simp, rfl⟩

/-- Pickling is a DEEP copy of the metadata: every value object of the unpickled Grid's dict is a new object
    (`__setstate__` deep-copies the unpickled dict), so even mutating a value in place cannot leak across. -/
theorem grid_pickle_is_deep (p : Nat) (h : Heap) (o : AObj) (d : Nat) (c : DictC) (hl : Live h o d c) :
    ∃ d' c', (copyVia (.pickle p) h o).1.md = some d' ∧ (copyVia (.pickle p) h o).2.dict d' = some c' ∧
      ∀ e' ∈ c'.extra, ∀ e ∈ c.extra, e'.2 ≠ e.2 := by
  obtain ⟨d', c', ic, hf⟩ := pickle_route_spec p hl
  refine ⟨d', c', ic.md, ic.dict, fun e' he' e he => ?_⟩
  have h1 := hf e' he'
  have h2 := hl.vlt e he
  omega

/-- `copy.deepcopy(grid)` is a DEEP copy of the metadata as well (`Grid.__deepcopy__` replaces the shallow dict made by
    `__array_finalize__` with `copy.deepcopy(self._metadata, memo)`): every value object of the copy's dict is a new
    object, so mutating a value in place cannot leak across. -/
theorem grid_deepcopy_is_deep (h : Heap) (o : AObj) (d : Nat) (c : DictC) (hl : Live h o d c) :
    ∃ d' c', (copyVia .copyDeepcopy h o).1.md = some d' ∧ (copyVia .copyDeepcopy h o).2.dict d' = some c' ∧
      ∀ e' ∈ c'.extra, ∀ e ∈ c.extra, e'.2 ≠ e.2 := by
  obtain ⟨d', c', ic, hf⟩ := deepcopy_route_spec hl
  refine ⟨d', c', ic.md, ic.dict, fun e' he' e he => ?_⟩
  have h1 := hf e' he'
  have h2 := hl.vlt e he
  omega

/-- The three remaining routes — `obj.copy()`, `copy.copy`, `np.array(copy=True, subok=True)` — go through
    `__array_finalize__` only, whose `copy.copy` of the dict is SHALLOW: the copy's dict holds the very same value
    objects as the original's.  (Allowed by C18, which speaks about the dicts and the data.) -/
theorem grid_finalize_routes_shallow (r : Route) (hr : r.deep = false) (h : Heap) (o : AObj) (d : Nat) (c : DictC)
    (hl : Live h o d c) :
    ∃ d', (copyVia r h o).1.md = some d' ∧ d' ≠ d ∧ (copyVia r h o).2.dict d' = some c := by
  have ic := (finalize_route_spec r hr hl).1
  exact ⟨_, ic.md, ic.dict_ne, ic.dict⟩

example : Route.objCopy.deep = false ∧ Route.copyCopy.deep = false ∧ Route.npArraySubok.deep = false
    ∧ Route.copyDeepcopy.deep = true ∧ ∀ p, (Route.pickle p).deep = true := ⟨rfl, rfl, rfl, rfl, fun _ => rfl⟩

/-- The hook sequence of each route (checked against the real class by the `grid-copy` correspondence). -/
theorem grid_route_hooks :
    Route.objCopy.hooks = [.finalizeFrom] ∧ Route.copyCopy.hooks = [.finalizeFrom] ∧
    Route.copyDeepcopy.hooks = [.deepcopy, .finalizeFrom] ∧ Route.npArraySubok.hooks = [.finalizeFrom] ∧
    ∀ p, (Route.pickle p).hooks = [.reduce, .finalizeNone, .setstate] :=
  ⟨rfl, rfl, rfl, rfl, fun _ => rfl⟩

/-- `__array_finalize__` with `obj = None` (explicit construction, unpickling before `__setstate__`) leaves the object
    without `_metadata`; with an `obj` that has no `_metadata` (a plain ndarray viewed as Grid) it creates a fresh dict
    whose `spin_weight` is `None`. -/
theorem grid_finalize_edge_cases (h : Heap) (self : AObj) :
    arrayFinalize h self none = (self, h) ∧
    ∀ src : AObj, src.md = none →
      (arrayFinalize h self (some src)).1.md = some h.next ∧
      (arrayFinalize h self (some src)).2.dict h.next = some ⟨none, []⟩ := by
  refine ⟨rfl, fun src hs => ?_⟩
  simp [arrayFinalize, Heap.shallowCopy, hs, Heap.setDict]

example : (⟨.ndarray, 0, none⟩ : AObj).md = none := rfl

-- MODES SECTION BELOW

/-! ## MODES SECTION

    Statements are about the model of `Modes.__array_finalize__`, `Modes.__reduce__`, `Modes.__setstate__` in
    `Model/Modes.lean` (section "copy / pickle hooks"): a heap `Model.Modes.Heap` in which metadata dicts, the
    mutable objects stored as their values, and data buffers have identities.  `h.Live obj`: the identities of
    `obj` are allocated in `h`.  `sameValue h v h' v'`: equal as Python values (same atom, or mutable objects of
    equal content).  The correspondence harness `vlib/glue_modes.py` (lines `copy <route> …`) checks on real
    `spherical.Modes` objects, for every route and pickle protocol: class, shared memory, `is`-identity of the
    dicts and of a nested value, and every key / value of both dicts afterwards. -/

/-- Every copy route — `obj.copy()`, `copy.copy`, `copy.deepcopy`, `np.array(copy=True, subok=True)`, pickle with any
    protocol — returns a Modes whose data is a NEW buffer with equal content and whose `_metadata` is a NEW dict in
    which every key of the original (`spin_weight`, `ell_max`, `multiplication_truncator`, anything else) has an
    equal value. -/
theorem modes_copy_preserves (r : Model.Modes.Route) (h : Model.Modes.Heap) (obj : Model.Modes.PyObj)
    (hc : obj.cls = Model.Modes.Cls.modes) (hl : h.Live obj) :
    (Model.Modes.copyRoute r h obj).2.cls = Model.Modes.Cls.modes
    ∧ (Model.Modes.copyRoute r h obj).2.buf ≠ obj.buf
    ∧ (Model.Modes.copyRoute r h obj).1.bufs (Model.Modes.copyRoute r h obj).2.buf = h.bufs obj.buf
    ∧ (Model.Modes.copyRoute r h obj).2.dict ≠ obj.dict
    ∧ ∀ k v, h.lookup obj.dict k = some v →
        ∃ v', (Model.Modes.copyRoute r h obj).1.lookup (Model.Modes.copyRoute r h obj).2.dict k = some v'
          ∧ Model.Modes.sameValue h v (Model.Modes.copyRoute r h obj).1 v' := by
  obtain ⟨hb, hd, hrf⟩ := hl
  cases hr : r.deep
  case true =>
    obtain ⟨e, b1, _, _, _, lk, _, _⟩ := Lemmas.Modes.deep_route_spec r hr h obj hc ⟨hb, hd, hrf⟩
    rw [e]
    refine ⟨rfl, by show h.nextBuf ≠ obj.buf; omega, b1, by show h.nextDict + 1 ≠ obj.dict; omega, ?_⟩
    intro k v hk
    obtain ⟨v', l', r'⟩ := lk k v hk
    exact ⟨v', l', r'.sameValue⟩
  case false =>
    obtain ⟨e, d1, _, hv, b1, _⟩ := Lemmas.Modes.finalize_route_spec r hr h obj
    rw [e]
    refine ⟨rfl, by show h.nextBuf ≠ obj.buf; omega, b1, by show h.nextDict ≠ obj.dict; omega, ?_⟩
    intro k v hk
    refine ⟨v, ?_, Lemmas.Modes.sameValue_refl_of_vals _ _ _ hv⟩
    show List.lookup k ((Model.Modes.copyRoute r h obj).1.dicts h.nextDict) = some v
    rw [d1, Lemmas.Modes.lookup_ensureKeys _ _ (by unfold Model.Modes.Heap.lookup at hk; rw [hk]; rfl)]
    exact hk

/-- a live Modes (spin weight -2, `ell_max` 3, truncator `max`, a nested mutable value) -/
example : ∃ (h : Model.Modes.Heap) (obj : Model.Modes.PyObj), obj.cls = Model.Modes.Cls.modes ∧ h.Live obj :=
  ⟨⟨fun i => if i = 0 then [("spin_weight", .int (-2)), ("ell_max", .int 3), ("multiplication_truncator", .fn "max"),
        ("note", .ref 0)] else [], fun _ => [7, 8], fun _ p => p, 1, 1, 1⟩, ⟨.modes, 0, 0⟩, rfl,
    by decide, by decide, by intro k id hm; simp at hm; rcases hm with ⟨_, rfl⟩; decide⟩

/-- Copying does not disturb the original, and afterwards the two sides are independent: setting a key of either
    `_metadata` dict, or overwriting either data buffer, is invisible on the other side. -/
theorem modes_copy_independent (r : Model.Modes.Route) (h : Model.Modes.Heap) (obj : Model.Modes.PyObj)
    (hc : obj.cls = Model.Modes.Cls.modes) (hl : h.Live obj) :
    -- the original after the copy was made
    (Model.Modes.copyRoute r h obj).1.dicts obj.dict = h.dicts obj.dict
    ∧ (Model.Modes.copyRoute r h obj).1.bufs obj.buf = h.bufs obj.buf
    ∧ (∀ i, i < h.nextVal → (Model.Modes.copyRoute r h obj).1.vals i = h.vals i)
    -- mutate the copy: the original is unaffected
    ∧ (∀ k v k', ((Model.Modes.copyRoute r h obj).1.setKey (Model.Modes.copyRoute r h obj).2.dict k v).lookup obj.dict k'
          = h.lookup obj.dict k')
    ∧ (∀ x, ((Model.Modes.copyRoute r h obj).1.fill (Model.Modes.copyRoute r h obj).2.buf x).bufs obj.buf
          = h.bufs obj.buf)
    -- mutate the original: the copy is unaffected
    ∧ (∀ k v k', ((Model.Modes.copyRoute r h obj).1.setKey obj.dict k v).lookup (Model.Modes.copyRoute r h obj).2.dict k'
          = (Model.Modes.copyRoute r h obj).1.lookup (Model.Modes.copyRoute r h obj).2.dict k')
    ∧ (∀ x, ((Model.Modes.copyRoute r h obj).1.fill obj.buf x).bufs (Model.Modes.copyRoute r h obj).2.buf
          = h.bufs obj.buf) := by
  obtain ⟨hb, hd, hrf⟩ := hl
  have key : (Model.Modes.copyRoute r h obj).2.dict ≠ obj.dict ∧ (Model.Modes.copyRoute r h obj).2.buf ≠ obj.buf
      ∧ (Model.Modes.copyRoute r h obj).1.dicts obj.dict = h.dicts obj.dict
      ∧ (Model.Modes.copyRoute r h obj).1.bufs obj.buf = h.bufs obj.buf
      ∧ (Model.Modes.copyRoute r h obj).1.bufs (Model.Modes.copyRoute r h obj).2.buf = h.bufs obj.buf
      ∧ (∀ i, i < h.nextVal → (Model.Modes.copyRoute r h obj).1.vals i = h.vals i) := by
    cases hr : r.deep
    case true =>
      obtain ⟨e, b1, b2, d2, _, _, _, vv⟩ := Lemmas.Modes.deep_route_spec r hr h obj hc ⟨hb, hd, hrf⟩
      rw [e]
      exact ⟨by show h.nextDict + 1 ≠ obj.dict; omega, by show h.nextBuf ≠ obj.buf; omega, d2 _ hd,
        b2 _ (by omega), b1, vv⟩
    case false =>
      obtain ⟨e, _, d2, hv, b1, b2⟩ := Lemmas.Modes.finalize_route_spec r hr h obj
      rw [e]
      exact ⟨by show h.nextDict ≠ obj.dict; omega, by show h.nextBuf ≠ obj.buf; omega, d2 _ (by omega),
        b2 _ (by omega), b1, fun i _ => by rw [hv]⟩
  obtain ⟨nd, nb, od, ob, cb, ov⟩ := key
  refine ⟨od, ob, ov, ?_, ?_, ?_, ?_⟩
  · intro k v k'
    rw [Lemmas.Modes.setKey_lookup_other_dict _ _ _ _ _ _ (Ne.symm nd)]
    unfold Model.Modes.Heap.lookup
    rw [od]
  · intro x
    simp only [Model.Modes.Heap.fill, if_neg (Ne.symm nb)]
    exact ob
  · intro k v k'
    exact Lemmas.Modes.setKey_lookup_other_dict _ _ _ _ _ _ nd
  · intro x
    simp only [Model.Modes.Heap.fill, if_neg nb]
    exact cb

example : ∃ (h : Model.Modes.Heap) (obj : Model.Modes.PyObj), obj.cls = Model.Modes.Cls.modes ∧ h.Live obj :=
  ⟨⟨fun _ => [("spin_weight", .int 1), ("ell_max", .int 2)], fun _ => [], fun _ p => p, 1, 0, 1⟩, ⟨.modes, 0, 0⟩,
    rfl, by decide, by decide, by intro k id hm; simp at hm⟩

/-- Pickling is a DEEP copy of the metadata: every mutable value of the unpickled Modes' dict is a new object
    (`__setstate__` deep-copies the unpickled dict), so mutating one in place cannot change any value that
    existed before. -/
theorem modes_pickle_is_deep (p : Nat) (h : Model.Modes.Heap) (obj : Model.Modes.PyObj) (hl : h.Live obj) :
    ∀ k id, (k, Model.Modes.Val.ref id) ∈
        (Model.Modes.copyRoute (.pickle p) h obj).1.dicts (Model.Modes.copyRoute (.pickle p) h obj).2.dict →
      h.nextVal ≤ id
      ∧ ∀ x i, i < h.nextVal → ((Model.Modes.copyRoute (.pickle p) h obj).1.mutate id x).vals i = h.vals i := by
  obtain ⟨e, _, _, _, _, _, fr, vv⟩ := Lemmas.Modes.pickle_spec h obj hl
  have e' : (Model.Modes.copyRoute (.pickle p) h obj) = Model.Modes.pickleRoundTrip h obj := rfl
  rw [e', e]
  intro k id hm
  have hf := fr k id hm
  refine ⟨hf, fun x i hi => ?_⟩
  simp only [Model.Modes.Heap.mutate, if_neg (show i ≠ id by omega)]
  exact vv i hi

/-- `copy.deepcopy(modes)` is DEEP on the metadata as well (`Modes.__deepcopy__` replaces the shallow dict made by
    `__array_finalize__` with `copy.deepcopy(self._metadata, memo)`): every mutable value of the copy's dict is a
    new object, so mutating one in place cannot change any value that existed before. -/
theorem modes_deepcopy_is_deep (h : Model.Modes.Heap) (obj : Model.Modes.PyObj) (hl : h.Live obj) :
    ∀ k id, (k, Model.Modes.Val.ref id) ∈
        (Model.Modes.copyRoute .deepCopy h obj).1.dicts (Model.Modes.copyRoute .deepCopy h obj).2.dict →
      h.nextVal ≤ id
      ∧ ∀ x i, i < h.nextVal → ((Model.Modes.copyRoute .deepCopy h obj).1.mutate id x).vals i = h.vals i := by
  obtain ⟨e, _, _, _, _, _, fr, vv⟩ := Lemmas.Modes.deepcopy_spec h obj hl
  have e' : (Model.Modes.copyRoute .deepCopy h obj) = Model.Modes.deepCopyHook h obj := rfl
  rw [e', e]
  intro k id hm
  have hf := fr k id hm
  refine ⟨hf, fun x i hi => ?_⟩
  simp only [Model.Modes.Heap.mutate, if_neg (show i ≠ id by omega)]
  exact vv i hi

/-- The three remaining routes — `obj.copy()`, `copy.copy`, `np.array(copy=True, subok=True)` — go through
    `__array_finalize__` only, whose `copy.copy` of the dict is SHALLOW: a mutable value of the original's dict is,
    in the copy's dict, the very same object, so mutating it in place through either side is visible on both.
    (Top-level keys and the data are independent by `modes_copy_independent`.) -/
theorem modes_finalize_routes_shallow (r : Model.Modes.Route) (hr : r.deep = false) (h : Model.Modes.Heap)
    (obj : Model.Modes.PyObj) (k : String) (id : Nat) (hk : h.lookup obj.dict k = some (.ref id)) :
    (Model.Modes.copyRoute r h obj).1.lookup (Model.Modes.copyRoute r h obj).2.dict k = some (.ref id)
    ∧ ∀ x, ((Model.Modes.copyRoute r h obj).1.mutate id x).vals id = h.vals id ++ [x] := by
  obtain ⟨e, d1, _, hv, _, _⟩ := Lemmas.Modes.finalize_route_spec r hr h obj
  rw [e]
  constructor
  · show List.lookup k ((Model.Modes.copyRoute r h obj).1.dicts h.nextDict) = _
    rw [d1, Lemmas.Modes.lookup_ensureKeys _ _ (by unfold Model.Modes.Heap.lookup at hk; rw [hk]; rfl)]
    exact hk
  · intro x
    simp [Model.Modes.Heap.mutate, hv]

example : Model.Modes.Route.copyMethod.deep = false ∧ Model.Modes.Route.copyCopy.deep = false
    ∧ Model.Modes.Route.npArray.deep = false ∧ Model.Modes.Route.deepCopy.deep = true
    ∧ ∀ p, (Model.Modes.Route.pickle p).deep = true := ⟨rfl, rfl, rfl, rfl, fun _ => rfl⟩
example : ∃ (h : Model.Modes.Heap) (obj : Model.Modes.PyObj) (k : String) (id : Nat),
    h.lookup obj.dict k = some (.ref id) :=
  ⟨⟨fun _ => [("note", .ref 0)], fun _ => [], fun _ p => p, 1, 1, 1⟩, ⟨.modes, 0, 0⟩, "note", 0, rfl⟩

end C18
