"""C06 — multiplying Modes objects gives the mode weights of the pointwise product.

Obligations: Props/C06.lean (metadata rules, truncation = cut, spellings reach the helper with the same arguments).
Gap/search: evaluate(f*g, Q) = evaluate(f,Q) evaluate(g,Q) for every spelling; truncators; scalar mult/div."""
import numpy as np

from .. import helpers
from . import common
from .C13 import ev

EPS = 2.0 ** -52


def check(run):
    import spherical
    quick = run.tier == "quick"
    run.regenerate()
    run.lean_props(common.modules_for("C06"))
    from .. import glue_modes
    glue_modes.corr(run, quick)   # Lean model of Modes (constructor, layout, dispatch, conj pairing, product terms, copies) vs the real class
    rng = run.rng
    Rs = [helpers.random_rotor(rng) for _ in range(3)] + [(1.0, 0.0, 0.0, 0.0), (0.0, 0.6, 0.8, 0.0)]
    combos = [(0, 0, 0, 0), (0, 2, 1, 3), (-1, 2, 2, 2), (2, 3, -2, 4), (1, 1, -3, 3), (-2, 5, 0, 0)] if quick else \
        [(sf, Lf, sg, Lg) for sf in (-4, -2, -1, 0, 1, 3) for sg in (-3, 0, 2, 4) for Lf in (abs(sf), 6, 12) for Lg in (abs(sg), 5)]
    leads = [((), ()), ((2,), (2,)), ((2, 1), (3,))]
    for (sf, Lf, sg, Lg) in combos:
        Lf, Lg = max(Lf, abs(sf)), max(Lg, abs(sg))
        for la, lb in leads[: (2 if quick else 3)]:
            f = helpers.make_modes(rng, sf, Lf, la)
            g = helpers.make_modes(rng, sg, Lg, lb)
            inp = {"s_f": sf, "ell_max_f": Lf, "s_g": sg, "ell_max_g": Lg, "lead_f": list(la), "lead_g": list(lb)}
            fe, ge = ev(f, Rs), ev(g, Rs)
            n = fe.shape[-1]
            sh = np.broadcast_shapes(la, lb)
            prod = np.broadcast_to(fe.reshape(la + (n,)), sh + (n,)) * np.broadcast_to(ge.reshape(lb + (n,)), sh + (n,))
            tol = 4096 * (Lf + Lg + 2) ** 2 * EPS * max(float(np.max(np.sum(np.abs(f.ndarray), axis=-1))) * float(np.max(np.sum(np.abs(g.ndarray), axis=-1))), 1e-300)
            full = None
            for name, op in (("f*g", lambda: f * g), ("np.multiply(f,g)", lambda: np.multiply(f, g)), ("f.multiply(g)", lambda: f.multiply(g)),
                             ("spherical.multiply", lambda: spherical.multiply(f.ndarray, 0, Lf, sf, g.ndarray, 0, Lg, sg))):
                try:
                    r = op()
                except Exception as e:
                    run.violation("multiply-raised", name, inp, "product", repr(e))
                    continue
                run.gap_case("product", (sf, Lf, sg, Lg, la, lb, name), name, {**inp, "op": name})
                if name == "spherical.multiply":
                    arr, emin, emax, s3 = r
                    ok_meta = (emin, emax, s3) == (0, Lf + Lg, sf + sg)
                    rm = spherical.Modes(np.array(arr), spin_weight=s3, ell_min=0, ell_max=emax) if ok_meta else None
                else:
                    ok_meta = isinstance(r, spherical.Modes) and r.spin_weight == sf + sg and r.ell_max == Lf + Lg
                    rm = r
                if not ok_meta:
                    run.violation("product-metadata", name, inp, f"spin {sf + sg}, ell_max {Lf + Lg}", "differs")
                    continue
                if rm.shape[:-1] != sh:
                    run.violation("product-shape", name, inp, list(sh), list(rm.shape[:-1]))
                    continue
                if abs(sf + sg) <= Lf + Lg and not (float(np.max(np.abs(ev(rm, Rs) - prod))) <= tol):
                    run.violation("product-not-pointwise", name, inp, "(fg)(Q) = f(Q) g(Q)", f"max err {float(np.max(np.abs(ev(rm, Rs) - prod)))} > {tol}")
                if full is None:
                    full = rm.ndarray.copy()
                elif not np.array_equal(full, rm.ndarray):
                    run.violation("spellings-disagree", name, inp, "same weights as f*g", "differs")
            if full is None:
                continue
            # function form with inputs stored from their own (different) ell_min, as its docstring permits
            for (ef, eg) in [(abs(sf), abs(sg)), (min(abs(sf), Lf), 0), (0, min(abs(sg), Lg)), (min(1, Lf), min(2, Lg))]:
                if ef > Lf or eg > Lg or (ef, eg) == (0, 0):
                    continue
                fa, ga = f.ndarray[..., ef ** 2:].copy(), g.ndarray[..., eg ** 2:].copy()
                zf, zg = f.ndarray.copy(), g.ndarray.copy()
                zf[..., :ef ** 2] = 0
                zg[..., :eg ** 2] = 0
                try:
                    arr, emin, emax, s3 = spherical.multiply(fa, ef, Lf, sf, ga, eg, Lg, sg)
                    ref, _, _, _ = spherical.multiply(zf, 0, Lf, sf, zg, 0, Lg, sg)
                except Exception as e:
                    run.violation("multiply-raised", "spherical.multiply[ell_min]", {**inp, "ellmin_f": ef, "ellmin_g": eg}, "product", repr(e))
                    continue
                run.gap_case("function-form-ell_min", (sf, Lf, sg, Lg, la, lb, ef, eg), f"ellmin_f={'=' if ef == eg else '!='}ellmin_g")
                if (emin, emax, s3) != (0, Lf + Lg, sf + sg) or arr.shape != ref.shape or not np.allclose(arr, ref, rtol=1e-12, atol=1e-12 * max(float(np.max(np.abs(ref))), 1e-300)):
                    run.violation("function-form-depends-on-ell_min", "spherical.multiply[ell_min]", {**inp, "ellmin_f": ef, "ellmin_g": eg}, "same weights as with zero-padded inputs from ell=0", "differs")
            # truncators: result = full product cut at the requested ell_max
            for tname, trunc, Lt in (("max", max, max(Lf, Lg)), ("min", min, min(Lf, Lg)), ("const", (lambda t: 3), 3), ("sum", sum, Lf + Lg)):
                if Lt < abs(sf + sg) and False:
                    continue
                try:
                    r = f.multiply(g, truncator=trunc)
                except Exception as e:
                    run.violation("multiply-raised", f"f.multiply(g, truncator={tname})", inp, "product", repr(e))
                    continue
                run.gap_case("truncation", (sf, Lf, sg, Lg, la, lb, tname), tname)
                cut = np.zeros(full.shape[:-1] + ((Lt + 1) ** 2,), dtype=complex)
                k = min(cut.shape[-1], full.shape[-1])
                cut[..., :k] = full[..., :k]
                cut[..., :min((sf + sg) ** 2, cut.shape[-1])] = 0
                if r.ell_max != Lt or r.spin_weight != sf + sg or r.shape[-1] != (Lt + 1) ** 2:
                    run.violation("truncated-product-metadata", f"truncator={tname}", inp, f"ell_max {Lt}", f"ell_max {r.ell_max}")
                elif not np.array_equal(r.ndarray, cut):
                    run.violation("truncated-product-differs-from-cut", f"truncator={tname}", inp, "full product cut at ell_max", f"max diff {float(np.max(np.abs(r.ndarray - cut)))}")
            # metadata truncator
            ft = spherical.Modes(f.ndarray.copy(), spin_weight=sf, ell_min=0, ell_max=Lf, multiplication_truncator=max)
            try:
                r = ft * g
                want = max(max(Lf, Lg), Lf + Lg)   # the greater of what the two operands' truncators return (g defaults to sum)
                if r.ell_max != want:
                    run.violation("metadata-truncator", "f(truncator=max)*g", inp, want, r.ell_max)
            except Exception as e:
                run.violation("multiply-raised", "f(truncator=max)*g", inp, "product", repr(e))
            # scalars and arrays broadcasting over leading dims
            for name, op, expect in (("f*2.5", lambda: f * 2.5, fe * 2.5), ("(1-2j)*f", lambda: (1 - 2j) * f, (1 - 2j) * fe), ("f/4", lambda: f / 4, fe / 4),
                                     ("f.multiply(3)", lambda: f.multiply(3), fe * 3), ("f.divide(2j)", lambda: f.divide(2j), fe / 2j), ("np.multiply(f, 0.5)", lambda: np.multiply(f, 0.5), fe * 0.5)):
                try:
                    r = op()
                except Exception as e:
                    run.violation("scalar-op-raised", name, inp, "scaled function", repr(e))
                    continue
                run.gap_case("scalar", (sf, Lf, la, name), name)
                if not isinstance(r, spherical.Modes) or r.spin_weight != sf or r.ell_max != Lf or not (float(np.max(np.abs(ev(r, Rs) - expect))) <= tol):
                    run.violation("scalar-op-not-pointwise", name, inp, "scaled function", "differs")
            if not la and f.shape[-1] > 1:
                try:
                    f * np.ones(f.shape[-1])
                    run.violation("per-mode-multiplication-allowed", "f*array(n_modes)", inp, "raise", "returned")
                except Exception:
                    pass
            if la:
                a = np.array([rng.gauss(0, 1) for _ in range(int(np.prod(la)))]).reshape(la)
                try:
                    r = f * a
                    if not np.allclose(r.ndarray, f.ndarray * a[..., None]):
                        run.violation("array-broadcast-mult", "f*array", inp, "scales each leading element", "differs")
                except Exception as e:
                    run.violation("scalar-op-raised", "f*array(leading shape)", inp, "scaled", repr(e))
    run.assumptions += ["the Clebsch-Gordan series (product of the functions) is checked by evaluation on rotors only; truncation = cut is bitwise"]


def replay(body):
    print(body["input"], body["expected"], body["got"])
    return 0
