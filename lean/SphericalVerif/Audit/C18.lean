import SphericalVerif.Props.C18
#print axioms C18.grid_copy_preserves
#print axioms C18.grid_copy_independent
#print axioms C18.grid_pickle_is_deep
#print axioms C18.grid_deepcopy_is_deep
#print axioms C18.grid_finalize_routes_shallow
#print axioms C18.grid_route_hooks
#print axioms C18.grid_finalize_edge_cases
#print axioms C18.modes_copy_preserves
#print axioms C18.modes_copy_independent
#print axioms C18.modes_pickle_is_deep
#print axioms C18.modes_deepcopy_is_deep
#print axioms C18.modes_finalize_routes_shallow
