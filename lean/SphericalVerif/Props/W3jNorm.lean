import SphericalVerif.Lemmas.W3jNorm
/-! Values of `Wigner3jCalculator.calculate` (spherical/recursions/wigner3j.py) in exact arithmetic:
    the validated model `Model.W3j.calculate` at `α := ℝ`.

    As a function of `j1 ∈ [j_min, j_max]` (`j_min = max |j2-j3| |m2+m3|`, `j_max = j2+j3`) the 3-j
    symbols `(j1 j2 j3; -m2-m3 m2 m3)` are characterised by (i) the three-term recurrence in `j1`,
    (ii) `Σ (2 j1 + 1) f(j1)² = 1`, (iii) `sign f(j_max) = (-1)^(j2-j3+m2+m3)`.  This file states what
    is proved of (i)-(iii) about the array RETURNED by the model, read at the cells `j_min..j_max`.

    Domain (`Adm`): `|m2| ≤ j2`, `|m3| ≤ j3` (the guard of the source; hence `0 ≤ j2, j3`) and
    `j2 + j3 ≤ 1989` (beyond, the int64 radicand of `A` wraps: `C05.A_radicand_overflows_at_1990`).
    Capacity: `j2 + j3 + 1 ≤ size`, workspace of at least `size` (resp. `4 * size`) cells.

    Proved
    * (ii) `normalized`: under the explicit hypothesis that the un-normalised sum is not zero;
      `normalized_single`: unconditional when `j_min = j_max`; `normalized_regular`: unconditional on
      `Regular` runs (the hypothesis is discharged: a seed cell stays non-zero).
    * (iii) `sign_convention`, `sign_convention_pos`: every admissible call.
    * `single_cell`, `single_cell_j3_zero`, `single_cell_j2_zero`; through the front end:
      `wigner3j_single_cell`, `wigner3j_jj0` (`(j j 0; m -m 0) = (-1)^(j-m)/√(2j+1)`, all `|m| ≤ j ≤ 1989`).
    * (i) `recurrence`: on `Regular` runs the returned array satisfies the recurrence at EVERY cell of
      `[j_min, j_max]` except one matching point; `recurrence_forward`, `recurrence_backward`,
      `rescale_prefix`, `rescale_suffix`, `recurrence_homogeneous`: the sweeps and the rescaling.
    * `never_raises`, `zero_outside`, `preNorm_exists`.
    Missing
    * the recurrence AT the matching point (equivalently: that the value computed upward and the value
      computed downward agree up to the factor applied) — this is where the mathematics of the 3-j
      symbols enters; with it, (i)-(iii) would pin the output down to the 3-j symbols themselves;
    * `Regular` for every admissible call (only: ≤ 3 cells, `B(j_max) ≥ 0`, `B(j_min) ≥ 0`, `m2 = m3 = 0`;
      at `Float`, no irregular run among all calls with `j2, j3 ≤ 22`). -/
namespace W3jNorm
open Model.W3j Scalar
open Lemmas.W3jNorm (Adm PreNorm jminOf Regular Rec FwdInv BwdInv fwdOf revOf)
open Lemmas.W3j (perm)

/-! ### 0. the pre-normalisation array -/

/-- `PreNorm size ws j2 j3 m2 m3 f`: `f` has `size` cells and the run returns (without raising)
    `determine_signs(normalize(f))` — `f` is the array handed to `normalize`. -/
theorem preNorm_iff (size : Nat) (ws : Array ℝ) (j2 j3 m2 m3 : Int) (f : Array ℝ) :
    PreNorm size ws j2 j3 m2 m3 f ↔
      (f.size = size ∧ calculate size ws j2 j3 m2 m3 =
        ⟨determineSigns (Model.W3j.normalize f (jminOf j2 j3 m2 m3) (j2 + j3))
          (jminOf j2 j3 m2 m3) (j2 + j3) j2 j3 m2 m3, false⟩) := Iff.rfl

/-- With more than one cell (`j_min < j_max`) every admissible run ends in `normalize`,
    `determine_signs`: it never raises and a pre-normalisation array exists. -/
theorem preNorm_exists (size : Nat) (ws : Array ℝ) (j2 j3 m2 m3 : Int) (ha : Adm j2 j3 m2 m3)
    (hlt : jminOf j2 j3 m2 m3 < j2 + j3) (hws : size ≤ ws.size) :
    ∃ f, PreNorm size ws j2 j3 m2 m3 f :=
  Lemmas.W3jNorm.prenorm_exists size ws j2 j3 m2 m3 ha hlt hws

/-- no admissible call raises `ValueError("Cannot initialize recurrence …")` -/
theorem never_raises (size : Nat) (ws : Array ℝ) (j2 j3 m2 m3 : Int) (ha : Adm j2 j3 m2 m3)
    (hs : j2 + j3 + 1 ≤ size) (hws : size ≤ ws.size) :
    (calculate size ws j2 j3 m2 m3).raised = false :=
  Lemmas.W3jNorm.never_raises size ws j2 j3 m2 m3 ha hs hws

/-! ### 1. normalisation -/

/-- `Σ_{j=j_min}^{j_max} (2j+1) out[j]² = 1`, provided the un-normalised sum is not zero (otherwise
    the source divides by `0.0`). -/
theorem normalized (size : Nat) (ws : Array ℝ) (j2 j3 m2 m3 : Int)
    (hlt : jminOf j2 j3 m2 m3 < j2 + j3) (hs : j2 + j3 + 1 ≤ size)
    (f : Array ℝ) (hpre : PreNorm size ws j2 j3 m2 m3 f)
    (hne : ∑ j ∈ Finset.Icc (jminOf j2 j3 m2 m3) (j2 + j3), (2 * (j : ℝ) + 1) * geti f j ^ 2 ≠ 0) :
    ∑ j ∈ Finset.Icc (jminOf j2 j3 m2 m3) (j2 + j3),
      (2 * (j : ℝ) + 1) * geti (calculate size ws j2 j3 m2 m3).f j ^ 2 = 1 :=
  Lemmas.W3jNorm.normalized size ws j2 j3 m2 m3 hlt hs f hpre hne

/-- single cell (`j_min = j_max`): unconditional -/
theorem normalized_single (size : Nat) (ws : Array ℝ) (j2 j3 m2 m3 : Int) (ha : Adm j2 j3 m2 m3)
    (heq : j2 + j3 = jminOf j2 j3 m2 m3) (hs : j2 + j3 + 1 ≤ size) (hws : size ≤ ws.size) :
    ∑ j ∈ Finset.Icc (jminOf j2 j3 m2 m3) (j2 + j3),
      (2 * (j : ℝ) + 1) * geti (calculate size ws j2 j3 m2 m3).f j ^ 2 = 1 :=
  Lemmas.W3jNorm.normalized_single size ws j2 j3 m2 m3 ha heq hs hws

/-! ### 2. sign convention -/

/-- `out[j_max]` has the sign of `(-1)^(j2-j3+m2+m3)` (or is zero), on every admissible call -/
theorem sign_convention (size : Nat) (ws : Array ℝ) (j2 j3 m2 m3 : Int) (ha : Adm j2 j3 m2 m3)
    (hs : j2 + j3 + 1 ≤ size) (hws : size ≤ ws.size) :
    0 ≤ geti (calculate size ws j2 j3 m2 m3).f (j2 + j3) * (-1 : ℝ) ^ (j2 - j3 + m2 + m3) :=
  Lemmas.W3jNorm.sign_convention size ws j2 j3 m2 m3 ha hs hws

theorem sign_convention_pos (size : Nat) (ws : Array ℝ) (j2 j3 m2 m3 : Int) (ha : Adm j2 j3 m2 m3)
    (hs : j2 + j3 + 1 ≤ size) (hws : size ≤ ws.size)
    (hne : geti (calculate size ws j2 j3 m2 m3).f (j2 + j3) ≠ 0) :
    0 < geti (calculate size ws j2 j3 m2 m3).f (j2 + j3) * (-1 : ℝ) ^ (j2 - j3 + m2 + m3) := by
  refine lt_of_le_of_ne (sign_convention size ws j2 j3 m2 m3 ha hs hws) (Ne.symm ?_)
  exact mul_ne_zero hne (zpow_ne_zero _ (by norm_num))

/-! ### 3. the single-cell closed form -/

/-- `j_min = j_max`: the only cell is `(-1)^(j2-j3+m2+m3) / √(2 j_max + 1)`, all others are `0`, and
    the run does not raise. -/
theorem single_cell (size : Nat) (ws : Array ℝ) (j2 j3 m2 m3 : Int) (ha : Adm j2 j3 m2 m3)
    (heq : j2 + j3 = jminOf j2 j3 m2 m3) (hs : j2 + j3 + 1 ≤ size) (hws : size ≤ ws.size) :
    (calculate size ws j2 j3 m2 m3).raised = false ∧
    geti (calculate size ws j2 j3 m2 m3).f (j2 + j3) =
      (-1 : ℝ) ^ (j2 - j3 + m2 + m3) / Real.sqrt (2 * ((j2 + j3 : ℤ) : ℝ) + 1) ∧
    ∀ j : Int, 0 ≤ j → j ≠ j2 + j3 → geti (calculate size ws j2 j3 m2 m3).f j = 0 :=
  Lemmas.W3jNorm.single_cell size ws j2 j3 m2 m3 ha heq hs hws

/-- `j3 = 0`: `(j j 0; -m m 0) = (-1)^(j+m) / √(2j+1)` for every `|m| ≤ j ≤ 1989` -/
theorem single_cell_j3_zero (size : Nat) (ws : Array ℝ) (j m : Int) (hm : (m.natAbs : Int) ≤ j)
    (hj : j ≤ 1989) (hs : j + 1 ≤ size) (hws : size ≤ ws.size) :
    geti (calculate size ws j 0 m 0).f j = (-1 : ℝ) ^ (j + m) / Real.sqrt (2 * (j : ℝ) + 1) := by
  have ha : Adm j 0 m 0 := ⟨hm, by simp, by omega⟩
  have heq : j + 0 = jminOf j 0 m 0 := by unfold jminOf Lemmas.W3jBounds.jminOf; omega
  have h := (single_cell size ws j 0 m 0 ha heq (by omega) hws).2.1
  simpa using h

/-- `j2 = 0`: `(j 0 j; -m 0 m) = (-1)^(-j+m) / √(2j+1)` -/
theorem single_cell_j2_zero (size : Nat) (ws : Array ℝ) (j m : Int) (hm : (m.natAbs : Int) ≤ j)
    (hj : j ≤ 1989) (hs : j + 1 ≤ size) (hws : size ≤ ws.size) :
    geti (calculate size ws 0 j 0 m).f j = (-1 : ℝ) ^ (-j + m) / Real.sqrt (2 * (j : ℝ) + 1) := by
  have ha : Adm 0 j 0 m := ⟨by simp, hm, by omega⟩
  have heq : 0 + j = jminOf 0 j 0 m := by unfold jminOf Lemmas.W3jBounds.jminOf; omega
  have h := (single_cell size ws 0 j 0 m ha heq (by omega) hws).2.1
  simpa using h

/-- Through the front end `Wigner3j`: whenever the permuted call has a single cell, the value is the
    closed form (`p` is the cyclic permutation putting the largest `j` first). -/
theorem wigner3j_single_cell (j1 j2 j3 m1 m2 m3 : Int) (hs : m1 + m2 + m3 = 0)
    (h1 : (m1.natAbs : Int) ≤ j1) (h2 : (m2.natAbs : Int) ≤ j2) (h3 : (m3.natAbs : Int) ≤ j3)
    (ht : 2 * max (max j1 j2) j3 ≤ j1 + j2 + j3) (hb : j1 + j2 + j3 ≤ 3978) :
    let p := perm j1 j2 j3 m1 m2 m3
    p.a2 + p.a3 = jminOf p.a2 p.a3 p.b2 p.b3 →
    wigner3j (α := ℝ) j1 j2 j3 m1 m2 m3 =
      some ((-1 : ℝ) ^ (p.a2 - p.a3 + p.b2 + p.b3) / Real.sqrt (2 * (p.a1 : ℝ) + 1)) :=
  Lemmas.W3jNorm.wigner3j_single_cell j1 j2 j3 m1 m2 m3 hs h1 h2 h3 ht hb

/-- The documented closed form `(j j 0; m -m 0) = (-1)^(j-m) / √(2j+1)`, for every `|m| ≤ j ≤ 1989`,
    through the front end. -/
theorem wigner3j_jj0 (j m : Int) (hm : (m.natAbs : Int) ≤ j) (hj : j ≤ 1989) :
    wigner3j (α := ℝ) j j 0 m (-m) 0 = some ((-1 : ℝ) ^ (j - m) / Real.sqrt (2 * (j : ℝ) + 1)) :=
  Lemmas.W3jNorm.wigner3j_jj0 j m hm hj

/-! ### 4. the three-term recurrence

    `Rec j2 j3 m1 m2 m3 F j` is `X(j) F[j+1] + Y(j) F[j] + Z(j) F[j-1] = 0` with the model's own
    coefficient functions `Xf`, `Yf`, `Zf` at `ℝ`.

    Structure of the proof (all in `Lemmas/W3jNorm.lean`): the run is cut into its loops
    (`fwdRatioLoop`, `fwdFillLoop`, `revRatioLoop`, `revFillLoop`, `fwdThreeLoop`, `bwdThreeLoop`,
    `scaleCopyLoop`: the text of the model's `for` loops) and loop-free glue (`fwdPhase`, `revPhase`);
    `calculate` IS that composition (`calculate_pipeline`, `afterFwd_eq`, `threeTerm_eq`, `meet_eq`).
    Each loop has a Hoare triple whose invariant is "the recurrence holds on the part swept so far"
    (`FwdInv`: cells `j_min ≤ j < hi`; `BwdInv`: cells `lo < j ≤ j_max`), preserved by the recurrence
    step and by the rescaling of the whole prefix / suffix.

    Range covered: EVERY cell of `[j_min, j_max]` except one matching point `jm`
    (`jm = j_mid` where the upward and the downward solutions are glued; `jm = j_max` resp. `j_min` when
    only one direction was used).  At `jm` the recurrence is the statement that the two partial
    solutions are proportional — a property of the 3-j coefficients, not of the algorithm; not proved.

    Hypothesis `Regular`: `j_minus = j_max` (early exit) or `j_minus ≤ j_plus + 1` once both
    non-classical regions have been traversed.  When it FAILS the source fills `F_plus` from the shared
    buffer `sf = rf` at cells that still hold forward ratios (finding; unreachable for genuine 3-j
    data as far as tests show, but not excluded by the control flow).  Integer sufficient conditions:
    `regular_of_small`, `regular_of_Bmax_nonneg`, `regular_of_Bmin_nonneg`, `regular_of_m_zero`. -/

theorem rec_iff (j2 j3 m1 m2 m3 : Int) (F : Array ℝ) (j : Int) :
    Rec j2 j3 m1 m2 m3 F j ↔
      (Xf j j2 j3 m1 : ℝ) * geti F (j+1) + (Yf j j2 j3 m2 m3 : ℝ) * geti F j
        + (Zf j j2 j3 m1 : ℝ) * geti F (j-1) = 0 := Iff.rfl

theorem regular_iff (size : Nat) (ws : Array ℝ) (j2 j3 m2 m3 : Int) :
    Regular size ws j2 j3 m2 m3 ↔
      ((fwdOf size ws j2 j3 m2 m3).jminus = j2 + j3 ∨
       (fwdOf size ws j2 j3 m2 m3).jminus ≤ (revOf size ws j2 j3 m2 m3).jplus + 1) := Iff.rfl

/-- the model is the pipeline: after the guards, `calculate` is `afterFwd` applied to the state
    `fwdOf` left by the forward phase (and `afterFwd_eq`, `threeTerm_eq`, `meet_eq` continue) -/
theorem calculate_pipeline (size : Nat) (ws : Array ℝ) (j2 j3 m2 m3 : Int) (ha : Adm j2 j3 m2 m3)
    (hlt : jminOf j2 j3 m2 m3 < j2 + j3) :
    calculate size ws j2 j3 m2 m3 =
      let w0 : Array ℝ := ws.map (fun _ => zero)
      let fw := fwdOf size ws j2 j3 m2 m3
      Lemmas.W3jBounds.afterFwd j2 j3 (-(m2 + m3)) m2 m3 (jminOf j2 j3 m2 m3) (j2 + j3) (ofInt 1000)
        (w0.extract 0 size) fw.sf fw.Fm (w0.extract (3*size) (4*size)) fw.undefMin fw.jminus := by
  rw [Lemmas.W3jBounds.calculate_phased,
    Lemmas.W3jNorm.calculateP_eq size ws j2 j3 m2 m3 ha.hm2 ha.hm3 hlt]
  rfl

/-- `recurrence`: the RETURNED array satisfies the three-term recurrence at every cell of
    `[j_min, j_max]` but one. -/
theorem recurrence (size : Nat) (ws : Array ℝ) (j2 j3 m2 m3 : Int) (ha : Adm j2 j3 m2 m3)
    (hlt : jminOf j2 j3 m2 m3 < j2 + j3) (hs : j2 + j3 + 1 ≤ size) (hws : 4 * size ≤ ws.size)
    (hreg : Regular size ws j2 j3 m2 m3) :
    ∃ jm, jminOf j2 j3 m2 m3 ≤ jm ∧ jm ≤ j2 + j3 ∧
      ∀ j, jminOf j2 j3 m2 m3 ≤ j → j ≤ j2 + j3 → j ≠ jm →
        (Xf j j2 j3 (-(m2 + m3)) : ℝ) * geti (calculate size ws j2 j3 m2 m3).f (j+1)
          + (Yf j j2 j3 m2 m3 : ℝ) * geti (calculate size ws j2 j3 m2 m3).f j
          + (Zf j j2 j3 (-(m2 + m3)) : ℝ) * geti (calculate size ws j2 j3 m2 m3).f (j-1) = 0 :=
  Lemmas.W3jNorm.recurrence_out size ws j2 j3 m2 m3 ha hlt hs hws hreg

/-- the same for the un-normalised values, which moreover do not vanish identically: the hypothesis
    of `normalized` is discharged -/
theorem recurrence_prenorm (size : Nat) (ws : Array ℝ) (j2 j3 m2 m3 : Int) (ha : Adm j2 j3 m2 m3)
    (hlt : jminOf j2 j3 m2 m3 < j2 + j3) (hs : j2 + j3 + 1 ≤ size) (hws : 4 * size ≤ ws.size)
    (hreg : Regular size ws j2 j3 m2 m3) :
    ∃ f, PreNorm size ws j2 j3 m2 m3 f ∧
      ∑ j ∈ Finset.Icc (jminOf j2 j3 m2 m3) (j2 + j3), (2 * (j : ℝ) + 1) * geti f j ^ 2 ≠ 0 ∧
      ∃ jm, jminOf j2 j3 m2 m3 ≤ jm ∧ jm ≤ j2 + j3 ∧
        ∀ j, jminOf j2 j3 m2 m3 ≤ j → j ≤ j2 + j3 → j ≠ jm → Rec j2 j3 (-(m2 + m3)) m2 m3 f j := by
  obtain ⟨f, hpre, hne, jm, h1, h2, hrec, _⟩ :=
    Lemmas.W3jNorm.prenorm_good size ws j2 j3 m2 m3 ha hlt hs hws hreg
  exact ⟨f, hpre, by rw [← Lemmas.W3jNorm.wsum_Icc]; exact hne, jm, h1, h2, hrec⟩

/-- `normalized`, unconditional on regular runs -/
theorem normalized_regular (size : Nat) (ws : Array ℝ) (j2 j3 m2 m3 : Int) (ha : Adm j2 j3 m2 m3)
    (hlt : jminOf j2 j3 m2 m3 < j2 + j3) (hs : j2 + j3 + 1 ≤ size) (hws : 4 * size ≤ ws.size)
    (hreg : Regular size ws j2 j3 m2 m3) :
    ∑ j ∈ Finset.Icc (jminOf j2 j3 m2 m3) (j2 + j3),
      (2 * (j : ℝ) + 1) * geti (calculate size ws j2 j3 m2 m3).f j ^ 2 = 1 :=
  Lemmas.W3jNorm.normalized_regular size ws j2 j3 m2 m3 ha hlt hs hws hreg

/-- the cells of the returned array outside `[j_min, j_max]` are `0`, as documented ("those values
    will all be 0.0"); single-cell case: `single_cell` -/
theorem zero_outside (size : Nat) (ws : Array ℝ) (j2 j3 m2 m3 : Int) (ha : Adm j2 j3 m2 m3)
    (hlt : jminOf j2 j3 m2 m3 < j2 + j3) (hs : j2 + j3 + 1 ≤ size) (hws : 4 * size ≤ ws.size)
    (hreg : Regular size ws j2 j3 m2 m3) (j : Int) (hj : 0 ≤ j)
    (hout : j < jminOf j2 j3 m2 m3 ∨ j2 + j3 < j) :
    geti (calculate size ws j2 j3 m2 m3).f j = 0 :=
  Lemmas.W3jNorm.zero_outside_regular size ws j2 j3 m2 m3 ha hlt hs hws hreg j hj hout

/-! #### when is a run regular -/

/-- at most three cells -/
theorem regular_of_small (size : Nat) (ws : Array ℝ) (j2 j3 m2 m3 : Int) (ha : Adm j2 j3 m2 m3)
    (hlt : jminOf j2 j3 m2 m3 < j2 + j3) (hs : j2 + j3 + 1 ≤ size) (hws : 4 * size ≤ ws.size)
    (hsmall : j2 + j3 ≤ jminOf j2 j3 m2 m3 + 2) : Regular size ws j2 j3 m2 m3 :=
  Lemmas.W3jNorm.regular_of_small size ws j2 j3 m2 m3 ha hlt hs hws hsmall

/-- `B(j_max) ≥ 0` (an integer condition on the arguments): the top end is classical -/
theorem regular_of_Bmax_nonneg (size : Nat) (ws : Array ℝ) (j2 j3 m2 m3 : Int) (ha : Adm j2 j3 m2 m3)
    (hlt : jminOf j2 j3 m2 m3 < j2 + j3) (hs : j2 + j3 + 1 ≤ size) (hws : 4 * size ≤ ws.size)
    (hB : 0 ≤ Gen.B (j2 + j3) j2 j3 m2 m3) : Regular size ws j2 j3 m2 m3 :=
  Lemmas.W3jNorm.regular_of_Bmax_nonneg size ws j2 j3 m2 m3 ha hlt hs hws hB

/-- `B(j_min) ≥ 0`: the bottom end is classical -/
theorem regular_of_Bmin_nonneg (size : Nat) (ws : Array ℝ) (j2 j3 m2 m3 : Int) (ha : Adm j2 j3 m2 m3)
    (hlt : jminOf j2 j3 m2 m3 < j2 + j3) (hs : j2 + j3 + 1 ≤ size) (hws : 4 * size ≤ ws.size)
    (hB : 0 ≤ Gen.B (jminOf j2 j3 m2 m3) j2 j3 m2 m3) : Regular size ws j2 j3 m2 m3 :=
  Lemmas.W3jNorm.regular_of_Bmin_nonneg size ws j2 j3 m2 m3 ha hlt hs hws hB

/-- `m2 = m3 = 0`, any `j2, j3` -/
theorem regular_of_m_zero (size : Nat) (ws : Array ℝ) (j2 j3 : Int) (ha : Adm j2 j3 0 0)
    (hlt : jminOf j2 j3 0 0 < j2 + j3) (hs : j2 + j3 + 1 ≤ size) (hws : 4 * size ≤ ws.size) :
    Regular size ws j2 j3 0 0 :=
  Lemmas.W3jNorm.regular_of_m_zero size ws j2 j3 ha hlt hs hws

/-! #### the sweeps and the rescaling, as statements about the model's loops -/

theorem fwdInv_iff (j2 j3 m1 m2 m3 jmin : Int) (n : Nat) (Fm : Array ℝ) (hi : Int) :
    FwdInv j2 j3 m1 m2 m3 jmin n Fm hi ↔
      (Fm.size = n ∧ geti Fm jmin ≠ 0 ∧ (∀ j, 0 ≤ j → j < jmin → geti Fm j = 0) ∧
        ∀ j, jmin ≤ j → j < hi → Rec j2 j3 m1 m2 m3 Fm j) := Iff.rfl

theorem bwdInv_iff (j2 j3 m1 m2 m3 jmax : Int) (n : Nat) (s : Int) (Fp : Array ℝ) (lo : Int) :
    BwdInv j2 j3 m1 m2 m3 jmax n s Fp lo ↔
      (Fp.size = n ∧ geti Fp s ≠ 0 ∧ ∀ j, lo < j → j ≤ jmax → Rec j2 j3 m1 m2 m3 Fp j) := Iff.rfl

/-- `recurrence_forward`: the upward sweep of the classical region (the loop of the source, with its
    rescaling and its early stop at `j_mid`) extends the recurrence from `[j_min, j_minus)` to
    `[j_min, max j_minus j_mid)`; it needs `X(j) ≠ 0` on the cells it divides by and `Z(j_min) = 0`. -/
theorem recurrence_forward (j2 j3 m1 m2 m3 jmin : Int) (n : Nat) (scale : ℝ) (jminus jmid0 : Int)
    (Fm : Array ℝ) (h0 : 0 ≤ jmin) (h1 : jmin + 1 ≤ jminus) (hn : jmid0 + 1 < n) (hsc : scale ≠ 0)
    (hZ0 : (Zf jmin j2 j3 m1 : ℝ) = 0)
    (hX : ∀ j, jminus ≤ j → j < jmid0 → (Xf j j2 j3 m1 : ℝ) ≠ 0)
    (hinv : FwdInv j2 j3 m1 m2 m3 jmin n Fm jminus) :
    let r := (Lemmas.W3jNorm.fwdThreeLoop j2 j3 m1 m2 m3 jmin scale jminus jmid0 Fm).run
    r.2 ≤ jmid0 ∧ (r.2 = jmid0 ∨ (jminus + 1 ≤ r.2 ∧ geti r.1 r.2 ≠ 0)) ∧
      FwdInv j2 j3 m1 m2 m3 jmin n r.1 (max jminus r.2) :=
  (Lemmas.W3jNorm.id_triple _ _ _).1
    (Lemmas.W3jNorm.fwdThreeLoop_triple j2 j3 m1 m2 m3 jmin n scale jminus jmid0 Fm)
    ⟨h0, h1, hn, hsc, hZ0, hX, hinv⟩

/-- `recurrence_backward`: the downward sweep extends the recurrence from `(j_plus, j_max]` to
    `(min j_plus jlow, j_max]`; it needs `Z(j) ≠ 0` on the cells it divides by and `X(j_max) = 0`. -/
theorem recurrence_backward (j2 j3 m1 m2 m3 jmax : Int) (n : Nat) (scale : ℝ) (jplus jlow s : Int)
    (Fp : Array ℝ) (h0 : 0 ≤ jlow) (hs : jplus ≤ s) (hs' : s ≤ jmax) (hn : jmax < n) (hsc : scale ≠ 0)
    (hX : (Xf jmax j2 j3 m1 : ℝ) = 0) (hZ : ∀ j, jlow < j → j ≤ jplus → (Zf j j2 j3 m1 : ℝ) ≠ 0)
    (hinv : BwdInv j2 j3 m1 m2 m3 jmax n s Fp jplus) :
    BwdInv j2 j3 m1 m2 m3 jmax n s
      (Lemmas.W3jNorm.bwdThreeLoop j2 j3 m1 m2 m3 jmax scale jplus jlow Fp).run (min jplus jlow) :=
  (Lemmas.W3jNorm.id_triple _ _ _).1
    (Lemmas.W3jNorm.bwdThreeLoop_triple j2 j3 m1 m2 m3 jmax n scale jplus jlow s Fp)
    ⟨h0, hs, hs', hn, hsc, hX, hZ, hinv⟩

/-- the recurrence is homogeneous: a common factor on the three cells (a cell may be exempted when
    its coefficient vanishes, as at the two ends of the range) preserves it -/
theorem recurrence_homogeneous (j2 j3 m1 m2 m3 : Int) (F G : Array ℝ) (j : Int) (c : ℝ)
    (h1 : (Xf j j2 j3 m1 : ℝ) = 0 ∨ geti G (j+1) = c * geti F (j+1))
    (h2 : geti G j = c * geti F j)
    (h3 : (Zf j j2 j3 m1 : ℝ) = 0 ∨ geti G (j-1) = c * geti F (j-1))
    (hF : Rec j2 j3 m1 m2 m3 F j) : Rec j2 j3 m1 m2 m3 G j :=
  Lemmas.W3jNorm.Rec_of_scaled c h1 h2 h3 hF

/-- rescaling of the prefix `F_minus[j_min : hi+1] /= c` preserves the forward invariant -/
theorem rescale_prefix (j2 j3 m1 m2 m3 jmin : Int) (n : Nat) (Fm : Array ℝ) (hi : Int) (c : ℝ)
    (h : FwdInv j2 j3 m1 m2 m3 jmin n Fm hi) (h0 : 0 ≤ jmin) (hlo : jmin < hi) (hn : hi < n)
    (hc : c ≠ 0) (hZ0 : (Zf jmin j2 j3 m1 : ℝ) = 0) :
    FwdInv j2 j3 m1 m2 m3 jmin n (divRange Fm jmin hi c) hi :=
  Lemmas.W3jNorm.fwd_rescale h h0 hlo hn hc hZ0

/-- rescaling of the suffix `F_plus[lo : j_max+1] /= c` preserves the backward invariant -/
theorem rescale_suffix (j2 j3 m1 m2 m3 jmax : Int) (n : Nat) (s : Int) (Fp : Array ℝ) (lo : Int) (c : ℝ)
    (h : BwdInv j2 j3 m1 m2 m3 jmax n s Fp lo) (h0 : 0 ≤ lo) (hs : lo ≤ s) (hs' : s ≤ jmax)
    (hn : jmax < n) (hc : c ≠ 0) (hX : (Xf jmax j2 j3 m1 : ℝ) = 0) :
    BwdInv j2 j3 m1 m2 m3 jmax n s (divRange Fp lo jmax c) lo :=
  Lemmas.W3jNorm.bwd_rescale h h0 hs hs' hn hc hX

/-! ### 5. the hypotheses are satisfiable -/

/-- `j2 = j3 = 1`, `m2 = m3 = 0` (cells `0, 1, 2`; calculator of capacity `(1, 1)`) -/
example : ∑ j ∈ Finset.Icc (jminOf 1 1 0 0) (1 + 1),
    (2 * (j : ℝ) + 1) * geti (calculate 3 (Array.replicate 12 (0 : ℝ)) 1 1 0 0).f j ^ 2 = 1 :=
  normalized_regular 3 _ 1 1 0 0 ⟨by decide, by decide, by decide⟩ (by decide) (by decide) (by simp)
    (regular_of_m_zero 3 _ 1 1 ⟨by decide, by decide, by decide⟩ (by decide) (by decide) (by simp))

example : jminOf 1 1 0 0 = 0 := by decide

example : 0 ≤ geti (calculate 3 (Array.replicate 12 (0 : ℝ)) 1 1 0 0).f (1 + 1)
    * (-1 : ℝ) ^ ((1 : ℤ) - 1 + 0 + 0) :=
  sign_convention 3 _ 1 1 0 0 ⟨by decide, by decide, by decide⟩ (by decide) (by simp)

/-- the hypotheses of `normalized` hold for it: a pre-normalisation array with non-zero sum exists -/
example : ∃ f, PreNorm 3 (Array.replicate 12 (0 : ℝ)) 1 1 0 0 f ∧
    ∑ j ∈ Finset.Icc (jminOf 1 1 0 0) (1 + 1), (2 * (j : ℝ) + 1) * geti f j ^ 2 ≠ 0 := by
  obtain ⟨f, h1, h2, _⟩ := recurrence_prenorm 3 (Array.replicate 12 (0 : ℝ)) 1 1 0 0
    ⟨by decide, by decide, by decide⟩ (by decide) (by decide) (by simp)
    (regular_of_m_zero 3 _ 1 1 ⟨by decide, by decide, by decide⟩ (by decide) (by decide) (by simp))
  exact ⟨f, h1, h2⟩

/-- `j2 = 2, j3 = 1, m2 = 1, m3 = 0`: three cells `1, 2, 3`, non-zero `m` -/
example : Regular 4 (Array.replicate 16 (0 : ℝ)) 2 1 1 0 :=
  regular_of_small 4 _ 2 1 1 0 ⟨by decide, by decide, by decide⟩ (by decide) (by decide) (by simp)
    (by decide)

/-- `j2 = 3, j3 = 2, m2 = -1, m3 = 1`: five cells `1..5`, `B(j_max) = 660` -/
example : Regular 6 (Array.replicate 24 (0 : ℝ)) 3 2 (-1) 1 :=
  regular_of_Bmax_nonneg 6 _ 3 2 (-1) 1 ⟨by decide, by decide, by decide⟩ (by decide) (by decide)
    (by simp) (by decide)

/-- the documented value `(1 1 0; 0 0 0) = -1/√3` through the front end -/
example : wigner3j (α := ℝ) 1 1 0 0 0 0 = some ((-1 : ℝ) ^ ((1 : ℤ) - 0) / Real.sqrt (2 * ((1 : ℤ) : ℝ) + 1)) := by
  have := wigner3j_jj0 1 0 (by decide) (by decide)
  simpa using this

/-! ### 6. test at `Float` (evaluated, not proved): `Regular` on every admissible multi-cell call with
    `j2, j3 ≤ 8` — no irregular run (also none for `j2, j3 ≤ 22`: 277816 calls, checked once) -/

/-- (irregular, early exits, total) over all admissible calls with j2, j3 ≤ J and j_min < j_max -/
def floatRegular (J : Nat) : Nat × Nat × Nat := Id.run do
  let mut bad := 0
  let mut early := 0
  let mut tot := 0
  for j2 in [0:J+1] do
    for j3 in [0:J+1] do
      for m2' in [0:2*j2+1] do
        for m3' in [0:2*j3+1] do
          let m2 : Int := (m2' : Int) - j2
          let m3 : Int := (m3' : Int) - j3
          let jmin : Int := max ((j2 - j3 : Int).natAbs : Int) ((m2 + m3).natAbs : Int)
          let jmax : Int := j2 + j3
          if jmin < jmax then
            let size := j2 + j3 + 1
            let z : Array Float := Array.replicate size 0.0
            let fw := Lemmas.W3jNorm.fwdPhase (α := Float) j2 j3 (-(m2+m3)) m2 m3 jmin jmax z z
            tot := tot + 1
            if fw.jminus = jmax then early := early + 1
            else
              let rv := Lemmas.W3jNorm.revPhase (α := Float) j2 j3 (-(m2+m3)) m2 m3 jmin jmax fw.sf z fw.jminus
              if !(fw.jminus ≤ rv.jplus + 1) then bad := bad + 1
  return (bad, early, tot)

#guard floatRegular 8 == (0, 298, 6272)

end W3jNorm
