import SphericalVerif.Gen.HKern
import SphericalVerif.Model.HKernels
import SphericalVerif.Props.FlatSteps
/-! Vocabulary for `Props/GenH`: the *generated* flat kernels (`Gen/HKern.lean`, translated from the Python text on
    every run) simulate the coordinate-level model (`Model/HKernels.lean`).

    The bridge is a **hybrid memory**: a coordinate memory (`Mem`) whose valid cells — the coordinates of the stored
    wedge, of `Hv` and of `Hextra` for a calculator `(L, P)` — live in a flat memory at the position the layout
    functions `WignerHindex` / `nm_index` give them, and whose other cells live in a side table.  Because the layout is
    injective on valid cells (`C11.hindex_get`, `C11.nm_index_get`), the hybrid memory is a *lawful* `Mem`, so every
    theorem proved for all lawful memories (`HKernel.runH_refines`, …) applies to it verbatim; and running the
    coordinate model on it is, statement by statement, running the generated kernel on its flat part. -/
namespace GenH
open Gen Model FlatSteps

/-- array ids used throughout: the ids under which `Wigner.H` hands `Hwedge`, `Hv`, `Hextra` to the kernels -/
abbrev idW : Nat := 0
abbrev idV : Nat := 1
abbrev idX : Nat := 2

/-- the cells a calculator `(L, P)` stores -/
def Valid (L P : Nat) : Loc → Prop
  | .hw n c r => n ≤ L ∧ InWedge (P : Int) (n : Int) c (r : Int)
  | .hv n k => n ≤ L ∧ -(n : Int) ≤ k ∧ k ≤ (n : Int)
  | .hx k => k ≤ L + 1

instance (L P : Nat) (l : Loc) : Decidable (Valid L P l) := by
  cases l <;> unfold Valid <;> infer_instance

/-- flat address (array id, index) of a cell -/
def lay (P : Nat) : Loc → Nat × Int
  | .hw n c r => (idW, WignerHindex (n : Int) c (r : Int) (some (P : Int)))
  | .hv n k => (idV, nm_index (n : Int) k)
  | .hx k => (idX, (k : Int))

theorem lay_inj (L P : Nat) (l l' : Loc) (h : Valid L P l) (h' : Valid L P l') (e : lay P l = lay P l') : l = l' := by
  cases l with
  | hw n c r =>
    cases l' with
    | hw n' c' r' =>
      obtain ⟨hn, hw⟩ := h
      obtain ⟨hn', hw'⟩ := h'
      simp only [lay, Prod.mk.injEq, true_and] at e
      have g := (HwCell.get (P := P) ⟨rfl, hw⟩ (L : Int) (by omega) (by omega) (by omega)).2.2
      have g' := (HwCell.get (P := P) ⟨rfl, hw'⟩ (L : Int) (by omega) (by omega) (by omega)).2.2
      rw [e, g'] at g
      simp only [Option.some.injEq, Prod.mk.injEq] at g
      obtain ⟨e1, e2, e3⟩ := g
      have : n' = n := by omega
      have : r' = r := by omega
      subst_vars; rfl
    | hv _ _ => simp [lay, idW, idV] at e
    | hx _ => simp [lay, idW, idX] at e
  | hv n k =>
    cases l' with
    | hv n' k' =>
      obtain ⟨hn, h1, h2⟩ := h
      obtain ⟨hn', h1', h2'⟩ := h'
      simp only [lay, Prod.mk.injEq, true_and] at e
      have g := (NmSlot.hv ⟨rfl, h1, h2⟩ (L : Int) (by omega) (by omega)).2.2
      have g' := (NmSlot.hv ⟨rfl, h1', h2'⟩ (L : Int) (by omega) (by omega)).2.2
      rw [e, g'] at g
      simp only [Option.some.injEq, Prod.mk.injEq] at g
      obtain ⟨e1, e2⟩ := g
      have : n' = n := by omega
      subst_vars; rfl
    | hw _ _ _ => simp [lay, idW, idV] at e
    | hx _ => simp [lay, idV, idX] at e
  | hx k =>
    cases l' with
    | hx k' =>
      simp only [lay, Prod.mk.injEq, true_and] at e
      have : k' = k := by omega
      subst this; rfl
    | hw _ _ _ => simp [lay, idW, idX] at e
    | hv _ _ => simp [lay, idV, idX] at e

/-- hybrid memory for a calculator `(L, P)`: valid cells in the flat memory `flat`, all other cells in `junk` -/
structure Hyb (L P : Nat) (φ : Type) (α : Type) where
  flat : φ
  junk : Loc → α

section
variable {α : Type} {φ : Type} [FMem φ α] {L P : Nat}

instance : Mem (Hyb L P φ α) α where
  get st l := if Valid L P l then FMem.get st.flat (lay P l).1 (lay P l).2 else st.junk l
  set st l v := if Valid L P l then { st with flat := FMem.set st.flat (lay P l).1 (lay P l).2 v }
                else { st with junk := fun l' => if l' = l then v else st.junk l' }

instance [LawfulFMem φ α] : LawfulMem (Hyb L P φ α) α where
  get_set st l l' v := by
    show (if Valid L P l' then _ else _) = _
    by_cases hl : Valid L P l
    · by_cases hl' : Valid L P l'
      · simp only [Mem.set, Mem.get, hl, hl', if_true]
        rw [LawfulFMem.get_set]
        by_cases e : l' = l
        · subst e; simp
        · have : ¬ ((lay P l').1 = (lay P l).1 ∧ (lay P l').2 = (lay P l).2) := by
            intro ⟨e1, e2⟩
            exact e (lay_inj L P l' l hl' hl (Prod.ext e1 e2))
          simp [this, e]
      · have e : l' ≠ l := fun e => hl' (e ▸ hl)
        simp [Mem.set, Mem.get, hl, hl', e]
    · by_cases hl' : Valid L P l'
      · have e : l' ≠ l := fun e => hl (e ▸ hl')
        simp [Mem.set, Mem.get, hl, hl', e]
      · simp [Mem.set, Mem.get, hl, hl']

/-! ### reads and writes of valid cells are flat reads and writes -/

theorem wr_valid (F : φ) (J : Loc → α) (l : Loc) (v : α) (a : Nat) (i : Int) (hv : Valid L P l) (hl : lay P l = (a, i)) :
    wr (α := α) (⟨F, J⟩ : Hyb L P φ α) l v = ⟨fwr (α := α) F a i v, J⟩ := by
  show (if Valid L P l then _ else _) = _
  rw [if_pos hv, hl]; rfl

theorem rd_valid (F : φ) (J : Loc → α) (l : Loc) (a : Nat) (i : Int) (hv : Valid L P l) (hl : lay P l = (a, i)) :
    rd (α := α) (⟨F, J⟩ : Hyb L P φ α) l = frd (α := α) F a i := by
  show (if Valid L P l then _ else _) = _
  rw [if_pos hv, hl]; rfl

/-- wedge cell, addressed by a flat index that `FlatSteps` identifies -/
theorem wr_hw (F : φ) (J : Loc → α) (n : Nat) (c : Int) (r : Nat) (idx : Int) (v : α) (hn : n ≤ L)
    (h : HwCell (P : Int) idx (n : Int) c (r : Int)) :
    wr (α := α) (⟨F, J⟩ : Hyb L P φ α) (.hw n c r) v = ⟨fwr (α := α) F idW idx v, J⟩ :=
  wr_valid F J _ v idW idx ⟨hn, h.2⟩ (by rw [h.1]; rfl)

theorem rd_hw (F : φ) (J : Loc → α) (n : Nat) (c : Int) (r : Nat) (idx : Int) (hn : n ≤ L)
    (h : HwCell (P : Int) idx (n : Int) c (r : Int)) :
    rd (α := α) (⟨F, J⟩ : Hyb L P φ α) (.hw n c r) = frd (α := α) F idW idx :=
  rd_valid F J _ idW idx ⟨hn, h.2⟩ (by rw [h.1]; rfl)

theorem wr_hv (F : φ) (J : Loc → α) (n : Nat) (k : Int) (idx : Int) (v : α) (hn : n ≤ L)
    (h : NmSlot idx (n : Int) k) :
    wr (α := α) (⟨F, J⟩ : Hyb L P φ α) (.hv n k) v = ⟨fwr (α := α) F idV idx v, J⟩ :=
  wr_valid F J _ v idV idx ⟨hn, h.2.1, h.2.2⟩ (by rw [h.1]; rfl)

theorem rd_hv (F : φ) (J : Loc → α) (n : Nat) (k : Int) (idx : Int) (hn : n ≤ L)
    (h : NmSlot idx (n : Int) k) :
    rd (α := α) (⟨F, J⟩ : Hyb L P φ α) (.hv n k) = frd (α := α) F idV idx :=
  rd_valid F J _ idV idx ⟨hn, h.2.1, h.2.2⟩ (by rw [h.1]; rfl)

theorem wr_hx (F : φ) (J : Loc → α) (k : Nat) (idx : Int) (v : α) (hk : k ≤ L + 1) (h : idx = (k : Int)) :
    wr (α := α) (⟨F, J⟩ : Hyb L P φ α) (.hx k) v = ⟨fwr (α := α) F idX idx v, J⟩ :=
  wr_valid F J _ v idX idx hk (by rw [h]; rfl)

theorem rd_hx (F : φ) (J : Loc → α) (k : Nat) (idx : Int) (hk : k ≤ L + 1) (h : idx = (k : Int)) :
    rd (α := α) (⟨F, J⟩ : Hyb L P φ α) (.hx k) = frd (α := α) F idX idx :=
  rd_valid F J _ idX idx hk (by rw [h]; rfl)

end

/-! ### loops -/

/-- two counted loops whose bodies correspond run in correspondence -/
theorem loopN_sim {σ τ : Type} (R : σ → τ → Prop) (cnt : Nat) (f : Nat → σ → σ) (g : Nat → τ → τ) (s : σ) (t : τ)
    (h0 : R s t) (hs : ∀ k s t, k < cnt → R s t → R (f k s) (g k t)) : R (loopN cnt f s) (loopN cnt g t) := by
  induction cnt with
  | zero => exact h0
  | succ n ih =>
    simp only [loopN]
    exact hs n _ _ (Nat.lt_succ_self n) (ih (fun k s t hk => hs k s t (Nat.lt_succ_of_lt hk)))

/-- the common case: the hybrid memory's flat part is the other loop's state -/
theorem loopN_hyb {α φ : Type} {L P : Nat} (cnt : Nat) (f : Nat → Hyb L P φ α → Hyb L P φ α) (g : Nat → φ → φ)
    (F : φ) (J : Loc → α) (hs : ∀ k F, k < cnt → f k ⟨F, J⟩ = ⟨g k F, J⟩) :
    loopN cnt f ⟨F, J⟩ = ⟨loopN cnt g F, J⟩ :=
  loopN_sim (fun s t => s = ⟨t, J⟩) cnt f g ⟨F, J⟩ F rfl (fun k s t hk e => by subst e; exact hs k t hk)

/-- the same with one extra loop-carried value -/
theorem loopN_hyb2 {α φ β : Type} {L P : Nat} (cnt : Nat) (f : Nat → Hyb L P φ α × β → Hyb L P φ α × β)
    (g : Nat → φ × β → φ × β) (F : φ) (J : Loc → α) (x : β)
    (hs : ∀ k F x, k < cnt → f k (⟨F, J⟩, x) = (⟨(g k (F, x)).1, J⟩, (g k (F, x)).2)) :
    loopN cnt f (⟨F, J⟩, x) = (⟨(loopN cnt g (F, x)).1, J⟩, (loopN cnt g (F, x)).2) :=
  loopN_sim (fun s t => s = (⟨t.1, J⟩, t.2)) cnt f g (⟨F, J⟩, x) (F, x) rfl
    (fun k s t hk e => by subst e; exact hs k t.1 t.2 hk)

/-! ### the coefficient tables -/
section
open Scalar
variable {α : Type} [Scalar α]

theorem tab_a_eq (n k : Int) : Gen.tab_a (α := α) n k = Model.aC n k := rfl
theorem tab_b_eq (n k : Int) : Gen.tab_b (α := α) n k = Model.bC n k := rfl
theorem tab_d_eq (n k : Int) : Gen.tab_d (α := α) n k = Model.dC n k := rfl
theorem tab_g_eq (n k : Int) : Gen.tab_g (α := α) n k = Model.gC n k := rfl
theorem tab_h_eq (n k : Int) : Gen.tab_h (α := α) n k = Model.hC n k := rfl

structure TabOK (L : Nat) (a b d g h : Int → α) : Prop where
  a_ok : ∀ n k : Int, 0 ≤ n → n ≤ (L : Int) + 1 → 0 ≤ k → k ≤ n → a (nabsm_index n k) = Gen.tab_a n k
  b_ok : ∀ n k : Int, 0 ≤ n → n ≤ (L : Int) + 1 → -n ≤ k → k ≤ n → b (nm_index n k) = Gen.tab_b n k
  d_ok : ∀ n k : Int, 0 ≤ n → n ≤ (L : Int) + 1 → -n ≤ k → k ≤ n → d (nm_index n k) = Gen.tab_d n k
  g_ok : ∀ n k : Int, 0 ≤ n → n ≤ (L : Int) + 1 → -n ≤ k → k ≤ n → g (nm_index n k) = Gen.tab_g n k
  h_ok : ∀ n k : Int, 0 ≤ n → n ≤ (L : Int) + 1 → -n ≤ k → k ≤ n → h (nm_index n k) = Gen.tab_h n k


omit [Scalar α] in
theorem tab_nm {t : Int → α} {f : Int → Int → α} (L : Nat)
    (ht : ∀ n k : Int, 0 ≤ n → n ≤ (L : Int) + 1 → -n ≤ k → k ≤ n → t (nm_index n k) = f n k)
    {idx n k : Int} (h : NmSlot idx n k) (hn0 : 0 ≤ n) (hn : n ≤ (L : Int) + 1) : t idx = f n k := by
  rw [h.1]; exact ht n k hn0 hn h.2.1 h.2.2

omit [Scalar α] in
theorem tab_nabsm {t : Int → α} {f : Int → Int → α} (L : Nat)
    (ht : ∀ n k : Int, 0 ≤ n → n ≤ (L : Int) + 1 → 0 ≤ k → k ≤ n → t (nabsm_index n k) = f n k)
    {idx n k : Int} (h : NabsmSlot idx n k) (hn0 : 0 ≤ n) (hn : n ≤ (L : Int) + 1) : t idx = f n k := by
  rw [h.1]; exact ht n k hn0 hn h.2.1 h.2.2

theorem hwc4 {P idx n c r idx' n' c' r' : Int} (h : HwCell P idx n c r) (e1 : idx' = idx) (e2 : n' = n) (ec : c' = c)
    (e3 : r' = r) : HwCell P idx' n' c' r' := by subst e1 e2 ec e3; exact h

theorem nmc {idx n k idx' k' : Int} (h : NmSlot idx n k) (e1 : idx' = idx) (e2 : k' = k) : NmSlot idx' n k' := by
  subst e1 e2; exact h

theorem hwc {P idx n c r idx' n' r' : Int} (h : HwCell P idx n c r) (e1 : idx' = idx) (e2 : n' = n) (e3 : r' = r) :
    HwCell P idx' n' c r' := by subst e1 e2 e3; exact h

end

end GenH
