import SphericalVerif.Lemmas.CPow
/-! C14 (exact-arithmetic part) — `_complex_powers` returns the powers of a unit-modulus `z`.
    Property theorems only; helper lemmas live in `Lemmas/CPow.lean`.  Statements are about the
    hand-written model `Model.cpowers` / `Model.quadrant` (validated bit for bit against the compiled
    kernel at `Float`) run at the exact scalar `α := ℝ`; `imsqrt` models `np.sqrt(z).imag`.
    Powers are expressed in Mathlib's `ℂ` through `CPow.toC w = ⟨w.re, w.im⟩`. -/
namespace C14
open Model CPow

/-- In exact arithmetic, for `z` on the unit circle and any `imsqrt` behaving on the unit circle like
    the imaginary part of a square root (`2·Im(√w)² = 1 − Re w`), the output has `M+1` entries and
    entry `m` is `z^m`, for every `m ≤ M`. -/
theorem cpow_exact (z : Cx ℝ) (hz : z.re ^ 2 + z.im ^ 2 = 1) (M : Nat) (imsqrt : Cx ℝ → ℝ)
    (hs : ∀ w : Cx ℝ, w.re ^ 2 + w.im ^ 2 = 1 → 2 * (imsqrt w) ^ 2 = 1 - w.re) :
    (cpowers z M imsqrt).size = M + 1 ∧
    ∀ m, m ≤ M → ∃ e, (cpowers z M imsqrt)[m]? = some e ∧ toC e = toC z ^ m :=
  cpowers_exact z hz M imsqrt
    (hs _ (by rw [(quadrant_spec z).2.2.2.2.1, hz]))

/-- Same conclusion; the square-root hypothesis is required only at the one rotated first-quadrant
    value `zr` the model actually passes to `imsqrt`. -/
theorem cpow_exact_at (z : Cx ℝ) (hz : z.re ^ 2 + z.im ^ 2 = 1) (M : Nat) (imsqrt : Cx ℝ → ℝ)
    (hs : 2 * imsqrt (quadrant 4 Cx.oneC z).2 ^ 2 = 1 - (quadrant 4 Cx.oneC z).2.re) :
    (cpowers z M imsqrt).size = M + 1 ∧
    ∀ m, m ≤ M → ∃ e, (cpowers z M imsqrt)[m]? = some e ∧ toC e = toC z ^ m :=
  cpowers_exact z hz M imsqrt hs

/-- The quadrant loop at ℝ, for every `z` (no modulus assumption): fuel 4 is never exhausted — the
    returned `zr` lies in the closed first quadrant (the `while` condition is false), `z = θ·zr`,
    and `θ` is one of `1, i, −1, −i` (at most three quarter turns). -/
theorem quadrant_loop_le3 (z : Cx ℝ) :
    0 ≤ (quadrant 4 Cx.oneC z).2.re ∧ 0 ≤ (quadrant 4 Cx.oneC z).2.im ∧
    toC z = toC (quadrant 4 Cx.oneC z).1 * toC (quadrant 4 Cx.oneC z).2 ∧
    toC (quadrant 4 Cx.oneC z).1 ∈ ({1, Complex.I, -1, -Complex.I} : Set ℂ) := by
  obtain ⟨h1, h2, h3, h4, _, _⟩ := quadrant_spec z
  exact ⟨h1, h2, h3, by simpa using h4⟩

/-- More fuel never changes the result: the `while` loop of the source terminates within three turns. -/
theorem quadrant_fuel_irrelevant (j : Nat) (z : Cx ℝ) :
    quadrant (4 + j) Cx.oneC z = quadrant 4 Cx.oneC z :=
  quadrant_fuel j z

/-- The rotation preserves the modulus and is undone exactly by the model's own multiplication. -/
theorem quadrant_norm_and_back (z : Cx ℝ) :
    (quadrant 4 Cx.oneC z).2.re ^ 2 + (quadrant 4 Cx.oneC z).2.im ^ 2 = z.re ^ 2 + z.im ^ 2 ∧
    Cx.mul (quadrant 4 Cx.oneC z).2 (quadrant 4 Cx.oneC z).1 = z :=
  (quadrant_spec z).2.2.2.2

/-- Entry 0 is exactly `1 + 0i` and the size is `M+1`, for every scalar type (in particular IEEE
    doubles), every `z`, every `M`, every `imsqrt`. -/
theorem cpow_entry0 {α : Type} [Scalar α] (z : Cx α) (M : Nat) (imsqrt : Cx α → α) :
    (cpowers z M imsqrt).size = M + 1 ∧
    (cpowers z M imsqrt)[0]? = some ⟨Scalar.ofInt 1, Scalar.ofInt 0⟩ :=
  cpowers_size_entry0 z M imsqrt

/-- At ℝ entry 0 is `⟨1, 0⟩`. -/
theorem cpow_entry0_real (z : Cx ℝ) (M : Nat) (imsqrt : Cx ℝ → ℝ) :
    (cpowers z M imsqrt)[0]? = some ⟨1, 0⟩ := by
  rw [(cpowers_size_entry0 z M imsqrt).2, oneC_eq]

/-- For `M ≥ 1`, entry 1 is exactly `z` for EVERY real `z` (no unit-modulus hypothesis) and every
    `imsqrt`: rotating by `θ` and back only permutes and negates components. -/
theorem cpow_entry1 (z : Cx ℝ) (M : Nat) (hM : 1 ≤ M) (imsqrt : Cx ℝ → ℝ) :
    (cpowers z M imsqrt)[1]? = some z :=
  cpowers_entry1 z M hM imsqrt

/-- The hypotheses of `cpow_exact` are satisfiable at a non-trivial point (second quadrant, one turn),
    with the true `|Im √w| = √((1 − Re w)/2)` as `imsqrt`. -/
example : ∃ (z : Cx ℝ) (M : Nat) (imsqrt : Cx ℝ → ℝ), z.re ^ 2 + z.im ^ 2 = 1 ∧ z.re < 0 ∧ 3 ≤ M ∧
    ∀ w : Cx ℝ, w.re ^ 2 + w.im ^ 2 = 1 → 2 * (imsqrt w) ^ 2 = 1 - w.re := by
  refine ⟨⟨-3/5, 4/5⟩, 3, fun w => Real.sqrt ((1 - w.re) / 2), by norm_num, by norm_num, le_refl _, ?_⟩
  intro w hw
  have h1 : 0 ≤ (1 - w.re) / 2 := by nlinarith [sq_nonneg w.im, sq_nonneg (w.re - 1)]
  rw [Real.sq_sqrt h1]; ring

end C14
