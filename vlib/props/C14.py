"""C14 — complex_powers returns z^0..z^M accurately everywhere on the unit circle.

Obligations: Props/C14.lean (exact-arithmetic theorem cpow_exact, quadrant loop bound, entries 0/1).
Correspondence: `_complex_powers` vs Model.cpowers bitwise (given Im sqrt z), all quadrants/axes/signed zeros.
Gap monitor: vs mpmath z^m, bound K (m+1) eps; shapes, out= array."""
import math

import numpy as np

from .. import corr, kern, oracle
from . import common

EPS = 2.0 ** -52
K_BOUND = 8.0   # observed < 1.0 (m+1) eps on the pinned tree


def z_strata(rng, n):
    out = []
    for k in range(8):
        out.append((f"pi/4*{k}", complex(math.cos(k * math.pi / 4), math.sin(k * math.pi / 4))))
    for name, (c, s) in {"+1": (1.0, 0.0), "-1": (-1.0, 0.0), "+i": (0.0, 1.0), "-i": (0.0, -1.0)}.items():
        out.append((f"axis{name}", complex(c, s)))
        for d in (1e-8, 1e-100, 1e-300, 5e-324):
            for sg in (1, -1):
                if s == 0.0:
                    out.append((f"axis{name}±{d:g}", complex(c, sg * d)))
                else:
                    out.append((f"axis{name}±{d:g}", complex(sg * d, s)))
        out.append((f"axis{name}-negzero", complex(c if c else -0.0, s if s else -0.0)))
    for _ in range(n):
        t = rng.uniform(0, 2 * math.pi)
        out.append(("uniform", complex(math.cos(t), math.sin(t))))
    return out


def check(run):
    import spherical
    from spherical.recursions.complex_powers import complex_powers
    quick = run.tier == "quick"
    run.regenerate()
    run.lean_props(common.modules_for("C14"))
    rng = run.rng
    zs = z_strata(rng, 20 if quick else 200)
    run.attempt("corr:corr_cpow", kern.corr_cpow, run, zs, [0, 1, 2, 3, 9, 64] if quick else [0, 1, 2, 3, 4, 9, 64, 257, 2048])
    worst = 0.0
    Ms = [0, 1, 2, 7, 256, 2048] if quick else [0, 1, 2, 3, 7, 100, 256, 1000, 2048]
    for lab, z in zs:
        for M in Ms:
            zp = complex_powers(z, M)
            inp = {"z": [z.real, z.imag], "M": M}
            if zp.shape != (M + 1,):
                run.violation("shape", "complex_powers", inp, (M + 1,), zp.shape)
                continue
            if zp[0] != 1.0 or (M >= 1 and (zp[1].real != z.real or zp[1].imag != z.imag)):
                run.violation("entry0-or-entry1-not-exact", "complex_powers", inp, [1.0, str(z)], [str(zp[0]), str(zp[1]) if M else None])
            ms = sorted({0, 1, 2, M // 2, M - 1, M} & set(range(M + 1))) if M > 8 else range(M + 1)
            if M > 8:
                ms = list(ms) + [rng.randint(0, M) for _ in range(2)]
            for m in ms:
                ex = oracle.cpow_exact(z, m)
                e = oracle.err(ex, zp[m]) / ((m + 1) * EPS)
                worst = max(worst, e)
                run.gap_case("cpow-vs-exact", (z, M, m), lab, {"z": [z.real, z.imag], "M": M, "m": m, "err_over_(m+1)eps": round(e, 3)})
                if not (e <= K_BOUND):
                    run.violation("power-inaccurate", "complex_powers", {**inp, "m": m}, str(oracle.to_complex(ex)), str(complex(zp[m])), detail={"err_over_(m+1)eps": e, "stratum": lab})
                    break
    run.notes["worst_err_over_(m+1)eps"] = round(worst, 3)
    # array shapes, memory layouts and supplied output array: entry [idx, m] must be the power of z[idx] whatever the layout
    def layouts(shape):
        n = int(np.prod(shape)) if shape else 1
        t = np.array([rng.uniform(0, 2 * math.pi) for _ in range(n)]).reshape(shape)
        z = np.exp(1j * t)
        yield "C", z
        if len(shape) >= 2:
            yield "F", np.asfortranarray(z)
            yield "transposed-view", np.ascontiguousarray(z.T).T
            yield "permuted-axes", np.ascontiguousarray(np.moveaxis(z, 0, -1)).__array__().transpose([len(shape) - 1] + list(range(len(shape) - 1)))
        if shape and shape[-1] >= 1:
            wide = np.exp(1j * np.array([rng.uniform(0, 2 * math.pi) for _ in range(2 * n)])).reshape(shape[:-1] + (2 * shape[-1],))
            yield "strided", wide[..., ::2]
            yield "reversed", z[..., ::-1]
    for shape in [(), (1,), (3,), (2, 3), (3, 2), (2, 1, 2), (2, 3, 4)]:
        for layout, z in layouts(shape):
            if z.shape != shape:
                run.corr_break("harness:layout", f"layout generator produced shape {z.shape} for {shape}")
                continue
            for M in (0, 1, 5):
                inp = {"z_shape": list(shape), "layout": layout, "M": M, "z": [[float(v.real), float(v.imag)] for v in np.array(z).ravel()]}
                a = complex_powers(z, M)
                run.gap_case("shapes", (shape, layout, M), f"shape|{layout}")
                if a.shape != shape + (M + 1,):
                    run.violation("shape", "complex_powers", inp, list(shape + (M + 1,)), list(a.shape))
                    continue
                buf = np.full((z.size, M + 1), np.nan + 0j)
                b = complex_powers(z, M, buf)
                if not np.shares_memory(b, buf) or not np.array_equal(b.reshape(a.shape), a):
                    run.violation("out-array-not-used-or-differs", "complex_powers", inp, "same values written into supplied array", "differs")
                # supplied output arrays that are not C-contiguous (a block of columns of a wider workspace, every other row of a taller one, Fortran
                # order), holding nan beforehand: the supplied array itself must hold the powers afterwards, and so must what is returned
                n = int(z.size)
                for oname, mk in (("columns-of-wider", lambda: np.full((n, M + 4), np.nan + 0j)[:, 1:M + 2]), ("every-other-row", lambda: np.full((2 * n + 1, M + 1), np.nan + 0j)[::2][:n]),
                                  ("fortran-order", lambda: np.full((n, M + 1), np.nan + 0j, order="F"))):
                    buf = mk()
                    assert buf.shape == (n, M + 1)
                    run.gap_case("shapes", (shape, layout, M, oname), f"out|{oname}")
                    try:
                        b = complex_powers(z, M, buf)
                    except Exception as e:
                        run.violation("out-array-rejected", "complex_powers", {**inp, "out_layout": oname}, "powers written into the supplied array", repr(e))
                        continue
                    if not np.array_equal(buf.reshape(a.shape), a) or b.shape != a.shape or not np.array_equal(b, a):
                        run.violation("out-array-not-used-or-differs", "complex_powers", {**inp, "out_layout": oname}, "same values written into supplied array", "differs")
                for idx in np.ndindex(*shape):
                    if not np.array_equal(a[idx], complex_powers(complex(z[idx]), M)):
                        run.violation("vectorised-differs-from-scalar", "complex_powers", {**inp, "index": list(idx)}, "powers of z[index]", "differs")
                        break
    run.assumptions += ["(m+1) eps bound checked by oracle sampling (no theorem); np.sqrt of a complex number is a parameter of the model"]


def replay(body):
    from spherical.recursions.complex_powers import complex_powers
    inp = body["input"]
    if "z_shape" in inp:
        import numpy as np
        z = np.array([complex(*v) for v in inp["z"]]).reshape(inp["z_shape"])
        if inp.get("layout") in ("F", "transposed-view", "permuted-axes"):
            z = np.asfortranarray(z)
        if "out_layout" in inp:
            n, M = int(z.size), inp["M"]
            buf = {"columns-of-wider": lambda: np.full((n, M + 4), np.nan + 0j)[:, 1:M + 2], "every-other-row": lambda: np.full((2 * n + 1, M + 1), np.nan + 0j)[::2][:n],
                   "fortran-order": lambda: np.full((n, M + 1), np.nan + 0j, order="F")}[inp["out_layout"]]()
            complex_powers(z, M, buf)
            print("supplied output array after the call:", buf.tolist(), " without output array:", complex_powers(z, M).reshape(n, M + 1).tolist())
            return 0
        a = complex_powers(z, inp["M"])
        bad = [idx for idx in np.ndindex(*z.shape) if not np.array_equal(a[idx], complex_powers(complex(z[idx]), inp["M"]))]
        print("indices whose row is not the powers of z[index]:", bad)
        return 0
    z = complex(*inp["z"])
    zp = complex_powers(z, inp["M"])
    m = inp.get("m", 1)
    print("implementation:", zp[m], " exact:", oracle.to_complex(oracle.cpow_exact(z, m)))
    return 0
