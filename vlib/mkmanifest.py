#!/venv/bin/python
"""Writes MANIFEST.json from the table below (python -m vlib.mkmanifest)."""
import importlib
import json
import os

VERIF = os.path.dirname(os.path.dirname(os.path.abspath(__file__)))

NOTE_COMMON = ("Trusted base: Lean 4.33 kernel (+leanchecker in thorough), Mathlib v4.33 as compiled, axioms propext/Classical.choice/Quot.sound only "
               "(audited per theorem every run), the py2lean / py2lean_kern translators (validated by differential execution and bitwise correspondence every run), the correspondence harness "
               "and Lean Float (= C doubles) as execution vehicle. ")

# pid -> (technique, level text, level_note, design_ref)
KERN = ("hand-written Lean model of the kernels, generic over the arithmetic, tied to the numba kernels by bit-for-bit correspondence every run; "
        "theorems about that model (refinement of the H recursion to a size- and history-free recursion; exact-arithmetic identities); "
        "oracle gap monitor for the clauses no theorem covers")
PARTIAL_ROUNDING = " PARTIAL: the floating-point rounding-error bound (and finiteness at large ell) is not a theorem (no IEEE error analysis); it is covered by the bitwise-validated model plus an mpmath oracle sweep, which is evidence, not proof. The exact-arithmetic identification with the documented formula IS proved for every ell. "
PARTIAL = " PARTIAL: rounding-error bounds and the identification of the recursion's exact limit with the documented special functions are not theorems (no IEEE error analysis / Wigner-D theory available in Lean/Mathlib); they are covered by the bitwise-validated model plus an mpmath/Racah oracle sweep, which is evidence, not proof. "

TABLE = {
    "C01": ("Lean refinement proof of the H recursion + bitwise correspondence + mpmath oracle",
            "Proved for every arithmetic (hence IEEE doubles) and all sizes: the five-step recursion stores at each wedge coordinate a value that depends on the coordinate and beta only (HKernel.runH_refines/pure/size_indep); over checked reals the recursion never divides by zero nor takes the root of a negative number for any size, and never reads the inf/nan table entries (Finite.runH_checked_eq_real, tables_read_defined); every flat index expression of _step_2.._step_5 denotes the cell/table entry the model uses, in range (FlatSteps.*); d/D assembly formula; eps = generated eps; over exact reals the model EQUALS the documented polynomial for ell <= 1 and every unit quaternion (both degenerate Euler branches included: DDef.D_ell1, d_ell1 — pins every sign/phase/index convention), for ell = 2 (DDef2) and on both pole families for EVERY ell (DDef.D_zrot, D_pi, D_identity, H_poles); and, unconditionally, for EVERY ell, every unit quaternion and every entry: the documented d satisfies the Gumerov-Duraiswami relations (0),(41),(50) and both symmetries (DocD.isGDFamily_doc, via its generating polynomial), those relations have a unique solution, which is what the model stores (GDFamily.*), hence model of Wigner.d = documented d (DocD.objd_eq_docd) and model of Wigner.D = documented D including both degenerate Euler branches (DAll.D_all). What is NOT proved is the floating-point error bound (oracle-sampled)." + PARTIAL_ROUNDING,
            NOTE_COMMON + "quaternionic.ToEulerPhases modelled from its source; np.sqrt(complex) a parameter. Known finding F10 (subnormal near-pole band) is reported as KNOWN-FINDING.", "DESIGN.md §7 C01"),
    "C02": ("Lean theorems (exact zeros for every arithmetic, sYlm = D column in exact arithmetic, narrow-wedge safety) + bitwise correspondence + oracle to ell=1024",
            "Proved: entries below |s| are literal zeros for every scalar type; every H lookup of spin s lies in |m'|<=|s| (so an mp_max-limited calculator is safe for every ell_max); in exact arithmetic sYlm = (-1)^s sqrt((2l+1)/4pi) D^l_{m,-s} of the same model (Routes.sYlm_eq_D_column) and of the DOCUMENTED D for every ell and unit quaternion (DAll.sYlm_all); the addition theorem sum_m |sYlm|^2 = (2l+1)/4pi is proved for the model for every ell, spin and rotor (HomAll.addition_theorem); H refinement as C01. fill_sYlm agrees bitwise incl. |s|>=3, limited calculators, ell_min>0." + PARTIAL_ROUNDING,
            NOTE_COMMON + "z**|s| (numpy complex power) is a parameter of the model. Known finding F10 as in C01.", "DESIGN.md §7 C02"),
    "C03": ("Lean proof that the Horner route equals the plain double sum f_lm*sYlm (exact arithmetic, all sizes/spins) + bitwise correspondence of _evaluate_Horner + sweep of every route",
            "Proved for all ell_max, all spins: evaluateHorner = sum_{l,m} f_lm * sYlmEntry over exact reals (Routes.evaluate_eq_sum_sYlm), output cell initialised by the kernel (evaluateHornerK); the incremental flat index walking of _evaluate_Horner (both 0<m<|s| jump loops, any number of iterations, any mp_max>=|s|) lands on WignerHindex(ell, ±m, -s) of the generated index functions, i.e. on the cell the model reads, in range (IndexWalk.evalH_walk_*). _evaluate_Horner agrees bit for bit with the model. and the sYlm it sums are the documented ones (DAll.sYlm_all), so in exact arithmetic Wigner.evaluate = sum f_lm sYlm(documented) for every ell_max, spin and rotor (HomAll.evaluate_is_evalW). Matrix route = Horner route (Matrix). Larger calculators, Modes.evaluate, Modes.grid (spinsfast on/off), shapes, layouts and input immutability are checked by the sweep." + PARTIAL_ROUNDING,
            NOTE_COMMON + "BLAS matmul and spinsfast are external (numerical comparison only); conj(z)**s is a parameter.", "DESIGN.md §7 C03"),
    "C04": ("Lean proof that the Horner rotation equals sum_m' f_lm' D_m'm (exact arithmetic) + bitwise correspondence of _rotate_Horner + sweep",
            "Proved: rotateHornerEntry = sum_n f_ln * DEntry(l,n,m) over exact reals for all l (Routes.rotateHorner_eq_matrix); the flat index walking of _rotate_Horner lands on WignerHindex(ell, ±n, m) for all sizes (IndexWalk.rotH_walk_*). _rotate_Horner agrees bit for bit with the model. With the documented D (DAll) and its group laws (DocHom): rotate computes f.D(documented) (HomAll.rotate_is_rot), f'(Q) = f(R Q) (rot_evaluate / rotate_evaluate), rotations compose (P then Q = P Q), the inverse undoes, R and -R agree, every ell block keeps its norm — all for every ell in exact arithmetic. Metadata, strategies, Modes.rotate, layouts are checked by the sweep." + PARTIAL_ROUNDING,
            NOTE_COMMON + "matrix route uses BLAS (numerical comparison only).", "DESIGN.md §7 C04"),
    "C05": ("generated integer coefficients (translator) + Lean model of calculate bitwise-validated + Racah oracle",
            "The integer coefficient B and the radicand of A are re-translated from the source every run together with the declared return width; proved about the generated definitions: no fixed-width overflow of B for j2,j3 <= 20000 (C05.B_exact; a narrower declared width breaks the proof and the witness B_int32_would_overflow), radicand of A exact and non-negative on every call calculate makes with j2+j3 <= 1989 (sharp). The model of Wigner3jCalculator.calculate / Wigner3j / clebsch_gordan (which calls the generated B) reproduces the jitted code bit for bit on exhaustive small J and branch-targeted samples to j=400; proved for every arithmetic: selection-rule zeros are literal zeros, calculate does not depend on the previous workspace content, the front end hands the calculator the cyclic permutation with the largest j first and reads an in-range entry; memory safety of calculate (W3jBounds). Over exact reals (W3jNorm): the output is normalised (sum (2j+1) f(j)^2 = 1), obeys the sign convention sign f(jmax) = (-1)^(j2-j3+m2+m3), equals the closed form (-1)^(j2-j3+m2+m3)/sqrt(2j+1) whenever the range is a single cell (e.g. (j j 0; m -m 0) for every j), satisfies the three-term recurrence with the model's X,Y,Z at every cell but the one matching point, and is zero outside [jmin,jmax] (the last two under the explicit hypothesis Regular, proved for m2=m3=0, for <=3 cells and when B>=0 at either end). Conditional identification (W3jUniq): any family satisfying the Schulten-Gordon recurrence (closed-form X,Y,Z proved equal to the model's), the normalisation and the sign convention is unique and is what the model returns on Regular admissible runs (no non-vanishing side conditions); that Racah's symbols satisfy the recurrence is classical and NOT proved here." + PARTIAL,
            NOTE_COMMON + "identification with the Racah formula and the 1e-9/1e-12 bounds are oracle-checked only.", "DESIGN.md §7 C05"),
    "C06": ("Lean theorems on product metadata/truncation rules + sweep vs evaluation on rotors",
            "Lean model of Modes.__array_ufunc__/multiply/helper loop nest validated op by op against the real class (~4200 generated operations per run incl. the helper's own read/write sequence); proved for all spins/sizes: spin adds, ell_max rule with truncators, all spellings agree, the truncated product is the full product cut (same terms in the same order: bit for bit), every helper index in range (via C11), out=/in-place overwrite and reject a wrong shape. Sweep: every spelling against evaluation at rotors, truncators, function form with differing ell_min, out=/in-place, scalars." + PARTIAL,
            NOTE_COMMON + "the Clebsch-Gordan series is not proved.", "DESIGN.md §7 C06"),
    "C07": ("Lean proof of the conjugation symmetry of the D assembly (exact arithmetic, all l) + full-block sweep of the group laws",
            "Proved: D_{-m',-m} = (-1)^{m'+m} conj D_{m',m} for the model's assembly from the quarter wedge (Routes.D_conj_symm), H fold symmetric (C11.hindex_symm). D(1) = identity is proved for every ell (DDef.D_identity) as are the closed forms on both pole families. Homomorphism, unitarity (rows and columns), D(R^-1) = D(R)^dagger, D(-R) = D(R), D(1) = 1 and the conjugation symmetry are proved for the model for EVERY ell in exact arithmetic (HomAll.D_*_all = DAll.D_all + the group laws of the documented D, DocHom.*); rotation-matrix identity at ell=1 (DHom). Homomorphism, unitarity, D(-R) on every entry of every block to ell=128 are swept (quick: all blocks to 48 on the full rotor set + sampled blocks to 128 on four rotors)." + PARTIAL_ROUNDING,
            NOTE_COMMON + "the (ell+1) eps bounds are swept, not proved.", "DESIGN.md §7 C07"),
    "C08": ("Lean theorem runH_size_indep (value at a coordinate independent of ell_max, mp_max, workspace; any arithmetic => bit for bit) + cross-configuration bitwise sweep",
            "Proved for every arithmetic: two calculators of different (ell_max, mp_max) and different workspaces hold the same value at every common wedge coordinate; index functions place it (C11). Assembly kernels are pure maps of H. Sweep compares differently sized calculators, wrappers, oversized workspaces and 3-j capacities bit for bit.",
            NOTE_COMMON + "ell_min offsets are the generated index functions (C11).", "DESIGN.md §7 C09/C08/C17"),
    "C09": ("Lean theorem runH_pure (result independent of initial workspace content, any arithmetic) + poisoned-workspace bitwise correspondence + history sweep vs fresh objects",
            "Proved: the wedge after runH does not depend on what the workspace held before (every cell read was written earlier in the same call), for every arithmetic; 3-j workspace zeroed first. Kernels run from NaN/1e300-poisoned workspaces agree with the model bit for bit. All length-2 (thorough: sampled length-3) call sequences over ~45 operations on a full and a limited calculator equal a fresh object's result.",
            NOTE_COMMON + "BLAS routes to rounding only (as the property allows).", "DESIGN.md §7 C09"),
    "C10": ("Lean interleaving theorem over footprints + kernel-granularity cooperative scheduler on real threads + footprint monitor",
            "Theorem (Props/Sched when present): any interleaving of threads whose steps read only inside their private region and never write another's region leaves each region as the thread alone produces, and buffers nobody writes are unchanged. The monitor validates the footprints on the real code (no kernel of a private-workspace call is handed the default workspace; tables/default workspace byte-identical) and the scheduler drives real threads through systematic+sampled interleavings, bitwise vs sequential.",
            NOTE_COMMON + "a compiled kernel is atomic under the GIL (assumed).", "DESIGN.md §7 C10"),
    "C11": ("Lean 4 theorems about index/size functions re-translated from the Python source on every run (translator + translation validation)",
            "Machine-checked proof, for all integers, that the generated (re-translated every run) size functions count the documented nested-loop orderings and the index functions return positions in them (incl. symmetric folding, methods = free functions, int64 exactness up to 10^6 and a proved overflow witness beyond). Complete for the property; the translator is validated by differential execution on every run.",
            NOTE_COMMON + "numba types Python ints as int64 (modelled by the generated *_w twins); brute-force sweeps only support the failing-input search. Known finding F12 (int64 wrap beyond 1.6e6).", "DESIGN.md §7 C11"),
    "C12": ("Lean theorems on ladder coefficients/commutators (exact arithmetic) + exponential-series sweep against rotated evaluation",
            "Proved over exact reals for every spin, ell, m and every weight family (Model/Operators, validated bit for bit against Modes operators and the array-level functions on ~22000 cases per run): su(2) commutators and Casimir for L and R, [ethbar,eth] = 2s incl. ell=|s|, eth/ethbar coefficients sqrt((l-s)(l+s+1)) / -sqrt((l+s)(l-s+1)), annihilation below the new |s|, NP = sqrt2 GHP, array-level = Modes-level for every ell_min, ethbar_inverse two-sided inverse on its domain. And the main clause, for every ell, spin, unit axis g, rotor Q and angle t (Generators, on top of the documented D and its group law): the derivative of the rotated weights at the identity is 2i L_g f with the model's Lz, (L+ + L-)/2, (L+ - L-)/2i; rot(exp(t g)) = exp(2 i t L_g) block by block; sum_k (2it)^k/k! (L_g^k f)(Q) = f(exp(t g) Q) (left_series_eval) and the same with R_z = Rz, R_x = (ethbar-eth)/2, R_y = i(eth+ethbar)/2 for f(Q exp(t g)) (right_series_eval). Sweep: the same series summed numerically on the real code." + PARTIAL_ROUNDING,
            NOTE_COMMON + "convergence/rounding of the finite numerical series is swept, not proved.", "DESIGN.md §7 C12"),
    "C13": ("Lean proof of conjugation symmetry (Routes) + sweep of Modes algebra vs evaluation",
            "Proved (exact arithmetic): the symmetry D_{-m',-m} = (-1)^{m'+m} conj D_{m',m} and sYlm = D column, which give conj(f)(Q) = conj(f(Q)) for the conjugation rule; at FUNCTION level, tied to the model's loops and to the documented sYlm (FuncAlg): (f+-g)(Q) = f(Q)+-g(Q) for any pair of ell_max (out=/aliasing included), scalars scale pointwise, conj-weights evaluate to the complex conjugate, conjugation is an involution, real/imag evaluate to Re/Im f(Q) for spin 0 (weight formula compared with the class bit for bit every run); on the validated Modes model, for all spins/sizes: add/subtract spin rule and ell_max = max, rejections (spin mismatch, non-zero scalar, division by Modes, allow-list), conjugation pairing (ell,m)<->(ell,-m) with sign (-1)^{s+m}, method = ufunc = in-place loop, involution, out= overwrites (also when out aliases an operand). Sweep covers +,-, conjugation by every spelling incl. aliasing out=, real/imag, norm." + PARTIAL,
            NOTE_COMMON + "norm = L2 norm relies on orthonormality (not proved).", "DESIGN.md §7 C13"),
    "C14": ("Lean proof that complex_powers returns z^m exactly over the reals (all M, all quadrants) + bitwise correspondence + mpmath oracle",
            "Proved over exact reals for every unit z, every M, every m<=M: entry m = z^m (C14.cpow_exact); the quadrant loop ends within 3 turns for every real z (fuel never exhausted); entry 0 is literally 1 for every arithmetic, entry 1 is z. _complex_powers agrees with the model bit for bit on all quadrants/axes/signed zeros." + PARTIAL,
            NOTE_COMMON + "Im sqrt(z) (library complex sqrt) is a parameter; the (m+1)eps bound is oracle-checked.", "DESIGN.md §7 C14"),
    "C15": ("guards re-extracted from wigner.py every run (translator) + Lean theorems on them + full lattice sweep with a docstring-derived reference predicate",
            "The leading `if ...: raise` guards of Wigner.__init__/d/D/sYlm/rotate/evaluate/_split_workspace and Modes.index are extracted into Lean definitions on every run; proved: each extracted guard is equivalent (iff) to the documented predicate, the six workspace parts are ordered/disjoint/inside, and when the guards pass every H/D/Y index the kernels use lies inside its buffer and denotes the intended element (guard_sound_*, IndexWalk, FlatSteps); the extracted guards are validated against the real methods' outcome on the whole lattice; values vs a generously sized calculator; malformed constructor arguments.",
            NOTE_COMMON + "reference predicate written from the docstrings.", "DESIGN.md §7 C15"),
    "C16": ("Lean model of the Grid ufunc dispatcher + sweep of every allow-listed ufunc form vs numpy on raw arrays",
            "Lean model of Grid.__new__/__array_ufunc__/method forms (Model/Grid), validated op by op against the real class (3600 generated operations per run, 18 outcome kinds); proved for ALL spin weights and sizes: spin rule of every supported ufunc, rejections (spin mismatch, grid-shape mismatch, non-zero scalar on non-zero spin, outside allow-list, kwargs, non-integral power, odd sqrt, too few points), out=/in-place = binary form, result metadata always a fresh dict. Sweep: values = numpy on the raw arrays.",
            NOTE_COMMON + "numpy ufunc dispatch protocol assumed.", "DESIGN.md §7 C16"),
    "C17": ("Lean purity/size-independence theorems (per-rotor result is a function of that rotor) + sweep of vectorised/out=/workspace= forms, bitwise",
            "Per-rotor independence follows from runH_pure (each loop iteration recomputes H from scratch); sweep over rotor ranks 0..3, leading mode axes, out= of the documented shape, workspace=: shapes, bitwise equality with single-rotor calls, identity of the returned array, inputs untouched, no aliasing.",
            NOTE_COMMON + "numpy reshape of contiguous arrays is a view (assumed).", "DESIGN.md §7 C17"),
    "C18": ("Lean model of copy/pickle hooks + sweep of 5 copy routes x pickle protocols 0..5 with mutation of both sides",
            "Lean model of __array_finalize__/__reduce__/__setstate__ (object heap with dict identities), validated against the real classes on every copy route and pickle protocol; proved: all routes preserve class/spin/keys/values/data and yield a different dict and buffer; mutations on one side are invisible on the other. Sweep: 5 routes x protocols 0..5 x mutation of both sides on Modes and Grid.",
            NOTE_COMMON + "numpy's __reduce__/__setstate__ machinery assumed.", "DESIGN.md §7 C18"),
    "C19": ("Lean theorems on conversion round trips (exact arithmetic) + evaluation/rotation sweep",
            "Proved over exact reals: round trips of both conversions (both orders, complex vectors, along the last axis), sum_m w_m Y_1m(theta,phi) = v.n for all theta, phi and complex v with the explicit ell=1 harmonics, ell=0 analogue, reality relation for real vectors (Props/C19); conversions validated bit for bit. Sweep: evaluation through Wigner.evaluate at directions incl. poles, rotation of the weights by conj(R) = rotation of the vector." + PARTIAL,
            NOTE_COMMON + "uses Wigner.evaluate/rotate (C03/C04).", "DESIGN.md §7 C19"),
    "C20": ("generated Yindex/Ysize and Modes.index guards (translator) + Lean theorems + exhaustive construction sweep",
            "Proved on the validated Modes model (constructor, layout, index, truncate_ell, views) for all (s, ell_min, ell_max): the entry at Yindex(ell,m,0) is the input at Yindex(ell,m,ell_min) for ell >= max(|s|,ell_min) and zero below, accepted sizes are exactly the perfect ones, rejections, index guards iff documented and in range, truncate_ell spec incl. L<|s|, views keep metadata; Modes.index guards are re-extracted every run and validated against the method; sweep over all (s, ell_min, ell_max), leading shapes, dtypes, construction forms: stored weights, zero fill, index(), truncate_ell(), views.",
            NOTE_COMMON + "float sqrt exact on perfect squares below 2^52 (assumed).", "DESIGN.md §7 C20"),
}

GEN = ' GENERATED KERNELS (since build round 3): `_step_1.._step_5`, `Wigner.H`, the coefficient-table formulas of `Wigner.__init__`, `_fill_wigner_d`, `_fill_wigner_D`, `_fill_sYlm`, `_evaluate_Horner`, `_rotate_Horner` and `_complex_powers` are re-translated from the Python text into Lean on every run (vlib/py2lean_kern.py -> Gen/HKern, Gen/FillKern, Gen/HornerKern, Gen/RotHKern, Gen/CPowKern: same statements, loop ranges, flat index expressions and operation order, on a flat memory, generic over the arithmetic), executed at Float and compared bit for bit with the numba kernels, and PROVED to compute what the coordinate model computes for every size, arithmetic and initial memory: GenH.genH_sim / genH_refines (generated Wigner.H refines Spec.valW), GenFill.gen_d_entry / gen_D_entry / gen_Y_entry (= Model.dEntry / DEntry / sYlmEntry), GenHorner.gen_evaluate_row (= Model.evaluateHornerK), GenRot.gen_rotate_row (= Model.rotateHornerEntry), GenCPow.gen_cpow_cell (= Model.cpowers). The theorems about the model therefore hold for the code as written now, and a change to one of these kernels changes the statement that has to be re-proved. '

TABLE["C14"] = (TABLE["C14"][0] + " + kernel re-translated from the Python text every run and proved to compute the model's array",
                TABLE["C14"][1] + " GENERATED KERNEL: `_complex_powers` is re-translated from the Python text on every run (Gen/CPowKern.lean: the quadrant `while` loop with a fuel parameter, the recurrence through the output row, the clock), compared bit for bit with the numba kernel, and proved to leave entry m of Model.cpowers in cell m for every arithmetic, M and previous content of the output (GenCPow.gen_cpow_cell); hence it stores z^m over exact reals (gen_cpow_exact) and literally 1+0i in cell 0 (gen_cpow_entry0). ",
                TABLE["C14"][2], TABLE["C14"][3])

for _pid in ("C01", "C02", "C03", "C04", "C07", "C08", "C09", "C15", "C17", "C19"):
    _t = TABLE[_pid]
    TABLE[_pid] = (_t[0] + " + kernels re-translated from the Python text every run and proved to simulate the model", _t[1] + GEN, _t[2], _t[3])

FOOT = (" FOOTPRINTS FROM THE SOURCE: for every generated kernel (Wigner.H and its five steps, the three fill kernels, _evaluate_Horner, _rotate_Horner, _complex_powers, the Euler-phase kernel) it is proved, for every size, arithmetic and memory content, that the memory after the call differs from the memory before it at most on the arrays the kernel is handed for writing (Footprint.*_only, by a tactic that decomposes the regenerated text: it succeeds iff every store names a listed array); hence no kernel writes a coefficient table, an input or another call's array, and the Wigner.D chain that re-reads its inputs in place equals the chain with captured inputs (Footprint.gen_D_chain_inplace). ")
for _pid in ("C09", "C10", "C17"):
    _t = TABLE[_pid]
    TABLE[_pid] = (_t[0], _t[1] + FOOT, _t[2], _t[3])

METH = (" METHOD BODIES FROM THE SOURCE: the per-rotor kernel wiring of Wigner.D, Wigner.sYlm and the Horner branches of Wigner.evaluate and Wigner.rotate is itself re-translated from the method text on every run (vlib/py2lean_kern.generate_methods -> Gen/MethodKern.lean: the calls in the order and with the arguments the text gives them, every read-only argument being the current content of the workspace array at the call, shapes of the power arrays read off Wigner._split_workspace), executed at Float on one poisoned memory and compared bit for bit with the real method (corr batches Wigner.*-generated-method-body), and PROVED equal to the chains the capstone theorems are about whenever the workspace parts are distinct arrays (GenMethod.D_rotor_eq / sYlm_rotor_eq / evaluate_rotor_eq / rotate_rotor_eq, using the kernels' footprints), so that GenMethod.D_rotor_doc, sYlm_rotor_doc, evaluate_rotor_doc, rotate_rotor_doc state the documented functions for the generated method bodies; and each body writes only its workspace parts and its output (GenMethod.*_rotor_only); the value a body writes does not depend on the memory it starts from (GenMethod.*_rotor_pure, every arithmetic); and the generated `for i_R in range(quaternions.shape[0])` loops leave in row/column i exactly what the single-rotor body writes for rotor i on any memory (GenMethod.D_loop_row, sYlm_loop_row, evaluate_loop_col; the D loop is also run against the real vectorised call bit for bit, corr batch Wigner.D-generated-loop). ")
for _pid in ("C01", "C02", "C03", "C04", "C07", "C09", "C10", "C17"):
    _t = TABLE[_pid]
    TABLE[_pid] = (_t[0], _t[1] + METH, _t[2], _t[3])

DIFF = (" OPERATOR LOOPS FROM THE SOURCE: the `for ell in …` loops of Modes.Lsquared, Lz, Lplus, Lminus, Rplus, Rminus (spherical/modes/derivatives.py) and Modes.index with its guards (spherical/modes/utilities.py) are re-translated into Lean on every run (vlib/py2lean_kern.generate_diffkern -> Gen/DiffKern.lean: same ranges, index calls, coefficient expressions and slice statements, for one element of the leading axes), run at Float on the executable flat memory and compared bit for bit with the real methods (strata genmodesop:* of the operators correspondence, incl. non-finite weights), and PROVED, for every spin weight, ell_max, arithmetic and array content, to leave in cell (ell, m) exactly the weight of the hand-written operator of Model/Operators.lean that every theorem of Props/C12 is about (GenDiff.gen_Lz, gen_Lsquared, gen_Lplus, gen_Lminus, gen_Rplus, gen_Rminus), the guards of Modes.index never firing inside the loops (GenDiff.index_never_raises). Rz, eth = Rminus, ethbar = -Rplus and the metadata handling of the constructors remain hand-modelled (bitwise correspondence). ")
_t = TABLE["C12"]
TABLE["C12"] = (_t[0] + " + operator loops re-translated from the Python text every run and proved equal to the model", _t[1] + DIFF, _t[2], _t[3])

NOT_YET = {}


def main():
    props = [json.loads(l) for l in open(os.path.join(VERIF, "properties.jsonl"), encoding="utf-8")]
    checks, na = [], []
    for p in props:
        pid = p["id"]
        have = os.path.exists(os.path.join(VERIF, "vlib", "props", f"{pid}.py")) and pid in TABLE
        if have:
            tech, text, note, ref = TABLE[pid]
            checks.append({
                "property_id": pid,
                "quick_cmd": f"./check {pid} --tier quick",
                "thorough_cmd": f"./check {pid} --tier thorough",
                "evidence_file": f"evidence/{pid}.json",
                "replay_cmd_template": f"./check {pid} --replay {{path}}",
                "engine": "lean4-proof+correspondence",
                "level_claimed": {"category": "proof", "text": text, "design_ref": ref},
                "level_note": note,
                "technique": tech,
            })
        else:
            na.append({"property_id": pid, "reason": NOT_YET.get(pid, "check not built yet at this commit (no claim made); see DESIGN.md §7 for the planned proof")})
    man = {
        "version": 1,
        "setup_cmd": "./setup.sh",
        "hooks": {"guard": "SPHERICAL_VERIF", "enable": "no source hooks: kernels are module-level globals wrapped from outside (SPHERICAL_VERIF=1 is exported by ./check but read by nothing in /repo)",
                  "baseline_off_cmd": "cd /repo && /venv/bin/python -m pytest -ra -q -p no:cacheprovider --timeout=900 --continue-on-collection-errors",
                  "source_commits": [], "add_only": True},
        "engines": [{"name": "lean4-proof+correspondence", "path": "lean/ + vlib/", "serves_properties": [c["property_id"] for c in checks],
                     "kind_free_text": "Lean 4 theorems about (a) definitions re-translated from the Python source each run (integer/index code, guards, and the array kernels of the H recursion, fill and Horner evaluation) and (b) hand-written executable models tied to the numba kernels by bit-for-bit correspondence, with (a) proved to simulate (b); failing-input search + oracle gap monitor in Python"}],
        "checks": checks,
        "not_applicable": na,
        "notes": "One entry point ./check Cxx --tier quick|thorough. Exit 0 = held; 1 = VIOLATION line(s); 2 = infrastructure error. KNOWN_FINDINGS.json lists recorded/fixed defects.",
    }
    with open(os.path.join(VERIF, "MANIFEST.json"), "w", encoding="utf-8") as f:
        json.dump(man, f, indent=1, ensure_ascii=False)
    print(f"MANIFEST: {len(checks)} checks, {len(na)} not_applicable")


if __name__ == "__main__":
    main()
