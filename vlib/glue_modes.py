"""Correspondence of the Lean model of `spherical.Modes`'s decision logic and storage layout
(lean/SphericalVerif/Model/Modes.lean, run by the compiled driver through Driver/ModesOps.lean) with the real class.

`corr(run, quick)` generates structured operations, executes each on REAL `spherical.Modes` objects, canonicalises
what happened (class / shape / metadata of the result, or the exception as a small enum), sends the same operation
as a protocol line to the driver and compares the two strings.  Kinds of lines: constructor calls (keyword /
positional / deduced / Modes input / real pairs, valid and invalid sizes), the full stored layout of valid
constructions (distinct tags in, positions out), `index`, `truncate_ell`, leading-axis views, ufuncs in
call / operator / reflected / in-place / `out=` / method spellings, the conjugation pairing entry by entry,
the loop nest of `_multiplication_helper` term by term, and the copy / pickle routes.

All randomness comes from `run.rng`.  Since the `out=` shape check was added to the Modes x Modes branches, products
whose `out` is too small are rejected before anything is written, so they are executed like any other case; the
entries written by add / subtract / multiply with `out=` (separate, stale, or aliasing an operand) are compared too."""
import copy
import operator
import pickle
import warnings

import numpy as np

KIND = "modes-dispatch"


class Const:
    """`lambda t: k`, picklable and recognisable"""

    def __init__(self, k):
        self.k = k

    def __call__(self, t):
        return self.k


def tname(t):
    if t is None:
        return "n"
    if t is sum:
        return "sum"
    if t is max:
        return "max"
    if t is min:
        return "min"
    if isinstance(t, Const):
        return f"c{t.k}"
    return "?"


def shp(shape):
    return "x".join(str(int(d)) for d in shape) if len(shape) else "-"


def dmodes(m):
    return f"M:{m.s}:{m.ell_max}:{shp(m.shape[:-1])}:{tname(m._metadata.get('multiplication_truncator'))}:{m.shape[-1]}"


def darr(a):
    a = np.asanyarray(a)
    return f"A:{shp(a.shape)}:{'nz' if np.any(a) else 'z'}"


def doperand(x):
    import spherical
    return dmodes(x) if isinstance(x, spherical.Modes) else darr(x)


def canon_exc(e):
    if isinstance(e, NotImplementedError):
        return "notimplerror"
    if isinstance(e, TypeError):
        return "notimpl"
    if isinstance(e, IndexError):
        return "indexerror"
    if isinstance(e, ValueError):
        return "valueerror"
    if isinstance(e, AttributeError):
        return "attrerror"
    return "exc:" + type(e).__name__


def canon_modes(r):
    return f"modes s={r.s} L={r.ell_max} lead={shp(r.shape[:-1])} n={r.shape[-1]} t={tname(r._metadata.get('multiplication_truncator'))}"


def canon(r, out=None):
    import spherical
    if isinstance(r, spherical.Modes):
        s = canon_modes(r)
        if isinstance(out, spherical.Modes):
            s += f" om={out._metadata.get('spin_weight')},{out._metadata.get('ell_max')},{tname(out._metadata.get('multiplication_truncator'))}"
        return s
    if isinstance(r, (np.ndarray, np.generic)):
        return f"ndarray:{np.asarray(r).dtype.kind}:{shp(np.shape(r))}"
    if r is NotImplemented:
        return "notimpl"
    return "other:" + type(r).__name__


def attempt(f, out=None):
    with warnings.catch_warnings():
        warnings.simplefilter("ignore")
        with np.errstate(all="ignore"):
            try:
                return canon(f(), out)
            except Exception as e:  # noqa: BLE001 - every exception is an outcome
                return canon_exc(e)


class Gen:
    def __init__(self, run, quick):
        import spherical
        self.S = spherical
        self.run, self.rng, self.quick = run, run.rng, quick
        self.np = np.random.default_rng(self.rng.getrandbits(32))
        self.cases = []  # (line, expected, stratum, sample)

    # ---------- random ingredients ----------
    def spin(self):
        return self.rng.randint(-4, 4)

    def ell(self, hi=12):
        r = self.rng.random()
        return self.rng.randint(0, 3) if r < 0.5 else self.rng.randint(0, 6) if r < 0.8 else self.rng.randint(0, hi)

    def lead(self):
        return self.rng.choice([(), (), (), (2,), (3,), (1,), (2, 3), (2, 1), (1, 3)])

    def trunc(self, p=0.3):
        if self.rng.random() > p:
            return None
        return self.rng.choice([sum, max, min, Const(self.rng.randint(0, 6))])

    def data(self, shape):
        return self.np.normal(size=shape) + 1j * self.np.normal(size=shape)

    def modes(self, s=None, L=None, lead=None, trunc="rand"):
        s = self.spin() if s is None else s
        L = self.ell() if L is None else L
        lead = self.lead() if lead is None else lead
        t = self.trunc() if trunc == "rand" else trunc
        kw = {} if t is None else {"multiplication_truncator": t}
        return self.S.Modes(self.data(lead + ((L + 1) ** 2,)), spin_weight=s, ell_min=0, ell_max=L, **kw)

    def array(self, like_lead=None, zero=None):
        r = self.rng.random()
        if like_lead is not None and r < 0.5:
            shape = self.rng.choice([(), like_lead, like_lead[1:], (1,) * len(like_lead)])
        else:
            shape = self.rng.choice([(), (), (2,), (3,), (1,), (2, 3), (4,)])
        zero = (self.rng.random() < 0.5) if zero is None else zero
        if zero:
            a = np.zeros(shape, dtype=self.rng.choice([float, complex]))
        else:
            a = self.data(shape) if self.rng.random() < 0.5 else self.np.normal(size=shape) + 2.0
        if shape == () and self.rng.random() < 0.6:
            a = self.rng.choice([complex(a), float(np.real(a)), int(np.real(a)) if zero else 3])
        return a

    def add(self, line, expected, stratum, sample=None):
        self.cases.append((line, expected, stratum, sample))

    # ---------- constructor ----------
    def gen_ctor(self, n):
        S, rng = self.S, self.rng
        for _ in range(n):
            s, lead = self.spin(), self.lead()
            ell_min = rng.choice([0, 0, 0, rng.randint(0, 4), rng.randint(0, 12), rng.randint(-2, 0)])
            L = ell_min + rng.randint(-1, 4) if rng.random() < 0.6 else self.ell()
            form = rng.choice(["keyword", "keyword", "pos3", "pos3", "pos1", "pos1", "deduced", "deduced", "deduced", "deduced", "badpos", "badpos", "nospin", "nospin",
                               "modes-in", "modes-in", "zero-dim"])
            size = (L + 1) ** 2 - ell_min ** 2
            validsize = size >= 0
            if not validsize or rng.random() < 0.25:
                size = max(0, size + rng.choice([-2, -1, 1, 2, 3, 5]))
            real = rng.random() < 0.3
            t = self.trunc(0.15)
            tkw = {} if t is None else {"multiplication_truncator": t}
            if form == "zero-dim":
                raw = np.array(1.0 if real else 1.0 + 0j)
                given = rng.random() < 0.5
                call = (lambda raw=raw: S.Modes(raw, spin_weight=s, ell_max=0)) if given else (lambda raw=raw: S.Modes(raw, spin_weight=s))
                line = f"ctor P=- S={s} EMIN=n EMAX={0 if given else 'n'} T=n IN=A:-:{'r' if real else 'c'}"
                self.add(line, attempt(call), "ctor:zero-dim")
                continue
            tags = (1000.0 + np.arange(size)) + 0j
            rows = int(np.prod(lead)) if lead else 1
            data = (tags[None, :] + 1e6 * np.arange(rows)[:, None]).reshape(lead + (size,))
            if real:
                raw = data.view(float).copy()
                if rng.random() < 0.15:
                    raw = raw[..., :-1].copy()  # odd number of reals: cannot be viewed as complex
            else:
                raw = data.copy()
            ind = f"A:{shp(raw.shape)}:{'r' if real else 'c'}"
            P, kS, kmin, kmax = "-", "n", "n", "n"
            if form == "keyword":
                kS, kmin, kmax = s, ell_min, L
                call = lambda: S.Modes(raw, spin_weight=s, ell_min=ell_min, ell_max=L, **tkw)
            elif form == "pos3":
                P = f"{s},{ell_min},{L}"
                call = lambda: S.Modes(raw, s, ell_min, L, **tkw)
            elif form == "pos1":
                P, kmin, kmax = f"{s}", ell_min, L
                call = lambda: S.Modes(raw, s, ell_min=ell_min, ell_max=L, **tkw)
            elif form == "deduced":
                kS, kmin = s, ell_min
                if ell_min == 0 and rng.random() < 0.5:
                    kmin = "n"
                    call = lambda: S.Modes(raw, spin_weight=s, **tkw)
                else:
                    call = lambda: S.Modes(raw, spin_weight=s, ell_min=ell_min, **tkw)
            elif form == "badpos":
                if rng.random() < 0.5:
                    P = f"{s},{ell_min}"
                    call = lambda: S.Modes(raw, s, ell_min, **tkw)
                else:
                    P = f"{s},{ell_min},{L},0"
                    call = lambda: S.Modes(raw, s, ell_min, L, 0, **tkw)
            elif form == "nospin":
                kmin, kmax = ell_min, L
                call = lambda: S.Modes(raw, ell_min=ell_min, ell_max=L, **tkw)
            else:  # a Modes as input, with or without overriding keywords
                base = self.modes(lead=lead)
                ind = dmodes(base)
                which = rng.choice(["plain", "spin", "ellmax", "ellmin", "trunc", "pos1"])
                if which == "plain":
                    call = lambda: S.Modes(base)
                elif which == "spin":
                    kS = s
                    call = lambda: S.Modes(base, spin_weight=s)
                elif which == "ellmax":
                    kmax = L
                    call = lambda: S.Modes(base, ell_max=L)
                elif which == "ellmin":
                    kmin = ell_min
                    call = lambda: S.Modes(base, ell_min=ell_min)
                elif which == "trunc":
                    t = self.trunc(1.0)
                    call = lambda: S.Modes(base, multiplication_truncator=t)
                else:
                    P = f"{s}"
                    call = lambda: S.Modes(base, s)
                line = f"ctor P={P} S={kS} EMIN={kmin} EMAX={kmax} T={tname(t) if which == 'trunc' else 'n'} IN={ind}"
                self.add(line, attempt(call), "ctor:modes-input")
                continue
            line = f"ctor P={P} S={kS} EMIN={kmin} EMAX={kmax} T={tname(t)} IN={ind}"
            result = []
            got = attempt(lambda: result.append(call()) or result[0])
            self.add(line, got, f"ctor:{form}:{'ok' if got.startswith('modes') else got}", {"line": line, "outcome": got})
            if result and got.startswith("modes"):
                m = result[0]
                arr = np.asarray(m.view(np.ndarray)).reshape((rows, m.shape[-1]))
                layouts = set()
                for r in range(rows):
                    layouts.add(" ".join("z" if v == 0 else str(int(round(v.real - 1000.0 - 1e6 * r))) for v in arr[r]))
                want = layouts.pop() if len(layouts) == 1 else "rows-differ"
                self.add(f"stored {m.s} {ell_min} {m.ell_max}", want, "stored-layout", {"s": m.s, "ell_min": ell_min, "ell_max": m.ell_max, "layout": want[:60]})

    # ---------- index / truncate / views ----------
    def gen_index(self, n):
        for _ in range(n):
            f = self.modes(lead=())
            if self.rng.random() < 0.5:
                ell = self.rng.randint(-1, f.ell_max + 2)
                m = self.rng.randint(-ell - 2, ell + 2) if self.rng.random() < 0.8 else self.rng.choice([-ell, ell, 0])
            else:
                ell = self.rng.randint(min(abs(f.s), f.ell_max + 1), f.ell_max + 1)
                m = self.rng.randint(-ell - 1, ell + 1)

            def call():
                i = f.index(ell, m)
                return "ok " + str(int(i))
            try:
                got = call()
            except Exception as e:  # noqa: BLE001
                got = canon_exc(e)
            self.add(f"index {dmodes(f)} {ell} {m}", got, "index:" + ("ok" if got.startswith("ok") else got))

    def gen_trunc(self, n):
        for _ in range(n):
            f = self.modes()
            L = self.rng.randint(-2, f.ell_max + 2)
            before = dmodes(f)
            try:
                t = f.truncate_ell(L)
                got = f"{canon_modes(t)} same={1 if t is f else 0} orig={f.s},{f.ell_max},{tname(f._metadata.get('multiplication_truncator'))},{f.shape[-1]}"
            except Exception as e:  # noqa: BLE001
                got = canon_exc(e)
            self.add(f"trunc {before} {L}", got, "truncate:" + ("negative" if L < 0 else "below-|s|" if L < abs(f.s) else "identity" if L >= f.ell_max else "normal"))

    def gen_view(self, n):
        for _ in range(n):
            f = self.modes()
            try:
                v = f[0]
                got = canon_modes(v) if isinstance(v, self.S.Modes) else "scalar"
            except Exception as e:  # noqa: BLE001
                got = canon_exc(e)
            self.add(f"view {dmodes(f)}", got, "view:" + ("lead" if f.ndim > 1 else "no-lead"))

    # ---------- ufuncs ----------
    def product_safe(self, a, b, out_shape, truncator=None):
        """only a cost filter now: a wrong-shaped `out` is rejected by the code before the helper runs"""
        La, Lb = a.ell_max, b.ell_max
        if truncator is not None:
            L = truncator((La, Lb))
        else:
            L = max(t((La, Lb)) for t in (a._metadata.get("multiplication_truncator", sum), b._metadata.get("multiplication_truncator", sum)))
        return 0 <= L <= 26

    def make_out(self, shape_hint, operand):
        """an `out` argument: None / ndarray / Modes of assorted shapes / the first operand itself"""
        r = self.rng.random()
        if r < 0.45:
            return None
        shape = tuple(shape_hint)
        k = self.rng.random()
        if k < 0.15 and len(shape):
            shape = (3,) + shape if self.rng.random() < 0.5 else shape[:-1] + (shape[-1] + 7,)
        elif k < 0.25 and len(shape):
            shape = shape[:-1] + (max(1, shape[-1] - 1),)
        if r < 0.75 or not len(shape):
            return np.full(shape, 5.0 + 0j)
        if r < 0.9:
            n = shape[-1]
            L = int(round(np.sqrt(n))) - 1
            if (L + 1) ** 2 == n:
                return self.modes(s=self.spin(), L=L, lead=shape[:-1], trunc=self.trunc(0.3))
            return np.full(shape, 5.0 + 0j)
        return operand if isinstance(operand, self.S.Modes) else None

    def gen_ufunc_binary(self, n):
        rng, S = self.rng, self.S
        names = ["add", "subtract", "multiply", "divide", "true_divide", "equal", "not_equal", "logical_and", "logical_or",
                 "maximum", "power", "arctan2", "less", "floor_divide", "matmul", "hypot"]
        weights = [6, 4, 6, 3, 1, 1, 1, 1, 1, 1, 1, 1, 1, 1, 1, 1]
        for _ in range(n):
            name = rng.choices(names, weights)[0]
            uf = getattr(np, name)
            a = self.modes()
            kind = rng.choice(["MM", "MM", "MM-samespin", "MS", "SM", "SS-outM"])
            if kind.startswith("MM"):
                b = self.modes(s=a.s if (kind == "MM-samespin" or rng.random() < 0.6) else None,
                               lead=a.shape[:-1] if rng.random() < 0.5 else None)
                args = (a, b)
            elif kind == "MS":
                args = (a, self.array(a.shape[:-1]))
            elif kind == "SM":
                args = (self.array(a.shape[:-1]), a)
            else:
                args = (self.array(), self.array())
            # shape the result would naturally have
            try:
                if kind.startswith("MM"):
                    ld = np.broadcast_shapes(args[0].shape[:-1], args[1].shape[:-1])
                    if name == "multiply":
                        L = max(t((args[0].ell_max, args[1].ell_max)) for t in (args[0]._metadata.get("multiplication_truncator", sum), args[1]._metadata.get("multiplication_truncator", sum)))
                    else:
                        L = max(args[0].ell_max, args[1].ell_max)
                    hint = ld + ((max(L, 0) + 1) ** 2,)
                elif kind in ("MS", "SM"):
                    hint = np.broadcast_shapes(a.shape[:-1], np.shape(args[1] if kind == "MS" else args[0])) + (a.shape[-1],)
                else:
                    hint = a.shape
            except ValueError:
                hint = a.shape
            out = self.make_out(hint, args[0]) if (kind != "SS-outM") else self.modes()
            kw = rng.random() < 0.08
            if name == "multiply" and kind.startswith("MM") and not kw:
                if not self.product_safe(args[0], args[1], None if out is None else out.shape):
                    continue
            if name == "matmul":
                if kind == "SS-outM":
                    continue
                out = None
            line = f"uf {name} {doperand(args[0])};{doperand(args[1])} {'n' if out is None else doperand(out)} {1 if kw else 0}"
            kwargs = {}
            if out is not None:
                kwargs["out"] = out
            if kw:
                kwargs.update(rng.choice([{"where": True}, {"dtype": complex}, {"casting": "unsafe"}]))
                if name in ("equal", "not_equal", "logical_and", "logical_or", "less", "maximum") and "dtype" in kwargs:
                    kwargs = {k: v for k, v in kwargs.items() if k != "dtype"}
                    kwargs["where"] = True
            got = attempt(lambda: uf(*args, **kwargs), out)
            self.add(line, got, f"ufunc2:{name}:{kind}:{'out' if out is not None else 'noout'}{':kw' if kw else ''}", {"line": line, "outcome": got})

    def gen_ufunc_unary(self, n):
        rng = self.rng
        names = ["positive", "negative", "conjugate", "conj", "absolute", "isfinite", "isinf", "isnan", "exp", "log", "sin", "sqrt",
                 "square", "floor", "tanh", "sign", "reciprocal", "logical_not"]
        weights = [3, 3, 4, 2, 3, 1, 1, 1, 1, 1, 1, 1, 1, 1, 1, 1, 1, 1]
        for _ in range(n):
            name = rng.choices(names, weights)[0]
            uf = getattr(np, name)
            a = self.modes()
            if rng.random() < 0.1:
                # plain input, Modes only in `out`
                out = self.modes()
                arg = self.array()
            else:
                arg = a
                out = self.make_out(a.shape if name != "absolute" else a.shape[:-1], a)
            if rng.random() < 0.08 and isinstance(arg, self.S.Modes) and arg.shape[-1] > 2 and out is None:
                # a malformed object: last axis shorter than its ell_max says
                k = rng.randint(1, arg.shape[-1] - 1)
                arg = arg[..., :k]
            kw = rng.random() < 0.08
            line = f"uf {name} {doperand(arg)} {'n' if out is None else doperand(out)} {1 if kw else 0}"
            kwargs = {}
            if out is not None:
                kwargs["out"] = out
            if kw:
                kwargs["where"] = True
            got = attempt(lambda: uf(arg, **kwargs), out)
            self.add(line, got, f"ufunc1:{name}:{'out' if out is not None else 'noout'}{':kw' if kw else ''}")

    def gen_operator(self, n):
        rng = self.rng
        ops = {"add": (operator.add, operator.iadd), "sub": (operator.sub, operator.isub), "mul": (operator.mul, operator.imul),
               "div": (operator.truediv, operator.itruediv)}
        for _ in range(n):
            name = rng.choice(["add", "add", "sub", "mul", "mul", "div"])
            form = rng.choice(["bin", "bin", "reflected", "inp"])
            a = self.modes()
            r = rng.random()
            if r < 0.5:
                b = self.modes(s=a.s if rng.random() < 0.6 else None, lead=a.shape[:-1] if rng.random() < 0.6 else None,
                               L=rng.choice([0, 0, a.ell_max, None]) if form == "inp" else None)
            else:
                b = self.array(a.shape[:-1])
            x, y = (b, a) if (form == "reflected" and not isinstance(b, self.S.Modes)) else (a, b)
            lform = "inp" if form == "inp" else "bin"
            if name == "mul" and isinstance(x, self.S.Modes) and isinstance(y, self.S.Modes):
                if not self.product_safe(x, y, x.shape if lform == "inp" else None):
                    continue
            line = f"op {lform} {name} {doperand(x)} {doperand(y)}"
            f = ops[name][1 if lform == "inp" else 0]
            got = attempt(lambda: f(x, y), x if lform == "inp" else None)
            self.add(line, got, f"operator:{name}:{form}:{'MM' if isinstance(b, self.S.Modes) else 'scalar'}", {"line": line, "outcome": got})
        for _ in range(n // 6):
            name = rng.choice(["pos", "neg", "abs"])
            a = self.modes()
            f = {"pos": operator.pos, "neg": operator.neg, "abs": abs}[name]
            self.add(f"un {name} {dmodes(a)}", attempt(lambda: f(a)), f"operator:{name}")

    def gen_method(self, n):
        rng = self.rng
        for _ in range(n):
            name = rng.choice(["add", "subtract", "multiply", "multiply", "divide", "conjugate", "conjugate_inplace", "real", "imag", "norm"])
            a = self.modes(s=0 if (name in ("real", "imag") and rng.random() < 0.5) else None)
            if name in ("conjugate", "conjugate_inplace", "real", "imag", "norm"):
                if rng.random() < 0.08 and a.shape[-1] > 2:
                    a = a[..., :rng.randint(1, a.shape[-1] - 1)]
                line = f"meth {name} {dmodes(a)}"
                if name == "conjugate":
                    sp = rng.choice(["conjugate", "conj", "bar"])
                    f = {"conjugate": lambda: a.conjugate(), "conj": lambda: a.conj(), "bar": lambda: a.bar}[sp]
                    got = attempt(f)
                    got = got + " same=0" if got.startswith("modes") else got + " same=0"
                elif name == "conjugate_inplace":
                    res = []
                    got = attempt(lambda: res.append(a.conjugate(inplace=True)) or res[0])
                    got += " same=1" if (res and res[0] is a) else " same=0"
                elif name == "norm":
                    got = attempt(lambda: a.norm())
                else:
                    got = attempt(lambda: getattr(a, name))
                self.add(line, got, f"method:{name}")
                continue
            if rng.random() < 0.55:
                b = self.modes(s=a.s if rng.random() < 0.6 else None, lead=a.shape[:-1] if rng.random() < 0.6 else None)
            else:
                b = self.array(a.shape[:-1])
            t = None
            if name == "multiply" and isinstance(b, self.S.Modes):
                t = self.trunc(0.5)
                if not self.product_safe(a, b, None, t):
                    continue
            line = f"meth {name} {dmodes(a)} {doperand(b)}" + (f" {tname(t)}" if t is not None else "")
            if t is not None:
                got = attempt(lambda: a.multiply(b, truncator=t) if rng.random() < 0.5 else a.multiply(b, t))
            else:
                got = attempt(lambda: getattr(a, name)(b))
            self.add(line, got, f"method:{name}:{'MM' if isinstance(b, self.S.Modes) else 'scalar'}{':truncator' if t is not None else ''}")

    # ---------- entries: conjugation pairing ----------
    def gen_conjrow(self, n):
        rng, S = self.rng, self.S
        for _ in range(n):
            s, L = self.spin(), self.ell(8)
            nn = (L + 1) ** 2
            tags = (np.arange(nn) + 1.0) * (1 + 1j)
            form = rng.choice(["method", "inplace", "ufunc"])
            if form == "inplace":
                # the receiver's raw content (no constructor zeroing): build through a view
                f = tags.copy().view(S.Modes)
                f._metadata = {"spin_weight": s, "ell_max": L}
                r = f.conjugate(inplace=True)
            else:
                f = tags.copy().view(S.Modes)
                f._metadata = {"spin_weight": s, "ell_max": L}
                r = f.conjugate() if form == "method" else np.conjugate(f)
            toks = []
            for v in np.asarray(r.view(np.ndarray)):
                if v == 0:
                    toks.append("z")
                    continue
                p = int(round(abs(v.real))) - 1
                neg = v.real < 0
                conj = (v.imag < 0) != neg
                toks.append(("-" if neg else "+") + str(p) + ("*" if conj else ""))
            self.add(f"conjrow {form} {s} {L}", " ".join(toks), f"conj-pairing:{form}", {"s": s, "L": L, "form": form})

    # ---------- entries of add / subtract / multiply with out= ----------
    def gen_outrows(self, n):
        rng, S = self.rng, self.S
        for _ in range(n):
            L1, L2 = rng.randint(0, 4), rng.randint(0, 4)
            s = self.spin()
            name = rng.choice(["add", "sub"])
            alias = rng.choice(["n", "o", "a", "b"])
            if alias == "a" and L1 < L2:
                L1, L2 = L2, L1
            if alias == "b" and L2 < L1:
                L1, L2 = L2, L1
            n1, n2, nn = (L1 + 1) ** 2, (L2 + 1) ** 2, (max(L1, L2) + 1) ** 2
            # raw tags (no constructor zeroing): build through views
            f = (np.arange(n1) + 1.0 + 0j).view(S.Modes)
            f._metadata = {"spin_weight": s, "ell_max": L1}
            g = (1j * (np.arange(n2) + 1.0)).view(S.Modes)
            g._metadata = {"spin_weight": s, "ell_max": L2}
            out = {"n": None, "o": np.full(nn, 1e6 + 1e6j), "a": f, "b": g}[alias]
            uf = np.add if name == "add" else np.subtract
            try:
                r = uf(f, g) if out is None else uf(f, g, out=out)
                arr = np.asarray(r.view(np.ndarray)).copy()
                lo = s * s  # the constructor zeroes the result below |s|
                got = " ".join("0,0" if p < lo else f"{int(round(v.real))},{int(round(v.imag))}" for p, v in enumerate(arr))
            except Exception as e:  # noqa: BLE001
                got = canon_exc(e)
            self.add(f"addrow {name} {L1} {L2} {alias} {s}", got, f"out-entries:{name}:{alias}", {"L1": L1, "L2": L2, "alias": alias})
        for _ in range(n):
            L1, L2 = rng.randint(0, 3), rng.randint(0, 3)
            alias = rng.choice(["o", "a", "b"])
            t = rng.choice([sum, max, min])
            if alias == "a":
                t, L2 = (max, min(L1, L2)) if L2 else (rng.choice([sum, max]), 0)
            if alias == "b":
                t, L1 = (max, min(L1, L2)) if L1 else (rng.choice([sum, max]), 0)
            s1, s2 = rng.randint(-1, 1), rng.randint(-1, 1)
            f = self.modes(s=s1, L=L1, lead=(), trunc=t)
            g = self.modes(s=s2, L=L2, lead=(), trunc=t)
            L = t((L1, L2))
            want = np.asarray((f * g).view(np.ndarray)).copy()
            out = {"o": np.full((L + 1) ** 2, 7.5 - 2j), "a": f, "b": g}[alias]
            try:
                r = np.multiply(f, g, out=out)
                got = "same" if np.asarray(r.view(np.ndarray)).tobytes() == want.tobytes() else "differs"
            except Exception as e:  # noqa: BLE001
                got = canon_exc(e)
            self.add(f"mulout {L1} {L2} {L} {alias}", got, f"out-entries:mul:{alias}", {"L1": L1, "L2": L2, "L": L, "alias": alias})

    # ---------- the loop nest of the multiplication helper ----------
    def gen_terms(self, n):
        from spherical.multiplication import _multiplication_helper
        py = _multiplication_helper.py_func
        rng = self.rng
        for _ in range(n):
            L1, L2 = rng.randint(0, 3), rng.randint(0, 3)
            Lfg = rng.randint(0, L1 + L2 + 1)
            s1, s2 = rng.randint(-1, 1), rng.randint(-1, 1)
            log = []

            class Rec:
                def __init__(self, tag):
                    self.tag = tag

                def __getitem__(self, key):
                    if self.tag != "fg":
                        log.append((self.tag, int(key[-1])))
                    return 1.0

                def __setitem__(self, key, v):
                    log.append((self.tag, int(key[-1])))
            py(Rec("f"), 0, L1, s1, Rec("g"), 0, L2, s2, Rec("fg"), 0, Lfg, s1 + s2)

            def lm(i):
                ell = int(np.floor(np.sqrt(i)))
                return ell, i - ell * (ell + 1)
            terms, cf, cg = [], None, None
            for tag, i in log:
                if tag == "f":
                    cf = lm(i)
                elif tag == "g":
                    cg = lm(i)
                else:
                    e3, m3 = lm(i)
                    assert m3 == cf[1] + cg[1]
                    terms.append(f"{cf[0]},{cf[1]},{cg[0]},{cg[1]},{e3}")
            self.add(f"termlist {L1} {L2} {Lfg}", " ".join(terms), "helper-terms", {"L1": L1, "L2": L2, "Lfg": Lfg, "n_terms": len(terms)})

    # ---------- copy / pickle routes ----------
    def gen_copy(self):
        S = self.S
        routes = [("copy_method", lambda o: o.copy()), ("copy_copy", copy.copy), ("deepcopy", copy.deepcopy),
                  ("np_array", lambda o: np.array(o, copy=True, subok=True)), ("view", lambda o: o[...]),
                  ("trunc", lambda o: o.truncate_ell(o.ell_max - 1))]
        for p in range(pickle.HIGHEST_PROTOCOL + 1):
            routes.append((f"pickle{p}", lambda o, p=p: pickle.loads(pickle.dumps(o, protocol=p))))

        def show(v):
            if isinstance(v, list):
                return "[" + ",".join(str(x) for x in v) + "]"
            return tname(v) if callable(v) else str(v)
        for s in ([-2, 1] if self.quick else range(-3, 4)):
            for L in ([2, 3] if self.quick else [1, 2, 3, 5]):
                for nested in (0, 1):
                    for rname, route in routes:
                        kw = {"note": [7, 8]} if nested else {}
                        o = S.Modes(self.data(((L + 1) ** 2,)), spin_weight=s, ell_min=0, ell_max=L, multiplication_truncator=max, **kw)
                        try:
                            c = route(o)
                            ns = "none"
                            if nested:
                                ns = "shared" if c._metadata["note"] is o._metadata["note"] else "fresh"
                            keys = ";".join(sorted(f"{k}={show(v)}" for k, v in c._metadata.items()))
                            okeys = ";".join(sorted(f"{k}={show(v)}" for k, v in o._metadata.items()))
                            got = (f"cls={type(c).__name__} sharesdata={1 if np.shares_memory(c, o) else 0} samedict={1 if c._metadata is o._metadata else 0} "
                                   f"nested={ns} {keys} orig={okeys}")
                        except Exception as e:  # noqa: BLE001
                            got = canon_exc(e)
                        self.add(f"copy {rname} {nested} {s} {L}", got, f"copy:{rname}")


def normalise_copy(line):
    """key order of the metadata dicts is irrelevant"""
    parts = line.split(" ")
    if len(parts) == 6 and parts[0].startswith("cls="):
        parts[4] = ";".join(sorted(parts[4].split(";")))
        parts[5] = "orig=" + ";".join(sorted(parts[5][5:].split(";")))
    return " ".join(parts)


def corr(run, quick):
    g = Gen(run, quick)
    k = 1 if quick else 4
    g.gen_ctor(700 * k)
    g.gen_index(300 * k)
    g.gen_trunc(200 * k)
    g.gen_view(60 * k)
    g.gen_ufunc_binary(900 * k)
    g.gen_ufunc_unary(450 * k)
    g.gen_operator(500 * k)
    g.gen_method(500 * k)
    g.gen_conjrow(60 * k)
    g.gen_outrows(40 * k)
    g.gen_terms(25 * k)
    g.gen_copy()
    lines = ["modes " + c[0] for c in g.cases]
    out = run.driver(lines)
    if out is None or len(out) != len(lines):
        run.corr_break("corr:modes-dispatch", {"driver": "failed", "lines": len(lines), "got": None if out is None else len(out)})
        return
    nbad = 0
    for (line, expected, stratum, sample), o in zip(g.cases, out):
        if line.startswith("copy "):
            o, expected = normalise_copy(o), normalise_copy(expected)
        ok = o == expected
        run.corr_case(KIND, line, stratum, sample if ok else None)
        if not ok:
            nbad += 1
            if nbad <= 5:
                run.corr_break("corr:modes-dispatch", {"line": line, "model": o[:300], "impl": expected[:300], "stratum": stratum})
    run.notes["modes_dispatch_disagreements"] = nbad
