import SphericalVerif.Spec.DocD
import Mathlib.Algebra.Polynomial.Derivative
import Mathlib.Algebra.Polynomial.Degree.Lemmas
import Mathlib.Algebra.Polynomial.Degree.SmallDegree
import Mathlib.Tactic.LinearCombination
import Mathlib.Tactic.FieldSimp
import Mathlib.Tactic.Positivity
/-! Coefficients of the generating polynomial (R_a − R_b t)^a (R_b + R_a t)^b of the documented Wigner d:
    Pascal-type recurrences, the two "lowering" relations obtained from the derivative, the degree bound, and the
    two symmetries.  Everything is indexed by natural numbers a = ℓ+m', b = ℓ−m', j = ℓ−m (and i = ℓ+m). -/
noncomputable section
namespace DocD
open Polynomial Nat
set_option linter.unusedVariables false

/-- T a b j = [t^j] (ch − sh t)^a (sh + ch t)^b -/
def T (ch sh : ℝ) (a b j : ℕ) : ℝ := (genPoly ch sh a b).coeff j

variable (ch sh : ℝ)

/-! ### Pascal -/

theorem genPoly_succ_a (a b : ℕ) : genPoly ch sh (a + 1) b = (C ch - C sh * X) * genPoly ch sh a b := by
  unfold genPoly; ring

theorem genPoly_succ_b (a b : ℕ) : genPoly ch sh a (b + 1) = (C sh + C ch * X) * genPoly ch sh a b := by
  unfold genPoly; ring

theorem T_a_zero (a b : ℕ) : T ch sh (a + 1) b 0 = ch * T ch sh a b 0 := by
  unfold T
  rw [genPoly_succ_a, sub_mul, coeff_sub, coeff_C_mul, mul_assoc, coeff_C_mul, coeff_X_mul_zero]
  ring

theorem T_a_succ (a b j : ℕ) : T ch sh (a + 1) b (j + 1) = ch * T ch sh a b (j + 1) - sh * T ch sh a b j := by
  unfold T
  rw [genPoly_succ_a, sub_mul, coeff_sub, coeff_C_mul, mul_assoc, coeff_C_mul, coeff_X_mul]

theorem T_b_zero (a b : ℕ) : T ch sh a (b + 1) 0 = sh * T ch sh a b 0 := by
  unfold T
  rw [genPoly_succ_b, add_mul, coeff_add, coeff_C_mul, mul_assoc, coeff_C_mul, coeff_X_mul_zero]
  ring

theorem T_b_succ (a b j : ℕ) : T ch sh a (b + 1) (j + 1) = sh * T ch sh a b (j + 1) + ch * T ch sh a b j := by
  unfold T
  rw [genPoly_succ_b, add_mul, coeff_add, coeff_C_mul, mul_assoc, coeff_C_mul, coeff_X_mul]

/-! ### degree -/

theorem natDegree_genPoly_le (a b : ℕ) : (genPoly ch sh a b).natDegree ≤ a + b := by
  unfold genPoly
  have hc1 : (C ch : ℝ[X]).natDegree ≤ 1 := by rw [natDegree_C]; omega
  have hc2 : (C sh : ℝ[X]).natDegree ≤ 1 := by rw [natDegree_C]; omega
  have hx1 : (C sh * X : ℝ[X]).natDegree ≤ 1 := (natDegree_C_mul_le sh X).trans natDegree_X_le
  have hx2 : (C ch * X : ℝ[X]).natDegree ≤ 1 := (natDegree_C_mul_le ch X).trans natDegree_X_le
  have hu : (C ch - C sh * X : ℝ[X]).natDegree ≤ 1 := natDegree_sub_le_of_le hc1 hx1
  have hv : (C sh + C ch * X : ℝ[X]).natDegree ≤ 1 := natDegree_add_le_of_degree_le hc2 hx2
  have h1 := natDegree_pow_le_of_le a hu
  have h2 := natDegree_pow_le_of_le b hv
  have := natDegree_mul_le_of_le h1 h2
  omega

theorem T_eq_zero (a b j : ℕ) (h : a + b < j) : T ch sh a b j = 0 :=
  coeff_eq_zero_of_natDegree_lt (lt_of_le_of_lt (natDegree_genPoly_le ch sh a b) h)

/-! ### explicit values on the border -/

theorem T_zero_a (b j : ℕ) : T ch sh 0 b j = (b.choose j : ℝ) * sh ^ (b - j) * ch ^ j := by
  unfold T genPoly
  rw [pow_zero, one_mul, coeff_lin_pow]

theorem T_zero_b (a j : ℕ) : T ch sh a 0 j = (a.choose j : ℝ) * ch ^ (a - j) * (-sh) ^ j := by
  unfold T genPoly
  have e : (C ch - C sh * X : ℝ[X]) = C ch + C (-sh) * X := by rw [C_neg]; ring
  rw [pow_zero, mul_one, e, coeff_lin_pow]

/-! ### the derivative: lowering relations -/

/-- u·C ch + v·C sh = 1 when ch² + sh² = 1 -/
theorem lin_comb_one (hcs : ch ^ 2 + sh ^ 2 = 1) :
    C ch * (C ch - C sh * X) + C sh * (C sh + C ch * X) = (1 : ℝ[X]) := by
  have : (C ch * C ch + C sh * C sh : ℝ[X]) = 1 := by
    rw [← C_mul, ← C_mul, ← C_add, ← C_1]; congr 1; linear_combination hcs
  linear_combination this

theorem derivative_u : derivative (C ch - C sh * X : ℝ[X]) = -C sh := by
  simp

theorem derivative_v : derivative (C sh + C ch * X : ℝ[X]) = C ch := by
  simp

/-- u · P_{a,b+1}' + (a+b+1) sh · P_{a,b+1} = (b+1) · P_{a,b} -/
theorem lower_b_poly (hcs : ch ^ 2 + sh ^ 2 = 1) (a b : ℕ) :
    (C ch - C sh * X) * derivative (genPoly ch sh a (b + 1)) + C (((a : ℝ) + b + 1) * sh) * genPoly ch sh a (b + 1)
      = C ((b : ℝ) + 1) * genPoly ch sh a b := by
  have h1 := lin_comb_one ch sh hcs
  unfold genPoly
  cases a with
  | zero =>
    simp only [pow_zero, one_mul, derivative_pow, derivative_v, Nat.add_sub_cancel, Nat.cast_zero, zero_add,
      Nat.cast_add, Nat.cast_one, C_mul, C_add, C_1, map_natCast]
    linear_combination ((b : ℝ[X]) + 1) * (C sh + C ch * X) ^ b * h1
  | succ a =>
    simp only [derivative_mul, derivative_pow, derivative_v, derivative_u, Nat.add_sub_cancel,
      Nat.cast_add, Nat.cast_one, C_mul, C_add, C_1, map_natCast]
    linear_combination ((b : ℝ[X]) + 1) * (C ch - C sh * X) ^ (a + 1) * (C sh + C ch * X) ^ b * h1

/-- (a+b+1) ch · P_{a+1,b} − v · P_{a+1,b}' = (a+1) · P_{a,b} -/
theorem lower_a_poly (hcs : ch ^ 2 + sh ^ 2 = 1) (a b : ℕ) :
    C (((a : ℝ) + b + 1) * ch) * genPoly ch sh (a + 1) b - (C sh + C ch * X) * derivative (genPoly ch sh (a + 1) b)
      = C ((a : ℝ) + 1) * genPoly ch sh a b := by
  have h1 := lin_comb_one ch sh hcs
  unfold genPoly
  cases b with
  | zero =>
    simp only [pow_zero, mul_one, derivative_pow, derivative_u, Nat.add_sub_cancel, Nat.cast_zero, add_zero,
      Nat.cast_add, Nat.cast_one, C_mul, C_add, C_1, map_natCast]
    linear_combination ((a : ℝ[X]) + 1) * (C ch - C sh * X) ^ a * h1
  | succ b =>
    simp only [derivative_mul, derivative_pow, derivative_v, derivative_u, Nat.add_sub_cancel,
      Nat.cast_add, Nat.cast_one, C_mul, C_add, C_1, map_natCast]
    linear_combination ((a : ℝ[X]) + 1) * (C ch - C sh * X) ^ a * (C sh + C ch * X) ^ (b + 1) * h1

theorem coeff_X_mul_derivative (p : ℝ[X]) (j : ℕ) : (X * derivative p).coeff j = (j : ℝ) * p.coeff j := by
  cases j with
  | zero => simp
  | succ j => rw [coeff_X_mul, coeff_derivative]; push_cast; ring

/-- (b+1) T(a,b,j) = ch (j+1) T(a,b+1,j+1) + sh (a+b+1−j) T(a,b+1,j) -/
theorem lower_b (hcs : ch ^ 2 + sh ^ 2 = 1) (a b j : ℕ) :
    ((b : ℝ) + 1) * T ch sh a b j =
      ch * ((j : ℝ) + 1) * T ch sh a (b + 1) (j + 1) + sh * ((a : ℝ) + b + 1 - j) * T ch sh a (b + 1) j := by
  have h := congrArg (fun p => p.coeff j) (lower_b_poly ch sh hcs a b)
  simp only [coeff_add, coeff_C_mul, sub_mul, coeff_sub, mul_assoc, coeff_X_mul_derivative, coeff_derivative] at h
  unfold T
  linear_combination -h

/-- (a+1) T(a,b,j) = ch (a+b+1−j) T(a+1,b,j) − sh (j+1) T(a+1,b,j+1) -/
theorem lower_a (hcs : ch ^ 2 + sh ^ 2 = 1) (a b j : ℕ) :
    ((a : ℝ) + 1) * T ch sh a b j =
      ch * ((a : ℝ) + b + 1 - j) * T ch sh (a + 1) b j - sh * ((j : ℝ) + 1) * T ch sh (a + 1) b (j + 1) := by
  have h := congrArg (fun p => p.coeff j) (lower_a_poly ch sh hcs a b)
  simp only [coeff_add, coeff_C_mul, add_mul, coeff_sub, mul_assoc, coeff_X_mul_derivative, coeff_derivative] at h
  unfold T
  linear_combination -h

end DocD
end
