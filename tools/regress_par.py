#!/venv/bin/python
"""Regression of the checks against every kept seeded change, in parallel, WITHOUT touching /repo or /verif:
   tools/regress_par.py [-j N] [seed-name-prefix ...]
Each worker owns a scratch git worktree of /repo and a scratch copy of /verif under /tmp/par/<k>/ (removed at the end);
the seeded patch is applied to the worktree, the property's own quick check of the copy is run against it
(SPHERICAL_REPO / PYTHONPATH point at the worktree), and the outcome is written to seeded/<name>/regress.json here.
Nothing a registered command needs lives under /tmp."""
import json
import os
import shutil
import subprocess
import sys
import time
from concurrent.futures import ThreadPoolExecutor
from queue import Queue

VERIF = os.path.dirname(os.path.dirname(os.path.abspath(__file__)))
ROOT = "/tmp/par"


def sh(*a, **kw):
    return subprocess.run(list(a), capture_output=True, text=True, **kw)


def setup(k):
    d = f"{ROOT}/{k}"
    shutil.rmtree(d, ignore_errors=True)
    os.makedirs(d)
    sh("git", "-C", "/repo", "worktree", "prune")
    r = sh("git", "-C", "/repo", "worktree", "add", "--detach", f"{d}/repo", "HEAD")
    assert r.returncode == 0, r.stderr
    sh("rsync", "-a", "--exclude", "replays", "--exclude", ".git", f"{VERIF}/", f"{d}/verif/")
    return d


def teardown(k):
    d = f"{ROOT}/{k}"
    sh("git", "-C", "/repo", "worktree", "remove", "--force", f"{d}/repo")
    shutil.rmtree(d, ignore_errors=True)


def run_one(d, name):
    sd = os.path.join(VERIF, "seeded", name)
    meta = json.load(open(os.path.join(sd, "meta.json")))
    pid = meta["property"]
    env = dict(os.environ, SPHERICAL_REPO=f"{d}/repo", PYTHONPATH=f"{d}/repo")
    out = {"seed": name, "property": pid}
    r = sh("git", "-C", f"{d}/repo", "apply", os.path.join(sd, "patch.diff"))
    if r.returncode:
        out["error"] = "patch does not apply: " + r.stderr[:300]
        return out
    try:
        t0 = time.time()
        p = sh(f"{d}/verif/check", pid, "--tier", "quick", env=env, cwd=f"{d}/verif")
        lines = [l for l in p.stdout.split("\n") if l.startswith("VIOLATION")]
        causes = []
        for l in lines:
            rp = l.split("replay=")[1].split()[0]
            try:
                b = json.load(open(os.path.join(d, "verif", rp)))
                causes.append({"cause": b.get("cause"), "site": b.get("site"), "found_failing_input": b.get("found_failing_input")})
            except Exception:
                causes.append({"cause": "?", "line": l})
        out.update({"exit": p.returncode, "violations": len(lines), "causes": causes, "summary": p.stdout.strip().split("\n")[-1][:300],
                    "wall_s": round(time.time() - t0, 1), "imports_worktree": f"{d}/repo" in (p.stdout + p.stderr) or None})
        if p.returncode not in (0, 1):
            out["stderr_tail"] = p.stderr[-800:]
    finally:
        sh("git", "-C", f"{d}/repo", "checkout", "--", ".")
        sh("/venv/bin/python", f"{d}/verif/vlib/py2lean.py", env=env)
    return out


def main():
    args = sys.argv[1:]
    n = 6
    if args[:1] == ["-j"]:
        n = int(args[1])
        args = args[2:]
    seeds = sorted(x for x in os.listdir(os.path.join(VERIF, "seeded")) if os.path.exists(os.path.join(VERIF, "seeded", x, "patch.diff")))
    if args:
        seeds = [s for s in seeds if any(s.startswith(a) for a in args)]
    q = Queue()
    for s in seeds:
        q.put(s)
    results = {}

    def worker(k):
        d = setup(k)
        # sanity: the copy imports the worktree's package
        r = sh("/venv/bin/python", "-c", "import spherical; print(spherical.__file__)", env=dict(os.environ, PYTHONPATH=f"{d}/repo"), cwd="/")
        assert f"{d}/repo" in r.stdout, r.stdout + r.stderr
        try:
            while not q.empty():
                try:
                    s = q.get_nowait()
                except Exception:
                    break
                res = run_one(d, s)
                results[s] = res
                json.dump(res, open(os.path.join(VERIF, "seeded", s, "regress.json"), "w"), indent=1)
                print(f"{s}: exit={res.get('exit')} violations={res.get('violations')} {[c.get('cause') for c in res.get('causes', [])][:4]} {res.get('error', '')}", flush=True)
        finally:
            teardown(k)

    with ThreadPoolExecutor(n) as ex:
        list(ex.map(worker, range(n)))
    missed = [s for s, r in results.items() if r.get("exit") != 1]
    noinput = [s for s, r in results.items() if r.get("exit") == 1 and not any(c.get("found_failing_input") for c in r.get("causes", []))]
    print(f"SUMMARY: {len(results)} seeded changes; detected {len(results) - len(missed)}; with a concrete failing input {len(results) - len(missed) - len(noinput)}")
    print("NOT DETECTED:", missed)
    print("DETECTED WITHOUT FAILING INPUT:", noinput)


if __name__ == "__main__":
    main()
