import SphericalVerif.Lemmas.DocD1
/-! The two symmetries of the coefficients `T a b j` of the generating polynomial (a + b = i + j throughout):
      `T_reflect` : T(a,b,j) = (−1)^{j+b} T(b,a,i)      — d(m',m) = (−1)^{m'+m} d(−m',−m)
      `T_swap`    : T(a,b,j) j! i! = T(j,i,a) a! b!      — d(m',m) = d(−m,−m') -/
noncomputable section
namespace DocD
open Polynomial Nat
set_option linter.unusedVariables false

variable (ch sh : ℝ)

theorem T_reflect : ∀ a b i j : ℕ, a + b = i + j → T ch sh a b j = (-1) ^ (j + b) * T ch sh b a i
  | 0, b, i, j, h => by
    rw [T_zero_a, T_zero_b]
    have hb : b = i + j := by omega
    subst hb
    rw [Nat.choose_symm_of_eq_add (show i + j = j + i by omega), Nat.add_sub_cancel, Nat.add_sub_cancel_left,
      neg_pow sh]
    have : ((-1 : ℝ)) ^ (j + (i + j)) * (-1) ^ i = 1 := by
      rw [← pow_add, show j + (i + j) + i = 2 * (i + j) by ring, pow_mul]; simp
    linear_combination (-((i + j).choose i : ℝ) * sh ^ i * ch ^ j) * this
  | a + 1, b, i, 0, h => by
    have hi : i = (a + b) + 1 := by omega
    subst hi
    rw [T_a_zero, T_b_succ, T_eq_zero ch sh b a (a + b + 1) (by omega), T_reflect a b (a + b) 0 (by omega)]
    ring
  | a + 1, b, 0, j + 1, h => by
    have hj : j = a + b := by omega
    subst hj
    rw [T_a_succ, T_b_zero, T_eq_zero ch sh a b (a + b + 1) (by omega), T_reflect a b 0 (a + b) (by omega)]
    ring
  | a + 1, b, i + 1, j + 1, h => by
    rw [T_a_succ, T_b_succ, T_reflect a b i (j + 1) (by omega), T_reflect a b (i + 1) j (by omega)]
    ring

theorem choose_swap (a b i j ρ : ℕ) (h : a + b = i + j) (h1 : ρ ≤ a) (h2 : ρ ≤ j) :
    a.choose ρ * b.choose (j - ρ) * (j ! * i !) = j.choose ρ * i.choose (a - ρ) * (a ! * b !) := by
  by_cases hb : j - ρ ≤ b
  · have hi : a - ρ ≤ i := by omega
    have e1 := Nat.choose_mul_factorial_mul_factorial h1
    have e2 := Nat.choose_mul_factorial_mul_factorial hb
    have e3 := Nat.choose_mul_factorial_mul_factorial h2
    have e4 := Nat.choose_mul_factorial_mul_factorial hi
    have e : b - (j - ρ) = i - (a - ρ) := by omega
    rw [e] at e2
    rw [← e1, ← e2, ← e3, ← e4]
    ring
  · rw [Nat.choose_eq_zero_of_lt (show b < j - ρ by omega), Nat.choose_eq_zero_of_lt (show i < a - ρ by omega)]
    simp

theorem T_swap (a b i j : ℕ) (h : a + b = i + j) :
    T ch sh a b j * ((j ! : ℝ) * (i ! : ℝ)) = T ch sh j i a * ((a ! : ℝ) * (b ! : ℝ)) := by
  unfold T
  rw [coeff_genPoly, coeff_genPoly]
  have s1 : ∑ ρ ∈ Finset.range (j + 1), (a.choose ρ : ℝ) * (b.choose (j - ρ) : ℝ) * (-1) ^ ρ
        * ch ^ (a - ρ) * ch ^ (j - ρ) * sh ^ (b - (j - ρ)) * sh ^ ρ
      = ∑ ρ ∈ Finset.range (min a j + 1), (a.choose ρ : ℝ) * (b.choose (j - ρ) : ℝ) * (-1) ^ ρ
        * ch ^ (a - ρ) * ch ^ (j - ρ) * sh ^ (b - (j - ρ)) * sh ^ ρ := by
    symm
    apply Finset.sum_subset
    · intro x hx; rw [Finset.mem_range] at hx ⊢; omega
    · intro x hx hx'
      rw [Finset.mem_range] at hx hx'
      rw [Nat.choose_eq_zero_of_lt (show a < x by omega)]
      simp
  have s2 : ∑ ρ ∈ Finset.range (a + 1), (j.choose ρ : ℝ) * (i.choose (a - ρ) : ℝ) * (-1) ^ ρ
        * ch ^ (j - ρ) * ch ^ (a - ρ) * sh ^ (i - (a - ρ)) * sh ^ ρ
      = ∑ ρ ∈ Finset.range (min a j + 1), (j.choose ρ : ℝ) * (i.choose (a - ρ) : ℝ) * (-1) ^ ρ
        * ch ^ (j - ρ) * ch ^ (a - ρ) * sh ^ (i - (a - ρ)) * sh ^ ρ := by
    symm
    apply Finset.sum_subset
    · intro x hx; rw [Finset.mem_range] at hx ⊢; omega
    · intro x hx hx'
      rw [Finset.mem_range] at hx hx'
      rw [Nat.choose_eq_zero_of_lt (show j < x by omega)]
      simp
  rw [s1, s2, Finset.sum_mul, Finset.sum_mul]
  apply Finset.sum_congr rfl
  intro ρ hρ
  rw [Finset.mem_range] at hρ
  have hc := choose_swap a b i j ρ h (by omega) (by omega)
  have hc' : (a.choose ρ : ℝ) * (b.choose (j - ρ) : ℝ) * ((j ! : ℝ) * (i ! : ℝ))
      = (j.choose ρ : ℝ) * (i.choose (a - ρ) : ℝ) * ((a ! : ℝ) * (b ! : ℝ)) := by exact_mod_cast hc
  have e : b - (j - ρ) = i - (a - ρ) := by omega
  rw [e]
  linear_combination ((-1) ^ ρ * ch ^ (a - ρ) * ch ^ (j - ρ) * sh ^ (i - (a - ρ)) * sh ^ ρ) * hc'

end DocD
end
