import SphericalVerif.Model.Checked
import SphericalVerif.Spec.ValH
import Mathlib.Tactic.Linarith
import Mathlib.Tactic.Positivity
import Mathlib.Tactic.NormNum
/-! No arithmetic fault on the way to any wedge cell of the Wigner-H recursion, for every size.

    The coordinate recursion `Spec.valW` / `Spec.valV` (which `Model.runH` refines, `HRefine.runH_refines`) is
    evaluated at the checked reals `Option ℝ` (`Model.Checked`: division by zero and square roots of negative
    numbers are faults, faults propagate).  We prove that at `(some c, some s)` it returns `some` of the value
    of the same recursion at the plain reals: every divisor met is non-zero and every radicand non-negative.

    Layout: (1) `some` is a partial homomorphism; (2) the table entries `aC bC dC gC hC` at the coordinates
    where the recursion reads them; (3) the constants of step 2; (4) the formula functions of steps 3, 4, 5;
    (5) `col0`, `valPos`, `valNeg`, `valVPos`, `valVNeg`, `valW`, `valV` by recursion on the coordinates. -/
namespace Finite
noncomputable section
open Scalar Model Spec Model.Checked

/-! ### (1) `some : ℝ → Option ℝ` commutes with every operation whose side condition holds -/

theorem hAdd (a b : ℝ) : (some a : Option ℝ) +. some b = some (a +. b) := rfl
theorem hSub (a b : ℝ) : (some a : Option ℝ) -. some b = some (a -. b) := rfl
theorem hMul (a b : ℝ) : (some a : Option ℝ) *. some b = some (a *. b) := rfl
theorem hDiv (a b : ℝ) (hb : b ≠ 0) : (some a : Option ℝ) /. some b = some (a /. b) := div_some a b hb
theorem hSqrt (a : ℝ) (ha : 0 ≤ a) : Scalar.sqrt (some a : Option ℝ) = some (Scalar.sqrt a) := sqrt_some a ha
theorem hOfInt (n : Int) : (Scalar.ofInt n : Option ℝ) = some (Scalar.ofInt n : ℝ) := rfl
theorem hHalf : (Scalar.half : Option ℝ) = some (Scalar.half : ℝ) := rfl
theorem hOne : (one : Option ℝ) = some (one : ℝ) := rfl
theorem hZero : (zero : Option ℝ) = some (zero : ℝ) := rfl

theorem one_ne : (one : ℝ) ≠ 0 := by rw [RealScalar.one_def]; exact one_ne_zero

/-- a real number as a divisor: `1 / x` is not a fault exactly when `x ≠ 0` -/
theorem inv_defined_iff (x : ℝ) : (one : Option ℝ) /. some x ≠ none ↔ x ≠ 0 := by
  rw [hOne]
  constructor
  · intro h hx; subst hx; exact h (div_zero _)
  · intro hx; rw [hDiv _ _ hx]; exact Option.some_ne_none _

/-! ### (2) the coefficient tables at the coordinates where they are read

    Integer side conditions are stated as ranges of the indices; the radicand of `dC`, `gC`, `hC` is
    `(n-k)(n+k+1)`, positive exactly for `-n ≤ k < n` and zero at `k = n` and `k = -n-1`. -/

theorem rad_nonneg (n k : Int) (h1 : -n-1 ≤ k) (h2 : k ≤ n) : (0:ℝ) ≤ Scalar.ofInt ((n-k)*(n+k+1)) := by
  rw [RealScalar.ofInt_def]
  exact Int.cast_nonneg (mul_nonneg (by omega) (by omega))

theorem rad_pos (n k : Int) (h1 : -n ≤ k) (h2 : k < n) : (0:ℝ) < Scalar.ofInt ((n-k)*(n+k+1)) := by
  rw [RealScalar.ofInt_def]
  exact Int.cast_pos.mpr (mul_pos (by omega) (by omega))

theorem sqrt_rad_ne (n k : Int) (h1 : -n ≤ k) (h2 : k < n) :
    (Scalar.sqrt (Scalar.ofInt ((n-k)*(n+k+1))) : ℝ) ≠ 0 := by
  rw [RealScalar.sqrt_def]
  exact (Real.sqrt_pos.mpr (rad_pos n k h1 h2)).ne'

/-- `_a[n, m]`: radicand `(n+1+m)(n+1-m) / ((2n+1)(2n+3))`, non-negative for `|m| ≤ n+1` -/
theorem aC_some (n m : Int) (hn : 0 ≤ n) (h1 : -(n+1) ≤ m) (h2 : m ≤ n+1) :
    (aC n m : Option ℝ) = some (aC n m : ℝ) := by
  have hden : (Scalar.ofInt ((2*n+1)*(2*n+3)) : ℝ) ≠ 0 := by
    rw [RealScalar.ofInt_def]; exact Int.cast_ne_zero.mpr (mul_ne_zero (by omega) (by omega))
  have hrad : (0:ℝ) ≤ Scalar.ofInt ((n+1+m)*(n+1-m)) /. Scalar.ofInt ((2*n+1)*(2*n+3)) := by
    rw [RealScalar.div_def, RealScalar.ofInt_def, RealScalar.ofInt_def]
    exact div_nonneg (Int.cast_nonneg (mul_nonneg (by omega) (by omega)))
      (Int.cast_nonneg (mul_nonneg (by omega) (by omega)))
  unfold aC
  rw [hOfInt, hOfInt, hDiv _ _ hden, hSqrt _ hrad]

/-- `_b[n, m]`: radicand `(n-m-1)(n-m) / ((2n-1)(2n+1))`: a product of two consecutive integers over a
    positive number (n ≥ 1), non-negative for EVERY m -/
theorem bC_some (n m : Int) (hn : 1 ≤ n) : (bC n m : Option ℝ) = some (bC n m : ℝ) := by
  have hden : (Scalar.ofInt ((2*n-1)*(2*n+1)) : ℝ) ≠ 0 := by
    rw [RealScalar.ofInt_def]; exact Int.cast_ne_zero.mpr (mul_ne_zero (by omega) (by omega))
  have hnum : 0 ≤ (n-m-1)*(n-m) := by
    rcases le_or_gt (n-m) 0 with h | h
    · exact mul_nonneg_of_nonpos_of_nonpos (by omega) h
    · exact mul_nonneg (by omega) (by omega)
  have hrad : (0:ℝ) ≤ Scalar.ofInt ((n-m-1)*(n-m)) /. Scalar.ofInt ((2*n-1)*(2*n+1)) := by
    rw [RealScalar.div_def, RealScalar.ofInt_def, RealScalar.ofInt_def]
    exact div_nonneg (Int.cast_nonneg hnum) (Int.cast_nonneg (mul_nonneg (by omega) (by omega)))
  unfold bC
  simp only []
  rw [hOfInt, hOfInt, hDiv _ _ hden, hSqrt _ hrad, hOfInt, hMul]
  split <;> rfl

/-- `_b[n+1, 0] ≠ 0` for n ≥ 1: the divisor of step 3 -/
theorem bC_ne (n : Int) (hn : 1 ≤ n) : (bC (n+1) 0 : ℝ) ≠ 0 := by
  unfold bC
  simp only [if_neg (lt_irrefl (0:Int)), RealScalar.sqrt_def, RealScalar.div_def, RealScalar.ofInt_def]
  apply (Real.sqrt_pos.mpr _).ne'
  apply div_pos
  · exact Int.cast_pos.mpr (mul_pos (by omega) (by omega))
  · exact Int.cast_pos.mpr (mul_pos (by omega) (by omega))

/-- `_d[n, k]`: radicand `(n-k)(n+k+1)`, non-negative for `-n-1 ≤ k ≤ n` -/
theorem dC_some (n k : Int) (h1 : -n-1 ≤ k) (h2 : k ≤ n) : (dC n k : Option ℝ) = some (dC n k : ℝ) := by
  unfold dC
  simp only []
  rw [hOfInt, hSqrt _ (rad_nonneg n k h1 h2), hHalf, hMul, hOfInt, hMul]
  split <;> rfl

/-- `_d[n, k] ≠ 0` for `-n ≤ k < n`: the divisors of steps 4 and 5 -/
theorem dC_ne (n k : Int) (h1 : -n ≤ k) (h2 : k < n) : (dC n k : ℝ) ≠ 0 := by
  have hs := sqrt_rad_ne n k h1 h2
  have hh : (Scalar.half : ℝ) ≠ 0 := by rw [RealScalar.half_def]; norm_num
  have hm : (Scalar.ofInt (-1) : ℝ) ≠ 0 := by rw [RealScalar.ofInt_def]; norm_num
  unfold dC
  simp only [RealScalar.mul_def]
  split
  · exact mul_ne_zero (mul_ne_zero hh hs) hm
  · exact mul_ne_zero hh hs

/-- `_g[n, m]`: divisor `sqrt((n-m)(n+m+1))`, non-zero for `-n ≤ m < n` -/
theorem gC_some (n m : Int) (h1 : -n ≤ m) (h2 : m < n) : (gC n m : Option ℝ) = some (gC n m : ℝ) := by
  unfold gC
  rw [hOfInt, hOfInt, hSqrt _ (rad_pos n m h1 h2).le, hDiv _ _ (sqrt_rad_ne n m h1 h2)]

/-- `_h[n, m]`: divisor `(n-m)(n+m+1)` non-zero and radicand non-negative for `-n ≤ m < n` -/
theorem hC_some (n m : Int) (h1 : -n ≤ m) (h2 : m < n) : (hC n m : Option ℝ) = some (hC n m : ℝ) := by
  have hden := rad_pos n m h1 h2
  have hrad : (0:ℝ) ≤ Scalar.ofInt ((n+m+2)*(n-m-1)) /. Scalar.ofInt ((n-m)*(n+m+1)) := by
    rw [RealScalar.div_def]
    apply div_nonneg _ hden.le
    rw [RealScalar.ofInt_def]
    exact Int.cast_nonneg (mul_nonneg (by omega) (by omega))
  unfold hC
  rw [hOfInt, hOfInt, hDiv _ _ hden.ne', hSqrt _ hrad]

/-! ### (3) the constants of step 2 -/

theorem sqrtInt_some (z : Int) (hz : 0 ≤ z) :
    (Scalar.sqrt (Scalar.ofInt z) : Option ℝ) = some (Scalar.sqrt (Scalar.ofInt z) : ℝ) := by
  rw [hOfInt, hSqrt]
  rw [RealScalar.ofInt_def]; exact Int.cast_nonneg hz

theorem sqrtInt_ne (z : Int) (hz : 0 < z) : (Scalar.sqrt (Scalar.ofInt z) : ℝ) ≠ 0 := by
  rw [RealScalar.sqrt_def, RealScalar.ofInt_def]
  exact (Real.sqrt_pos.mpr (Int.cast_pos.mpr hz)).ne'

/-- `sqrt(1 + 0.5/n)` for n ≥ 1 -/
theorem rowconst_some (n : Nat) (hn : 1 ≤ n) :
    (Scalar.sqrt ((Scalar.ofInt 1 : Option ℝ) +. (Scalar.half /. Scalar.ofInt (n : Int))))
      = some (Scalar.sqrt ((Scalar.ofInt 1 : ℝ) +. (Scalar.half /. Scalar.ofInt (n : Int)))) := by
  have hnpos : (0:ℝ) < ((n : Int) : ℝ) := Int.cast_pos.mpr (by omega)
  have hden : (Scalar.ofInt (n : Int) : ℝ) ≠ 0 := by rw [RealScalar.ofInt_def]; exact hnpos.ne'
  have hrad : (0:ℝ) ≤ (Scalar.ofInt 1 : ℝ) +. (Scalar.half /. Scalar.ofInt (n : Int)) := by
    rw [RealScalar.add_def, RealScalar.div_def, RealScalar.ofInt_def, RealScalar.ofInt_def,
      RealScalar.half_def, Int.cast_one]
    positivity
  rw [hOfInt, hOfInt, hHalf, hDiv _ _ hden, hAdd, hSqrt _ hrad]

theorem topU_some : ∀ n : Nat, (topU n : Option ℝ) = some (topU n : ℝ)
  | 0 => hOne
  | 1 => by
    show Scalar.sqrt (Scalar.ofInt 3) = some (Scalar.sqrt (Scalar.ofInt 3))
    exact sqrtInt_some 3 (by decide)
  | k+2 => by
    rw [topU, topU, rowconst_some (k+2) (by omega), topU_some (k+1), hMul]

theorem preS_some (s p0 : ℝ) : ∀ i : Nat, preS (some s) (some p0) i = some (preS s p0 i)
  | 0 => rfl
  | i+1 => by rw [preS, preS, preS_some s p0 i, hMul]

theorem cnorm_some (n : Nat) : (cnorm n : Option ℝ) = some (cnorm n : ℝ) := by
  unfold cnorm
  rw [sqrtInt_some _ (by omega), hOne, hDiv _ _ (sqrtInt_ne _ (by omega))]

theorem topN_some (s : ℝ) (n : Nat) : topN (some s) n = some (topN s n) := by
  unfold topN
  rw [topU_some, hOne, preS_some, sqrtInt_some _ (by omega), hDiv _ _ (sqrtInt_ne _ (by omega)), hMul]

/-- row n ≥ 2 of the m'=0 column before normalisation, at distance j ≤ n-1 from the top:
    `g[n, n-j]`, `h[n, n-j]` are read for `1 ≤ n-j`, i.e. at `0 ≤ m < n` only -/
theorem rawD_some (c s : ℝ) (n : Nat) (hn : 2 ≤ n) :
    ∀ j : Nat, j + 1 ≤ n → rawD (some c) (some s) n j = some (rawD c s n j)
  | 0, _ => by rw [rawD, rawD]; exact topU_some n
  | 1, _ => by
    rw [rawD, rawD, gC_some _ _ (by omega) (by omega), topU_some, hMul, hMul]
  | j+2, h => by
    rw [rawD, rawD, gC_some _ _ (by omega) (by omega), hC_some _ _ (by omega) (by omega),
      rawD_some c s n hn (j+1) (by omega), rawD_some c s n hn j (by omega),
      hMul, hMul, hMul, hMul, hMul, hSub]

theorem bot0_some (c s : ℝ) (n : Nat) (hn : 2 ≤ n) : bot0 (some c) (some s) n = some (bot0 c s n) := by
  unfold bot0
  rw [gC_some _ _ (by omega) (by omega), hC_some _ _ (by omega) (by omega),
    rawD_some c s n hn (n-1) (by omega), rawD_some c s n hn (n-2) (by omega), cnorm_some,
    hMul, hMul, hMul, hMul, hMul, hSub, hMul]

/-- the m'=0 column: defined at every (n, m) -/
theorem col0_some (c s : ℝ) : ∀ n m : Nat, col0 (some c) (some s) n m = some (col0 c s n m)
  | 0, _ => by rw [col0, col0]; exact hOne
  | 1, 0 => by
    rw [col0, col0, gC_some _ _ (by omega) (by omega), sqrtInt_some _ (by omega), hOne,
      hDiv _ _ (sqrtInt_ne _ (by omega)), hMul, hMul]
  | 1, _+1 => by rw [col0, col0]; exact topN_some s 1
  | k+2, m => by
    rw [col0, col0]
    split
    · exact bot0_some c s (k+2) (by omega)
    · split
      · rw [rawD_some c s (k+2) (by omega) _ (by omega), cnorm_some, preS_some, hMul]
      · exact topN_some s (k+2)

/-! ### (4) the formula functions of steps 3, 4, 5 -/

/-- step 3 at row n ≥ 1, cell i+1 ≤ n+1: divisor `b[n+1, 0]`; `a[n, i+1]` with `i+1 ≤ n+1` -/
theorem f3_some (c s : ℝ) (n i : Nat) (hn : 1 ≤ n) (hi : i ≤ n) (x2 x0 x1 : ℝ) :
    f3 (some c) (some s) n i (some x2) (some x0) (some x1) = some (f3 c s n i x2 x0 x1) := by
  unfold f3
  simp only []
  rw [bC_some _ 0 (by omega), bC_some _ (-(i:Int)-2) (by omega), bC_some _ (i:Int) (by omega),
    aC_some _ _ (by omega) (by omega) (by omega), hOne, hHalf,
    hDiv _ _ (bC_ne _ (by omega))]
  simp only [hMul, hSub, hAdd]

/-- step 4 (m' = mp → mp+1), 1 ≤ mp < n: divisor `d[n, mp]` -/
theorem f4v_some (n mp : Nat) (h1 : 1 ≤ mp) (h2 : mp < n) (x v z : ℝ) :
    f4v n mp (some x) (some v) (some z) = some (f4v n mp x v z) := by
  unfold f4v
  simp only []
  rw [dC_some _ (mp:Int) (by omega) (by omega), dC_some _ ((mp:Int)-1) (by omega) (by omega), hOne,
    hDiv _ _ (dC_ne _ _ (by omega) (by omega))]
  simp only [hMul, hSub, hAdd]

theorem f4mid_some (n mp i : Nat) (h1 : 1 ≤ mp) (h2 : mp < n) (h3 : mp + i ≤ n) (x y z : ℝ) :
    f4mid n mp i (some x) (some y) (some z) = some (f4mid n mp i x y z) := by
  unfold f4mid
  simp only []
  rw [dC_some _ (mp:Int) (by omega) (by omega), dC_some _ ((mp:Int)-1) (by omega) (by omega),
    dC_some _ ((mp:Int)-1+i) (by omega) (by omega), dC_some _ ((mp:Int)+i) (by omega) (by omega), hOne,
    hDiv _ _ (dC_ne _ _ (by omega) (by omega))]
  simp only [hMul, hSub, hAdd]

theorem f4top_some (n mp : Nat) (h1 : 1 ≤ mp) (h2 : mp < n) (x y : ℝ) :
    f4top n mp (some x) (some y) = some (f4top n mp x y) := by
  unfold f4top
  simp only []
  rw [dC_some _ (mp:Int) (by omega) (by omega), dC_some _ ((mp:Int)-1) (by omega) (by omega),
    dC_some _ ((n:Int)-1) (by omega) (by omega), hOne,
    hDiv _ _ (dC_ne _ _ (by omega) (by omega))]
  simp only [hMul, hSub]

/-- step 5 (m' = -q → -q-1), q < n: divisor `d[n, -q-1]` -/
theorem f5v_some (n q : Nat) (h : q < n) (x v z : ℝ) :
    f5v n q (some x) (some v) (some z) = some (f5v n q x v z) := by
  unfold f5v
  simp only []
  rw [dC_some _ (-(q:Int)-1) (by omega) (by omega), dC_some _ (-(q:Int)) (by omega) (by omega),
    dC_some _ (- -(q:Int)-1) (by omega) (by omega), dC_some _ (- -(q:Int)) (by omega) (by omega), hOne,
    hDiv _ _ (dC_ne _ _ (by omega) (by omega))]
  simp only [hMul, hSub, hAdd]

theorem f5mid_some (n q i : Nat) (h : q < n) (h3 : q + i ≤ n) (x y z : ℝ) :
    f5mid n q i (some x) (some y) (some z) = some (f5mid n q i x y z) := by
  unfold f5mid
  simp only []
  rw [dC_some _ (-(q:Int)-1) (by omega) (by omega), dC_some _ (-(q:Int)) (by omega) (by omega),
    dC_some _ (- -(q:Int)-1+i) (by omega) (by omega), dC_some _ (- -(q:Int)+i) (by omega) (by omega), hOne,
    hDiv _ _ (dC_ne _ _ (by omega) (by omega))]
  simp only [hMul, hSub, hAdd]

theorem f5top_some (n q : Nat) (h : q < n) (x y : ℝ) :
    f5top n q (some x) (some y) = some (f5top n q x y) := by
  unfold f5top
  simp only []
  rw [dC_some _ (-(q:Int)-1) (by omega) (by omega), dC_some _ (-(q:Int)) (by omega) (by omega),
    dC_some _ ((n:Int)-1) (by omega) (by omega), hOne,
    hDiv _ _ (dC_ne _ _ (by omega) (by omega))]
  simp only [hMul, hAdd]

/-! ### (5) the recursion on the coordinates -/

/-- H(n, k, m) for 0 ≤ k ≤ m ≤ n -/
theorem valPos_some (c s : ℝ) : ∀ k n m : Nat, k ≤ m → m ≤ n →
    valPos (some c) (some s) k n m = some (valPos c s k n m)
  | 0, n, m, _, _ => by rw [valPos, valPos]; exact col0_some c s n m
  | 1, n, 0, h, _ => by omega
  | 1, n, i+1, _, h => by
    rw [valPos, valPos, col0_some, col0_some, col0_some]
    exact f3_some c s n i (by omega) (by omega) _ _ _
  | k+2, n, m, h1, h2 => by
    rw [valPos, valPos]
    split
    · rw [valPos_some c s k n m (by omega) (by omega), valPos_some c s (k+1) n (m-1) (by omega) (by omega),
        valPos_some c s (k+1) n (m+1) (by omega) (by omega)]
      exact f4mid_some n (k+1) (m-(k+1)) (by omega) (by omega) (by omega) _ _ _
    · rw [valPos_some c s k n n (by omega) (by omega), valPos_some c s (k+1) n (n-1) (by omega) (by omega)]
      exact f4top_some n (k+1) (by omega) (by omega) _ _

/-- scratch cell `hv n k` for 0 ≤ k ≤ n -/
theorem valVPos_some (c s : ℝ) (n : Nat) : ∀ k : Nat, k ≤ n →
    valVPos (some c) (some s) n k = some (valVPos c s n k)
  | 0, _ => by rw [valVPos, valVPos]; exact col0_some c s n 1
  | 1, _ => by rw [valVPos, valVPos]; exact col0_some c s n 1
  | k+2, h => by
    rw [valVPos, valVPos, valPos_some c s k n (k+1) (by omega) (by omega),
      valVPos_some c s n (k+1) (by omega), valPos_some c s (k+1) n (k+2) (by omega) (by omega)]
    exact f4v_some n (k+1) (by omega) (by omega) _ _ _

/-- H(n, -q, m) for 0 ≤ q ≤ m ≤ n -/
theorem valNeg_some (c s : ℝ) : ∀ q n m : Nat, q ≤ m → m ≤ n →
    valNeg (some c) (some s) q n m = some (valNeg c s q n m)
  | 0, n, m, _, _ => by rw [valNeg, valNeg]; exact col0_some c s n m
  | 1, n, m, h1, h2 => by
    rw [valNeg, valNeg]
    split
    · rw [valPos_some c s 1 n m h1 h2, col0_some, col0_some]
      exact f5mid_some n 0 m (by omega) (by omega) _ _ _
    · rw [valPos_some c s 1 n n (by omega) (by omega), col0_some]
      exact f5top_some n 0 (by omega) _ _
  | q+2, n, m, h1, h2 => by
    rw [valNeg, valNeg]
    split
    · rw [valNeg_some c s q n m (by omega) (by omega), valNeg_some c s (q+1) n (m-1) (by omega) (by omega),
        valNeg_some c s (q+1) n (m+1) (by omega) (by omega)]
      exact f5mid_some n (q+1) (m-(q+1)) (by omega) (by omega) _ _ _
    · rw [valNeg_some c s q n n (by omega) (by omega), valNeg_some c s (q+1) n (n-1) (by omega) (by omega)]
      exact f5top_some n (q+1) (by omega) _ _

/-- scratch cell `hv n (-q)` for 0 ≤ q ≤ n, n ≥ 1 -/
theorem valVNeg_some (c s : ℝ) (n : Nat) (hn : 1 ≤ n) : ∀ q : Nat, q ≤ n →
    valVNeg (some c) (some s) n q = some (valVNeg c s n q)
  | 0, _ => by rw [valVNeg, valVNeg]; exact col0_some c s n 1
  | 1, _ => by
    rw [valVNeg, valVNeg, col0_some]
    exact f5v_some n 0 (by omega) _ _ _
  | q+2, h => by
    rw [valVNeg, valVNeg, valNeg_some c s q n (q+1) (by omega) (by omega),
      valVNeg_some c s n hn (q+1) (by omega), valNeg_some c s (q+1) n (q+2) (by omega) (by omega)]
    exact f5v_some n (q+1) (by omega) _ _ _

/-! ### (6) the table entries the recursion must NOT read (they are `inf`/`nan` in the real tables)

    `Wigner.__init__` builds the tables under `np.errstate(all="ignore")`; these are the entries at which the
    checked arithmetic faults.  Together with (2) they give "defined exactly when" statements. -/

theorem sqrt_zero_rad (n k : Int) (h : (n-k)*(n+k+1) = 0) :
    (Scalar.sqrt (Scalar.ofInt ((n-k)*(n+k+1))) : ℝ) = 0 := by
  rw [h, RealScalar.sqrt_def, RealScalar.ofInt_def, Int.cast_zero, Real.sqrt_zero]

/-- `_d[n, k] = 0` at the two ends `k = n`, `k = -n-1` of its range -/
theorem dC_eq_zero (n k : Int) (h : (n-k)*(n+k+1) = 0) : (dC n k : ℝ) = 0 := by
  have hs := sqrt_zero_rad n k h
  unfold dC
  simp only [RealScalar.mul_def]
  split
  · rw [hs, mul_zero, zero_mul]
  · rw [hs, mul_zero]

/-- `1/_d[n, k]` (computed by steps 4 and 5) is defined exactly for `-n ≤ k < n` -/
theorem inv_dC_defined_iff (n k : Int) (h1 : -n-1 ≤ k) (h2 : k ≤ n) :
    (one : Option ℝ) /. dC n k ≠ none ↔ (-n ≤ k ∧ k < n) := by
  rw [dC_some n k h1 h2, inv_defined_iff]
  constructor
  · intro h
    by_contra hc
    apply h
    apply dC_eq_zero
    have : k = n ∨ k = -n-1 := by omega
    rcases this with rfl | rfl
    · rw [sub_self, zero_mul]
    · have : n + (-n-1) + 1 = 0 := by omega
      rw [this, mul_zero]
  · rintro ⟨a, b⟩; exact dC_ne n k a b

/-- `_g[n, m]` is defined exactly for `-n ≤ m < n`; `_g[n, n]` (an `inf` in the real table) is a fault -/
theorem gC_defined_iff (n m : Int) (h1 : -n-1 ≤ m) (h2 : m ≤ n) :
    (gC n m : Option ℝ) ≠ none ↔ (-n ≤ m ∧ m < n) := by
  constructor
  · intro h
    by_contra hc
    apply h
    have h0 : (n-m)*(n+m+1) = 0 := by
      have : m = n ∨ m = -n-1 := by omega
      rcases this with rfl | rfl
      · rw [sub_self, zero_mul]
      · have : n + (-n-1) + 1 = 0 := by omega
        rw [this, mul_zero]
    unfold gC
    rw [hOfInt, hOfInt, hSqrt _ (rad_nonneg n m h1 h2), sqrt_zero_rad n m h0]
    exact div_zero _
  · rintro ⟨a, b⟩; rw [gC_some n m a b]; exact Option.some_ne_none _

/-- `_h[n, m]` for `0 ≤ m ≤ n` is defined exactly for `m < n`; `_h[n, n]` (division by zero in the real
    table) is a fault -/
theorem hC_defined_iff (n m : Int) (h1 : 0 ≤ m) (h2 : m ≤ n) :
    (hC n m : Option ℝ) ≠ none ↔ m < n := by
  constructor
  · intro h
    by_contra hc
    apply h
    have : m = n := by omega
    subst this
    unfold hC
    rw [sub_self, zero_mul, hOfInt, hOfInt]
    have : (Scalar.ofInt 0 : ℝ) = 0 := by rw [RealScalar.ofInt_def, Int.cast_zero]
    rw [this, div_zero]
    rfl
  · intro b; rw [hC_some n m (by omega) b]; exact Option.some_ne_none _

/-- `1/_b[n+1, 0]` (computed by step 3 at row n) is defined exactly for n ≥ 1 -/
theorem inv_bC_defined_iff (n : Int) (hn : 0 ≤ n) : (one : Option ℝ) /. bC (n+1) 0 ≠ none ↔ 1 ≤ n := by
  rw [bC_some (n+1) 0 (by omega), inv_defined_iff]
  constructor
  · intro h
    by_contra hc
    apply h
    have : n = 0 := by omega
    subst this
    unfold bC
    simp only [if_neg (lt_irrefl (0:Int)), RealScalar.sqrt_def, RealScalar.div_def, RealScalar.ofInt_def]
    norm_num
  · exact bC_ne n

end
end Finite
