import SphericalVerif.Props.C06
#print axioms C06.truncators
#print axioms C06.mul_meta
#print axioms C06.mul_spellings_agree
#print axioms C06.mul_out_outcome
#print axioms C06.mul_out_wrong_shape_rejected
#print axioms C06.mul_out_overwrites
#print axioms C06.scalar_mul_keeps_meta
#print axioms C06.per_mode_mul_rejected
#print axioms C06.div_scalar_keeps_meta
#print axioms C06.helper_in_bounds
#print axioms C06.truncation_drops_only_high_ell
#print axioms C06.truncated_product_is_cut
#print axioms C06.helper_entry
