import SphericalVerif.Model.Basic
import SphericalVerif.Gen.W3j
/-! Model of `Wigner3jCalculator.calculate`, `Wigner3j` and `clebsch_gordan`
    (spherical/recursions/wigner3j.py).  The integer coefficient `B` and the radicand of `A` are the
    *generated* definitions (`Gen.B_ret`: int64 arithmetic then the declared return width;
    `Gen.A_radicand_w`), so the model follows the source for the integer part; the floating-point
    control flow is transcribed by hand and compared bit for bit with the jitted code. -/
namespace Model.W3j
open Scalar
variable {α : Type} [Scalar α]

def A (j j2 j3 m1 : Int) : α := sqrt (ofInt (Gen.A_radicand_w j j2 j3 m1))
def Xf (j j2 j3 m1 : Int) : α := (ofInt j : α) *. A (j+1) j2 j3 m1
/-- `Yf = B` returns an *integer* (declared width); it is converted to double where it meets a double -/
def YfI (j j2 j3 m2 m3 : Int) : Int := Gen.B_ret j j2 j3 m2 m3
def Yf (j j2 j3 m2 m3 : Int) : α := ofInt (YfI j j2 j3 m2 m3)
/-- `-Yf(...)`: integer negation, then conversion (so `-0` is `+0.0`) -/
def negYf (j j2 j3 m2 m3 : Int) : α := ofInt (-(YfI j j2 j3 m2 m3))
def Zf (j j2 j3 m1 : Int) : α := (ofInt (j+1) : α) *. A j j2 j3 m1

def gt0 (x : α) : Bool := lt zero x
def lt0 (x : α) : Bool := lt x zero
def isZero (x : α) : Bool := beq x zero
/-- Python truth of `a * b >= 0.0` -/
def ge0 (x : α) : Bool := le zero x

/-- sign of (-1)**k for integer k, as numba computes it -/
def parity (k : Int) : Int := if k % 2 = 0 then 1 else -1

def geti (a : Array α) (i : Int) : α := a.getD i.toNat zero
def seti (a : Array α) (i : Int) (v : α) : Array α := a.set! i.toNat v

/-- `a[lo:hi+1] /= x` -/
def divRange (a : Array α) (lo hi : Int) (x : α) : Array α :=
  loopN (hi + 1 - lo).toNat (fun k a => seti a (lo + k) (geti a (lo + k) /. x)) a
/-- `a[lo:hi+1] *= x` -/
def mulRange (a : Array α) (lo hi : Int) (x : α) : Array α :=
  loopN (hi + 1 - lo).toNat (fun k a => seti a (lo + k) (geti a (lo + k) *. x)) a
/-- `dst[lo:hi+1] = src[lo:hi+1]` -/
def copyRange (dst src : Array α) (lo hi : Int) : Array α :=
  loopN (hi + 1 - lo).toNat (fun k d => seti d (lo + k) (geti src (lo + k))) dst

def normalize (f : Array α) (jmin jmax : Int) : Array α :=
  let norm : α := loopN (jmax + 1 - jmin).toNat (fun k (n : α) =>
    let j := jmin + k
    n +. ((ofInt (2*j+1) : α) *. (geti f j *. geti f j))) zero
  divRange f jmin jmax (sqrt norm)

def determineSigns (f : Array α) (jmin jmax j2 j3 m2 m3 : Int) : Array α :=
  let p := parity (j2 - j3 + m2 + m3)
  if (lt0 (geti f jmax) && decide (p > 0)) || (gt0 (geti f jmax) && decide (p < 0)) then
    mulRange f jmin jmax (ofInt (-1)) else f

structure Out (α : Type) where
  /-- the returned slice `workspace[:size]` -/
  f : Array α
  /-- `ValueError("Cannot initialize recurrence ...")` -/
  raised : Bool := false

/-- `Wigner3jCalculator(j2_max, j3_max).calculate(j2, j3, m2, m3)` with `size = j2_max+j3_max+1`.
    `ws` is the previous content of the object's workspace (4*size doubles): it is zeroed first. -/
def calculate (size : Nat) (ws : Array α) (j2 j3 m2 m3 : Int) : Out α := Id.run do
  let m1 : Int := -(m2 + m3)
  let scale : α := ofInt 1000
  -- self.workspace[:] = 0.0 ; four views of length `size`
  let w0 : Array α := ws.map (fun _ => zero)
  let mut f : Array α := w0.extract 0 size
  let mut sf : Array α := w0.extract size (2*size)      -- also `rf`
  let mut Fm : Array α := w0.extract (2*size) (3*size)
  let mut Fp : Array α := w0.extract (3*size) (4*size)
  let jmin : Int := max ((j2 - j3).natAbs : Int) ((m2 + m3).natAbs : Int)
  let jmax : Int := j2 + j3
  if (m2.natAbs : Int) > j2 || (m3.natAbs : Int) > j3 then return ⟨f, false⟩
  if jmax < jmin then return ⟨f, false⟩
  if jmax = jmin then
    let v : α := one /. sqrt (((ofInt 2 : α) *. ofInt jmin) +. one)
    let p := parity (j2 - j3 + m2 + m3)
    let v := if (lt0 v && decide (p > 0)) || (gt0 v && decide (p < 0)) then v *. ofInt (-1) else v
    return ⟨seti f jmin v, false⟩
  -- forward iteration over the first non-classical region
  let mut undefMin := false
  let mut undefMax := false
  let mut jminus : Int := jmin
  let XfMin : α := Xf jmin j2 j3 m1
  let YfMin : α := Yf jmin j2 j3 m2 m3
  if m1 = 0 && m2 = 0 && m3 = 0 then
    Fm := seti Fm jmin one
    Fm := seti Fm (jmin+1) zero
    jminus := jmin + 1
  else if isZero YfMin then
    if isZero XfMin then
      undefMin := true
      jminus := jmin
    else
      Fm := seti Fm jmin one
      Fm := seti Fm (jmin+1) zero
      jminus := jmin + 1
  else if ge0 (XfMin *. YfMin) then
    Fm := seti Fm jmin one
    Fm := seti Fm (jmin+1) ((negYf jmin j2 j3 m2 m3 : α) /. XfMin)
    jminus := jmin + 1
  else
    sf := seti sf jmin ((neg XfMin) /. YfMin)
    jminus := jmax
    for k in [0:(jmax - (jmin+1)).toNat] do
      let j : Int := jmin + 1 + k
      let denominator : α := Yf j j2 j3 m2 m3 +. (Zf j j2 j3 m1 *. geti sf (j-1))
      let Xfj : α := Xf j j2 j3 m1
      if lt (abs denominator) (abs Xfj) || ge0 (Xfj *. denominator) || isZero denominator then
        jminus := j - 1
        break
      else
        sf := seti sf j ((neg Xfj) /. denominator)
    Fm := seti Fm jminus one
    for k in [1:(jminus - jmin + 1).toNat] do
      Fm := seti Fm (jminus - k) (geti Fm (jminus - k + 1) *. geti sf (jminus - k))
    if jminus = jmin then
      Fm := seti Fm (jmin+1) ((negYf jmin j2 j3 m2 m3 : α) /. XfMin)
      jminus := jmin + 1
  if jminus = jmax then
    f := copyRange f Fm jmin jmax
    f := normalize f jmin jmax
    f := determineSigns f jmin jmax j2 j3 m2 m3
    return ⟨f, false⟩
  -- reverse iteration over the second non-classical region
  let mut jplus : Int := jmax
  let YfMax : α := Yf jmax j2 j3 m2 m3
  let ZfMax : α := Zf jmax j2 j3 m1
  if m1 = 0 && m2 = 0 && m3 = 0 then
    Fp := seti Fp jmax one
    Fp := seti Fp (jmax-1) zero
    jplus := jmax - 1
  else if isZero YfMax then
    if isZero ZfMax then
      undefMax := true
      jplus := jmax
    else
      Fp := seti Fp jmax one
      Fp := seti Fp (jmax-1) ((negYf jmax j2 j3 m2 m3 : α) /. ZfMax)
      jplus := jmax - 1
  else if ge0 (YfMax *. ZfMax) then
    Fp := seti Fp jmax one
    Fp := seti Fp (jmax-1) ((negYf jmax j2 j3 m2 m3 : α) /. ZfMax)
    jplus := jmax - 1
  else
    sf := seti sf jmax ((neg ZfMax) /. YfMax)
    jplus := jmin
    for k in [0:(jmax - 1 - (jminus - 1)).toNat] do
      let j : Int := jmax - 1 - k
      let denominator : α := Yf j j2 j3 m2 m3 +. (Xf j j2 j3 m1 *. geti sf (j+1))
      let Zfj : α := Zf j j2 j3 m1
      if isZero denominator || lt (abs denominator) (abs Zfj) || ge0 (Zfj *. denominator) then
        jplus := j + 1
        break
      else
        sf := seti sf j ((neg Zfj) /. denominator)
    Fp := seti Fp jplus one
    for k in [1:(jmax - jplus + 1).toNat] do
      Fp := seti Fp (jplus + k) (geti Fp (jplus + k - 1) *. geti sf (jplus + k))
    if jplus = jmax then
      Fp := seti Fp (jmax-1) ((negYf jmax j2 j3 m2 m3 : α) /. ZfMax)
      jplus := jmax - 1
  -- three-term recurrence over the classical region
  if undefMin && undefMax then return ⟨f, true⟩
  if !undefMin && !undefMax then
    let mut jmid : Int := (jminus + jplus) / 2
    for k in [0:(jmid - jminus).toNat] do
      let j : Int := jminus + k
      Fm := seti Fm (j+1) ((neg ((Yf j j2 j3 m2 m3 *. geti Fm j) +. (Zf j j2 j3 m1 *. geti Fm (j-1)))) /. Xf j j2 j3 m1)
      if lt one (abs (geti Fm (j+1))) then
        Fm := divRange Fm jmin (j+1) scale
      if lt (abs (geti Fm (j+1) /. geti Fm (j-1))) one && !(isZero (geti Fm (j+1))) then
        jmid := j + 1
        break
    let mut FmMid : α := geti Fm jmid
    if !(isZero (geti Fm (jmid-1))) && lt (abs (FmMid /. geti Fm (jmid-1))) ((ofInt 1 : α) /. ofInt 1000000) then
      jmid := jmid - 1
      FmMid := geti Fm jmid
    for k in [0:(jplus - jmid).toNat] do
      let j : Int := jplus - k
      Fp := seti Fp (j-1) ((neg ((Xf j j2 j3 m1 *. geti Fp (j+1)) +. (Yf j j2 j3 m2 m3 *. geti Fp j))) /. Zf j j2 j3 m1)
      if lt one (abs (geti Fp (j-1))) then
        Fp := divRange Fp (j-1) jmax scale
    let FpMid : α := geti Fp jmid
    if jmid = jmax then
      f := copyRange f Fm jmin jmax
    else if jmid = jmin then
      f := copyRange f Fp jmin jmax
    else
      -- f[jmin:jmid+1] = F_minus[jmin:jmid+1] * F_plus_j_mid / F_minus_j_mid
      for k in [0:(jmid + 1 - jmin).toNat] do
        let j : Int := jmin + k
        f := seti f j ((geti Fm j *. FpMid) /. FmMid)
      f := copyRange f Fp (jmid+1) jmax
  else if !undefMin && undefMax then
    for k in [0:(jplus - jminus).toNat] do
      let j : Int := jminus + k
      Fm := seti Fm (j+1) ((neg ((Zf j j2 j3 m1 *. geti Fm (j-1)) +. (Yf j j2 j3 m2 m3 *. geti Fm j))) /. Xf j j2 j3 m1)
      if lt one (abs (geti Fm (j+1))) then
        Fm := divRange Fm jmin (j+1) scale
    f := copyRange f Fm jmin jmax
  else
    for k in [0:(jplus - jmin).toNat] do
      let j : Int := jplus - k
      Fp := seti Fp (j-1) ((neg ((Xf j j2 j3 m1 *. geti Fp (j+1)) +. (Yf j j2 j3 m2 m3 *. geti Fp j))) /. Zf j j2 j3 m1)
      if lt one (abs (geti Fp (j-1))) then
        Fp := divRange Fp (j-1) jmax scale
    f := copyRange f Fp jmin jmax
  f := normalize f jmin jmax
  f := determineSigns f jmin jmax j2 j3 m2 m3
  return ⟨f, false⟩

/-- `Wigner3j(j_1, j_2, j_3, m_1, m_2, m_3)`: selection rules, cyclic permutation making j_1 largest,
    fresh calculator of exactly the needed capacity. `none` = the calculator raised. -/
def wigner3j (j1 j2 j3 m1 m2 m3 : Int) : Option α :=
  if m1 + m2 + m3 ≠ 0 then some zero else
  if (m1.natAbs : Int) > j1 || (m2.natAbs : Int) > j2 || (m3.natAbs : Int) > j3 then some zero else
  let mx := max (max j1 j2) j3
  let (a1, a2, a3, b1, b2, b3) :=
    if j1 = mx then (j1, j2, j3, m1, m2, m3)
    else if j2 = mx then (j2, j3, j1, m2, m3, m1)
    else (j3, j1, j2, m3, m1, m2)
  let _ := b1
  if a1 > a2 + a3 then some zero else
  let size := (a2 + a3 + 1).toNat
  let r := calculate (α := α) size (Array.replicate (4*size) zero) a2 a3 b2 b3
  if r.raised then none else some (geti r.f a1)

/-- `clebsch_gordan(j_1, m_1, j_2, m_2, j_3, m_3)` -/
def clebschGordan (j1 m1 j2 m2 j3 m3 : Int) : Option α :=
  match wigner3j (α := α) j1 j2 j3 m1 m2 (-m3) with
  | none => none
  | some w => some (((ofInt (parity (j1 - j2 + m3)) : α) *. sqrt (ofInt (2*j3+1))) *. w)

end Model.W3j
