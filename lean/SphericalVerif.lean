-- Root of the library: generated definitions, specifications, executable models.
-- Property modules (Props/Cxx.lean) are built by their own checks and by setup.sh.
import SphericalVerif.Gen.Indexing
import SphericalVerif.Gen.W3j
import SphericalVerif.Gen.Guards
import SphericalVerif.Gen.Dispatch
import SphericalVerif.Spec.Orderings
import SphericalVerif.Model.Basic
import SphericalVerif.Model.HKernels
import SphericalVerif.Model.Assemble
import SphericalVerif.Model.W3j
