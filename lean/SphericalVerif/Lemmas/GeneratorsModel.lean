import SphericalVerif.Lemmas.GeneratorsExp
import SphericalVerif.Lemmas.GeneratorsR
/-! Helper lemmas for `Props/Generators.lean`, part 4: the ℂ-valued operators `LzC`, `LpC`, `LmC`, `RzC`, `ethC`,
    `ethbarC` ARE the model's `Lz`, `Lplus`, `Lminus`, `Rz`, `eth`, `ethbar` (`Model/Operators.lean`, cell formulas of
    `Props/C12.lean`) read through `Horner.toC`, on the cells the evaluation reads. -/
noncomputable section
namespace Generators
open Model Model.Ops DDef DHom HomAll Horner
open scoped ComplexConjugate Nat

/-- the weights of a model `Modes` object as a function (ℓ, m) ↦ ℂ -/
def mw (F : Modes ℝ) : ℕ → ℤ → ℂ := fun ℓ m => toC (F.w ℓ m)

theorem toC_zz : toC (⟨0, 0⟩ : Cx ℝ) = 0 := by
  apply Complex.ext <;> simp [toC]

theorem mw_Lz (F : Modes ℝ) {ℓ : ℕ} {m : ℤ} (h1 : F.s.natAbs ≤ ℓ) (h2 : ℓ ≤ F.ellMax) (hm : m.natAbs ≤ ℓ) :
    mw (Lz F) ℓ m = LzC (mw F) ℓ m := by
  unfold mw LzC
  rw [C12.Lz_cell F h1 h2 hm, toC_rmul]
  push_cast
  rfl

theorem mw_Lplus (F : Modes ℝ) {ℓ : ℕ} {m : ℤ} (h1 : F.s.natAbs ≤ ℓ) (h2 : ℓ ≤ F.ellMax) (hm : m.natAbs ≤ ℓ) :
    mw (Lplus F) ℓ m = LpC (mw F) ℓ m := by
  unfold mw LpC
  rw [C12.Lplus_cell F h1 h2 hm]
  by_cases c : -(ℓ : ℤ) < m
  · rw [if_pos c, if_pos ⟨c, by omega⟩, toC_rmul]
    rfl
  · rw [if_neg c, if_neg (fun h => c h.1), toC_zz]

theorem mw_Lminus (F : Modes ℝ) {ℓ : ℕ} {m : ℤ} (h1 : F.s.natAbs ≤ ℓ) (h2 : ℓ ≤ F.ellMax) (hm : m.natAbs ≤ ℓ) :
    mw (Lminus F) ℓ m = LmC (mw F) ℓ m := by
  unfold mw LmC
  rw [C12.Lminus_cell F h1 h2 hm]
  by_cases c : m < (ℓ : ℤ)
  · rw [if_pos c, if_pos ⟨by omega, c⟩, toC_rmul]
    rfl
  · rw [if_neg c, if_neg (fun h => c h.2), toC_zz]

/-- a sequence of `Modes` objects built by F_{k+1} = g_x (L₊F_k + L₋F_k)/2 + g_y (L₊F_k − L₋F_k)/(2i) + g_z Lz F_k
    cell by cell (the model has no addition of `Modes`; this is what array arithmetic on the results of the model
    operators computes) carries the weights L_g^k f -/
theorem tracked_cells (g : Quat ℝ) (F : ℕ → Modes ℝ) (s : ℤ) (L : ℕ) (hs : ∀ k, (F k).s = s)
    (hL : ∀ k, (F k).ellMax = L)
    (hstep : ∀ (k ℓ : ℕ) (m : ℤ), s.natAbs ≤ ℓ → ℓ ≤ L → m.natAbs ≤ ℓ →
      mw (F (k + 1)) ℓ m = (g.x : ℂ) * ((mw (Lplus (F k)) ℓ m + mw (Lminus (F k)) ℓ m) / 2)
        + (g.y : ℂ) * ((mw (Lplus (F k)) ℓ m - mw (Lminus (F k)) ℓ m) / (2 * Complex.I))
        + (g.z : ℂ) * mw (Lz (F k)) ℓ m) :
    ∀ (k ℓ : ℕ), s.natAbs ≤ ℓ → ℓ ≤ L → ∀ m : ℤ, m.natAbs ≤ ℓ → mw (F k) ℓ m = (LgC g)^[k] (mw (F 0)) ℓ m
  | 0, _, _, _, _, _ => rfl
  | k + 1, ℓ, h1, h2, m, hm => by
    have a1 : (F k).s.natAbs ≤ ℓ := by rw [hs k]; exact h1
    have a2 : ℓ ≤ (F k).ellMax := by rw [hL k]; exact h2
    rw [hstep k ℓ m h1 h2 hm, mw_Lplus (F k) a1 a2 hm, mw_Lminus (F k) a1 a2 hm, mw_Lz (F k) a1 a2 hm,
      Function.iterate_succ_apply']
    have e := LgC_congr g (mw (F k)) ((LgC g)^[k] (mw (F 0))) ℓ m hm
      (fun n hn => tracked_cells g F s L hs hL hstep k ℓ h1 h2 n hn)
    rw [← e]
    rfl

/-- the iterates of the model's `Lz` -/
theorem Lz_iterate_meta (F : Modes ℝ) : ∀ k : ℕ, (Lz^[k] F).s = F.s ∧ (Lz^[k] F).ellMax = F.ellMax
  | 0 => ⟨rfl, rfl⟩
  | k + 1 => by
    rw [Function.iterate_succ_apply']
    exact Lz_iterate_meta F k

theorem mw_Lz_iterate (F : Modes ℝ) : ∀ (k ℓ : ℕ), F.s.natAbs ≤ ℓ → ℓ ≤ F.ellMax → ∀ m : ℤ, m.natAbs ≤ ℓ →
    mw (Lz^[k] F) ℓ m = (LgC qz)^[k] (mw F) ℓ m
  | 0, _, _, _, _, _ => rfl
  | k + 1, ℓ, h1, h2, m, hm => by
    have a := Lz_iterate_meta F k
    rw [Function.iterate_succ_apply', Function.iterate_succ_apply',
      mw_Lz (Lz^[k] F) (by rw [a.1]; exact h1) (by rw [a.2]; exact h2) hm, LgC_qz]
    unfold LzC
    rw [mw_Lz_iterate F k ℓ h1 h2 m hm]

/-! ### the right operators -/

theorem mw_Rz (F : Modes ℝ) {ℓ : ℕ} (m : ℤ) (h1 : F.s.natAbs ≤ ℓ) : mw (Rz F) ℓ m = RzC F.s (mw F) ℓ m := by
  unfold mw RzC
  rw [(C12.Rz_cell F m h1).1, toC_rmul]
  push_cast
  rfl

theorem mw_eth (F : Modes ℝ) {ℓ : ℕ} {m : ℤ} (h2 : ℓ ≤ F.ellMax) (hm : m.natAbs ≤ ℓ) :
    mw (eth F) ℓ m = ethC F.s (mw F) ℓ m := by
  unfold mw ethC
  by_cases c : max (F.s + 1).natAbs F.s.natAbs ≤ ℓ
  · rw [if_pos c, (C12.eth_cell F c h2 hm).2.2.2, toC_rmul]
    rfl
  · rw [if_neg c, ((C12.annihilation F m).1 (Nat.not_le.mp c)).1, toC_zz]

theorem mw_ethbar (F : Modes ℝ) {ℓ : ℕ} {m : ℤ} (h2 : ℓ ≤ F.ellMax) (hm : m.natAbs ≤ ℓ) :
    mw (ethbar F) ℓ m = ethbarC F.s (mw F) ℓ m := by
  unfold mw ethbarC
  by_cases c : max (F.s - 1).natAbs F.s.natAbs ≤ ℓ
  · rw [if_pos c, (C12.ethbar_cell F c h2 hm).2.2.2, toC_rmul]
    unfold sqrtC
    push_cast
    rfl
  · rw [if_neg c, ((C12.annihilation F m).2 (Nat.not_le.mp c)).1, toC_zz]

end Generators
end
