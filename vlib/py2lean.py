#!/venv/bin/python
"""Python-AST -> Lean 4 translator for the *integer code* of moble/spherical.

Run on every check.  Reads /repo's current working tree and writes
lean/SphericalVerif/Gen/*.lean.  Each translated function `f` gives

  Gen.f     : mathematical semantics over unbounded `Int` (what the Python text says)
  Gen.f_w   : the same expression tree with a two's-complement wrap after every
              arithmetic node (what the numba-compiled int64 code computes)

Leading `if cond: raise` guards and integer prefix assignments of selected methods are
extracted into `Gen.<name>_ok : ... -> Bool` and `Gen.<name>_<local> : ... -> Int`.

Subset handled (anything else raises TranslationError, which the runner reports as a
broken obligation): def with int params (default None -> Option Int), if/elif/else,
return, (aug)assignment to locals, + - * // % ** (literal exponent), unary -, min max abs
int, comparisons (chained), and/or/not, `x is None`, `x is not None`, conditional
expressions, calls to other translated functions, `self.attr`/`obj.attr` -> parameters.
Non-returning `if` duplicates its continuation, so every def is one closed expression.
"""
import ast
import os
import sys
import unicodedata

REPO = os.environ.get("SPHERICAL_REPO", "/repo")


class TranslationError(Exception):
    pass


def nfkc(s):
    return unicodedata.normalize("NFKC", s)


def lean_ident(s):
    s = nfkc(s)
    if any(unicodedata.combining(ch) for ch in s):
        # combining marks (z̄ₐ) are not identifier characters in Lean: drop them and tag the name
        s = "".join(ch for ch in s if not unicodedata.combining(ch)) + "_bar"
    if s.startswith("_"):
        s = "u" + s
    return s


class Fn:
    """A translated function: name, params [(name, kind)] with kind in {'int','opt','bool'}, defaults, body AST."""

    def __init__(self, name, params, defaults, body, src):
        self.name, self.params, self.defaults, self.body, self.src = name, params, defaults, body, src


class Ctx:
    def __init__(self, fns, wrap):
        self.fns = fns  # name -> Fn  (already translated callee signatures)
        self.wrap = wrap  # None or 'wrap64'


def W(ctx, s):
    return f"({ctx.wrap} {s})" if ctx.wrap else s


class Tr:
    def __init__(self, ctx, kinds, attr_params=None):
        self.ctx = ctx
        self.kinds = dict(kinds)  # name -> 'int' | 'opt' | 'bool'
        self.attr_params = attr_params  # if not None: collects obj.attr -> param name

    # ---------- expressions (Int valued) ----------
    def attr_name(self, node):
        parts = []
        n = node
        while isinstance(n, ast.Attribute):
            parts.append(n.attr)
            n = n.value
        if not isinstance(n, ast.Name):
            raise TranslationError(f"attribute base {ast.dump(node)}")
        parts.append(n.id)
        return lean_ident("_".join(reversed(parts)))

    def expr(self, e):
        c = self.ctx
        if isinstance(e, ast.Constant):
            if isinstance(e.value, bool) or not isinstance(e.value, int):
                raise TranslationError(f"non-int constant {e.value!r}")
            return f"({e.value} : Int)" if e.value >= 0 else f"(-{-e.value} : Int)"
        if isinstance(e, ast.Name):
            n = lean_ident(e.id)
            k = self.kinds.get(n)
            if k is None:
                raise TranslationError(f"unknown name {e.id}")
            if k != "int":
                raise TranslationError(f"name {e.id} used as int but has kind {k}")
            return n
        if isinstance(e, ast.Attribute):
            if self.attr_params is None:
                raise TranslationError(f"attribute {ast.unparse(e)} outside guard extraction")
            n = self.attr_name(e)
            if n in self.kinds and self.kinds[n] == "int" and n not in self.attr_params:
                return n  # assigned earlier as a local (e.g. self.mp_max = ...)
            self.attr_params.setdefault(n, "int")
            self.kinds[n] = "int"
            return n
        if isinstance(e, ast.UnaryOp) and isinstance(e.op, ast.USub):
            return W(c, f"(- {self.expr(e.operand)})")
        if isinstance(e, ast.UnaryOp) and isinstance(e.op, ast.UAdd):
            return self.expr(e.operand)
        if isinstance(e, ast.BinOp):
            a = self.expr(e.left)
            if isinstance(e.op, ast.Pow):
                if not (isinstance(e.right, ast.Constant) and isinstance(e.right.value, int) and e.right.value >= 0):
                    raise TranslationError("** with non-literal exponent")
                k = e.right.value
                if c.wrap:
                    # repeated wrapped multiplication, as compiled code does
                    r = "(1 : Int)" if k == 0 else a
                    for _ in range(max(k - 1, 0)):
                        r = W(c, f"({r} * {a})")
                    return r
                return f"({a} ^ {k})"
            b = self.expr(e.right)
            if isinstance(e.op, ast.Add):
                return W(c, f"({a} + {b})")
            if isinstance(e.op, ast.Sub):
                return W(c, f"({a} - {b})")
            if isinstance(e.op, ast.Mult):
                return W(c, f"({a} * {b})")
            if isinstance(e.op, (ast.FloorDiv, ast.Mod)):
                poslit = isinstance(e.right, ast.Constant) and isinstance(e.right.value, int) and e.right.value > 0
                if isinstance(e.op, ast.FloorDiv):
                    return W(c, f"({a} / {b})" if poslit else f"(Int.fdiv {a} {b})")
                return W(c, f"({a} % {b})" if poslit else f"(Int.fmod {a} {b})")
            raise TranslationError(f"operator {type(e.op).__name__}")
        if isinstance(e, ast.IfExp):
            return f"(if {self.cond(e.test)} then {self.expr(e.body)} else {self.expr(e.orelse)})"
        if isinstance(e, ast.Call):
            f = e.func
            if isinstance(f, ast.Name) and f.id in ("min", "max") and not e.keywords:
                args = [self.expr(a) for a in e.args]
                if len(args) < 2:
                    raise TranslationError("min/max of iterable")
                r = args[0]
                for a in args[1:]:
                    r = f"({f.id} {r} {a})"
                return r
            if isinstance(f, ast.Name) and f.id == "abs" and len(e.args) == 1:
                return W(c, f"((Int.natAbs {self.expr(e.args[0])} : Nat) : Int)")
            if isinstance(f, ast.Name) and f.id == "int" and len(e.args) == 1:
                return self.expr(e.args[0])
            if isinstance(f, ast.Name) and nfkc(f.id) in c.fns:
                return self.call(c.fns[nfkc(f.id)], e)
            if isinstance(f, ast.Attribute) and isinstance(f.value, ast.Name) and f.value.id == "self" \
                    and ("self." + f.attr) in c.fns:
                return self.call(c.fns["self." + f.attr], e, self_call=True)
            raise TranslationError(f"call {ast.unparse(e)}")
        raise TranslationError(f"expression {ast.unparse(e)}")

    def call(self, fn, e, self_call=False):
        if e.keywords and any(k.arg is None for k in e.keywords):
            raise TranslationError("**kwargs call")
        given = {}
        positional = [(pn, pk) for pn, pk in fn.params if pk != "selfattr"]
        for (pn, pk), a in zip(positional, e.args):
            given[pn] = a
        if len(e.args) > len(positional):
            raise TranslationError(f"too many args to {fn.name}")
        for k in e.keywords:
            given[lean_ident(k.arg)] = k.value
        out = []
        for pn, pk in fn.params:
            if pk == "selfattr":
                # forwarded attribute parameter of a method
                if self.attr_params is None:
                    raise TranslationError("method call outside guard extraction")
                self.attr_params.setdefault(pn, "int")
                self.kinds[pn] = "int"
                out.append(pn)
                continue
            a = given.get(pn)
            if a is None:
                if pn not in fn.defaults:
                    raise TranslationError(f"missing arg {pn} to {fn.name}")
                d = fn.defaults[pn]
                out.append("none" if d is None else (f"({d} : Int)" if d >= 0 else f"(-{-d} : Int)"))
            elif pk == "opt":
                if isinstance(a, ast.Constant) and a.value is None:
                    out.append("none")
                elif isinstance(a, ast.Name) and self.kinds.get(lean_ident(a.id)) == "opt":
                    out.append(lean_ident(a.id))
                else:
                    out.append(f"(some {self.expr(a)})")
            else:
                out.append(self.expr(a))
        suffix = "_w" if self.ctx.wrap else ""
        return f"({lean_ident(fn.name.replace('self.', 'self_'))}{suffix} {' '.join(out)})"

    # ---------- conditions (Prop, decidable) ----------
    def cond(self, e):
        if isinstance(e, ast.BoolOp):
            op = " ∧ " if isinstance(e.op, ast.And) else " ∨ "
            return "(" + op.join(self.cond(v) for v in e.values) + ")"
        if isinstance(e, ast.UnaryOp) and isinstance(e.op, ast.Not):
            return f"(¬ {self.cond(e.operand)})"
        if isinstance(e, ast.Compare):
            parts = []
            left = e.left
            for op, right in zip(e.ops, e.comparators):
                parts.append(self.cmp(left, op, right))
                left = right
            return "(" + " ∧ ".join(parts) + ")"
        if isinstance(e, ast.Constant) and isinstance(e.value, bool):
            return "True" if e.value else "False"
        if isinstance(e, ast.Name) and self.kinds.get(lean_ident(e.id)) == "bool":
            return f"({lean_ident(e.id)} = true)"
        # int used as truth value
        return f"({self.expr(e)} ≠ 0)"

    def opaque_bool(self, e):
        if self.attr_params is None:
            raise TranslationError(f"opaque condition {ast.unparse(e)}")
        txt = nfkc(ast.unparse(e)).replace("!=", " ne ").replace("==", " eq ").replace("<=", " le ").replace(">=", " ge ").replace("<", " lt ").replace(">", " gt ")
        name = "b_" + "".join(ch if ch.isalnum() else "_" for ch in txt).strip("_")
        while "__" in name:
            name = name.replace("__", "_")
        self.attr_params.setdefault(name, "bool")
        self.kinds[name] = "bool"
        return f"({name} = true)"

    def cmp(self, l, op, r):
        if isinstance(op, (ast.Is, ast.IsNot)):
            if not (isinstance(r, ast.Constant) and r.value is None and isinstance(l, ast.Name)):
                raise TranslationError("is/is not with non-None")
            n = lean_ident(l.id)
            k = self.kinds.get(n)
            if k is None and self.attr_params is not None:
                # presence of an optional object argument (out, workspace): opaque Bool parameter
                pn = n + "_present"
                self.attr_params.setdefault(pn, "bool")
                self.kinds[pn] = "bool"
                return f"({pn} = false)" if isinstance(op, ast.Is) else f"({pn} = true)"
            if k == "opt":
                return f"({n} = none)" if isinstance(op, ast.Is) else f"({n} ≠ none)"
            if k == "int":
                return "False" if isinstance(op, ast.Is) else "True"
            raise TranslationError(f"is None on {l.id}")
        snap = (dict(self.kinds), dict(self.attr_params) if self.attr_params is not None else None)
        try:
            a, b = self.expr(l), self.expr(r)
        except TranslationError:
            if self.attr_params is not None:
                self.kinds = snap[0]
                self.attr_params.clear()
                self.attr_params.update(snap[1])
                return self.opaque_bool(ast.Compare(left=l, ops=[op], comparators=[r]))
            raise
        sym = {ast.Lt: "<", ast.LtE: "≤", ast.Gt: ">", ast.GtE: "≥", ast.Eq: "=", ast.NotEq: "≠"}.get(type(op))
        if sym is None:
            raise TranslationError(f"comparison {type(op).__name__}")
        return f"({a} {sym} {b})"

    # ---------- statements ----------
    def block(self, stmts, cont, ind):
        """Translate a statement list followed by continuation `cont` (list of stmts) to one expression."""
        pad = "  " * ind
        if not stmts:
            if cont:
                return self.block(cont[0], cont[1:], ind)
            raise TranslationError("function may fall off the end without return")
        s, rest = stmts[0], stmts[1:]
        if isinstance(s, ast.Expr) and isinstance(s.value, ast.Constant) and isinstance(s.value.value, str):
            return self.block(rest, cont, ind)
        if isinstance(s, ast.Pass):
            return self.block(rest, cont, ind)
        if isinstance(s, ast.Return):
            if s.value is None:
                raise TranslationError("bare return")
            return pad + self.expr(s.value)
        if isinstance(s, ast.Assign):
            if len(s.targets) != 1:
                raise TranslationError("multiple assignment targets")
            t = s.targets[0]
            if isinstance(t, ast.Name):
                n = lean_ident(t.id)
            elif isinstance(t, ast.Attribute) and self.attr_params is not None:
                n = self.attr_name(t)
            else:
                raise TranslationError(f"assignment target {ast.unparse(t)}")
            v = self.expr(s.value)
            old = self.kinds.get(n)
            self.kinds[n] = "int"
            self.attr_params is not None and self.attr_params.pop(n, None) if old is None else None
            r = f"{pad}let {n} : Int := {v}\n" + self.block(rest, cont, ind)
            return r
        if isinstance(s, ast.AugAssign):
            if not isinstance(s.target, ast.Name):
                raise TranslationError("augassign target")
            return self.block([ast.Assign(targets=[s.target], value=ast.BinOp(left=ast.Name(id=s.target.id), op=s.op, right=s.value))] + rest, cont, ind)
        if isinstance(s, ast.If):
            # Option flow typing:  `if x is None` / `if x is not None`
            t = s.test
            if isinstance(t, ast.Compare) and len(t.ops) == 1 and isinstance(t.ops[0], (ast.Is, ast.IsNot)) \
                    and isinstance(t.left, ast.Name) and self.kinds.get(lean_ident(t.left.id)) == "opt":
                n = lean_ident(t.left.id)
                none_body, some_body = (s.body, s.orelse) if isinstance(t.ops[0], ast.Is) else (s.orelse, s.body)
                k0 = dict(self.kinds)
                a = self.block(none_body, [rest] + cont, ind + 2)
                self.kinds = dict(k0)
                self.kinds[n] = "int"
                b = self.block(some_body, [rest] + cont, ind + 2)
                self.kinds = k0
                return f"{pad}match {n} with\n{pad}| none =>\n{a}\n{pad}| some {n} =>\n{b}"
            cnd = self.cond(t)
            k0 = dict(self.kinds)
            a = self.block(s.body, [rest] + cont, ind + 1)
            self.kinds = dict(k0)
            b = self.block(s.orelse, [rest] + cont, ind + 1)
            self.kinds = k0
            return f"{pad}if {cnd} then\n{a}\n{pad}else\n{b}"
        raise TranslationError(f"statement {type(s).__name__}: {ast.unparse(s)[:80]}")


def find_function(tree, name, cls=None):
    body = tree.body
    if cls:
        for n in body:
            if isinstance(n, ast.ClassDef) and n.name == cls:
                body = n.body
                break
        else:
            raise TranslationError(f"class {cls} not found")
    for n in body:
        if isinstance(n, ast.FunctionDef) and nfkc(n.name) == nfkc(name):
            return n
    raise TranslationError(f"function {name} not found")


def signature(fd, skip_self=False):
    a = fd.args
    if a.vararg or a.kwarg or a.kwonlyargs or a.posonlyargs:
        raise TranslationError(f"{fd.name}: unsupported parameter kinds")
    names = [x.arg for x in a.args]
    if skip_self:
        names = names[1:]
    defaults = {}
    dvals = a.defaults
    for n, d in zip(names[len(names) - len(dvals):], dvals):
        if isinstance(d, ast.Constant) and (d.value is None or isinstance(d.value, int)):
            defaults[lean_ident(n)] = d.value
        elif isinstance(d, ast.UnaryOp) and isinstance(d.op, ast.USub) and isinstance(d.operand, ast.Constant):
            defaults[lean_ident(n)] = -d.operand.value
        else:
            raise TranslationError(f"{fd.name}: default of {n}")
    params = [(lean_ident(n), "opt" if defaults.get(lean_ident(n), 0) is None else "int") for n in names]
    return params, defaults


def emit_fn(fn_name, params, body_lines, wrap):
    suffix = "_w" if wrap else ""
    ps = " ".join(f"({n} : {'Option Int' if k == 'opt' else ('Bool' if k == 'bool' else 'Int')})" for n, k in params)
    return f"def {lean_ident(fn_name)}{suffix} {ps} : Int :=\n{body_lines}\n"


PRELUDE = """/-! GENERATED by vlib/py2lean.py from {src} -- do not edit.  Regenerated on every check. -/
set_option linter.unusedVariables false
namespace Gen
"""

WRAPDEFS = """/-- two's-complement wrap to 64 bits (what numba's int64 arithmetic does) -/
def wrap64 (x : Int) : Int := (x + 9223372036854775808) % 18446744073709551616 - 9223372036854775808
/-- two's-complement wrap to 32 bits (declared `int32` return types) -/
def wrap32 (x : Int) : Int := (x + 2147483648) % 4294967296 - 2147483648
"""


def translate_functions(path, names, fns, out, both=True):
    src = open(os.path.join(REPO, path), encoding="utf-8").read()
    tree = ast.parse(src)
    for name in names:
        fd = find_function(tree, name)
        params, defaults = signature(fd)
        fn = Fn(nfkc(fd.name), params, defaults, fd.body, path)
        for wrap in ([None, "wrap64"] if both else [None]):
            ctx = Ctx(fns, wrap)
            tr = Tr(ctx, {n: k for n, k in params})
            body = tr.block(fd.body, [], 1)
            out.append(emit_fn(fn.name, params, body, wrap))
        fns[fn.name] = fn


def translate_method_prefix(path, cls, name, fns, out, export_locals=(), guard=True, extra_int_params=()):
    """Extract the leading run of simple int assignments and `if c: raise` guards of a method.

    Emits  <cls>_<name>_ok  : params -> Bool   (True iff no guard raises)
    and    <cls>_<name>_<local> : params -> Int for each name in export_locals.
    Stops at the first statement that is neither (docstring / translatable int assignment / raise-guard).
    Returns the parameter list."""
    src = open(os.path.join(REPO, path), encoding="utf-8").read()
    tree = ast.parse(src)
    fd = find_function(tree, name, cls) if cls else find_function(tree, name)
    argnames = [lean_ident(a.arg) for a in fd.args.args if a.arg != "self"]
    attr_params = {}
    kinds = {}
    for n in extra_int_params:
        kinds[n] = "int"
        attr_params[n] = "int"
    tr = Tr(Ctx(fns, None), kinds, attr_params)
    steps = []  # ('let', name, expr) | ('guard', cond)

    def declare_int_args(node):
        bases = {id(a.value) for a in ast.walk(node) if isinstance(a, ast.Attribute)}
        isops = {id(c.left) for c in ast.walk(node) if isinstance(c, ast.Compare) and isinstance(c.ops[0], (ast.Is, ast.IsNot))}
        for sub in ast.walk(node):
            if isinstance(sub, ast.Name) and id(sub) not in bases and id(sub) not in isops:
                n = lean_ident(sub.id)
                if n in argnames and n not in tr.kinds:
                    tr.kinds[n] = "int"
                    attr_params[n] = "int"

    for s in fd.body:
        if isinstance(s, ast.Expr) and isinstance(s.value, ast.Constant) and isinstance(s.value.value, str):
            continue
        if isinstance(s, (ast.Import, ast.ImportFrom)):
            continue
        saved = (dict(tr.kinds), dict(attr_params))
        try:
            if isinstance(s, ast.Assign) and len(s.targets) == 1:
                t = s.targets[0]
                n = lean_ident(t.id) if isinstance(t, ast.Name) else tr.attr_name(t)
                declare_int_args(s.value)
                v = tr.expr(s.value)
                steps.append(("let", n, v))
                tr.kinds[n] = "int"
                continue
            if isinstance(s, ast.If) and not s.orelse and len(s.body) == 1 and isinstance(s.body[0], ast.Raise):
                declare_int_args(s.test)
                steps.append(("guard", tr.cond(s.test)))
                continue
        except TranslationError:
            tr.kinds, ap = saved
            attr_params.clear()
            attr_params.update(ap)
        break
    # parameters: those collected, minus ones that were assigned before first use as param
    assigned = set()
    params = []
    for n, k in attr_params.items():
        params.append((n, k))
    base = (cls + "_" if cls else "") + name
    ps = " ".join(f"({n} : {'Bool' if k == 'bool' else 'Int'})" for n, k in params)

    def lets_before(i):
        return "".join(f"  let {st[1]} : Int := {st[2]}\n" for st in steps[:i] if st[0] == "let")

    if guard:
        conds = [(i, st[1]) for i, st in enumerate(steps) if st[0] == "guard"]
        body = ""
        # nested: lets in order, guards in order
        lines = []
        for i, st in enumerate(steps):
            if st[0] == "let":
                lines.append(f"  let {st[1]} : Int := {st[2]}")
            else:
                lines.append(f"  if {st[1]} then false else")
        lines.append("  true")
        out.append(f"def {lean_ident(base)}_ok {ps} : Bool :=\n" + "\n".join(lines) + "\n")
        out.append(f"def {lean_ident(base)}_nguards : Nat := {len(conds)}\n")
    for loc in export_locals:
        idx = max(i for i, st in enumerate(steps) if st[0] == "let" and st[1] == lean_ident(loc))
        out.append(f"def {lean_ident(base)}_{lean_ident(loc)} {ps} : Int :=\n" + lets_before(idx + 1) + f"  {lean_ident(loc)}\n")
    return params, steps


def translate_method(path, cls, name, fns, out):
    """Translate a whole (int-valued) method; `self.attr` become leading parameters."""
    src = open(os.path.join(REPO, path), encoding="utf-8").read()
    tree = ast.parse(src)
    fd = find_function(tree, name, cls)
    params, defaults = signature(fd, skip_self=True)
    attr_params = {}
    tr = Tr(Ctx(fns, None), {n: k for n, k in params}, attr_params)
    body = tr.block(fd.body, [], 1)
    allp = [(n, "selfattr") for n in attr_params] + params
    lean_name = f"{cls}_{name}"
    out.append(emit_fn(lean_name, [(n, "int" if k == "selfattr" else k) for n, k in allp], body, None))
    return allp


def generate():
    gen_dir = os.path.join(os.path.dirname(os.path.abspath(__file__)), "..", "lean", "SphericalVerif", "Gen")
    os.makedirs(gen_dir, exist_ok=True)
    report = {"functions": [], "files": []}
    fns = {}
    # ---- Indexing.lean -------------------------------------------------------------------
    out = [PRELUDE.format(src="spherical/utilities/indexing.py, spherical/recursions/wignerH.py"), WRAPDEFS]
    translate_functions("spherical/utilities/indexing.py",
                        ["WignerHsize", "_WignerHindex", "WignerHindex", "WignerDsize", "WignerDindex", "Ysize", "Yindex"],
                        fns, out)
    translate_functions("spherical/recursions/wignerH.py", ["ϵ", "sign", "nm_index", "nabsm_index", "nmpm_index"], fns, out)
    out.append("end Gen\n")
    write_if_changed(os.path.join(gen_dir, "Indexing.lean"), "\n".join(out))
    report["files"].append("Gen/Indexing.lean")
    # ---- W3j.lean ------------------------------------------------------------------------
    out = ["import SphericalVerif.Gen.Indexing\n", PRELUDE.format(src="spherical/recursions/wigner3j.py")]
    src = open(os.path.join(REPO, "spherical/recursions/wigner3j.py"), encoding="utf-8").read()
    tree = ast.parse(src)
    # B : whole function.  Declared signature is read from the decorator.
    fdB = find_function(tree, "B")
    sigB = decorator_signature(fdB)
    translate_functions("spherical/recursions/wigner3j.py", ["B"], fns, out)
    ret_w = {"int32": "wrap32", "int64": "wrap64", "i8": "wrap64", "i4": "wrap32"}.get(sigB[0])
    if ret_w is None:
        raise TranslationError(f"B: unsupported declared return type {sigB[0]}")
    ps = " ".join(n for n, _ in fns["B"].params)
    pd = " ".join(f"({n} : Int)" for n, _ in fns["B"].params)
    out.append(f"/-- what the compiled `B` returns: int64 arithmetic, then conversion to the declared `{sigB[0]}` -/\n"
               f"def B_ret {pd} : Int := {ret_w} (B_w {ps})\n")
    out.append(f"def B_declared_ret_bits : Nat := {32 if ret_w == 'wrap32' else 64}\n")
    # A : radicand (argument of math.sqrt)
    fdA = find_function(tree, "A")
    ret = fdA.body[-1]
    if not (isinstance(ret, ast.Return) and isinstance(ret.value, ast.Call) and ast.unparse(ret.value.func) == "math.sqrt"):
        raise TranslationError("A: expected `return math.sqrt(<radicand>)`")
    paramsA, _ = signature(fdA)
    for wrap in [None, "wrap64"]:
        tr = Tr(Ctx(fns, wrap), {n: k for n, k in paramsA})
        out.append(emit_fn("A_radicand", paramsA, "  " + tr.expr(ret.value.args[0]), wrap))
    out.append("end Gen\n")
    write_if_changed(os.path.join(gen_dir, "W3j.lean"), "\n".join(out))
    report["files"].append("Gen/W3j.lean")
    # ---- Guards.lean ---------------------------------------------------------------------
    out = ["import SphericalVerif.Gen.Indexing\n", PRELUDE.format(src="spherical/wigner.py, spherical/modes/utilities.py, spherical/modes/__init__.py")]
    guards = {}
    for meth in ["Hindex", "dindex", "Dindex", "Yindex"]:
        if meth == "dindex":
            continue
        p = translate_method("spherical/wigner.py", "Wigner", meth, fns, out)
        fns["self." + meth] = Fn("self." + meth, p, {}, None, "spherical/wigner.py")
        fns["self." + meth].name = "Wigner_" + meth
        guards["Wigner_" + meth] = [n for n, _ in p]
    p = translate_method("spherical/wigner.py", "Wigner", "dindex", fns, out)
    guards["Wigner_dindex"] = [n for n, _ in p]
    p, steps = translate_method_prefix("spherical/wigner.py", "Wigner", "__init__", fns, out,
                                       export_locals=["self_ell_min", "self_ell_max", "self_mp_max", "self__Hsize", "self__dsize", "self__Dsize", "self__Ysize"])
    guards["Wigner___init__"] = [n for n, _ in p]
    for meth in ["d", "D", "sYlm", "rotate", "evaluate"]:
        p, steps = translate_method_prefix("spherical/wigner.py", "Wigner", meth, fns, out)
        guards["Wigner_" + meth] = [n for n, _ in p]
    p, steps = translate_method_prefix("spherical/wigner.py", "Wigner", "_split_workspace", fns, out,
                                       export_locals=["i1", "i2", "i3", "i4", "i5", "i6"])
    guards["Wigner__split_workspace"] = [n for n, _ in p]
    p, steps = translate_method_prefix("spherical/modes/utilities.py", None, "index", fns, out)
    guards["index"] = [n for n, _ in p]
    out.append("end Gen\n")
    write_if_changed(os.path.join(gen_dir, "Guards.lean"), "\n".join(out))
    report["files"].append("Gen/Guards.lean")
    report["guards"] = guards
    # ---- HKern.lean: the array kernels of the H recursion (vlib/py2lean_kern.py) ---------------
    import py2lean_kern
    report["kernels"] = py2lean_kern.generate_hkern(fns, gen_dir, write_if_changed)
    report["files"].append("Gen/HKern.lean")
    report["kernels"].update(py2lean_kern.generate_fillkern(fns, gen_dir, write_if_changed))
    report["files"].append("Gen/FillKern.lean")
    report["kernels"].update(py2lean_kern.generate_hornerkern(fns, gen_dir, write_if_changed))
    report["files"].append("Gen/HornerKern.lean")
    report["kernels"].update(py2lean_kern.generate_cpowkern(fns, gen_dir, write_if_changed))
    report["files"].append("Gen/CPowKern.lean")
    report["kernels"].update(py2lean_kern.generate_rothkern(fns, gen_dir, write_if_changed))
    report["files"].append("Gen/RotHKern.lean")
    report["kernels"].update(py2lean_kern.generate_eulerkern(fns, gen_dir, write_if_changed))
    report["files"].append("Gen/EulerKern.lean")
    report["methods"] = {k: [list(p) for p in v] for k, v in py2lean_kern.generate_methods(fns, gen_dir, write_if_changed).items()}
    report["files"].append("Gen/MethodKern.lean")
    report["kernels"].update(py2lean_kern.generate_diffkern(fns, gen_dir, write_if_changed))
    report["files"].append("Gen/DiffKern.lean")
    report["kernels"].update(py2lean_kern.generate_algkern(fns, gen_dir, write_if_changed))
    report["files"].append("Gen/AlgKern.lean")
    report["kernels"].update(py2lean_kern.generate_mulkern(fns, gen_dir, write_if_changed))
    report["files"].append("Gen/MulKern.lean")
    report["kernels"].update(py2lean_kern.generate_w3jkern(fns, gen_dir, write_if_changed))
    report["files"].append("Gen/W3jKern.lean")
    report["kernels"].update(py2lean_kern.generate_rotmkern(fns, gen_dir, write_if_changed))
    report["files"].append("Gen/RotMKern.lean")
    # ---- Dispatch.lean (for the line-protocol driver): every generated def by name ------------
    import re as _re
    cases = []
    sigs = {}
    for fn in ["Indexing.lean", "W3j.lean", "Guards.lean"]:
        txt = open(os.path.join(gen_dir, fn), encoding="utf-8").read()
        for m in _re.finditer(r"^def (\S+) ((?:\([^)]*\) ?)*): (Int|Bool|Nat) :=", txt, _re.M):
            name, ps, ret = m.group(1), m.group(2), m.group(3)
            if name in ("wrap64", "wrap32"):
                continue
            kinds = _re.findall(r"\((\S+) : ([^)]*)\)", ps)
            args = []
            for i, (pn, ty) in enumerate(kinds):
                if ty == "Int":
                    args.append(f"(g {i})")
                elif ty == "Bool":
                    args.append(f"(g {i} != 0)")
                elif ty == "Option Int":
                    args.append(f"(a.getD {i} none)")
                else:
                    raise TranslationError(f"dispatch: type {ty}")
            call = f"{name} {' '.join(args)}".strip()
            val = {"Int": f"({call})", "Bool": f"(if {call} then 1 else 0)", "Nat": f"(({call} : Nat) : Int)"}[ret]
            cases.append(f'  | "{name}" => some {val}')
            sigs[name] = [ty for _, ty in kinds]
    disp = ("import SphericalVerif.Gen.Indexing\nimport SphericalVerif.Gen.W3j\nimport SphericalVerif.Gen.Guards\n"
            "/-! GENERATED by vlib/py2lean.py -- name -> generated definition, for the line-protocol driver. -/\n"
            "namespace Gen\n"
            "def dispatch (name : String) (a : Array (Option Int)) : Option Int :=\n"
            "  let g (i : Nat) : Int := (a.getD i none).getD 0\n"
            "  match name with\n" + "\n".join(cases) + "\n  | _ => none\nend Gen\n")
    write_if_changed(os.path.join(gen_dir, "Dispatch.lean"), disp)
    report["files"].append("Gen/Dispatch.lean")
    report["signatures"] = sigs
    report["functions"] = sorted(fns)
    return report


def decorator_signature(fd):
    """Parse numba string signature 'ret(arg, ...)' from @jit("...")"""
    for d in fd.decorator_list:
        if isinstance(d, ast.Call) and d.args and isinstance(d.args[0], ast.Constant) and isinstance(d.args[0].value, str):
            s = d.args[0].value
            ret, rest = s.split("(", 1)
            args = [a.strip() for a in rest.rstrip(")").split(",")]
            return ret.strip(), args
    raise TranslationError(f"{fd.name}: no string signature")


def write_if_changed(path, text):
    try:
        if open(path, encoding="utf-8").read() == text:
            return False
    except FileNotFoundError:
        pass
    with open(path, "w", encoding="utf-8") as f:
        f.write(text)
    return True


if __name__ == "__main__":
    import json
    sys.path.insert(0, os.path.dirname(os.path.abspath(__file__)))
    import py2lean as _self  # the module object that vlib/py2lean_kern.py shares
    try:
        print(json.dumps(_self.generate(), indent=1, ensure_ascii=False))
    except _self.TranslationError as e:
        print("TRANSLATION-ERROR:", e)
        sys.exit(3)
