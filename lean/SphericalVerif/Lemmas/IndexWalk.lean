import SphericalVerif.Model.Flat
import SphericalVerif.Lemmas.IndexH
import Mathlib.Tactic.Ring

/-! Helper lemmas for `Props/IndexWalk`: closed forms of the flat index walk of `_evaluate_Horner` /
    `_rotate_Horner` (`Model.Flat`) in terms of `_WignerHindex`. -/
namespace Lemmas
open Gen Spec Model.Flat

/-! ### strides of `_WignerHindex` -/

/-- inside a column the index moves with `m` -/
theorem u_row (ell mp m d P : Int) :
    u_WignerHindex ell mp (m + d) P = u_WignerHindex ell mp m P + d := by
  rw [u_hindex_eq, u_hindex_eq]; ring

/-- next column at a fixed row: the column length `ell - |mp| + 1`, corrected by the change of the
    column's first row `|mp|`. -/
theorem u_col_succ (ell mp m P : Int) (h1 : -(min P ell) ≤ mp) (h2 : mp ≤ min P ell) :
    u_WignerHindex ell (mp + 1) m P
      = u_WignerHindex ell mp m P + (ell - (mp.natAbs : Int) + 1)
          - (((mp + 1).natAbs : Int) - (mp.natAbs : Int)) := by
  rw [u_hindex_eq, u_hindex_eq, colOff_step ell (min P ell) mp h1 h2]; ring

/-- `i_Hn += ell - m + 1`: from column `-(m+1)` to column `-m` (`m ≥ 0`) -/
theorem u_col_neg (ell m x P : Int) (h0 : 0 ≤ m) (h1 : m + 1 ≤ min P ell) :
    u_WignerHindex ell (-m) x P = u_WignerHindex ell (-(m + 1)) x P + (ell - m + 1) := by
  have h := u_col_succ ell (-(m + 1)) x P (by omega) (by omega)
  have e : -(m + 1) + 1 = -m := by ring
  rw [e] at h
  omega

/-- `i_Hp -= ell - m`: from column `m+1` to column `m` (`m ≥ 0`) -/
theorem u_col_pos (ell m x P : Int) (h0 : 0 ≤ m) (h1 : m + 1 ≤ min P ell) :
    u_WignerHindex ell m x P = u_WignerHindex ell (m + 1) x P - (ell - m) := by
  have h := u_col_succ ell m x P (by omega) (by omega)
  omega

/-! ### the loops -/

theorem loopA_eq (st : St) (k : Nat) : loopA st k = (st.1 - (k : Int), st.2 - (k : Int)) := by
  induction k with
  | zero => simp [loopA]
  | succ k ih =>
    simp only [loopA, ih]
    refine Prod.ext ?_ ?_ <;> simp only <;> omega

/-- the two textual copies of the second loop are mirror images -/
theorem loopB_swap (ell mTop : Int) (n p : Int) (j : Nat) :
    loopB ell false mTop (n, p) j = ((loopB ell true mTop (p, n) j).2, (loopB ell true mTop (p, n) j).1) := by
  induction j with
  | zero => simp [loopB]
  | succ j ih => simp [loopB, ih]

/-- second loop, branch `-s ≥ 0` (`s = -a`): after `j` iterations the pair sits in columns `∓(a - j)`. -/
theorem loopB_up (ell a x P : Int) (ha : a ≤ min P ell) (j : Nat) (hj : (j : Int) ≤ a) :
    loopB ell true (a - 1) (u_WignerHindex ell (-a) x P, u_WignerHindex ell a x P) j
      = (u_WignerHindex ell (-(a - (j : Int))) x P, u_WignerHindex ell (a - (j : Int)) x P) := by
  induction j with
  | zero => simp [loopB]
  | succ j ih =>
    have ih' := ih (by omega)
    simp only [loopB, ih', if_true]
    have hm0 : 0 ≤ a - 1 - (j : Int) := by omega
    have e1 : -(a - ((j + 1 : Nat) : Int)) = -(a - 1 - (j : Int)) := by push_cast; ring
    have e2 : a - ((j + 1 : Nat) : Int) = a - 1 - (j : Int) := by push_cast; ring
    have e3 : -(a - (j : Int)) = -((a - 1 - (j : Int)) + 1) := by ring
    have e4 : a - (j : Int) = (a - 1 - (j : Int)) + 1 := by ring
    have hn := u_col_neg ell (a - 1 - (j : Int)) x P hm0 (by omega)
    have hp := u_col_pos ell (a - 1 - (j : Int)) x P hm0 (by omega)
    rw [e1, e2, e3, e4]
    refine Prod.ext ?_ ?_ <;> simp only <;> omega

/-! ### closed form of the whole walk -/

/-- The loop skeleton started in columns `c`, `c' = -c` (row `ell`), split point `max 0 (|c| - 1)`, branch
    condition `c' ≥ 0`: at loop variable `m` (`1 ≤ m ≤ ell`) the pair of indices is
    * `(c, m)`, `(c', m)` while `m ≥ |c|` (walking down the two start columns),
    * afterwards `(∓m, |c|)` resp. `(±m, |c|)` (jumping from column to column in row `|c|`). -/
theorem walk_closed (ell c c' a P m : Int) (hc : c' = -c) (ha : a = (c.natAbs : Int))
    (haP : a ≤ P) (hal : a ≤ ell) (hm1 : 1 ≤ m) (hm2 : m ≤ ell) :
    walk ell (u_WignerHindex ell c ell P, u_WignerHindex ell c' ell P) (max 0 (a - 1)) (decide (c' ≥ 0)) m
      = if a ≤ m then (u_WignerHindex ell c m P, u_WignerHindex ell c' m P)
        else if c' ≥ 0 then (u_WignerHindex ell (-m) a P, u_WignerHindex ell m a P)
        else (u_WignerHindex ell m a P, u_WignerHindex ell (-m) a P) := by
  unfold walk
  by_cases hA : m > max 0 (a - 1)
  · have c1 : a ≤ m := by omega
    simp only [hA, c1, if_true, loopA_eq]
    have ek : (((ell - m).toNat : Nat) : Int) = ell - m := by omega
    have r1 := u_row ell c ell (-(ell - m)) P
    have r2 := u_row ell c' ell (-(ell - m)) P
    have e : ell + -(ell - m) = m := by ring
    rw [e] at r1 r2
    rw [ek, r1, r2]
    refine Prod.ext ?_ ?_ <;> simp only <;> omega
  · have c1 : ¬ (a ≤ m) := by omega
    simp only [hA, c1, if_false, loopA_eq, rangeDownLen]
    have e0 : max 0 (a - 1) = a - 1 := by omega
    have ek : (((ell - 1 - (a - 1)).toNat : Nat) : Int) = ell - a := by omega
    have r1 := u_row ell c ell (-(ell - a)) P
    have r2 := u_row ell c' ell (-(ell - a)) P
    have e : ell + -(ell - a) = a := by ring
    rw [e] at r1 r2
    have s1 : u_WignerHindex ell c ell P - (ell - a) = u_WignerHindex ell c a P := by omega
    have s2 : u_WignerHindex ell c' ell P - (ell - a) = u_WignerHindex ell c' a P := by omega
    rw [e0, ek, s1, s2]
    have ej : (((a - 1 - m + 1).toNat : Nat) : Int) = a - m := by omega
    have ham : a ≤ min P ell := by omega
    by_cases hup : c' ≥ 0
    · have hc1 : c = -a := by omega
      have hc2 : c' = a := by omega
      simp only [hup, decide_true, if_true]
      rw [hc1, hc2, loopB_up ell a a P ham _ (by omega), ej]
      have e5 : a - (a - m) = m := by ring
      rw [e5]
    · have hc1 : c = a := by omega
      have hc2 : c' = -a := by omega
      simp only [hup, decide_false, if_false]
      rw [hc1, hc2, loopB_swap, loopB_up ell a a P ham _ (by omega), ej]
      have e5 : a - (a - m) = m := by ring
      rw [e5]

/-! ### `WignerHindex` of the cells the coordinate models read -/

/-- `WignerHindex ell mp m (some P)` as `_WignerHindex` of a given wedge pair -/
theorem hindex_of_rep (ell mp m P r1 r2 : Int) (hl : ell ≠ 0) (h : wedgeRep mp m = (r1, r2)) :
    WignerHindex ell mp m (some P) = u_WignerHindex ell r1 r2 P := by
  rw [hindex_fold_eq ell mp m P hl, u_hindex_min, h]

/-- wedge representative of `(-m, t)` for `m ≥ 1` -/
theorem wedgeRep_negcol (m t : Int) (hm : 1 ≤ m) :
    wedgeRep (-m) t
      = if (t.natAbs : Int) ≤ m then (-t, m) else if t ≥ 0 then (-m, t) else (m, -t) := by
  unfold wedgeRep
  split_ifs <;> first
    | rfl
    | (exfalso; omega)
    | (refine Prod.ext ?_ ?_ <;> simp only <;> omega)

/-- wedge representative of `(m, t)` for `m ≥ 1` -/
theorem wedgeRep_poscol (m t : Int) (hm : 1 ≤ m) :
    wedgeRep m t
      = if (t.natAbs : Int) ≤ m then (t, m) else if t ≥ 0 then (m, t) else (-m, -t) := by
  unfold wedgeRep
  split_ifs <;> first
    | rfl
    | (exfalso; omega)
    | (refine Prod.ext ?_ ?_ <;> simp only <;> omega)

/-- wedge representative of `(0, t)` -/
theorem wedgeRep_zerocol (t : Int) : wedgeRep 0 t = (0, (t.natAbs : Int)) := by
  unfold wedgeRep
  split_ifs <;> (refine Prod.ext ?_ ?_ <;> simp only <;> omega)

/-- the representative's column is no wider than either argument -/
theorem wedgeRep_fst_le (mp m : Int) :
    ((wedgeRep mp m).1.natAbs : Int) ≤ (mp.natAbs : Int) ∧ ((wedgeRep mp m).1.natAbs : Int) ≤ (m.natAbs : Int) := by
  unfold wedgeRep
  split_ifs <;> simp only <;> omega

/-- the generic statement: walking from columns `c`, `c' = -c` reaches `WignerHindex ell (∓m) c'`. -/
theorem walk_hindex (ell c c' a P m : Int) (hc : c' = -c) (ha : a = (c.natAbs : Int))
    (haP : a ≤ P) (hal : a ≤ ell) (hm1 : 1 ≤ m) (hm2 : m ≤ ell) :
    walk ell (u_WignerHindex ell c ell P, u_WignerHindex ell c' ell P) (max 0 (a - 1)) (decide (c' ≥ 0)) m
      = (WignerHindex ell (-m) c' (some P), WignerHindex ell m c' (some P)) := by
  have hl : ell ≠ 0 := by omega
  rw [walk_closed ell c c' a P m hc ha haP hal hm1 hm2,
    hindex_fold_eq ell (-m) c' P hl, hindex_fold_eq ell m c' P hl, u_hindex_min, u_hindex_min,
    wedgeRep_negcol m c' hm1, wedgeRep_poscol m c' hm1]
  have ha' : a = (c'.natAbs : Int) := by omega
  rw [← ha']
  by_cases h1 : a ≤ m
  · have e : -c' = c := by omega
    simp only [h1, if_true, e]
  · by_cases h2 : c' ≥ 0
    · have e : c' = a := by omega
      simp only [h1, h2, if_true, if_false]
      rw [e]
    · have e : -c' = a := by omega
      simp only [h1, h2, if_false]
      rw [e]

theorem zero_hindex (ell t P : Int) (hP : 0 ≤ P) (hl : 0 ≤ ell) (ht : (t.natAbs : Int) ≤ ell) :
    u_WignerHindex ell 0 (t.natAbs : Int) P = WignerHindex ell 0 t (some P) := by
  by_cases h0 : ell = 0
  · subst h0
    have e : (t.natAbs : Int) = 0 := by omega
    rw [e]
    have : WignerHindex 0 0 t (some P) = 0 := by unfold WignerHindex; simp
    rw [this, u_hindex_eq]
    have e : min P 0 = 0 := by omega
    rw [e]
    unfold colOff T
    simp [hsize_neg_one]
  · rw [hindex_of_rep ell 0 t P _ _ h0 (wedgeRep_zerocol t)]

end Lemmas
