import SphericalVerif.Lemmas.W3jUniq
import SphericalVerif.Props.W3jNorm
import SphericalVerif.Props.C05
/-! W3jUniq — the conditional identification of `Wigner3jCalculator.calculate` with the Wigner 3-j symbols.

    What is a fact about the CODE is proved; what is a fact of pure mathematics is a hypothesis.

    * The hypothesis `IsW3jFamily j2 j3 m2 m3 W` (`Spec/W3jFamily.lean`) is a statement about a family of real
      numbers `W j` — the mathematical `(j j2 j3; -m2-m3 m2 m3)` — and nothing else: (0) zero outside
      `[j_min, j_max]`, (R) the Schulten–Gordon three-term recurrence in `j` at EVERY cell of the range, with the
      coefficients `X = wX`, `Y = wY`, `Z = wZ` in closed form over ℝ, (N) `Σ (2j+1) W(j)² = 1`,
      (S) `W(j_max) (−1)^(j2−j3+m2+m3) > 0`.  It does not mention the workspace, sizes, the sweeps, the matching
      point, rescaling or int64.
    * The conclusion is about the validated model `Model.W3j.calculate` at the exact scalar ℝ: every cell of the
      returned array is `W j` (`out_eq_of_IsW3jFamily`), on every admissible `Regular` run, every capacity, every
      previous workspace content; through the front end `wigner3j_eq_of_IsW3jFamily`.

    So: IF the 3-j symbols satisfy (R), (N), (S) — statements of angular-momentum theory, independent of this
    code — THEN the model computes them.  No side condition on `W` beyond `IsW3jFamily` is needed:

    * `Z(j) ≠ 0` for `j_min < j ≤ j_max` and `X(j) ≠ 0` for `j_min ≤ j < j_max`, `j ≠ 0`, are PROVED from the
      closed forms (`coefficients_zeros`); `X(0) = 0` (only when `j_min = 0`, i.e. `j2 = j3`, `m2 + m3 = 0`): there
      the recurrence at `j = 0` is void and the upward solution space is two-dimensional; the source then either
      starts downward only (`undefined_min`) or, when all `m` vanish, seeds `F_minus[1] = 0` — which is what the
      family does (`W 1 = 0` by parity, proved from (R): `Lemmas.W3jUniq.IsW3jFamily.W1`).
    * `W(jm) ≠ 0` at the matching point is PROVED, not assumed: the source divides by `F_minus[jm]`, and `F_minus`
      is proportional to `W` on `[j_min, jm]` with a non-zero factor.  This is the one place where
      `W3jNorm.recurrence` (recurrence off one cell) is not enough — for `W(jm) = 0` the array `α W` on
      `[j_min, jm]`, `β W` on `[jm, j_max]` satisfies everything `W3jNorm` states, for any `α² S₁ + β² S₂ = 1` —
      and `out_structure` (below) states what the run provides in addition.

    The hypothesis pins the family down (`IsW3jFamily.unique`, no reference to the code) and is satisfiable in the
    cases checked (section 4): every single-cell call; `(1,1,0,0)` with `W = (−1/√3, 0, √(2/15))` (where `W 1 = 0`);
    `(1,1,1,0)` with `W = (−1/√6, −1/√10)`.

    Missing
    * that the 3-j symbols (Racah's formula) ARE an `IsW3jFamily` for all arguments — the mathematics; in particular
      non-vacuity of the hypothesis is shown only in the cases of section 4;
    * `Regular` for every admissible call (see `Props/W3jNorm.lean`). -/
noncomputable section
namespace W3jUniq
open Model.W3j Scalar
open Lemmas.W3jNorm (Adm jminOf Regular Rec)
open Lemmas.W3j (perm)

variable {j2 j3 m2 m3 : ℤ} {W : ℤ → ℝ}

/-! ### 1. the closed-form coefficients are the model's -/

/-- `j_min` of the predicate is the model's -/
theorem jmin_eq_model (j2 j3 m2 m3 : ℤ) : jmin j2 j3 m2 m3 = jminOf j2 j3 m2 m3 := jmin_eq j2 j3 m2 m3

/-- On `[j_min, j_max]` of an admissible call the model's `Xf`, `Yf`, `Zf` at ℝ are `wX`, `wY`, `wZ`.  The
    model's coefficients go through int64 arithmetic (`Gen.B_ret`, `Gen.A_radicand_w`): exactness is
    `C05.B_exact` and `C05.A_radicand_exact_admissible` (the latter needs `j2 + j3 ≤ 1989`, sharp). -/
theorem coefficients (j2 j3 m2 m3 j : ℤ) (ha : Adm j2 j3 m2 m3)
    (hlo : jmin j2 j3 m2 m3 ≤ j) (hhi : j ≤ j2 + j3) :
    (Xf j j2 j3 (-(m2 + m3)) : ℝ) = wX j2 j3 m2 m3 j ∧
    (Yf j j2 j3 m2 m3 : ℝ) = wY j2 j3 m2 m3 j ∧
    (Zf j j2 j3 (-(m2 + m3)) : ℝ) = wZ j2 j3 m2 m3 j := by
  obtain ⟨h2, h3, hs⟩ := ha
  rw [jmin_eq] at hlo
  unfold jminOf Lemmas.W3jBounds.jminOf at hlo
  have eA : ∀ i, j ≤ i → i ≤ j + 1 → (A i j2 j3 (-(m2 + m3)) : ℝ) = wA j2 j3 m2 m3 i := by
    intro i h h'
    rw [Lemmas.W3jNorm.A_real,
      C05.A_radicand_exact_admissible i j2 j3 _ (by omega) (by omega) hs (by omega) (by omega) (by omega),
      wA_eq_sqrt]
  refine ⟨?_, ?_, ?_⟩
  · rw [Lemmas.W3jNorm.Xf_real, eA (j + 1) (by omega) (le_refl _)]; rfl
  · have : (Yf j j2 j3 m2 m3 : ℝ) = ((Gen.B j j2 j3 m2 m3 : ℤ) : ℝ) := by
      unfold Yf YfI
      rw [C05.B_exact j j2 j3 m2 m3 (by omega) (by omega) (by omega) (by omega) (by omega)]
      rfl
    rw [this]
    unfold Gen.B wY
    push_cast
    ring
  · rw [Lemmas.W3jNorm.Zf_real, eA j (le_refl _) (by omega)]
    unfold wZ
    push_cast
    ring

/-- where the closed-form coefficients vanish (no size bound, no admissibility):
    `Z(j_min) = 0`, `X(j_max) = 0`, `X(0) = 0`; `Z(j) ≠ 0` for `j_min < j ≤ j_max`;
    `X(j) ≠ 0` for `j_min ≤ j < j_max` unless `j = 0`. -/
theorem coefficients_zeros (j2 j3 m2 m3 : ℤ) :
    wZ j2 j3 m2 m3 (jmin j2 j3 m2 m3) = 0 ∧ wX j2 j3 m2 m3 (j2 + j3) = 0 ∧ wX j2 j3 m2 m3 0 = 0 ∧
    (∀ j, jmin j2 j3 m2 m3 < j → j ≤ j2 + j3 → wZ j2 j3 m2 m3 j ≠ 0) ∧
    (∀ j, jmin j2 j3 m2 m3 ≤ j → j < j2 + j3 → j ≠ 0 → wX j2 j3 m2 m3 j ≠ 0) :=
  ⟨wZ_jmin j2 j3 m2 m3, wX_top j2 j3 m2 m3, wX_zero j2 j3 m2 m3, wZ_ne j2 j3 m2 m3, wX_ne j2 j3 m2 m3⟩

/-- the model's recurrence `W3jNorm.rec_iff` is the recurrence of the predicate, cell by cell on the range -/
theorem rec_iff_closed_form (ha : Adm j2 j3 m2 m3) (f : Array ℝ) (j : ℤ)
    (hlo : jmin j2 j3 m2 m3 ≤ j) (hhi : j ≤ j2 + j3) :
    Rec j2 j3 (-(m2 + m3)) m2 m3 f j ↔
      wX j2 j3 m2 m3 j * geti f (j + 1) + wY j2 j3 m2 m3 j * geti f j + wZ j2 j3 m2 m3 j * geti f (j - 1) = 0 :=
  Rec_iff_R3 j2 j3 m2 m3 ha f j (by rw [← jmin_eq]; exact hlo) hhi

/-! ### 2. what a regular run returns, beyond `W3jNorm.recurrence` -/

theorem outStructure_iff (F : ℤ → ℝ) (jm : ℤ) :
    OutStructure j2 j3 m2 m3 F jm ↔
      (jmin j2 j3 m2 m3 ≤ jm ∧ jm ≤ j2 + j3 ∧
      (∀ j, jmin j2 j3 m2 m3 ≤ j → j ≤ j2 + j3 → j ≠ jm →
        wX j2 j3 m2 m3 j * F (j + 1) + wY j2 j3 m2 m3 j * F j + wZ j2 j3 m2 m3 j * F (j - 1) = 0) ∧
      (jm = jmin j2 j3 m2 m3 ∨ ∃ (G : ℤ → ℝ) (c : ℝ),
        (∀ j, jmin j2 j3 m2 m3 ≤ j → j < jm →
          wX j2 j3 m2 m3 j * G (j + 1) + wY j2 j3 m2 m3 j * G j + wZ j2 j3 m2 m3 j * G (j - 1) = 0) ∧
        (jm = j2 + j3 ∨ G jm ≠ 0) ∧ (jmin j2 j3 m2 m3 = 0 → m2 = 0 ∧ m3 = 0 ∧ G 1 = 0) ∧
        ∀ j, jmin j2 j3 m2 m3 ≤ j → j ≤ jm → F j = c * G j)) :=
  ⟨fun h => ⟨h.lo, h.hi, h.rec3, h.low⟩, fun h => ⟨h.1, h.2.1, h.2.2.1, h.2.2.2⟩⟩

/-- `out_structure`: on an admissible regular run with more than one cell there is a matching point `jm` such that
    the returned array `F j = out[j]` satisfies the recurrence at every other cell of the range (this much is
    `W3jNorm.recurrence`), and, unless `jm = j_min`, is on `[j_min, jm]` a multiple `c · G` of an upward solution
    `G` (the source's `F_minus`) of the recurrence on `[j_min, jm)` with `G(jm) ≠ 0` (the source divides by it) or
    `jm = j_max`; when `j_min = 0` moreover all `m` vanish and `G 1 = 0` (the seed). -/
theorem out_structure (size : Nat) (ws : Array ℝ) (j2 j3 m2 m3 : Int) (ha : Adm j2 j3 m2 m3)
    (hlt : jminOf j2 j3 m2 m3 < j2 + j3) (hs : j2 + j3 + 1 ≤ size) (hws : 4 * size ≤ ws.size)
    (hreg : Regular size ws j2 j3 m2 m3) :
    ∃ jm, OutStructure j2 j3 m2 m3 (fun j => geti (calculate size ws j2 j3 m2 m3).f j) jm :=
  outStructure_of_regular size ws j2 j3 m2 m3 ha hlt hs hws hreg

/-! ### 3. the model computes any 3-j family -/

/-- (T-3j 1) more than one cell.  Admissible call, capacity as in `W3jNorm.recurrence`, `Regular` run: every
    cell `j ≥ 0` of the returned array is `W j`, for ANY family `W` with (0), (R), (N), (S). -/
theorem out_eq_of_IsW3jFamily (size : Nat) (ws : Array ℝ) (j2 j3 m2 m3 : Int) (ha : Adm j2 j3 m2 m3)
    (hlt : jminOf j2 j3 m2 m3 < j2 + j3) (hs : j2 + j3 + 1 ≤ size) (hws : 4 * size ≤ ws.size)
    (hreg : Regular size ws j2 j3 m2 m3) (W : ℤ → ℝ) (hW : IsW3jFamily j2 j3 m2 m3 W) :
    ∀ j : ℤ, 0 ≤ j → geti (calculate size ws j2 j3 m2 m3).f j = W j :=
  out_eq_family size ws j2 j3 m2 m3 ha hlt hs hws hreg hW

/-- (T-3j 1') a single cell (`j_min = j_max`): no `Regular`, workspace of `size` cells suffices -/
theorem out_eq_of_IsW3jFamily_single (size : Nat) (ws : Array ℝ) (j2 j3 m2 m3 : Int) (ha : Adm j2 j3 m2 m3)
    (heq : j2 + j3 = jminOf j2 j3 m2 m3) (hs : j2 + j3 + 1 ≤ size) (hws : size ≤ ws.size)
    (W : ℤ → ℝ) (hW : IsW3jFamily j2 j3 m2 m3 W) :
    ∀ j : ℤ, 0 ≤ j → geti (calculate size ws j2 j3 m2 m3).f j = W j :=
  out_eq_family_single size ws j2 j3 m2 m3 ha heq hs hws hW

/-- (T-3j 1'') every admissible call: `Regular` is needed only when there is more than one cell
    (`j_min ≤ j_max` always holds on `Adm`) -/
theorem out_eq_of_IsW3jFamily_all (size : Nat) (ws : Array ℝ) (j2 j3 m2 m3 : Int) (ha : Adm j2 j3 m2 m3)
    (hs : j2 + j3 + 1 ≤ size) (hws : 4 * size ≤ ws.size)
    (hreg : jminOf j2 j3 m2 m3 < j2 + j3 → Regular size ws j2 j3 m2 m3)
    (W : ℤ → ℝ) (hW : IsW3jFamily j2 j3 m2 m3 W) :
    (calculate size ws j2 j3 m2 m3).raised = false ∧
    ∀ j : ℤ, 0 ≤ j → geti (calculate size ws j2 j3 m2 m3).f j = W j := by
  refine ⟨W3jNorm.never_raises size ws j2 j3 m2 m3 ha hs (by omega), ?_⟩
  have hle : jminOf j2 j3 m2 m3 ≤ j2 + j3 := by
    obtain ⟨h2, h3, _⟩ := ha
    unfold jminOf Lemmas.W3jBounds.jminOf; omega
  rcases lt_or_eq_of_le hle with hlt | heq
  · exact out_eq_of_IsW3jFamily size ws j2 j3 m2 m3 ha hlt hs hws (hreg hlt) W hW
  · exact out_eq_of_IsW3jFamily_single size ws j2 j3 m2 m3 ha heq.symm hs (by omega) W hW

/-- (T-3j 2) consequence: under the hypotheses of (T-3j 1) the returned array satisfies the recurrence at EVERY
    cell of `[j_min, j_max]`, the matching point included — the item "Missing" of `Props/W3jNorm.lean`,
    conditionally on the existence of a family. -/
theorem recurrence_everywhere_of_IsW3jFamily (size : Nat) (ws : Array ℝ) (j2 j3 m2 m3 : Int)
    (ha : Adm j2 j3 m2 m3) (hlt : jminOf j2 j3 m2 m3 < j2 + j3) (hs : j2 + j3 + 1 ≤ size)
    (hws : 4 * size ≤ ws.size) (hreg : Regular size ws j2 j3 m2 m3) (W : ℤ → ℝ)
    (hW : IsW3jFamily j2 j3 m2 m3 W) (j : ℤ) (hlo : jminOf j2 j3 m2 m3 ≤ j) (hhi : j ≤ j2 + j3) :
    (Xf j j2 j3 (-(m2 + m3)) : ℝ) * geti (calculate size ws j2 j3 m2 m3).f (j+1)
      + (Yf j j2 j3 m2 m3 : ℝ) * geti (calculate size ws j2 j3 m2 m3).f j
      + (Zf j j2 j3 (-(m2 + m3)) : ℝ) * geti (calculate size ws j2 j3 m2 m3).f (j-1) = 0 := by
  have h0 := Lemmas.W3jNorm.jminOf_nonneg j2 j3 m2 m3
  have hout := out_eq_of_IsW3jFamily size ws j2 j3 m2 m3 ha hlt hs hws hreg W hW
  have hr := hW.rec3 j (by rw [jmin_eq]; exact hlo) hhi
  obtain ⟨cX, cY, cZ⟩ := coefficients j2 j3 m2 m3 j ha (by rw [jmin_eq]; exact hlo) hhi
  rw [cX, cY, cZ, hout (j + 1) (by omega), hout j (by omega)]
  by_cases hj : j = 0
  · have : jmin j2 j3 m2 m3 = j := by rw [jmin_eq]; omega
    rw [← this, wZ_jmin, zero_mul] at hr ⊢
    exact hr
  · rw [hout (j - 1) (by omega)]; exact hr

/-- (T-3j 3) through the front end `Wigner3j(j_1, j_2, j_3, m_1, m_2, m_3)`: with `p` the cyclic permutation
    putting the largest `j` first, the returned value is `W p.a1` for any 3-j family `W` of the permuted call. -/
theorem wigner3j_eq_of_IsW3jFamily (j1 j2 j3 m1 m2 m3 : Int) (hs : m1 + m2 + m3 = 0)
    (h1 : (m1.natAbs : Int) ≤ j1) (h2 : (m2.natAbs : Int) ≤ j2) (h3 : (m3.natAbs : Int) ≤ j3)
    (ht : 2 * max (max j1 j2) j3 ≤ j1 + j2 + j3) :
    let p := perm j1 j2 j3 m1 m2 m3
    let size := (p.a2 + p.a3 + 1).toNat
    p.a2 + p.a3 ≤ 1989 →
    (jminOf p.a2 p.a3 p.b2 p.b3 < p.a2 + p.a3 →
      Regular size (Array.replicate (4 * size) (zero : ℝ)) p.a2 p.a3 p.b2 p.b3) →
    ∀ W : ℤ → ℝ, IsW3jFamily p.a2 p.a3 p.b2 p.b3 W →
      wigner3j (α := ℝ) j1 j2 j3 m1 m2 m3 = some (W p.a1) := by
  intro p size hb hreg W hW
  have hd : ((p.b2.natAbs : Int) ≤ p.a2 ∧ (p.b3.natAbs : Int) ≤ p.a3 ∧ p.b1 + p.b2 + p.b3 = 0) ∧
      max ((p.a2 - p.a3).natAbs : Int) ((p.b2 + p.b3).natAbs : Int) ≤ p.a1 ∧ p.a1 ≤ p.a2 + p.a3 ∧
      p.a1.toNat < (p.a2 + p.a3 + 1).toNat :=
    Lemmas.W3j.perm_call_in_domain j1 j2 j3 m1 m2 m3 hs h1 h2 h3 ht
  obtain ⟨⟨d1, d2, _⟩, d3, d4, _⟩ := hd
  have ha : Adm p.a2 p.a3 p.b2 p.b3 := ⟨d1, d2, hb⟩
  have hsz : p.a2 + p.a3 + 1 ≤ (size : ℤ) := by show p.a2 + p.a3 + 1 ≤ ((p.a2 + p.a3 + 1).toNat : ℤ); omega
  obtain ⟨r1, r2⟩ := out_eq_of_IsW3jFamily_all size (Array.replicate (4 * size) (zero : ℝ)) p.a2 p.a3 p.b2 p.b3
    ha hsz (by rw [Array.size_replicate]) hreg W hW
  rw [Lemmas.W3j.wigner3j_perm j1 j2 j3 m1 m2 m3 hs h1 h2 h3 ht]
  show (if (calculate size _ p.a2 p.a3 p.b2 p.b3).raised = true then none
    else some (geti (calculate size _ p.a2 p.a3 p.b2 p.b3).f p.a1)) = _
  have h0 : 0 ≤ p.a1 := by omega
  rw [r1, r2 p.a1 h0]
  simp

/-! ### 4. the hypothesis determines the family, and is satisfiable -/

/-- (U) two families for the same arguments coincide — a statement about the predicate alone (closed-form
    coefficients, `Z ≠ 0` above `j_min`): no reference to the code, no admissibility, no size bound. -/
theorem IsW3jFamily.unique' {W' : ℤ → ℝ} (hW : IsW3jFamily j2 j3 m2 m3 W) (hW' : IsW3jFamily j2 j3 m2 m3 W') :
    ∀ j, W j = W' j :=
  hW.unique hW'

/-- a family does not vanish at the two ends (`j_min ≠ 0`; for `j_min = 0` with all `m` zero see
    `Lemmas.W3jUniq`: `IsW3jFamily.up`, `IsW3jFamily.W1`: `W 0 ≠ 0`, `W 1 = 0`) -/
theorem IsW3jFamily.ends (hW : IsW3jFamily j2 j3 m2 m3 W) (hlt : jmin j2 j3 m2 m3 < j2 + j3)
    (hz : jmin j2 j3 m2 m3 ≠ 0) : W (j2 + j3) ≠ 0 ∧ W (jmin j2 j3 m2 m3) ≠ 0 :=
  ⟨hW.top_ne, (hW.up (G := W) (jm := jmin j2 j3 m2 m3) hlt hlt.le (fun j h1 h2 => by omega)
    (fun h => absurd h hz)).1⟩

/-- (N1) single cell (`j_min = j_max`, `|m2| ≤ j2`, `|m3| ≤ j3`): `(−1)^(j2−j3+m2+m3)/√(2 j_max+1)` at `j_max`
    is a family (this needs `Y(j_max) = 0`, which holds: `wY_single`) … -/
theorem isW3jFamily_singleW (j2 j3 m2 m3 : ℤ) (h2 : (m2.natAbs : ℤ) ≤ j2) (h3 : (m3.natAbs : ℤ) ≤ j3)
    (heq : j2 + j3 = jmin j2 j3 m2 m3) : IsW3jFamily j2 j3 m2 m3 (singleW j2 j3 m2 m3) :=
  isW3jFamily_single j2 j3 m2 m3 h2 h3 heq

theorem singleW_top (j2 j3 m2 m3 : ℤ) :
    singleW j2 j3 m2 m3 (j2 + j3) = (-1 : ℝ) ^ (j2 - j3 + m2 + m3) / Real.sqrt (2 * ((j2 + j3 : ℤ) : ℝ) + 1) := by
  unfold singleW sgn; rw [if_pos rfl]

/-- … and the identification theorem reproduces `W3jNorm.single_cell` -/
theorem single_cell_again (size : Nat) (ws : Array ℝ) (j2 j3 m2 m3 : Int) (ha : Adm j2 j3 m2 m3)
    (heq : j2 + j3 = jminOf j2 j3 m2 m3) (hs : j2 + j3 + 1 ≤ size) (hws : size ≤ ws.size) :
    geti (calculate size ws j2 j3 m2 m3).f (j2 + j3) =
      (-1 : ℝ) ^ (j2 - j3 + m2 + m3) / Real.sqrt (2 * ((j2 + j3 : ℤ) : ℝ) + 1) := by
  have h0 := Lemmas.W3jNorm.jminOf_nonneg j2 j3 m2 m3
  rw [out_eq_of_IsW3jFamily_single size ws j2 j3 m2 m3 ha heq hs hws _
    (isW3jFamily_singleW j2 j3 m2 m3 ha.hm2 ha.hm3 (by rw [jmin_eq]; exact heq)) (j2 + j3) (by omega),
    singleW_top]

/-- (N2) `(j2, j3, m2, m3) = (1, 1, 0, 0)`: `W = (−1/√3, 0, √2/(√3 √5))` at `j = 0, 1, 2` is a family.  Here
    `j_min = 0` (`X(0) = 0`: the recurrence at `0` is void) and `W 1 = 0` (an interior zero). -/
theorem isW3jFamily_1100' : IsW3jFamily 1 1 0 0 W1100 := isW3jFamily_1100

/-- the hypotheses of (T-3j 1) do not exclude it: the model returns `−1/√3, 0, √(2/15)` -/
theorem values_1100 :
    geti (calculate 3 (Array.replicate 12 (0 : ℝ)) 1 1 0 0).f 0 = -1 / Real.sqrt 3 ∧
    geti (calculate 3 (Array.replicate 12 (0 : ℝ)) 1 1 0 0).f 1 = 0 ∧
    geti (calculate 3 (Array.replicate 12 (0 : ℝ)) 1 1 0 0).f 2 = Real.sqrt (2 / 15) := by
  have ha : Adm 1 1 0 0 := ⟨by decide, by decide, by decide⟩
  have h := out_eq_of_IsW3jFamily 3 (Array.replicate 12 (0 : ℝ)) 1 1 0 0 ha (by decide) (by decide) (by simp)
    (W3jNorm.regular_of_m_zero 3 _ 1 1 ha (by decide) (by decide) (by simp)) W1100 isW3jFamily_1100
  refine ⟨h 0 (by norm_num), h 1 (by norm_num), ?_⟩
  rw [h 2 (by norm_num)]
  show (if (2 : ℤ) = 0 then _ else if (2 : ℤ) = 2 then _ else _) = _
  rw [if_neg (by norm_num), if_pos rfl, ← Real.sqrt_mul (by norm_num), ← Real.sqrt_div (by norm_num)]
  norm_num

/-- (N3) `(j2, j3, m2, m3) = (1, 1, 1, 0)` (`m1 = −1`; cells `1, 2`; `Y(1) = −6`, `Y(2) = −30`):
    `W = (−1/√6, −1/√10)` is a family — the sign conventions of `wY` against the tabulated values
    `(1 1 1; −1 1 0) = −1/√6`, `(2 1 1; −1 1 0) = −1/√10` -/
theorem isW3jFamily_1110' : IsW3jFamily 1 1 1 0 W1110 := isW3jFamily_1110

theorem values_1110 :
    geti (calculate 3 (Array.replicate 12 (0 : ℝ)) 1 1 1 0).f 1 = -1 / Real.sqrt 6 ∧
    geti (calculate 3 (Array.replicate 12 (0 : ℝ)) 1 1 1 0).f 2 = -1 / Real.sqrt 10 := by
  have ha : Adm 1 1 1 0 := ⟨by decide, by decide, by decide⟩
  have h := out_eq_of_IsW3jFamily 3 (Array.replicate 12 (0 : ℝ)) 1 1 1 0 ha (by decide) (by decide) (by simp)
    (W3jNorm.regular_of_small 3 _ 1 1 1 0 ha (by decide) (by decide) (by simp) (by decide)) W1110
    isW3jFamily_1110
  exact ⟨h 1 (by norm_num), h 2 (by norm_num)⟩

/-- by (U), ANY family for `(1,1,0,0)` has these values: the predicate forces `(0 1 1; 0 0 0) = −1/√3` -/
example (hW : IsW3jFamily 1 1 0 0 W) : W 0 = -1 / Real.sqrt 3 ∧ W 1 = 0 := by
  rw [hW.unique' isW3jFamily_1100 0, hW.unique' isW3jFamily_1100 1]
  exact ⟨rfl, rfl⟩

end W3jUniq
end
