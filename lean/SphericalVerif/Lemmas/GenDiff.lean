import SphericalVerif.Gen.DiffKern
import SphericalVerif.Model.Operators
import SphericalVerif.Lemmas.GenFill
import SphericalVerif.Lemmas.Object
import Mathlib.Tactic.Linarith
import Mathlib.Tactic.Ring
/-! What the GENERATED loops of the differential operators (`Gen/DiffKern.lean`, from spherical/modes/derivatives.py) leave in
    each cell: blocks `ell` of the weight array are the index ranges `[ell², (ell+1)²)`; every iteration of the `for ell` loop
    writes inside its own block, so a cell is decided by exactly one iteration. -/
set_option linter.unusedSectionVars false
namespace GenDiff
open Gen GenFill

/-- inside the loops the guards of `Modes.index` never fire: the index is `ell(ell+1)+m` -/
theorem midx (sw emax ell m : Int) (h1 : (sw.natAbs : Int) ≤ ell) (h2 : ell ≤ emax) (hm1 : -ell ≤ m) (hm2 : m ≤ ell) :
    Modes_index sw 0 emax ell m = ell * (ell + 1) + m := by
  unfold Modes_index
  have c1 : ¬ ((ell < ((Int.natAbs sw : Nat) : Int)) ∨ (ell < ((Int.natAbs m : Nat) : Int))) := by omega
  have c2 : ¬ ((ell < 0) ∨ (ell > emax)) := by omega
  rw [if_neg c1, if_neg c2]
  unfold Yindex
  split_ifs with c
  · ring
  · have : ell = 0 := by omega
    subst this; ring

section
variable {α : Type} [Scalar α] {φ : Type} [FMem φ α] [LawfulFMem φ α]

/-- a cell no iteration touches -/
theorem loop_untouched (body : Nat → φ → φ) (A : Nat) (i : Int) (N : Nat) (st : φ)
    (h : ∀ k s, k < N → frdC (α := α) (body k s) A i = frdC (α := α) s A i) :
    frdC (α := α) (loopN N body st) A i = frdC (α := α) st A i :=
  loopN_pres (fun s => frdC (α := α) s A i = frdC (α := α) st A i) N body st rfl (fun k s hk hT => (h k s hk).trans hT)

/-- a cell that only iteration `k0` touches holds what iteration `k0` leaves in it, and `k0` starts with the cell as it was -/
theorem loop_at (body : Nat → φ → φ) (A : Nat) (i : Int) (N k0 : Nat) (hk : k0 < N) (st : φ)
    (h : ∀ k s, k < N → k ≠ k0 → frdC (α := α) (body k s) A i = frdC (α := α) s A i) :
    frdC (α := α) (loopN N body st) A i = frdC (α := α) (body k0 (loopN k0 body st)) A i
    ∧ frdC (α := α) (loopN k0 body st) A i = frdC (α := α) st A i := by
  refine ⟨?_, loop_untouched body A i k0 st (fun k s hk' => h k s (by omega) (by omega))⟩
  induction N with
  | zero => omega
  | succ n ih =>
    simp only [loopN]
    by_cases e : n = k0
    · subst e; rfl
    · rw [h n _ (by omega) e]
      exact ih (by omega) (fun k s hk' hne => h k s (by omega) hne)

/-- a run of stores `A[i0+k] = val k (A[i0+k])` (each cell updated from its own previous value) -/
theorem run_update (cnt : Nat) (A : Nat) (i0 : Int) (val : Nat → Cx α → Cx α) (st : φ) (i : Int) :
    frdC (α := α) (loopN cnt (fun k s => fwrC (α := α) s A (i0 + (k : Int)) (val k (frdC (α := α) s A (i0 + (k : Int))))) st) A i
      = if i0 ≤ i ∧ i < i0 + cnt then val (i - i0).toNat (frdC (α := α) st A i) else frdC (α := α) st A i := by
  by_cases c : i0 ≤ i ∧ i < i0 + cnt
  · rw [if_pos c]
    have hk : (i - i0).toNat < cnt := by omega
    have ei : i = i0 + ((i - i0).toNat : Int) := by omega
    obtain ⟨a1, a2⟩ := loop_at (fun k s => fwrC (α := α) s A (i0 + (k : Int)) (val k (frdC (α := α) s A (i0 + (k : Int))))) A i cnt (i - i0).toNat hk st
      (fun k s _ hne => frdC_fwrC_other _ _ _ _ _ (by omega))
    rw [a1]
    show frdC (α := α) (fwrC (α := α) _ A (i0 + ((i - i0).toNat : Int)) _) A i = _
    rw [← ei, frdC_fwrC_same, a2]
  · rw [if_neg c]
    exact loop_untouched _ A i cnt st (fun k s hk => frdC_fwrC_other _ _ _ _ _ (by omega))

/-- a run of stores of given values -/
theorem run_set (cnt : Nat) (A : Nat) (i0 : Int) (val : Nat → Cx α) (st : φ) (i : Int) :
    frdC (α := α) (loopN cnt (fun k s => fwrC (α := α) s A (i0 + (k : Int)) (val k)) st) A i
      = if i0 ≤ i ∧ i < i0 + cnt then val (i - i0).toNat else frdC (α := α) st A i :=
  run_update cnt A i0 (fun k _ => val k) st i

/-- the blocks `[ell², (ell+1)²)` of different `ell` are disjoint -/
theorem block_disjoint (e1 e2 i : Int) (h0 : 0 ≤ e1) (h0' : 0 ≤ e2) (hne : e1 ≠ e2)
    (h1 : e1 * (e1 + 1) - e1 ≤ i) (h2 : i ≤ e1 * (e1 + 1) + e1) : ¬ (e2 * (e2 + 1) - e2 ≤ i ∧ i ≤ e2 * (e2 + 1) + e2) := by
  intro ⟨h3, h4⟩
  rcases lt_or_gt_of_ne hne with h | h
  · have : e1 + 1 ≤ e2 := by omega
    nlinarith
  · have : e2 + 1 ≤ e1 := by omega
    nlinarith

/-- **outer loop**: `for ell in range(e0, L+1): B ell`, every `B ell` writing only inside block `ell` of `A`: a cell of block `ell`
    is what `B ell` makes of it, started on a memory where that cell is still what it was -/
theorem blocks (A : Nat) (e0 : Nat) (L : Int) (B : Int → φ → φ) (st : φ)
    (hout : ∀ (e : Int) (s : φ) (i : Int), 0 ≤ e → ¬ (e * (e + 1) - e ≤ i ∧ i ≤ e * (e + 1) + e) → frdC (α := α) (B e s) A i = frdC (α := α) s A i)
    (ell : Int) (h1 : (e0 : Int) ≤ ell) (h2 : ell ≤ L) (i : Int) (hi1 : ell * (ell + 1) - ell ≤ i) (hi2 : i ≤ ell * (ell + 1) + ell) :
    ∃ s' : φ, frdC (α := α) (loopN ((L + 1) - (e0 : Int)).toNat (fun k s => B ((e0 : Int) + (k : Int)) s) st) A i = frdC (α := α) (B ell s') A i
      ∧ ∀ j, (ell * (ell + 1) - ell ≤ j ∧ j ≤ ell * (ell + 1) + ell) → frdC (α := α) s' A j = frdC (α := α) st A j := by
  have hk : (ell - e0).toNat < ((L + 1) - (e0 : Int)).toNat := by omega
  have ee : (e0 : Int) + ((ell - e0).toNat : Int) = ell := by omega
  refine ⟨loopN (ell - e0).toNat (fun k s => B ((e0 : Int) + (k : Int)) s) st, ?_, ?_⟩
  · have := (loop_at (fun k s => B ((e0 : Int) + (k : Int)) s) A i _ (ell - e0).toNat hk st
      (fun k s _ hne => hout _ s i (by omega) (block_disjoint ell _ i (by omega) (by omega) (by omega) hi1 hi2))).1
    rw [this]; simp only [ee]
  · intro j ⟨hj1, hj2⟩
    exact loop_untouched _ A j _ st (fun k s hk' => hout _ s j (by omega) (block_disjoint ell _ j (by omega) (by omega) (by omega) hj1 hj2))

/-- cells below the first block are never written -/
theorem blocks_below (A : Nat) (e0 : Nat) (L : Int) (B : Int → φ → φ) (st : φ)
    (hout : ∀ (e : Int) (s : φ) (i : Int), 0 ≤ e → ¬ (e * (e + 1) - e ≤ i ∧ i ≤ e * (e + 1) + e) → frdC (α := α) (B e s) A i = frdC (α := α) s A i)
    (ell : Int) (h0 : 0 ≤ ell) (h1 : ell < e0) (i : Int) (hi1 : ell * (ell + 1) - ell ≤ i) (hi2 : i ≤ ell * (ell + 1) + ell) :
    frdC (α := α) (loopN ((L + 1) - (e0 : Int)).toNat (fun k s => B ((e0 : Int) + (k : Int)) s) st) A i = frdC (α := α) st A i :=
  loop_untouched _ A i _ st (fun k s _ => hout _ s i (by omega) (block_disjoint ell _ i (by omega) (by omega) (by omega) hi1 hi2))

/-! ### `Lz` and `Lsquared`: in place on the copy -/

/-- block `e` of the in-place operators: `A[e(e+1)+m] *= c e m` for `m = -e … e` -/
def Bmul (A : Nat) (c : Int → Int → α) (e : Int) (s : φ) : φ :=
  loopN (2 * e + 1).toNat (fun k s => fwrC (α := α) s A ((e * (e + 1) - e) + (k : Int))
    (Cx.mul (frdC (α := α) s A ((e * (e + 1) - e) + (k : Int))) (Cx.ofRe (c e (-e + (k : Int)))))) s

theorem Bmul_cell (A : Nat) (c : Int → Int → α) (e : Int) (s : φ) (i : Int) :
    frdC (α := α) (Bmul A c e s) A i
      = if e * (e + 1) - e ≤ i ∧ i < e * (e + 1) - e + (2 * e + 1).toNat then
          Cx.mul (frdC (α := α) s A i) (Cx.ofRe (c e (-e + ((i - (e * (e + 1) - e)).toNat : Int))))
        else frdC (α := α) s A i := by
  unfold Bmul
  exact run_update (2 * e + 1).toNat A (e * (e + 1) - e) (fun k z => Cx.mul z (Cx.ofRe (c e (-e + (k : Int))))) s i

/-- the generated `Lz` loop is the block loop with `c e m = m` -/
theorem Lz_canon (A : Nat) (sw : Int) (L : Int) (st : φ) :
    Gen.Modes_Lz_loop (α := α) A L 0 sw st
      = loopN ((L + 1) - ((sw.natAbs : Nat) : Int)).toNat (fun k s => Bmul A (fun _ m => (Scalar.ofInt m : α)) (((sw.natAbs : Nat) : Int) + (k : Int)) s) st := by
  unfold Gen.Modes_Lz_loop
  simp only []
  refine Lemmas.Object.loopN_congr _ _ _ st (fun k1 hk1 s => ?_)
  unfold Bmul
  have ec : (((((sw.natAbs : Nat) : Int) + (k1 : Int)) + 1) - (-(((sw.natAbs : Nat) : Int) + (k1 : Int)))).toNat
      = (2 * (((sw.natAbs : Nat) : Int) + (k1 : Int)) + 1).toNat := by omega
  rw [ec]
  refine Lemmas.Object.loopN_congr _ _ _ s (fun k2 hk2 s2 => ?_)
  rw [midx sw L _ _ (by omega) (by omega) (by omega) (by omega)]
  have e : (((sw.natAbs : Nat) : Int) + (k1 : Int)) * ((((sw.natAbs : Nat) : Int) + (k1 : Int)) + 1) + (-(((sw.natAbs : Nat) : Int) + (k1 : Int)) + (k2 : Int))
      = ((((sw.natAbs : Nat) : Int) + (k1 : Int)) * ((((sw.natAbs : Nat) : Int) + (k1 : Int)) + 1) - (((sw.natAbs : Nat) : Int) + (k1 : Int))) + (k2 : Int) := by ring
  rw [e]

/-- the generated `Lsquared` loop is the block loop with `c e m = e(e+1)` -/
theorem Lsquared_canon (A : Nat) (sw : Int) (L : Int) (st : φ) :
    Gen.Modes_Lsquared_loop (α := α) A L 0 sw st
      = loopN ((L + 1) - ((sw.natAbs : Nat) : Int)).toNat (fun k s => Bmul A (fun e _ => (Scalar.ofInt (e * (e + 1)) : α)) (((sw.natAbs : Nat) : Int) + (k : Int)) s) st := by
  unfold Gen.Modes_Lsquared_loop
  simp only []
  refine Lemmas.Object.loopN_congr _ _ _ st (fun k1 hk1 s => ?_)
  unfold Bmul
  rw [midx sw L _ _ (by omega) (by omega) (by omega) (by omega), midx sw L _ _ (by omega) (by omega) (by omega) (by omega)]
  have ec : ((((((sw.natAbs : Nat) : Int) + (k1 : Int)) * ((((sw.natAbs : Nat) : Int) + (k1 : Int)) + 1) + (((sw.natAbs : Nat) : Int) + (k1 : Int))) + 1
      - ((((sw.natAbs : Nat) : Int) + (k1 : Int)) * ((((sw.natAbs : Nat) : Int) + (k1 : Int)) + 1) + -(((sw.natAbs : Nat) : Int) + (k1 : Int)))) - 0).toNat
      = (2 * (((sw.natAbs : Nat) : Int) + (k1 : Int)) + 1).toNat := by
    congr 1; ring
  rw [ec]
  refine Lemmas.Object.loopN_congr _ _ _ s (fun k2 hk2 s2 => ?_)
  have e : (((sw.natAbs : Nat) : Int) + (k1 : Int)) * ((((sw.natAbs : Nat) : Int) + (k1 : Int)) + 1) + -(((sw.natAbs : Nat) : Int) + (k1 : Int)) + ((0 : Int) + (k2 : Int))
      = ((((sw.natAbs : Nat) : Int) + (k1 : Int)) * ((((sw.natAbs : Nat) : Int) + (k1 : Int)) + 1) - (((sw.natAbs : Nat) : Int) + (k1 : Int))) + (k2 : Int) := by ring
  rw [e]

/-- cells of the block loop of an in-place operator -/
theorem mul_blocks_cell (A : Nat) (c : Int → Int → α) (e0 : Nat) (L : Nat) (st : φ) (ell : Nat) (m : Int) (hm : m.natAbs ≤ ell) (hl : ell ≤ L) :
    frdC (α := α) (loopN (((L : Int) + 1) - (e0 : Int)).toNat (fun k s => Bmul A c ((e0 : Int) + (k : Int)) s) st) A ((ell : Int) * ((ell : Int) + 1) + m)
      = if e0 ≤ ell then Cx.mul (frdC (α := α) st A ((ell : Int) * ((ell : Int) + 1) + m)) (Cx.ofRe (c ell m))
        else frdC (α := α) st A ((ell : Int) * ((ell : Int) + 1) + m) := by
  have hout : ∀ (e : Int) (s : φ) (i : Int), 0 ≤ e → ¬ (e * (e + 1) - e ≤ i ∧ i ≤ e * (e + 1) + e) →
      frdC (α := α) (Bmul A c e s) A i = frdC (α := α) s A i := by
    intro e s i he hni
    rw [Bmul_cell, if_neg (by omega)]
  by_cases h : e0 ≤ ell
  · rw [if_pos h]
    obtain ⟨s', a1, a2⟩ := blocks A e0 (L : Int) (Bmul A c) st hout (ell : Int) (by omega) (by omega) ((ell : Int) * ((ell : Int) + 1) + m) (by omega) (by omega)
    rw [a1, Bmul_cell, if_pos (by omega), a2 _ (by omega)]
    have : -(ell : Int) + (((ell : Int) * ((ell : Int) + 1) + m - ((ell : Int) * ((ell : Int) + 1) - (ell : Int))).toNat : Int) = m := by omega
    rw [this]
  · rw [if_neg h]
    exact blocks_below A e0 (L : Int) (Bmul A c) st hout (ell : Int) (by omega) (by omega) _ (by omega) (by omega)

/-! ### the operators that fill a fresh output: `Lplus`, `Lminus`, `Rplus`, `Rminus` -/

/-- cells of a block loop whose block `e` stores `V e m` at `(e, m)` whatever it starts from -/
theorem set_blocks_cell (A : Nat) (e0 : Nat) (L : Nat) (B : Int → φ → φ) (V : Int → Int → Cx α) (st : φ)
    (hout : ∀ (e : Int) (s : φ) (i : Int), 0 ≤ e → ¬ (e * (e + 1) - e ≤ i ∧ i ≤ e * (e + 1) + e) → frdC (α := α) (B e s) A i = frdC (α := α) s A i)
    (hin : ∀ (e : Int) (s : φ) (m : Int), (e0 : Int) ≤ e → e ≤ L → -e ≤ m → m ≤ e → frdC (α := α) (B e s) A (e * (e + 1) + m) = V e m)
    (ell : Nat) (m : Int) (hm : m.natAbs ≤ ell) (hl : ell ≤ L) :
    frdC (α := α) (loopN (((L : Int) + 1) - (e0 : Int)).toNat (fun k s => B ((e0 : Int) + (k : Int)) s) st) A ((ell : Int) * ((ell : Int) + 1) + m)
      = if e0 ≤ ell then V ell m else frdC (α := α) st A ((ell : Int) * ((ell : Int) + 1) + m) := by
  by_cases h : e0 ≤ ell
  · rw [if_pos h]
    obtain ⟨s', a1, _⟩ := blocks A e0 (L : Int) B st hout (ell : Int) (by omega) (by omega) ((ell : Int) * ((ell : Int) + 1) + m) (by omega) (by omega)
    rw [a1, hin _ _ _ (by omega) (by omega) (by omega) (by omega)]
  · rw [if_neg h]
    exact blocks_below A e0 (L : Int) B st hout (ell : Int) (by omega) (by omega) _ (by omega) (by omega)

/-- block `e` of `Lplus`: `o[e, -e] = 0.0`, then `o[e, m] = c e m * s[e, m-1]` for `m = -e+1 … e` -/
def BLplus (A : Nat) (sin : Int → Cx α) (e : Int) (s : φ) : φ :=
  loopN (2 * e).toNat (fun k s => fwrC (α := α) s A ((e * (e + 1) - e + 1) + (k : Int))
      (Cx.rmul (Scalar.sqrt (Scalar.ofInt ((e + (-e + 1 + (k : Int))) * ((e - (-e + 1 + (k : Int))) + 1)) : α)) (sin (e * (e + 1) + ((-e + 1 + (k : Int)) - 1)))))
    (fwrC (α := α) s A (e * (e + 1) + -e) (Cx.ofRe (Scalar.ofInt 0 : α)))

theorem Lplus_canon (sin : Int → Cx α) (A : Nat) (sw : Int) (L : Int) (st : φ) :
    Gen.Modes_Lplus_loop (α := α) sin A L 0 sw L 0 sw st
      = loopN ((L + 1) - ((sw.natAbs : Nat) : Int)).toNat (fun k s => BLplus A sin (((sw.natAbs : Nat) : Int) + (k : Int)) s) st := by
  unfold Gen.Modes_Lplus_loop
  simp only []
  refine Lemmas.Object.loopN_congr _ _ _ st (fun k1 hk1 s => ?_)
  unfold BLplus
  rw [midx sw L _ _ (by omega) (by omega) (by omega) (by omega)]
  have ec : (((((sw.natAbs : Nat) : Int) + (k1 : Int)) + 1) - (-(((sw.natAbs : Nat) : Int) + (k1 : Int)) + 1)).toNat
      = (2 * (((sw.natAbs : Nat) : Int) + (k1 : Int))).toNat := by omega
  rw [ec]
  refine Lemmas.Object.loopN_congr _ _ _ _ (fun k2 hk2 s2 => ?_)
  rw [midx sw L _ _ (by omega) (by omega) (by omega) (by omega), midx sw L _ _ (by omega) (by omega) (by omega) (by omega)]
  have e : (((sw.natAbs : Nat) : Int) + (k1 : Int)) * ((((sw.natAbs : Nat) : Int) + (k1 : Int)) + 1) + (-(((sw.natAbs : Nat) : Int) + (k1 : Int)) + 1 + (k2 : Int))
      = ((((sw.natAbs : Nat) : Int) + (k1 : Int)) * ((((sw.natAbs : Nat) : Int) + (k1 : Int)) + 1) - (((sw.natAbs : Nat) : Int) + (k1 : Int)) + 1) + (k2 : Int) := by ring
  rw [e]

theorem BLplus_cell (A : Nat) (sin : Int → Cx α) (e : Int) (he : 0 ≤ e) (s : φ) (i : Int) :
    frdC (α := α) (BLplus A sin e s) A i
      = if e * (e + 1) - e + 1 ≤ i ∧ i ≤ e * (e + 1) + e then
          Cx.rmul (Scalar.sqrt (Scalar.ofInt ((e + (i - e * (e + 1))) * ((e - (i - e * (e + 1))) + 1)) : α)) (sin (i - 1))
        else if i = e * (e + 1) - e then Cx.ofRe (Scalar.ofInt 0 : α) else frdC (α := α) s A i := by
  unfold BLplus
  rw [run_set]
  by_cases c : e * (e + 1) - e + 1 ≤ i ∧ i ≤ e * (e + 1) + e
  · rw [if_pos (by omega), if_pos c]
    have h1 : -e + 1 + (((i - (e * (e + 1) - e + 1)).toNat : Nat) : Int) = i - e * (e + 1) := by omega
    rw [h1]
    have h2 : e * (e + 1) + (i - e * (e + 1) - 1) = i - 1 := by ring
    rw [h2]
  · rw [if_neg (by omega), if_neg c]
    by_cases c2 : i = e * (e + 1) - e
    · rw [if_pos c2, c2]
      have : e * (e + 1) + -e = e * (e + 1) - e := by ring
      rw [this, frdC_fwrC_same]
    · rw [if_neg c2, frdC_fwrC_other _ _ _ _ _ (by omega)]

/-- block `e` of `Lminus`: `o[e, m] = c e m * s[e, m+1]` for `m = -e … e-1`, then `o[e, e] = 0.0` -/
def BLminus (A : Nat) (sin : Int → Cx α) (e : Int) (s : φ) : φ :=
  fwrC (α := α) (loopN (2 * e).toNat (fun k s => fwrC (α := α) s A ((e * (e + 1) - e) + (k : Int))
      (Cx.rmul (Scalar.sqrt (Scalar.ofInt ((e - (-e + (k : Int))) * ((e + (-e + (k : Int))) + 1)) : α)) (sin (e * (e + 1) + ((-e + (k : Int)) + 1))))) s)
    A (e * (e + 1) + e) (Cx.ofRe (Scalar.ofInt 0 : α))

theorem Lminus_canon (sin : Int → Cx α) (A : Nat) (sw : Int) (L : Int) (st : φ) :
    Gen.Modes_Lminus_loop (α := α) sin A L 0 sw st
      = loopN ((L + 1) - ((sw.natAbs : Nat) : Int)).toNat (fun k s => BLminus A sin (((sw.natAbs : Nat) : Int) + (k : Int)) s) st := by
  unfold Gen.Modes_Lminus_loop
  simp only []
  refine Lemmas.Object.loopN_congr _ _ _ st (fun k1 hk1 s => ?_)
  unfold BLminus
  rw [midx sw L _ _ (by omega) (by omega) (by omega) (by omega)]
  have ec : ((((sw.natAbs : Nat) : Int) + (k1 : Int)) - (-(((sw.natAbs : Nat) : Int) + (k1 : Int)))).toNat
      = (2 * (((sw.natAbs : Nat) : Int) + (k1 : Int))).toNat := by omega
  rw [ec]
  congr 1
  refine Lemmas.Object.loopN_congr _ _ _ _ (fun k2 hk2 s2 => ?_)
  rw [midx sw L _ _ (by omega) (by omega) (by omega) (by omega), midx sw L _ _ (by omega) (by omega) (by omega) (by omega)]
  have e : (((sw.natAbs : Nat) : Int) + (k1 : Int)) * ((((sw.natAbs : Nat) : Int) + (k1 : Int)) + 1) + (-(((sw.natAbs : Nat) : Int) + (k1 : Int)) + (k2 : Int))
      = ((((sw.natAbs : Nat) : Int) + (k1 : Int)) * ((((sw.natAbs : Nat) : Int) + (k1 : Int)) + 1) - (((sw.natAbs : Nat) : Int) + (k1 : Int))) + (k2 : Int) := by ring
  rw [e]

theorem BLminus_cell (A : Nat) (sin : Int → Cx α) (e : Int) (he : 0 ≤ e) (s : φ) (i : Int) :
    frdC (α := α) (BLminus A sin e s) A i
      = if i = e * (e + 1) + e then Cx.ofRe (Scalar.ofInt 0 : α)
        else if e * (e + 1) - e ≤ i ∧ i < e * (e + 1) + e then
          Cx.rmul (Scalar.sqrt (Scalar.ofInt ((e - (i - e * (e + 1))) * ((e + (i - e * (e + 1))) + 1)) : α)) (sin (i + 1))
        else frdC (α := α) s A i := by
  unfold BLminus
  by_cases c : i = e * (e + 1) + e
  · rw [if_pos c, c, frdC_fwrC_same]
  · rw [if_neg c, frdC_fwrC_other _ _ _ _ _ c, run_set]
    by_cases c2 : e * (e + 1) - e ≤ i ∧ i < e * (e + 1) + e
    · rw [if_pos (by omega), if_pos c2]
      have h1 : -e + (((i - (e * (e + 1) - e)).toNat : Nat) : Int) = i - e * (e + 1) := by omega
      rw [h1]
      have h2 : e * (e + 1) + (i - e * (e + 1) + 1) = i + 1 := by ring
      rw [h2]
    · rw [if_neg (by omega), if_neg c2]

/-- block `e` of `Rplus` / `Rminus`: the whole slice `o[e, :] = coef e * s[e, :]` -/
def BR (A : Nat) (sin : Int → Cx α) (coef : Int → α) (e : Int) (s : φ) : φ :=
  loopN (2 * e + 1).toNat (fun k s => fwrC (α := α) s A ((e * (e + 1) - e) + (k : Int))
    (Cx.rmul (coef e) (sin ((e * (e + 1) - e) + (k : Int))))) s

theorem BR_cell (A : Nat) (sin : Int → Cx α) (coef : Int → α) (e : Int) (s : φ) (i : Int) :
    frdC (α := α) (BR A sin coef e s) A i
      = if e * (e + 1) - e ≤ i ∧ i < e * (e + 1) - e + (2 * e + 1).toNat then Cx.rmul (coef e) (sin i) else frdC (α := α) s A i := by
  unfold BR
  rw [run_set]
  by_cases c : e * (e + 1) - e ≤ i ∧ i < e * (e + 1) - e + (2 * e + 1).toNat
  · rw [if_pos c, if_pos c]
    have : e * (e + 1) - e + (((i - (e * (e + 1) - e)).toNat : Nat) : Int) = i := by omega
    rw [this]
  · rw [if_neg c, if_neg c]

/-- the generated `Rplus` / `Rminus` loops (new spin `ds`, same `ell_max`, `ell_min = 0` on both objects) are block loops -/
theorem R_canon_aux (sin : Int → Cx α) (A : Nat) (sw ds : Int) (L : Int) (coef : Int → α) (e0 : Nat)
    (he0 : (e0 : Int) = max ((Int.natAbs ds : Nat) : Int) ((Int.natAbs sw : Nat) : Int)) (k1 : Nat) (hk1 : k1 < ((L + 1) - (e0 : Int)).toNat) (s : φ) :
    loopN (((Modes_index ds 0 L ((e0 : Int) + (k1 : Int)) ((e0 : Int) + (k1 : Int)) + 1) - Modes_index ds 0 L ((e0 : Int) + (k1 : Int)) (-((e0 : Int) + (k1 : Int)))) - 0).toNat
        (fun k2 (st : φ) => fwrC (α := α) st A (Modes_index ds 0 L ((e0 : Int) + (k1 : Int)) (-((e0 : Int) + (k1 : Int))) + ((0 : Int) + (k2 : Int)))
          (Cx.rmul (coef ((e0 : Int) + (k1 : Int))) (sin (Modes_index sw 0 L ((e0 : Int) + (k1 : Int)) (-((e0 : Int) + (k1 : Int))) + ((0 : Int) + (k2 : Int)))))) s
      = BR A sin coef ((e0 : Int) + (k1 : Int)) s := by
  unfold BR
  rw [midx ds L _ _ (by omega) (by omega) (by omega) (by omega), midx ds L _ _ (by omega) (by omega) (by omega) (by omega),
    midx sw L _ _ (by omega) (by omega) (by omega) (by omega)]
  have ec : (((((e0 : Int) + (k1 : Int)) * (((e0 : Int) + (k1 : Int)) + 1) + ((e0 : Int) + (k1 : Int))) + 1
      - (((e0 : Int) + (k1 : Int)) * (((e0 : Int) + (k1 : Int)) + 1) + -((e0 : Int) + (k1 : Int)))) - 0).toNat
      = (2 * ((e0 : Int) + (k1 : Int)) + 1).toNat := by
    congr 1; ring
  rw [ec]
  refine Lemmas.Object.loopN_congr _ _ _ s (fun k2 hk2 s2 => ?_)
  have e : ((e0 : Int) + (k1 : Int)) * (((e0 : Int) + (k1 : Int)) + 1) + -((e0 : Int) + (k1 : Int)) + ((0 : Int) + (k2 : Int))
      = (((e0 : Int) + (k1 : Int)) * (((e0 : Int) + (k1 : Int)) + 1) - ((e0 : Int) + (k1 : Int))) + (k2 : Int) := by ring
  rw [e]

theorem Rplus_canon (sin : Int → Cx α) (A : Nat) (sw : Int) (L : Int) (st : φ) (e0 : Nat)
    (he0 : (e0 : Int) = max ((Int.natAbs (sw - 1) : Nat) : Int) ((Int.natAbs sw : Nat) : Int)) :
    Gen.Modes_Rplus_loop (α := α) sin A L 0 (sw - 1) L 0 sw st
      = loopN ((L + 1) - (e0 : Int)).toNat (fun k s =>
          BR A sin (fun e => (Scalar.sqrt (Scalar.ofInt ((e - (sw - 1)) * ((e + (sw - 1)) + 1)) : α))) ((e0 : Int) + (k : Int)) s) st := by
  unfold Gen.Modes_Rplus_loop
  simp only []
  rw [← he0]
  refine Lemmas.Object.loopN_congr _ _ _ st (fun k1 hk1 s => ?_)
  rw [if_pos (by omega)]
  exact R_canon_aux sin A sw (sw - 1) L (fun e => (Scalar.sqrt (Scalar.ofInt ((e - (sw - 1)) * ((e + (sw - 1)) + 1)) : α))) e0 he0 k1 hk1 s

theorem Rminus_canon (sin : Int → Cx α) (A : Nat) (sw : Int) (L : Int) (st : φ) (e0 : Nat)
    (he0 : (e0 : Int) = max ((Int.natAbs (sw + 1) : Nat) : Int) ((Int.natAbs sw : Nat) : Int)) :
    Gen.Modes_Rminus_loop (α := α) sin A L 0 (sw + 1) L 0 sw st
      = loopN ((L + 1) - (e0 : Int)).toNat (fun k s =>
          BR A sin (fun e => (Scalar.sqrt (Scalar.ofInt ((e + (sw + 1)) * ((e - (sw + 1)) + 1)) : α))) ((e0 : Int) + (k : Int)) s) st := by
  unfold Gen.Modes_Rminus_loop
  simp only []
  rw [← he0]
  refine Lemmas.Object.loopN_congr _ _ _ st (fun k1 hk1 s => ?_)
  rw [if_pos (by omega)]
  exact R_canon_aux sin A sw (sw + 1) L (fun e => (Scalar.sqrt (Scalar.ofInt ((e + (sw + 1)) * ((e - (sw + 1)) + 1)) : α))) e0 he0 k1 hk1 s

/-! ### the array-level operators: blocks addressed by a running counter -/

/-- `for ell in range(ell_min, …)` whose block `e` advances the counter by `2e+1`, writes only the `2e+1` cells at the counter
    and leaves `act e (old)` in each: the counter after `cnt` blocks, every cell of every block, and the cells beyond -/
theorem ctr_blocks (A : Nat) (emin : Nat) (B : Int → φ × Int → φ × Int) (act : Int → Cx α → Cx α)
    (hc : ∀ (e : Int) (p : φ × Int), 0 ≤ e → (B e p).2 = p.2 + (2 * e + 1))
    (hout : ∀ (e : Int) (p : φ × Int) (i : Int), 0 ≤ e → ¬ (p.2 ≤ i ∧ i < p.2 + (2 * e + 1)) → frdC (α := α) (B e p).1 A i = frdC (α := α) p.1 A i)
    (hin : ∀ (e : Int) (p : φ × Int) (i : Int), 0 ≤ e → p.2 ≤ i → i < p.2 + (2 * e + 1) → frdC (α := α) (B e p).1 A i = act e (frdC (α := α) p.1 A i))
    (cnt : Nat) (st : φ) :
    (loopN cnt (fun k p => B ((emin : Int) + (k : Int)) p) (st, 0)).2 = ((emin : Int) + cnt) * ((emin : Int) + cnt) - (emin : Int) * emin
    ∧ (∀ (ell : Int) (k : Int), (emin : Int) ≤ ell → ell < (emin : Int) + cnt → 0 ≤ k → k < 2 * ell + 1 →
        frdC (α := α) (loopN cnt (fun k p => B ((emin : Int) + (k : Int)) p) (st, 0)).1 A (ell * ell - (emin : Int) * emin + k)
          = act ell (frdC (α := α) st A (ell * ell - (emin : Int) * emin + k)))
    ∧ (∀ i : Int, (i < 0 ∨ ((emin : Int) + cnt) * ((emin : Int) + cnt) - (emin : Int) * emin ≤ i) →
        frdC (α := α) (loopN cnt (fun k p => B ((emin : Int) + (k : Int)) p) (st, 0)).1 A i = frdC (α := α) st A i) := by
  induction cnt with
  | zero =>
    refine ⟨by simp [loopN], ?_, fun i _ => rfl⟩
    intro ell k h1 h2; omega
  | succ n ih =>
    obtain ⟨c1, c2, c3⟩ := ih
    simp only [loopN]
    generalize hP : loopN n (fun k p => B ((emin : Int) + (k : Int)) p) (st, 0) = P at c1 c2 c3
    have he : (0 : Int) ≤ (emin : Int) + (n : Int) := by omega
    refine ⟨?_, ?_, ?_⟩
    · rw [hc _ _ he, c1]; push_cast; ring
    · intro ell k h1 h2 h3 h4
      by_cases hl : ell < (emin : Int) + n
      · rw [hout _ _ _ he (by rw [c1]; intro ⟨a, _⟩; nlinarith)]
        exact c2 ell k h1 hl h3 h4
      · have : ell = (emin : Int) + n := by push_cast at h2; omega
        subst this
        rw [hin _ _ _ he (by rw [c1]; nlinarith) (by rw [c1]; nlinarith), c3 _ (Or.inr (by nlinarith))]
    · intro i hi
      rw [hout _ _ _ he (by
        rw [c1]; intro ⟨a, b⟩
        rcases hi with hi | hi
        · nlinarith
        · push_cast at hi; nlinarith)]
      exact c3 i (by
        rcases hi with hi | hi
        · exact Or.inl hi
        · right; push_cast at hi; nlinarith)

/-- a run of in-place updates carrying a counter (the generated inner loop), as a block -/
def runCtr (A : Nat) (f : Cx α → Cx α) (e : Int) (p : φ × Int) : φ × Int :=
  loopN (((e + 1)) - ((-e))).toNat (fun k2 (p2 : φ × Int) =>
    (fwrC (α := α) p2.1 A p2.2 (f (frdC (α := α) p2.1 A p2.2)), p2.2 + 1)) p

theorem runCtr_eq (A : Nat) (f : Cx α → Cx α) (e : Int) (p : φ × Int) :
    runCtr A f e p = (loopN (2 * e + 1).toNat (fun k s => fwrC (α := α) s A (p.2 + (k : Int)) (f (frdC (α := α) s A (p.2 + (k : Int))))) p.1,
      p.2 + ((2 * e + 1).toNat : Int)) := by
  unfold runCtr
  have ec : (((e + 1)) - ((-e))).toNat = (2 * e + 1).toNat := by omega
  rw [ec]
  exact loopN_counter (2 * e + 1).toNat (fun k (q : φ × Int) => fwrC (α := α) q.1 A q.2 (f (frdC (α := α) q.1 A q.2))) p.1 p.2

theorem runCtr_facts (A : Nat) (f : Cx α → Cx α) (e : Int) (he : 0 ≤ e) (p : φ × Int) :
    (runCtr A f e p).2 = p.2 + (2 * e + 1)
    ∧ (∀ i, ¬ (p.2 ≤ i ∧ i < p.2 + (2 * e + 1)) → frdC (α := α) (runCtr A f e p).1 A i = frdC (α := α) p.1 A i)
    ∧ (∀ i, p.2 ≤ i → i < p.2 + (2 * e + 1) → frdC (α := α) (runCtr A f e p).1 A i = f (frdC (α := α) p.1 A i)) := by
  rw [runCtr_eq]
  refine ⟨by simp only []; omega, ?_, ?_⟩
  · intro i hi
    show frdC (α := α) (loopN _ _ p.1) A i = _
    rw [run_update (2 * e + 1).toNat A p.2 (fun _ z => f z) p.1 i, if_neg (by omega)]
  · intro i h1 h2
    show frdC (α := α) (loopN _ _ p.1) A i = _
    rw [run_update (2 * e + 1).toNat A p.2 (fun _ z => f z) p.1 i, if_pos (by omega)]
end
end GenDiff
