import SphericalVerif.Lemmas.Finite
import SphericalVerif.Lemmas.HRefine6
/-! The part of "the computed H (hence D) is finite" that is a theorem: **for every size, the Wigner-H
    recursion never divides by zero and never takes the square root of a negative number** on the way to a
    wedge cell — for ALL real inputs (c, s), not only for c² + s² = 1.

    Arithmetic: `Option ℝ` (`Model.Checked`), where a zero divisor and a negative radicand produce the fault
    `none`, and faults propagate through every later operation.  Statements:

    * `valW_checked_eq_real`, `valV_checked_eq_real`: the coordinate recursion `Spec.valW` / `Spec.valV`
      evaluated with checks returns `some` of its value over the plain reals (`instScalarReal`);
    * `valW_defined`, `valV_defined`: in particular it is not a fault;
    * `runH_checked_eq_real`, `runH_defined`, `runH_checked_eq_runH_real`: the same for every wedge cell of
      the validated model `Model.runH` of `_step_1 … _step_5` (through `HRefine.runH_refines`), whatever the
      initial workspace contained (faults included) and whatever the memory representation;
    * `tables_read_defined`: the entries of the tables `_a _b _d _g _h` of `Wigner.__init__` that the recursion
      reads as divisors or under a root, and `tables_faulty_entries` / `*_defined_iff`: the entries that are
      `inf`/`nan` in the real tables are exactly the ones outside these ranges;
    * the wedge hypotheses are needed: `valW_fault_outside_wedge`.

    Out of scope (not theorems of exact arithmetic): overflow and rounding of IEEE doubles. -/
namespace Finite
open Scalar Model Spec Model.Checked

/-! ### the coordinate recursion -/

/-- the checked value of H(n, m', m), |m'| ≤ m ≤ n, IS the real value: in particular a finite real number -/
theorem valW_checked_eq_real (c s : ℝ) (n : Nat) (mp : Int) (m : Nat) (h1 : mp.natAbs ≤ m) (h2 : m ≤ n) :
    valW (some c) (some s) n mp m = some (valW c s n mp m) := by
  unfold valW
  split
  · exact valPos_some c s _ n m (by omega) h2
  · exact valNeg_some c s _ n m h1 h2

/-- every divisor met on the way to a wedge cell is non-zero and every radicand non-negative, for every size -/
theorem valW_defined (c s : ℝ) (n : Nat) (mp : Int) (m : Nat) (h1 : mp.natAbs ≤ m) (h2 : m ≤ n) :
    valW (some c) (some s) n mp m ≠ none := by
  rw [valW_checked_eq_real c s n mp m h1 h2]; exact Option.some_ne_none _

/-- row L+1 of the m' = 0 column (kept in `Hextra`) and in fact every (n, m): no fault -/
theorem valW_col0_defined (c s : ℝ) (n m : Nat) : valW (some c) (some s) n 0 m ≠ none := by
  show valPos (some c) (some s) 0 n m ≠ none
  rw [valPos, col0_some]; exact Option.some_ne_none _

/-- the scratch cells `hv n k`, |k| ≤ n, n ≥ 1 (steps 2, 4, 5 write `hv n k` for these k only) -/
theorem valV_checked_eq_real (c s : ℝ) (n : Nat) (k : Int) (hn : 1 ≤ n) (hk : k.natAbs ≤ n) :
    valV (some c) (some s) n k = some (valV c s n k) := by
  unfold valV
  split
  · exact valVPos_some c s n _ (by omega)
  · exact valVNeg_some c s n hn _ hk

theorem valV_defined (c s : ℝ) (n : Nat) (k : Int) (hn : 1 ≤ n) (hk : k.natAbs ≤ n) :
    valV (some c) (some s) n k ≠ none := by
  rw [valV_checked_eq_real c s n k hn hk]; exact Option.some_ne_none _

/-! ### the model of the kernels -/

section
variable {μ : Type} [Mem μ (Option ℝ)] [LawfulMem μ (Option ℝ)]

/-- every wedge cell computed by `runH` over the checked reals is `some` of the real value of the recursion:
    regardless of the sizes, the memory representation and the initial workspace `st` (which may hold faults) -/
theorem runH_checked_eq_real (L P : Nat) (c s : ℝ) (st : μ) (n : Nat) (mp : Int) (m : Nat)
    (hn : n ≤ L) (hmp : mp.natAbs ≤ min n P) (hm1 : mp.natAbs ≤ m) (hm2 : m ≤ n) :
    rd (runH L P (some c) (some s) st) (.hw n mp m) = some (valW c s n mp m) := by
  rw [HRefine.runH_refines L P (some c) (some s) st n mp m hn hmp hm1 hm2]
  exact valW_checked_eq_real c s n mp m hm1 hm2

/-- no wedge cell of `runH` is a fault -/
theorem runH_defined (L P : Nat) (c s : ℝ) (st : μ) (n : Nat) (mp : Int) (m : Nat)
    (hn : n ≤ L) (hmp : mp.natAbs ≤ min n P) (hm1 : mp.natAbs ≤ m) (hm2 : m ≤ n) :
    ∃ x : ℝ, rd (runH L P (some c) (some s) st) (.hw n mp m) = some x :=
  ⟨_, runH_checked_eq_real L P c s st n mp m hn hmp hm1 hm2⟩

theorem runH_ne_none (L P : Nat) (c s : ℝ) (st : μ) (n : Nat) (mp : Int) (m : Nat)
    (hn : n ≤ L) (hmp : mp.natAbs ≤ min n P) (hm1 : mp.natAbs ≤ m) (hm2 : m ≤ n) :
    rd (α := Option ℝ) (runH L P (some c) (some s) st) (.hw n mp m) ≠ none := by
  rw [runH_checked_eq_real L P c s st n mp m hn hmp hm1 hm2]; exact Option.some_ne_none _

/-- the checked run and the unchecked run over ℝ (any memory, any initial contents) agree cell by cell -/
theorem runH_checked_eq_runH_real {μ' : Type} [Mem μ' ℝ] [LawfulMem μ' ℝ]
    (L P : Nat) (c s : ℝ) (st : μ) (st' : μ') (n : Nat) (mp : Int) (m : Nat)
    (hn : n ≤ L) (hmp : mp.natAbs ≤ min n P) (hm1 : mp.natAbs ≤ m) (hm2 : m ≤ n) :
    rd (runH L P (some c) (some s) st) (.hw n mp m) = some (rd (α := ℝ) (runH L P c s st') (.hw n mp m)) := by
  rw [runH_checked_eq_real L P c s st n mp m hn hmp hm1 hm2,
    HRefine.runH_refines L P c s st' n mp m hn hmp hm1 hm2]
end

/-! ### the table entries that are read

    Call sites (from `Spec.ValH`, i.e. from the model of `_step_2 … _step_5`), with n the row:

    | entry                      | where                           | coordinates                               |
    |----------------------------|---------------------------------|-------------------------------------------|
    | `g[n, m]`, `h[n, m]`       | step 2 (`rawD`, `bot0`, `col0`) | n ≥ 1, 0 ≤ m < n  (never m = n)            |
    | `sqrt 3`, `1/sqrt 2`       | step 2                          |                                           |
    | `sqrt(1 + 0.5/n)`          | step 2 (`topU`)                 | n ≥ 2                                     |
    | `1/sqrt(4n+2)`             | step 2 (`cnorm`, `topN`)        | n ≥ 1                                     |
    | `1/b[n+1, 0]`              | step 3 (`f3`)                   | n ≥ 1  (b[1,0] = 0 is never a divisor)     |
    | `b[n+1, -i-2]`, `b[n+1, i]`| step 3                          | 0 ≤ i < n  (radicand ≥ 0 for every index)  |
    | `a[n, i+1]`                | step 3                          | 0 ≤ i < n                                 |
    | `1/d[n, m']`               | step 4 (`f4v f4mid f4top`)      | 0 < m' < n                                |
    | `1/d[n, m'-1]`             | step 5 (`f5v f5mid f5top`)      | -n < m' ≤ 0, i.e. -n ≤ m'-1 ≤ -1           |
    | `d[n, k]` as a factor      | steps 4, 5                      | -n < k < n  (d[n, n] = 0 is never read)    |

    The lemmas `f3_some … f5top_some` carry exactly these ranges as hypotheses and `valPos_some`,
    `valNeg_some`, `valVPos_some`, `valVNeg_some` discharge them from `|m'| ≤ m ≤ n`. -/

/-- the table entries read by the recursion, at the coordinates where it reads them, are not faults -/
theorem tables_read_defined :
    -- `_g`, `_h` (each a quotient by `sqrt((n-m)(n+m+1))` resp. `(n-m)(n+m+1)`): 0 ≤ m < n
    (∀ n m : Int, 0 ≤ m → m < n → (gC n m : Option ℝ) ≠ none ∧ (hC n m : Option ℝ) ≠ none)
    -- step 3: `1 / _b[n+1, 0]`, n ≥ 1
    ∧ (∀ n : Int, 1 ≤ n → (one : Option ℝ) /. bC (n+1) 0 ≠ none)
    -- step 4: `1 / _d[n, m']`, 0 < m' < n
    ∧ (∀ n mp : Int, 0 < mp → mp < n → (one : Option ℝ) /. dC n mp ≠ none)
    -- step 5: `1 / _d[n, m'-1]`, -n < m' ≤ 0
    ∧ (∀ n mp : Int, mp ≤ 0 → -n < mp → (one : Option ℝ) /. dC n (mp-1) ≠ none)
    -- square roots: `_a[n, m]` for |m| ≤ n+1, `_b[n, m]` for every m (n ≥ 1), `_d[n, k]` for -n-1 ≤ k ≤ n
    ∧ (∀ n m : Int, 0 ≤ n → -(n+1) ≤ m → m ≤ n+1 → (aC n m : Option ℝ) ≠ none)
    ∧ (∀ n m : Int, 1 ≤ n → (bC n m : Option ℝ) ≠ none)
    ∧ (∀ n k : Int, -n-1 ≤ k → k ≤ n → (dC n k : Option ℝ) ≠ none)
    -- constants of step 2
    ∧ (Scalar.sqrt (Scalar.ofInt 3) : Option ℝ) ≠ none
    ∧ (one : Option ℝ) /. Scalar.sqrt (Scalar.ofInt 2) ≠ none
    ∧ (∀ n : Nat, 1 ≤ n →
        Scalar.sqrt ((Scalar.ofInt 1 : Option ℝ) +. (Scalar.half /. Scalar.ofInt (n : Int))) ≠ none)
    ∧ (∀ n : Nat, (one : Option ℝ) /. Scalar.sqrt (Scalar.ofInt (4*(n : Int)+2)) ≠ none) := by
  refine ⟨fun n m h1 h2 => ⟨?_, ?_⟩, fun n hn => ?_, fun n mp h1 h2 => ?_, fun n mp h1 h2 => ?_,
    fun n m h0 h1 h2 => ?_, fun n m h => ?_, fun n k h1 h2 => ?_, ?_, ?_, fun n hn => ?_, fun n => ?_⟩
  · rw [gC_some n m (by omega) h2]; exact Option.some_ne_none _
  · rw [hC_some n m (by omega) h2]; exact Option.some_ne_none _
  · exact (inv_bC_defined_iff n (by omega)).mpr hn
  · exact (inv_dC_defined_iff n mp (by omega) (by omega)).mpr ⟨by omega, h2⟩
  · exact (inv_dC_defined_iff n (mp-1) (by omega) (by omega)).mpr ⟨by omega, by omega⟩
  · rw [aC_some n m h0 h1 h2]; exact Option.some_ne_none _
  · rw [bC_some n m h]; exact Option.some_ne_none _
  · rw [dC_some n k h1 h2]; exact Option.some_ne_none _
  · rw [sqrtInt_some 3 (by decide)]; exact Option.some_ne_none _
  · rw [sqrtInt_some 2 (by decide)]; exact (inv_defined_iff _).mpr (sqrtInt_ne 2 (by decide))
  · rw [rowconst_some n hn]; exact Option.some_ne_none _
  · rw [sqrtInt_some _ (by omega)]; exact (inv_defined_iff _).mpr (sqrtInt_ne _ (by omega))

theorem eq_none_of {x : Option ℝ} {p : Prop} (h : x ≠ none ↔ p) (hp : ¬ p) : x = none := by
  by_contra hx; exact hp (h.mp hx)

/-- the entries that `Wigner.__init__` computes under `np.errstate(all="ignore")` ARE faults: `_g[n, n]`
    (division by `sqrt 0`), `_h[n, n]` (division by 0), `1/_d[n, n]`, `1/_d[n, -n-1]`, `1/_b[1, 0]`.
    By `tables_read_defined` and the ranges there, the recursion reads none of them. -/
theorem tables_faulty_entries (n : Int) (hn : 0 ≤ n) :
    (gC n n : Option ℝ) = none
    ∧ (hC n n : Option ℝ) = none
    ∧ (one : Option ℝ) /. dC n n = none
    ∧ (one : Option ℝ) /. dC n (-n-1) = none
    ∧ (one : Option ℝ) /. bC (0+1) 0 = none :=
  ⟨eq_none_of (gC_defined_iff n n (by omega) (by omega)) (by omega),
   eq_none_of (hC_defined_iff n n hn (by omega)) (by omega),
   eq_none_of (inv_dC_defined_iff n n (by omega) (by omega)) (by omega),
   eq_none_of (inv_dC_defined_iff n (-n-1) (by omega) (by omega)) (by omega),
   eq_none_of (inv_bC_defined_iff 0 (by omega)) (by omega)⟩

/-- the hypothesis `m ≤ n` of `valW_defined` is needed, and the checked arithmetic does detect faults:
    outside the wedge, at (n, m', m) = (0, 1, 1), step 3's formula divides by `_b[1, 0] = 0` -/
theorem valW_fault_outside_wedge (c s : ℝ) : valW (some c) (some s) 0 1 1 = none := by
  show valPos (some c) (some s) 1 0 1 = none
  rw [valPos]
  unfold f3
  simp only []
  have h : (one : Option ℝ) /. bC (((0 : Nat) : Int) + 1) 0 = none :=
    eq_none_of (inv_bC_defined_iff ((0 : Nat) : Int) (by omega)) (by omega)
  rw [h]
  rfl

/-! ### a concrete point: n = 3, m' = -2, m = 2, (c, s) = (3/5, 4/5) -/

example : valW (some (3/5 : ℝ)) (some (4/5 : ℝ)) 3 (-2) 2 = some (valW (3/5 : ℝ) (4/5 : ℝ) 3 (-2) 2) :=
  valW_checked_eq_real (3/5) (4/5) 3 (-2) 2 (by decide) (by decide)

example : valW (some (3/5 : ℝ)) (some (4/5 : ℝ)) 3 (-2) 2 ≠ none :=
  valW_defined (3/5) (4/5) 3 (-2) 2 (by decide) (by decide)

/-- … and in the model, sizes (L, P) = (3, 2), starting from a workspace full of faults -/
example : rd (runH 3 2 (some (3/5 : ℝ)) (some (4/5 : ℝ)) (fun _ : Loc => (none : Option ℝ))) (.hw 3 (-2) 2)
    = some (valW (3/5 : ℝ) (4/5 : ℝ) 3 (-2) 2) :=
  runH_checked_eq_real 3 2 (3/5) (4/5) _ 3 (-2) 2 (by decide) (by decide) (by decide) (by decide)

end Finite
