#!/venv/bin/python
"""One-off generator of vlib/data/w3j_nontrivial_zeros.json: argument sets (j2, j3, m2, m3) of Wigner3jCalculator.calculate whose family of
3-j symbols (all j1) contains a NON-TRIVIAL zero — an exact zero (confirmed with the exact Racah sum) strictly inside the admissible j1 range
that is not forced by a selection rule or by the parity rule for m1 = m2 = m3 = 0.  These are the inputs at which the two recurrences of the
Luscombe–Luban scheme may be asked to meet on a vanishing term.  Candidates are found with the library itself (|value| < 1e-11 next to a
neighbour > 1e-4) and then confirmed exactly; the corpus does not depend on how the library treats them.
usage: tools/w3j_zero_corpus.py [J2MAX] [J3MAX]"""
import json
import os
import sys

sys.path.insert(0, os.path.join(os.path.dirname(os.path.abspath(__file__)), ".."))
import numpy as np  # noqa: E402
import spherical  # noqa: E402
from fractions import Fraction  # noqa: E402
from vlib.oracle import fact  # noqa: E402


def racah_sum_is_zero(j1, j2, j3, m1, m2, m3):
    tmin = max(0, j2 - j3 - m1, j1 - j3 + m2)
    tmax = min(j1 + j2 - j3, j1 - m1, j2 + m2)
    S = Fraction(0)
    for t in range(tmin, tmax + 1):
        den = fact(t) * fact(j3 - j2 + t + m1) * fact(j3 - j1 + t - m2) * fact(j1 + j2 - j3 - t) * fact(j1 - t - m1) * fact(j2 - t + m2)
        S += Fraction((-1) ** t, den)
    return S == 0


def main():
    J2, J3 = (int(sys.argv[1]) if len(sys.argv) > 1 else 24), (int(sys.argv[2]) if len(sys.argv) > 2 else 48)
    out = []
    for j2 in range(1, J2 + 1):
        for j3 in range(j2, J3 + 1):
            calc = spherical.Wigner3jCalculator(j2, j3)
            mark = len(out)
            for m2 in range(-j2, j2 + 1):
                for m3 in range(-j3, j3 + 1):
                    if m2 == 0 and m3 == 0:
                        continue
                    m1 = -(m2 + m3)
                    w = calc.calculate(j2, j3, m2, m3)
                    lo, hi = max(abs(j2 - j3), abs(m1)), j2 + j3
                    if hi - lo < 3:
                        continue
                    a = np.abs(w[lo:hi + 1])
                    for k in range(1, len(a) - 1):
                        if a[k] < 1e-11 and max(a[k - 1], a[k + 1]) > 1e-4:
                            j1 = lo + k
                            if racah_sum_is_zero(j1, j2, j3, m1, m2, m3):
                                out.append([j2, j3, m2, m3, j1])
                                break
        print(j2, len(out), file=sys.stderr)
    path = os.path.join(os.path.dirname(os.path.abspath(__file__)), "..", "vlib", "data", "w3j_nontrivial_zeros.npy")
    np.save(path, np.array(out, dtype=np.int16))      # columns: j2, j3, m2, m3, j1 of the zero
    print(len(out), "cases ->", path, "(J2MAX, J3MAX) =", (J2, J3))


if __name__ == "__main__":
    main()
