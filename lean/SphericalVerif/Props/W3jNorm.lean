import SphericalVerif.Lemmas.W3jNorm
/-! Values of `Wigner3jCalculator.calculate` (spherical/recursions/wigner3j.py) in exact arithmetic:
    the validated model `Model.W3j.calculate` at `α := ℝ`.

    As a function of `j1 ∈ [j_min, j_max]` (`j_min = max |j2-j3| |m2+m3|`, `j_max = j2+j3`) the 3-j
    symbols `(j1 j2 j3; -m2-m3 m2 m3)` are characterised by (i) the three-term recurrence in `j1`,
    (ii) `Σ (2 j1 + 1) f(j1)² = 1`, (iii) `sign f(j_max) = (-1)^(j2-j3+m2+m3)`.  This file states what
    is proved of (i)-(iii) about the array RETURNED by the model, read at the cells `j_min..j_max`.

    Domain (`Adm`): `|m2| ≤ j2`, `|m3| ≤ j3` (the guard of the source; hence `0 ≤ j2, j3`) and
    `j2 + j3 ≤ 1989` (beyond, the int64 radicand of `A` wraps: `C05.A_radicand_overflows_at_1990`). -/
namespace W3jNorm
open Model.W3j Scalar
open Lemmas.W3jNorm (Adm PreNorm jminOf)
open Lemmas.W3j (perm)

/-! ### 0. the pre-normalisation array -/

/-- `PreNorm size ws j2 j3 m2 m3 f`: `f` has `size` cells and the run returns (without raising)
    `determine_signs(normalize(f))` — `f` is the array handed to `normalize`. -/
theorem preNorm_iff (size : Nat) (ws : Array ℝ) (j2 j3 m2 m3 : Int) (f : Array ℝ) :
    PreNorm size ws j2 j3 m2 m3 f ↔
      (f.size = size ∧ calculate size ws j2 j3 m2 m3 =
        ⟨determineSigns (Model.W3j.normalize f (jminOf j2 j3 m2 m3) (j2 + j3))
          (jminOf j2 j3 m2 m3) (j2 + j3) j2 j3 m2 m3, false⟩) := Iff.rfl

/-- With more than one cell (`j_min < j_max`) every admissible run ends in `normalize`,
    `determine_signs`: it never raises and a pre-normalisation array exists. -/
theorem preNorm_exists (size : Nat) (ws : Array ℝ) (j2 j3 m2 m3 : Int) (ha : Adm j2 j3 m2 m3)
    (hlt : jminOf j2 j3 m2 m3 < j2 + j3) (hws : size ≤ ws.size) :
    ∃ f, PreNorm size ws j2 j3 m2 m3 f :=
  Lemmas.W3jNorm.prenorm_exists size ws j2 j3 m2 m3 ha hlt hws

/-! ### 1. normalisation -/

/-- `Σ_{j=j_min}^{j_max} (2j+1) out[j]² = 1`, provided the un-normalised sum is not zero (otherwise
    the source divides by `0.0`). -/
theorem normalized (size : Nat) (ws : Array ℝ) (j2 j3 m2 m3 : Int)
    (hlt : jminOf j2 j3 m2 m3 < j2 + j3) (hs : j2 + j3 + 1 ≤ size)
    (f : Array ℝ) (hpre : PreNorm size ws j2 j3 m2 m3 f)
    (hne : ∑ j ∈ Finset.Icc (jminOf j2 j3 m2 m3) (j2 + j3), (2 * (j : ℝ) + 1) * geti f j ^ 2 ≠ 0) :
    ∑ j ∈ Finset.Icc (jminOf j2 j3 m2 m3) (j2 + j3),
      (2 * (j : ℝ) + 1) * geti (calculate size ws j2 j3 m2 m3).f j ^ 2 = 1 :=
  Lemmas.W3jNorm.normalized size ws j2 j3 m2 m3 hlt hs f hpre hne

/-- single cell (`j_min = j_max`): unconditional -/
theorem normalized_single (size : Nat) (ws : Array ℝ) (j2 j3 m2 m3 : Int) (ha : Adm j2 j3 m2 m3)
    (heq : j2 + j3 = jminOf j2 j3 m2 m3) (hs : j2 + j3 + 1 ≤ size) (hws : size ≤ ws.size) :
    ∑ j ∈ Finset.Icc (jminOf j2 j3 m2 m3) (j2 + j3),
      (2 * (j : ℝ) + 1) * geti (calculate size ws j2 j3 m2 m3).f j ^ 2 = 1 :=
  Lemmas.W3jNorm.normalized_single size ws j2 j3 m2 m3 ha heq hs hws

/-! ### 2. sign convention -/

/-- `out[j_max]` has the sign of `(-1)^(j2-j3+m2+m3)` (or is zero), on every admissible call -/
theorem sign_convention (size : Nat) (ws : Array ℝ) (j2 j3 m2 m3 : Int) (ha : Adm j2 j3 m2 m3)
    (hs : j2 + j3 + 1 ≤ size) (hws : size ≤ ws.size) :
    0 ≤ geti (calculate size ws j2 j3 m2 m3).f (j2 + j3) * (-1 : ℝ) ^ (j2 - j3 + m2 + m3) :=
  Lemmas.W3jNorm.sign_convention size ws j2 j3 m2 m3 ha hs hws

theorem sign_convention_pos (size : Nat) (ws : Array ℝ) (j2 j3 m2 m3 : Int) (ha : Adm j2 j3 m2 m3)
    (hs : j2 + j3 + 1 ≤ size) (hws : size ≤ ws.size)
    (hne : geti (calculate size ws j2 j3 m2 m3).f (j2 + j3) ≠ 0) :
    0 < geti (calculate size ws j2 j3 m2 m3).f (j2 + j3) * (-1 : ℝ) ^ (j2 - j3 + m2 + m3) := by
  refine lt_of_le_of_ne (sign_convention size ws j2 j3 m2 m3 ha hs hws) (Ne.symm ?_)
  exact mul_ne_zero hne (zpow_ne_zero _ (by norm_num))

/-! ### 3. the single-cell closed form -/

/-- `j_min = j_max`: the only cell is `(-1)^(j2-j3+m2+m3) / √(2 j_max + 1)`, all others are `0`, and
    the run does not raise. -/
theorem single_cell (size : Nat) (ws : Array ℝ) (j2 j3 m2 m3 : Int) (ha : Adm j2 j3 m2 m3)
    (heq : j2 + j3 = jminOf j2 j3 m2 m3) (hs : j2 + j3 + 1 ≤ size) (hws : size ≤ ws.size) :
    (calculate size ws j2 j3 m2 m3).raised = false ∧
    geti (calculate size ws j2 j3 m2 m3).f (j2 + j3) =
      (-1 : ℝ) ^ (j2 - j3 + m2 + m3) / Real.sqrt (2 * ((j2 + j3 : ℤ) : ℝ) + 1) ∧
    ∀ j : Int, 0 ≤ j → j ≠ j2 + j3 → geti (calculate size ws j2 j3 m2 m3).f j = 0 :=
  Lemmas.W3jNorm.single_cell size ws j2 j3 m2 m3 ha heq hs hws

/-- `j3 = 0`: `(j j 0; -m m 0) = (-1)^(j+m) / √(2j+1)` for every `|m| ≤ j ≤ 1989` -/
theorem single_cell_j3_zero (size : Nat) (ws : Array ℝ) (j m : Int) (hm : (m.natAbs : Int) ≤ j)
    (hj : j ≤ 1989) (hs : j + 1 ≤ size) (hws : size ≤ ws.size) :
    geti (calculate size ws j 0 m 0).f j = (-1 : ℝ) ^ (j + m) / Real.sqrt (2 * (j : ℝ) + 1) := by
  have ha : Adm j 0 m 0 := ⟨hm, by simp, by omega⟩
  have heq : j + 0 = jminOf j 0 m 0 := by unfold jminOf Lemmas.W3jBounds.jminOf; omega
  have h := (single_cell size ws j 0 m 0 ha heq (by omega) hws).2.1
  simpa using h

/-- `j2 = 0`: `(j 0 j; -m 0 m) = (-1)^(-j+m) / √(2j+1)` -/
theorem single_cell_j2_zero (size : Nat) (ws : Array ℝ) (j m : Int) (hm : (m.natAbs : Int) ≤ j)
    (hj : j ≤ 1989) (hs : j + 1 ≤ size) (hws : size ≤ ws.size) :
    geti (calculate size ws 0 j 0 m).f j = (-1 : ℝ) ^ (-j + m) / Real.sqrt (2 * (j : ℝ) + 1) := by
  have ha : Adm 0 j 0 m := ⟨by simp, hm, by omega⟩
  have heq : 0 + j = jminOf 0 j 0 m := by unfold jminOf Lemmas.W3jBounds.jminOf; omega
  have h := (single_cell size ws 0 j 0 m ha heq (by omega) hws).2.1
  simpa using h

/-- Through the front end `Wigner3j`: whenever the permuted call has a single cell, the value is the
    closed form (`p` is the cyclic permutation putting the largest `j` first). -/
theorem wigner3j_single_cell (j1 j2 j3 m1 m2 m3 : Int) (hs : m1 + m2 + m3 = 0)
    (h1 : (m1.natAbs : Int) ≤ j1) (h2 : (m2.natAbs : Int) ≤ j2) (h3 : (m3.natAbs : Int) ≤ j3)
    (ht : 2 * max (max j1 j2) j3 ≤ j1 + j2 + j3) (hb : j1 + j2 + j3 ≤ 3978) :
    let p := perm j1 j2 j3 m1 m2 m3
    p.a2 + p.a3 = jminOf p.a2 p.a3 p.b2 p.b3 →
    wigner3j (α := ℝ) j1 j2 j3 m1 m2 m3 =
      some ((-1 : ℝ) ^ (p.a2 - p.a3 + p.b2 + p.b3) / Real.sqrt (2 * (p.a1 : ℝ) + 1)) :=
  Lemmas.W3jNorm.wigner3j_single_cell j1 j2 j3 m1 m2 m3 hs h1 h2 h3 ht hb

/-- The documented closed form `(j j 0; m -m 0) = (-1)^(j-m) / √(2j+1)`, for every `|m| ≤ j ≤ 1989`,
    through the front end. -/
theorem wigner3j_jj0 (j m : Int) (hm : (m.natAbs : Int) ≤ j) (hj : j ≤ 1989) :
    wigner3j (α := ℝ) j j 0 m (-m) 0 = some ((-1 : ℝ) ^ (j - m) / Real.sqrt (2 * (j : ℝ) + 1)) :=
  Lemmas.W3jNorm.wigner3j_jj0 j m hm hj

end W3jNorm
