import SphericalVerif.Model.Object
import SphericalVerif.Props.HKernel
/-! Helper lemmas for the object-level properties C08 / C09 / C15 / C17 (core Lean only).

    The pattern: every output entry of the `Wigner` methods depends on the workspace only through a few values
    `Hat st ℓ m' m` (congruence lemmas below); after `runH` these are wedge cells, which `HKernel.runH_pure` /
    `HKernel.runH_size_indep` show to be independent of the previous content and of the configuration. -/
namespace Lemmas.Object
open Model Spec Scalar

/-! ### the wedge representative -/

/-- the first order of the representative is no larger than either order of the original pair -/
theorem wedgeRep_fst_le (mp m : Int) :
    (wedgeRep mp m).1.natAbs ≤ mp.natAbs ∧ (wedgeRep mp m).1.natAbs ≤ m.natAbs := by
  unfold wedgeRep
  split <;> split <;> (simp only []; omega)

theorem wedgeRep_snd_nonneg (mp m : Int) : 0 ≤ (wedgeRep mp m).2 := by
  unfold wedgeRep
  split <;> split <;> (simp only []; omega)

theorem wedgeRep_fst_le_snd (mp m : Int) : (wedgeRep mp m).1.natAbs ≤ (wedgeRep mp m).2.toNat := by
  unfold wedgeRep
  split <;> split <;> (simp only []; omega)

theorem wedgeRep_snd_le (mp m : Int) (ell : Nat) (h1 : mp.natAbs ≤ ell) (h2 : m.natAbs ≤ ell) :
    (wedgeRep mp m).2.toNat ≤ ell := by
  unfold wedgeRep
  split <;> split <;> (simp only []; omega)

/-! ### loops -/

theorem loopN_congr {σ : Type} (n : Nat) (f g : Nat → σ → σ) (s : σ)
    (h : ∀ k, k < n → ∀ s, f k s = g k s) : loopN n f s = loopN n g s := by
  induction n with
  | zero => rfl
  | succ n ih =>
    simp only [loopN]
    rw [ih (fun k hk => h k (Nat.lt_succ_of_lt hk)), h n (Nat.lt_succ_self n)]

/-- a loop that threads a state and appends one output per element -/
def threadOut {σ β γ : Type} (step : σ → β → σ) (out : σ → β → γ) : σ → List β → List γ
  | _, [] => []
  | st, x :: xs => out st x :: threadOut step out (step st x) xs

theorem foldl_thread {σ β γ : Type} (step : σ → β → σ) (out : σ → β → γ) (xs : List β) (st : σ) (acc : List γ) :
    (xs.foldl (fun (a : σ × List γ) x => (step a.1 x, a.2 ++ [out a.1 x])) (st, acc)).2
      = acc ++ threadOut step out st xs := by
  induction xs generalizing st acc with
  | nil => simp [threadOut]
  | cons x xs ih => simp only [List.foldl_cons, threadOut]; rw [ih]; simp

/-- if the output does not depend on the threaded state, the loop is a `map` -/
theorem threadOut_eq_map {σ β γ : Type} (step : σ → β → σ) (out : σ → β → γ) (st st' : σ) (xs : List β)
    (h : ∀ x, x ∈ xs → ∀ a b : σ, out a x = out b x) : threadOut step out st xs = xs.map (out st') := by
  induction xs generalizing st with
  | nil => rfl
  | cons x xs ih =>
    simp only [threadOut, List.map_cons]
    rw [h x (List.mem_cons_self ..) st st', ih _ (fun y hy => h y (List.mem_cons_of_mem _ hy))]

section
variable {α : Type} [Scalar α] {μ₁ : Type} [Mem μ₁ α] {μ₂ : Type} [Mem μ₂ α]

/-! ### the shared Horner core of `_evaluate_Horner` and `_rotate_Horner` -/

/-- one Horner step, over an abstract row `H` of the H matrix -/
def hornerStep (F : Int → Cx α) (H : Int → α) (za : Cx α) (ell : Nat) (k : Nat) (p : Cx α × Cx α × Int) :
    Cx α × Cx α × Int :=
  let m : Int := (ell : Int) - 1 - k
  let (neg, pos, e) := p
  let e := e * (-1)
  let neg := Cx.add (Cx.mul neg (Cx.conj za)) (Cx.mulr (F (-m)) (H (-m)))
  let pos := Cx.add (Cx.mul pos za) (Cx.mulr (Cx.mul (Cx.ofRe (ofInt e)) (F m)) (H m))
  (neg, pos, e)

def hornerCore (F : Int → Cx α) (H : Int → α) (za : Cx α) (ell : Nat) : Cx α :=
  let zab := Cx.conj za
  let f0 : Cx α := Cx.mulr (F 0) (H 0)
  if ell = 0 then f0 else
  let e0 : Int := (-1) ^ ell
  let neg0 : Cx α := Cx.mulr (F (-(ell : Int))) (H (-(ell : Int)))
  let pos0 : Cx α := Cx.mulr (Cx.mul (Cx.ofRe (ofInt e0)) (F ell)) (H ell)
  let (neg, pos, _) := loopN (ell - 1) (hornerStep F H za ell) (neg0, pos0, e0)
  Cx.add (Cx.add f0 (Cx.mul neg zab)) (Cx.mul pos za)

theorem evalEll_eq_core (st : μ₁) (f : Array (Cx α)) (za : Cx α) (s : Int) (ell : Nat) :
    evalEll (α := α) st f za s ell
      = hornerCore (fAt f ell) (fun m' => Hat (α := α) st ell m' (-s)) za ell := rfl

theorem rotateHornerEntry_eq_core (st : μ₁) (f : Array (Cx α)) (za : Cx α) (zgpow : Int → Cx α) (ell : Nat)
    (m : Int) :
    rotateHornerEntry (α := α) st f za zgpow ell m
      = Cx.mul (hornerCore (fAt f ell) (fun n => Hat (α := α) st ell n m) za ell)
          (Cx.mul (Cx.ofRe (ofInt (eps (-m)))) (zgpow m)) := rfl

/-- the core reads `H` only at orders `|m'| ≤ ℓ` -/
theorem hornerCore_congr (F : Int → Cx α) (H₁ H₂ : Int → α) (za : Cx α) (ell : Nat)
    (h : ∀ m' : Int, m'.natAbs ≤ ell → H₁ m' = H₂ m') : hornerCore F H₁ za ell = hornerCore F H₂ za ell := by
  unfold hornerCore
  simp only []
  rw [h 0 (by omega), h (-(ell : Int)) (by omega), h ell (by omega),
    loopN_congr (ell - 1) (hornerStep F H₁ za ell) (hornerStep F H₂ za ell) _ (fun k hk p => by
      unfold hornerStep
      simp only []
      rw [h (-((ell : Int) - 1 - k)) (by omega), h ((ell : Int) - 1 - k) (by omega)])]

/-! ### every entry depends on the workspace only through `Hat` -/

theorem dEntry_congr (st₁ : μ₁) (st₂ : μ₂) (ell : Nat) (mp m : Int)
    (h : Hat (α := α) st₁ ell mp m = Hat (α := α) st₂ ell mp m) :
    dEntry (α := α) st₁ ell mp m = dEntry (α := α) st₂ ell mp m := by
  unfold dEntry; rw [h]

/-- … and on the power arrays only through the entries `|m'|` and `|m|` -/
theorem DEntry_congr (st₁ : μ₁) (st₂ : μ₂) (za₁ zg₁ za₂ zg₂ : Array (Cx α)) (ell : Nat) (mp m : Int)
    (h : Hat (α := α) st₁ ell mp m = Hat (α := α) st₂ ell mp m)
    (ha : cget za₁ mp.natAbs = cget za₂ mp.natAbs) (hg : cget zg₁ m.natAbs = cget zg₂ m.natAbs) :
    DEntry (α := α) st₁ za₁ zg₁ ell mp m = DEntry (α := α) st₂ za₂ zg₂ ell mp m := by
  have e1 : (-m).toNat = m.natAbs ∨ 0 ≤ m := by omega
  have e2 : m.toNat = m.natAbs ∨ m < 0 := by omega
  have e3 : (-mp).toNat = mp.natAbs ∨ 0 ≤ mp := by omega
  have e4 : mp.toNat = mp.natAbs ∨ mp < 0 := by omega
  unfold DEntry
  simp only []
  rw [h]
  by_cases hm : m < 0 <;> by_cases hmp : mp < 0
  · rw [if_pos hm, if_pos hmp, if_pos hm, if_pos hmp, e1.resolve_right (by omega), e3.resolve_right (by omega), ha, hg]
  · rw [if_pos hm, if_neg hmp, if_pos hm, if_neg hmp, e1.resolve_right (by omega), e4.resolve_right (by omega), ha, hg]
  · rw [if_neg hm, if_pos hmp, if_neg hm, if_pos hmp, e2.resolve_right (by omega), e3.resolve_right (by omega), ha, hg]
  · rw [if_neg hm, if_neg hmp, if_neg hm, if_neg hmp, e2.resolve_right (by omega), e4.resolve_right (by omega), ha, hg]

theorem sYlmEntry_congr (st₁ : μ₁) (st₂ : μ₂) (za₁ za₂ : Array (Cx α)) (zgpow : Cx α) (s : Int) (ell : Nat)
    (m : Int) (h : s.natAbs ≤ ell → Hat (α := α) st₁ ell m (-s) = Hat (α := α) st₂ ell m (-s))
    (ha : cget za₁ m.natAbs = cget za₂ m.natAbs) :
    sYlmEntry (α := α) st₁ za₁ zgpow s ell m = sYlmEntry (α := α) st₂ za₂ zgpow s ell m := by
  have e1 : (-m).toNat = m.natAbs ∨ 0 ≤ m := by omega
  have e2 : m.toNat = m.natAbs ∨ m < 0 := by omega
  unfold sYlmEntry
  by_cases hs : (ell : Int) < (s.natAbs : Int)
  · rw [if_pos hs, if_pos hs]
  · rw [if_neg hs, if_neg hs]
    simp only []
    rw [h (by omega)]
    by_cases hm : m < 0
    · rw [if_pos hm, if_pos hm, e1.resolve_right (by omega), ha]
    · rw [if_neg hm, if_neg hm, e2.resolve_right (by omega), ha]

theorem evalEll_congr (st₁ : μ₁) (st₂ : μ₂) (f : Array (Cx α)) (za : Cx α) (s : Int) (ell : Nat)
    (h : ∀ m' : Int, m'.natAbs ≤ ell → Hat (α := α) st₁ ell m' (-s) = Hat (α := α) st₂ ell m' (-s)) :
    evalEll (α := α) st₁ f za s ell = evalEll (α := α) st₂ f za s ell := by
  rw [evalEll_eq_core, evalEll_eq_core]
  exact hornerCore_congr _ _ _ za ell h

theorem evaluateHorner_congr (st₁ : μ₁) (st₂ : μ₂) (f : Array (Cx α)) (za zgpow : Cx α) (s : Int) (ellMax : Nat)
    (init : Cx α)
    (h : ∀ (ell : Nat) (m' : Int), s.natAbs ≤ ell → ell ≤ ellMax → m'.natAbs ≤ ell →
      Hat (α := α) st₁ ell m' (-s) = Hat (α := α) st₂ ell m' (-s)) :
    evaluateHorner (α := α) st₁ f za zgpow s ellMax init = evaluateHorner (α := α) st₂ f za zgpow s ellMax init := by
  unfold evaluateHorner
  simp only []
  rw [loopN_congr (ellMax + 1 - s.natAbs)
    (fun k (acc : Cx α) => Cx.add acc (Cx.mulr (evalEll (α := α) st₁ f za s (s.natAbs + k))
      (sqrt (ofInt (2 * ((s.natAbs + k : Nat) : Int) + 1) *. inv4pi))))
    (fun k (acc : Cx α) => Cx.add acc (Cx.mulr (evalEll (α := α) st₂ f za s (s.natAbs + k))
      (sqrt (ofInt (2 * ((s.natAbs + k : Nat) : Int) + 1) *. inv4pi)))) init
    (fun k hk acc => by
      rw [evalEll_congr st₁ st₂ f za s (s.natAbs + k) (fun m' hm' => h _ m' (by omega) (by omega) hm')])]

theorem evaluateHornerK_congr (st₁ : μ₁) (st₂ : μ₂) (f : Array (Cx α)) (za zgpow : Cx α) (s : Int) (ellMax : Nat)
    (prev₁ prev₂ : Cx α)
    (h : ∀ (ell : Nat) (m' : Int), s.natAbs ≤ ell → ell ≤ ellMax → m'.natAbs ≤ ell →
      Hat (α := α) st₁ ell m' (-s) = Hat (α := α) st₂ ell m' (-s)) :
    evaluateHornerK (α := α) st₁ f za zgpow s ellMax prev₁ = evaluateHornerK (α := α) st₂ f za zgpow s ellMax prev₂ := by
  unfold evaluateHornerK
  exact evaluateHorner_congr st₁ st₂ f za zgpow s ellMax _ h

theorem rotateHornerEntry_congr (st₁ : μ₁) (st₂ : μ₂) (f : Array (Cx α)) (za : Cx α) (zgpow : Int → Cx α)
    (ell : Nat) (m : Int)
    (h : ∀ n : Int, n.natAbs ≤ ell → Hat (α := α) st₁ ell n m = Hat (α := α) st₂ ell n m) :
    rotateHornerEntry (α := α) st₁ f za zgpow ell m = rotateHornerEntry (α := α) st₂ f za zgpow ell m := by
  rw [rotateHornerEntry_eq_core, rotateHornerEntry_eq_core, hornerCore_congr _ _ _ za ell h]

/-! ### `Hat` after `runH` -/

/-- after `runH`, `Hat` reads a wedge cell, whose value depends neither on the configuration (as long as the
    cell exists in it) nor on the representation or previous content of the workspace -/
theorem Hat_runH_agree [LawfulMem μ₁ α] [LawfulMem μ₂ α]
    (L₁ P₁ L₂ P₂ : Nat) (h₁ : P₁ ≤ L₁) (h₂ : P₂ ≤ L₂) (c s : α) (st₁ : μ₁) (st₂ : μ₂) (ell : Nat) (mp m : Int)
    (hl₁ : ell ≤ L₁) (hl₂ : ell ≤ L₂) (hmp : mp.natAbs ≤ ell) (hm : m.natAbs ≤ ell)
    (hP₁ : mp.natAbs ≤ P₁ ∨ m.natAbs ≤ P₁) (hP₂ : mp.natAbs ≤ P₂ ∨ m.natAbs ≤ P₂) :
    Hat (α := α) (runH L₁ P₁ c s st₁) ell mp m = Hat (α := α) (runH L₂ P₂ c s st₂) ell mp m := by
  have a := wedgeRep_fst_le mp m
  have b := wedgeRep_fst_le_snd mp m
  have d := wedgeRep_snd_le mp m ell hmp hm
  unfold Hat
  simp only []
  exact HKernel.runH_size_indep L₁ P₁ L₂ P₂ h₁ h₂ c s st₁ st₂ ell _ _ hl₁ (by omega) hl₂ (by omega) b d

end

/-! ### `_complex_powers`: entry k does not depend on the length of the array -/
section cpow
variable {α : Type} [Scalar α]

theorem cget_set!_self (a : Array (Cx α)) (i : Nat) (v : Cx α) (h : i < a.size) :
    cget (a.set! i v) i = v := by
  simp [cget, h]

theorem cget_set!_ne (a : Array (Cx α)) (i j : Nat) (v : Cx α) (h : i ≠ j) :
    cget (a.set! i v) j = cget a j := by
  simp [cget, Array.getD_eq_getD_getElem?, h]

theorem cget_replicate (n i : Nat) (v : Cx α) (h : i < n) :
    cget (Array.replicate n v) i = v := by
  simp [cget, h]

/-- the body of the main loop of `cpowers` -/
def cpBody (θ : Cx α) (t : α) (k : Nat) (p : Array (Cx α) × Cx α × Cx α) :
    Array (Cx α) × Cx α × Cx α :=
  let zm := Cx.add (cget p.1 (k+1)) p.2.1
  let out := p.1.set! (k+2) zm
  (out.set! (k+1) (Cx.mul (cget out (k+1)) p.2.2), Cx.add p.2.1 (Cx.rmul t zm), Cx.mul p.2.2 θ)

def cpDc (s : α) : α := ofInt (-2) *. (s *. s)

def cpDz0 (zr : Cx α) (dc : α) : Cx α :=
  Cx.add (Cx.rmul dc (Cx.add Cx.oneC (Cx.mul (Cx.ofRe (ofInt 2)) zr)))
         (Cx.mulr Cx.I (sqrt ((neg dc) *. (ofInt 2 +. dc))))

theorem cpowers_eq (z : Cx α) (M : Nat) (imsqrt : Cx α → α) :
    cpowers z M imsqrt =
      if M = 0 then Array.replicate (M+1) Cx.oneC else
      let q := quadrant 4 (Cx.oneC : Cx α) z
      let dc := cpDc (imsqrt q.2)
      let r := loopN (M-1) (cpBody q.1 (ofInt 2 *. dc))
        ((Array.replicate (M+1) Cx.oneC).set! 1 q.2, cpDz0 q.2 dc, q.1)
      r.1.set! M (Cx.mul (cget r.1 M) r.2.2) := rfl

/-- the recurrence of `_complex_powers` as a sequence that does not mention the array: element `j` is
    (unrotated power `j+1`, increment, clock) -/
def cpSeq (θ zr dz0 : Cx α) (t : α) : Nat → Cx α × Cx α × Cx α
  | 0 => (zr, dz0, θ)
  | j+1 =>
    let p := cpSeq θ zr dz0 t j
    let zm := Cx.add p.1 p.2.1
    (zm, Cx.add p.2.1 (Cx.rmul t zm), Cx.mul p.2.2 θ)

/-- entry `j+1` of `_complex_powers(z, M)`, as an expression in `z` only -/
def cpEntry (z : Cx α) (imsqrt : Cx α → α) (j : Nat) : Cx α :=
  let q := quadrant 4 (Cx.oneC : Cx α) z
  let dc := cpDc (imsqrt q.2)
  let p := cpSeq q.1 q.2 (cpDz0 q.2 dc) (ofInt 2 *. dc) j
  Cx.mul p.1 p.2.2

theorem cpowers_entry_zero (z : Cx α) (M : Nat) (imsqrt : Cx α → α) :
    cget (cpowers z M imsqrt) 0 = Cx.oneC := by
  rw [cpowers_eq]
  by_cases hM : M = 0
  · subst hM; simp [cget]
  · simp only [hM, if_false]
    generalize (quadrant 4 Cx.oneC z).1 = θ
    generalize (quadrant 4 Cx.oneC z).2 = zr
    generalize ofInt 2 *. cpDc (imsqrt zr) = t
    generalize cpDz0 zr (cpDc (imsqrt zr)) = dz0
    have hinv := loopN_inv
      (fun (_ : Nat) (p : Array (Cx α) × Cx α × Cx α) => cget p.1 0 = Cx.oneC)
      (M-1) (cpBody θ t) ((Array.replicate (M+1) Cx.oneC).set! 1 zr, dz0, θ)
      (by rw [cget_set!_ne _ _ _ _ (by omega), cget_replicate _ _ _ (by omega)])
      (fun k s _ hp => by
        show cget (Array.set! _ _ _) _ = _
        rw [cget_set!_ne _ _ _ _ (by omega), cget_set!_ne _ _ _ _ (by omega)]; exact hp)
    rw [cget_set!_ne _ _ _ _ (by omega)]
    exact hinv

theorem cpowers_entry_succ (z : Cx α) (M : Nat) (imsqrt : Cx α → α) (j : Nat) (hj : j < M) :
    cget (cpowers z M imsqrt) (j + 1) = cpEntry z imsqrt j := by
  have hM : M ≠ 0 := by omega
  rw [cpowers_eq]
  unfold cpEntry
  simp only [hM, if_false]
  generalize (quadrant 4 Cx.oneC z).1 = θ
  generalize (quadrant 4 Cx.oneC z).2 = zr
  generalize ofInt 2 *. cpDc (imsqrt zr) = t
  generalize cpDz0 zr (cpDc (imsqrt zr)) = dz0
  have hinv := loopN_inv
    (fun (k : Nat) (p : Array (Cx α) × Cx α × Cx α) =>
      p.1.size = M + 1
      ∧ (∀ i, i < k → cget p.1 (i + 1) = Cx.mul (cpSeq θ zr dz0 t i).1 (cpSeq θ zr dz0 t i).2.2)
      ∧ cget p.1 (k + 1) = (cpSeq θ zr dz0 t k).1
      ∧ p.2.1 = (cpSeq θ zr dz0 t k).2.1 ∧ p.2.2 = (cpSeq θ zr dz0 t k).2.2)
    (M-1) (cpBody θ t) ((Array.replicate (M+1) Cx.oneC).set! 1 zr, dz0, θ)
    ⟨by simp, fun i hi => absurd hi (Nat.not_lt_zero i),
     by rw [cget_set!_self _ _ _ (by simp; omega)]; rfl, rfl, rfl⟩
    (fun k p hk hp => by
      obtain ⟨h1, h2, h3, h4, h5⟩ := hp
      refine ⟨by simp [cpBody, h1], ?_, ?_, ?_, ?_⟩
      · intro i hi
        show cget (Array.set! _ _ _) _ = _
        by_cases hik : i = k
        · subst hik
          rw [cget_set!_self _ _ _ (by simp [h1]; omega), cget_set!_ne _ _ _ _ (by omega), h3, h5]
        · rw [cget_set!_ne _ _ _ _ (by omega), cget_set!_ne _ _ _ _ (by omega)]
          exact h2 i (by omega)
      · show cget (Array.set! _ _ _) _ = _
        rw [cget_set!_ne _ _ _ _ (by omega), cget_set!_self _ _ _ (by rw [h1]; omega), h3, h4]
        rfl
      · show Cx.add _ _ = _
        rw [h3, h4]; rfl
      · show Cx.mul _ _ = _
        rw [h5]; rfl)
  generalize loopN (M-1) _ _ = r at *
  obtain ⟨h1, h2, h3, h4, h5⟩ := hinv
  by_cases hjM : j + 1 = M
  · subst hjM
    rw [cget_set!_self _ _ _ (by rw [h1]; omega)]
    have e : j + 1 - 1 = j := by omega
    rw [e] at h3 h5
    rw [h3, h5]
  · rw [cget_set!_ne _ _ _ _ (by omega)]
    exact h2 j (by omega)

/-- entry `k ≤ M` of `_complex_powers(z, M)` is the same expression for every `M` (every arithmetic) -/
theorem cpowers_entry_indep (z : Cx α) (M₁ M₂ : Nat) (imsqrt : Cx α → α) (k : Nat) (h₁ : k ≤ M₁) (h₂ : k ≤ M₂) :
    cget (cpowers z M₁ imsqrt) k = cget (cpowers z M₂ imsqrt) k := by
  cases k with
  | zero => rw [cpowers_entry_zero, cpowers_entry_zero]
  | succ j => rw [cpowers_entry_succ z M₁ imsqrt j (by omega), cpowers_entry_succ z M₂ imsqrt j (by omega)]

end cpow

end Lemmas.Object
