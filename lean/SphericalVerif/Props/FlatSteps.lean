import SphericalVerif.Model.FlatSteps
import SphericalVerif.Lemmas.FlatSteps
import SphericalVerif.Props.C11
/-! FlatSteps — every flat index expression of `_step_2 … _step_5` (spherical/recursions/wignerH.py) denotes
    exactly the coordinate the coordinate-level model (`Model/HKernels.lean`) uses, for all sizes.

    The kernels never name a cell by coordinates inside their inner loops: they compute a few base values
    (`WignerHindex(n, mp+1, mp+1, mp_max) - 1`, `nm_index(n, mp-1)`, …) and add the loop variable `i`.
    `Model/FlatSteps.lean` transcribes each such expression.  The theorems below say, over the loop ranges
    of the code and for every `n`, `mp_max = P`:

    * `HwCell P idx n c r` — `idx = WignerHindex n c r (some P)` **and** `(n, c, r)` is a coordinate of the
      stored wedge (`|c| ≤ min n P`, `|c| ≤ r ≤ n`, so no symmetry folding happens and, by `C11.hindex_get`
      (`HwCell.get`), `idx` is in `[0, WignerHsize P L)` and is the documented position of `(n, c, r)`);
      `.hw n c r` is the cell `Model.step2 … step5` read/write at that point;
    * `NmSlot idx n k` — `idx = nm_index n k` with `|k| ≤ n`: the table entry `(n, k)` that the model's
      `gC/hC/bC/dC n k` call computes (`NmSlot.table`: inside the `(ell_max+2)^2`-entry table for
      `n ≤ ell_max+1`), resp. the `Hv` cell `.hv n k` (`NmSlot.hv`: inside `Hv`, `(ell_max+1)^2` cells);
    * `NabsmSlot idx n k` — `idx = nabsm_index n k`, `0 ≤ k ≤ n`: the entry of table `a` that `aC n k` computes;
    * `XCell idx n k` — `idx = k`, `0 ≤ k ≤ n`: the `Hextra` cell `.hx k` of the extra row `n = n_max+1`.

    In particular no index expression is negative anywhere on the loop ranges, so Python/numba negative-index
    wrap-around never occurs.  Helper lemmas live in `Lemmas/FlatSteps`; the definitions `HwCell`, … are there too.
    Statements are relative to the *generated* `Gen.WignerHindex`, `Gen.nm_index`, `Gen.nabsm_index`. -/
namespace FlatSteps
open Gen Spec Model.FlatSteps

local macro "wedge" : tactic => `(tactic| (unfold InWedge; omega))

/-! ## `_step_2`

    Model (`Model.step2`): row cell `T m = rowLoc L n m` is `.hw n 0 m` for `n ≤ L` and `.hx m` for `n = L+1`.
    Loop `i = 2 … n-1` writes `T (n-i)` from `T (n-i+1)`, `T (n-i+2)` with `gC n (n-i)`, `hC n (n-i)`; the
    `m = 0` statement is the same with `i = n`; the normalisation loop touches `T i`, `i = 1 … n-1`. -/

/-- `Hwedge[n0n_index] = sqrt3` (n = 1) is `.hw 1 0 1` -/
theorem s2_pre_H1_eq (P : Int) (hP : 0 ≤ P) : HwCell P (s2_pre_H1 P) 1 0 1 :=
  ⟨rfl, by wedge⟩

/-- `Hwedge[n0n_index-1]` (n = 1) is `.hw 1 0 0` -/
theorem s2_pre_H0_eq (P : Int) (hP : 0 ≤ P) : HwCell P (s2_pre_H0 P) 1 0 0 :=
  hwCell_of_row P 1 0 1 0 _ (by omega) hP (by wedge) (by wedge) (by unfold s2_pre_H0; omega)

/-- `g[nn_index-1]` (n = 1) is `g` at `(1, 0)` -/
theorem s2_pre_g_eq : NmSlot s2_pre_g 1 0 := by decide

/-- `H[n0n_index-i]`, `H = Hwedge`, is `.hw n 0 (n-i)`; `i = 0 … n`
    (`i = 0`: `H[n0n_index]`, `i = 1`: `H[n0n_index-1]`, `i = n`: `H[n0n_index-n]`) -/
theorem s2_H_eq (n i P : Int) (hP : 0 ≤ P) (hn : 1 ≤ n) (hi0 : 0 ≤ i) (hi1 : i ≤ n) :
    HwCell P (s2_H n i P) n 0 (n - i) :=
  hwCell_of_row P n 0 n (n - i) _ (by omega) hP (by wedge) (by wedge) (by unfold s2_H; omega)

/-- `H[n0n_index-i+1]` is `.hw n 0 (n-i+1)`; `i = 2 … n` (any `1 ≤ i ≤ n`) -/
theorem s2_H1_eq (n i P : Int) (hP : 0 ≤ P) (hn : 1 ≤ n) (hi0 : 1 ≤ i) (hi1 : i ≤ n) :
    HwCell P (s2_H1 n i P) n 0 (n - i + 1) :=
  hwCell_of_row P n 0 n (n - i + 1) _ (by omega) hP (by wedge) (by wedge) (by unfold s2_H1; omega)

/-- `H[n0n_index-i+2]` is `.hw n 0 (n-i+2)`; `i = 2 … n` -/
theorem s2_H2_eq (n i P : Int) (hP : 0 ≤ P) (hn : 1 ≤ n) (hi0 : 2 ≤ i) (hi1 : i ≤ n) :
    HwCell P (s2_H2 n i P) n 0 (n - i + 2) :=
  hwCell_of_row P n 0 n (n - i + 2) _ (by omega) hP (by wedge) (by wedge) (by unfold s2_H2; omega)

/-- `H[n0n_index-n+i] *= prefactor` is `.hw n 0 i`; `i = 1 … n-1` -/
theorem s2_Hnorm_eq (n i P : Int) (hP : 0 ≤ P) (hi0 : 1 ≤ i) (hi1 : i < n) :
    HwCell P (s2_Hnorm n i P) n 0 i :=
  hwCell_of_row P n 0 n i _ (by omega) hP (by wedge) (by wedge) (by unfold s2_Hnorm; omega)

/-- extra row (`n = n_max+1`, `n0n_index = n`, `H = Hextra`): `H[n0n_index-i]` is `.hx (n-i)`; `i = 0 … n` -/
theorem s2_X_eq (n i : Int) (hi0 : 0 ≤ i) (hi1 : i ≤ n) : XCell (s2_X n i) n (n - i) :=
  ⟨rfl, by omega, by omega⟩

theorem s2_X1_eq (n i : Int) (hi0 : 1 ≤ i) (hi1 : i ≤ n) : XCell (s2_X1 n i) n (n - i + 1) :=
  ⟨rfl, by omega, by omega⟩

theorem s2_X2_eq (n i : Int) (hi0 : 2 ≤ i) (hi1 : i ≤ n) : XCell (s2_X2 n i) n (n - i + 2) :=
  ⟨rfl, by omega, by omega⟩

theorem s2_Xnorm_eq (n i : Int) (hi0 : 1 ≤ i) (hi1 : i < n) : XCell (s2_Xnorm n i) n i :=
  ⟨by unfold s2_Xnorm; omega, by omega, by omega⟩

/-- `Hwedge[nm10nm1_index]` is `.hw (n-1) 0 (n-1)`; `n = 2 … n_max+1` -/
theorem s2_prev_eq (n P : Int) (hP : 0 ≤ P) (hn : 2 ≤ n) : HwCell P (s2_prev n P) (n - 1) 0 (n - 1) :=
  ⟨rfl, by wedge⟩

/-- `g[nn_index-i]`, `h[nn_index-i]` are `g`, `h` at `(n, n-i)`; `i = 1 … n`
    (model: `gC n (n-1)`, `gC n (n-i)` / `hC n (n-i)`, `gC n 0` / `hC n 0`) -/
theorem s2_g_eq (n i : Int) (hi0 : 1 ≤ i) (hi1 : i ≤ n) : NmSlot (s2_g n i) n (n - i) :=
  ⟨by unfold s2_g; rw [sub_eq_add_neg, nm_index_shift, ← sub_eq_add_neg], by omega, by omega⟩

/-- `Hv[nm_index(n, 1)]` is `.hv n 1` -/
theorem s2_hv1_eq (n : Int) (hn : 1 ≤ n) : NmSlot (s2_hv1 n) n 1 := ⟨rfl, by omega, by omega⟩
/-- `Hv[nm_index(n, 0)]` is `.hv n 0` -/
theorem s2_hv0_eq (n : Int) (hn : 0 ≤ n) : NmSlot (s2_hv0 n) n 0 := ⟨rfl, by omega, by omega⟩
/-- `Hwedge[WignerHindex(n, 0, 1, mp_max)]` is `.hw n 0 1` -/
theorem s2_hvsrc_eq (n P : Int) (hP : 0 ≤ P) (hn : 1 ≤ n) : HwCell P (s2_hvsrc n P) n 0 1 :=
  ⟨rfl, by wedge⟩
/-- `Hwedge[WignerHindex(n, 0, n, mp_max)] *= …` is `.hw n 0 n` -/
theorem s2_diag_eq (n P : Int) (hP : 0 ≤ P) (hn : 0 ≤ n) : HwCell P (s2_diag n P) n 0 n :=
  ⟨rfl, by wedge⟩
/-- `Hextra[n] *= …` is `.hx n` (`n = n_max+1`) -/
theorem s2_xdiag_eq (n : Int) (hn : 0 ≤ n) : XCell (s2_xdiag n) n n := ⟨rfl, hn, le_refl n⟩

/-! ## `_step_3`:  `n = 1 … n_max`, `i = 0 … n-1`, `mp_max ≥ 1`

    Model (`Model.step3`): writes `.hw n 1 (i+1)` from `src (i+2)`, `src i`, `src (i+1)` with
    `src m = rowLoc L (n+1) m`, and `bC (n+1) 0`, `bC (n+1) (-i-2)`, `bC (n+1) i`, `aC n (i+1)`. -/

/-- `Hwedge[i+i1] = …` is `.hw n 1 (i+1)` -/
theorem s3_write_eq (n i P : Int) (hP : 1 ≤ P) (hn : 1 ≤ n) (hi0 : 0 ≤ i) (hi1 : i < n) :
    HwCell P (s3_write n i P) n 1 (i + 1) :=
  hwCell_of_row P n 1 1 (i + 1) _ (by omega) (by omega) (by wedge) (by wedge)
    (by unfold s3_write s3_i1; omega)

/-- `H2[i+i2+2]`, `H2 = Hwedge`, is `.hw (n+1) 0 (i+2)` -/
theorem s3_src2_eq (n i P : Int) (hP : 0 ≤ P) (hn : 1 ≤ n) (hi0 : 0 ≤ i) (hi1 : i < n) :
    HwCell P (s3_src2 n i P) (n + 1) 0 (i + 2) :=
  hwCell_of_row P (n + 1) 0 0 (i + 2) _ (by omega) hP (by wedge) (by wedge)
    (by unfold s3_src2 s3_i2; omega)

/-- `H2[i+i2]` is `.hw (n+1) 0 i` -/
theorem s3_src0_eq (n i P : Int) (hP : 0 ≤ P) (hn : 1 ≤ n) (hi0 : 0 ≤ i) (hi1 : i < n) :
    HwCell P (s3_src0 n i P) (n + 1) 0 i :=
  hwCell_of_row P (n + 1) 0 0 i _ (by omega) hP (by wedge) (by wedge)
    (by unfold s3_src0 s3_i2; omega)

/-- `H2[i+i2+1]` is `.hw (n+1) 0 (i+1)` -/
theorem s3_src1_eq (n i P : Int) (hP : 0 ≤ P) (hn : 1 ≤ n) (hi0 : 0 ≤ i) (hi1 : i < n) :
    HwCell P (s3_src1 n i P) (n + 1) 0 (i + 1) :=
  hwCell_of_row P (n + 1) 0 0 (i + 1) _ (by omega) hP (by wedge) (by wedge)
    (by unfold s3_src1 s3_i2; omega)

/-- `H2[i+i2+2]`, `i2 = 0`, `H2 = Hextra` (`n = n_max`), is `.hx (i+2)` of the extra row `n+1` -/
theorem s3_xsrc2_eq (n i : Int) (hi0 : 0 ≤ i) (hi1 : i < n) : XCell (s3_xsrc2 i) (n + 1) (i + 2) :=
  ⟨by unfold s3_xsrc2 s3_i2x; omega, by omega, by omega⟩

theorem s3_xsrc0_eq (n i : Int) (hi0 : 0 ≤ i) (hi1 : i < n) : XCell (s3_xsrc0 i) (n + 1) i :=
  ⟨by unfold s3_xsrc0 s3_i2x; omega, by omega, by omega⟩

theorem s3_xsrc1_eq (n i : Int) (hi0 : 0 ≤ i) (hi1 : i < n) : XCell (s3_xsrc1 i) (n + 1) (i + 1) :=
  ⟨by unfold s3_xsrc1 s3_i2x; omega, by omega, by omega⟩

/-- `b[i3]` is `b` at `(n+1, 0)` -/
theorem s3_b5_eq (n : Int) (hn : 0 ≤ n) : NmSlot (s3_b5 n) (n + 1) 0 := ⟨rfl, by omega, by omega⟩

/-- `b[-i+i3-2]` is `b` at `(n+1, -i-2)` -/
theorem s3_b6_eq (n i : Int) (hi0 : 0 ≤ i) (hi1 : i < n) : NmSlot (s3_b6 n i) (n + 1) (-i - 2) :=
  ⟨by unfold s3_b6 s3_i3 nm_index; omega, by omega, by omega⟩

/-- `b[i+i3]` is `b` at `(n+1, i)` -/
theorem s3_b7_eq (n i : Int) (hi0 : 0 ≤ i) (hi1 : i < n) : NmSlot (s3_b7 n i) (n + 1) i :=
  ⟨by unfold s3_b7 s3_i3 nm_index; omega, by omega, by omega⟩

/-- `a[i+i4]` is `a` at `(n, i+1)` -/
theorem s3_a8_eq (n i : Int) (hi0 : 0 ≤ i) (hi1 : i < n) : NabsmSlot (s3_a8 n i) n (i + 1) :=
  ⟨by unfold s3_a8 s3_i4 nabsm_index; omega, by omega, by omega⟩

/-! ## `_step_4`:  `n = 2 … n_max`, `mp = 1 … min(n, mp_max)-1`; `i = 0`, `i = 1 … n-mp-1`, `i = n-mp`

    Model (`Model.step4`): `i = 0` writes `.hv n (mp+1)` from `.hw n (mp-1) mp`, `.hv n mp`, `.hw n mp (mp+1)`;
    `i ≥ 1` writes `.hw n (mp+1) (mp+i)` from `.hw n (mp-1) (mp+i)`, `.hw n mp (mp+i-1)`, `.hw n mp (mp+i+1)`
    with `dC n mp`, `dC n (mp-1)`, `dC n (mp-1+i)`, `dC n (mp+i)`; the last (`i = n-mp`, `m = n`) drops the last
    term and uses `dC n (n-1)`. -/

/-- `Hwedge[i+i1] = …` is `.hw n (mp+1) (mp+i)`; `i = 1 … n-mp` -/
theorem s4_write_eq (n mp i P : Int) (hn : 2 ≤ n) (h1 : 1 ≤ mp) (h2 : mp < min n P)
    (hi0 : 1 ≤ i) (hi1 : i ≤ n - mp) : HwCell P (s4_write n mp i P) n (mp + 1) (mp + i) :=
  hwCell_of_row P n (mp + 1) (mp + 1) (mp + i) _ (by omega) (by omega) (by wedge) (by wedge)
    (by unfold s4_write s4_i1; omega)

/-- `Hwedge[i+i2]` is `.hw n (mp-1) (mp+i)`; `i = 0 … n-mp` -/
theorem s4_read2_eq (n mp i P : Int) (hn : 2 ≤ n) (h1 : 1 ≤ mp) (h2 : mp < min n P)
    (hi0 : 0 ≤ i) (hi1 : i ≤ n - mp) : HwCell P (s4_read2 n mp i P) n (mp - 1) (mp + i) :=
  hwCell_of_row P n (mp - 1) mp (mp + i) _ (by omega) (by omega) (by wedge) (by wedge)
    (by unfold s4_read2 s4_i2; omega)

/-- `Hwedge[i+i3]` is `.hw n mp (mp+i-1)`; `i = 1 … n-mp` -/
theorem s4_read3_eq (n mp i P : Int) (hn : 2 ≤ n) (h1 : 1 ≤ mp) (h2 : mp < min n P)
    (hi0 : 1 ≤ i) (hi1 : i ≤ n - mp) : HwCell P (s4_read3 n mp i P) n mp (mp + i - 1) :=
  hwCell_of_row P n mp mp (mp + i - 1) _ (by omega) (by omega) (by wedge) (by wedge)
    (by unfold s4_read3 s4_i3; omega)

/-- `Hwedge[i+i4]` is `.hw n mp (mp+i+1)`; `i = 0 … n-mp-1` -/
theorem s4_read4_eq (n mp i P : Int) (hn : 2 ≤ n) (h1 : 1 ≤ mp) (h2 : mp < min n P)
    (hi0 : 0 ≤ i) (hi1 : i < n - mp) : HwCell P (s4_read4 n mp i P) n mp (mp + i + 1) :=
  hwCell_of_row P n mp (mp + 1) (mp + i + 1) _ (by omega) (by omega) (by wedge) (by wedge)
    (by unfold s4_read4 s4_i4; omega)

/-- `d[i5]` is `d` at `(n, mp)` -/
theorem s4_d5_eq (n mp P : Int) (h1 : 1 ≤ mp) (h2 : mp < min n P) : NmSlot (s4_d5 n mp) n mp :=
  ⟨rfl, by omega, by omega⟩

/-- `d[i6]` is `d` at `(n, mp-1)` -/
theorem s4_d6_eq (n mp P : Int) (h1 : 1 ≤ mp) (h2 : mp < min n P) : NmSlot (s4_d6 n mp) n (mp - 1) :=
  ⟨rfl, by omega, by omega⟩

/-- `d[i+i6]` is `d` at `(n, mp-1+i)`; `i = 0 … n-mp` -/
theorem s4_d7_eq (n mp i P : Int) (h1 : 1 ≤ mp) (_h2 : mp < min n P) (hi0 : 0 ≤ i) (hi1 : i ≤ n - mp) :
    NmSlot (s4_d7 n mp i) n (mp - 1 + i) :=
  ⟨by unfold s4_d7 s4_i6 nm_index; omega, by omega, by omega⟩

/-- `d[i+i5]` is `d` at `(n, mp+i)`; `i = 0 … n-mp-1` -/
theorem s4_d8_eq (n mp i P : Int) (h1 : 1 ≤ mp) (_h2 : mp < min n P) (hi0 : 0 ≤ i) (hi1 : i < n - mp) :
    NmSlot (s4_d8 n mp i) n (mp + i) :=
  ⟨by unfold s4_d8 s4_i5 nm_index; omega, by omega, by omega⟩

/-- `Hv[i+nm_index(n, mp+1)] = …` (`i = 0`) is `.hv n (mp+1)` -/
theorem s4_hv_write_eq (n mp P : Int) (h1 : 1 ≤ mp) (h2 : mp < min n P) :
    NmSlot (s4_hv_write n mp 0) n (mp + 1) :=
  ⟨by unfold s4_hv_write; omega, by omega, by omega⟩

/-- `Hv[i+nm_index(n, mp)]` (`i = 0`) is `.hv n mp` -/
theorem s4_hv_read_eq (n mp P : Int) (h1 : 1 ≤ mp) (h2 : mp < min n P) :
    NmSlot (s4_hv_read n mp 0) n mp :=
  ⟨by unfold s4_hv_read; omega, by omega, by omega⟩

/-- the `m = n` statement (`i = n-mp`): writes `.hw n (mp+1) n` from `.hw n (mp-1) n`, `.hw n mp (n-1)`, `d` at `(n, n-1)` -/
theorem s4_last_eq (n mp P : Int) (hn : 2 ≤ n) (h1 : 1 ≤ mp) (h2 : mp < min n P) :
    HwCell P (s4_write n mp (n - mp) P) n (mp + 1) n
    ∧ HwCell P (s4_read2 n mp (n - mp) P) n (mp - 1) n
    ∧ HwCell P (s4_read3 n mp (n - mp) P) n mp (n - 1)
    ∧ NmSlot (s4_d7 n mp (n - mp)) n (n - 1) := by
  have a := s4_write_eq n mp (n - mp) P hn h1 h2 (by omega) (le_refl _)
  have b := s4_read2_eq n mp (n - mp) P hn h1 h2 (by omega) (le_refl _)
  have c := s4_read3_eq n mp (n - mp) P hn h1 h2 (by omega) (le_refl _)
  have d := s4_d7_eq n mp (n - mp) P h1 h2 (by omega) (le_refl _)
  rw [show mp + (n - mp) = n by omega] at a b
  rw [show mp + (n - mp) - 1 = n - 1 by omega] at c
  rw [show mp - 1 + (n - mp) = n - 1 by omega] at d
  exact ⟨a, b, c, d⟩

/-! ## `_step_5`:  `n = 0 … n_max`, `mp = 0, -1, … , -min(n, mp_max)+1`; `i = 0`, `i = 1 … n+mp-1`, `i = n+mp`

    Model (`Model.step5`, `q = -mp`): `i = 0` writes `.hv n (mp-1)` from (`mp = 0`:) `.hv n 1` resp. (`mp < 0`:)
    `.hw n (mp+1) q`, from `.hv n mp` and `.hw n mp (q+1)`; `i ≥ 1` writes `.hw n (mp-1) (q+i)` from
    `.hw n (mp+1) (q+i)`, `.hw n mp (q+i-1)`, `.hw n mp (q+i+1)` with `dC n (mp-1)`, `dC n mp`, `dC n (-mp-1+i)`,
    `dC n (-mp+i)`; the last (`i = n+mp`, `m = n`) drops the last term and uses `dC n (n-1)`. -/

/-- `Hwedge[i+i1] = …` is `.hw n (mp-1) (-mp+i)`; `i = 1 … n+mp` -/
theorem s5_write_eq (n mp i P : Int) (h1 : mp ≤ 0) (h2 : -(min n P) < mp)
    (hi0 : 1 ≤ i) (hi1 : i ≤ n + mp) : HwCell P (s5_write n mp i P) n (mp - 1) (-mp + i) :=
  hwCell_of_row P n (mp - 1) (-mp + 1) (-mp + i) _ (by omega) (by omega) (by wedge) (by wedge)
    (by unfold s5_write s5_i1; omega)

/-- `Hwedge[i+i2]` is `.hw n (mp+1) (-mp+i)`; `i = 1 … n+mp`, and `i = 0` in the branch `mp != 0` -/
theorem s5_read2_eq (n mp i P : Int) (h1 : mp ≤ 0) (h2 : -(min n P) < mp)
    (hi0 : 1 ≤ i ∨ (i = 0 ∧ mp ≠ 0)) (hi1 : i ≤ n + mp) : HwCell P (s5_read2 n mp i P) n (mp + 1) (-mp + i) :=
  hwCell_of_row P n (mp + 1) (-mp + 1) (-mp + i) _ (by omega) (by omega) (by wedge) (by wedge)
    (by unfold s5_read2 s5_i2; omega)

/-- `Hwedge[i+i3]` is `.hw n mp (-mp+i-1)`; `i = 1 … n+mp` -/
theorem s5_read3_eq (n mp i P : Int) (h1 : mp ≤ 0) (h2 : -(min n P) < mp)
    (hi0 : 1 ≤ i) (hi1 : i ≤ n + mp) : HwCell P (s5_read3 n mp i P) n mp (-mp + i - 1) :=
  hwCell_of_row P n mp (-mp) (-mp + i - 1) _ (by omega) (by omega) (by wedge) (by wedge)
    (by unfold s5_read3 s5_i3; omega)

/-- `Hwedge[i+i4]` is `.hw n mp (-mp+i+1)`; `i = 0 … n+mp-1` -/
theorem s5_read4_eq (n mp i P : Int) (h1 : mp ≤ 0) (h2 : -(min n P) < mp)
    (hi0 : 0 ≤ i) (hi1 : i < n + mp) : HwCell P (s5_read4 n mp i P) n mp (-mp + i + 1) :=
  hwCell_of_row P n mp (-mp + 1) (-mp + i + 1) _ (by omega) (by omega) (by wedge) (by wedge)
    (by unfold s5_read4 s5_i4; omega)

/-- `d[i5]` is `d` at `(n, mp-1)` -/
theorem s5_d5_eq (n mp P : Int) (h1 : mp ≤ 0) (h2 : -(min n P) < mp) : NmSlot (s5_d5 n mp) n (mp - 1) :=
  ⟨rfl, by omega, by omega⟩

/-- `d[i6]` is `d` at `(n, mp)` -/
theorem s5_d6_eq (n mp P : Int) (h1 : mp ≤ 0) (h2 : -(min n P) < mp) : NmSlot (s5_d6 n mp) n mp :=
  ⟨rfl, by omega, by omega⟩

/-- `d[i+i7]` is `d` at `(n, -mp-1+i)`; `i = 0 … n+mp` -/
theorem s5_d7_eq (n mp i P : Int) (h1 : mp ≤ 0) (h2 : -(min n P) < mp) (hi0 : 0 ≤ i) (hi1 : i ≤ n + mp) :
    NmSlot (s5_d7 n mp i) n (-mp - 1 + i) :=
  ⟨by unfold s5_d7 s5_i7 nm_index; omega, by omega, by omega⟩

/-- `d[i+i8]` is `d` at `(n, -mp+i)`; `i = 0 … n+mp-1` -/
theorem s5_d8_eq (n mp i P : Int) (h1 : mp ≤ 0) (_h2 : -(min n P) < mp) (hi0 : 0 ≤ i) (hi1 : i < n + mp) :
    NmSlot (s5_d8 n mp i) n (-mp + i) :=
  ⟨by unfold s5_d8 s5_i8 nm_index; omega, by omega, by omega⟩

/-- `Hv[i+nm_index(n, mp-1)] = …` (`i = 0`) is `.hv n (mp-1)` -/
theorem s5_hv_write_eq (n mp P : Int) (h1 : mp ≤ 0) (h2 : -(min n P) < mp) :
    NmSlot (s5_hv_write n mp 0) n (mp - 1) :=
  ⟨by unfold s5_hv_write; omega, by omega, by omega⟩

/-- `Hv[i+nm_index(n, mp+1)]` (`i = 0`, branch `mp == 0`) is `.hv n 1` -/
theorem s5_hv_read1_eq (n P : Int) (h2 : -(min n P) < 0) : NmSlot (s5_hv_read1 n 0 0) n 1 :=
  ⟨by unfold s5_hv_read1 nm_index; omega, by omega, by omega⟩

/-- `Hv[i+nm_index(n, mp)]` (`i = 0`) is `.hv n mp` -/
theorem s5_hv_read0_eq (n mp P : Int) (h1 : mp ≤ 0) (h2 : -(min n P) < mp) :
    NmSlot (s5_hv_read0 n mp 0) n mp :=
  ⟨by unfold s5_hv_read0; omega, by omega, by omega⟩

/-- the `m = n` statement (`i = n+mp`; `≥ 1` on the loop range): writes `.hw n (mp-1) n` from `.hw n (mp+1) n`,
    `.hw n mp (n-1)`, `d` at `(n, n-1)` -/
theorem s5_last_eq (n mp P : Int) (h1 : mp ≤ 0) (h2 : -(min n P) < mp) :
    1 ≤ n + mp
    ∧ HwCell P (s5_write n mp (n + mp) P) n (mp - 1) n
    ∧ HwCell P (s5_read2 n mp (n + mp) P) n (mp + 1) n
    ∧ HwCell P (s5_read3 n mp (n + mp) P) n mp (n - 1)
    ∧ NmSlot (s5_d7 n mp (n + mp)) n (n - 1) := by
  have hi : 1 ≤ n + mp := by omega
  have a := s5_write_eq n mp (n + mp) P h1 h2 hi (le_refl _)
  have b := s5_read2_eq n mp (n + mp) P h1 h2 (Or.inl hi) (le_refl _)
  have c := s5_read3_eq n mp (n + mp) P h1 h2 hi (le_refl _)
  have d := s5_d7_eq n mp (n + mp) P h1 h2 (by omega) (le_refl _)
  rw [show -mp + (n + mp) = n by omega] at a b
  rw [show -mp + (n + mp) - 1 = n - 1 by omega] at c
  rw [show -mp - 1 + (n + mp) = n - 1 by omega] at d
  exact ⟨hi, a, b, c, d⟩

/-! ## in-range corollaries (`L = n_max = ell_max`): every index is `≥ 0` and inside its array

    `Hwedge`: `WignerHsize P L` cells; `Hv`: `(L+1)^2`; `Hextra`: `L+2`; tables `b d g h`: `(L+2)^2` entries;
    table `a`: `(L+2)(L+3)/2` entries (`Wigner.__init__`, `_split_workspace`).  The generic statements are
    `HwCell.get`, `NmSlot.table`, `NmSlot.hv`, `NabsmSlot.table`, `XCell.get` (`Lemmas/FlatSteps`); here they
    are instantiated for the loop bodies. -/

/-- `_step_2`, recursion loop `i = 2 … n` of a wedge row `2 ≤ n ≤ L` (`i = n` is the `m = 0` statement) -/
theorem s2_wedge_in_range (L n i P : Int) (hP : 0 ≤ P) (hn : 2 ≤ n) (hL : n ≤ L) (hi0 : 2 ≤ i) (hi1 : i ≤ n) :
    (0 ≤ s2_H n i P ∧ s2_H n i P < WignerHsize P L)
    ∧ (0 ≤ s2_H1 n i P ∧ s2_H1 n i P < WignerHsize P L)
    ∧ (0 ≤ s2_H2 n i P ∧ s2_H2 n i P < WignerHsize P L)
    ∧ (0 ≤ s2_g n i ∧ s2_g n i < (L + 2) ^ 2) := by
  have a := (s2_H_eq n i P hP (by omega) (by omega) hi1).get L hP (by omega) hL
  have b := (s2_H1_eq n i P hP (by omega) (by omega) hi1).get L hP (by omega) hL
  have c := (s2_H2_eq n i P hP (by omega) hi0 hi1).get L hP (by omega) hL
  have d := (s2_g_eq n i (by omega) hi1).table L (by omega) (by omega)
  exact ⟨⟨a.1, a.2.1⟩, ⟨b.1, b.2.1⟩, ⟨c.1, c.2.1⟩, ⟨d.1, d.2.1⟩⟩

/-- `_step_2`, the same loop for the extra row `n = L+1` -/
theorem s2_extra_in_range (L n i : Int) (hL : n = L + 1) (hi0 : 2 ≤ i) (hi1 : i ≤ n) :
    (0 ≤ s2_X n i ∧ s2_X n i < L + 2) ∧ (0 ≤ s2_X1 n i ∧ s2_X1 n i < L + 2)
    ∧ (0 ≤ s2_X2 n i ∧ s2_X2 n i < L + 2) ∧ (0 ≤ s2_g n i ∧ s2_g n i < (L + 2) ^ 2) := by
  have d := (s2_g_eq n i (by omega) hi1).table L (by omega) (by omega)
  exact ⟨(s2_X_eq n i (by omega) hi1).get L hL, (s2_X1_eq n i (by omega) hi1).get L hL,
    (s2_X2_eq n i hi0 hi1).get L hL, ⟨d.1, d.2.1⟩⟩

/-- `_step_3` loop body, `1 ≤ n ≤ L`, `0 ≤ i < n`: the write and the four table reads -/
theorem s3_in_range (L n i P : Int) (hP : 1 ≤ P) (hn : 1 ≤ n) (hL : n ≤ L) (hi0 : 0 ≤ i) (hi1 : i < n) :
    (0 ≤ s3_write n i P ∧ s3_write n i P < WignerHsize P L)
    ∧ (0 ≤ s3_b5 n ∧ s3_b5 n < (L + 2) ^ 2)
    ∧ (0 ≤ s3_b6 n i ∧ s3_b6 n i < (L + 2) ^ 2)
    ∧ (0 ≤ s3_b7 n i ∧ s3_b7 n i < (L + 2) ^ 2)
    ∧ (0 ≤ s3_a8 n i ∧ s3_a8 n i < (L + 2) * (L + 3) / 2) := by
  have a := (s3_write_eq n i P hP hn hi0 hi1).get L (by omega) (by omega) hL
  have b := (s3_b5_eq n (by omega)).table L (by omega) (by omega)
  have c := (s3_b6_eq n i hi0 hi1).table L (by omega) (by omega)
  have d := (s3_b7_eq n i hi0 hi1).table L (by omega) (by omega)
  have e := (s3_a8_eq n i hi0 hi1).table L (by omega) (by omega)
  exact ⟨⟨a.1, a.2.1⟩, ⟨b.1, b.2.1⟩, ⟨c.1, c.2.1⟩, ⟨d.1, d.2.1⟩, ⟨e.1, e.2.1⟩⟩

/-- `_step_3` sources: in `Hwedge` when `n+1 ≤ L`, in `Hextra` when `n = L` -/
theorem s3_src_in_range (L n i P : Int) (hP : 0 ≤ P) (hn : 1 ≤ n) (hi0 : 0 ≤ i) (hi1 : i < n) :
    (n + 1 ≤ L →
      (0 ≤ s3_src2 n i P ∧ s3_src2 n i P < WignerHsize P L)
      ∧ (0 ≤ s3_src0 n i P ∧ s3_src0 n i P < WignerHsize P L)
      ∧ (0 ≤ s3_src1 n i P ∧ s3_src1 n i P < WignerHsize P L))
    ∧ (n = L →
      (0 ≤ s3_xsrc2 i ∧ s3_xsrc2 i < L + 2) ∧ (0 ≤ s3_xsrc0 i ∧ s3_xsrc0 i < L + 2)
      ∧ (0 ≤ s3_xsrc1 i ∧ s3_xsrc1 i < L + 2)) := by
  refine ⟨fun hL => ?_, fun hL => ?_⟩
  · have a := (s3_src2_eq n i P hP hn hi0 hi1).get L hP (by omega) hL
    have b := (s3_src0_eq n i P hP hn hi0 hi1).get L hP (by omega) hL
    have c := (s3_src1_eq n i P hP hn hi0 hi1).get L hP (by omega) hL
    exact ⟨⟨a.1, a.2.1⟩, ⟨b.1, b.2.1⟩, ⟨c.1, c.2.1⟩⟩
  · exact ⟨(s3_xsrc2_eq n i hi0 hi1).get L (by omega), (s3_xsrc0_eq n i hi0 hi1).get L (by omega),
      (s3_xsrc1_eq n i hi0 hi1).get L (by omega)⟩

/-- `_step_4`, loop `i = 1 … n-mp-1` -/
theorem s4_in_range (L n mp i P : Int) (hn : 2 ≤ n) (hL : n ≤ L) (h1 : 1 ≤ mp) (h2 : mp < min n P)
    (hi0 : 1 ≤ i) (hi1 : i < n - mp) :
    (0 ≤ s4_write n mp i P ∧ s4_write n mp i P < WignerHsize P L)
    ∧ (0 ≤ s4_read2 n mp i P ∧ s4_read2 n mp i P < WignerHsize P L)
    ∧ (0 ≤ s4_read3 n mp i P ∧ s4_read3 n mp i P < WignerHsize P L)
    ∧ (0 ≤ s4_read4 n mp i P ∧ s4_read4 n mp i P < WignerHsize P L)
    ∧ (0 ≤ s4_d5 n mp ∧ s4_d5 n mp < (L + 2) ^ 2)
    ∧ (0 ≤ s4_d6 n mp ∧ s4_d6 n mp < (L + 2) ^ 2)
    ∧ (0 ≤ s4_d7 n mp i ∧ s4_d7 n mp i < (L + 2) ^ 2)
    ∧ (0 ≤ s4_d8 n mp i ∧ s4_d8 n mp i < (L + 2) ^ 2) := by
  have hP : 0 ≤ P := by omega
  have a := (s4_write_eq n mp i P hn h1 h2 hi0 (by omega)).get L hP (by omega) hL
  have b := (s4_read2_eq n mp i P hn h1 h2 (by omega) (by omega)).get L hP (by omega) hL
  have c := (s4_read3_eq n mp i P hn h1 h2 hi0 (by omega)).get L hP (by omega) hL
  have d := (s4_read4_eq n mp i P hn h1 h2 (by omega) hi1).get L hP (by omega) hL
  have e := (s4_d5_eq n mp P h1 h2).table L (by omega) (by omega)
  have f := (s4_d6_eq n mp P h1 h2).table L (by omega) (by omega)
  have g := (s4_d7_eq n mp i P h1 h2 (by omega) (by omega)).table L (by omega) (by omega)
  have h := (s4_d8_eq n mp i P h1 h2 (by omega) hi1).table L (by omega) (by omega)
  exact ⟨⟨a.1, a.2.1⟩, ⟨b.1, b.2.1⟩, ⟨c.1, c.2.1⟩, ⟨d.1, d.2.1⟩, ⟨e.1, e.2.1⟩, ⟨f.1, f.2.1⟩,
    ⟨g.1, g.2.1⟩, ⟨h.1, h.2.1⟩⟩

/-- `_step_4`, `i = 0`: the two `Hv` cells, the two `Hwedge` reads, the two `d` reads -/
theorem s4_first_in_range (L n mp P : Int) (hn : 2 ≤ n) (hL : n ≤ L) (h1 : 1 ≤ mp) (h2 : mp < min n P) :
    (0 ≤ s4_hv_write n mp 0 ∧ s4_hv_write n mp 0 < (L + 1) ^ 2)
    ∧ (0 ≤ s4_hv_read n mp 0 ∧ s4_hv_read n mp 0 < (L + 1) ^ 2)
    ∧ (0 ≤ s4_read2 n mp 0 P ∧ s4_read2 n mp 0 P < WignerHsize P L)
    ∧ (0 ≤ s4_read4 n mp 0 P ∧ s4_read4 n mp 0 P < WignerHsize P L)
    ∧ (0 ≤ s4_d7 n mp 0 ∧ s4_d7 n mp 0 < (L + 2) ^ 2)
    ∧ (0 ≤ s4_d8 n mp 0 ∧ s4_d8 n mp 0 < (L + 2) ^ 2) := by
  have hP : 0 ≤ P := by omega
  have a := (s4_hv_write_eq n mp P h1 h2).hv L (by omega) hL
  have b := (s4_hv_read_eq n mp P h1 h2).hv L (by omega) hL
  have c := (s4_read2_eq n mp 0 P hn h1 h2 (le_refl 0) (by omega)).get L hP (by omega) hL
  have d := (s4_read4_eq n mp 0 P hn h1 h2 (le_refl 0) (by omega)).get L hP (by omega) hL
  have g := (s4_d7_eq n mp 0 P h1 h2 (le_refl 0) (by omega)).table L (by omega) (by omega)
  have h := (s4_d8_eq n mp 0 P h1 h2 (le_refl 0) (by omega)).table L (by omega) (by omega)
  exact ⟨⟨a.1, a.2.1⟩, ⟨b.1, b.2.1⟩, ⟨c.1, c.2.1⟩, ⟨d.1, d.2.1⟩, ⟨g.1, g.2.1⟩, ⟨h.1, h.2.1⟩⟩

/-- `_step_4`, `i = n-mp` -/
theorem s4_last_in_range (L n mp P : Int) (hn : 2 ≤ n) (hL : n ≤ L) (h1 : 1 ≤ mp) (h2 : mp < min n P) :
    (0 ≤ s4_write n mp (n - mp) P ∧ s4_write n mp (n - mp) P < WignerHsize P L)
    ∧ (0 ≤ s4_read2 n mp (n - mp) P ∧ s4_read2 n mp (n - mp) P < WignerHsize P L)
    ∧ (0 ≤ s4_read3 n mp (n - mp) P ∧ s4_read3 n mp (n - mp) P < WignerHsize P L)
    ∧ (0 ≤ s4_d7 n mp (n - mp) ∧ s4_d7 n mp (n - mp) < (L + 2) ^ 2) := by
  have hP : 0 ≤ P := by omega
  obtain ⟨a, b, c, d⟩ := s4_last_eq n mp P hn h1 h2
  have a := a.get L hP (by omega) hL
  have b := b.get L hP (by omega) hL
  have c := c.get L hP (by omega) hL
  have d := d.table L (by omega) (by omega)
  exact ⟨⟨a.1, a.2.1⟩, ⟨b.1, b.2.1⟩, ⟨c.1, c.2.1⟩, ⟨d.1, d.2.1⟩⟩

/-- `_step_5`, loop `i = 1 … n+mp-1` -/
theorem s5_in_range (L n mp i P : Int) (hL : n ≤ L) (h1 : mp ≤ 0) (h2 : -(min n P) < mp)
    (hi0 : 1 ≤ i) (hi1 : i < n + mp) :
    (0 ≤ s5_write n mp i P ∧ s5_write n mp i P < WignerHsize P L)
    ∧ (0 ≤ s5_read2 n mp i P ∧ s5_read2 n mp i P < WignerHsize P L)
    ∧ (0 ≤ s5_read3 n mp i P ∧ s5_read3 n mp i P < WignerHsize P L)
    ∧ (0 ≤ s5_read4 n mp i P ∧ s5_read4 n mp i P < WignerHsize P L)
    ∧ (0 ≤ s5_d5 n mp ∧ s5_d5 n mp < (L + 2) ^ 2)
    ∧ (0 ≤ s5_d6 n mp ∧ s5_d6 n mp < (L + 2) ^ 2)
    ∧ (0 ≤ s5_d7 n mp i ∧ s5_d7 n mp i < (L + 2) ^ 2)
    ∧ (0 ≤ s5_d8 n mp i ∧ s5_d8 n mp i < (L + 2) ^ 2) := by
  have hP : 0 ≤ P := by omega
  have a := (s5_write_eq n mp i P h1 h2 hi0 (by omega)).get L hP (by omega) hL
  have b := (s5_read2_eq n mp i P h1 h2 (Or.inl hi0) (by omega)).get L hP (by omega) hL
  have c := (s5_read3_eq n mp i P h1 h2 hi0 (by omega)).get L hP (by omega) hL
  have d := (s5_read4_eq n mp i P h1 h2 (by omega) hi1).get L hP (by omega) hL
  have e := (s5_d5_eq n mp P h1 h2).table L (by omega) (by omega)
  have f := (s5_d6_eq n mp P h1 h2).table L (by omega) (by omega)
  have g := (s5_d7_eq n mp i P h1 h2 (by omega) (by omega)).table L (by omega) (by omega)
  have h := (s5_d8_eq n mp i P h1 h2 (by omega) hi1).table L (by omega) (by omega)
  exact ⟨⟨a.1, a.2.1⟩, ⟨b.1, b.2.1⟩, ⟨c.1, c.2.1⟩, ⟨d.1, d.2.1⟩, ⟨e.1, e.2.1⟩, ⟨f.1, f.2.1⟩,
    ⟨g.1, g.2.1⟩, ⟨h.1, h.2.1⟩⟩

/-- `_step_5`, `i = 0`: the `Hv` cells (`Hv[…(n, mp+1)]` only when `mp = 0`), the `Hwedge` reads
    (`Hwedge[i+i2]` only when `mp ≠ 0`), the two `d` reads -/
theorem s5_first_in_range (L n mp P : Int) (hL : n ≤ L) (h1 : mp ≤ 0) (h2 : -(min n P) < mp) :
    (0 ≤ s5_hv_write n mp 0 ∧ s5_hv_write n mp 0 < (L + 1) ^ 2)
    ∧ (0 ≤ s5_hv_read0 n mp 0 ∧ s5_hv_read0 n mp 0 < (L + 1) ^ 2)
    ∧ (mp = 0 → 0 ≤ s5_hv_read1 n mp 0 ∧ s5_hv_read1 n mp 0 < (L + 1) ^ 2)
    ∧ (mp ≠ 0 → 0 ≤ s5_read2 n mp 0 P ∧ s5_read2 n mp 0 P < WignerHsize P L)
    ∧ (0 ≤ s5_read4 n mp 0 P ∧ s5_read4 n mp 0 P < WignerHsize P L)
    ∧ (0 ≤ s5_d7 n mp 0 ∧ s5_d7 n mp 0 < (L + 2) ^ 2)
    ∧ (0 ≤ s5_d8 n mp 0 ∧ s5_d8 n mp 0 < (L + 2) ^ 2) := by
  have hP : 0 ≤ P := by omega
  have a := (s5_hv_write_eq n mp P h1 h2).hv L (by omega) hL
  have b := (s5_hv_read0_eq n mp P h1 h2).hv L (by omega) hL
  have d := (s5_read4_eq n mp 0 P h1 h2 (le_refl 0) (by omega)).get L hP (by omega) hL
  have g := (s5_d7_eq n mp 0 P h1 h2 (le_refl 0) (by omega)).table L (by omega) (by omega)
  have h := (s5_d8_eq n mp 0 P h1 h2 (le_refl 0) (by omega)).table L (by omega) (by omega)
  refine ⟨⟨a.1, a.2.1⟩, ⟨b.1, b.2.1⟩, ?_, ?_, ⟨d.1, d.2.1⟩, ⟨g.1, g.2.1⟩, ⟨h.1, h.2.1⟩⟩
  · intro h0
    subst h0
    have c := (s5_hv_read1_eq n P h2).hv L (by omega) hL
    exact ⟨c.1, c.2.1⟩
  · intro h0
    have c := (s5_read2_eq n mp 0 P h1 h2 (Or.inr ⟨rfl, h0⟩) (by omega)).get L hP (by omega) hL
    exact ⟨c.1, c.2.1⟩

/-- `_step_5`, `i = n+mp` -/
theorem s5_last_in_range (L n mp P : Int) (hL : n ≤ L) (h1 : mp ≤ 0) (h2 : -(min n P) < mp) :
    (0 ≤ s5_write n mp (n + mp) P ∧ s5_write n mp (n + mp) P < WignerHsize P L)
    ∧ (0 ≤ s5_read2 n mp (n + mp) P ∧ s5_read2 n mp (n + mp) P < WignerHsize P L)
    ∧ (0 ≤ s5_read3 n mp (n + mp) P ∧ s5_read3 n mp (n + mp) P < WignerHsize P L)
    ∧ (0 ≤ s5_d7 n mp (n + mp) ∧ s5_d7 n mp (n + mp) < (L + 2) ^ 2) := by
  have hP : 0 ≤ P := by omega
  obtain ⟨_, a, b, c, d⟩ := s5_last_eq n mp P h1 h2
  have a := a.get L hP (by omega) hL
  have b := b.get L hP (by omega) hL
  have c := c.get L hP (by omega) hL
  have d := d.table L (by omega) (by omega)
  exact ⟨⟨a.1, a.2.1⟩, ⟨b.1, b.2.1⟩, ⟨c.1, c.2.1⟩, ⟨d.1, d.2.1⟩⟩

/-! ## the hypotheses are satisfiable, and concrete non-trivial points -/

example : ∃ n mp i P : Int, 2 ≤ n ∧ 1 ≤ mp ∧ mp < min n P ∧ 1 ≤ i ∧ i < n - mp := ⟨7, 3, 2, 5, by decide⟩
example : ∃ n mp i P : Int, mp ≤ 0 ∧ -(min n P) < mp ∧ 1 ≤ i ∧ i < n + mp := ⟨7, -3, 2, 5, by decide⟩

-- step 2, n = 6, P = 3 (wedge narrower than the row), i = 4
example : s2_H 6 4 3 = WignerHindex 6 0 2 (some 3) ∧ s2_H1 6 4 3 = WignerHindex 6 0 3 (some 3)
    ∧ s2_H2 6 4 3 = WignerHindex 6 0 4 (some 3) ∧ s2_Hnorm 6 4 3 = WignerHindex 6 0 4 (some 3)
    ∧ s2_g 6 4 = nm_index 6 2 := by decide
example : s2_H 6 4 3 = 100 ∧ s2_g 6 4 = 44 := by decide
-- step 3, n = 5, i = 3, P = 2
example : s3_write 5 3 2 = WignerHindex 5 1 4 (some 2) ∧ s3_src2 5 3 2 = WignerHindex 6 0 5 (some 2)
    ∧ s3_src0 5 3 2 = WignerHindex 6 0 3 (some 2) ∧ s3_src1 5 3 2 = WignerHindex 6 0 4 (some 2)
    ∧ s3_b6 5 3 = nm_index 6 (-5) ∧ s3_b7 5 3 = nm_index 6 3 ∧ s3_a8 5 3 = nabsm_index 5 4
    ∧ s3_xsrc2 3 = 5 := by decide
example : s3_write 5 3 2 = 65 ∧ s3_b6 5 3 = 37 ∧ s3_a8 5 3 = 19 ∧ s4_write 7 3 2 5 = 190 ∧ s5_write 7 (-3) 2 5 = 142 := by decide
-- step 4, n = 7, mp = 3, P = 5; i = 2 (loop), i = 0, i = n-mp = 4
example : s4_write 7 3 2 5 = WignerHindex 7 4 5 (some 5) ∧ s4_read2 7 3 2 5 = WignerHindex 7 2 5 (some 5)
    ∧ s4_read3 7 3 2 5 = WignerHindex 7 3 4 (some 5) ∧ s4_read4 7 3 2 5 = WignerHindex 7 3 6 (some 5)
    ∧ s4_d7 7 3 2 = nm_index 7 4 ∧ s4_d8 7 3 2 = nm_index 7 5 := by decide
example : s4_hv_write 7 3 0 = nm_index 7 4 ∧ s4_read2 7 3 0 5 = WignerHindex 7 2 3 (some 5)
    ∧ s4_read4 7 3 0 5 = WignerHindex 7 3 4 (some 5)
    ∧ s4_write 7 3 4 5 = WignerHindex 7 4 7 (some 5) ∧ s4_read3 7 3 4 5 = WignerHindex 7 3 6 (some 5)
    ∧ s4_d7 7 3 4 = nm_index 7 6 := by decide
-- step 5, n = 7, mp = -3, P = 5; i = 2 (loop), i = 0, i = n+mp = 4; and mp = 0, i = 0
example : s5_write 7 (-3) 2 5 = WignerHindex 7 (-4) 5 (some 5) ∧ s5_read2 7 (-3) 2 5 = WignerHindex 7 (-2) 5 (some 5)
    ∧ s5_read3 7 (-3) 2 5 = WignerHindex 7 (-3) 4 (some 5) ∧ s5_read4 7 (-3) 2 5 = WignerHindex 7 (-3) 6 (some 5)
    ∧ s5_d7 7 (-3) 2 = nm_index 7 4 ∧ s5_d8 7 (-3) 2 = nm_index 7 5 := by decide
example : s5_hv_write 7 (-3) 0 = nm_index 7 (-4) ∧ s5_read2 7 (-3) 0 5 = WignerHindex 7 (-2) 3 (some 5)
    ∧ s5_read4 7 (-3) 0 5 = WignerHindex 7 (-3) 4 (some 5)
    ∧ s5_write 7 (-3) 4 5 = WignerHindex 7 (-4) 7 (some 5) ∧ s5_read3 7 (-3) 4 5 = WignerHindex 7 (-3) 6 (some 5)
    ∧ s5_d7 7 (-3) 4 = nm_index 7 6
    ∧ s5_hv_read1 7 0 0 = nm_index 7 1 ∧ s5_hv_write 7 0 0 = nm_index 7 (-1)
    ∧ s5_read4 7 0 0 5 = WignerHindex 7 0 1 (some 5) := by decide
-- the predicates themselves at concrete points
example : HwCell 5 (s4_write 7 3 2 5) 7 4 5 ∧ HwCell 5 (s5_write 7 (-3) 2 5) 7 (-4) 5
    ∧ NmSlot (s3_b6 5 3) 6 (-5) ∧ NabsmSlot (s3_a8 5 3) 5 4 ∧ XCell (s3_xsrc2 3) 5 5 := by decide

/-- The side conditions matter: outside the loop range the expression is a *different* cell (here the first
    `i = 0` of `Hwedge[i+i1]` in step 4 would hit the last cell of the previous column), which is why the
    code sends `i = 0` to `Hv` instead. -/
example : s4_write 7 3 0 5 = WignerHindex 7 3 7 (some 5)
    ∧ s4_write 7 3 0 5 ≠ WignerHindex 7 4 3 (some 5) := by decide

end FlatSteps
