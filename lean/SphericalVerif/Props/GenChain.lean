import SphericalVerif.Props.GenEuler
import SphericalVerif.Props.GenCPow
import SphericalVerif.Props.GenFill
import SphericalVerif.Props.DAll
import SphericalVerif.Props.GenHorner
import SphericalVerif.Props.GenRot
import SphericalVerif.Props.HomAll
/-! GenChain — `Wigner.D` for one rotor, **every kernel as the source states it**, wired as the method wires them:

    ```
    to_euler_phases(quaternions[i_R], z)
    Hwedge = self.H(z[1], Hwedge, Hv, Hextra)
    _complex_powers(z[0:1], M, zₐpowers);  _complex_powers(z[2:3], M, zᵧpowers)
    _fill_wigner_D(ell_min, ell_max, mp_max, 𝔇[i_R], Hwedge, zₐpowers[0], zᵧpowers[0])
    ```

    Each kernel below is the GENERATED definition (`Gen/EulerKern`, `Gen/HKern`, `Gen/CPowKern`, `Gen/FillKern`); only the five
    lines of plumbing are written here, with every array on one flat memory under its own id.  `gen_D_chain`: the output cell
    `𝔇[WignerDindex(ell, m', m, ell_min)]` is `Model.objD` — for every arithmetic (IEEE doubles bit for bit) and every previous
    content of the memory — and therefore, over exact reals and for every unit quaternion, the documented 𝔇 (`gen_D_chain_doc`,
    via `DAll.D_all`), for every `ell ≤ ell_max`.

    What the plumbing takes for granted, stated honestly: each kernel's read-only inputs are captured as values at the point
    where the method passes them (the phases right after the Euler kernel, `Hwedge` right after `Wigner.H`, each power array
    right after its `_complex_powers`).  That they are still there when the later kernels read them — i.e. that a kernel writes
    only the arrays it is handed for writing — is the frame property the footprint monitor of C10 checks on the real code on
    every run; it is visible in the generated text (every `fwr` names an output array id) but not restated as a theorem. -/
namespace GenChain
open Gen Model Spec GenH GenFill GenCPow GenEuler GenHorner GenRot

section
variable {α : Type} [Scalar α] {φ : Type} [FMem φ α] [LawfulFMem φ α]

/-- the kernels of `Wigner.D` for one rotor, wired as the method wires them; array ids: `Hwedge, Hv, Hextra = 0, 1, 2`,
    `z`, `zₐpowers`, `zᵧpowers`, `𝔇` = `zI, aI, gI, DI` -/
def wignerD (L : Nat) (ell_min : Int) (zI aI gI DI : Nat) (a b d g h : Int → α) (imsqrt : Cx α → α) (R : Int → α) (st : φ) : φ :=
  let st1 := Gen.u_to_euler_phases (α := α) R zI st
  let z0 := frdC (α := α) st1 zI 0
  let z1 := frdC (α := α) st1 zI 1
  let z2 := frdC (α := α) st1 zI 2
  let stH := Gen.Wigner_H (α := α) g h (L : Int) (L : Int) a b d z1 idW idV idX st1
  let st2 := Gen.u_complex_powers (α := α) (fun _ => z0) (L : Int) aI 1 ((L : Int) + 1) imsqrt 4 stH
  let st3 := Gen.u_complex_powers (α := α) (fun _ => z2) (L : Int) gI 1 ((L : Int) + 1) imsqrt 4 st2
  Gen.u_fill_wigner_D (α := α) ell_min (L : Int) (L : Int) DI (fun i => frd (α := α) stH idW i)
    (fun i => frdC (α := α) st2 aI i) (fun i => frdC (α := α) st3 gI i) st3

/-- **`Wigner.D`, one rotor, from the source of every kernel.** -/
theorem gen_D_chain (L : Nat) (ell_min : Int) (zI aI gI DI : Nat) (a b d g h : Int → α) (ht : TabOK L a b d g h)
    (imsqrt : Cx α → α) (R : Int → α) (F : φ) (J : Loc → α) (h0 : 0 ≤ ell_min)
    (ell : Nat) (mp m : Int) (h1 : ell_min ≤ ell) (hl : ell ≤ L)
    (hp1 : -(ell : Int) ≤ mp) (hp2 : mp ≤ ell) (hm1 : -(ell : Int) ≤ m) (hm2 : m ≤ ell) :
    frdC (α := α) (wignerD L ell_min zI aI gI DI a b d g h imsqrt R F) DI (WignerDindex (ell : Int) mp m ell_min (-1))
      = Model.objD (α := α) L (⟨Gen.u_to_euler_phases (α := α) R zI F, J⟩ : Hyb L L φ α) (R 0) (R 1) (R 2) (R 3) imsqrt ell mp m := by
  unfold wignerD Model.objD
  obtain ⟨e0, e1, e2⟩ : frdC (α := α) (Gen.u_to_euler_phases (α := α) R zI F) zI 0 = (Model.eulerPhases (R 0) (R 1) (R 2) (R 3)).1
      ∧ frdC (α := α) (Gen.u_to_euler_phases (α := α) R zI F) zI 1 = (Model.eulerPhases (R 0) (R 1) (R 2) (R 3)).2.1
      ∧ frdC (α := α) (Gen.u_to_euler_phases (α := α) R zI F) zI 2 = (Model.eulerPhases (R 0) (R 1) (R 2) (R 3)).2.2 :=
    gen_euler_phases R zI F
  rw [fill_D_entry ell_min L L DI _ _ _ _ h0 ell mp m h1 (by omega) hp1 hp2 hm1 hm2]
  rw [e0, e1, e2]
  generalize Model.eulerPhases (R 0) (R 1) (R 2) (R 3) = E
  obtain ⟨z0, z1, z2⟩ := E
  simp only []
  unfold Model.DEntry
  have hz1 : (⟨z1.re, z1.im⟩ : Cx α) = z1 := rfl
  rw [hat_gen L L z1.re z1.im a b d g h ht (Gen.u_to_euler_phases (α := α) R zI F) J ell mp m hl hp1 hp2 hm1 hm2 (by omega)]
  -- the power arrays
  have hg : ∀ k : Nat, k ≤ L → frdC (α := α) (Gen.u_complex_powers (α := α) (fun _ => z2) (L : Int) gI 1 ((L : Int) + 1) imsqrt 4
      (Gen.u_complex_powers (α := α) (fun _ => z0) (L : Int) aI 1 ((L : Int) + 1) imsqrt 4
        (Gen.Wigner_H (α := α) g h (L : Int) (L : Int) a b d z1 idW idV idX (Gen.u_to_euler_phases (α := α) R zI F)))) gI (k : Int)
        = cget (cpowers z2 L imsqrt) k := fun k hk => gen_cpow_cell z2 L gI imsqrt _ k hk
  have ha : ∀ k : Nat, k ≤ L → frdC (α := α) (Gen.u_complex_powers (α := α) (fun _ => z0) (L : Int) aI 1 ((L : Int) + 1) imsqrt 4
        (Gen.Wigner_H (α := α) g h (L : Int) (L : Int) a b d z1 idW idV idX (Gen.u_to_euler_phases (α := α) R zI F))) aI (k : Int)
        = cget (cpowers z0 L imsqrt) k := fun k hk => gen_cpow_cell z0 L aI imsqrt _ k hk
  congr 1
  · congr 1
    by_cases hm : m < 0
    · have e : (-m) = (((-m).toNat : Nat) : Int) := by omega
      rw [if_pos hm, if_pos hm, e, hg _ (by omega)]; simp only [Int.toNat_natCast]
    · have e : m = ((m.toNat : Nat) : Int) := by omega
      rw [if_neg hm, if_neg hm, e, hg _ (by omega)]; simp only [Int.toNat_natCast]
  · by_cases hmp : mp < 0
    · have e : (-mp) = (((-mp).toNat : Nat) : Int) := by omega
      rw [if_pos hmp, if_pos hmp, e, ha _ (by omega)]; simp only [Int.toNat_natCast]
    · have e : mp = ((mp.toNat : Nat) : Int) := by omega
      rw [if_neg hmp, if_neg hmp, e, ha _ (by omega)]; simp only [Int.toNat_natCast]
end

/-- **… hence the documented 𝔇**: over exact reals, for every unit quaternion (all three branches of the Euler-phase
    conversion), every `ell_min ≤ ell ≤ ell_max`, every `|m'|, |m| ≤ ell`, the cell written by the generated kernels is
    `docD ell R_a R_b m' m` — the homogeneous polynomial of docs/WignerDMatrices.md. -/
theorem gen_D_chain_doc {φ : Type} [FMem φ ℝ] [LawfulFMem φ ℝ] (L : Nat) (ell_min : Int) (zI aI gI DI : Nat)
    (a b d g h : Int → ℝ) (ht : TabOK L a b d g h) (imsqrt : Cx ℝ → ℝ)
    (hs : ∀ w : Cx ℝ, w.re ^ 2 + w.im ^ 2 = 1 → 2 * (imsqrt w) ^ 2 = 1 - w.re)
    (R : Int → ℝ) (hR : R 0 ^ 2 + R 1 ^ 2 + R 2 ^ 2 + R 3 ^ 2 = 1) (F : φ) (h0 : 0 ≤ ell_min)
    (ell : Nat) (mp m : Int) (h1 : ell_min ≤ ell) (hl : ell ≤ L) (hmp : mp.natAbs ≤ ell) (hm : m.natAbs ≤ ell) :
    CPow.toC (frdC (α := ℝ) (wignerD L ell_min zI aI gI DI a b d g h imsqrt R F) DI (WignerDindex (ell : Int) mp m ell_min (-1)))
      = DDef.docD ell (DDef.Ra (R 0) (R 3)) (DDef.Rb (R 1) (R 2)) mp m := by
  rw [gen_D_chain L ell_min zI aI gI DI a b d g h ht imsqrt R F (fun _ => 0) h0 ell mp m h1 hl (by omega) (by omega) (by omega) (by omega)]
  exact DAll.D_all L _ (R 0) (R 1) (R 2) (R 3) hR imsqrt hs ell hl mp m hmp hm

/-! ### `Wigner.sYlm`, `Wigner.evaluate(horner=True)`, `Wigner.rotate(horner=True)`: the same for the other three methods -/

section
variable {α : Type} [Scalar α] {φ : Type} [FMem φ α] [LawfulFMem φ α]

/-- `Wigner.sYlm(s, R)` for one rotor: `to_euler_phases`, `self.H(z[1], …)`, `_complex_powers(z[0:1], M, zₐpowers)`,
    `_fill_sYlm(…, zₐpowers[0], zᵧpower)`; `zgpow` is the library power `z[2]**abs(s)` -/
def wignerY (L P : Nat) (ell_min sw : Int) (zI aI YI : Nat) (a b d g h : Int → α) (imsqrt : Cx α → α) (zgpow : Cx α) (R : Int → α) (st : φ) : φ :=
  let st1 := Gen.u_to_euler_phases (α := α) R zI st
  let z0 := frdC (α := α) st1 zI 0
  let z1 := frdC (α := α) st1 zI 1
  let stH := Gen.Wigner_H (α := α) g h (L : Int) (P : Int) a b d z1 idW idV idX st1
  let st2 := Gen.u_complex_powers (α := α) (fun _ => z0) (L : Int) aI 1 ((L : Int) + 1) imsqrt 4 stH
  Gen.u_fill_sYlm (α := α) ell_min (L : Int) (P : Int) sw YI (fun i => frd (α := α) stH idW i) (fun i => frdC (α := α) st2 aI i) zgpow st2

theorem gen_Y_chain (L P : Nat) (ell_min sw : Int) (zI aI YI : Nat) (a b d g h : Int → α) (ht : TabOK L a b d g h)
    (imsqrt : Cx α → α) (zgpow : Cx α) (R : Int → α) (F : φ) (J : Loc → α) (h0 : 0 ≤ ell_min) (hs : sw.natAbs ≤ P)
    (hsL : max ((sw.natAbs : Nat) : Int) ell_min ≤ (L : Int) + 1)
    (ell : Nat) (m : Int) (h1 : ell_min ≤ ell) (hl : ell ≤ L) (hm1 : -(ell : Int) ≤ m) (hm2 : m ≤ ell) :
    frdC (α := α) (wignerY L P ell_min sw zI aI YI a b d g h imsqrt zgpow R F) YI (Yindex (ell : Int) m ell_min)
      = Model.objY (α := α) L P (⟨Gen.u_to_euler_phases (α := α) R zI F, J⟩ : Hyb L P φ α) (R 0) (R 1) (R 2) (R 3) imsqrt zgpow sw ell m := by
  unfold wignerY Model.objY
  obtain ⟨e0, e1, _⟩ : frdC (α := α) (Gen.u_to_euler_phases (α := α) R zI F) zI 0 = (Model.eulerPhases (R 0) (R 1) (R 2) (R 3)).1
      ∧ frdC (α := α) (Gen.u_to_euler_phases (α := α) R zI F) zI 1 = (Model.eulerPhases (R 0) (R 1) (R 2) (R 3)).2.1
      ∧ frdC (α := α) (Gen.u_to_euler_phases (α := α) R zI F) zI 2 = (Model.eulerPhases (R 0) (R 1) (R 2) (R 3)).2.2 :=
    gen_euler_phases R zI F
  simp only []
  rw [e0, e1]
  generalize Model.eulerPhases (R 0) (R 1) (R 2) (R 3) = E
  obtain ⟨z0, z1, z2⟩ := E
  simp only []
  -- the fill kernel reads `zₐpowers` as a function of the index; it agrees with the model's array on the indices used
  have ha : ∀ k : Nat, k ≤ L → frdC (α := α) (Gen.u_complex_powers (α := α) (fun _ => z0) (L : Int) aI 1 ((L : Int) + 1) imsqrt 4
        (Gen.Wigner_H (α := α) g h (L : Int) (P : Int) a b d z1 idW idV idX (Gen.u_to_euler_phases (α := α) R zI F))) aI (k : Int)
        = cget (cpowers z0 L imsqrt) k := fun k hk => gen_cpow_cell z0 L aI imsqrt _ k hk
  unfold Model.sYlmEntry
  by_cases hlow : (ell : Int) < (sw.natAbs : Int)
  · rw [if_pos hlow, fill_sYlm_low ell_min L P sw YI _ _ zgpow _ h0 ell m h1 (by omega) hsL hm1 hm2]
    rfl
  · rw [if_neg hlow, fill_sYlm_entry ell_min L P sw YI _ _ zgpow _ h0 ell m (by omega) (by omega) hm1 hm2]
    simp only []
    have hz1 : (⟨z1.re, z1.im⟩ : Cx α) = z1 := rfl
    rw [hat_gen L P z1.re z1.im a b d g h ht (Gen.u_to_euler_phases (α := α) R zI F) J ell m (-sw) hl hm1 hm2 (by omega) (by omega) (by omega)]
    by_cases hm : m < 0
    · have e : (-m) = (((-m).toNat : Nat) : Int) := by omega
      simp only [hm, if_true]
      rw [e, ha _ (by omega)]
      simp only [Int.toNat_natCast]
      try rfl
    · have e : m = ((m.toNat : Nat) : Int) := by omega
      simp only [hm, if_false]
      rw [e, ha _ (by omega)]
      simp only [Int.toNat_natCast]
      try rfl

/-- `Wigner.evaluate(modes, R, horner=True)` for one row of weights and one rotor -/
def wignerEval (L P : Nat) (sw : Int) (ellMax : Nat) (zI fvI : Nat) (a b d g h : Int → α) (cpowi : Cx α → Int → Cx α) (ncols : Int)
    (farr : Array (Cx α)) (R : Int → α) (st : φ) : φ :=
  let st1 := Gen.u_to_euler_phases (α := α) R zI st
  let z0 := frdC (α := α) st1 zI 0
  let z1 := frdC (α := α) st1 zI 1
  let z2 := frdC (α := α) st1 zI 2
  let stH := Gen.Wigner_H (α := α) g h (L : Int) (P : Int) a b d z1 idW idV idX st1
  Gen.u_evaluate_Horner (α := α) (fun i => Model.cget farr i.toNat) fvI 0 (L : Int) (P : Int) 0 (ellMax : Int) sw
    (fun i => frd (α := α) stH idW i) z0 z2 1 ncols cpowi stH

theorem gen_evaluate_chain (L P : Nat) (sw : Int) (ellMax : Nat) (zI fvI : Nat) (a b d g h : Int → α) (ht : TabOK L a b d g h)
    (cpowi : Cx α → Int → Cx α) (ncols : Int) (farr : Array (Cx α)) (R : Int → α) (F : φ) (J : Loc → α)
    (hsP : sw.natAbs ≤ P) (hM : ellMax ≤ L) :
    ∃ prev : Cx α, frdC (α := α) (wignerEval L P sw ellMax zI fvI a b d g h cpowi ncols farr R F) fvI 0
      = Model.objEvalH (α := α) L P (⟨Gen.u_to_euler_phases (α := α) R zI F, J⟩ : Hyb L P φ α) (R 0) (R 1) (R 2) (R 3)
          (cpowi (Cx.conj (Model.eulerPhases (R 0) (R 1) (R 2) (R 3)).2.2) sw) farr sw ellMax prev := by
  unfold wignerEval Model.objEvalH
  obtain ⟨e0, e1, e2⟩ : frdC (α := α) (Gen.u_to_euler_phases (α := α) R zI F) zI 0 = (Model.eulerPhases (R 0) (R 1) (R 2) (R 3)).1
      ∧ frdC (α := α) (Gen.u_to_euler_phases (α := α) R zI F) zI 1 = (Model.eulerPhases (R 0) (R 1) (R 2) (R 3)).2.1
      ∧ frdC (α := α) (Gen.u_to_euler_phases (α := α) R zI F) zI 2 = (Model.eulerPhases (R 0) (R 1) (R 2) (R 3)).2.2 :=
    gen_euler_phases R zI F
  simp only []
  rw [e0, e1, e2]
  generalize Model.eulerPhases (R 0) (R 1) (R 2) (R 3) = E
  obtain ⟨z0, z1, z2⟩ := E
  simp only []
  exact ⟨_, gen_evaluate_row L P fvI z1.re z1.im a b d g h ht farr z0 z2 sw ellMax ncols cpowi _ J hsP hM⟩

/-- `Wigner.rotate(modes, R, horner=True)` for one row of weights -/
def wignerRot (L : Nat) (sw : Int) (ellMax : Nat) (zI flnI nT pT : Nat) (a b d g h : Int → α) (cpowi : Cx α → Int → Cx α) (ncn nc : Int)
    (farr : Array (Cx α)) (R : Int → α) (st : φ) : φ :=
  let st1 := Gen.u_to_euler_phases (α := α) R zI st
  let z0 := frdC (α := α) st1 zI 0
  let z1 := frdC (α := α) st1 zI 1
  let z2 := frdC (α := α) st1 zI 2
  let stH := Gen.Wigner_H (α := α) g h (L : Int) (L : Int) a b d z1 idW idV idX st1
  Gen.u_rotate_Horner (α := α) (fun i => Model.cget farr i.toNat) flnI 0 (L : Int) (L : Int) 0 (ellMax : Int) sw
    (fun i => frd (α := α) stH idW i) z0 z2 nT pT 1 1 ncn nc cpowi stH

theorem gen_rotate_chain (L : Nat) (sw : Int) (ellMax : Nat) (zI flnI nT pT : Nat) (a b d g h : Int → α) (ht : TabOK L a b d g h)
    (cpowi : Cx α → Int → Cx α) (ncn nc : Int) (farr : Array (Cx α)) (R : Int → α) (F : φ) (J : Loc → α)
    (h1 : nT ≠ pT) (h2 : flnI ≠ nT) (h3 : flnI ≠ pT) (hM : ellMax ≤ L)
    (n : Nat) (m : Int) (hsn : sw.natAbs ≤ n) (hn : n ≤ ellMax) (hm1 : -(n : Int) ≤ m) (hm2 : m ≤ n) :
    frdC (α := α) (wignerRot L sw ellMax zI flnI nT pT a b d g h cpowi ncn nc farr R F) flnI ((n : Int) * ((n : Int) + 1) + m)
      = Model.objRotH (α := α) L (⟨Gen.u_to_euler_phases (α := α) R zI F, J⟩ : Hyb L L φ α) (R 0) (R 1) (R 2) (R 3)
          (cpowi (Model.eulerPhases (R 0) (R 1) (R 2) (R 3)).2.2) farr sw n m := by
  unfold wignerRot Model.objRotH
  obtain ⟨e0, e1, e2⟩ : frdC (α := α) (Gen.u_to_euler_phases (α := α) R zI F) zI 0 = (Model.eulerPhases (R 0) (R 1) (R 2) (R 3)).1
      ∧ frdC (α := α) (Gen.u_to_euler_phases (α := α) R zI F) zI 1 = (Model.eulerPhases (R 0) (R 1) (R 2) (R 3)).2.1
      ∧ frdC (α := α) (Gen.u_to_euler_phases (α := α) R zI F) zI 2 = (Model.eulerPhases (R 0) (R 1) (R 2) (R 3)).2.2 :=
    gen_euler_phases R zI F
  simp only []
  rw [e0, e1, e2]
  generalize Model.eulerPhases (R 0) (R 1) (R 2) (R 3) = E
  obtain ⟨z0, z1, z2⟩ := E
  simp only []
  have hlow : ¬ (n < sw.natAbs) := by omega
  rw [if_neg hlow]
  exact gen_rotate_row L flnI nT pT z1.re z1.im a b d g h ht farr z0 z2 sw ellMax ncn nc cpowi _ J h1 h2 h3 hM n m hsn hn hm1 hm2
end

/-- **`Wigner.sYlm` from the source of its kernels = (−1)^s √((2ℓ+1)/4π) · 𝔇^ℓ_{m,−s}(documented)** (exact reals, every unit quaternion,
    every `|s| ≤ mp_max`, every `ell_min ≤ ℓ ≤ ell_max`, `ℓ ≥ |s|`) -/
theorem gen_Y_chain_doc {φ : Type} [FMem φ ℝ] [LawfulFMem φ ℝ] (L P : Nat) (ell_min sw : Int) (zI aI YI : Nat)
    (a b d g h : Int → ℝ) (ht : TabOK L a b d g h) (imsqrt : Cx ℝ → ℝ)
    (hs : ∀ w : Cx ℝ, w.re ^ 2 + w.im ^ 2 = 1 → 2 * (imsqrt w) ^ 2 = 1 - w.re) (zgpow : Cx ℝ)
    (R : Int → ℝ) (hR : R 0 ^ 2 + R 1 ^ 2 + R 2 ^ 2 + R 3 ^ 2 = 1)
    (hY : CPow.toC zgpow = CPow.toC (Model.eulerPhases (R 0) (R 1) (R 2) (R 3)).2.2 ^ sw.natAbs) (F : φ) (h0 : 0 ≤ ell_min)
    (hsP : sw.natAbs ≤ P) (ell : Nat) (m : Int) (h1 : ell_min ≤ ell) (hl : ell ≤ L) (hsl : sw.natAbs ≤ ell) (hm : m.natAbs ≤ ell) :
    CPow.toC (frdC (α := ℝ) (wignerY L P ell_min sw zI aI YI a b d g h imsqrt zgpow R F) YI (Yindex (ell : Int) m ell_min))
      = (((-1) ^ sw.natAbs * Real.sqrt ((2 * (ell : ℝ) + 1) / (4 * Real.pi)) : ℝ) : ℂ)
          * DDef.docD ell (DDef.Ra (R 0) (R 3)) (DDef.Rb (R 1) (R 2)) m (-sw) := by
  rw [gen_Y_chain L P ell_min sw zI aI YI a b d g h ht imsqrt zgpow R F (fun _ => 0) h0 hsP (by omega) ell m h1 hl (by omega) (by omega)]
  exact DAll.sYlm_all L P _ (R 0) (R 1) (R 2) (R 3) hR imsqrt hs zgpow sw hY ell hl hsl hsP m hm

/-- **`Wigner.evaluate` from the source of its kernels = Σ_{ℓ,m} f_{ℓm} ₛY_{ℓm}(Q) with the documented harmonics** (exact reals, every
    unit quaternion, every spin `|s| ≤ mp_max`, every `ell_max ≤` the calculator's) -/
theorem gen_evaluate_chain_doc {φ : Type} [FMem φ ℝ] [LawfulFMem φ ℝ] (L P : Nat) (sw : Int) (ellMax : Nat) (zI fvI : Nat)
    (a b d g h : Int → ℝ) (ht : TabOK L a b d g h) (cpowi : Cx ℝ → Int → Cx ℝ) (ncols : Int) (farr : Array (Cx ℝ))
    (Q : Model.Quat ℝ) (hQ : Q.w ^ 2 + Q.x ^ 2 + Q.y ^ 2 + Q.z ^ 2 = 1) (F : φ) (hsP : sw.natAbs ≤ P) (hM : ellMax ≤ L)
    (hE : CPow.toC (cpowi (Cx.conj (Model.eulerPhases Q.w Q.x Q.y Q.z).2.2) sw)
        = (starRingEnd ℂ) (CPow.toC (Model.eulerPhases Q.w Q.x Q.y Q.z).2.2) ^ sw) :
    CPow.toC (frdC (α := ℝ) (wignerEval L P sw ellMax zI fvI a b d g h cpowi ncols farr
        (fun i => if i = 0 then Q.w else if i = 1 then Q.x else if i = 2 then Q.y else Q.z) F) fvI 0)
      = HomAll.evalW sw Q (HomAll.wts farr) ellMax := by
  obtain ⟨prev, hp⟩ := gen_evaluate_chain L P sw ellMax zI fvI a b d g h ht cpowi ncols farr
    (fun i => if i = 0 then Q.w else if i = 1 then Q.x else if i = 2 then Q.y else Q.z) F (fun _ => 0) hsP hM
  rw [hp]
  exact HomAll.evaluate_is_evalW L P _ Q hQ _ farr sw ellMax hM hsP prev hE

/-- **`Wigner.rotate` from the source of its kernels = f · 𝔇(documented)**: output weight (ℓ, m) is Σ_n f_{ℓ n} 𝔇^ℓ_{n m}(R) -/
theorem gen_rotate_chain_doc {φ : Type} [FMem φ ℝ] [LawfulFMem φ ℝ] (L : Nat) (sw : Int) (ellMax : Nat) (zI flnI nT pT : Nat)
    (a b d g h : Int → ℝ) (ht : TabOK L a b d g h) (cpowi : Cx ℝ → Int → Cx ℝ) (ncn nc : Int) (farr : Array (Cx ℝ))
    (R : Model.Quat ℝ) (hR : R.w ^ 2 + R.x ^ 2 + R.y ^ 2 + R.z ^ 2 = 1) (F : φ)
    (h1 : nT ≠ pT) (h2 : flnI ≠ nT) (h3 : flnI ≠ pT) (hM : ellMax ≤ L)
    (n : Nat) (m : Int) (hsn : sw.natAbs ≤ n) (hn : n ≤ ellMax) (hm : m.natAbs ≤ n)
    (hpow : CPow.toC (cpowi (Model.eulerPhases R.w R.x R.y R.z).2.2 m) = CPow.toC (Model.eulerPhases R.w R.x R.y R.z).2.2 ^ m) :
    CPow.toC (frdC (α := ℝ) (wignerRot L sw ellMax zI flnI nT pT a b d g h cpowi ncn nc farr
        (fun i => if i = 0 then R.w else if i = 1 then R.x else if i = 2 then R.y else R.z) F) flnI ((n : Int) * ((n : Int) + 1) + m))
      = HomAll.rot R (HomAll.wts farr) n m := by
  rw [gen_rotate_chain L sw ellMax zI flnI nT pT a b d g h ht cpowi ncn nc farr
    (fun i => if i = 0 then R.w else if i = 1 then R.x else if i = 2 then R.y else R.z) F (fun _ => 0) h1 h2 h3 hM n m hsn hn (by omega) (by omega)]
  exact HomAll.rotate_is_rot L _ R hR _ farr sw n (by omega) hsn m hm hpow

end GenChain
