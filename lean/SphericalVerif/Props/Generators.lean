import SphericalVerif.Lemmas.GeneratorsRS
/-! Generators — the model's differential operators are the infinitesimal generators of the rotations the model's
    `Wigner.rotate` / `Wigner.evaluate` compute (property C12, analytic part), for EVERY degree ℓ.

    Property theorems only; helpers live in `Lemmas/Generators.lean` (derivative of the documented D at the identity),
    `Lemmas/GeneratorsExp.lean` (linear ODE, exponential series), `Lemmas/GeneratorsR.lean` (right generators, first
    order), `Lemmas/GeneratorsModel.lean` (the ℂ-valued operators are the model's operators) and
    `Lemmas/GeneratorsRS.lean` (right generators, series on spin-graded families).

    Setting.  `HomAll.rot R f` (what the model of `Wigner.rotate` computes, `HomAll.rotate_is_rot`) and
    `HomAll.evalW s Q f ellMax` (what the model of `Wigner.evaluate` computes, `HomAll.evaluate_is_evalW`), with
    `HomAll.rot_evaluate`: evalW s Q (rot R f) = evalW s (R·Q) f.  Weights are functions (ℓ, m) ↦ ℂ; the weights of a
    model `Modes` object F are `mw F` (`Horner.toC` of `F.w`).  For a vector g = (·, g_x, g_y, g_z),
      `qexp g t` = cos t + g sin t        (the unit quaternion exp(t g) when |g| = 1; `qx`, `qy`, `qz` the unit vectors),
      `LzC`, `LpC`, `LmC`                 the cell formulas `C12.Lz_cell`, `C12.Lplus_cell`, `C12.Lminus_cell` over ℂ
                                          (`mw_Lz`, `mw_Lplus`, `mw_Lminus`: they ARE the model's operators),
      `LxC` = (L₊ + L₋)/2, `LyC` = (L₊ − L₋)/(2i), `LgC g` = g_x L_x + g_y L_y + g_z L_z,
      `RzC s`, `ethC s`, `ethbarC s`      the cell formulas `C12.Rz_cell`, `C12.eth_cell`, `C12.ethbar_cell` over ℂ for
                                          weights of spin weight s (`mw_Rz`, `mw_eth`, `mw_ethbar`).

    What is TRUE (constants, signs, orientations — they agree with the convention measured on the real code,
    f(exp(t g)·Q) = [exp(2i t L_g) f](Q) and f(Q·exp(t g)) = [exp(2i t R_g) f](Q)):
    1. derivative at the identity, every ℓ, |n|, |m| ≤ ℓ:
       * `docD_deriv_zero`      d/dt 𝔇^ℓ_{n,m}(exp(t g)) |₀ = `dGen ℓ (i g_z) (g_y + i g_x) n m`: the tridiagonal matrix with
                                diagonal 2i g_z n, entry (n, n−1): i(g_x + i g_y) √((ℓ+n)(ℓ−n+1)),
                                entry (n, n+1): i(g_x − i g_y) √((ℓ−n)(ℓ+n+1))
       * `left_deriv_zero`      d/dt (rot (exp(t g)) f)_{ℓm} |₀ = 2i (L_g f)_{ℓm}; `left_deriv_zero_x/_y/_z`: L_x, L_y, L_z.
    2. `qexp_group`, every t (|g| = 1):
       * `left_deriv`           d/dt rot(exp(t g)) f = 2i L_g (rot(exp(t g)) f)
       * `left_deriv'`          d/dt rot(exp(t g)) f = rot(exp(t g)) (2i L_g f);  `left_commute`: the two agree.
    3. the exponential series (|g| = 1, every real t):
       * `left_series`          Σ_k (2i t)^k/k! (L_g^k f)_{ℓm} = (rot(exp(t g)) f)_{ℓm}          (`HasSum`)
       * `left_exp`             (rot(exp(t g)) f)_ℓ = exp(t·𝔏)(f_ℓ), 𝔏 = `genS g ℓ` = 2i L_g on the degree (`NormedSpace.exp`)
       * `left_z_closed_form`   (rot(exp(t z)) f)_{ℓm} = e^{2imt} f_{ℓm}: an independent check of the constant and sign
       * `left_series_eval`     Σ_k (2i t)^k/k! evalW s Q (L_g^k f) = evalW s (exp(t g)·Q) f    — C12, left generators
       * `left_series_model`    the same for a sequence of model `Modes` objects F_k with
                                F_{k+1} = g_x (L₊F_k + L₋F_k)/2 + g_y (L₊F_k − L₋F_k)/(2i) + g_z Lz F_k cell by cell
                                (`Lplus`, `Lminus`, `Lz` the MODEL's operators);  `left_series_model_z`: the iterates of
                                the model's `Lz` themselves.
    4. right generators, first order:
       * `Ylm_right_deriv_zero` d/dt ₛY_{ℓm}(Q·exp(t g)) |₀ in terms of ₛ₋₁Y, ₛ₊₁Y, ₛY
       * `right_deriv_zero`     d/dt evalW s (Q·exp(t g)) f |₀ = 2i [g_x (E₋(ethbar f) − E₊(eth f))/2
                                + g_y i (E₊(eth f) + E₋(ethbar f))/2 + g_z E(Rz f)], E_± the evaluation with spin s ± 1:
                                R_x = (ethbar − eth)/2, R_y = i(eth + ethbar)/2, R_z = Rz
       * `right_deriv_zero_model` the same with the model's `eth`, `ethbar`, `Rz` applied to a `Modes` object.
    5. the exponential series of the right generators.  The k-th term has components of spin weights s−k … s+k, so the
       statement is about spin-GRADED families G : (σ, ℓ, m) ↦ ℂ, `evalG Q G L` = Σ_σ evalW σ Q (G σ) L
       (`evalG_as_sum`; a family of one spin weight: `single s f`, `evalG_of_single`), and
       `RgG g` = g_x (ethbar − eth)/2 + g_y i (eth + ethbar)/2 + g_z Rz on graded families (component σ of the result:
       `ethbarC (σ+1)` of component σ+1, `ethC (σ−1)` of component σ−1, `RzC σ` of component σ; `RgG_is_model`: these are
       the model's `ethbar`, `eth`, `Rz` on a spin-indexed collection of `Modes` objects):
       * `Ylm_right_series`     σY_{ℓm}(Q·exp(t g)) = Σ_k (2i t)^k/k! [R_g^k (σ' ↦ σ'Y_{ℓm}(Q))](σ), R_g acting on the spin index
                                of the harmonics (`RhC`, the transpose of `RgG`: `right_transpose`)
       * `right_series_graded`  Σ_k (2i t)^k/k! evalG Q (R_g^k G) L = evalG (Q·exp(t g)) G L
       * `right_series_eval`    for f of spin weight s: Σ_k (2i t)^k/k! evalG Q (R_g^k (single s f)) L = evalW s (Q·exp(t g)) f L
                                — C12, right generators
       * `right_series_model`   the same for a sequence of spin-indexed collections of model `Modes` objects with
                                F_{k+1} = R_g F_k cell by cell (the model's `eth`, `ethbar`, `Rz`). -/
noncomputable section
namespace Generators
open Model Model.Ops DDef DHom HomAll Horner
open scoped ComplexConjugate Nat

/-! ### 1. the derivative at the identity -/

/-- d/dt 𝔇^ℓ_{n,m}(exp(t g)) at t = 0, every ℓ, |n|, |m| ≤ ℓ, any vector g -/
theorem docD_deriv_zero (g : Quat ℝ) (ℓ : ℕ) (n m : ℤ) (hn : n.natAbs ≤ ℓ) (hm : m.natAbs ≤ ℓ) :
    HasDerivAt (fun t => docD ℓ (QA (qexp g t)) (QB (qexp g t)) n m)
      (dGen ℓ ((g.z : ℂ) * Complex.I) ((g.y : ℂ) + (g.x : ℂ) * Complex.I) n m) 0 :=
  docD_hasDerivAt_zero ℓ _ _ _ _ (by rw [qexp_zero, QA_one]) (by rw [qexp_zero, QB_one]) (QA_qexp_hasDerivAt g)
    (QB_qexp_hasDerivAt g) n m hn hm

/-- the entries of the matrix of `docD_deriv_zero`: diagonal 2i g_z n; at (n, n−1): (i g_x − g_y) √((ℓ+n)(ℓ−n+1))
    = 2i (g_x + i g_y)/2 · √…; at (n, n+1): (i g_x + g_y) √((ℓ−n)(ℓ+n+1)) = 2i (g_x − i g_y)/2 · √…; zero elsewhere -/
theorem dGen_entries (g : Quat ℝ) (ℓ : ℕ) (n m : ℤ) :
    dGen ℓ ((g.z : ℂ) * Complex.I) ((g.y : ℂ) + (g.x : ℂ) * Complex.I) n m
      = (if n = m then 2 * Complex.I * ((g.z : ℂ) * n) else 0)
         + (if n = m + 1 then (Complex.I * (g.x : ℂ) - g.y) * sqrtC (((ℓ : ℝ) + n) * (ℓ - n + 1)) else 0)
         + (if n = m - 1 then (Complex.I * (g.x : ℂ) + g.y) * sqrtC (((ℓ : ℝ) - n) * (ℓ + n + 1)) else 0) := by
  unfold dGen
  simp only [map_mul, map_add, Complex.conj_ofReal, Complex.conj_I]
  split_ifs <;> ring

/-- **left generators, first order**: d/dt (rot(exp(t g)) f)_{ℓm} at t = 0 is 2i (L_g f)_{ℓm}; any vector g -/
theorem left_deriv_zero (g : Quat ℝ) (f : ℕ → ℤ → ℂ) (ℓ : ℕ) (m : ℤ) (hm : m.natAbs ≤ ℓ) :
    HasDerivAt (fun t => rot (qexp g t) f ℓ m) (2 * Complex.I * LgC g f ℓ m) 0 :=
  rot_qexp_hasDerivAt_zero g f ℓ m hm

/-- g = x: exp(t x) = (cos t, sin t, 0, 0), generator L_x = (L₊ + L₋)/2 -/
theorem left_deriv_zero_x (f : ℕ → ℤ → ℂ) (ℓ : ℕ) (m : ℤ) (hm : m.natAbs ≤ ℓ) :
    HasDerivAt (fun t => rot ⟨Real.cos t, Real.sin t, 0, 0⟩ f ℓ m)
      (2 * Complex.I * ((LpC f ℓ m + LmC f ℓ m) / 2)) 0 := by
  have h := left_deriv_zero qx f ℓ m hm
  rw [LgC_qx] at h
  simpa [qexp, qx, LxC] using h

/-- g = y: exp(t y) = (cos t, 0, sin t, 0), generator L_y = (L₊ − L₋)/(2i) -/
theorem left_deriv_zero_y (f : ℕ → ℤ → ℂ) (ℓ : ℕ) (m : ℤ) (hm : m.natAbs ≤ ℓ) :
    HasDerivAt (fun t => rot ⟨Real.cos t, 0, Real.sin t, 0⟩ f ℓ m)
      (2 * Complex.I * ((LpC f ℓ m - LmC f ℓ m) / (2 * Complex.I))) 0 := by
  have h := left_deriv_zero qy f ℓ m hm
  rw [LgC_qy] at h
  simpa [qexp, qy, LyC] using h

/-- g = z: exp(t z) = (cos t, 0, 0, sin t), generator L_z: (L_z f)_{ℓm} = m f_{ℓm} -/
theorem left_deriv_zero_z (f : ℕ → ℤ → ℂ) (ℓ : ℕ) (m : ℤ) (hm : m.natAbs ≤ ℓ) :
    HasDerivAt (fun t => rot ⟨Real.cos t, 0, 0, Real.sin t⟩ f ℓ m) (2 * Complex.I * ((m : ℂ) * f ℓ m)) 0 := by
  have h := left_deriv_zero qz f ℓ m hm
  rw [LgC_qz] at h
  simpa [qexp, qz, LzC] using h

/-- the ℂ-valued ladder operators are the model's: for a `Modes` object F and a cell |s| ≤ ℓ ≤ ell_max, |m| ≤ ℓ -/
theorem model_left_operators (F : Modes ℝ) {ℓ : ℕ} {m : ℤ} (h1 : F.s.natAbs ≤ ℓ) (h2 : ℓ ≤ F.ellMax)
    (hm : m.natAbs ≤ ℓ) :
    mw (Lz F) ℓ m = LzC (mw F) ℓ m ∧ mw (Lplus F) ℓ m = LpC (mw F) ℓ m ∧ mw (Lminus F) ℓ m = LmC (mw F) ℓ m :=
  ⟨mw_Lz F h1 h2 hm, mw_Lplus F h1 h2 hm, mw_Lminus F h1 h2 hm⟩

/-- first order, in terms of the model's operators applied to a `Modes` object -/
theorem left_deriv_zero_model (g : Quat ℝ) (F : Modes ℝ) {ℓ : ℕ} {m : ℤ} (h1 : F.s.natAbs ≤ ℓ) (h2 : ℓ ≤ F.ellMax)
    (hm : m.natAbs ≤ ℓ) :
    HasDerivAt (fun t => rot (qexp g t) (mw F) ℓ m)
      (2 * Complex.I * ((g.x : ℂ) * ((mw (Lplus F) ℓ m + mw (Lminus F) ℓ m) / 2)
        + (g.y : ℂ) * ((mw (Lplus F) ℓ m - mw (Lminus F) ℓ m) / (2 * Complex.I))
        + (g.z : ℂ) * mw (Lz F) ℓ m)) 0 := by
  rw [mw_Lz F h1 h2 hm, mw_Lplus F h1 h2 hm, mw_Lminus F h1 h2 hm]
  exact left_deriv_zero g (mw F) ℓ m hm

/-! ### 2. the one-parameter groups; the derivative at every t -/

/-- exp((t+u) g) = exp(t g)·exp(u g) for a unit vector g -/
theorem qexp_group (g : Quat ℝ) (hg : g.x ^ 2 + g.y ^ 2 + g.z ^ 2 = 1) (t u : ℝ) :
    qexp g (t + u) = qmul (qexp g t) (qexp g u) :=
  qexp_add g hg t u

/-- exp(t g) is a unit quaternion; exp(0 g) = 1 -/
theorem qexp_unit_one (g : Quat ℝ) (hg : g.x ^ 2 + g.y ^ 2 + g.z ^ 2 = 1) (t : ℝ) :
    (qexp g t).w ^ 2 + (qexp g t).x ^ 2 + (qexp g t).y ^ 2 + (qexp g t).z ^ 2 = 1 ∧ qexp g 0 = qone :=
  ⟨qexp_unit g hg t, qexp_zero g⟩

/-- **the ODE**: d/dt rot(exp(t g)) f = 2i L_g (rot(exp(t g)) f) at every t -/
theorem left_deriv (g : Quat ℝ) (hg : g.x ^ 2 + g.y ^ 2 + g.z ^ 2 = 1) (f : ℕ → ℤ → ℂ) (ℓ : ℕ) (m : ℤ)
    (hm : m.natAbs ≤ ℓ) (t : ℝ) :
    HasDerivAt (fun t => rot (qexp g t) f ℓ m) (2 * Complex.I * LgC g (rot (qexp g t) f) ℓ m) t :=
  rot_qexp_hasDerivAt g hg f ℓ m hm t

/-- d/dt rot(exp(t g)) f = rot(exp(t g)) (2i L_g f) at every t -/
theorem left_deriv' (g : Quat ℝ) (hg : g.x ^ 2 + g.y ^ 2 + g.z ^ 2 = 1) (f : ℕ → ℤ → ℂ) (ℓ : ℕ) (m : ℤ)
    (hm : m.natAbs ≤ ℓ) (t : ℝ) :
    HasDerivAt (fun t => rot (qexp g t) f ℓ m) (rot (qexp g t) (fun ℓ n => 2 * Complex.I * LgC g f ℓ n) ℓ m) t :=
  rot_qexp_hasDerivAt' g hg f ℓ m hm t

/-- L_g commutes with the rotations exp(t g) of its own one-parameter group -/
theorem left_commute (g : Quat ℝ) (hg : g.x ^ 2 + g.y ^ 2 + g.z ^ 2 = 1) (f : ℕ → ℤ → ℂ) (ℓ : ℕ) (m : ℤ)
    (hm : m.natAbs ≤ ℓ) (t : ℝ) :
    LgC g (rot (qexp g t) f) ℓ m = rot (qexp g t) (LgC g f) ℓ m :=
  LgC_rot_comm g hg f ℓ m hm t

/-! ### 3. the exponential series of the left generators -/

/-- Σ_k (2i t)^k / k! · (L_g^k f)_{ℓm} = (rot(exp(t g)) f)_{ℓm} -/
theorem left_series (g : Quat ℝ) (hg : g.x ^ 2 + g.y ^ 2 + g.z ^ 2 = 1) (f : ℕ → ℤ → ℂ) (ℓ : ℕ) (m : ℤ)
    (hm : m.natAbs ≤ ℓ) (t : ℝ) :
    HasSum (fun k : ℕ => (2 * Complex.I * (t : ℂ)) ^ k / (k ! : ℂ) * (LgC g)^[k] f ℓ m) (rot (qexp g t) f ℓ m) :=
  rot_qexp_hasSum g hg f ℓ m hm t

/-- the degree-ℓ weights rotated by exp(t g) are exp(t 𝔏) applied to the degree-ℓ weights, 𝔏 = 2i L_g restricted to
    the degree (`genS_on`), `NormedSpace.exp` in the Banach algebra of continuous linear maps of `Blk ℓ → ℂ` -/
theorem left_exp (g : Quat ℝ) (hg : g.x ^ 2 + g.y ^ 2 + g.z ^ 2 = 1) (f : ℕ → ℤ → ℂ) (ℓ : ℕ) (t : ℝ) :
    res (rot (qexp g t) f) ℓ = NormedSpace.exp (t • genS g ℓ) (res f ℓ) :=
  rot_qexp_eq_exp g hg f ℓ t

/-- what `genS g ℓ` is: 2i L_g on the weights of degree ℓ -/
theorem genS_on (g : Quat ℝ) (ℓ : ℕ) (f : ℕ → ℤ → ℂ) (i : Blk ℓ) :
    genS g ℓ (res f ℓ) i = 2 * Complex.I * LgC g f ℓ i.1 := by
  rw [genS_res]
  rfl

/-- **C12, left generators**: summing the exponential series of 2i t L_g applied to f and evaluating at Q gives f
    evaluated at exp(t g)·Q -/
theorem left_series_eval (g : Quat ℝ) (hg : g.x ^ 2 + g.y ^ 2 + g.z ^ 2 = 1) (f : ℕ → ℤ → ℂ) (s : ℤ) (Q : Quat ℝ)
    (ellMax : ℕ) (t : ℝ) :
    HasSum (fun k : ℕ => (2 * Complex.I * (t : ℂ)) ^ k / (k ! : ℂ) * evalW s Q ((LgC g)^[k] f) ellMax)
      (evalW s (qmul (qexp g t) Q) f ellMax) :=
  evalW_qexp_hasSum g hg f s Q ellMax t

/-- the same for model objects: F_0, F_1, … any sequence of `Modes` objects (same spin weight s, same ell_max L) with
    F_{k+1} = g_x (L₊F_k + L₋F_k)/2 + g_y (L₊F_k − L₋F_k)/(2i) + g_z Lz F_k on the cells |s| ≤ ℓ ≤ L, |m| ≤ ℓ, where
    `Lplus`, `Lminus`, `Lz` are the MODEL's operators -/
theorem left_series_model (g : Quat ℝ) (hg : g.x ^ 2 + g.y ^ 2 + g.z ^ 2 = 1) (F : ℕ → Modes ℝ) (s : ℤ) (L : ℕ)
    (hs : ∀ k, (F k).s = s) (hL : ∀ k, (F k).ellMax = L)
    (hstep : ∀ (k ℓ : ℕ) (m : ℤ), s.natAbs ≤ ℓ → ℓ ≤ L → m.natAbs ≤ ℓ →
      mw (F (k + 1)) ℓ m = (g.x : ℂ) * ((mw (Lplus (F k)) ℓ m + mw (Lminus (F k)) ℓ m) / 2)
        + (g.y : ℂ) * ((mw (Lplus (F k)) ℓ m - mw (Lminus (F k)) ℓ m) / (2 * Complex.I))
        + (g.z : ℂ) * mw (Lz (F k)) ℓ m)
    (Q : Quat ℝ) (t : ℝ) :
    HasSum (fun k : ℕ => (2 * Complex.I * (t : ℂ)) ^ k / (k ! : ℂ) * evalW s Q (mw (F k)) L)
      (evalW s (qmul (qexp g t) Q) (mw (F 0)) L) := by
  have h := left_series_eval g hg (mw (F 0)) s Q L t
  have e : ∀ k : ℕ, evalW s Q (mw (F k)) L = evalW s Q ((LgC g)^[k] (mw (F 0))) L := fun k =>
    evalW_congr s Q _ _ L (fun ℓ h1 h2 m hm => tracked_cells g F s L hs hL hstep k ℓ h1 h2 m hm)
  simp only [e]
  exact h

/-- g = z with the iterates of the model's `Lz` itself -/
theorem left_series_model_z (F : Modes ℝ) (Q : Quat ℝ) (t : ℝ) :
    HasSum (fun k : ℕ => (2 * Complex.I * (t : ℂ)) ^ k / (k ! : ℂ) * evalW F.s Q (mw (Lz^[k] F)) F.ellMax)
      (evalW F.s (qmul ⟨Real.cos t, 0, 0, Real.sin t⟩ Q) (mw F) F.ellMax) := by
  have h := left_series_eval qz (by simp [qz]) (mw F) F.s Q F.ellMax t
  have e : ∀ k : ℕ, evalW F.s Q (mw (Lz^[k] F)) F.ellMax = evalW F.s Q ((LgC qz)^[k] (mw F)) F.ellMax := fun k =>
    evalW_congr F.s Q _ _ F.ellMax (fun ℓ h1 h2 m hm => mw_Lz_iterate F k ℓ h1 h2 m hm)
  simp only [e]
  simpa [qexp, qz] using h

/-- an independent check of the constant 2i and of the sign: the z rotation in closed form,
    (rot(exp(t z)) f)_{ℓm} = e^{2 i m t} f_{ℓm} — the sum of the series of `left_series` for g = z -/
theorem left_z_closed_form (f : ℕ → ℤ → ℂ) (ℓ : ℕ) (m : ℤ) (hm : m.natAbs ≤ ℓ) (t : ℝ) :
    rot ⟨Real.cos t, 0, 0, Real.sin t⟩ f ℓ m = Complex.exp (2 * Complex.I * (m : ℂ) * (t : ℂ)) * f ℓ m := by
  have h := rot_qexp_z f ℓ m hm t
  simpa [qexp, qz] using h

/-! ### 4. the right generators, first order -/

/-- d/dt ₛY_{ℓm}(Q·exp(t g)) at t = 0, |m| ≤ ℓ, |s| ≤ ℓ (`dYlm`: 2i × [g_x (−√((ℓ+s)(ℓ−s+1)) ₛ₋₁Y − √((ℓ−s)(ℓ+s+1)) ₛ₊₁Y)/2
    + g_y i (√((ℓ−s)(ℓ+s+1)) ₛ₊₁Y − √((ℓ+s)(ℓ−s+1)) ₛ₋₁Y)/2 − g_z s ₛY]) -/
theorem Ylm_right_deriv_zero (g : Quat ℝ) (s : ℤ) (Q : Quat ℝ) (ℓ : ℕ) (m : ℤ) (hm : m.natAbs ≤ ℓ)
    (hs : s.natAbs ≤ ℓ) :
    HasDerivAt (fun t => Ylm s (qmul Q (qexp g t)) ℓ m)
      (2 * Complex.I *
        ((g.x : ℂ) * ((-(sqrtC (((ℓ : ℝ) + s) * (ℓ - s + 1)) * Ylm (s - 1) Q ℓ m)
            - sqrtC (((ℓ : ℝ) - s) * (ℓ + s + 1)) * Ylm (s + 1) Q ℓ m) / 2)
         + (g.y : ℂ) * (Complex.I * (sqrtC (((ℓ : ℝ) - s) * (ℓ + s + 1)) * Ylm (s + 1) Q ℓ m
            - sqrtC (((ℓ : ℝ) + s) * (ℓ - s + 1)) * Ylm (s - 1) Q ℓ m) / 2)
         + (g.z : ℂ) * (-(s : ℂ) * Ylm s Q ℓ m))) 0 :=
  Ylm_right_hasDerivAt_zero g s Q ℓ m hm hs

/-- **right generators, first order**: d/dt f(Q·exp(t g)) at t = 0 is 2i × the evaluation of R_g f, with
    R_x = (ethbar − eth)/2, R_y = i (eth + ethbar)/2, R_z = Rz; `eth f` is evaluated with spin weight s + 1,
    `ethbar f` with s − 1.  Any vector g, any quaternion Q. -/
theorem right_deriv_zero (g : Quat ℝ) (s : ℤ) (Q : Quat ℝ) (f : ℕ → ℤ → ℂ) (ellMax : ℕ) :
    HasDerivAt (fun t => evalW s (qmul Q (qexp g t)) f ellMax)
      (2 * Complex.I *
        ((g.x : ℂ) * ((evalW (s - 1) Q (ethbarC s f) ellMax - evalW (s + 1) Q (ethC s f) ellMax) / 2)
         + (g.y : ℂ) * (Complex.I * (evalW (s + 1) Q (ethC s f) ellMax + evalW (s - 1) Q (ethbarC s f) ellMax) / 2)
         + (g.z : ℂ) * evalW s Q (RzC s f) ellMax)) 0 :=
  evalW_right_hasDerivAt_zero g s Q f ellMax

/-- the ℂ-valued right operators are the model's, on the cells the evaluation reads -/
theorem model_right_operators (F : Modes ℝ) {ℓ : ℕ} {m : ℤ} (h2 : ℓ ≤ F.ellMax) (hm : m.natAbs ≤ ℓ) :
    (F.s.natAbs ≤ ℓ → mw (Rz F) ℓ m = RzC F.s (mw F) ℓ m) ∧
    mw (eth F) ℓ m = ethC F.s (mw F) ℓ m ∧ (eth F).s = F.s + 1 ∧
    mw (ethbar F) ℓ m = ethbarC F.s (mw F) ℓ m ∧ (ethbar F).s = F.s - 1 :=
  ⟨fun h1 => mw_Rz F m h1, mw_eth F h2 hm, rfl, mw_ethbar F h2 hm, rfl⟩

/-- `right_deriv_zero` with the MODEL's `eth`, `ethbar`, `Rz` applied to a `Modes` object F (each evaluated with its
    own spin weight and F's ell_max) -/
theorem right_deriv_zero_model (g : Quat ℝ) (F : Modes ℝ) (Q : Quat ℝ) :
    HasDerivAt (fun t => evalW F.s (qmul Q (qexp g t)) (mw F) F.ellMax)
      (2 * Complex.I *
        ((g.x : ℂ) * ((evalW (ethbar F).s Q (mw (ethbar F)) F.ellMax - evalW (eth F).s Q (mw (eth F)) F.ellMax) / 2)
         + (g.y : ℂ) * (Complex.I * (evalW (eth F).s Q (mw (eth F)) F.ellMax
            + evalW (ethbar F).s Q (mw (ethbar F)) F.ellMax) / 2)
         + (g.z : ℂ) * evalW (Rz F).s Q (mw (Rz F)) F.ellMax)) 0 := by
  have e1 : evalW (eth F).s Q (mw (eth F)) F.ellMax = evalW (F.s + 1) Q (ethC F.s (mw F)) F.ellMax :=
    evalW_congr (F.s + 1) Q _ _ F.ellMax (fun ℓ _ h2 m hm => mw_eth F h2 hm)
  have e2 : evalW (ethbar F).s Q (mw (ethbar F)) F.ellMax = evalW (F.s - 1) Q (ethbarC F.s (mw F)) F.ellMax :=
    evalW_congr (F.s - 1) Q _ _ F.ellMax (fun ℓ _ h2 m hm => mw_ethbar F h2 hm)
  have e3 : evalW (Rz F).s Q (mw (Rz F)) F.ellMax = evalW F.s Q (RzC F.s (mw F)) F.ellMax :=
    evalW_congr F.s Q _ _ F.ellMax (fun ℓ h1 _ m _ => mw_Rz F m h1)
  rw [e1, e2, e3]
  exact right_deriv_zero g F.s Q (mw F) F.ellMax

/-! ### 5. the exponential series of the right generators -/

/-- the series on the harmonics: for |m|, |σ| ≤ ℓ, with R_g (`RhC g`) acting on the spin index of the family
    (ℓ, σ') ↦ σ'Y_{ℓm}(Q) (`PhiC (rowD Q ℓ m)`, `harmonics_family`) -/
theorem Ylm_right_series (g : Quat ℝ) (hg : g.x ^ 2 + g.y ^ 2 + g.z ^ 2 = 1) (Q : Quat ℝ) (ℓ : ℕ) (m σ : ℤ)
    (hm : m.natAbs ≤ ℓ) (hσ : σ.natAbs ≤ ℓ) (t : ℝ) :
    HasSum (fun k : ℕ => (2 * Complex.I * (t : ℂ)) ^ k / (k ! : ℂ) * (RhC g)^[k] (PhiC (rowD Q ℓ m)) ℓ σ)
      (Ylm σ (qmul Q (qexp g t)) ℓ m) :=
  Ylm_right_hasSum g hg Q ℓ m σ hm hσ t

/-- the family the series of `Ylm_right_series` starts from, and the operator: 2i (R_g y)(ℓ, s) for
    y = (σ ↦ σY_{ℓm}(Q)) is the first derivative `Ylm_right_deriv_zero` -/
theorem harmonics_family (g : Quat ℝ) (Q : Quat ℝ) (ℓ : ℕ) (m s : ℤ) :
    PhiC (rowD Q ℓ m) ℓ s = Ylm s Q ℓ m ∧
    2 * Complex.I * RhC g (PhiC (rowD Q ℓ m)) ℓ s = dYlm g s Q ℓ m :=
  ⟨rfl, rfl⟩

/-- R_g on the harmonics is the transpose of R_g on graded weights (one degree ℓ, one m, σ = −ℓ … ℓ) -/
theorem right_transpose (g : Quat ℝ) (G : ℤ → ℕ → ℤ → ℂ) (z : ℕ → ℤ → ℂ) (ℓ : ℕ) (m : ℤ) :
    ∑ σ ∈ Finset.Icc (-(ℓ : ℤ)) ℓ, G σ ℓ m * RhC g z ℓ σ
      = ∑ σ ∈ Finset.Icc (-(ℓ : ℤ)) ℓ, RgG g G σ ℓ m * z ℓ σ :=
  pair_adjoint g G z ℓ m

/-- the graded evaluation is the sum over the spin weights of the model's evaluation of each component -/
theorem evalG_as_sum (Q : Quat ℝ) (G : ℤ → ℕ → ℤ → ℂ) (L : ℕ) :
    evalG Q G L = ∑ σ ∈ Finset.Icc (-(L : ℤ)) L, evalW σ Q (G σ) L :=
  evalG_eq_sum_evalW Q G L

/-- a family of one spin weight -/
theorem evalG_of_single (Q : Quat ℝ) (s : ℤ) (f : ℕ → ℤ → ℂ) (L : ℕ) : evalG Q (single s f) L = evalW s Q f L :=
  evalG_single Q s f L

/-- **the exponential series of the right generators on graded families** -/
theorem right_series_graded (g : Quat ℝ) (hg : g.x ^ 2 + g.y ^ 2 + g.z ^ 2 = 1) (G : ℤ → ℕ → ℤ → ℂ) (Q : Quat ℝ)
    (L : ℕ) (t : ℝ) :
    HasSum (fun k : ℕ => (2 * Complex.I * (t : ℂ)) ^ k / (k ! : ℂ) * evalG Q ((RgG g)^[k] G) L)
      (evalG (qmul Q (qexp g t)) G L) :=
  evalG_right_hasSum g hg G Q L t

/-- **C12, right generators**: summing the exponential series of 2i t R_g applied to f (spin weight s) and evaluating
    at Q — each component with its own spin weight — gives f evaluated at Q·exp(t g) -/
theorem right_series_eval (g : Quat ℝ) (hg : g.x ^ 2 + g.y ^ 2 + g.z ^ 2 = 1) (f : ℕ → ℤ → ℂ) (s : ℤ) (Q : Quat ℝ)
    (L : ℕ) (t : ℝ) :
    HasSum (fun k : ℕ => (2 * Complex.I * (t : ℂ)) ^ k / (k ! : ℂ)
        * ∑ σ ∈ Finset.Icc (-(L : ℤ)) L, evalW σ Q ((RgG g)^[k] (single s f) σ) L)
      (evalW s (qmul Q (qexp g t)) f L) := by
  have h := right_series_graded g hg (single s f) Q L t
  rw [evalG_of_single] at h
  simp only [evalG_as_sum] at h
  exact h

/-- R_g on a spin-indexed collection of model objects (the σ-th of spin weight σ, all of ell_max L) is the stated
    combination of the MODEL's `ethbar`, `eth`, `Rz`, on the cells |σ| ≤ ℓ ≤ L, |m| ≤ ℓ the evaluation reads -/
theorem RgG_is_model (g : Quat ℝ) (F : ℤ → Modes ℝ) (L : ℕ) (hs : ∀ σ, (F σ).s = σ) (hL : ∀ σ, (F σ).ellMax = L)
    (σ : ℤ) (ℓ : ℕ) (m : ℤ) (hσ : σ.natAbs ≤ ℓ) (hℓ : ℓ ≤ L) (hm : m.natAbs ≤ ℓ) :
    RgG g (GM F) σ ℓ m
      = (g.x : ℂ) * ((mw (ethbar (F (σ + 1))) ℓ m - mw (eth (F (σ - 1))) ℓ m) / 2)
        + (g.y : ℂ) * (Complex.I * (mw (eth (F (σ - 1))) ℓ m + mw (ethbar (F (σ + 1))) ℓ m) / 2)
        + (g.z : ℂ) * mw (Rz (F σ)) ℓ m :=
  RgG_model g F L hs hL σ ℓ m hσ hℓ hm

/-- the series for model objects: F_0, F_1, … spin-indexed collections of `Modes` objects (the σ-th of spin weight σ,
    all of ell_max L) with F_{k+1} = g_x (ethbar F_k − eth F_k)/2 + g_y i (eth F_k + ethbar F_k)/2 + g_z Rz F_k on the
    cells ℓ ≤ L, |m| ≤ ℓ, |σ| ≤ ℓ, where `eth`, `ethbar`, `Rz` are the MODEL's operators (the component σ of the
    result collects `ethbar` of the component σ+1 and `eth` of the component σ−1) -/
theorem right_series_model (g : Quat ℝ) (hg : g.x ^ 2 + g.y ^ 2 + g.z ^ 2 = 1) (F : ℕ → ℤ → Modes ℝ) (L : ℕ)
    (hs : ∀ k σ, (F k σ).s = σ) (hL : ∀ k σ, (F k σ).ellMax = L)
    (hstep : ∀ (k ℓ : ℕ) (m σ : ℤ), ℓ ≤ L → m.natAbs ≤ ℓ → σ.natAbs ≤ ℓ →
      mw (F (k + 1) σ) ℓ m
        = (g.x : ℂ) * ((mw (ethbar (F k (σ + 1))) ℓ m - mw (eth (F k (σ - 1))) ℓ m) / 2)
          + (g.y : ℂ) * (Complex.I * (mw (eth (F k (σ - 1))) ℓ m + mw (ethbar (F k (σ + 1))) ℓ m) / 2)
          + (g.z : ℂ) * mw (Rz (F k σ)) ℓ m)
    (Q : Quat ℝ) (t : ℝ) :
    HasSum (fun k : ℕ => (2 * Complex.I * (t : ℂ)) ^ k / (k ! : ℂ)
        * ∑ σ ∈ Finset.Icc (-(L : ℤ)) L, evalW σ Q (mw (F k σ)) L)
      (∑ σ ∈ Finset.Icc (-(L : ℤ)) L, evalW σ (qmul Q (qexp g t)) (mw (F 0 σ)) L) := by
  have h := right_series_graded g hg (GM (F 0)) Q L t
  have e : ∀ k : ℕ, evalG Q ((RgG g)^[k] (GM (F 0))) L = evalG Q (GM (F k)) L := fun k =>
    (evalG_congr Q _ _ L (fun ℓ hℓ m hm σ hσ => tracked_cells_right g F L hs hL hstep k ℓ hℓ m hm σ hσ)).symm
  simp only [e, evalG_as_sum] at h
  exact h

/-! ### instances: the statements have content and the hypotheses are satisfiable -/

/-- ℓ = 1, g = z, entry (1, 1) = R_a² = e^{2it}: derivative 2i -/
example : HasDerivAt (fun t => docD 1 (QA (qexp qz t)) (QB (qexp qz t)) 1 1) (2 * Complex.I) 0 := by
  have h := docD_deriv_zero qz 1 1 1 (by decide) (by decide)
  rw [dGen_entries] at h
  simpa [qz] using h

/-- ℓ = 1, g = x, entry (0, 1): derivative i√(1+1) (the L₋ coefficient √((1−0)(1+0+1)) times 2i · 1/2) -/
example : HasDerivAt (fun t => docD 1 (QA (qexp qx t)) (QB (qexp qx t)) 0 1) (Complex.I * sqrtC (1 + 1)) 0 := by
  have h := docD_deriv_zero qx 1 0 1 (by decide) (by decide)
  rw [dGen_entries] at h
  have e : ((1 : ℕ) : ℝ) - ((0 : ℤ) : ℝ) = 1 ∧ ((1 : ℕ) : ℝ) + ((0 : ℤ) : ℝ) + 1 = 2 := by norm_num
  simpa [qx, e.1, e.2] using h

/-- the hypotheses of `left_series_model` are satisfiable: g = z, F_k the iterates of the model's `Lz` -/
example (F0 : Modes ℝ) : ∃ F : ℕ → Modes ℝ, F 0 = F0 ∧ (∀ k, (F k).s = F0.s) ∧ (∀ k, (F k).ellMax = F0.ellMax) ∧
    ∀ (k ℓ : ℕ) (m : ℤ), F0.s.natAbs ≤ ℓ → ℓ ≤ F0.ellMax → m.natAbs ≤ ℓ →
      mw (F (k + 1)) ℓ m = (qz.x : ℂ) * ((mw (Lplus (F k)) ℓ m + mw (Lminus (F k)) ℓ m) / 2)
        + (qz.y : ℂ) * ((mw (Lplus (F k)) ℓ m - mw (Lminus (F k)) ℓ m) / (2 * Complex.I))
        + (qz.z : ℂ) * mw (Lz (F k)) ℓ m :=
  ⟨fun k => Lz^[k] F0, rfl, fun k => (Lz_iterate_meta F0 k).1, fun k => (Lz_iterate_meta F0 k).2,
    fun k ℓ m _ _ _ => by simp [qz, Function.iterate_succ_apply']⟩

/-- the hypotheses of `right_series_model` are satisfiable: g = z, F_{k+1} σ = Rz (F_k σ) -/
example (L : ℕ) : ∃ F : ℕ → ℤ → Modes ℝ, (∀ k σ, (F k σ).s = σ) ∧ (∀ k σ, (F k σ).ellMax = L) ∧
    ∀ (k ℓ : ℕ) (m σ : ℤ), ℓ ≤ L → m.natAbs ≤ ℓ → σ.natAbs ≤ ℓ →
      mw (F (k + 1) σ) ℓ m
        = (qz.x : ℂ) * ((mw (ethbar (F k (σ + 1))) ℓ m - mw (eth (F k (σ - 1))) ℓ m) / 2)
          + (qz.y : ℂ) * (Complex.I * (mw (eth (F k (σ - 1))) ℓ m + mw (ethbar (F k (σ + 1))) ℓ m) / 2)
          + (qz.z : ℂ) * mw (Rz (F k σ)) ℓ m := by
  have hmeta : ∀ (k : ℕ) (σ : ℤ), (Rz^[k] (⟨σ, L, fun _ _ => ⟨1, 0⟩⟩ : Modes ℝ)).s = σ ∧
      (Rz^[k] (⟨σ, L, fun _ _ => ⟨1, 0⟩⟩ : Modes ℝ)).ellMax = L := by
    intro k σ
    induction k with
    | zero => exact ⟨rfl, rfl⟩
    | succ k ih => rw [Function.iterate_succ_apply']; exact ih
  exact ⟨fun k σ => Rz^[k] ⟨σ, L, fun _ _ => ⟨1, 0⟩⟩, fun k σ => (hmeta k σ).1, fun k σ => (hmeta k σ).2,
    fun k ℓ m σ _ _ _ => by simp [qz, Function.iterate_succ_apply']⟩

end Generators
end
