import SphericalVerif.Lemmas.GDFamily
import SphericalVerif.Lemmas.HRefine6
import SphericalVerif.Lemmas.DDef
import SphericalVerif.Lemmas.DDef2
/-! GDFamily — the conditional identification theorem for the Wigner-H recursion, for EVERY degree.

    What is a fact about the CODE is proved; what is a fact of pure mathematics is a hypothesis.

    * The hypothesis `IsGDFamily c s H` (`Spec/GDFamily.lean`) is a statement about a family of real numbers
      `H n m' m`, |m'|, |m| ≤ n — the mathematical H^{m',m}_n(β), cos β = c, sin β = s — and nothing else: the two
      symmetries (S), the m' = 0 column (0), relation (41) and relation (50) of Gumerov–Duraiswami
      (arXiv:1403.7698), with coefficients in closed form.  It does not mention workspaces, sizes, memory, the
      order of evaluation, or `valW`.
    * The conclusions are about the validated model `Model.runH` / `Model.objd` of the library's kernels at the
      exact scalar ℝ: every wedge cell, for every `ell_max`, `mp_max`, memory and initial content, equals `H n m' m`;
      every entry of `Wigner.d` equals ε(m') ε(−m) H ℓ m' m.

    So: IF the documented Wigner d (times the ε factors) satisfies the Gumerov–Duraiswami relations — a statement
    about special functions, independent of this code — THEN the model computes it, for every ℓ.

    No relation between c and s (such as c² + s² = 1) is used by the identification theorems: they hold for every
    real c, s.  (c² + s² = 1 enters only through the closed forms of `Lemmas/DDef*.lean` in section 4.)

    The hypothesis is satisfiable and pins the family down (section 3): the recursion's own output extended by the
    symmetries is a member, for every c, s, and every member equals it.  Hence `IsGDFamily c s H` says precisely
    "H is the fixed point of the recursion the code implements", in the vocabulary of the paper.

    Proved in `Props/DocD.lean` (not here): ε(m') ε(−m) d^ℓ_{m',m}(β) — with d the documented Wigner d — IS a
    Gumerov–Duraiswami family for every ℓ (`DocD.isGDFamily_doc`), which makes the identification unconditional. -/
noncomputable section
namespace GDFamily
open Model Spec

variable {c s : ℝ} {H : ℕ → ℤ → ℤ → ℝ}

/-! ### 1. the coordinate recursion equals any Gumerov–Duraiswami family -/

/-- (T-GD 1) every wedge value of the coordinate recursion: `valW c s n m' m = H n m' m` for |m'| ≤ m ≤ n.
    Uses (0), (41) and the instances |m'| < m of (50); not (S); no relation between c and s. -/
theorem valW_eq_of_IsGDFamily (hH : IsGDFamily c s H) (n : ℕ) (mp : ℤ) (m : ℕ)
    (h1 : mp.natAbs ≤ m) (h2 : m ≤ n) : valW c s n mp m = H n mp m :=
  valW_eq hH n mp m h1 h2

/-- (T-GD 1') the scratch cells `Hv`: `valV c s n k` is the out-of-wedge cell H(n, k, k−1) for 0 ≤ k ≤ n and
    H(n, k, −k−1) for −n ≤ k < 0 (n ≥ 1).  Uses in addition (S) and the instances m = |m'| of (50). -/
theorem valV_eq_of_IsGDFamily (hH : IsGDFamily c s H) (n : ℕ) (hn : 1 ≤ n) (k : ℤ) (hk : k.natAbs ≤ n) :
    valV c s n k = H n k (hvCol k) :=
  valV_eq hH n hn k hk

/-! ### 2. the model computes any Gumerov–Duraiswami family -/

section
variable {μ : Type} [Mem μ ℝ] [LawfulMem μ ℝ]

/-- (T-GD 2) every wedge cell of the workspace after `Model.runH`, for every ell_max = L, mp_max = P, every lawful
    memory and every initial content: `Hwedge[WignerHindex(n, m', m)] = H n m' m`. -/
theorem model_eq_of_IsGDFamily (hH : IsGDFamily c s H) (L P : ℕ) (st : μ) (n : ℕ) (mp : ℤ) (m : ℕ)
    (hn : n ≤ L) (hmp : mp.natAbs ≤ min n P) (hm1 : mp.natAbs ≤ m) (hm2 : m ≤ n) :
    rd (runH L P c s st) (.hw n mp m) = H n mp m := by
  rw [HRefine.runH_refines L P c s st n mp m hn hmp hm1 hm2]
  exact valW_eq hH n mp m hm1 hm2

/-- (T-GD 3) every entry of `Wigner.d(exp iβ)`, all |m'|, |m| ≤ ℓ ≤ ell_max: ε(m') ε(−m) H ℓ m' m.
    Here the symmetries (S) carry the stored representative back to (m', m). -/
theorem objd_eq_of_IsGDFamily (hH : IsGDFamily c s H) (L : ℕ) (st : μ) (ell : ℕ) (hl : ell ≤ L)
    (mp m : ℤ) (hmp : mp.natAbs ≤ ell) (hm : m.natAbs ≤ ell) :
    objd L st c s ell mp m = ((eps mp * eps (-m) : ℤ) : ℝ) * H ell mp m := by
  rw [DDef.objd_eq L st c s ell hl mp m hmp hm,
    valW_eq hH ell _ _ (Lemmas.Object.wedgeRep_fst_le_snd mp m) (Lemmas.Object.wedgeRep_snd_le mp m ell hmp hm),
    H_wedgeRep hH ell mp m hmp hm]

/-- (T-GD 3') the same with the candidate on the Wigner-d side: for ANY family `d` of real numbers (think: the
    documented d^ℓ_{m',m}(β)), if ε(m') ε(−m) d ℓ m' m satisfies the Gumerov–Duraiswami relations then the model's
    `Wigner.d` is `d`, for every ℓ ≤ ell_max and all |m'|, |m| ≤ ℓ. -/
theorem objd_eq_doc_of_IsGDFamily (d : ℕ → ℤ → ℤ → ℝ)
    (hd : IsGDFamily c s (fun n mp m => ((eps mp * eps (-m) : ℤ) : ℝ) * d n mp m))
    (L : ℕ) (st : μ) (ell : ℕ) (hl : ell ≤ L) (mp m : ℤ) (hmp : mp.natAbs ≤ ell) (hm : m.natAbs ≤ ell) :
    objd L st c s ell mp m = d ell mp m := by
  rw [objd_eq_of_IsGDFamily hd L st ell hl mp m hmp hm, ← mul_assoc, eps_sq, one_mul]

end

/-! ### 3. the hypothesis is satisfiable and determines the family -/

/-- (N) `valExt c s` — `valW` read at the stored-wedge representative `Spec.wedgeRep`, i.e. what
    `Hwedge[WignerHindex(n, m', m)]` holds — is a Gumerov–Duraiswami family, for EVERY real c, s.

    The proof shows which instances of (50) carry information: those with |m'| < m are the assignments of steps 4
    and 5 read backwards; those with m = |m'| (the scratch cells) follow from (S).  By (F) below `valExt` then
    satisfies (50) on the whole square |m'|, |m| ≤ n as well. -/
theorem isGDFamily_valExt' (c s : ℝ) : IsGDFamily c s (valExt c s) := isGDFamily_valExt c s

/-- (U) a Gumerov–Duraiswami family is determined on the whole square |m'|, |m| ≤ n: it is `valExt`. -/
theorem IsGDFamily.eq_valExt (hH : IsGDFamily c s H) (n : ℕ) (mp m : ℤ) (h1 : mp.natAbs ≤ n) (h2 : m.natAbs ≤ n) :
    H n mp m = valExt c s n mp m :=
  GDFamily.eq_valExt hH n mp m h1 h2

/-- (U') two Gumerov–Duraiswami families for the same (c, s) agree on |m'|, |m| ≤ n -/
theorem IsGDFamily.unique {H' : ℕ → ℤ → ℤ → ℝ} (hH : IsGDFamily c s H) (hH' : IsGDFamily c s H')
    (n : ℕ) (mp m : ℤ) (h1 : mp.natAbs ≤ n) (h2 : m.natAbs ≤ n) : H n mp m = H' n mp m := by
  rw [hH.eq_valExt n mp m h1 h2, hH'.eq_valExt n mp m h1 h2]

/-- (F) relation (50) at EVERY |m'|, |m| ≤ n, for any Gumerov–Duraiswami family: (50) is invariant under the two
    symmetries, so the instances outside the stored wedge are images of wedge instances — they are NOT additional
    constraints, and requiring (50) only on the wedge in `IsGDFamily` loses nothing.  (Out-of-domain values
    `H n (±(n+1)) ·`, `H n · (±(n+1))` that the formula mentions at the border carry the coefficients d^n_n = 0,
    d^{−n−1}_n = 0.) -/
theorem IsGDFamily.rel50_full (hH : IsGDFamily c s H) (n : ℕ) (mp m : ℤ) (h1 : mp.natAbs ≤ n) (h2 : m.natAbs ≤ n) :
    gdD n mp * H n (mp + 1) m =
      gdD n (mp - 1) * H n (mp - 1) m - gdD n (m - 1) * H n mp (m - 1) + gdD n m * H n mp (m + 1) :=
  GDFamily.rel50_full hH n mp m h1 h2

/-- the instances m = |m'| of (50) are consequences of the symmetries alone (any `H`) -/
theorem rel50_diag_of_symm
    (hsw : ∀ (n : ℕ) (mp m : ℤ), mp.natAbs ≤ n → m.natAbs ≤ n → H n mp m = H n m mp)
    (hng : ∀ (n : ℕ) (mp m : ℤ), mp.natAbs ≤ n → m.natAbs ≤ n → H n mp m = H n (-mp) (-m))
    (n : ℕ) (mp : ℤ) (h : mp.natAbs < n) :
    gdD n mp * H n (mp + 1) mp.natAbs =
      gdD n (mp - 1) * H n (mp - 1) mp.natAbs - gdD n ((mp.natAbs : ℤ) - 1) * H n mp ((mp.natAbs : ℤ) - 1)
        + gdD n mp.natAbs * H n mp ((mp.natAbs : ℤ) + 1) := by
  by_cases hp : 1 ≤ mp
  · have e : (mp.natAbs : ℤ) = mp := by omega
    rw [e]
    exact rel50_diag_pos hsw n mp hp (by omega)
  · obtain ⟨q, hq⟩ : ∃ q : ℤ, mp = -q ∧ 0 ≤ q := ⟨-mp, by omega, by omega⟩
    obtain ⟨rfl, hq0⟩ := hq
    have e : ((-q).natAbs : ℤ) = q := by omega
    rw [e]
    exact rel50_diag_neg hsw hng n q hq0 (by omega)

/-- the coefficients of the out-of-domain terms of (50) are zero: d^n_n = 0 (m = n: `H n m' (n+1)`; m' = n:
    `H n (n+1) m`) and d^{−n−1}_n = 0 (m = −n, m' = −n) -/
theorem rel50_border_coeff (n : ℕ) : gdD n n = 0 ∧ gdD n (-(n : ℤ) - 1) = 0 := ⟨gdD_top n, gdD_bot n⟩

/-- the closed-form coefficients of `IsGDFamily` are the model's tables at ℝ, and the divisors do not vanish -/
theorem coefficients (n m : ℤ) :
    (aC n m : ℝ) = gdA n m ∧ (bC n m : ℝ) = gdB n m ∧ (dC n m : ℝ) = gdD n m ∧
    (1 ≤ n → gdB (n + 1) 0 ≠ 0) ∧ (-n ≤ m → m < n → gdD n m ≠ 0) :=
  ⟨aC_eq n m, bC_eq n m, dC_eq n m, gdB_ne n, gdD_ne n m⟩

/-! ### 4. what the relations force: the documented d for ℓ ≤ 2, and the poles for every ℓ

    Consequences of section 2 and of the closed forms of `Lemmas/DDef.lean`, `Lemmas/DDef2.lean`: for ℓ ≤ 2 EVERY
    Gumerov–Duraiswami family (with c² + s² = 1) is ε(m') ε(−m) times the documented d^ℓ — so for these degrees the
    hypothesis of (T-GD 3') is not only sufficient but pins `d` to the documented table. -/

/-- the member `valExt` for n ≤ 1, written out: H⁰ = 1; H¹(0,0) = c, H¹(0,1) = s/√2, H¹(1,1) = −(1+c)/2,
    H¹(−1,1) = (1−c)/2 (the last two use c² + s² = 1) — and hence, by (U), of every member -/
theorem values_ell_le_one (hH : IsGDFamily c s H) (hcs : c ^ 2 + s ^ 2 = 1) :
    H 0 0 0 = 1 ∧ H 1 0 0 = c ∧ H 1 0 1 = s / Real.sqrt 2 ∧ H 1 1 1 = -(1 + c) / 2 ∧ H 1 (-1) 1 = (1 - c) / 2 := by
  have w := fun n mp m a b => (valW_eq hH n mp m a b).symm
  refine ⟨?_, ?_, ?_, ?_, ?_⟩
  · rw [← DDef.valW_0_0_0 c s]; exact w 0 0 0 (by decide) (by decide)
  · rw [← DDef.valW_1_0_0 c s]; exact w 1 0 0 (by decide) (by decide)
  · rw [← DDef.valW_1_0_1 c s]; exact w 1 0 1 (by decide) (by decide)
  · rw [← DDef.valW_1_1_1 c s hcs]; exact w 1 1 1 (by decide) (by decide)
  · rw [← DDef.valW_1_m1_1 c s hcs]; exact w 1 (-1) 1 (by decide) (by decide)

/-- ℓ = 1, all nine (m', m): every Gumerov–Duraiswami family is ε(m') ε(−m) · d¹(β), d¹ the documented table
    `DDef.d1doc` -/
theorem eq_doc_ell1 (hH : IsGDFamily c s H) (hcs : c ^ 2 + s ^ 2 = 1) (mp m : ℤ)
    (hmp : mp.natAbs ≤ 1) (hm : m.natAbs ≤ 1) :
    H 1 mp m = ((eps mp * eps (-m) : ℤ) : ℝ) * DDef.d1doc c s mp m := by
  have h := objd_eq_of_IsGDFamily hH 1 (fun _ : Loc => (0 : ℝ)) 1 le_rfl mp m hmp hm
  rw [DDef.objd_one_eq_table 1 _ c s hcs le_rfl mp m hmp hm] at h
  rw [h, ← mul_assoc, eps_sq, one_mul]

/-- ℓ = 2, all twenty-five (m', m): every Gumerov–Duraiswami family is ε(m') ε(−m) · d²(β), d² the documented table
    `DDef2.d2doc` -/
theorem eq_doc_ell2 (hH : IsGDFamily c s H) (hcs : c ^ 2 + s ^ 2 = 1) (mp m : ℤ)
    (hmp : mp.natAbs ≤ 2) (hm : m.natAbs ≤ 2) :
    H 2 mp m = ((eps mp * eps (-m) : ℤ) : ℝ) * DDef2.d2doc c s mp m := by
  have h := objd_eq_of_IsGDFamily hH 2 (fun _ : Loc => (0 : ℝ)) 2 le_rfl mp m hmp hm
  rw [DDef2.objd_two_eq_table 2 _ c s hcs le_rfl mp m hmp hm] at h
  rw [h, ← mul_assoc, eps_sq, one_mul]

/-- β = 0, every n: a Gumerov–Duraiswami family for (c, s) = (1, 0) is H(n, m', m) = (−1)^m δ_{m',m} on the wedge -/
theorem eq_pole_zero {H : ℕ → ℤ → ℤ → ℝ} (hH : IsGDFamily 1 0 H) (n : ℕ) (mp : ℤ) (m : ℕ)
    (h1 : mp.natAbs ≤ m) (h2 : m ≤ n) : H n mp m = if mp = (m : ℤ) then (-1) ^ m else 0 := by
  rw [← valW_eq hH n mp m h1 h2]; exact DDef.valW_id n mp m h1 h2

/-- β = π, every n: a Gumerov–Duraiswami family for (c, s) = (−1, 0) is H(n, m', m) = (−1)^{n+m} δ_{m',−m} on the
    wedge -/
theorem eq_pole_pi {H : ℕ → ℤ → ℤ → ℝ} (hH : IsGDFamily (-1) 0 H) (n : ℕ) (mp : ℤ) (m : ℕ)
    (h1 : mp.natAbs ≤ m) (h2 : m ≤ n) : H n mp m = if mp = -(m : ℤ) then (-1) ^ (n + m) else 0 := by
  rw [← valW_eq hH n mp m h1 h2]; exact DDef.valW_pi n mp m h1 h2

/-! ### instances -/

/-- the hypothesis of (T-GD 3') holds for the family the model itself produces: with `d := ε ε valExt` one recovers
    `objd = ε(m') ε(−m) valExt` — a sanity check that (T-GD 3') is not vacuous, on a size-7 calculator at ℓ = 5 -/
example (c s : ℝ) :
    objd 7 (fun _ : Loc => (3 : ℝ)) c s 5 (-4) 2 = ((eps (-4) * eps (-2) : ℤ) : ℝ) * valExt c s 5 (-4) 2 :=
  objd_eq_of_IsGDFamily (isGDFamily_valExt c s) 7 _ 5 (by decide) (-4) 2 (by decide) (by decide)

/-- a concrete value of a member: at β = 0, H(4, 3, 3) = −1 -/
example : valExt 1 0 4 3 3 = -1 := by
  have h := eq_pole_zero (isGDFamily_valExt 1 0) 4 3 3 (by decide) (by decide)
  norm_num at h
  exact h

/-- a concrete value of a member at (c, s) = (3/5, 4/5): H(1, 1, 1) = −(1 + 3/5)/2 = −4/5 -/
example : valExt (3/5) (4/5) 1 1 1 = -4/5 := by
  have h := (values_ell_le_one (isGDFamily_valExt (3/5) (4/5)) (by norm_num)).2.2.2.1
  rw [h]; norm_num

end GDFamily
end
