import SphericalVerif.Gen.RotHKern
import SphericalVerif.Lemmas.GenHorner
import Mathlib.Tactic.Ring
set_option linter.unusedSectionVars false
/-! The generated `_rotate_Horner` (`Gen/RotHKern.lean`, translated from the Python text on every run; whole-column numpy
    statements as explicit row loops, the scratch rows `negative_terms` / `positive_terms` as arrays) computes
    `Model.rotateHornerEntry`: the memory-carried Horner loops are the value-carried loops of `GenHorner` (`relA`, `relB`) with
    the roles `(m, -s) ↦ (n, m)` (`rotEntry_eq`), one output order at a time (`cellDo_value`), for every order (`gen_rotate_cell`). -/
namespace GenRot
open Gen Model Spec Model.Flat Scalar GenFill GenHorner

section
variable {α : Type} [Scalar α] {φ : Type} [FMem φ α]

/-- a whole-column numpy statement: the same update for every row `r = 0 … n-1` -/
def rowDo (n : Int) (f : Int → φ → φ) (st : φ) : φ := loopN (n - 0).toNat (fun k (st : φ) => f (0 + (k : Int)) st) st

/-- the four statements of one Horner step on the scratch rows (`negative_terms *= z̄ₐ; += …; positive_terms *= zₐ; += …`) -/
def memStep (flm : Int → Cx α) (Hw : Int → α) (za zab : Cx α) (nT pT : Nat) (nr nc i0 : Int) (n iHn iHp e : Int) (st : φ) : φ :=
  let st := rowDo nr (fun r st => fwrC (α := α) st nT r (Cx.mul (frdC (α := α) st nT r) zab)) st
  let st := rowDo nr (fun r st => fwrC (α := α) st nT r (Cx.add (frdC (α := α) st nT r) (Cx.mulr (flm (r * nc + (i0 - n))) (Hw iHn)))) st
  let st := rowDo nr (fun r st => fwrC (α := α) st pT r (Cx.mul (frdC (α := α) st pT r) za)) st
  rowDo nr (fun r st => fwrC (α := α) st pT r (Cx.add (frdC (α := α) st pT r) (Cx.mulr (Cx.mul (Cx.ofRe (Scalar.ofInt e : α)) (flm (r * nc + (i0 + n)))) (Hw iHp)))) st

abbrev M4 (φ : Type) := φ × Int × Int × Int

def mStepA (flm : Int → Cx α) (Hw : Int → α) (za zab : Cx α) (nT pT : Nat) (nr nc i0 ell : Int) (k : Nat) (p : M4 φ) : M4 φ :=
  let n : Int := (ell - 1) - (k : Int)
  let iHn := p.2.1 - 1
  let iHp := p.2.2.1 - 1
  let e := p.2.2.2 * (-1)
  (memStep flm Hw za zab nT pT nr nc i0 n iHn iHp e p.1, iHn, iHp, e)

def mStepB (flm : Int → Cx α) (Hw : Int → α) (za zab : Cx α) (nT pT : Nat) (nr nc i0 ell inm : Int) (up : Bool) (k : Nat) (p : M4 φ) : M4 φ :=
  let n : Int := inm - (k : Int)
  let iHn := if up then p.2.1 + ((ell - n) + 1) else p.2.1 - (ell - n)
  let iHp := if up then p.2.2.1 - (ell - n) else p.2.2.1 + ((ell - n) + 1)
  let e := p.2.2.2 * (-1)
  (memStep flm Hw za zab nT pT nr nc i0 n iHn iHp e p.1, iHn, iHp, e)

/-- everything `_rotate_Horner` does for one output order `(ell, m)` -/
def cellDo (flm : Int → Cx α) (fln : Nat) (Hw : Int → α) (za zg : Cx α) (nT pT : Nat) (P ell_min_m nr nrn ncn nc : Int)
    (cpowi : Cx α → Int → Cx α) (ell m : Int) (st : φ) : φ :=
  let zab := Cx.conj za
  let abs_m : Int := ((Int.natAbs m : Nat) : Int)
  let i0 : Int := Yindex ell 0 ell_min_m
  let im : Int := i0 + m
  let st := rowDo nrn (fun r st => fwrC (α := α) st fln (r * ncn + im) (Cx.mulr (flm (r * nc + i0)) (Hw (u_WignerHindex ell 0 abs_m P)))) st
  let st : φ :=
    if ell > 0 then
      let inm : Int := max 0 (abs_m - 1)
      let e0 : Int := (-1 : Int) ^ (Int.natAbs ell)
      let st := rowDo nr (fun r st => fwrC (α := α) st nT r (Cx.mulr (flm (r * nc + (i0 - ell))) (Hw (u_WignerHindex ell (-m) ell P)))) st
      let st := rowDo nr (fun r st => fwrC (α := α) st pT r (Cx.mulr (Cx.mul (Cx.ofRe (Scalar.ofInt e0 : α)) (flm (r * nc + (i0 + ell)))) (Hw (u_WignerHindex ell m ell P)))) st
      let p8 : M4 φ := loopN ((ell - 1) - inm).toNat (mStepA flm Hw za zab nT pT nr nc i0 ell) (st, u_WignerHindex ell (-m) ell P, u_WignerHindex ell m ell P, e0)
      let st : φ :=
        if m ≥ 0 then (loopN (inm - 0).toNat (mStepB flm Hw za zab nT pT nr nc i0 ell inm true) p8).1
        else (loopN (inm - 0).toNat (mStepB flm Hw za zab nT pT nr nc i0 ell inm false) p8).1
      let st := rowDo nrn (fun r st => fwrC (α := α) st fln (r * ncn + im) (Cx.add (frdC (α := α) st fln (r * ncn + im)) (Cx.mul (frdC (α := α) st nT r) zab))) st
      rowDo nrn (fun r st => fwrC (α := α) st fln (r * ncn + im) (Cx.add (frdC (α := α) st fln (r * ncn + im)) (Cx.mul (frdC (α := α) st pT r) za))) st
    else st
  rowDo nrn (fun r st => fwrC (α := α) st fln (r * ncn + im) (Cx.mul (frdC (α := α) st fln (r * ncn + im)) (Cx.mul (Cx.ofRe (Scalar.ofInt (ε (-m)) : α)) (cpowi zg m)))) st

theorem gen_eq_struct (flm : Int → Cx α) (fln : Nat) (emw eMw P ell_min_m ell_max_m sw : Int) (Hw : Int → α) (za zg : Cx α)
    (nT pT : Nat) (nr nrn ncn nc : Int) (cpowi : Cx α → Int → Cx α) (st : φ) :
    Gen.u_rotate_Horner (α := α) flm fln emw eMw P ell_min_m ell_max_m sw Hw za zg nT pT nr nrn ncn nc cpowi st
      = (let st := rowDo nr (fun r st => fwrC (α := α) st nT r (Cx.ofRe (Scalar.ofInt (0 : Int) : α))) st
         let st := rowDo nr (fun r st => fwrC (α := α) st pT r (Cx.ofRe (Scalar.ofInt (0 : Int) : α))) st
         loopN ((ell_max_m + 1) - (max ((Int.natAbs sw : Nat) : Int) ell_min_m)).toNat (fun k3 (st : φ) =>
           let ell : Int := (max ((Int.natAbs sw : Nat) : Int) ell_min_m) + (k3 : Int)
           loopN ((ell + 1) - (-ell)).toNat (fun k4 (st : φ) =>
             cellDo flm fln Hw za zg nT pT P ell_min_m nr nrn ncn nc cpowi ell (-ell + (k4 : Int)) st) st) st) := rfl

variable [LawfulFMem φ α]

theorem frdC_fwrC_arr (st : φ) (a a' : Nat) (i i' : Int) (z : Cx α) (h : a' ≠ a) :
    frdC (α := α) (fwrC (α := α) st a i z) a' i' = frdC (α := α) st a' i' := by
  unfold frdC fwrC
  simp only [frd_fwr, h, false_and, if_false]

theorem rowDo_one (f : Int → φ → φ) (st : φ) : rowDo 1 f st = f 0 st := by
  unfold rowDo
  have e : ((1 : Int) - 0).toNat = 1 := rfl
  rw [e]; simp only [loopN, Nat.cast_zero, Int.add_zero]

/-- one Horner step on the scratch cells of row 0: the new values, and nothing else of interest moves -/
theorem memStep_one (flm : Int → Cx α) (Hw : Int → α) (za zab : Cx α) (nT pT fln : Nat) (nc i0 n iHn iHp e : Int) (st : φ)
    (h1 : nT ≠ pT) (h2 : fln ≠ nT) (h3 : fln ≠ pT) :
    let st' := memStep flm Hw za zab nT pT 1 nc i0 n iHn iHp e st
    frdC (α := α) st' nT 0 = Cx.add (Cx.mul (frdC (α := α) st nT 0) zab) (Cx.mulr (flm (0 * nc + (i0 - n))) (Hw iHn))
    ∧ frdC (α := α) st' pT 0 = Cx.add (Cx.mul (frdC (α := α) st pT 0) za) (Cx.mulr (Cx.mul (Cx.ofRe (Scalar.ofInt e : α)) (flm (0 * nc + (i0 + n)))) (Hw iHp))
    ∧ ∀ i, frdC (α := α) st' fln i = frdC (α := α) st fln i := by
  intro st'
  simp only [st', memStep, rowDo_one]
  refine ⟨?_, ?_, ?_⟩
  · rw [frdC_fwrC_arr _ _ _ _ _ _ h1, frdC_fwrC_arr _ _ _ _ _ _ h1, frdC_fwrC_same, frdC_fwrC_same]
  · rw [frdC_fwrC_same, frdC_fwrC_same, frdC_fwrC_arr _ _ _ _ _ _ h1.symm, frdC_fwrC_arr _ _ _ _ _ _ h1.symm]
  · intro i
    rw [frdC_fwrC_arr _ _ _ _ _ _ h3, frdC_fwrC_arr _ _ _ _ _ _ h3, frdC_fwrC_arr _ _ _ _ _ _ h2, frdC_fwrC_arr _ _ _ _ _ _ h2]

/-- the relation between the memory-carried loop state and the value-carried one of `GenHorner` -/
def Rel (nT pT fln : Nat) (st0 : φ) (p : M4 φ) (g : G5 α) : Prop :=
  p.2.1 = g.1 ∧ p.2.2.1 = g.2.1 ∧ p.2.2.2 = g.2.2.1 ∧ frdC (α := α) p.1 nT 0 = g.2.2.2.1 ∧ frdC (α := α) p.1 pT 0 = g.2.2.2.2
    ∧ ∀ i, frdC (α := α) p.1 fln i = frdC (α := α) st0 fln i

theorem relA (flm : Int → Cx α) (Hw : Int → α) (za : Cx α) (nT pT fln : Nat) (nc i0 ell : Int) (st0 : φ)
    (h1 : nT ≠ pT) (h2 : fln ≠ nT) (h3 : fln ≠ pT) (k : Nat) (p : M4 φ) (g : G5 α) (h : Rel nT pT fln st0 p g) :
    Rel nT pT fln st0 (mStepA flm Hw za (Cx.conj za) nT pT 1 nc i0 ell k p) (stepA flm Hw za (Cx.conj za) (0 * nc) i0 ell k g) := by
  obtain ⟨a1, a2, a3, a4, a5, a6⟩ := h
  have ms := memStep_one flm Hw za (Cx.conj za) nT pT fln nc i0 ((ell - 1) - (k : Int)) (p.2.1 - 1) (p.2.2.1 - 1) (p.2.2.2 * (-1)) p.1 h1 h2 h3
  simp only [] at ms
  unfold Rel mStepA stepA
  simp only []
  refine ⟨by rw [a1], by rw [a2], by rw [a3], ?_, ?_, ?_⟩
  · rw [ms.1, a4, a1]
  · rw [ms.2.1, a5, a2, a3]
  · intro i; rw [ms.2.2 i]; exact a6 i

theorem relB (flm : Int → Cx α) (Hw : Int → α) (za : Cx α) (nT pT fln : Nat) (nc i0 ell inm : Int) (up : Bool) (st0 : φ)
    (h1 : nT ≠ pT) (h2 : fln ≠ nT) (h3 : fln ≠ pT) (k : Nat) (p : M4 φ) (g : G5 α) (h : Rel nT pT fln st0 p g) :
    Rel nT pT fln st0 (mStepB flm Hw za (Cx.conj za) nT pT 1 nc i0 ell inm up k p) (stepB flm Hw za (Cx.conj za) (0 * nc) i0 ell inm up k g) := by
  obtain ⟨a1, a2, a3, a4, a5, a6⟩ := h
  have ms := memStep_one flm Hw za (Cx.conj za) nT pT fln nc i0 (inm - (k : Int))
    (if up then p.2.1 + ((ell - (inm - (k : Int))) + 1) else p.2.1 - (ell - (inm - (k : Int))))
    (if up then p.2.2.1 - (ell - (inm - (k : Int))) else p.2.2.1 + ((ell - (inm - (k : Int))) + 1)) (p.2.2.2 * (-1)) p.1 h1 h2 h3
  simp only [] at ms
  unfold Rel mStepB stepB
  simp only []
  refine ⟨by rw [a1], by rw [a2], by rw [a3], ?_, ?_, ?_⟩
  · rw [ms.1, a4, a1]
  · rw [ms.2.1, a5, a2, a3]
  · intro i; rw [ms.2.2 i]; exact a6 i

variable {μ : Type} [Mem μ α]

/-- `Model.rotateHornerEntry` is `Model.evalEll` with the roles `(m, -s) ↦ (n, m)`, times the phase factor -/
theorem rotEntry_eq (stM : μ) (f : Array (Cx α)) (za : Cx α) (zgpow : Int → Cx α) (ell : Nat) (m : Int) :
    rotateHornerEntry (α := α) stM f za zgpow ell m
      = Cx.mul (evalEll (α := α) stM f za (-m) ell) (Cx.mul (Cx.ofRe (Scalar.ofInt (eps (-m)))) (zgpow m)) := by
  unfold rotateHornerEntry evalEll
  simp only [Int.neg_neg]

/-- **one output order.**  After `cellDo` for `(n, m)` the cell `fₗₙ[0, n(n+1)+m]` holds `Model.rotateHornerEntry`, whatever the
    memory held before, and no other cell of `fₗₙ` has moved. -/
theorem cellDo_value (stM : μ) (farr : Array (Cx α)) (fln : Nat) (Hw : Int → α) (za zg : Cx α) (nT pT : Nat) (P ncn nc : Int)
    (cpowi : Cx α → Int → Cx α) (n : Nat) (m : Int) (st : φ)
    (h1 : nT ≠ pT) (h2 : fln ≠ nT) (h3 : fln ≠ pT) (hm1 : -(n : Int) ≤ m) (hm2 : m ≤ n) (hmP : (m.natAbs : Int) ≤ P)
    (hHw : ∀ a : Int, -(n : Int) ≤ a → a ≤ n → Hw (WignerHindex (n : Int) a m (some P)) = Hat (α := α) stM n a m) :
    let st' := cellDo (fun i => cget farr i.toNat) fln Hw za zg nT pT P 0 1 1 ncn nc cpowi (n : Int) m st
    frdC (α := α) st' fln ((n : Int) * ((n : Int) + 1) + m) = rotateHornerEntry (α := α) stM farr za (cpowi zg) n m
    ∧ ∀ i : Int, i ≠ (n : Int) * ((n : Int) + 1) + m → frdC (α := α) st' fln i = frdC (α := α) st fln i := by
  intro st'
  have hmw : ∀ k : Int, -(n : Int) ≤ k → k ≤ n →
      (fun i : Int => cget farr i.toNat) (0 * nc + ((n : Int) * ((n : Int) + 1) + k)) = fAt farr n k := by
    intro k _ _
    simp only [Int.zero_mul, Int.zero_add]; rfl
  have hHw' : ∀ a : Int, -(n : Int) ≤ a → a ≤ n → Hw (WignerHindex (n : Int) a (- -m) (some P)) = Hat (α := α) stM n a (- -m) := by
    intro a ha1 ha2; rw [Int.neg_neg]; exact hHw a ha1 ha2
  have hz : u_WignerHindex (n : Int) 0 ((m.natAbs : Nat) : Int) P = WignerHindex (n : Int) 0 m (some P) :=
    Lemmas.zero_hindex n m P (by omega) (by omega) (by omega)
  have f0e : Cx.mulr ((fun i : Int => cget farr i.toNat) (0 * nc + (n : Int) * ((n : Int) + 1))) (Hw (u_WignerHindex (n : Int) 0 ((m.natAbs : Nat) : Int) P))
      = Cx.mulr (fAt farr n 0) (Hat (α := α) stM n 0 m) := by
    rw [hz, hHw _ (by omega) (by omega)]
    have := hmw 0 (by omega) (by omega)
    simp only [Int.add_zero] at this
    dsimp only
    rw [this]
  rw [rotEntry_eq]
  simp only [st', cellDo, rowDo_one, yindex0 (n : Int) (by omega), Int.zero_mul, Int.zero_add, Int.natAbs_natCast, Int.sub_zero]
  by_cases h0 : n = 0
  · subst h0
    have hm0 : m = 0 := by omega
    subst hm0
    have c : ¬ (((0 : Nat) : Int) > 0) := by omega
    simp only [c, if_false]
    refine ⟨?_, ?_⟩
    · rw [frdC_fwrC_same, frdC_fwrC_same]
      unfold evalEll
      simp only [if_true]
      have := f0e
      simp only [Int.zero_mul, Int.zero_add, Nat.cast_zero, Int.add_zero, Int.natAbs_zero] at this ⊢
      rw [this]; rfl
    · intro i hi
      rw [frdC_fwrC_other _ _ _ _ _ hi, frdC_fwrC_other _ _ _ _ _ hi]
  · have c : (n : Int) > 0 := by omega
    simp only [c, if_true]
    -- the value-carried loops of `GenHorner`, spin `sw := -m`
    have key := loops_eq stM farr (fun i => cget farr i.toNat) Hw za (-m) P (0 * nc) n (by omega) (by omega) (by omega) hmw hHw'
    simp only [Int.neg_neg, Int.natAbs_neg] at key
    obtain ⟨kneg, kpos⟩ := key
    -- name the memory states
    generalize hst3 : fwrC (α := α) (fwrC (α := α) (fwrC (α := α) st fln ((n : Int) * ((n : Int) + 1) + m) _) nT 0 _) pT 0 _ = st3
    generalize hX : loopN ((n : Int) - 1 - max 0 ((m.natAbs : Int) - 1)).toNat (mStepA (φ := φ) (fun i => cget farr i.toNat) Hw za (Cx.conj za) nT pT 1 nc ((n : Int) * ((n : Int) + 1)) n) _ = X
    have hS : (if m ≥ 0 then (loopN (max 0 ((m.natAbs : Int) - 1)).toNat (mStepB (φ := φ) (fun i => cget farr i.toNat) Hw za (Cx.conj za) nT pT 1 nc ((n : Int) * ((n : Int) + 1)) n (max 0 ((m.natAbs : Int) - 1)) true) X).1
        else (loopN (max 0 ((m.natAbs : Int) - 1)).toNat (mStepB (φ := φ) (fun i => cget farr i.toNat) Hw za (Cx.conj za) nT pT 1 nc ((n : Int) * ((n : Int) + 1)) n (max 0 ((m.natAbs : Int) - 1)) false) X).1)
        = (loopN (max 0 ((m.natAbs : Int) - 1)).toNat (mStepB (φ := φ) (fun i => cget farr i.toNat) Hw za (Cx.conj za) nT pT 1 nc ((n : Int) * ((n : Int) + 1)) n (max 0 ((m.natAbs : Int) - 1)) (decide (m ≥ 0))) X).1 := by
      by_cases h : m ≥ 0 <;> simp [h]
    rw [hS]
    generalize hY : loopN (max 0 ((m.natAbs : Int) - 1)).toNat (mStepB (φ := φ) (fun i => cget farr i.toNat) Hw za (Cx.conj za) nT pT 1 nc ((n : Int) * ((n : Int) + 1)) n (max 0 ((m.natAbs : Int) - 1)) (decide (m ≥ 0))) X = Y
    -- relate them to the value-carried loops
    have rel0 : Rel nT pT fln st3 (st3, u_WignerHindex (n : Int) (-m) n P, u_WignerHindex (n : Int) m n P, (-1 : Int) ^ n)
        (u_WignerHindex (n : Int) (-m) n P, u_WignerHindex (n : Int) m n P, (-1 : Int) ^ n,
          Cx.mulr ((fun i : Int => cget farr i.toNat) (0 * nc + ((n : Int) * ((n : Int) + 1) - n))) (Hw (u_WignerHindex (n : Int) (-m) n P)),
          Cx.mulr (Cx.mul (Cx.ofRe (ofInt ((-1 : Int) ^ n))) ((fun i : Int => cget farr i.toNat) (0 * nc + ((n : Int) * ((n : Int) + 1) + n)))) (Hw (u_WignerHindex (n : Int) m n P))) := by
      refine ⟨rfl, rfl, rfl, ?_, ?_, fun _ => rfl⟩
      · rw [← hst3, frdC_fwrC_arr _ _ _ _ _ _ h1, frdC_fwrC_same]
        simp only [Int.zero_mul, Int.zero_add]
      · rw [← hst3, frdC_fwrC_same]
        simp only [Int.zero_mul, Int.zero_add]
    have relX : Rel nT pT fln st3 X (loopN ((n : Int) - 1 - max 0 ((m.natAbs : Int) - 1)).toNat
        (stepA (fun i => cget farr i.toNat) Hw za (Cx.conj za) (0 * nc) ((n : Int) * ((n : Int) + 1)) n)
        (u_WignerHindex (n : Int) (-m) n P, u_WignerHindex (n : Int) m n P, (-1 : Int) ^ n,
          Cx.mulr ((fun i : Int => cget farr i.toNat) (0 * nc + ((n : Int) * ((n : Int) + 1) - n))) (Hw (u_WignerHindex (n : Int) (-m) n P)),
          Cx.mulr (Cx.mul (Cx.ofRe (ofInt ((-1 : Int) ^ n))) ((fun i : Int => cget farr i.toNat) (0 * nc + ((n : Int) * ((n : Int) + 1) + n)))) (Hw (u_WignerHindex (n : Int) m n P)))) := by
      rw [← hX]
      exact GenH.loopN_sim (Rel nT pT fln st3) _ _ _ _ _ rel0
        (fun k p g _ h => relA (fun i => cget farr i.toNat) Hw za nT pT fln nc ((n : Int) * ((n : Int) + 1)) n st3 h1 h2 h3 k p g h)
    have relY : Rel nT pT fln st3 Y (loopN (max 0 ((m.natAbs : Int) - 1)).toNat
        (stepB (fun i => cget farr i.toNat) Hw za (Cx.conj za) (0 * nc) ((n : Int) * ((n : Int) + 1)) n (max 0 ((m.natAbs : Int) - 1)) (decide (m ≥ 0)))
        (loopN ((n : Int) - 1 - max 0 ((m.natAbs : Int) - 1)).toNat
        (stepA (fun i => cget farr i.toNat) Hw za (Cx.conj za) (0 * nc) ((n : Int) * ((n : Int) + 1)) n)
        (u_WignerHindex (n : Int) (-m) n P, u_WignerHindex (n : Int) m n P, (-1 : Int) ^ n,
          Cx.mulr ((fun i : Int => cget farr i.toNat) (0 * nc + ((n : Int) * ((n : Int) + 1) - n))) (Hw (u_WignerHindex (n : Int) (-m) n P)),
          Cx.mulr (Cx.mul (Cx.ofRe (ofInt ((-1 : Int) ^ n))) ((fun i : Int => cget farr i.toNat) (0 * nc + ((n : Int) * ((n : Int) + 1) + n)))) (Hw (u_WignerHindex (n : Int) m n P))))) := by
      rw [← hY]
      exact GenH.loopN_sim (Rel nT pT fln st3) _ _ _ _ _ relX
        (fun k p g _ h => relB (fun i => cget farr i.toNat) Hw za nT pT fln nc ((n : Int) * ((n : Int) + 1)) n (max 0 ((m.natAbs : Int) - 1)) (decide (m ≥ 0)) st3 h1 h2 h3 k p g h)
    obtain ⟨_, _, _, yneg, ypos, yfr⟩ := relY
    rw [kneg] at yneg
    rw [kpos] at ypos
    have hst3f : ∀ i, frdC (α := α) st3 fln i = frdC (α := α) (fwrC (α := α) st fln ((n : Int) * ((n : Int) + 1) + m)
        (Cx.mulr (cget farr ((n : Int) * ((n : Int) + 1)).toNat) (Hw (u_WignerHindex (n : Int) 0 ((m.natAbs : Nat) : Int) P)))) fln i := by
      intro i; rw [← hst3, frdC_fwrC_arr _ _ _ _ _ _ h3, frdC_fwrC_arr _ _ _ _ _ _ h2]
    refine ⟨?_, ?_⟩
    · rw [frdC_fwrC_same, frdC_fwrC_same, frdC_fwrC_same, frdC_fwrC_arr _ _ _ _ _ _ (Ne.symm h3), yfr, hst3f, frdC_fwrC_same, yneg, ypos,
        evalEll_eq stM farr za (-m) n h0]
      have := f0e
      simp only [Int.zero_mul, Int.zero_add] at this
      simp only [Int.neg_neg]
      rw [this]; rfl
    · intro i hi
      rw [frdC_fwrC_other _ _ _ _ _ hi, frdC_fwrC_other _ _ _ _ _ hi, frdC_fwrC_other _ _ _ _ _ hi, yfr, hst3f, frdC_fwrC_other _ _ _ _ _ hi]

theorem yidx0 (n m : Int) (h : 0 ≤ n) : Yindex n m 0 = n * (n + 1) + m := by
  unfold Yindex
  split_ifs with c
  · ring
  · have : n = 0 := by omega
    subst this; ring

/-- **`_rotate_Horner` from the Python text**, one row of mode weights (stored from ℓ = 0), a full calculator (`P ≥ ell_max`
    of the modes, as `Wigner.rotate` requires): after the generated kernel the cell `fₗₙ[0, n(n+1)+m]` holds
    `Model.rotateHornerEntry`, for every `|s| ≤ n ≤ ell_max`, `|m| ≤ n`. -/
theorem gen_rotate_cell (stM : μ) (farr : Array (Cx α)) (fln nT pT : Nat) (emw eMw P : Int) (ellMax : Nat) (sw : Int) (Hw : Int → α)
    (za zg : Cx α) (ncn nc : Int) (cpowi : Cx α → Int → Cx α) (st : φ)
    (h1 : nT ≠ pT) (h2 : fln ≠ nT) (h3 : fln ≠ pT) (hP : (ellMax : Int) ≤ P)
    (hHw : ∀ (ell : Nat) (a b : Int), ell ≤ ellMax → -(ell : Int) ≤ a → a ≤ ell → -(ell : Int) ≤ b → b ≤ ell →
        Hw (WignerHindex (ell : Int) a b (some P)) = Hat (α := α) stM ell a b)
    (n : Nat) (m : Int) (hsn : sw.natAbs ≤ n) (hn : n ≤ ellMax) (hm1 : -(n : Int) ≤ m) (hm2 : m ≤ n) :
    frdC (α := α) (Gen.u_rotate_Horner (α := α) (fun i => cget farr i.toNat) fln emw eMw P 0 (ellMax : Int) sw Hw za zg nT pT 1 1 ncn nc cpowi st)
        fln ((n : Int) * ((n : Int) + 1) + m)
      = rotateHornerEntry (α := α) stM farr za (cpowi zg) n m := by
  rw [gen_eq_struct]
  simp only []
  generalize rowDo (φ := φ) 1 (fun r (st : φ) => fwrC (α := α) st pT r (Cx.ofRe (Scalar.ofInt (0 : Int) : α))) _ = st1
  have hne : ∀ (n' : Nat) (m' : Int), -(n' : Int) ≤ m' → m' ≤ n' → (n' ≠ n ∨ m' ≠ m) →
      (n : Int) * ((n : Int) + 1) + m ≠ (n' : Int) * ((n' : Int) + 1) + m' := by
    intro n' m' a1 a2 hd e
    rw [← yidx0 n m (by omega), ← yidx0 n' m' (by omega)] at e
    have := yindex_inj 0 (max (n : Int) n') n m n' m' (le_refl _) (by omega) (by omega) hm1 hm2 (by omega) (by omega) a1 a2 e
    omega
  have el : max ((sw.natAbs : Nat) : Int) 0 = ((sw.natAbs : Nat) : Int) := by omega
  rw [el]
  refine loopN_target (fun st => frdC (α := α) st fln ((n : Int) * ((n : Int) + 1) + m) = _) _ (n - sw.natAbs) _ st1 (by omega) ?_ ?_
  · intro st
    have e1 : ((sw.natAbs : Nat) : Int) + ((n - sw.natAbs : Nat) : Int) = (n : Int) := by omega
    rw [e1]
    refine loopN_target (fun st => frdC (α := α) st fln ((n : Int) * ((n : Int) + 1) + m) = _) _ (m + n).toNat _ st (by omega) ?_ ?_
    · intro st
      have e2 : -(n : Int) + (((m + n).toNat : Nat) : Int) = m := by omega
      rw [e2]
      exact (cellDo_value stM farr fln Hw za zg nT pT P ncn nc cpowi n m st h1 h2 h3 hm1 hm2 (by omega)
        (fun a ha1 ha2 => hHw n a m hn ha1 ha2 hm1 hm2)).1
    · intro k st hk hne' hT
      rw [(cellDo_value stM farr fln Hw za zg nT pT P ncn nc cpowi n (-(n : Int) + (k : Int)) st h1 h2 h3 (by omega) (by omega) (by omega)
        (fun a ha1 ha2 => hHw n a _ hn ha1 ha2 (by omega) (by omega))).2 _ (hne n _ (by omega) (by omega) (Or.inr (by omega)))]
      exact hT
  · intro k st hk hne' hT
    have ek : ((sw.natAbs : Nat) : Int) + (k : Int) = ((sw.natAbs + k : Nat) : Int) := by push_cast; rfl
    rw [ek]
    refine loopN_pres (fun st => frdC (α := α) st fln ((n : Int) * ((n : Int) + 1) + m) = _) _ _ st hT ?_
    intro k' st hk' hT
    rw [(cellDo_value stM farr fln Hw za zg nT pT P ncn nc cpowi (sw.natAbs + k) (-((sw.natAbs + k : Nat) : Int) + (k' : Int)) st h1 h2 h3
      (by omega) (by omega) (by omega) (fun a ha1 ha2 => hHw (sw.natAbs + k) a _ (by omega) ha1 ha2 (by omega) (by omega))).2 _
      (hne (sw.natAbs + k) _ (by omega) (by omega) (Or.inl (by omega)))]
    exact hT
end
end GenRot
