import SphericalVerif.Model.Operators
import SphericalVerif.Lemmas.RealScalar
/-! Helper lemmas for Props/C12.lean and Props/C19.lean: what the operators of `Model/Operators.lean` do cell by
    cell (for every scalar type), and the algebra of the coefficients in exact arithmetic (`α := ℝ`). -/
namespace OpsL
open Model Model.Ops

/-! ### cell-by-cell action of the `Modes` operators (any scalar type) -/
section generic
variable {α : Type} [Scalar α]

theorem Lsquared_in (f : Modes α) {ell : Nat} {m : Int} (h1 : f.s.natAbs ≤ ell) (h2 : ell ≤ f.ellMax)
    (hm : m.natAbs ≤ ell) : (Lsquared f).w ell m = Cx.mulr (f.w ell m) (cL2 ell) := if_pos ⟨h1, h2, hm⟩

theorem Lz_in (f : Modes α) {ell : Nat} {m : Int} (h1 : f.s.natAbs ≤ ell) (h2 : ell ≤ f.ellMax)
    (hm : m.natAbs ≤ ell) : (Lz f).w ell m = Cx.mulr (f.w ell m) (cLz m) := if_pos ⟨h1, h2, hm⟩

theorem Lplus_in (f : Modes α) {ell : Nat} {m : Int} (h1 : f.s.natAbs ≤ ell) (h2 : ell ≤ f.ellMax)
    (hlo : -(ell : Int) < m) (hhi : m ≤ ell) :
    (Lplus f).w ell m = Cx.rmul (cLplus ell m) (f.w ell (m - 1)) := if_pos ⟨h1, h2, hlo, hhi⟩

theorem Lplus_out (f : Modes α) {ell : Nat} {m : Int} (h : ¬ (-(ell : Int) < m ∧ m ≤ ell)) :
    (Lplus f).w ell m = czero := if_neg (fun c => h ⟨c.2.2.1, c.2.2.2⟩)

theorem Lplus_below (f : Modes α) {ell : Nat} {m : Int} (h : ell < f.s.natAbs) :
    (Lplus f).w ell m = czero := if_neg (fun c => absurd c.1 (Nat.not_le.mpr h))

theorem Lminus_in (f : Modes α) {ell : Nat} {m : Int} (h1 : f.s.natAbs ≤ ell) (h2 : ell ≤ f.ellMax)
    (hlo : -(ell : Int) ≤ m) (hhi : m < ell) :
    (Lminus f).w ell m = Cx.rmul (cLminus ell m) (f.w ell (m + 1)) := if_pos ⟨h1, h2, hlo, hhi⟩

theorem Lminus_out (f : Modes α) {ell : Nat} {m : Int} (h : ¬ (-(ell : Int) ≤ m ∧ m < ell)) :
    (Lminus f).w ell m = czero := if_neg (fun c => h ⟨c.2.2.1, c.2.2.2⟩)

theorem Lminus_below (f : Modes α) {ell : Nat} {m : Int} (h : ell < f.s.natAbs) :
    (Lminus f).w ell m = czero := if_neg (fun c => absurd c.1 (Nat.not_le.mpr h))

theorem Rz_in (f : Modes α) {ell : Nat} {m : Int} (h1 : f.s.natAbs ≤ ell) :
    (Rz f).w ell m = Cx.rmul (cRz f.s) (f.w ell m) := if_neg (Nat.not_lt.mpr h1)

theorem Rz_below (f : Modes α) {ell : Nat} {m : Int} (h1 : ell < f.s.natAbs) :
    (Rz f).w ell m = czero := if_pos h1

theorem Rplus_in (f : Modes α) {ell : Nat} {m : Int} (h1 : max (f.s - 1).natAbs f.s.natAbs ≤ ell)
    (h2 : ell ≤ f.ellMax) (hm : m.natAbs ≤ ell) :
    (Rplus f).w ell m = Cx.rmul (cRplus ell (f.s - 1)) (f.w ell m) := if_pos ⟨h1, h2, Nat.zero_le _, hm⟩

theorem Rplus_below (f : Modes α) {ell : Nat} {m : Int} (h1 : ell < max (f.s - 1).natAbs f.s.natAbs) :
    (Rplus f).w ell m = czero := if_neg (fun c => absurd c.1 (Nat.not_le.mpr h1))

theorem Rminus_in (f : Modes α) {ell : Nat} {m : Int} (h1 : max (f.s + 1).natAbs f.s.natAbs ≤ ell)
    (h2 : ell ≤ f.ellMax) (hm : m.natAbs ≤ ell) :
    (Rminus f).w ell m = Cx.rmul (cRminus ell (f.s + 1)) (f.w ell m) := if_pos ⟨h1, h2, Nat.zero_le _, hm⟩

theorem Rminus_below (f : Modes α) {ell : Nat} {m : Int} (h1 : ell < max (f.s + 1).natAbs f.s.natAbs) :
    (Rminus f).w ell m = czero := if_neg (fun c => absurd c.1 (Nat.not_le.mpr h1))

theorem ethbar_in (f : Modes α) {ell : Nat} {m : Int} (h1 : max (f.s - 1).natAbs f.s.natAbs ≤ ell)
    (h2 : ell ≤ f.ellMax) (hm : m.natAbs ≤ ell) :
    (ethbar f).w ell m = cneg (Cx.rmul (cRplus ell (f.s - 1)) (f.w ell m)) := by
  have h3 : ¬ ell < (f.s - 1).natAbs := Nat.not_lt.mpr (le_trans (le_max_left _ _) h1)
  show (if ell < (f.s - 1).natAbs then czero else cneg ((Rplus f).w ell m)) = _
  rw [if_neg h3, Rplus_in f h1 h2 hm]

theorem ethbar_below_new (f : Modes α) {ell : Nat} {m : Int} (h1 : ell < (f.s - 1).natAbs) :
    (ethbar f).w ell m = czero := if_pos h1

theorem ethbar_below (f : Modes α) {ell : Nat} {m : Int} (h0 : (f.s - 1).natAbs ≤ ell)
    (h1 : ell < max (f.s - 1).natAbs f.s.natAbs) : (ethbar f).w ell m = cneg czero := by
  show (if ell < (f.s - 1).natAbs then czero else cneg ((Rplus f).w ell m)) = _
  rw [if_neg (Nat.not_lt.mpr h0), Rplus_below f h1]

theorem ethbar_w_of_le (f : Modes α) {ell : Nat} {m : Int} (h : (f.s - 1).natAbs ≤ ell) :
    (ethbar f).w ell m = cneg ((Rplus f).w ell m) := if_neg (Nat.not_lt.mpr h)

theorem Rplus_out (f : Modes α) {ell : Nat} {m : Int}
    (h : ¬ (max (f.s - 1).natAbs f.s.natAbs ≤ ell ∧ ell ≤ f.ellMax ∧ m.natAbs ≤ ell)) :
    (Rplus f).w ell m = czero := if_neg (fun c => h ⟨c.1, c.2.1, c.2.2.2⟩)

theorem Rminus_out (f : Modes α) {ell : Nat} {m : Int}
    (h : ¬ (max (f.s + 1).natAbs f.s.natAbs ≤ ell ∧ ell ≤ f.ellMax ∧ m.natAbs ≤ ell)) :
    (Rminus f).w ell m = czero := if_neg (fun c => h ⟨c.1, c.2.1, c.2.2.2⟩)

@[simp] theorem Rplus_s (f : Modes α) : (Rplus f).s = f.s - 1 := rfl
@[simp] theorem Rminus_s (f : Modes α) : (Rminus f).s = f.s + 1 := rfl
@[simp] theorem eth_s (f : Modes α) : (eth f).s = f.s + 1 := rfl
@[simp] theorem ethbar_s (f : Modes α) : (ethbar f).s = f.s - 1 := rfl
@[simp] theorem Rz_s (f : Modes α) : (Rz f).s = f.s := rfl
@[simp] theorem Lz_s (f : Modes α) : (Lz f).s = f.s := rfl
@[simp] theorem Lplus_s (f : Modes α) : (Lplus f).s = f.s := rfl
@[simp] theorem Lminus_s (f : Modes α) : (Lminus f).s = f.s := rfl
@[simp] theorem Lsquared_s (f : Modes α) : (Lsquared f).s = f.s := rfl
@[simp] theorem Rplus_ellMax (f : Modes α) : (Rplus f).ellMax = f.ellMax := rfl
@[simp] theorem Rminus_ellMax (f : Modes α) : (Rminus f).ellMax = f.ellMax := rfl
@[simp] theorem eth_ellMax (f : Modes α) : (eth f).ellMax = f.ellMax := rfl
@[simp] theorem ethbar_ellMax (f : Modes α) : (ethbar f).ellMax = f.ellMax := rfl
@[simp] theorem Rz_ellMax (f : Modes α) : (Rz f).ellMax = f.ellMax := rfl
@[simp] theorem Lz_ellMax (f : Modes α) : (Lz f).ellMax = f.ellMax := rfl
@[simp] theorem Lplus_ellMax (f : Modes α) : (Lplus f).ellMax = f.ellMax := rfl
@[simp] theorem Lminus_ellMax (f : Modes α) : (Lminus f).ellMax = f.ellMax := rfl
@[simp] theorem Lsquared_ellMax (f : Modes α) : (Lsquared f).ellMax = f.ellMax := rfl

end generic

/-! ### the complex arithmetic of the model at `ℝ` -/

theorem cx_ext {z w : Cx ℝ} (h1 : z.re = w.re) (h2 : z.im = w.im) : z = w := by
  cases z; cases w; simp_all

@[simp] theorem rmul_eq (x : ℝ) (b : Cx ℝ) : Cx.rmul x b = ⟨x * b.re, x * b.im⟩ := by
  simp [Cx.rmul, Cx.mul, Cx.ofRe]
@[simp] theorem mulr_eq (a : Cx ℝ) (x : ℝ) : Cx.mulr a x = ⟨a.re * x, a.im * x⟩ := by
  simp [Cx.mulr, Cx.mul, Cx.ofRe]
@[simp] theorem czero_eq : (czero : Cx ℝ) = ⟨0, 0⟩ := by simp [czero]
@[simp] theorem cneg_eq (z : Cx ℝ) : cneg z = ⟨-z.re, -z.im⟩ := by simp [cneg]
@[simp] theorem sub_eq (a b : Cx ℝ) : Cx.sub a b = ⟨a.re - b.re, a.im - b.im⟩ := by simp [Cx.sub]
@[simp] theorem add_eq (a b : Cx ℝ) : Cx.add a b = ⟨a.re + b.re, a.im + b.im⟩ := by simp [Cx.add]
@[simp] theorem mul_eq (a b : Cx ℝ) : Cx.mul a b = ⟨a.re * b.re - a.im * b.im, a.re * b.im + a.im * b.re⟩ := by
  simp [Cx.mul]
@[simp] theorem I_eq : (Cx.I : Cx ℝ) = ⟨0, 1⟩ := by simp [Cx.I]
@[simp] theorem ofRe_eq (x : ℝ) : (Cx.ofRe x : Cx ℝ) = ⟨x, 0⟩ := by simp [Cx.ofRe]

/-- numba's division algorithm by a real divisor is componentwise division (also for `x = 0`: `t/0 = 0`) -/
theorem div_ofRe (a : Cx ℝ) (x : ℝ) : Cx.div a (Cx.ofRe x) = ⟨a.re / x, a.im / x⟩ := by
  simp [Cx.div, Cx.ofRe]

/-- numba's division algorithm by a purely imaginary divisor `i y`, `y ≠ 0` -/
theorem div_imag (a : Cx ℝ) (y : ℝ) (hy : y ≠ 0) : Cx.div a ⟨0, y⟩ = ⟨a.im / y, -a.re / y⟩ := by
  have h : ¬ (|y| ≤ 0) := by
    intro h
    exact hy (abs_eq_zero.mp (le_antisymm h (abs_nonneg y)))
  simp [Cx.div, h]

/-! ### coefficients at `ℝ` -/

theorem cLplus_real (ell m : Int) : (cLplus ell m : ℝ) = Real.sqrt (((ell : ℝ) + m) * (ell - m + 1)) := by
  simp [cLplus]
theorem cLminus_real (ell m : Int) : (cLminus ell m : ℝ) = Real.sqrt (((ell : ℝ) - m) * (ell + m + 1)) := by
  simp [cLminus]
theorem cRplus_real (ell ds : Int) : (cRplus ell ds : ℝ) = Real.sqrt (((ell : ℝ) - ds) * (ell + ds + 1)) := by
  simp [cRplus]
theorem cRminus_real (ell ds : Int) : (cRminus ell ds : ℝ) = Real.sqrt (((ell : ℝ) + ds) * (ell - ds + 1)) := by
  simp [cRminus]
@[simp] theorem cLz_real (m : Int) : (cLz m : ℝ) = m := by simp [cLz]
@[simp] theorem cL2_real (ell : Int) : (cL2 ell : ℝ) = (ell : ℝ) * (ell + 1) := by simp [cL2]
@[simp] theorem cRz_real (s : Int) : (cRz s : ℝ) = -(s : ℝ) := by simp [cRz]

/-- the coefficient `Lminus` uses at `m - 1` is the one `Lplus` uses at `m` -/
theorem cLminus_pred (ell m : Int) : (cLminus ell (m - 1) : ℝ) = cLplus ell m := by
  rw [cLminus_real, cLplus_real]; congr 1; push_cast; ring
theorem cLplus_succ (ell m : Int) : (cLplus ell (m + 1) : ℝ) = cLminus ell m := by
  rw [cLminus_real, cLplus_real]; congr 1; push_cast; ring

theorem cLplus_mul_self (ell m : Int) (h1 : -ell ≤ m) (h2 : m ≤ ell + 1) :
    (cLplus ell m : ℝ) * cLplus ell m = ((ell : ℝ) + m) * (ell - m + 1) := by
  rw [cLplus_real]
  apply Real.mul_self_sqrt
  have a : (0 : ℝ) ≤ (ell : ℝ) + m := by exact_mod_cast (by omega : (0 : Int) ≤ ell + m)
  have b : (0 : ℝ) ≤ (ell : ℝ) - m + 1 := by exact_mod_cast (by omega : (0 : Int) ≤ ell - m + 1)
  exact mul_nonneg a b

theorem cLminus_mul_self (ell m : Int) (h1 : -ell - 1 ≤ m) (h2 : m ≤ ell) :
    (cLminus ell m : ℝ) * cLminus ell m = ((ell : ℝ) - m) * (ell + m + 1) := by
  rw [cLminus_real]
  apply Real.mul_self_sqrt
  have a : (0 : ℝ) ≤ (ell : ℝ) - m := by exact_mod_cast (by omega : (0 : Int) ≤ ell - m)
  have b : (0 : ℝ) ≤ (ell : ℝ) + m + 1 := by exact_mod_cast (by omega : (0 : Int) ≤ ell + m + 1)
  exact mul_nonneg a b

/-- `Rminus` (new spin `s+1`) and `Rplus` out of spin `s+1`... share the radicand `(ell-s)(ell+s+1)` -/
theorem cRminus_succ (ell s : Int) : (cRminus ell (s + 1) : ℝ) = Real.sqrt (((ell : ℝ) - s) * (ell + s + 1)) := by
  rw [cRminus_real]; congr 1; push_cast; ring
theorem cRplus_pred (ell s : Int) : (cRplus ell (s - 1) : ℝ) = Real.sqrt (((ell : ℝ) + s) * (ell - s + 1)) := by
  rw [cRplus_real]; congr 1; push_cast; ring
theorem cRminus_succ_eq_cRplus (ell s : Int) : (cRminus ell (s + 1) : ℝ) = cRplus ell s := by
  rw [cRminus_succ, cRplus_real]
theorem cRplus_pred_eq_cRminus (ell s : Int) : (cRplus ell (s - 1) : ℝ) = cRminus ell s := by
  rw [cRplus_pred, cRminus_real]

/-- `(ell-s)(ell+s+1) ≥ 0` as soon as `ell ≥ |s|` (it vanishes at `ell = s`) -/
theorem rad_up_nonneg (ell s : Int) (h : (s.natAbs : Int) ≤ ell) : (0 : ℝ) ≤ ((ell : ℝ) - s) * (ell + s + 1) := by
  have a : (0 : ℝ) ≤ (ell : ℝ) - s := by exact_mod_cast (by omega : (0 : Int) ≤ ell - s)
  have b : (0 : ℝ) ≤ (ell : ℝ) + s + 1 := by exact_mod_cast (by omega : (0 : Int) ≤ ell + s + 1)
  exact mul_nonneg a b
/-- `(ell+s)(ell-s+1) ≥ 0` as soon as `ell ≥ |s|` (it vanishes at `ell = -s`) -/
theorem rad_dn_nonneg (ell s : Int) (h : (s.natAbs : Int) ≤ ell) : (0 : ℝ) ≤ ((ell : ℝ) + s) * (ell - s + 1) := by
  have a : (0 : ℝ) ≤ (ell : ℝ) + s := by exact_mod_cast (by omega : (0 : Int) ≤ ell + s)
  have b : (0 : ℝ) ≤ (ell : ℝ) - s + 1 := by exact_mod_cast (by omega : (0 : Int) ≤ ell - s + 1)
  exact mul_nonneg a b

theorem cRplus_mul_self (ell s : Int) (h : (s.natAbs : Int) ≤ ell) :
    (cRplus ell s : ℝ) * cRplus ell s = ((ell : ℝ) - s) * (ell + s + 1) := by
  rw [cRplus_real]; exact Real.mul_self_sqrt (rad_up_nonneg ell s h)
theorem cRminus_mul_self (ell s : Int) (h : (s.natAbs : Int) ≤ ell) :
    (cRminus ell s : ℝ) * cRminus ell s = ((ell : ℝ) + s) * (ell - s + 1) := by
  rw [cRminus_real]; exact Real.mul_self_sqrt (rad_dn_nonneg ell s h)

/-! ### array-level factors at `ℝ` -/

@[simp] theorem radEth_real (s ell : Int) : (radEth s ell : ℝ) = ((ell : ℝ) - s) * (ell + s + 1) := by
  simp [radEth]
@[simp] theorem radEthbar_real (s ell : Int) : (radEthbar s ell : ℝ) = ((ell : ℝ) + s) * (ell - s + 1) := by
  simp [radEthbar]
@[simp] theorem termInv_real (s ell : Int) : (termInv s ell : ℝ) = ((ell : ℝ) + s + 1) * (ell - s) := by
  simp [termInv]

theorem fEthNP_real (s ell : Int) : (fEthNP s ell : ℝ) =
    if ell < ((s + 1).natAbs : Int) then 0 else Real.sqrt (((ell : ℝ) - s) * (ell + s + 1)) := by
  simp [fEthNP]
theorem fEthbarNP_real (s ell : Int) : (fEthbarNP s ell : ℝ) =
    if ell < ((s - 1).natAbs : Int) then 0 else -Real.sqrt (((ell : ℝ) + s) * (ell - s + 1)) := by
  simp [fEthbarNP]
theorem fEthGHP_real (s ell : Int) : (fEthGHP s ell : ℝ) =
    if ell < ((s + 1).natAbs : Int) then 0 else Real.sqrt (((ell : ℝ) - s) * (ell + s + 1) / 2) := by
  simp [fEthGHP]
theorem fEthbarGHP_real (s ell : Int) : (fEthbarGHP s ell : ℝ) =
    if ell < ((s - 1).natAbs : Int) then 0 else -Real.sqrt (((ell : ℝ) + s) * (ell - s + 1) / 2) := by
  simp [fEthbarGHP]
theorem fInv_real (s ell : Int) : (fInv s ell : ℝ) = -Real.sqrt (((ell : ℝ) + s + 1) * (ell - s)) := by
  simp [fInv]

theorem sqrt_half_mul (x : ℝ) : Real.sqrt x = Real.sqrt 2 * Real.sqrt (x / 2) := by
  rw [← Real.sqrt_mul (by norm_num : (0 : ℝ) ≤ 2)]
  congr 1; ring

/-! ### conversions -/

/-- the exact-arithmetic values of the three constants of mode_conversions.py -/
noncomputable def Kreal : ConvConsts ℝ :=
  ⟨Real.sqrt (4 * Real.pi), Real.sqrt (2 * Real.pi / 3), Real.sqrt (4 * Real.pi / 3)⟩

theorem Kreal_sqrt4pi_pos : 0 < Kreal.sqrt4pi := Real.sqrt_pos.mpr (by positivity)
theorem Kreal_sqrt2pi3_pos : 0 < Kreal.sqrt2pi3 := Real.sqrt_pos.mpr (by positivity)
theorem Kreal_sqrt4pi3_pos : 0 < Kreal.sqrt4pi3 := Real.sqrt_pos.mpr (by positivity)

/-! ### the ell = 0, 1 scalar harmonics, written explicitly -/

/-- a model complex number as a Mathlib complex number -/
def toC (w : Cx ℝ) : ℂ := ⟨w.re, w.im⟩

/-- `Y_{0,0} = 1/√(4π)` -/
noncomputable def Y00 : Cx ℝ := ⟨1 / Real.sqrt (4 * Real.pi), 0⟩
/-- `Y_{1,-1}(θ,φ) = +√(3/8π) sin θ e^{-iφ}` -/
noncomputable def Y1m1 (θ φ : ℝ) : Cx ℝ :=
  ⟨Real.sqrt (3 / (8 * Real.pi)) * Real.sin θ * Real.cos φ, -(Real.sqrt (3 / (8 * Real.pi)) * Real.sin θ * Real.sin φ)⟩
/-- `Y_{1,0}(θ,φ) = √(3/4π) cos θ` -/
noncomputable def Y10 (θ _φ : ℝ) : Cx ℝ := ⟨Real.sqrt (3 / (4 * Real.pi)) * Real.cos θ, 0⟩
/-- `Y_{1,1}(θ,φ) = -√(3/8π) sin θ e^{iφ}` -/
noncomputable def Y1p1 (θ φ : ℝ) : Cx ℝ :=
  ⟨-(Real.sqrt (3 / (8 * Real.pi)) * Real.sin θ * Real.cos φ), -(Real.sqrt (3 / (8 * Real.pi)) * Real.sin θ * Real.sin φ)⟩
/-- the unit vector in the direction `(θ, φ)` -/
noncomputable def nhat (θ φ : ℝ) : Vec3 ℝ := ⟨Real.sin θ * Real.cos φ, Real.sin θ * Real.sin φ, Real.cos θ⟩
/-- the (bilinear, unconjugated) dot product of a complex vector with a real vector -/
noncomputable def dot (v : Vec3 (Cx ℝ)) (n : Vec3 ℝ) : Cx ℝ :=
  Cx.add (Cx.add (Cx.mulr v.x n.x) (Cx.mulr v.y n.y)) (Cx.mulr v.z n.z)

theorem k_half : Real.sqrt (2 * Real.pi / 3) * Real.sqrt (3 / (8 * Real.pi)) = 1 / 2 := by
  rw [← Real.sqrt_mul (by positivity)]
  have : 2 * Real.pi / 3 * (3 / (8 * Real.pi)) = (1 / 2) ^ 2 := by
    have := Real.pi_pos.ne'
    field_simp; ring
  rw [this, Real.sqrt_sq (by norm_num)]

theorem k_one : Real.sqrt (4 * Real.pi / 3) * Real.sqrt (3 / (4 * Real.pi)) = 1 := by
  rw [← Real.sqrt_mul (by positivity)]
  have : 4 * Real.pi / 3 * (3 / (4 * Real.pi)) = 1 := by
    have := Real.pi_pos.ne'
    field_simp
  rw [this, Real.sqrt_one]

theorem y1_sum (K : ConvConsts ℝ) (a a' S C c s : ℝ) (h1 : K.sqrt2pi3 * a = 1 / 2) (h0 : K.sqrt4pi3 * a' = 1)
    (v : Vec3 (Cx ℝ)) :
    Cx.add (Cx.add (Cx.mul (vectorAsEll1 K v).x ⟨a * S * c, -(a * S * s)⟩) (Cx.mul (vectorAsEll1 K v).y ⟨a' * C, 0⟩))
        (Cx.mul (vectorAsEll1 K v).z ⟨-(a * S * c), -(a * S * s)⟩) = dot v ⟨S * c, S * s, C⟩ := by
  apply cx_ext
  · simp [vectorAsEll1, dot]
    linear_combination (2 * S * ((v.x).re * c + (v.y).re * s)) * h1 + ((v.z).re * C) * h0
  · simp [vectorAsEll1, dot]
    linear_combination (2 * S * ((v.x).im * c + (v.y).im * s)) * h1 + ((v.z).im * C) * h0

theorem toC_expform (A φ : ℝ) :
    toC ⟨-(A * Real.cos φ), -(A * Real.sin φ)⟩ = -(A : ℂ) * Complex.exp (φ * Complex.I) ∧
    toC ⟨A * Real.cos φ, -(A * Real.sin φ)⟩ = (A : ℂ) * Complex.exp (-(φ * Complex.I)) := by
  constructor
  · rw [Complex.exp_mul_I]
    apply Complex.ext <;> simp [toC, ← Complex.ofReal_cos, ← Complex.ofReal_sin]
  · have e : -((φ : ℂ) * Complex.I) = ((-φ : ℝ) : ℂ) * Complex.I := by push_cast; ring
    rw [e, Complex.exp_mul_I]
    apply Complex.ext <;> simp [toC, ← Complex.ofReal_cos, ← Complex.ofReal_sin]

theorem toC_Y1 (θ φ : ℝ) :
    toC (Y1p1 θ φ) = -((Real.sqrt (3 / (8 * Real.pi)) * Real.sin θ : ℝ) : ℂ) * Complex.exp (φ * Complex.I) ∧
    toC (Y1m1 θ φ) = ((Real.sqrt (3 / (8 * Real.pi)) * Real.sin θ : ℝ) : ℂ) * Complex.exp (-(φ * Complex.I)) :=
  ⟨(toC_expform _ φ).1, (toC_expform _ φ).2⟩
/-! ### the common loop of the array-level operators: which entry is touched with which degree -/

section loop
variable {α : Type}

theorem inner_spec (g : Cx α → Cx α) (cnt : Nat) (a0 : Array (Cx α)) (i0 : Nat) :
    (loopN cnt (fun _ (st : Array (Cx α) × Nat) => (st.1.modify st.2 g, st.2 + 1)) (a0, i0)).2 = i0 + cnt ∧
    (loopN cnt (fun _ (st : Array (Cx α) × Nat) => (st.1.modify st.2 g, st.2 + 1)) (a0, i0)).1.size = a0.size ∧
    ∀ i, (loopN cnt (fun _ (st : Array (Cx α) × Nat) => (st.1.modify st.2 g, st.2 + 1)) (a0, i0)).1[i]? =
      if i0 ≤ i ∧ i < i0 + cnt then (a0[i]?).map g else a0[i]? := by
  induction cnt with
  | zero => simp [loopN]
  | succ n ih =>
    simp only [loopN]
    obtain ⟨h1, hs, h2⟩ := ih
    refine ⟨by rw [h1]; omega, by rw [Array.size_modify, hs], fun i => ?_⟩
    rw [Array.getElem?_modify, h1, h2]
    by_cases c : i0 + n = i
    · subst c
      have : ¬ (i0 ≤ i0 + n ∧ i0 + n < i0 + n) := by omega
      have : (i0 ≤ i0 + n ∧ i0 + n < i0 + (n + 1)) := by omega
      simp [*]
    · by_cases d : i0 ≤ i ∧ i < i0 + n
      · have : i0 ≤ i ∧ i < i0 + (n + 1) := by omega
        simp [*]
      · have : ¬ (i0 ≤ i ∧ i < i0 + (n + 1)) := by omega
        simp [*]

theorem outer_spec (act : Int → Cx α → Cx α) (e : Nat) (cnt : Nat) (a0 : Array (Cx α)) :
    let body := fun (k : Nat) (st : Array (Cx α) × Nat) =>
      loopN (2 * ((e : Int) + k) + 1).toNat (fun _ (st : Array (Cx α) × Nat) =>
        (st.1.modify st.2 (act ((e : Int) + k)), st.2 + 1)) st
    (loopN cnt body (a0, 0)).2 = (e + cnt) ^ 2 - e ^ 2 ∧ (loopN cnt body (a0, 0)).1.size = a0.size ∧
    ∀ i, (loopN cnt body (a0, 0)).1[i]? =
      if i < (e + cnt) ^ 2 - e ^ 2 then (a0[i]?).map (act (Nat.sqrt (i + e ^ 2))) else a0[i]? := by
  intro body
  induction cnt with
  | zero => simp [loopN]
  | succ n ih =>
    obtain ⟨h1, hs, h2⟩ := ih
    have hcnt : (2 * ((e : Int) + n) + 1).toNat = 2 * (e + n) + 1 := by omega
    have step : loopN (n + 1) body (a0, 0) = body n (loopN n body (a0, 0)) := rfl
    obtain ⟨i1, s1, g1⟩ := inner_spec (act ((e : Int) + n)) (2 * (e + n) + 1) (loopN n body (a0, 0)).1 (loopN n body (a0, 0)).2
    have sq : (e + (n + 1)) ^ 2 = (e + n) ^ 2 + (2 * (e + n) + 1) := by ring
    have mono : e ^ 2 ≤ (e + n) ^ 2 := Nat.pow_le_pow_left (by omega) 2
    rw [step]
    simp only [body, hcnt]
    refine ⟨by rw [i1, h1]; omega, by rw [s1, hs], fun i => ?_⟩
    rw [g1, h1, h2]
    by_cases c : (e + n) ^ 2 - e ^ 2 ≤ i ∧ i < (e + n) ^ 2 - e ^ 2 + (2 * (e + n) + 1)
    · have c1 : ¬ i < (e + n) ^ 2 - e ^ 2 := by omega
      have c2 : i < (e + (n + 1)) ^ 2 - e ^ 2 := by omega
      have r : Nat.sqrt (i + e ^ 2) = e + n := by
        symm; apply Nat.eq_sqrt'.mpr
        constructor <;> [skip; rw [show e + n + 1 = e + (n + 1) from rfl]] <;> omega
      rw [if_pos c, if_neg c1, if_pos c2, r]; push_cast; rfl
    · rw [if_neg c]
      by_cases d : i < (e + n) ^ 2 - e ^ 2
      · have c2 : i < (e + (n + 1)) ^ 2 - e ^ 2 := by omega
        rw [if_pos d, if_pos c2]
      · have c2 : ¬ i < (e + (n + 1)) ^ 2 - e ^ 2 := by omega
        rw [if_neg d, if_neg c2]

theorem inferEllMax_nat (n e : Nat) : inferEllMax (n : Int) (e : Int) = (Nat.sqrt (n + e ^ 2) : Int) - 1 := by
  have : ((n : Int) + Gen.Ysize 0 ((e : Int) - 1)).toNat = n + e ^ 2 := by
    have : (n : Int) + Gen.Ysize 0 ((e : Int) - 1) = ((n + e ^ 2 : Nat) : Int) := by
      unfold Gen.Ysize; push_cast; ring
    rw [this]; exact Int.toNat_natCast _
  unfold inferEllMax; rw [this]

theorem arrayLoop_spec (act : Int → Cx α → Cx α) (e : Nat) (a : Array (Cx α)) :
    (arrayLoop act e a).size = a.size ∧
    ∀ i, (arrayLoop act e a)[i]? =
      if i < (Nat.sqrt (a.size + e ^ 2)) ^ 2 - e ^ 2 then (a[i]?).map (act (Nat.sqrt (i + e ^ 2))) else a[i]? := by
  have hN : e ≤ Nat.sqrt (a.size + e ^ 2) := Nat.le_sqrt'.mpr (by omega)
  have hcnt : (inferEllMax (a.size : Int) (e : Int) + 1 - e).toNat = Nat.sqrt (a.size + e ^ 2) - e := by
    rw [inferEllMax_nat]; omega
  obtain ⟨_, hs, hg⟩ := outer_spec act e (Nat.sqrt (a.size + e ^ 2) - e) a
  have hadd : e + (Nat.sqrt (a.size + e ^ 2) - e) = Nat.sqrt (a.size + e ^ 2) := by omega
  rw [hadd] at hg
  unfold arrayLoop
  simp only [hcnt]
  exact ⟨hs, hg⟩
end loop

end OpsL
