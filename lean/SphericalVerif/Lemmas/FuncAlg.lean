import SphericalVerif.Props.Routes
import SphericalVerif.Props.DAll
import SphericalVerif.Props.C13
/-! Helper definitions and lemmas for `Props/FuncAlg.lean`: FUNCTION-level semantics of the `Modes` algebra in exact
    arithmetic.

    * `evalFn s L w Y = Σ_{ℓ=|s|}^{L} Σ_{m=−ℓ}^{ℓ} w(pos ℓ m) · Y ℓ m` is the right-hand side of
      `Routes.evaluate_eq_sum_sYlm`: the value the model of `Wigner.evaluate` returns for the weight row `w` (stored
      from ℓ = 0, `pos ℓ m = ℓ(ℓ+1)+m`) when `Y ℓ m` is the sYlm value at the rotor.
    * `Ydoc s A B ℓ m = (−1)^{|s|} √((2ℓ+1)/4π) · docD ℓ A B m (−s)` is the right-hand side of `DAll.sYlm_all`: what the
      model of `Wigner.sYlm` computes at the unit quaternion with R_a = A, R_b = B.
    * `realLoop` / `imagLoop` transcribe the loops of `Modes._real_func` / `Modes._imag_func`
      (spherical/modes/algebra.py, `inplace=False`), which `Model/Modes.lean` does not contain (it models only their
      dispatch, `methodRealImag`); they are written in the style of `Model.Modes.conjStepUfunc` and are NOT covered by
      the correspondence harness. -/
noncomputable section
namespace FuncAlg
open Model Horner DDef Gen Spec Model.Modes Lemmas.Modes
open scoped ComplexConjugate

/-! ### 1. positions -/

theorem pos_natCast (ell : ℕ) (m : ℤ) : pos (ell : ℤ) m = (((ell : ℤ) * ((ell : ℤ) + 1) + m)).toNat := by
  unfold pos
  rw [yindex0 _ _ (Int.natCast_nonneg ell)]

theorem fAt_eq_cget {α : Type} [Scalar α] (f : Array (Cx α)) (ell : ℕ) (m : ℤ) :
    fAt f ell m = cget f (pos (ell : ℤ) m) := by
  unfold fAt
  rw [pos_natCast]

/-- `pos ℓ m < LM_total_size(0, L)` iff `ℓ ≤ L`, for `|m| ≤ ℓ` -/
theorem pos_lt_ysize (ell : ℕ) (m : ℤ) (L : ℕ) (hm1 : -(ell : ℤ) ≤ m) (hm2 : m ≤ ell) :
    pos (ell : ℤ) m < (Ysize 0 (L : ℤ)).toNat ↔ ell ≤ L := by
  have hc := pos_cast (ell : ℤ) m (Int.natCast_nonneg ell) hm1
  have hy : (((Ysize 0 (L : ℤ)).toNat : ℕ) : ℤ) = ((L : ℤ) + 1) ^ 2 := by rw [ysize0_cast, ysize0]
  constructor
  · intro h
    by_contra hn
    have h1 : (L : ℤ) + 1 ≤ ell := by omega
    have h2 : ((L : ℤ) + 1) ^ 2 ≤ (ell : ℤ) ^ 2 := sq_le_sq_of_le (by omega) h1
    have h3 : ((pos (ell : ℤ) m : ℕ) : ℤ) < (((Ysize 0 (L : ℤ)).toNat : ℕ) : ℤ) := by exact_mod_cast h
    nlinarith
  · intro h
    have h1 : ((ell : ℤ) + 1) ^ 2 ≤ ((L : ℤ) + 1) ^ 2 := sq_le_sq_of_le (by omega) (by omega)
    have h3 : ((pos (ell : ℤ) m : ℕ) : ℤ) < (((Ysize 0 (L : ℤ)).toNat : ℕ) : ℤ) := by
      rw [hc, hy]; nlinarith
    exact_mod_cast h3

/-! ### 2. `evalFn` -/

/-- `Σ_{ℓ=|s|}^{L} Σ_{m=−ℓ}^{ℓ} w(pos ℓ m) · Y ℓ m` -/
def evalFn (s : ℤ) (L : ℕ) (w : ℕ → ℂ) (Y : ℕ → ℤ → ℂ) : ℂ :=
  ∑ ell ∈ Finset.Icc s.natAbs L, ∑ m ∈ Finset.Icc (-(ell : ℤ)) ell, w (pos (ell : ℤ) m) * Y ell m

/-- only the entries `|s| ≤ ℓ ≤ L`, `|m| ≤ ℓ` of the row, and the same entries of `Y`, matter -/
theorem evalFn_congr (s : ℤ) (L : ℕ) (w w' : ℕ → ℂ) (Y Y' : ℕ → ℤ → ℂ)
    (h : ∀ ell : ℕ, s.natAbs ≤ ell → ell ≤ L → ∀ m : ℤ, -(ell : ℤ) ≤ m → m ≤ ell →
      w (pos (ell : ℤ) m) * Y ell m = w' (pos (ell : ℤ) m) * Y' ell m) :
    evalFn s L w Y = evalFn s L w' Y' := by
  unfold evalFn
  apply Finset.sum_congr rfl
  intro ell hell
  rw [Finset.mem_Icc] at hell
  apply Finset.sum_congr rfl
  intro m hm
  rw [Finset.mem_Icc] at hm
  exact h ell hell.1 hell.2 m hm.1 hm.2

theorem evalFn_congr_w (s : ℤ) (L : ℕ) (w w' : ℕ → ℂ) (Y : ℕ → ℤ → ℂ)
    (h : ∀ ell : ℕ, s.natAbs ≤ ell → ell ≤ L → ∀ m : ℤ, -(ell : ℤ) ≤ m → m ≤ ell →
      w (pos (ell : ℤ) m) = w' (pos (ell : ℤ) m)) :
    evalFn s L w Y = evalFn s L w' Y :=
  evalFn_congr s L w w' Y Y fun ell h1 h2 m h3 h4 => by rw [h ell h1 h2 m h3 h4]

theorem evalFn_add (s : ℤ) (L : ℕ) (w w' : ℕ → ℂ) (Y : ℕ → ℤ → ℂ) :
    evalFn s L (fun p => w p + w' p) Y = evalFn s L w Y + evalFn s L w' Y := by
  unfold evalFn
  simp only [add_mul, Finset.sum_add_distrib]

theorem evalFn_sub (s : ℤ) (L : ℕ) (w w' : ℕ → ℂ) (Y : ℕ → ℤ → ℂ) :
    evalFn s L (fun p => w p - w' p) Y = evalFn s L w Y - evalFn s L w' Y := by
  unfold evalFn
  simp only [sub_mul, Finset.sum_sub_distrib]

theorem evalFn_smul (s : ℤ) (L : ℕ) (c : ℂ) (w : ℕ → ℂ) (Y : ℕ → ℤ → ℂ) :
    evalFn s L (fun p => c * w p) Y = c * evalFn s L w Y := by
  unfold evalFn
  simp only [mul_assoc, Finset.mul_sum]

theorem evalFn_div (s : ℤ) (L : ℕ) (c : ℂ) (w : ℕ → ℂ) (Y : ℕ → ℤ → ℂ) :
    evalFn s L (fun p => w p / c) Y = evalFn s L w Y / c := by
  have : (fun p => w p / c) = fun p => c⁻¹ * w p := by funext p; rw [div_eq_mul_inv, mul_comm]
  rw [this, evalFn_smul, div_eq_mul_inv, mul_comm]

/-- zero padding: a row that vanishes on `L₁ < ℓ ≤ L` evaluates as the row of `ell_max = L₁` -/
theorem evalFn_pad (s : ℤ) (L1 L : ℕ) (hL : L1 ≤ L) (w : ℕ → ℂ) (Y : ℕ → ℤ → ℂ)
    (h : ∀ ell : ℕ, L1 < ell → ell ≤ L → ∀ m : ℤ, -(ell : ℤ) ≤ m → m ≤ ell → w (pos (ell : ℤ) m) = 0) :
    evalFn s L w Y = evalFn s L1 w Y := by
  unfold evalFn
  symm
  apply Finset.sum_subset
  · intro ell hell
    rw [Finset.mem_Icc] at hell ⊢
    omega
  · intro ell hell hn
    rw [Finset.mem_Icc] at hell hn
    apply Finset.sum_eq_zero
    intro m hm
    rw [Finset.mem_Icc] at hm
    rw [h ell (by omega) hell.2 m hm.1 hm.2, zero_mul]

/-- the row `w[0:k]` followed by zeros, `k = LM_total_size(0, L₁)` -/
def padRow (k : ℕ) (w : ℕ → ℂ) : ℕ → ℂ := fun p => if p < k then w p else 0

theorem evalFn_padRow (s : ℤ) (L1 L : ℕ) (hL : L1 ≤ L) (w : ℕ → ℂ) (Y : ℕ → ℤ → ℂ) :
    evalFn s L (padRow (Ysize 0 (L1 : ℤ)).toNat w) Y = evalFn s L1 w Y := by
  rw [evalFn_pad s L1 L hL]
  · apply evalFn_congr_w
    intro ell _ h2 m h3 h4
    unfold padRow
    rw [if_pos ((pos_lt_ysize ell m L1 h3 h4).2 h2)]
  · intro ell h1 _ m h3 h4
    unfold padRow
    rw [if_neg (fun h => by have := (pos_lt_ysize ell m L1 h3 h4).1 h; omega)]

/-- reindexing `m ↦ −m` in the inner sum -/
theorem sum_Icc_neg (g : ℤ → ℂ) (ell : ℕ) :
    ∑ m ∈ Finset.Icc (-(ell : ℤ)) ell, g m = ∑ m ∈ Finset.Icc (-(ell : ℤ)) ell, g (-m) := by
  apply Finset.sum_nbij' (fun m => -m) (fun m => -m)
  · intro m hm; rw [Finset.mem_Icc] at hm ⊢; omega
  · intro m hm; rw [Finset.mem_Icc] at hm ⊢; omega
  · intro m _; exact neg_neg m
  · intro m _; exact neg_neg m
  · intro m _; rw [neg_neg]

/-- the constructor's zeroing below `|s|` does not change the function -/
theorem evalFn_stored (s : ℤ) (L : ℕ) (ellMax : ℤ) (w : ℕ → ℂ) (Y : ℕ → ℤ → ℂ) :
    evalFn s L (stored s 0 ellMax w 0) Y = evalFn s L w Y := by
  apply evalFn_congr_w
  intro ell h1 _ m h3 h4
  have := stored_high s 0 ellMax (ell : ℤ) m w (0 : ℂ) le_rfl (by exact_mod_cast h1) (Int.natCast_nonneg _) h3 h4
  unfold pos
  exact this

/-! ### 3. the model's sign and conjugation at `ℂ` -/

/-- negation and conjugation of an entry, as the arguments `neg conj` of the model's loops -/
def cneg : ℂ → ℂ := fun z => -z
def cconj : ℂ → ℂ := fun z => conj z

theorem cconj_cconj (x : ℂ) : cconj (cconj x) = x := by simp [cconj]
theorem cneg_cneg (x : ℂ) : cneg (cneg x) = x := by simp [cneg]
theorem cconj_cneg (x : ℂ) : cconj (cneg x) = cneg (cconj x) := by simp [cconj, cneg]

/-- the model's `sgn` (parity test `k % 2 == 0`) is multiplication by `(−1)^k` -/
theorem sgn_eq (k : ℤ) (x : ℂ) : sgn cneg k x = (-1 : ℂ) ^ k * x := by
  unfold sgn cneg
  split
  · next h => rw [Even.neg_one_zpow (Int.even_iff.2 h), one_mul]
  · next h => rw [Odd.neg_one_zpow (Int.odd_iff.2 (by omega)), neg_one_mul]

theorem neg_one_zpow_sq (k : ℤ) : ((-1 : ℂ) ^ k) * ((-1 : ℂ) ^ k) = 1 := by
  rw [← mul_zpow]; norm_num

theorem neg_one_zpow_congr (k k' : ℤ) (h : k % 2 = k' % 2) : (-1 : ℂ) ^ k = (-1 : ℂ) ^ k' := by
  rcases Int.emod_two_eq_zero_or_one k with h0 | h1
  · rw [Even.neg_one_zpow (Int.even_iff.2 h0), Even.neg_one_zpow (Int.even_iff.2 (by omega))]
  · rw [Odd.neg_one_zpow (Int.odd_iff.2 h1), Odd.neg_one_zpow (Int.odd_iff.2 (by omega))]

theorem conj_neg_one_zpow (k : ℤ) : conj ((-1 : ℂ) ^ k) = (-1 : ℂ) ^ k := by
  rw [map_zpow₀]; simp

/-- entry `(ℓ, m)`, `|s| ≤ ℓ ≤ L`, of the stored row of the conjugate (`Model.Modes.conjRow`: the loop of the
    `np.conjugate` branch followed by the constructor's zeroing): `(−1)^{s+m} · conj f_{ℓ,−m}` -/
theorem conjRow_entry (s : ℤ) (L : ℕ) (src : ℕ → ℂ) (c0 : Row ℂ) (ell : ℕ) (m : ℤ)
    (h1 : s.natAbs ≤ ell) (h2 : ell ≤ L) (hm1 : -(ell : ℤ) ≤ m) (hm2 : m ≤ ell) :
    conjRow cneg cconj s (L : ℤ) src c0 0 (pos (ell : ℤ) m)
      = (-1 : ℂ) ^ (s + m) * conj (src (pos (ell : ℤ) (-m))) := by
  have h0 : (0 : ℤ) ≤ ell := Int.natCast_nonneg _
  rw [conjRow_get, sqrt_pos _ _ h0 hm1 hm2, if_neg (by omega), if_pos (by exact_mod_cast h2)]
  unfold conjF
  rw [sqrt_pos _ _ h0 hm1 hm2, mOf_pos _ _ h0 hm1 hm2, sgn_eq]
  rfl

/-! ### 4. the documented D: the symmetry (m', m) ↦ (−m', −m), and the documented sYlm -/

/-- `docD ℓ A B (−m') (−m) = (−1)^{m'+m} conj (docD ℓ A B m' m)` for |A|² + |B|² = 1: transported from the model's
    assembly symmetry `Routes.D_conj_symm'` through `DAll.DEntry_core` (the model computes `docD`). -/
theorem docD_conj_symm (ℓ : ℕ) (A B : ℂ) (hAB : Complex.normSq A + Complex.normSq B = 1) (mp m : ℤ)
    (hmp : mp.natAbs ≤ ℓ) (hm : m.natAbs ≤ ℓ) :
    docD ℓ A B (-mp) (-m) = (-1 : ℂ) ^ (mp + m) * conj (docD ℓ A B mp m) := by
  have hR : A.re ^ 2 + B.im ^ 2 + B.re ^ 2 + A.im ^ 2 = 1 := by
    rw [Complex.normSq_apply, Complex.normSq_apply] at hAB; linarith
  have eA : Ra A.re A.im = A := by apply Complex.ext <;> rfl
  have eB : Rb B.im B.re = B := by apply Complex.ext <;> rfl
  have up := (zpR_spec A.re A.im).2
  have um := (zmR_spec B.im B.re).2
  have c1 := DAll.DEntry_core (μ := Loc → ℝ) ℓ ℓ (fun _ => 0) A.re B.im B.re A.im hR imsqrtR imsqrtR_spec ℓ le_rfl
    (-mp) (-m) (by omega) (by omega) (by omega)
  have c2 := DAll.DEntry_core (μ := Loc → ℝ) ℓ ℓ (fun _ => 0) A.re B.im B.re A.im hR imsqrtR imsqrtR_spec ℓ le_rfl
    mp m hmp hm (by omega)
  rw [eA, eB] at c1 c2
  rw [← c1, ← c2]
  apply Routes.D_conj_symm'
  · rw [cpowers_cget _ (mul_unit _ _ up um) ℓ imsqrtR imsqrtR_spec 0 (Nat.zero_le _)]; simp
  · rw [cpowers_cget _ (mul_unit _ _ up (conj_unit _ um)) ℓ imsqrtR imsqrtR_spec 0 (Nat.zero_le _)]; simp

/-- the documented spin-weighted spherical harmonic at the rotor with R_a = A, R_b = B (the right-hand side of
    `DAll.sYlm_all`) -/
def Ydoc (s : ℤ) (A B : ℂ) (ell : ℕ) (m : ℤ) : ℂ :=
  (((-1) ^ s.natAbs * Real.sqrt ((2 * (ell : ℝ) + 1) / (4 * Real.pi)) : ℝ) : ℂ) * docD ell A B m (-s)

/-- `conj (ₛY_{ℓm}) = (−1)^{s+m} ₋ₛY_{ℓ,−m}` -/
theorem conj_Ydoc (s : ℤ) (A B : ℂ) (hAB : Complex.normSq A + Complex.normSq B = 1) (ell : ℕ) (m : ℤ)
    (hs : s.natAbs ≤ ell) (hm : m.natAbs ≤ ell) :
    conj (Ydoc s A B ell m) = (-1 : ℂ) ^ (s + m) * Ydoc (-s) A B ell (-m) := by
  unfold Ydoc
  rw [map_mul, Complex.conj_ofReal, neg_neg, Int.natAbs_neg]
  have h := docD_conj_symm ell A B hAB m (-s) hm (by omega)
  rw [neg_neg] at h
  rw [h, neg_one_zpow_congr (s + m) (m + -s) (by omega)]
  linear_combination (((((-1) ^ s.natAbs * Real.sqrt ((2 * (ell : ℝ) + 1) / (4 * Real.pi)) : ℝ) : ℂ))
    * conj (docD ell A B m (-s))) * (neg_one_zpow_sq (m + -s)).symm

/-- conjugating the value: `conj (Σ f_{ℓm} ₛY_{ℓm}) = Σ (−1)^{s+m} conj(f_{ℓ,−m}) ₋ₛY_{ℓm}` -/
theorem conj_evalFn (s : ℤ) (L : ℕ) (A B : ℂ) (hAB : Complex.normSq A + Complex.normSq B = 1) (w : ℕ → ℂ) :
    conj (evalFn s L w (Ydoc s A B))
      = evalFn (-s) L (fun p => (-1 : ℂ) ^ (s + mOf p) * conj (w (pos (Nat.sqrt p : ℤ) (-(mOf p))))) (Ydoc (-s) A B) := by
  unfold evalFn
  rw [map_sum, Int.natAbs_neg]
  apply Finset.sum_congr rfl
  intro ell hell
  rw [Finset.mem_Icc] at hell
  rw [map_sum, sum_Icc_neg]
  apply Finset.sum_congr rfl
  intro m hm
  rw [Finset.mem_Icc] at hm
  have h0 : (0 : ℤ) ≤ ell := Int.natCast_nonneg _
  beta_reduce
  rw [map_mul, conj_Ydoc s A B hAB ell (-m) hell.1 (by omega), neg_neg, sqrt_pos _ _ h0 hm.1 hm.2,
    mOf_pos _ _ h0 hm.1 hm.2, neg_one_zpow_congr (s + -m) (s + m) (by omega)]
  ring

/-! ### 5. loops that write every pair `(ℓ, ±m)` once: closed form through the model's conjugation loop -/

/-- reflection `(ℓ, m) ↦ (ℓ, −m)` of a position -/
def reflP (p : ℕ) : ℕ := pos (Nat.sqrt p : ℤ) (-(mOf p))

theorem reflP_pos (ell m : ℤ) (h0 : 0 ≤ ell) (hm1 : -ell ≤ m) (hm2 : m ≤ ell) : reflP (pos ell m) = pos ell (-m) := by
  unfold reflP
  rw [sqrt_pos _ _ h0 hm1 hm2, mOf_pos _ _ h0 hm1 hm2]

theorem reflP_reflP (p : ℕ) : reflP (reflP p) = p := by
  obtain ⟨d1, d2, d3⟩ := decode p
  have e0 : (0 : ℤ) ≤ Nat.sqrt p := Int.natCast_nonneg _
  have : reflP p = pos (Nat.sqrt p : ℤ) (-(mOf p)) := rfl
  rw [this, reflP_pos _ _ e0 (by omega) (by omega), neg_neg, d3]

/-- one `ell` of a loop that writes `W` at `(ℓ, 0)` and then, for m = 1 … ℓ, at `(ℓ, m)` and `(ℓ, −m)` -/
def pairStep {α : Type} (W : ℕ → α) (c : Row α) (ell : ℤ) : Row α :=
  (irange 1 ell).foldl (fun c m => (c.upd (pos ell m) (W (pos ell m))).upd (pos ell (-m)) (W (pos ell (-m))))
    (c.upd (pos ell 0) (W (pos ell 0)))

def pairLoop {α : Type} (W : ℕ → α) (L : ℤ) (c0 : Row α) : Row α := (irange 0 L).foldl (pairStep W) c0

theorem foldl_ext_mem {α β : Type} (f g : β → α → β) (l : List α) (h : ∀ b, ∀ a ∈ l, f b a = g b a) (b : β) :
    l.foldl f b = l.foldl g b := by
  induction l generalizing b with
  | nil => rfl
  | cons a l ih =>
    rw [List.foldl_cons, List.foldl_cons, h b a List.mem_cons_self]
    exact ih (fun b a' ha' => h b a' (List.mem_cons_of_mem _ ha')) _

theorem pairStep_eq_conj {α : Type} (W : ℕ → α) (c : Row α) (ell : ℤ) (h0 : 0 ≤ ell) :
    pairStep W c ell = conjStepUfunc id id 0 (fun q => W (reflP q)) c ell := by
  unfold pairStep conjStepUfunc
  simp only [id, zero_add]
  have e0 : reflP (pos ell 0) = pos ell 0 := by
    rw [reflP_pos _ _ h0 (by omega) (by omega), neg_zero]
  rw [if_pos (by decide), e0]
  apply foldl_ext_mem
  intro c m hm
  rw [mem_irange] at hm
  rw [reflP_pos _ _ h0 (by omega) (by omega), reflP_pos _ _ h0 (by omega) (by omega), neg_neg]
  split <;> rfl

theorem pairLoop_eq_conj {α : Type} (W : ℕ → α) (L : ℤ) (c0 : Row α) :
    pairLoop W L c0 = conjLoopUfunc id id 0 L (fun q => W (reflP q)) c0 := by
  unfold pairLoop conjLoopUfunc
  apply foldl_ext_mem
  intro c ell hell
  have : ell ∈ irange 0 L := hell
  rw [mem_irange] at this
  exact pairStep_eq_conj W c ell this.1

/-- closed form of such a loop: position `p` holds `W p` when `⌊√p⌋ ≤ L`, and is untouched otherwise -/
theorem pairLoop_get {α : Type} (W : ℕ → α) (L : ℤ) (c0 : Row α) (p : ℕ) :
    (pairLoop W L c0).get p = if (Nat.sqrt p : ℤ) ≤ L then W p else c0.get p := by
  rw [pairLoop_eq_conj, conjLoopUfunc_get]
  have e0 : (0 : ℤ) ≤ Nat.sqrt p := Int.natCast_nonneg _
  by_cases h : (Nat.sqrt p : ℤ) ≤ L
  · rw [if_pos ⟨by simp, h⟩, if_pos h]
    unfold conjF sgn
    have : W (reflP (pos (Nat.sqrt p : ℤ) (-(mOf p)))) = W p := by
      have := reflP_reflP p
      unfold reflP at this ⊢
      rw [this]
    split <;> exact this
  · rw [if_neg (fun h' => h h'.2), if_neg h]

/-! ### 6. `Modes.real` / `Modes.imag`: the loops of `_real_func` / `_imag_func` (`inplace=False`, spin weight 0) -/

/-- one `ell` of the loop of `Modes._real_func`:
    ```
    c[..., i] = np.real(s[..., i])
    for m in range(1, ell+1):
        if m%2 == 0: c[..., i_p] = (s[..., i_p] + np.conjugate(s[..., i_n])) / 2;  c[..., i_n] = np.conjugate(c[..., i_p])
        else:        c[..., i_p] = (s[..., i_p] - np.conjugate(s[..., i_n])) / 2;  c[..., i_n] = -np.conjugate(c[..., i_p])
    ``` -/
def realStep (src : ℕ → ℂ) (c : Row ℂ) (ell : ℤ) : Row ℂ :=
  let i := pos ell 0
  let c := c.upd i (((src i).re : ℝ) : ℂ)
  (irange 1 ell).foldl (fun c m =>
    let ip := pos ell m
    let im := pos ell (-m)
    if m % 2 = 0 then
      let c := c.upd ip ((src ip + conj (src im)) / 2)
      c.upd im (conj (c.get ip))
    else
      let c := c.upd ip ((src ip - conj (src im)) / 2)
      c.upd im (-conj (c.get ip))) c

/-- `Modes._real_func(False)` for spin weight 0: `for ell in range(abs(0), ell_max+1)`, starting from `c0`
    (`np.zeros_like(s)`) -/
def realLoop (L : ℤ) (src : ℕ → ℂ) (c0 : Row ℂ) : Row ℂ := (irange 0 L).foldl (realStep src) c0

/-- one `ell` of the loop of `Modes._imag_func`:
    ```
    c[..., i] = np.imag(s[..., i])
    for m in range(1, ell+1):
        if m%2 == 0: c[..., i_p] = -1j * (s[..., i_p] - np.conjugate(s[..., i_n])) / 2;  c[..., i_n] = np.conjugate(c[..., i_p])
        else:        c[..., i_p] = -1j * (s[..., i_p] + np.conjugate(s[..., i_n])) / 2;  c[..., i_n] = -np.conjugate(c[..., i_p])
    ``` -/
def imagStep (src : ℕ → ℂ) (c : Row ℂ) (ell : ℤ) : Row ℂ :=
  let i := pos ell 0
  let c := c.upd i (((src i).im : ℝ) : ℂ)
  (irange 1 ell).foldl (fun c m =>
    let ip := pos ell m
    let im := pos ell (-m)
    if m % 2 = 0 then
      let c := c.upd ip (-Complex.I * (src ip - conj (src im)) / 2)
      c.upd im (conj (c.get ip))
    else
      let c := c.upd ip (-Complex.I * (src ip + conj (src im)) / 2)
      c.upd im (-conj (c.get ip))) c

def imagLoop (L : ℤ) (src : ℕ → ℂ) (c0 : Row ℂ) : Row ℂ := (irange 0 L).foldl (imagStep src) c0

/-- closed forms: `(f_{ℓm} ± (−1)^m conj f_{ℓ,−m}) / 2`, times `−i` for the imaginary part -/
def realW (src : ℕ → ℂ) (p : ℕ) : ℂ := (src p + (-1 : ℂ) ^ (mOf p) * conj (src (reflP p))) / 2
def imagW (src : ℕ → ℂ) (p : ℕ) : ℂ := -Complex.I * (src p - (-1 : ℂ) ^ (mOf p) * conj (src (reflP p))) / 2

theorem realW_pos (src : ℕ → ℂ) (ell m : ℤ) (h0 : 0 ≤ ell) (hm1 : -ell ≤ m) (hm2 : m ≤ ell) :
    realW src (pos ell m) = (src (pos ell m) + (-1 : ℂ) ^ m * conj (src (pos ell (-m)))) / 2 := by
  unfold realW
  rw [reflP_pos _ _ h0 hm1 hm2, mOf_pos _ _ h0 hm1 hm2]

theorem imagW_pos (src : ℕ → ℂ) (ell m : ℤ) (h0 : 0 ≤ ell) (hm1 : -ell ≤ m) (hm2 : m ≤ ell) :
    imagW src (pos ell m) = -Complex.I * (src (pos ell m) - (-1 : ℂ) ^ m * conj (src (pos ell (-m)))) / 2 := by
  unfold imagW
  rw [reflP_pos _ _ h0 hm1 hm2, mOf_pos _ _ h0 hm1 hm2]

theorem upd_get_self {α : Type} (c : Row α) (i : ℕ) (v : α) : (c.upd i v).get i = v := by simp [Row.upd]

theorem conj_two : (starRingEnd ℂ) (2 : ℂ) = 2 := map_ofNat _ 2

theorem div_two_I (x : ℂ) : x / (2 * Complex.I) = -Complex.I * x / 2 := by
  rw [div_eq_iff (mul_ne_zero two_ne_zero Complex.I_ne_zero)]
  linear_combination x * Complex.I_sq

theorem realStep_eq (src : ℕ → ℂ) (c : Row ℂ) (ell : ℤ) (h0 : 0 ≤ ell) :
    realStep src c ell = pairStep (realW src) c ell := by
  unfold realStep pairStep
  simp only []
  have e0 : (((src (pos ell 0)).re : ℝ) : ℂ) = realW src (pos ell 0) := by
    rw [realW_pos src ell 0 h0 (by omega) (by omega), neg_zero, zpow_zero, one_mul, Complex.re_eq_add_conj]
  rw [e0]
  apply foldl_ext_mem
  intro c m hm
  rw [mem_irange] at hm
  have hp := realW_pos src ell m h0 (by omega) (by omega)
  have hn := realW_pos src ell (-m) h0 (by omega) (by omega)
  rw [neg_neg] at hn
  split
  · next he =>
    have s1 : (-1 : ℂ) ^ m = 1 := Even.neg_one_zpow (Int.even_iff.2 he)
    have s2 : (-1 : ℂ) ^ (-m) = 1 := Even.neg_one_zpow (Int.even_iff.2 (by omega))
    have a : (src (pos ell m) + conj (src (pos ell (-m)))) / 2 = realW src (pos ell m) := by
      rw [hp, s1, one_mul]
    have b : conj ((src (pos ell m) + conj (src (pos ell (-m)))) / 2) = realW src (pos ell (-m)) := by
      rw [hn, s2, one_mul, map_div₀, map_add, Complex.conj_conj, conj_two, add_comm]
    rw [upd_get_self, b, a]
  · next he =>
    have s1 : (-1 : ℂ) ^ m = -1 := Odd.neg_one_zpow (Int.odd_iff.2 (by omega))
    have s2 : (-1 : ℂ) ^ (-m) = -1 := Odd.neg_one_zpow (Int.odd_iff.2 (by omega))
    have a : (src (pos ell m) - conj (src (pos ell (-m)))) / 2 = realW src (pos ell m) := by
      rw [hp, s1]; ring
    have b : -conj ((src (pos ell m) - conj (src (pos ell (-m)))) / 2) = realW src (pos ell (-m)) := by
      rw [hn, s2, map_div₀, map_sub, Complex.conj_conj, conj_two]; ring
    rw [upd_get_self, b, a]

theorem realLoop_eq (L : ℤ) (src : ℕ → ℂ) (c0 : Row ℂ) : realLoop L src c0 = pairLoop (realW src) L c0 := by
  unfold realLoop pairLoop
  apply foldl_ext_mem
  intro c ell hell
  rw [mem_irange] at hell
  exact realStep_eq src c ell hell.1

theorem imagStep_eq (src : ℕ → ℂ) (c : Row ℂ) (ell : ℤ) (h0 : 0 ≤ ell) :
    imagStep src c ell = pairStep (imagW src) c ell := by
  unfold imagStep pairStep
  simp only []
  have e0 : (((src (pos ell 0)).im : ℝ) : ℂ) = imagW src (pos ell 0) := by
    rw [imagW_pos src ell 0 h0 (by omega) (by omega), neg_zero, zpow_zero, one_mul, Complex.im_eq_sub_conj,
      div_two_I]
  rw [e0]
  apply foldl_ext_mem
  intro c m hm
  rw [mem_irange] at hm
  have hp := imagW_pos src ell m h0 (by omega) (by omega)
  have hn := imagW_pos src ell (-m) h0 (by omega) (by omega)
  rw [neg_neg] at hn
  split
  · next he =>
    have s1 : (-1 : ℂ) ^ m = 1 := Even.neg_one_zpow (Int.even_iff.2 he)
    have s2 : (-1 : ℂ) ^ (-m) = 1 := Even.neg_one_zpow (Int.even_iff.2 (by omega))
    have a : -Complex.I * (src (pos ell m) - conj (src (pos ell (-m)))) / 2 = imagW src (pos ell m) := by
      rw [hp, s1, one_mul]
    have b : conj (-Complex.I * (src (pos ell m) - conj (src (pos ell (-m)))) / 2)
        = imagW src (pos ell (-m)) := by
      rw [hn, s2, map_div₀, map_mul, map_neg, map_sub, Complex.conj_conj, Complex.conj_I, conj_two]; ring
    rw [upd_get_self, b, a]
  · next he =>
    have s1 : (-1 : ℂ) ^ m = -1 := Odd.neg_one_zpow (Int.odd_iff.2 (by omega))
    have s2 : (-1 : ℂ) ^ (-m) = -1 := Odd.neg_one_zpow (Int.odd_iff.2 (by omega))
    have a : -Complex.I * (src (pos ell m) + conj (src (pos ell (-m)))) / 2 = imagW src (pos ell m) := by
      rw [hp, s1]; ring
    have b : -conj (-Complex.I * (src (pos ell m) + conj (src (pos ell (-m)))) / 2)
        = imagW src (pos ell (-m)) := by
      rw [hn, s2, map_div₀, map_mul, map_neg, map_add, Complex.conj_conj, Complex.conj_I, conj_two]; ring
    rw [upd_get_self, b, a]

theorem imagLoop_eq (L : ℤ) (src : ℕ → ℂ) (c0 : Row ℂ) : imagLoop L src c0 = pairLoop (imagW src) L c0 := by
  unfold imagLoop pairLoop
  apply foldl_ext_mem
  intro c ell hell
  rw [mem_irange] at hell
  exact imagStep_eq src c ell hell.1

/-- per-entry closed form of the loop of `Modes.real`: for `0 ≤ ℓ ≤ L`, `|m| ≤ ℓ`
    the entry written at `(ℓ, m)` is `(f_{ℓm} + conj(f)_{ℓm}) / 2` with `conj(f)` the stored row of the model's
    conjugation (`Model.Modes.conjRow`, spin 0) -/
theorem realLoop_entry (L : ℕ) (src : ℕ → ℂ) (c0 c0' : Row ℂ) (ell : ℕ) (m : ℤ) (h2 : ell ≤ L)
    (hm1 : -(ell : ℤ) ≤ m) (hm2 : m ≤ ell) :
    (realLoop (L : ℤ) src c0).get (pos (ell : ℤ) m)
      = (src (pos (ell : ℤ) m) + conjRow cneg cconj 0 (L : ℤ) src c0' 0 (pos (ell : ℤ) m)) / 2 := by
  have h0 : (0 : ℤ) ≤ ell := Int.natCast_nonneg _
  rw [realLoop_eq, pairLoop_get, sqrt_pos _ _ h0 hm1 hm2, if_pos (by exact_mod_cast h2),
    realW_pos _ _ _ h0 hm1 hm2, conjRow_entry 0 L src c0' ell m (by simp) h2 hm1 hm2, zero_add]

/-- per-entry closed form of the loop of `Modes.imag`: `(f_{ℓm} − conj(f)_{ℓm}) / (2i)` -/
theorem imagLoop_entry (L : ℕ) (src : ℕ → ℂ) (c0 c0' : Row ℂ) (ell : ℕ) (m : ℤ) (h2 : ell ≤ L)
    (hm1 : -(ell : ℤ) ≤ m) (hm2 : m ≤ ell) :
    (imagLoop (L : ℤ) src c0).get (pos (ell : ℤ) m)
      = (src (pos (ell : ℤ) m) - conjRow cneg cconj 0 (L : ℤ) src c0' 0 (pos (ell : ℤ) m)) / (2 * Complex.I) := by
  have h0 : (0 : ℤ) ≤ ell := Int.natCast_nonneg _
  rw [imagLoop_eq, pairLoop_get, sqrt_pos _ _ h0 hm1 hm2, if_pos (by exact_mod_cast h2),
    imagW_pos _ _ _ h0 hm1 hm2, conjRow_entry 0 L src c0' ell m (by simp) h2 hm1 hm2, zero_add]
  rw [div_two_I]

/-! ### 7. the row Modes×Modes add / subtract builds -/

/-- the output row of `Model.Modes.addEntries` (with or without `out=`, also when `out` is an operand's buffer), in
    terms of the operands' rows before the call -/
theorem addEntries_row {β : Type} (comb : β → β → β) (zero : β) (k1 k2 : ℕ) (mem : ℕ → Row β) (b1 b2 fresh : ℕ)
    (out : Option ℕ) (p : ℕ) :
    (((addEntries comb zero k1 k2 mem b1 b2 fresh out).1 (addEntries comb zero k1 k2 mem b1 b2 fresh out).2).get p)
      = if p < k2 then comb (if p < k1 then (mem b1).get p else zero) ((mem b2).get p)
        else if p < k1 then (mem b1).get p else zero := by
  cases out with
  | none =>
    have h : (addEntries comb zero k1 k2 mem b1 b2 fresh none).2 = fresh := rfl
    rw [h]
    exact (C13.add_out_overwrites comb zero k1 k2 mem b1 b2 fresh 0).2.2.2 p
  | some bo =>
    obtain ⟨a, b, _, d⟩ := C13.add_out_overwrites comb zero k1 k2 mem b1 b2 fresh bo
    rw [b, a]
    exact d p

theorem addEntries_row_add (k1 k2 : ℕ) (mem : ℕ → Row ℂ) (b1 b2 fresh : ℕ) (out : Option ℕ) (p : ℕ) :
    (((addEntries (· + ·) (0 : ℂ) k1 k2 mem b1 b2 fresh out).1
        (addEntries (· + ·) (0 : ℂ) k1 k2 mem b1 b2 fresh out).2).get p)
      = padRow k1 (mem b1).get p + padRow k2 (mem b2).get p := by
  rw [addEntries_row]
  unfold padRow
  by_cases h2 : p < k2 <;> simp [h2]

theorem addEntries_row_sub (k1 k2 : ℕ) (mem : ℕ → Row ℂ) (b1 b2 fresh : ℕ) (out : Option ℕ) (p : ℕ) :
    (((addEntries (· - ·) (0 : ℂ) k1 k2 mem b1 b2 fresh out).1
        (addEntries (· - ·) (0 : ℂ) k1 k2 mem b1 b2 fresh out).2).get p)
      = padRow k1 (mem b1).get p - padRow k2 (mem b2).get p := by
  rw [addEntries_row]
  unfold padRow
  by_cases h2 : p < k2 <;> simp [h2]

/-! ### 8. transfer to the model of `Wigner.evaluate` -/

section transfer
variable {μ : Type} [Mem μ ℝ]

/-- `Routes.evaluate_eq_sum_sYlm` in the vocabulary of `evalFn` -/
theorem evaluateHorner_evalFn (st : μ) (f : Array (Cx ℝ)) (za zg zgpowE zgpowY : Cx ℝ)
    (zaArr : Array (Cx ℝ)) (s : ℤ) (ellMax : ℕ)
    (hza : ∀ k ≤ ellMax, toC (cget zaArr k) = toC za ^ k)
    (hnorm : Complex.normSq (toC zg) = 1)
    (hE : toC zgpowE = (conj (toC zg)) ^ s)
    (hY : toC zgpowY = toC zg ^ s.natAbs) :
    toC (evaluateHorner st f za zgpowE s ellMax ⟨zero, zero⟩)
      = evalFn s ellMax (fun p => toC (cget f p)) (fun ell m => toC (sYlmEntry st zaArr zgpowY s ell m)) := by
  rw [Routes.evaluate_eq_sum_sYlm st f za zg zgpowE zgpowY zaArr s ellMax hza hnorm hE hY]
  unfold evalFn
  simp only [fAt_eq_cget]

/-- The object-level model of `Wigner.evaluate(modes, R)` (Horner route) at a unit quaternion is `evalFn` of the
    weight row against the DOCUMENTED sYlm at R_a = w + iz, R_b = y + ix. -/
theorem objEvalH_evalFn [LawfulMem μ ℝ] (L P : ℕ) (st : μ) (R0 R1 R2 R3 : ℝ)
    (hR : R0 ^ 2 + R1 ^ 2 + R2 ^ 2 + R3 ^ 2 = 1) (zgpowE : Cx ℝ) (f : Array (Cx ℝ)) (s : ℤ) (ellMax : ℕ)
    (prev : Cx ℝ) (hL : ellMax ≤ L) (hsP : s.natAbs ≤ P)
    (hE : toC zgpowE = (conj (toC (eulerPhases R0 R1 R2 R3).2.2)) ^ s) :
    toC (objEvalH L P st R0 R1 R2 R3 zgpowE f s ellMax prev)
      = evalFn s ellMax (fun p => toC (cget f p)) (Ydoc s (Ra R0 R3) (Rb R1 R2)) := by
  have up := (zpR_spec R0 R3).2
  have um := (zmR_spec R1 R2).2
  have hu := mul_unit _ _ up (conj_unit _ um)
  have hY : toC (ofC (toC (eulerPhases R0 R1 R2 R3).2.2 ^ s.natAbs))
      = toC (eulerPhases R0 R1 R2 R3).2.2 ^ s.natAbs := rfl
  have key : ∀ ell : ℕ, s.natAbs ≤ ell → ell ≤ ellMax → ∀ m : ℤ, -(ell : ℤ) ≤ m → m ≤ ell →
      toC (objY L P st R0 R1 R2 R3 imsqrtR (ofC (toC (eulerPhases R0 R1 R2 R3).2.2 ^ s.natAbs)) s ell m)
        = Ydoc s (Ra R0 R3) (Rb R1 R2) ell m := fun ell h1 h2 m h3 h4 =>
    DAll.sYlm_all L P st R0 R1 R2 R3 hR imsqrtR imsqrtR_spec _ s hY ell (by omega) h1 hsP m (by omega)
  unfold objEvalH evaluateHornerK
  unfold objY at key
  rw [eulerPhases_unit R0 R1 R2 R3 hR] at hE hY key ⊢
  simp only [] at hE hY key ⊢
  have hn : Complex.normSq (toC (Cx.mul (zpR R0 R3) (Cx.conj (zmR R1 R2)))) = 1 := by
    rw [Complex.normSq_apply]
    have : (toC (Cx.mul (zpR R0 R3) (Cx.conj (zmR R1 R2)))).re = (Cx.mul (zpR R0 R3) (Cx.conj (zmR R1 R2))).re := rfl
    have h2 : (toC (Cx.mul (zpR R0 R3) (Cx.conj (zmR R1 R2)))).im = (Cx.mul (zpR R0 R3) (Cx.conj (zmR R1 R2))).im := rfl
    rw [this, h2]; linarith
  rw [evaluateHorner_evalFn _ f (Cx.mul (zpR R0 R3) (zmR R1 R2)) (Cx.mul (zpR R0 R3) (Cx.conj (zmR R1 R2))) zgpowE
    (ofC (toC (Cx.mul (zpR R0 R3) (Cx.conj (zmR R1 R2))) ^ s.natAbs))
    (cpowers (Cx.mul (zpR R0 R3) (zmR R1 R2)) L imsqrtR) s ellMax
    (fun k hk => cpowers_cget _ (mul_unit _ _ up um) L imsqrtR imsqrtR_spec k (by omega)) hn hE hY]
  apply evalFn_congr
  intro ell h1 h2 m h3 h4
  rw [key ell h1 h2 m h3 h4]

end transfer

/-! ### 9. witnesses (used only in satisfiability examples) -/

/-- the array holding the first `n` entries of a row -/
def rowArr (r : ℕ → ℂ) (n : ℕ) : Array (Cx ℝ) := Array.ofFn (n := n) fun k => ofC (r k)

theorem rowArr_spec (r : ℕ → ℂ) (n : ℕ) (h : ∀ p, n ≤ p → r p = 0) : ∀ p, toC (cget (rowArr r n) p) = r p := by
  intro p
  by_cases hp : p < n
  · simp [cget, rowArr, Array.getD, hp]
  · rw [h p (by omega)]
    unfold cget rowArr Array.getD
    rw [dif_neg (by rw [Array.size_ofFn]; exact hp)]
    exact toC_zero

theorem sqrt_ge_of_sq_le (L p : ℕ) (h : (L + 1) * (L + 1) ≤ p) : L < Nat.sqrt p := by
  have := Nat.le_sqrt.2 h
  omega

end FuncAlg
end
