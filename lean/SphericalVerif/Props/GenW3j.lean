import SphericalVerif.Gen.W3jKern
import SphericalVerif.Lemmas.GenDiff
import SphericalVerif.Lemmas.Frame
/-! GenW3j — `Wigner3jCalculator.calculate` **as the Python text states it** (`Gen/W3jKern.lean`, regenerated on every run from
    spherical/recursions/wigner3j.py with `normalize` / `determine_signs` inlined, early returns, `break`s, the `raise` and the four views
    of the workspace restructured as described in that file; run at `Float` against the jitted method bit for bit on every run,
    corr batch `w3j-calculate-generated-kernel`).

    Proved here, for every arithmetic, size and previous content of the workspace: the selection-rule exits.  When `|m2| > j2`,
    `|m3| > j3` or `j2 + j3 < max(|j2-j3|, |m2+m3|)` the generated method does nothing but zero the whole workspace — so the returned
    view is all zeros whatever the workspace held, nothing outside the workspace is written and the exception cell is untouched
    (`gen_w3j_out_of_range`, `gen_w3j_out_of_range_zeros`): C05's "exactly 0 whenever a selection rule fails" for `calculate`, and the
    history-independence (C09) of those calls, for the code as written.  The general recurrence path is tied by the bitwise
    correspondence only (its hand-written model `Model.W3j.calculate` carries the theorems of `Props/C05`).  The whole method — every path —
    writes nothing but the object's own array (`gen_w3j_only`, by the let-peeling tactic `peel_all` of `Lemmas/Frame`: zeta-reducing the
    400-line term, as `frame_step` alone would, does not terminate in reasonable time). -/
namespace GenW3j
open Gen GenDiff

/-- the first statement, `self.workspace[:] = 0.0` -/
def zeroed (α : Type) [Scalar α] {φ : Type} [FMem φ α] (ws : Nat) (size : Int) (st : φ) : φ :=
  loopN (((((4 : Int) * size) - (0 : Int))) - ((0 : Int))).toNat (fun k1 (st : φ) =>
    fwr (α := α) st ws ((0 : Int) + ((0 : Int) + (k1 : Int))) (Scalar.ofInt (0 : Int) : α)) st

section
variable {α : Type} [Scalar α] {φ : Type} [FMem φ α] [LawfulFMem φ α]

/-- selection rules on the `m`s or the triangle: the method zeroes the workspace and returns -/
theorem gen_w3j_out_of_range (ws : Nat) (size j2 j3 m2 m3 : Int) (st : φ)
    (h : (((Int.natAbs m2 : Nat) : Int) > j2 ∨ ((Int.natAbs m3 : Nat) : Int) > j3)
      ∨ j2 + j3 < max ((Int.natAbs (j2 - j3) : Nat) : Int) ((Int.natAbs (m2 + m3) : Nat) : Int)) :
    Gen.Wigner3jCalculator_calculate (α := α) ws size j2 j3 m2 m3 st = zeroed α ws size st := by
  unfold Gen.Wigner3jCalculator_calculate zeroed
  -- (no zeta-reduction of the whole body — it multiplies the tuple-valued conditionals —: only the two leading conditionals are decided)
  by_cases h' : (((Int.natAbs m2 : Nat) : Int) > j2 ∨ ((Int.natAbs m3 : Nat) : Int) > j3)
  · simp -zeta only [h', if_true]
    rfl
  · have h2 : j2 + j3 < max ((Int.natAbs (j2 - j3) : Nat) : Int) ((Int.natAbs (m2 + m3) : Nat) : Int) := h.resolve_left h'
    simp -zeta only [h', if_false]
    extract_lets (onlyGivenNames := true) m1 a b c d e f
    have he : e < d := h2
    simp -zeta only [he, if_true]
    rfl

/-- `determine_signs`' test (also written out in the single-term branch): the value and `(-1)^k` have opposite signs -/
def signCond (x : α) (k : Int) : Bool :=
  ((Scalar.lt x (Scalar.ofInt (0 : Int) : α)) && (decide ((((-1 : Int) ^ (Int.natAbs k)) > (0 : Int)))))
    || ((Scalar.lt (Scalar.ofInt (0 : Int) : α) x) && (decide ((((-1 : Int) ^ (Int.natAbs k)) < (0 : Int)))))

/-- a single admissible `j1` (`j2 + j3 = max(|j2-j3|, |m2+m3|)`): after the zeroing the method stores `1/√(2 j_min + 1)` at `j_min` and flips its
    sign when it disagrees with `(-1)^(j2-j3+m2+m3)` — nothing else -/
theorem gen_w3j_single (ws : Nat) (size j2 j3 m2 m3 : Int) (st : φ)
    (h' : ¬ (((Int.natAbs m2 : Nat) : Int) > j2 ∨ ((Int.natAbs m3 : Nat) : Int) > j3))
    (he : j2 + j3 = max ((Int.natAbs (j2 - j3) : Nat) : Int) ((Int.natAbs (m2 + m3) : Nat) : Int)) :
    Gen.Wigner3jCalculator_calculate (α := α) ws size j2 j3 m2 m3 st
      = (let jmin : Int := max ((Int.natAbs (j2 - j3) : Nat) : Int) ((Int.natAbs (m2 + m3) : Nat) : Int)
         let st1 : φ := fwr (α := α) (zeroed α ws size st) ws ((0 : Int) + jmin)
           ((Scalar.ofInt (1 : Int) : α) /. (Scalar.sqrt (((Scalar.ofInt (2 : Int) : α) *. (Scalar.ofInt jmin : α)) +. (Scalar.ofInt (1 : Int) : α))))
         if signCond (frd (α := α) st1 ws ((0 : Int) + jmin)) (((j2 - j3) + m2) + m3) = true
         then fwr (α := α) st1 ws ((0 : Int) + jmin) ((frd (α := α) st1 ws ((0 : Int) + jmin)) *. (Scalar.neg (Scalar.ofInt (1 : Int) : α)))
         else st1) := by
  unfold Gen.Wigner3jCalculator_calculate zeroed
  simp -zeta only [h', if_false]
  extract_lets (onlyGivenNames := true) m1 a b c d e
  have h2 : e = d := he
  have h1 : ¬ (d < d) := lt_irrefl d
  simp -zeta only [h2, h1, if_false, if_true]
  rfl

/-- a run of stores of doubles -/
theorem frun_set (cnt : Nat) (A : Nat) (i0 : Int) (val : Nat → α) (st : φ) (a : Nat) (i : Int) :
    frd (α := α) (loopN cnt (fun k s => fwr (α := α) s A (i0 + (k : Int)) (val k)) st) a i
      = if a = A ∧ i0 ≤ i ∧ i < i0 + cnt then val (i - i0).toNat else frd (α := α) st a i := by
  induction cnt with
  | zero =>
    simp only [loopN]
    rw [if_neg (by omega)]
  | succ n ih =>
    simp only [loopN]
    rw [GenFill.frd_fwr, ih]
    by_cases c : a = A ∧ i = i0 + (n : Int)
    · rw [if_pos c, if_pos ⟨c.1, by omega, by push_cast; omega⟩]
      have : (i - i0).toNat = n := by omega
      rw [this]
    · rw [if_neg c]
      by_cases c2 : a = A ∧ i0 ≤ i ∧ i < i0 + (n : Int)
      · rw [if_pos c2, if_pos ⟨c2.1, c2.2.1, by push_cast; omega⟩]
      · rw [if_neg c2, if_neg (by
          intro ⟨h1, h2, h3⟩
          push_cast at h3
          exact c2 ⟨h1, h2, by
            have : i ≠ i0 + (n : Int) := fun e => c ⟨h1, e⟩
            omega⟩)]

/-- what zeroing leaves: 0.0 in every cell of the workspace, everything else as it was -/
theorem zeroed_cell (ws : Nat) (size : Int) (st : φ) (a : Nat) (i : Int) :
    frd (α := α) (zeroed α ws size st) a i
      = if a = ws ∧ 0 ≤ i ∧ i < 4 * size then (Scalar.ofInt (0 : Int) : α) else frd (α := α) st a i := by
  unfold zeroed
  have e : (fun (k1 : Nat) (st : φ) => fwr (α := α) st ws ((0 : Int) + ((0 : Int) + (k1 : Int))) (Scalar.ofInt (0 : Int) : α))
      = (fun (k : Nat) (s : φ) => fwr (α := α) s ws ((0 : Int) + (k : Int)) ((fun _ => (Scalar.ofInt (0 : Int) : α)) k)) := by
    funext k s; simp only [Int.zero_add]
  rw [e, frun_set]
  by_cases c : a = ws ∧ 0 ≤ i ∧ i < 4 * size
  · rw [if_pos c, if_pos ⟨c.1, c.2.1, by omega⟩]
  · rw [if_neg c, if_neg (by intro ⟨h1, h2, h3⟩; exact c ⟨h1, h2, by omega⟩)]

/-- **selection rules ⇒ exactly zero, whatever the workspace held**: every entry of the returned view `workspace[:size]` (indeed of the
    whole workspace) is `0.0`, every other array and the exception cell `4*size` are untouched -/
theorem gen_w3j_out_of_range_zeros (ws : Nat) (size j2 j3 m2 m3 : Int) (st : φ)
    (h : (((Int.natAbs m2 : Nat) : Int) > j2 ∨ ((Int.natAbs m3 : Nat) : Int) > j3)
      ∨ j2 + j3 < max ((Int.natAbs (j2 - j3) : Nat) : Int) ((Int.natAbs (m2 + m3) : Nat) : Int)) :
    (∀ i, 0 ≤ i → i < 4 * size → frd (α := α) (Gen.Wigner3jCalculator_calculate (α := α) ws size j2 j3 m2 m3 st) ws i = (Scalar.ofInt (0 : Int) : α))
    ∧ (∀ a i, (a ≠ ws ∨ i < 0 ∨ 4 * size ≤ i) → frd (α := α) (Gen.Wigner3jCalculator_calculate (α := α) ws size j2 j3 m2 m3 st) a i = frd (α := α) st a i) := by
  rw [gen_w3j_out_of_range ws size j2 j3 m2 m3 st h]
  refine ⟨fun i h1 h2 => ?_, fun a i h1 => ?_⟩
  · rw [zeroed_cell, if_pos ⟨rfl, h1, h2⟩]
  · rw [zeroed_cell, if_neg (by intro ⟨c1, c2, c3⟩; rcases h1 with h1 | h1 | h1 <;> [exact h1 c1; omega; omega])]

/-! ### footprints: the whole method writes its own workspace (and its exception cell), nothing else -/
open Frame in
set_option maxHeartbeats 1000000 in
/-- **`Wigner3jCalculator.calculate` writes only the object's own array** — every path of the 230-line method: the zeroing, the forward
    and reverse recursions, the three-term recurrence with rescaling, normalisation, the sign fix, the exception cell.  (By `peel_all`,
    which walks the generated term without zeta-reducing it.) -/
theorem gen_w3j_only (ws : Nat) (size j2 j3 m2 m3 : Int) (st : φ) :
    Frame.Only α [ws] st (Gen.Wigner3jCalculator_calculate (α := α) ws size j2 j3 m2 m3 st) := by
  unfold Gen.Wigner3jCalculator_calculate
  peel_all

open Frame in
set_option maxHeartbeats 1000000 in
/-- `Wigner3j` writes its result cell and the workspace of the calculator it constructs, nothing else -/
theorem gen_wigner3j_only (res ws : Nat) (j1 j2 j3 m1 m2 m3 : Int) (st : φ) :
    Frame.Only α [res, ws] st (Gen.Wigner3j (α := α) res ws j1 j2 j3 m1 m2 m3 st) := by
  unfold Gen.Wigner3j
  have hc : ∀ size a b c d (x : φ), Frame.Only α [res, ws] st x → Frame.Only α [res, ws] st (Gen.Wigner3jCalculator_calculate (α := α) ws size a b c d x) :=
    fun size a b c d x hx => Frame.Only.trans _ _ _ _ hx (Frame.Only.mono _ _ _ _ (by simp) (gen_w3j_only ws size a b c d x))
  peel_all

/-! ### the front ends `Wigner3j` and `clebsch_gordan`, from the source: exactly 0 whenever a selection rule fails -/

/-- `m_1 + m_2 + m_3 ≠ 0`: the literal `0.0` is returned (nothing else happens: the calculator is not even constructed) -/
theorem gen_wigner3j_m_sum (res ws : Nat) (j1 j2 j3 m1 m2 m3 : Int) (st : φ) (h : m1 + m2 + m3 ≠ 0) :
    Gen.Wigner3j (α := α) res ws j1 j2 j3 m1 m2 m3 st = fwr (α := α) st res 0 (Scalar.ofInt (0 : Int) : α) := by
  unfold Gen.Wigner3j
  simp -zeta only [h, ne_eq, not_false_eq_true, if_true]
  rfl

/-- some `|m_i| > j_i`: the literal `0.0` -/
theorem gen_wigner3j_m_range (res ws : Nat) (j1 j2 j3 m1 m2 m3 : Int) (st : φ) (h0 : m1 + m2 + m3 = 0)
    (h : ((Int.natAbs m1 : Nat) : Int) > j1 ∨ ((Int.natAbs m2 : Nat) : Int) > j2 ∨ ((Int.natAbs m3 : Nat) : Int) > j3) :
    Gen.Wigner3j (α := α) res ws j1 j2 j3 m1 m2 m3 st = fwr (α := α) st res 0 (Scalar.ofInt (0 : Int) : α) := by
  unfold Gen.Wigner3j
  have h0' : ¬ (m1 + m2 + m3 ≠ 0) := by omega
  simp -zeta only [h0', h, if_true, if_false]
  rfl

/-- the triangle inequality fails (the largest `j` exceeds the sum of the other two): the literal `0.0`, for each of the three cyclic
    arrangements the function brings the largest `j` to the front with -/
theorem gen_wigner3j_triangle (res ws : Nat) (j1 j2 j3 m1 m2 m3 : Int) (st : φ) (h0 : m1 + m2 + m3 = 0)
    (h : ¬ (((Int.natAbs m1 : Nat) : Int) > j1 ∨ ((Int.natAbs m2 : Nat) : Int) > j2 ∨ ((Int.natAbs m3 : Nat) : Int) > j3))
    (ht : 2 * max (max j1 j2) j3 > j1 + j2 + j3) :
    Gen.Wigner3j (α := α) res ws j1 j2 j3 m1 m2 m3 st = fwr (α := α) st res 0 (Scalar.ofInt (0 : Int) : α) := by
  unfold Gen.Wigner3j
  have h0' : ¬ (m1 + m2 + m3 ≠ 0) := by omega
  simp -zeta only [h0', h, if_false]
  by_cases c1 : j1 = max (max j1 j2) j3
  · have hm : max (max j1 j2) j3 = j1 := c1.symm
    have c : j1 > j2 + j3 := by omega
    simp [hm, c]
  · by_cases c2 : j2 = max (max j1 j2) j3
    · have hm : max (max j1 j2) j3 = j2 := c2.symm
      have ne : j1 ≠ j2 := fun e => c1 (by omega)
      have c : j2 > j3 + j1 := by omega
      simp [hm, ne, c]
    · have hm : max (max j1 j2) j3 = j3 := by omega
      have ne1 : j1 ≠ j3 := fun e => c1 (by omega)
      have ne2 : j2 ≠ j3 := fun e => c2 (by omega)
      have c : j3 > j1 + j2 := by omega
      simp [hm, ne1, ne2, c]

/-- `clebsch_gordan` with `m_1 + m_2 ≠ m_3`: the finite factor `(-1)^(j_1-j_2+m_3) √(2 j_3+1)` times the literal `0.0` -/
theorem gen_cg_m_sum (res ws : Nat) (j1 m1 j2 m2 j3 m3 : Int) (st : φ) (h : m1 + m2 ≠ m3) :
    Gen.clebsch_gordan (α := α) res ws j1 m1 j2 m2 j3 m3 st
      = ((Scalar.ofInt ((-1 : Int) ^ (Int.natAbs ((j1 - j2) + m3))) : α) *. (Scalar.sqrt (Scalar.ofInt (((2 : Int) * j3) + (1 : Int)) : α)))
          *. (Scalar.ofInt (0 : Int) : α) := by
  unfold Gen.clebsch_gordan
  rw [gen_wigner3j_m_sum res ws j1 j2 j3 m1 m2 (-m3) st (by omega), GenFill.frd_fwr_same]

/-- the premises are met, e.g. by `m2 = 3 > j2 = 2` -/
example : (((Int.natAbs (3 : Int) : Nat) : Int) > (2 : Int) ∨ ((Int.natAbs (0 : Int) : Nat) : Int) > (1 : Int))
    ∨ (2 : Int) + 1 < max ((Int.natAbs ((2 : Int) - 1) : Nat) : Int) ((Int.natAbs ((3 : Int) + 0) : Nat) : Int) := by decide
end
end GenW3j
